(* Proofs/C24_ir2py.v — lemmas for property C24 (IR -> Python backend). *)
From PV Require Import Lib.Py Lib.Tac Spec.IRSemArith Gen.ir2py_runtime Model.Ir2Py.
From Coq Require Import String.
Open Scope Z_scope.

(* ------------------------------------------------------------------ runtime helpers *)
Lemma bit_length_eq v n : 1 <= n -> 0 <= v < 2 ^ n -> (bit_length v =? n) = (2 ^ (n - 1) <=? v).
Proof.
  intros Hn Hv. unfold bit_length.
  assert (P : 0 < 2 ^ (n - 1)) by (apply Z.pow_pos_nonneg; lia).
  destruct (Z.eqb_spec v 0) as [->|Hz]; [lia|].
  rewrite Z.abs_eq by lia.
  assert (Z.log2 v < n) by (apply Z.log2_lt_pow2; lia).
  destruct (Z.leb_spec (2 ^ (n - 1)) v).
  - assert (n - 1 <= Z.log2 v) by (apply Z.log2_le_pow2; lia). lia.
  - assert (Z.log2 v < n - 1) by (apply Z.log2_lt_pow2; lia). lia.
Qed.

Lemma pow2_split n : 1 <= n -> 2 ^ n = 2 * 2 ^ (n - 1).
Proof. intros H. replace n with (1 + (n - 1)) at 1 by lia. rewrite Z.pow_add_r by lia. reflexivity. Qed.

Lemma correct_wrap v n sg : 0 < n -> correct v n sg = Ok (wrap (mkity n sg) v).
Proof.
  intros Hn. unfold correct, wrap. cbn [bits signed]. guard_ok. rewrite shiftl1_pow by lia.
  assert (P : 0 < 2 ^ n) by (apply Z.pow_pos_nonneg; lia).
  guard_ok. cbv zeta.
  destruct sg; cbn [andb]; [|reflexivity].
  rewrite bit_length_eq by (try lia; apply Z.mod_pos_bound; lia).
  destruct (2 ^ (n - 1) <=? v mod 2 ^ n); reflexivity.
Qed.

Lemma idiv_quot x y : y <> 0 -> idiv x y = Ok (Z.quot x y).
Proof.
  intros Hy. unfold idiv. rewrite Z.quot_div by lia.
  destruct (Z.ltb_spec x 0); destruct (Z.ltb_spec y 0); cbn [negb]; guard_ok; f_equal.
  - rewrite (Z.abs_neq x), (Z.abs_neq y), (Z.sgn_neg x), (Z.sgn_neg y) by lia. lia.
  - rewrite (Z.abs_neq x), (Z.abs_eq y), (Z.sgn_neg x), (Z.sgn_pos y) by lia. lia.
  - rewrite (Z.abs_eq x), (Z.abs_neq y), (Z.sgn_neg y) by lia.
    destruct (Z.eq_dec x 0) as [->|]; [cbn; lia|]. rewrite (Z.sgn_pos x) by lia. lia.
  - rewrite (Z.abs_eq x), (Z.abs_eq y), (Z.sgn_pos y) by lia.
    destruct (Z.eq_dec x 0) as [->|]; [cbn; lia|]. rewrite (Z.sgn_pos x) by lia. lia.
Qed.

Lemma irem_rem x y : y <> 0 -> irem x y = Ok (Z.rem x y).
Proof.
  intros Hy. unfold irem. rewrite Z.rem_mod by lia.
  destruct (Z.ltb_spec x 0); destruct (Z.ltb_spec y 0); guard_ok; f_equal.
  - rewrite (Z.abs_neq x), (Z.abs_neq y), (Z.sgn_neg x) by lia. lia.
  - rewrite (Z.abs_neq x), (Z.abs_eq y), (Z.sgn_neg x) by lia. lia.
  - rewrite (Z.abs_eq x), (Z.abs_neq y) by lia.
    destruct (Z.eq_dec x 0) as [->|]; [cbn; lia|]. rewrite (Z.sgn_pos x) by lia. lia.
  - rewrite (Z.abs_eq x), (Z.abs_eq y) by lia.
    destruct (Z.eq_dec x 0) as [->|]; [cbn; lia|]. rewrite (Z.sgn_pos x) by lia. lia.
Qed.

Lemma ishl_mul x n w : 0 <= n < w -> ishl x n w = Ok (x * 2 ^ n).
Proof.
  intros H. unfold ishl. guard_ok. rewrite Z.mod_small by lia. guard_ok.
  now rewrite shiftl_mul by lia.
Qed.

Lemma ishr_div x n w : 0 <= n < w -> ishr x n w = Ok (x / 2 ^ n).
Proof.
  intros H. unfold ishr. guard_ok. rewrite Z.mod_small by lia. guard_ok.
  now rewrite shiftr_div by lia.
Qed.

(* ------------------------------------------------------------------ facts about the spec *)
Lemma range_pos t : 0 < bits t -> 0 < 2 ^ (bits t - 1) /\ 2 ^ bits t = 2 * 2 ^ (bits t - 1).
Proof. intros H. split; [apply Z.pow_pos_nonneg; lia | apply pow2_split; lia]. Qed.

Lemma wrap_id t v : 0 < bits t -> in_range t v -> wrap t v = v.
Proof.
  intros Hb. unfold in_range, lo, hi, wrap. destruct (range_pos t Hb) as [P E].
  destruct (signed t); cbn [andb]; intros Hr.
  - destruct (Z.leb_spec (2 ^ (bits t - 1)) (v mod 2 ^ bits t)).
    + destruct (Z.lt_ge_cases v 0).
      * rewrite <- (Z.mod_unique_pos v (2 ^ bits t) (-1) (v + 2 ^ bits t)); lia.
      * rewrite Z.mod_small in * by lia. lia.
    + destruct (Z.lt_ge_cases v 0).
      * rewrite <- (Z.mod_unique_pos v (2 ^ bits t) (-1) (v + 2 ^ bits t)) in * by lia. lia.
      * rewrite Z.mod_small by lia. reflexivity.
  - apply Z.mod_small; lia.
Qed.

Lemma wrap_in_range t v : 0 < bits t -> in_range t (wrap t v).
Proof.
  intros Hb. unfold in_range, lo, hi, wrap. destruct (range_pos t Hb) as [P E].
  pose proof (Z.mod_pos_bound v (2 ^ bits t) ltac:(lia)).
  destruct (signed t); cbn [andb]; [|lia].
  destruct (Z.leb_spec (2 ^ (bits t - 1)) (v mod 2 ^ bits t)); lia.
Qed.

Lemma wrap_congr t v : 0 < bits t -> exists k, wrap t v = v + k * 2 ^ bits t.
Proof.
  intros Hb. unfold wrap. destruct (range_pos t Hb) as [P E].
  pose proof (Z.div_mod v (2 ^ bits t) ltac:(lia)) as D.
  destruct (signed t && (2 ^ (bits t - 1) <=? v mod 2 ^ bits t)).
  - exists (- (v / 2 ^ bits t) - 1). lia.
  - exists (- (v / 2 ^ bits t)). lia.
Qed.

Lemma in_rangeb_spec t v : in_rangeb t v = true <-> in_range t v.
Proof. unfold in_rangeb, in_range. lia. Qed.

Lemma quot_in_range t a b : 0 < bits t -> in_range t a -> in_range t b ->
  div_defined t a b = true -> in_range t (Z.quot a b).
Proof.
  intros Hb. unfold in_range, div_defined, lo, hi. destruct (range_pos t Hb) as [P E].
  destruct (signed t); cbn [andb]; intros Ha Hb' Hd.
  - assert (b <> 0) by lia.
    pose proof (Z.quot_rem' a b) as QR.
    destruct (Z.lt_ge_cases a 0); destruct (Z.lt_ge_cases b 0).
    + pose proof (Z.rem_bound_neg_neg a b) as R. nia.
    + pose proof (Z.rem_bound_neg_pos a b) as R. nia.
    + pose proof (Z.rem_bound_pos_neg a b) as R. nia.
    + pose proof (Z.rem_bound_pos_pos a b) as R. nia.
  - assert (0 < b) by lia.
    pose proof (Z.quot_pos a b ltac:(lia) ltac:(lia)).
    pose proof (Z.quot_le_upper_bound a b a ltac:(lia)) . nia.
Qed.

Lemma rem_in_range t a b : 0 < bits t -> in_range t a -> in_range t b ->
  div_defined t a b = true -> in_range t (Z.rem a b).
Proof.
  intros Hb. unfold in_range, div_defined, lo, hi. destruct (range_pos t Hb) as [P E].
  destruct (signed t); cbn [andb]; intros Ha Hb' Hd.
  - assert (b <> 0) by lia.
    destruct (Z.lt_ge_cases a 0); destruct (Z.lt_ge_cases b 0).
    + pose proof (Z.rem_bound_neg_neg a b) as R. lia.
    + pose proof (Z.rem_bound_neg_pos a b) as R. lia.
    + pose proof (Z.rem_bound_pos_neg a b) as R. lia.
    + pose proof (Z.rem_bound_pos_pos a b) as R. lia.
  - pose proof (Z.rem_bound_pos_pos a b) as R. lia.
Qed.

Lemma shr_in_range t a n : 0 < bits t -> in_range t a -> 0 <= n -> in_range t (a / 2 ^ n).
Proof.
  intros Hb. unfold in_range, lo, hi. destruct (range_pos t Hb) as [P E].
  intros Ha Hn. assert (0 < 2 ^ n) by (apply Z.pow_pos_nonneg; lia).
  pose proof (Z.div_mod a (2 ^ n) ltac:(lia)). pose proof (Z.mod_pos_bound a (2 ^ n) ltac:(lia)).
  destruct (signed t); nia.
Qed.

(* ------------------------------------------------------------------ generators are exact *)
Definition emitted_op (op : binop) : Prop := op <> Rol /\ op <> Ror.

Lemma binop_exact op t a b v :
  0 < bits t -> emitted_op op -> in_range t a -> in_range t b ->
  sem_binop op t a b = Some v -> py_binop op t a b = Ok v.
Proof.
  intros Hb [Hrol Hror] Ha Hb' Hs.
  assert (Et : mkity (bits t) (signed t) = t) by (destruct t; reflexivity).
  unfold py_binop, run_int, gen_binop.
  destruct op; cbn in Hs |- *; try congruence.
  - (* Add *) rewrite correct_wrap, Et by lia. cbn. congruence.
  - rewrite correct_wrap, Et by lia. cbn. congruence.
  - rewrite correct_wrap, Et by lia. cbn. congruence.
  - (* Div *) destruct (div_defined t a b) eqn:D; [|discriminate]. injection Hs as <-.
    assert (b <> 0) by (unfold div_defined in D; lia).
    rewrite idiv_quot by assumption. cbn. rewrite correct_wrap, Et by lia. cbn.
    now rewrite wrap_id by (try assumption; apply quot_in_range; assumption).
  - (* Rem *) destruct (div_defined t a b) eqn:D; [|discriminate]. injection Hs as <-.
    assert (b <> 0) by (unfold div_defined in D; lia).
    rewrite irem_rem by assumption. cbn. rewrite correct_wrap, Et by lia. cbn.
    now rewrite wrap_id by (try assumption; apply rem_in_range; assumption).
  - rewrite correct_wrap, Et by lia. cbn. congruence.
  - rewrite correct_wrap, Et by lia. cbn. congruence.
  - rewrite correct_wrap, Et by lia. cbn. congruence.
  - (* Shl *) destruct (shift_defined t b) eqn:D; [|discriminate]. injection Hs as <-.
    unfold shift_defined in D. rewrite ishl_mul by lia. cbn. rewrite correct_wrap, Et by lia. reflexivity.
  - (* Shr *) destruct (shift_defined t b) eqn:D; [|discriminate]. injection Hs as <-.
    unfold shift_defined in D. rewrite ishr_div by lia. cbn. rewrite correct_wrap, Et by lia. cbn.
    now rewrite wrap_id by (try assumption; apply shr_in_range; try assumption; lia).
Qed.

(* the result of every defined operation is again in range (so the invariant is maintained) *)
Lemma binop_in_range op t a b v :
  0 < bits t -> in_range t a -> in_range t b -> sem_binop op t a b = Some v -> in_range t v.
Proof.
  intros Hb Ha Hb' Hs.
  destruct op; cbn in Hs;
    try (injection Hs as <-; now apply wrap_in_range);
    try (destruct (div_defined t a b) eqn:D; [|discriminate]; injection Hs as <-);
    try (destruct (shift_defined t b) eqn:D; [|discriminate]; injection Hs as <-);
    try (now apply wrap_in_range).
  - now apply quot_in_range.
  - now apply rem_in_range.
  - unfold shift_defined in D. apply shr_in_range; try assumption; lia.
Qed.

Lemma unop_exact op t a : 0 < bits t -> py_unop op t a = Ok (sem_unop op t a).
Proof.
  intros Hb. assert (Et : mkity (bits t) (signed t) = t) by (destruct t; reflexivity).
  unfold py_unop, run_int, gen_unop. destruct op; cbn; rewrite correct_wrap, Et by lia; cbn.
  - reflexivity.
  - replace (Z.lnot a) with (- a - 1) by (unfold Z.lnot, Z.pred; lia). reflexivity.
Qed.

Lemma cast_int_exact cv dst a : 0 < bits dst -> py_cast_int cv dst a = Ok (sem_cast_int dst a).
Proof.
  intros Hb. assert (Et : mkity (bits dst) (signed dst) = dst) by (destruct dst; reflexivity).
  unfold py_cast_int, run_int, gen_cast. destruct cv; cbn; rewrite correct_wrap, Et by lia; reflexivity.
Qed.

(* float -> int: the repaired generator (int(x)) is exact ... *)
Lemma cast_float_trunc_exact dst x v : 0 < bits dst ->
  sem_cast_float dst x = Some v -> py_cast_float CastTrunc dst x = Ok v.
Proof.
  intros Hb. assert (Et : mkity (bits dst) (signed dst) = dst) by (destruct dst; reflexivity).
  destruct x as [n d| |]; cbn; try discriminate.
  destruct (in_rangeb dst (Z.quot n d)) eqn:R; [|discriminate]. intros [= <-].
  unfold py_cast_float, run_int, gen_cast. cbn. rewrite correct_wrap, Et by lia. cbn.
  now rewrite wrap_id by (try assumption; now apply in_rangeb_spec).
Qed.

(* ... the /repo generator (int(round(x))) is not: 11/4 = 2.75 becomes 3, -2.75 becomes -3 *)
Lemma cast_float_round_refuted :
  exists dst x v, 0 < bits dst /\ sem_cast_float dst x = Some v /\
                  exists w, py_cast_float CastRound dst x = Ok w /\ w <> v.
Proof.
  exists i32, (FFinite 11 4), 2. split; [reflexivity|]. split; [reflexivity|].
  exists 3. split; [vm_compute; reflexivity | discriminate].
Qed.

Lemma cast_float_round_refuted_neg :
  sem_cast_float i32 (FFinite (-11) 4) = Some (-2) /\ py_cast_float CastRound i32 (FFinite (-11) 4) = Ok (-3).
Proof. split; vm_compute; reflexivity. Qed.

(* rol / ror: the generator emits "a rol b", which is not Python *)
Lemma binop_rol_refuted :
  exists t a b v, in_range t a /\ in_range t b /\ sem_binop Rol t a b = Some v /\
                  py_binop Rol t a b = Internal (OtherI 1).
Proof.
  exists u8, 129, 1, 3. repeat split; try (vm_compute; congruence).
Qed.

Lemma cmp_exact c a b : py_cmp c a b = sem_cmp c a b.
Proof. destruct c; unfold py_cmp, sem_cmp; lia. Qed.

(* ------------------------------------------------------------------ phis *)
Section PhiProofs.
  Context {V : Type}.
  Implicit Types (en : @env V).

  Lemma read_all_ok en srcs :
    (forall s, In s srcs -> lookup en s <> None) ->
    exists vs, read_all en srcs = Ok vs /\ map Some vs = map (lookup en) srcs.
  Proof.
    induction srcs as [|s r IH]; intros H.
    - exists []. split; reflexivity.
    - destruct IH as [vs [E1 E2]]; [intros; apply H; now right|].
      cbn [read_all]. destruct (lookup en s) as [v|] eqn:L; [|exfalso; apply (H s); [now left|assumption]].
      exists (v :: vs). rewrite E1. cbn. rewrite E2, L. split; reflexivity.
  Qed.

  Lemma find_none_notin (tv : list (nat * V)) x :
    ~ In x (map fst tv) -> find (fun p => Nat.eqb (fst p) x) tv = None.
  Proof.
    induction tv as [|[t v] r IH]; intros H; [reflexivity|]. cbn in *.
    destruct (Nat.eqb_spec t x); [exfalso; apply H; now left|]. apply IH. tauto.
  Qed.

  Lemma bind_all_lookup (tv : list (nat * V)) : forall en x, NoDup (map fst tv) ->
    lookup (bind_all en tv) x =
    match find (fun p => Nat.eqb (fst p) x) tv with Some p => Some (snd p) | None => lookup en x end.
  Proof.
    induction tv as [|[t v] r IH]; intros en x ND; [reflexivity|].
    cbn [bind_all]. cbn in ND. inversion ND as [|? ? Hn ND']; subst.
    rewrite IH by assumption. cbn [find fst snd].
    destruct (Nat.eqb_spec t x) as [->|Hne].
    - rewrite find_none_notin by assumption. cbn [lookup]. now rewrite Nat.eqb_refl.
    - destruct (find _ r); [reflexivity|]. cbn [lookup].
      destruct (Nat.eqb_spec x t); [congruence|reflexivity].
  Qed.

  Lemma find_combine en (phis : list (nat * nat)) : forall vs x,
    map Some vs = map (lookup en) (map snd phis) ->
    match find (fun p : nat * V => Nat.eqb (fst p) x) (combine (map fst phis) vs) with
    | Some p => Some (snd p) | None => lookup en x end =
    match find (fun p : nat * nat => Nat.eqb (fst p) x) phis with
    | Some p => lookup en (snd p) | None => lookup en x end.
  Proof.
    induction phis as [|[t s] r IH]; intros vs x E; [reflexivity|].
    destruct vs as [|v vs]; [discriminate|]. cbn in E. injection E as E0 E.
    cbn [map combine find fst snd]. destruct (Nat.eqb t x); [cbn [snd]; exact E0|]. now apply IH.
  Qed.

  Lemma map_fst_combine (ts : list nat) : forall (vs : list V), List.length ts = List.length vs ->
    map fst (combine ts vs) = ts.
  Proof.
    induction ts as [|t r IH]; intros [|v vs] H; try discriminate; [reflexivity|].
    cbn. f_equal. apply IH. now injection H.
  Qed.

  Lemma tuple_assign_parallel (pairs : list (nat * nat)) en :
    NoDup (map fst pairs) -> (forall p, In p pairs -> lookup en (snd p) <> None) ->
    exists en', tuple_assign pairs en = Ok en' /\ forall x, lookup en' x = sem_phi_edge pairs en x.
  Proof.
    intros ND Hs. unfold tuple_assign.
    destruct (read_all_ok en (map snd pairs)) as [vs [E1 E2]].
    { intros s Hin. apply in_map_iff in Hin. destruct Hin as [p [<- Hp]]. now apply Hs. }
    rewrite E1. cbn. eexists; split; [reflexivity|]. intros x.
    assert (L : List.length (map fst pairs) = List.length vs).
    { apply (f_equal (@List.length _)) in E2. rewrite !map_length in *. congruence. }
    rewrite bind_all_lookup by (now rewrite map_fst_combine).
    unfold sem_phi_edge. now apply find_combine.
  Qed.
End PhiProofs.

Lemma phi_edge_parallel (V : Type) (target : list (nat * nat)) (en : @env V) :
  NoDup (map fst target) -> (forall p, In p target -> lookup en (snd p) <> None) ->
  exists en', fill_phis_edge target en = Ok en' /\ forall x, lookup en' x = sem_phi_edge target en x.
Proof. apply tuple_assign_parallel. Qed.

(* swap: a, b = b, a *)
Lemma phi_swap_example :
  exists en', fill_phis_edge [(1, 2); (2, 1)]%nat [(1%nat, 10); (2%nat, 20)] = Ok en' /\
              lookup en' 1%nat = Some 20 /\ lookup en' 2%nat = Some 10.
Proof. eexists. split; [reflexivity|]. split; reflexivity. Qed.

(* /repo's fill_phis assigns the phis of every successor: what it computes ... *)
Lemma phi_all_behaviour (V : Type) (succs : list (list (nat * nat))) (en : @env V) :
  NoDup (map fst (List.concat succs)) -> (forall p, In p (List.concat succs) -> lookup en (snd p) <> None) ->
  exists en', fill_phis_all succs en = Ok en' /\ forall x, lookup en' x = sem_phi_edge (List.concat succs) en x.
Proof. apply tuple_assign_parallel. Qed.

(* ... is not the semantics of the taken edge: block "latch" with successors hdr (phi p <- nxt) and
   ex (no phis); jumping to ex must leave p alone, but p is overwritten by nxt.
   variables: 1 = p, 2 = nxt *)
Lemma phi_all_refuted :
  exists (succs : list (list (nat * nat))) taken (en : @env Z) x,
    In taken succs /\ NoDup (map fst (List.concat succs)) /\
    exists en', fill_phis_all succs en = Ok en' /\ lookup en' x <> sem_phi_edge taken en x.
Proof.
  exists [[(1, 2)]; []]%nat, [], [(1%nat, 4); (2%nat, 5)], 1%nat.
  split; [right; now left|]. split; [repeat constructor; intros []|].
  eexists. split; [reflexivity|]. cbn. discriminate.
Qed.

(* ------------------------------------------------------------------ load / store *)
Lemma pack_le_spec n : forall u, pack_le n u = le_bytes n u.
Proof.
  induction n as [|n IH]; intros u; [reflexivity|]. cbn [pack_le le_bytes].
  rewrite IH. change 255 with (2 ^ 8 - 1). rewrite land_ones_mod, shiftr_div by lia. reflexivity.
Qed.

Definition bytes_ok (bs : list Z) : Prop := Forall (fun b => 0 <= b < 256) bs.

Lemma le_value_bound bs : bytes_ok bs -> 0 <= le_value bs < 256 ^ Z.of_nat (List.length bs).
Proof.
  induction 1 as [|b r Hb Hr IH]; [cbn; lia|].
  cbn [le_value List.length]. rewrite Nat2Z.inj_succ, Z.pow_succ_r by lia. lia.
Qed.

Lemma unpack_le_spec bs : bytes_ok bs -> unpack_le bs = le_value bs.
Proof.
  induction 1 as [|b r Hb Hr IH]; [reflexivity|]. cbn [unpack_le le_value].
  rewrite IH, lor_disjoint_add by lia. lia.
Qed.

Lemma le_bytes_ok n : forall u, bytes_ok (le_bytes n u).
Proof.
  induction n as [|n IH]; intros u; constructor; [|apply IH].
  apply Z.mod_pos_bound; lia.
Qed.

Lemma le_bytes_length n u : List.length (le_bytes n u) = n.
Proof. revert u; induction n as [|n IH]; intros u; cbn; [reflexivity|now rewrite IH]. Qed.

Lemma le_roundtrip n : forall u, 0 <= u < 256 ^ Z.of_nat n -> le_value (le_bytes n u) = u.
Proof.
  induction n as [|n IH]; intros u Hu.
  - cbn in *. lia.
  - cbn [le_bytes le_value]. rewrite Nat2Z.inj_succ, Z.pow_succ_r in Hu by lia.
    rewrite IH by lia. lia.
Qed.

Lemma pow256 sz : 0 <= sz -> 256 ^ sz = 2 ^ (8 * sz).
Proof. intros H. change 256 with (2 ^ 8). now rewrite <- Z.pow_mul_r by lia. Qed.

Section Row.
  Variables (c : string) (sz : Z) (sg : bool).
  Hypothesis Hfmt : fmt_info c = Some (sz, sg).
  Hypothesis Hsz : 0 < sz.
  Local Notation t := (mkity (8 * sz) sg).

  Lemma size_of_t : bits t / 8 = sz.
  Proof. cbn [bits]. rewrite Z.mul_comm, Z.div_mul; lia. Qed.

  Lemma struct_pack_spec v : in_range t v -> struct_pack c v = Ok (sem_store t v).
  Proof.
    intros Hr. unfold struct_pack. rewrite Hfmt.
    assert (Hb : 0 < bits t) by (cbn [bits]; lia). destruct (range_pos t Hb) as [P E].
    unfold in_range, lo, hi in Hr. cbn [bits signed] in *.
    assert (G : ((if sg then - 2 ^ (8 * sz - 1) else 0) <=? v) && (v <? (if sg then 2 ^ (8 * sz - 1) else 2 ^ (8 * sz))) = true)
      by (destruct sg; lia).
    rewrite G. f_equal. rewrite pack_le_spec. unfold sem_store. rewrite size_of_t. f_equal.
    cbn [bits]. destruct (Z.ltb_spec v 0).
    - destruct sg; [|lia]. apply (Z.mod_unique_pos v (2 ^ (8 * sz)) (-1)); lia.
    - symmetry. apply Z.mod_small. destruct sg; lia.
  Qed.

  Lemma struct_unpack_spec data : len data = sz -> bytes_ok data ->
    struct_unpack c data = Ok (sem_load t data).
  Proof.
    intros Hl Hd. unfold struct_unpack. rewrite Hfmt.
    assert (E : (len data =? sz) = true) by lia. rewrite E. f_equal.
    rewrite unpack_le_spec by assumption. unfold sem_load, wrap. cbn [bits signed].
    pose proof (le_value_bound data Hd) as B. unfold len in Hl. rewrite Hl, pow256 in B by lia.
    rewrite Z.mod_small by lia. reflexivity.
  Qed.

  Lemma load_of_store v : in_range t v -> sem_load t (sem_store t v) = v.
  Proof.
    intros Hr. assert (Hb : 0 < bits t) by (cbn [bits]; lia).
    unfold sem_load, sem_store. rewrite size_of_t, le_roundtrip.
    - pose proof (wrap_id t v Hb Hr) as W. unfold wrap in *. now rewrite Z.mod_mod by (cbn [bits]; lia).
    - rewrite Z2Nat.id, pow256 by lia. apply Z.mod_pos_bound. cbn [bits]. apply Z.pow_pos_nonneg; lia.
  Qed.
End Row.

Lemma Forall_firstn {A} (P : A -> Prop) l : forall n, Forall P l -> Forall P (firstn n l).
Proof. induction l as [|x r IH]; intros [|n] H; cbn; try constructor; inversion H; subst; auto. Qed.
Lemma Forall_skipn {A} (P : A -> Prop) l : forall n, Forall P l -> Forall P (skipn n l).
Proof. induction l as [|x r IH]; intros [|n] H; cbn; auto. inversion H; subst; auto. Qed.

Lemma skipn_skipn' {A} n m (l : list A) : skipn n (skipn m l) = skipn (m + n) l.
Proof.
  revert l; induction m as [|m IH]; intros l; [reflexivity|].
  destruct l; [now rewrite !skipn_nil|]. cbn. apply IH.
Qed.

Lemma write_mem_ok mem a data : 0 <= a -> a + len data <= len mem ->
  exists mem', write_mem mem a data = Ok mem' /\ len mem' = len mem /\
    read_mem mem' a (len data) = Ok data /\
    firstn (Z.to_nat a) mem' = firstn (Z.to_nat a) mem /\
    skipn (Z.to_nat (a + len data)) mem' = skipn (Z.to_nat (a + len data)) mem.
Proof.
  intros Ha Hfit. unfold write_mem. cbv zeta. guard_ok. eexists; split; [reflexivity|].
  unfold len in *.
  assert (L1 : List.length (firstn (Z.to_nat a) mem) = Z.to_nat a) by (apply firstn_length_le; lia).
  assert (L : List.length (firstn (Z.to_nat a) mem ++ data ++ skipn (Z.to_nat (a + Z.of_nat (List.length data))) mem)
              = List.length mem).
  { rewrite !app_length, L1, skipn_length. lia. }
  split; [now rewrite L|]. split; [|split].
  - unfold read_mem, len. rewrite L. guard_ok. f_equal. unfold sliceZ.
    rewrite skipn_app, L1, Nat.sub_diag, skipn_all2 by lia. cbn [skipn app].
    replace (Z.to_nat (a + Z.of_nat (List.length data) - a)) with (List.length data) by lia.
    rewrite firstn_app, Nat.sub_diag, firstn_all. cbn [firstn]. apply app_nil_r.
  - rewrite firstn_app, L1, Nat.sub_diag. cbn [firstn]. rewrite app_nil_r.
    rewrite firstn_firstn. f_equal. lia.
  - rewrite app_assoc, skipn_app.
    assert (L2 : List.length (firstn (Z.to_nat a) mem ++ data) = Z.to_nat (a + Z.of_nat (List.length data)))
      by (rewrite app_length, L1; lia).
    rewrite L2, Nat.sub_diag, skipn_all2 by lia. cbn [skipn app]. reflexivity.
Qed.

Lemma loadstore_row name c sz sg mem a v :
  ls_row name = Some (c, sz, c) -> fmt_info c = Some (sz, sg) -> 0 < sz ->
  0 <= a -> a + sz <= len mem -> in_range (mkity (8 * sz) sg) v ->
  exists mem', store name mem a v = Ok mem' /\ len mem' = len mem /\
    read_mem mem' a sz = Ok (sem_store (mkity (8 * sz) sg) v) /\
    load name mem' a = Ok v /\
    firstn (Z.to_nat a) mem' = firstn (Z.to_nat a) mem /\
    skipn (Z.to_nat (a + sz)) mem' = skipn (Z.to_nat (a + sz)) mem.
Proof.
  intros Hrow Hfmt Hsz Ha Hfit Hr. unfold store, load. rewrite Hrow.
  rewrite (struct_pack_spec c sz sg Hfmt Hsz v Hr). cbn [bind].
  assert (Ld : len (sem_store (mkity (8 * sz) sg) v) = sz).
  { unfold len, sem_store. rewrite le_bytes_length, size_of_t. lia. }
  destruct (write_mem_ok mem a (sem_store (mkity (8 * sz) sg) v) Ha ltac:(lia)) as [mem' [W [Ll [R [F1 F2]]]]].
  rewrite Ld in *. exists mem'. rewrite W, R. cbn [bind].
  rewrite (struct_unpack_spec c sz sg Hfmt Hsz) by (try assumption; apply le_bytes_ok).
  rewrite (load_of_store sz sg Hsz v Hr). repeat split; assumption.
Qed.

Lemma load_row name c sz sg mem a :
  ls_row name = Some (c, sz, c) -> fmt_info c = Some (sz, sg) -> 0 < sz ->
  0 <= a -> a + sz <= len mem -> bytes_ok mem ->
  load name mem a = Ok (sem_load (mkity (8 * sz) sg) (sliceZ mem a (a + sz))).
Proof.
  intros Hrow Hfmt Hsz Ha Hfit Hb. unfold load, read_mem. rewrite Hrow. guard_ok. cbn [bind].
  apply (struct_unpack_spec c sz sg Hfmt Hsz).
  - unfold sliceZ, len in *. rewrite firstn_length_le; [lia|]. rewrite skipn_length. lia.
  - unfold sliceZ. apply Forall_firstn, Forall_skipn, Hb.
Qed.

(* every IR integer type, through the table exported from the emitted runtime *)
Lemma loadstore_exact t mem a v :
  In t ir_int_types -> 0 <= a -> a + bits t / 8 <= len mem -> in_range t v ->
  exists mem', store (ity_name t) mem a v = Ok mem' /\ len mem' = len mem /\
    read_mem mem' a (bits t / 8) = Ok (sem_store t v) /\
    load (ity_name t) mem' a = Ok v /\
    firstn (Z.to_nat a) mem' = firstn (Z.to_nat a) mem /\
    skipn (Z.to_nat (a + bits t / 8)) mem' = skipn (Z.to_nat (a + bits t / 8)) mem.
Proof.
  intros Hin Ha Hfit Hr. cbn in Hin.
  destruct Hin as [<-|[<-|[<-|[<-|[<-|[<-|[<-|[<-|[]]]]]]]]].
  - apply (loadstore_row "i8" "b" 1 true); try assumption; try reflexivity; lia.
  - apply (loadstore_row "i16" "h" 2 true); try assumption; try reflexivity; lia.
  - apply (loadstore_row "i32" "i" 4 true); try assumption; try reflexivity; lia.
  - apply (loadstore_row "i64" "q" 8 true); try assumption; try reflexivity; lia.
  - apply (loadstore_row "u8" "B" 1 false); try assumption; try reflexivity; lia.
  - apply (loadstore_row "u16" "H" 2 false); try assumption; try reflexivity; lia.
  - apply (loadstore_row "u32" "I" 4 false); try assumption; try reflexivity; lia.
  - apply (loadstore_row "u64" "Q" 8 false); try assumption; try reflexivity; lia.
Qed.

Lemma load_exact t mem a :
  In t ir_int_types -> 0 <= a -> a + bits t / 8 <= len mem -> bytes_ok mem ->
  load (ity_name t) mem a = Ok (sem_load t (sliceZ mem a (a + bits t / 8))).
Proof.
  intros Hin Ha Hfit Hb. cbn in Hin.
  destruct Hin as [<-|[<-|[<-|[<-|[<-|[<-|[<-|[<-|[]]]]]]]]].
  - apply (load_row "i8" "b" 1 true); try assumption; try reflexivity; lia.
  - apply (load_row "i16" "h" 2 true); try assumption; try reflexivity; lia.
  - apply (load_row "i32" "i" 4 true); try assumption; try reflexivity; lia.
  - apply (load_row "i64" "q" 8 true); try assumption; try reflexivity; lia.
  - apply (load_row "u8" "B" 1 false); try assumption; try reflexivity; lia.
  - apply (load_row "u16" "H" 2 false); try assumption; try reflexivity; lia.
  - apply (load_row "u32" "I" 4 false); try assumption; try reflexivity; lia.
  - apply (load_row "u64" "Q" 8 false); try assumption; try reflexivity; lia.
Qed.

(* ptr is stored by the emitted runtime as a 4-byte SIGNED integer: addresses >= 2^31 cannot be stored *)
Lemma ptr_is_i32 : ls_row "ptr" = Some ("i", 4, "i")%string.
Proof. reflexivity. Qed.
Lemma ptr_store_high_address_fails mem : store "ptr" mem 0 (2 ^ 31) = Internal StructError.
Proof. reflexivity. Qed.
