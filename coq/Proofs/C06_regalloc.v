(* Proofs/C06_regalloc.v — soundness of the allocation validator Model.RegAllocCheck. *)
From Coq Require Import ZArith List Bool Arith Lia.
From PV Require Import Spec.RegAllocSpec Model.RegAllocCheck.
Import ListNotations.
Open Scope Z_scope.

(* ---------------------------------------------------------------- list helpers *)
Lemma memz_In : forall r l, memz r l = true <-> In r l.
Proof.
  unfold memz; intros; rewrite existsb_exists; split.
  - intros [x [H E]]; apply Z.eqb_eq in E; now subst.
  - intros H; exists r; split; auto; apply Z.eqb_refl.
Qed.

Lemma memz_false : forall r l, memz r l = false <-> ~ In r l.
Proof.
  intros; rewrite <- memz_In; destruct (memz r l); split; congruence.
Qed.

Lemma subset_In : forall a b, subset a b = true -> forall r, In r a -> In r b.
Proof.
  unfold subset; intros a b H r Hr; rewrite forallb_forall in H.
  apply memz_In; auto.
Qed.

Lemma forallb_seq : forall (f : nat -> bool) n, forallb f (seq 0 n) = true ->
  forall k, (k < n)%nat -> f k = true.
Proof.
  intros f n H k Hk; rewrite forallb_forall in H; apply H; apply in_seq; lia.
Qed.

Lemma nth_error_lt : forall {A} (l : list A) k x, nth_error l k = Some x -> (k < length l)%nat.
Proof. intros; apply nth_error_Some; congruence. Qed.

(* ---------------------------------------------------------------- unpacking check_alloc *)
Section Checked.
Variables (prog : list instr) (live : list (list reg)) (color : reg -> reg)
          (alias : reg -> reg -> bool) (physl : list reg) (removed : list bool).
Hypothesis CHK : check_alloc prog live color alias physl removed = true.

Lemma chk_live : check_live prog live = true.
Proof. unfold check_alloc in CHK; rewrite !andb_true_iff in CHK; tauto. Qed.

Lemma chk_succ : forall pc i s, nth_error prog pc = Some i -> In s (succs prog pc) ->
  forall r, In r (live_in_of prog live s) -> In r (live_out_of live pc).
Proof.
  intros pc i s Hi Hs r Hr. pose proof chk_live as H. unfold check_live in H.
  pose proof (forallb_seq _ _ H pc (nth_error_lt _ _ _ Hi)) as H1; cbv beta in H1.
  rewrite forallb_forall in H1. eapply subset_In; eauto.
Qed.

Lemma chk_instr : forall pc i, nth_error prog pc = Some i ->
  check_interf color alias physl (nth pc removed false) i (live_out_of live pc) = true /\
  (nth pc removed false = true -> removable color i = true).
Proof.
  intros pc i Hi. unfold check_alloc in CHK; rewrite !andb_true_iff in CHK.
  destruct CHK as [[[_ H] _] _].
  pose proof (forallb_seq _ _ H pc (nth_error_lt _ _ _ Hi)) as H1; cbv beta in H1.
  rewrite Hi in H1; rewrite andb_true_iff in H1; destruct H1 as [H1 H2]; split; auto.
  intros E; now rewrite E in H2.
Qed.

Lemma chk_entry : check_entry color alias physl (live_in_of prog live 0) = true.
Proof. unfold check_alloc in CHK; rewrite !andb_true_iff in CHK; tauto. Qed.

Lemma chk_phys : forall v, isphys physl v = true -> color v = v.
Proof.
  intros v Hv. unfold check_alloc in CHK; rewrite !andb_true_iff in CHK.
  destruct CHK as [_ H]. rewrite forallb_forall in H. apply Z.eqb_eq; apply H.
  now apply memz_In.
Qed.

Lemma chk_pair : forall pc i d v, nth_error prog pc = Some i ->
  In d (i_defs i ++ i_clob i) -> In v (live_out_of live pc) -> v <> d ->
  (nth pc removed false = false /\ isphys physl d = true /\ isphys physl v = true) \/
  conflict alias (color d) (color v) = false \/ exempt color i d v = true.
Proof.
  intros pc i d v Hi Hd Hv Hne. destruct (chk_instr pc i Hi) as [H _].
  unfold check_interf in H; rewrite forallb_forall in H; specialize (H d Hd).
  rewrite forallb_forall in H; specialize (H v Hv).
  rewrite !orb_true_iff in H; destruct H as [[[H | H] | H] | H]; auto.
  - apply Z.eqb_eq in H; contradiction.
  - left; rewrite !andb_true_iff in H; destruct H as [[H1 H2] H3].
    apply negb_true_iff in H1; auto.
  - right; left; now apply negb_true_iff.
Qed.

(* ---- (1) a post-fixpoint over-approximates true liveness *)
Lemma live_in_sound : forall r pc, live_in prog r pc -> In r (live_in_of prog live pc).
Proof.
  induction 1 as [pc i Hi Hu | pc i pc' Hi Hnd Hs _ IH].
  - unfold live_in_of; rewrite Hi; apply in_or_app; now left.
  - unfold live_in_of; rewrite Hi; apply in_or_app; right.
    apply filter_In; split.
    + eapply chk_succ; eauto.
    + apply negb_true_iff; now apply memz_false.
Qed.

Lemma live_out_sound : forall r pc, live_out prog r pc -> In r (live_out_of live pc).
Proof.
  intros r pc [pc' [Hs Hl]]. pose proof Hs as Hs'. unfold succs in Hs'.
  destruct (nth_error prog pc) as [i|] eqn:Hi; [|contradiction].
  exact (chk_succ pc i pc' Hi Hs r (live_in_sound r pc' Hl)).
Qed.

End Checked.

(* ---------------------------------------------------------------- move shape *)
Lemma move_shape_some : forall i d s, move_shape i = Some (d, s) ->
  i_move i = true /\ i_uses i = [s] /\ i_defs i = [d] /\ i_clob i = [].
Proof.
  unfold move_shape; intros i d s.
  destruct (i_move i); [|discriminate].
  destruct (i_uses i) as [|s' [|? ?]]; try discriminate.
  destruct (i_defs i) as [|d' [|? ?]]; try discriminate.
  destruct (i_clob i); try discriminate.
  intros H; inversion H; subst; auto.
Qed.

Lemma conflict_false : forall alias p q, conflict alias p q = false ->
  p <> q /\ alias p q = false /\ alias q p = false.
Proof.
  unfold conflict; intros alias p q H; rewrite !orb_false_iff in H.
  destruct H as [[H1 H2] H3]; apply Z.eqb_neq in H1; auto.
Qed.

Lemma conflict_sym : forall alias p q, conflict alias p q = conflict alias q p.
Proof.
  unfold conflict; intros; rewrite (Z.eqb_sym p q).
  destruct (q =? p), (alias p q), (alias q p); reflexivity.
Qed.

(* ---------------------------------------------------------------- writes *)
Section Writes.
Variables (color : reg -> reg) (alias : reg -> reg -> bool) (isph : reg -> bool) (J : junk_t).
Hypothesis PHYS : forall v, isph v = true -> color v = v.
Let valias := src_alias isph alias.

Lemma valias_true : forall u v, valias u v = true ->
  color u = u /\ color v = v /\ alias u v = true.
Proof.
  unfold valias, src_alias; intros u v H; rewrite !andb_true_iff in H.
  destruct H as [[H1 H2] H3]; auto.
Qed.

Lemma write_other : forall d x vrf prf v, v <> d ->
  conflict alias (color d) (color v) = false ->
  write alias J (color d) x prf (color v) = prf (color v) /\
  write valias J d x vrf v = vrf v.
Proof.
  intros d x vrf prf v Hne Hc. apply conflict_false in Hc; destruct Hc as [Hc1 [Hc2 _]].
  unfold write; split.
  - destruct (Z.eqb_spec (color v) (color d)); [congruence|]. now rewrite Hc2.
  - destruct (Z.eqb_spec v d); [congruence|].
    destruct (valias d v) eqn:E; auto. apply valias_true in E; destruct E as [E1 [E2 E3]].
    rewrite E1, E2 in Hc2; congruence.
Qed.

Lemma write_phys : forall d x vrf prf v, v <> d -> isph d = true -> isph v = true ->
  prf (color v) = vrf v ->
  write alias J (color d) x prf (color v) = write valias J d x vrf v.
Proof.
  intros d x vrf prf v Hne Hd Hv HA. rewrite (PHYS _ Hd), (PHYS _ Hv) in *.
  unfold write, valias, src_alias. rewrite Hd, Hv; cbn [andb]. now rewrite HA.
Qed.

Lemma write_same : forall d x vrf prf,
  write alias J (color d) x prf (color d) = write valias J d x vrf d.
Proof. intros; unfold write; now rewrite !Z.eqb_refl. Qed.

Lemma writes_sim : forall (L : reg -> Prop) (W : list reg) outs vrf prf,
  (forall d v, In d W -> L v -> v <> d ->
     (isph d = true /\ isph v = true) \/ conflict alias (color d) (color v) = false) ->
  (forall v, L v -> ~ In v W -> prf (color v) = vrf v) ->
  forall v, L v ->
    writes alias J (map color W) outs prf (color v) = writes valias J W outs vrf v.
Proof.
  intros L W; induction W as [|d W IH]; intros outs vrf prf HC HA v Hv; cbn [writes map].
  - apply HA; auto.
  - apply IH; auto.
    + intros d' v' Hd' Hv' Hne; apply HC; auto; now right.
    + intros v' Hv' Hn. destruct (Z.eq_dec v' d) as [->|Hne].
      * apply write_same.
      * assert (HA' : prf (color v') = vrf v').
        { apply HA; auto. intros [H|H]; [congruence|contradiction]. }
        destruct (HC d v') as [[P1 P2]|Hcf]; auto; [now left| |].
        -- now apply write_phys.
        -- destruct (write_other d (hd 0 outs) vrf prf v' Hne Hcf) as [E1 E2].
           now rewrite E1, E2.
Qed.

End Writes.

(* ---------------------------------------------------------------- target program *)
Lemma nth_error_target : forall color prog removed pc,
  nth_error (target color prog removed) pc =
  match nth_error prog pc with
  | Some i => Some (if nth pc removed false then None else Some (rename color i))
  | None => None
  end.
Proof.
  intros color prog; induction prog as [|i p IH]; intros removed pc.
  - destruct pc; reflexivity.
  - destruct pc; cbn [target nth_error].
    + destruct removed; reflexivity.
    + rewrite IH. destruct (nth_error p pc); auto. destruct removed; cbn [tl nth]; auto.
      destruct pc; reflexivity.
Qed.

Lemma nth_error_map_some : forall (prog : list instr) pc,
  nth_error (map Some prog) pc = option_map Some (nth_error prog pc).
Proof. intros; apply nth_error_map. Qed.

Lemma next_pc_succ : forall S prog pc i vals, nth_error prog pc = Some i ->
  In (next_pc S pc i vals) (succs prog pc).
Proof.
  intros S prog pc i vals Hi; unfold succs, next_pc; rewrite Hi.
  destruct (i_jumps i) as [|j js]; [now left|].
  destruct (Nat.lt_ge_cases (sem_br S pc vals) (length (j :: js))).
  - now apply nth_In.
  - rewrite nth_overflow by auto; now left.
Qed.

(* ---------------------------------------------------------------- one step *)
Section Sim.
Variables (prog : list instr) (live : list (list reg)) (color : reg -> reg)
          (alias : reg -> reg -> bool) (physl : list reg) (removed : list bool).
Hypothesis CHK : check_alloc prog live color alias physl removed = true.
Variables (S : semantics) (junk : nat -> junk_t).

Let valias := src_alias (isphys physl) alias.
Let src := map Some prog.
Let tgt := target color prog removed.
Let PHYS := chk_phys _ _ _ _ _ _ CHK.

Lemma agree_uses : forall pc i vrf prf, nth_error prog pc = Some i ->
  agree color (live_in_of prog live pc) vrf prf ->
  map prf (map color (i_uses i)) = map vrf (i_uses i).
Proof.
  intros pc i vrf prf Hi HA. rewrite map_map. apply map_ext_in; intros v Hv.
  apply HA. unfold live_in_of; rewrite Hi; apply in_or_app; now left.
Qed.

Lemma agree_pass : forall pc i vrf prf v, nth_error prog pc = Some i ->
  agree color (live_in_of prog live pc) vrf prf ->
  In v (live_out_of live pc) -> ~ In v (i_defs i) -> prf (color v) = vrf v.
Proof.
  intros pc i vrf prf v Hi HA Hv Hn. apply HA. unfold live_in_of; rewrite Hi.
  apply in_or_app; right; apply filter_In; split; auto.
  apply negb_true_iff; now apply memz_false.
Qed.

Lemma step_sim : forall pc vrf prf,
  agree color (live_in_of prog live pc) vrf prf ->
  fst (step valias junk S src (pc, vrf)) = fst (step alias junk S tgt (pc, prf)) /\
  agree color (live_in_of prog live (fst (step valias junk S src (pc, vrf))))
        (snd (step valias junk S src (pc, vrf))) (snd (step alias junk S tgt (pc, prf))).
Proof.
  intros pc vrf prf HA. unfold step, src, tgt.
  rewrite nth_error_target, nth_error_map_some.
  destruct (nth_error prog pc) as [i|] eqn:Hi; cbn [option_map]; [|split; auto].
  pose proof (agree_uses pc i vrf prf Hi HA) as HU.
  destruct (nth pc removed false) eqn:Hrm.
  - (* deleted copy *)
    destruct (chk_instr _ _ _ _ _ _ CHK pc i Hi) as [_ Hr]. specialize (Hr Hrm).
    unfold removable in Hr. destruct (move_shape i) as [[d s]|] eqn:Hm; [|discriminate].
    destruct (i_jumps i) eqn:Hj; [|discriminate]. apply Z.eqb_eq in Hr.
    destruct (move_shape_some _ _ _ Hm) as [Hmv [Hu [Hd Hc]]].
    unfold next_pc; rewrite Hj, Hmv, Hu, Hd, Hc; cbn [fst snd map app writes hd].
    split; auto. intros v Hv.
    assert (Hlo : In v (live_out_of live pc)).
    { eapply chk_succ; eauto. unfold succs; rewrite Hi, Hj; now left. }
    assert (Hs : prf (color s) = vrf s).
    { apply HA; unfold live_in_of; rewrite Hi, Hu; now left. }
    destruct (Z.eq_dec v d) as [->|Hne]; [unfold write; rewrite Z.eqb_refl; congruence|].
    assert (HAv : prf (color v) = vrf v).
    { eapply agree_pass; eauto. rewrite Hd; intros [H|[]]; congruence. }
    assert (Hnv : valias d v = false).
    { destruct (valias d v) eqn:E; auto.
      apply (valias_true color alias (isphys physl) PHYS) in E. destruct E as [E1 [E2 E3]].
      destruct (chk_pair _ _ _ _ _ _ CHK pc i d v Hi) as [[P0 _] | [Hcf | Hex]]; auto.
      - rewrite Hd, Hc; now left.
      - congruence.
      - apply conflict_false in Hcf; destruct Hcf as [_ [Hcf _]]. rewrite E1, E2 in Hcf; congruence.
      - unfold exempt in Hex; rewrite Hm in Hex; rewrite !andb_true_iff in Hex.
        destruct Hex as [[_ Hex] _]; apply Z.eqb_eq in Hex; subst v.
        rewrite E1, E2 in Hr; congruence. }
    unfold write. destruct (Z.eqb_spec v d); [congruence|]. now rewrite Hnv.
  - (* kept instruction *)
    cbn [rename i_uses i_defs i_clob i_move i_jumps]. rewrite HU.
    assert (Hpc : next_pc S pc (rename color i) (map vrf (i_uses i)) =
                  next_pc S pc i (map vrf (i_uses i))) by reflexivity.
    rewrite Hpc; cbn [fst snd]; split; auto.
    set (vals := map vrf (i_uses i)).
    set (outs := if i_move i then vals else sem_out S pc vals).
    rewrite <- map_app.
    intros v Hv.
    assert (Hlo : In v (live_out_of live pc)).
    { eapply chk_succ; eauto. now apply next_pc_succ. }
    clear Hv. revert v Hlo.
    destruct (move_shape i) as [[d s]|] eqn:Hm.
    + (* copy d <- s, possibly coalesced *)
      destruct (move_shape_some _ _ _ Hm) as [Hmv [Hu [Hd Hc]]].
      intros v Hlo. subst outs vals; rewrite Hmv, Hu, Hd, Hc; cbn [map app writes hd].
      destruct (Z.eq_dec v d) as [->|Hne]; [apply write_same|].
      destruct (chk_pair _ _ _ _ _ _ CHK pc i d v Hi) as [[_ [P1 P2]] | [Hcf | Hex]]; auto.
      * rewrite Hd, Hc; now left.
      * apply write_phys; auto. eapply agree_pass; eauto. rewrite Hd; intros [H|[]]; congruence.
      * destruct (write_other color alias (isphys physl) (junk pc) PHYS
                    d (vrf s) vrf prf v Hne Hcf) as [E1 E2].
        fold valias in E2. rewrite E1, E2.
        eapply agree_pass; eauto. rewrite Hd; intros [H|[]]; congruence.
      * unfold exempt in Hex; rewrite Hm in Hex; rewrite !andb_true_iff in Hex.
        destruct Hex as [[_ Hex1] Hex2]; apply Z.eqb_eq in Hex1, Hex2; subst v.
        unfold write. rewrite Hex2, Z.eqb_refl.
        destruct (Z.eqb_spec s d); [congruence|].
        destruct (valias d s) eqn:E; auto.
        apply (valias_true color alias (isphys physl) PHYS) in E. destruct E as [E1 [E2 _]].
        rewrite E1, E2 in Hex2; congruence.
    + intros v Hlo.
      apply (writes_sim color alias (isphys physl) (junk pc) PHYS
               (fun v => In v (live_out_of live pc))); auto.
      * intros d' v' Hd' Hv' Hne'.
        destruct (chk_pair _ _ _ _ _ _ CHK pc i d' v' Hi Hd' Hv' Hne') as [[_ P] | [Hcf | Hex]]; auto.
        unfold exempt in Hex; rewrite Hm in Hex; discriminate.
      * intros v' Hv' Hn. eapply agree_pass; eauto. intros H; apply Hn; apply in_or_app; now left.
Qed.

Lemma run_sim : forall n pc vrf prf,
  agree color (live_in_of prog live pc) vrf prf ->
  fst (run valias junk S src n (pc, vrf)) = fst (run alias junk S tgt n (pc, prf)) /\
  agree color (live_in_of prog live (fst (run valias junk S src n (pc, vrf))))
        (snd (run valias junk S src n (pc, vrf))) (snd (run alias junk S tgt n (pc, prf))).
Proof.
  induction n as [|n IH]; intros pc vrf prf HA; cbn [run]; [split; auto|].
  destruct (step_sim pc vrf prf HA) as [E HA'].
  destruct (step valias junk S src (pc, vrf)) as [pc1 vrf1].
  destruct (step alias junk S tgt (pc, prf)) as [pc2 prf1].
  cbn [fst snd] in *; subst pc2. now apply IH.
Qed.

(* every read of the coloured program returns the value the virtual program reads *)
Lemma reads_sim : forall pc vrf prf,
  agree color (live_in_of prog live pc) vrf prf ->
  nth pc removed false = false ->
  reads tgt (pc, prf) = reads src (pc, vrf).
Proof.
  intros pc vrf prf HA Hrm. unfold reads, src, tgt; cbn [fst snd].
  rewrite nth_error_target, nth_error_map_some, Hrm.
  destruct (nth_error prog pc) as [i|] eqn:Hi; cbn [option_map]; auto.
  cbn [rename i_uses]. f_equal. eapply agree_uses; eauto.
Qed.

End Sim.

(* ---------------------------------------------------------------- no shared live registers *)
Section Shared.
Variables (prog : list instr) (live : list (list reg)) (color : reg -> reg)
          (alias : reg -> reg -> bool) (physl : list reg) (removed : list bool).
Hypothesis CHK : check_alloc prog live color alias physl removed = true.

Lemma no_shared_live : forall pc, reachable prog pc ->
  forall r1 r2, live_in prog r1 pc -> live_in prog r2 pc -> r1 <> r2 ->
  isphys physl r1 && isphys physl r2 = false ->
  conflict alias (color r1) (color r2) = true -> color r1 = color r2.
Proof.
  induction 1 as [|pc pc' Hr IH Hs]; intros r1 r2 H1 H2 Hne Hph Hc.
  - pose proof (chk_entry _ _ _ _ _ _ CHK) as He. unfold check_entry in He.
    rewrite forallb_forall in He.
    specialize (He r1 (live_in_sound _ _ _ _ _ _ CHK _ _ H1)). rewrite forallb_forall in He.
    specialize (He r2 (live_in_sound _ _ _ _ _ _ CHK _ _ H2)).
    rewrite !orb_true_iff in He; destruct He as [[He|He]|He].
    + apply Z.eqb_eq in He; contradiction.
    + congruence.
    + apply negb_true_iff in He; congruence.
  - assert (Hi : exists i, nth_error prog pc = Some i).
    { unfold succs in Hs. destruct (nth_error prog pc); [eauto|contradiction]. }
    destruct Hi as [i Hi].
    assert (Hlo : forall r, live_in prog r pc' -> In r (live_out_of live pc)).
    { intros r Hl; eapply chk_succ; eauto. eapply live_in_sound; eauto. }
    assert (Hw : forall d v, In d (i_defs i ++ i_clob i) -> live_in prog v pc' -> v <> d ->
                 isphys physl d && isphys physl v = false ->
                 conflict alias (color d) (color v) = true -> color d = color v).
    { intros d v Hd Hv Hn Hp Hcf.
      destruct (chk_pair _ _ _ _ _ _ CHK pc i d v Hi Hd (Hlo v Hv) Hn) as [[_ [P1 P2]]|[Hf|Hex]].
      - rewrite P1, P2 in Hp; discriminate.
      - congruence.
      - unfold exempt in Hex. destruct (move_shape i) as [[d' s]|]; [|discriminate].
        rewrite !andb_true_iff in Hex. destruct Hex as [[E1 E2] E3].
        apply Z.eqb_eq in E1, E2, E3; subst; auto. }
    destruct (in_dec Z.eq_dec r1 (i_defs i ++ i_clob i)) as [W1|W1].
    + apply Hw; auto.
    + destruct (in_dec Z.eq_dec r2 (i_defs i ++ i_clob i)) as [W2|W2].
      * symmetry; apply Hw; auto. now rewrite andb_comm. now rewrite conflict_sym.
      * apply IH; auto.
        -- eapply li_pass; eauto. intros H; apply W1; apply in_or_app; now left.
        -- eapply li_pass; eauto. intros H; apply W2; apply in_or_app; now left.
Qed.

End Shared.

(* ---------------------------------------------------------------- statements used by Props *)
Theorem liveness_fixpoint_sound : forall prog live,
  check_live prog live = true ->
  forall r pc, (live_in prog r pc -> In r (live_in_of prog live pc)) /\
               (live_out prog r pc -> In r (live_out_of live pc)).
Proof.
  intros prog live H r pc.
  split.
  - induction 1 as [pc i Hi Hu | pc i pc' Hi Hnd Hs _ IH].
    + unfold live_in_of; rewrite Hi; apply in_or_app; now left.
    + unfold live_in_of; rewrite Hi; apply in_or_app; right.
      apply filter_In; split.
      * unfold check_live in H.
        pose proof (forallb_seq _ _ H pc (nth_error_lt _ _ _ Hi)) as H1; cbv beta in H1.
        rewrite forallb_forall in H1. eapply subset_In; eauto.
      * apply negb_true_iff; now apply memz_false.
  - intros [pc' [Hs Hl]].
    assert (Hin : In r (live_in_of prog live pc')).
    { clear Hs. induction Hl as [pc0 i Hi Hu | pc0 i pc1 Hi Hnd Hs _ IH].
      - unfold live_in_of; rewrite Hi; apply in_or_app; now left.
      - unfold live_in_of; rewrite Hi; apply in_or_app; right.
        apply filter_In; split.
        + unfold check_live in H.
          pose proof (forallb_seq _ _ H pc0 (nth_error_lt _ _ _ Hi)) as H1; cbv beta in H1.
          rewrite forallb_forall in H1. eapply subset_In; eauto.
        + apply negb_true_iff; now apply memz_false. }
    unfold succs in Hs. destruct (nth_error prog pc) as [i|] eqn:Hi; [|contradiction].
    unfold check_live in H.
    pose proof (forallb_seq _ _ H pc (nth_error_lt _ _ _ Hi)) as H1; cbv beta in H1.
    rewrite forallb_forall in H1. eapply subset_In; [apply H1|apply Hin].
    unfold succs; now rewrite Hi.
Qed.

Theorem check_alloc_sound : forall prog live color alias physl removed,
  check_alloc prog live color alias physl removed = true ->
  forall (S : semantics) (junk : nat -> junk_t),
  forall vrf prf, agree color (live_in_of prog live 0) vrf prf ->
  forall n,
    let s := run (src_alias (isphys physl) alias) junk S (map Some prog) n (0%nat, vrf) in
    let t := run alias junk S (target color prog removed) n (0%nat, prf) in
    fst s = fst t /\
    agree color (live_in_of prog live (fst s)) (snd s) (snd t) /\
    (nth (fst s) removed false = false ->
     reads (target color prog removed) t = reads (map Some prog) s).
Proof.
  intros prog live color alias physl removed CHK S junk vrf prf HA n s t.
  destruct (run_sim prog live color alias physl removed CHK S junk n 0%nat vrf prf HA)
    as [E A].
  fold s in E, A; fold t in E, A. split; auto. split; auto.
  intros Hrm. destruct s as [pc1 vrf1], t as [pc2 prf1]; cbn [fst snd] in *; subst pc2.
  eapply reads_sim; eauto.
Qed.

(* the initial agreement is satisfiable for every virtual register file *)
Definition init_phys (color : reg -> reg) (L : list reg) (vrf : regfile) : regfile :=
  fun p => match find (fun v => color v =? p) L with Some v => vrf v | None => 0 end.

Theorem init_agree : forall prog live color alias physl removed,
  check_alloc prog live color alias physl removed = true ->
  forall vrf, agree color (live_in_of prog live 0) vrf
                    (init_phys color (live_in_of prog live 0) vrf).
Proof.
  intros prog live color alias physl removed CHK vrf v Hv. unfold init_phys.
  destruct (find (fun v0 => color v0 =? color v) (live_in_of prog live 0)) as [w|] eqn:F.
  - apply find_some in F; destruct F as [Hw E]; apply Z.eqb_eq in E.
    destruct (Z.eq_dec w v) as [->|Hne]; auto.
    pose proof (chk_entry _ _ _ _ _ _ CHK) as He. unfold check_entry in He.
    rewrite forallb_forall in He; specialize (He w Hw); rewrite forallb_forall in He.
    specialize (He v Hv). rewrite !orb_true_iff in He; destruct He as [[He|He]|He].
    + apply Z.eqb_eq in He; contradiction.
    + rewrite andb_true_iff in He; destruct He as [P1 P2].
      rewrite (chk_phys _ _ _ _ _ _ CHK _ P1), (chk_phys _ _ _ _ _ _ CHK _ P2) in E. contradiction.
    + apply negb_true_iff in He. apply conflict_false in He; destruct He; congruence.
  - exfalso. apply (find_none _ _ F) in Hv. rewrite Z.eqb_refl in Hv; discriminate.
Qed.

(* two live values sharing a register hold the same value: they are copies *)
Theorem shared_are_copies : forall color L vrf prf u v,
  agree color L vrf prf -> In u L -> In v L -> color u = color v -> vrf u = vrf v.
Proof. intros color L vrf prf u v HA Hu Hv E. rewrite <- (HA u Hu), <- (HA v Hv); now rewrite E. Qed.

Theorem precoloured_kept : forall color pre, check_precoloured color pre = true ->
  forall v p, In (v, p) pre -> color v = p.
Proof.
  unfold check_precoloured; intros color pre H v p Hin. rewrite forallb_forall in H.
  specialize (H _ Hin); now apply Z.eqb_eq in H.
Qed.

(* what an accepting run of the per-frame entry point establishes *)
Theorem entry_live_sound : forall prog live allowed,
  check_live prog live = true -> check_entry_live prog live allowed = true ->
  forall r, live_in prog r 0%nat -> In r allowed.
Proof.
  intros prog live allowed H1 H2 r Hr. unfold check_entry_live in H2.
  eapply subset_In; eauto. now apply (liveness_fixpoint_sound prog live H1 r 0%nat).
Qed.

Theorem check_frame_unfold : forall prog fuel ctbl atbl physl extra ridx pre after,
  check_frame prog fuel ctbl atbl physl extra ridx pre after = true ->
  let live := compute_live prog fuel in
  let removed := removed_flags ridx (length prog) in
  check_alloc prog live (color_of ctbl) (alias_of atbl) physl removed = true /\
  check_entry_live prog live (physl ++ extra) = true /\
  check_precoloured (color_of ctbl) pre = true /\
  compact removed (target (color_of ctbl) prog removed) = after.
Proof.
  intros prog fuel ctbl atbl physl extra ridx pre after H live removed.
  unfold check_frame, check_frame_cert in H. rewrite !andb_true_iff in H.
  destruct H as [[[H1 H0] H2] H3]. split; auto. split; auto. split; auto.
  unfold check_rewritten in H3. fold live removed in H3.
  revert H3. generalize (compact removed (target (color_of ctbl) prog removed)).
  assert (Lz : forall a b : list Z, list_eqb Z.eqb a b = true -> a = b).
  { induction a as [|x a IH]; destruct b as [|y b]; cbn; try discriminate; auto.
    intros E; apply andb_true_iff in E; destruct E as [E1 E2]. apply Z.eqb_eq in E1.
    f_equal; auto. }
  assert (Ln : forall a b : list nat, list_eqb Nat.eqb a b = true -> a = b).
  { induction a as [|x a IH]; destruct b as [|y b]; cbn; try discriminate; auto.
    intros E; apply andb_true_iff in E; destruct E as [E1 E2]. apply Nat.eqb_eq in E1.
    f_equal; auto. }
  assert (Li : forall a b : instr, instr_eqb a b = true -> a = b).
  { intros [u1 d1 c1 m1 j1] [u2 d2 c2 m2 j2]; unfold instr_eqb; cbn.
    rewrite !andb_true_iff. intros [[[[E1 E2] E3] E4] E5].
    apply Lz in E1, E2, E3. apply Ln in E5. apply Bool.eqb_prop in E4. now subst. }
  intros l; revert after. induction l as [|x l IH]; destruct after as [|y after]; cbn;
    try discriminate; auto.
  intros E; apply andb_true_iff in E; destruct E as [E1 E2]. f_equal; auto.
Qed.
