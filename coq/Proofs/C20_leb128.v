(* Proofs/C20_leb128.v — lemmas for property C20 about Gen.leb128 (regenerated from
   /repo/ppci/utils/leb128.py by tools/py2coq.py). *)
From PV Require Import Lib.Py Lib.Tac Spec.Leb128Spec Gen.leb128.
Open Scope Z_scope.

(* ------------------------------------------------------------------ byte-level facts *)
Lemma range_forall (P : Z -> bool) a b :
  forallb P (rangeZ a b) = true -> forall x, a <= x < b -> P x = true.
Proof. intros H x Hx. rewrite forallb_forall in H. apply H, rangeZ_In, Hx. Qed.

Lemma land127 v : Z.land v 127 = v mod 128.
Proof. change 127 with (2 ^ 7 - 1). now rewrite land_ones_mod by lia. Qed.

Lemma shiftr7 v : Z.shiftr v 7 = v / 128.
Proof. now rewrite shiftr_div by lia. Qed.

Lemma group_facts b : 0 <= b < 128 ->
  truthy (Z.land b 64) = (64 <=? b) /\ Z.land b 128 = 0 /\ Z.lor b 128 = b + 128.
Proof.
  intros H.
  assert (F : forallb (fun b => Bool.eqb (truthy (Z.land b 64)) (64 <=? b) && (Z.land b 128 =? 0)
                                && (Z.lor b 128 =? b + 128)) (rangeZ 0 128) = true)
    by (vm_compute; reflexivity).
  pose proof (range_forall _ _ _ F b H) as G. cbv beta in G.
  apply andb_true_iff in G. destruct G as [G G3]. apply andb_true_iff in G. destruct G as [G1 G2].
  apply Bool.eqb_prop in G1. repeat split; [exact G1|lia|lia].
Qed.

Lemma cont_facts b : 0 <= b < 256 -> (Z.land b 128 =? 0) = (b <? 128).
Proof.
  intros H.
  assert (F : forallb (fun b => Bool.eqb (Z.land b 128 =? 0) (b <? 128)) (rangeZ 0 256) = true)
    by (vm_compute; reflexivity).
  pose proof (range_forall _ _ _ F b H) as G. cbv beta in G. now apply Bool.eqb_prop in G.
Qed.

(* ------------------------------------------------------------------ spec-level facts *)
Lemma wf_cons b c r : wf_leb (b :: c :: r) <-> 128 <= b < 256 /\ wf_leb (c :: r).
Proof. reflexivity. Qed.

Lemma wf_single b : wf_leb [b] <-> 0 <= b < 128.
Proof. reflexivity. Qed.

Lemma wf_nonempty l : wf_leb l -> l <> [].
Proof. destruct l; [intros []|discriminate]. Qed.

Lemma wf_all_byte l : wf_leb l -> all_byte l = true.
Proof.
  induction l as [|b r IH]; [intros []|].
  destruct r as [|c r].
  - rewrite wf_single. intros H. unfold all_byte, is_byte; cbn. lia.
  - rewrite wf_cons. intros [Hb Hr]. change (all_byte (b :: c :: r)) with (is_byte b && all_byte (c :: r)).
    rewrite (IH Hr). unfold is_byte. lia.
Qed.

Lemma wf_bytes l : wf_leb l -> Forall (fun b => 0 <= b < 256) l.
Proof.
  induction l as [|b r IH]; [intros []|].
  destruct r as [|c r].
  - rewrite wf_single. intros H. constructor; [lia|constructor].
  - rewrite wf_cons. intros [Hb Hr]. constructor; [lia|auto].
Qed.

Lemma groups_cons b r : groups_value (b :: r) = b mod 128 + 128 * groups_value r.
Proof. reflexivity. Qed.

Lemma groups_bound l : 0 <= groups_value l < 2 ^ (7 * len l).
Proof.
  induction l as [|b r IH].
  - cbn. lia.
  - rewrite groups_cons. unfold len in *. cbn [length]. rewrite Nat2Z.inj_succ.
    replace (7 * Z.succ (Z.of_nat (length r))) with (7 + 7 * Z.of_nat (length r)) by lia.
    rewrite Z.pow_add_r by lia. change (2 ^ 7) with 128.
    assert (0 <= b mod 128 < 128) by (apply Z.mod_pos_bound; lia). nia.
Qed.

(* signed value, structurally: the last group is a signed 7-bit number *)
Fixpoint sleb_rec (l : list Z) : Z :=
  match l with
  | [] => 0
  | b :: r => match r with
              | [] => if 64 <=? b mod 128 then b mod 128 - 128 else b mod 128
              | _ :: _ => b mod 128 + 128 * sleb_rec r
              end
  end.

Lemma sleb_rec_cons b c r : sleb_rec (b :: c :: r) = b mod 128 + 128 * sleb_rec (c :: r).
Proof. reflexivity. Qed.

Lemma testbit6 g : 0 <= g < 128 -> Z.testbit g 6 = (64 <=? g).
Proof.
  intros H.
  assert (F : forallb (fun g => Bool.eqb (Z.testbit g 6) (64 <=? g)) (rangeZ 0 128) = true)
    by (vm_compute; reflexivity).
  pose proof (range_forall _ _ _ F g H) as G. cbv beta in G. now apply Bool.eqb_prop in G.
Qed.

Lemma sleb_value_rec l : l <> [] -> sleb_value l = sleb_rec l.
Proof.
  induction l as [|b r IH]; [congruence|intros _].
  destruct r as [|c r].
  - unfold sleb_value. cbn [groups_value len length sleb_rec].
    change (7 * Z.of_nat 1 - 1) with 6. change (7 * Z.of_nat 1) with 7.
    assert (Hb : 0 <= b mod 128 < 128) by (apply Z.mod_pos_bound; lia).
    replace (b mod 128 + 128 * 0) with (b mod 128) by lia.
    rewrite testbit6 by exact Hb. change (2 ^ 7) with 128. reflexivity.
  - rewrite sleb_rec_cons, <- IH by discriminate.
    unfold sleb_value. rewrite groups_cons.
    set (G := groups_value (c :: r)).
    assert (Hlen : len (b :: c :: r) = len (c :: r) + 1)
      by (unfold len; cbn [length]; lia).
    rewrite Hlen. set (n := len (c :: r)).
    assert (Hn : 1 <= n) by (unfold n, len; cbn [length]; lia).
    assert (Hb : 0 <= b mod 128 < 128) by (apply Z.mod_pos_bound; lia).
    replace (7 * (n + 1) - 1) with ((7 * n - 1) + 7) by lia.
    rewrite <- Z.div_pow2_bits by lia. change (2 ^ 7) with 128.
    replace ((b mod 128 + 128 * G) / 128) with G by lia.
    replace (7 * (n + 1)) with (7 + 7 * n) by lia.
    rewrite Z.pow_add_r by lia. change (2 ^ 7) with 128.
    destruct (Z.testbit G (7 * n - 1)); lia.
Qed.

Lemma sleb_rec_bound l : l <> [] -> - 2 ^ (7 * len l - 1) <= sleb_rec l < 2 ^ (7 * len l - 1).
Proof.
  induction l as [|b r IH]; [congruence|intros _].
  destruct r as [|c r].
  - cbn [sleb_rec]. change (len [b]) with 1. change (2 ^ (7 * 1 - 1)) with 64.
    assert (Hb : 0 <= b mod 128 < 128) by (apply Z.mod_pos_bound; lia).
    destruct (64 <=? b mod 128) eqn:E; lia.
  - rewrite sleb_rec_cons.
    assert (Hlen : len (b :: c :: r) = len (c :: r) + 1)
      by (unfold len; cbn [length]; lia).
    rewrite Hlen. specialize (IH ltac:(discriminate)).
    set (n := len (c :: r)) in *.
    assert (Hn : 1 <= n) by (unfold n, len; cbn [length]; lia).
    replace (7 * (n + 1) - 1) with (7 + (7 * n - 1)) by lia.
    rewrite Z.pow_add_r by lia. change (2 ^ 7) with 128.
    assert (Hb : 0 <= b mod 128 < 128) by (apply Z.mod_pos_bound; lia). nia.
Qed.

(* ------------------------------------------------------------------ fuel *)
Definition fuel_ok (v : Z) (fuel : nat) : Prop :=
  (Z.to_nat (Z.log2 (Z.abs v) / 7) + 2 <= fuel)%nat.

Lemma fuel_ok_bound v fuel : fuel_ok v fuel ->
  (2 <= fuel)%nat /\ Z.abs v < 2 ^ (7 * (Z.of_nat fuel - 1)).
Proof.
  unfold fuel_ok. intros H. split; [lia|].
  assert (H0 : 0 <= Z.log2 (Z.abs v)) by apply Z.log2_nonneg.
  set (q := Z.log2 (Z.abs v) / 7) in *.
  assert (Hq : 0 <= q) by (unfold q; apply Z.div_pos; lia).
  assert (Hf : q + 2 <= Z.of_nat fuel) by lia.
  destruct (Z.eq_dec (Z.abs v) 0) as [->|Hnz].
  - apply Z.pow_pos_nonneg; lia.
  - apply Z.lt_le_trans with (2 ^ (Z.log2 (Z.abs v) + 1)).
    + apply Z.log2_spec. lia.
    + apply Z.pow_le_mono_r; [lia|]. unfold q in *. lia.
Qed.

(* ------------------------------------------------------------------ unsigned encoder *)
Lemma pow7_succ n : 2 ^ (7 * Z.of_nat (S n)) = 128 * 2 ^ (7 * Z.of_nat n).
Proof.
  rewrite Nat2Z.inj_succ. replace (7 * Z.succ (Z.of_nat n)) with (7 + 7 * Z.of_nat n) by lia.
  rewrite Z.pow_add_r by lia. reflexivity.
Qed.

Lemma uenc_loop_spec : forall fuel v data,
  0 <= v < 2 ^ (7 * Z.of_nat fuel) -> (0 < fuel)%nat ->
  exists l, unsigned_leb128_encode_loop1 fuel v data = Ok (0, data ++ l) /\
            wf_leb l /\ groups_value l = v /\ (0 < v -> last l 0 <> 0) /\ (v = 0 -> l = [0]) /\
            (length l <= fuel)%nat.
Proof.
  induction fuel as [|n IH]; intros v data Hv Hf; [lia|].
  cbn [unsigned_leb128_encode_loop1]. rewrite ?land127, ?shiftr7.
  assert (Hb : 0 <= v mod 128 < 128) by (apply Z.mod_pos_bound; lia).
  destruct (v / 128 =? 0) eqn:E.
  - exists [v mod 128]. apply Z.eqb_eq in E. rewrite E.
    split; [reflexivity|]. split; [exact Hb|]. split; [cbn; lia|].
    split; [cbn; lia|]. split; [intros ->; reflexivity|cbn; lia].
  - apply Z.eqb_neq in E. rewrite pow7_succ in Hv.
    assert (Hn : (0 < n)%nat) by (destruct n; [cbn in Hv|]; lia).
    assert (Hv' : 0 <= v / 128 < 2 ^ (7 * Z.of_nat n)) by lia.
    destruct (IH (v / 128) (data ++ [Z.lor (v mod 128) 128]) Hv' Hn)
      as (l & Hl & Hwf & Hval & Hlast & Hz & Hlen).
    destruct (group_facts _ Hb) as (_ & _ & Hor).
    exists (Z.lor (v mod 128) 128 :: l). rewrite Hl, <- app_assoc. cbn [app].
    destruct l as [|c r]; [destruct Hwf|].
    split; [reflexivity|]. split; [apply wf_cons; split; [lia|exact Hwf]|].
    split; [rewrite groups_cons, Hval, Hor; lia|].
    split; [intros _; change (last (Z.lor (v mod 128) 128 :: c :: r) 0) with (last (c :: r) 0);
            apply Hlast; lia|].
    split; [intros ->; cbn in E; lia|cbn [length] in *; lia].
Qed.

Lemma u_encode_ok fuel v : 0 <= v -> fuel_ok v fuel ->
  exists l, unsigned_leb128_encode fuel v = Ok l /\ is_uleb v l /\ (length l <= fuel)%nat.
Proof.
  intros Hv Hf. destruct (fuel_ok_bound _ _ Hf) as [H2 Hb]. rewrite Z.abs_eq in Hb by lia.
  assert (Hb' : 0 <= v < 2 ^ (7 * Z.of_nat fuel)).
  { split; [lia|]. eapply Z.lt_le_trans; [exact Hb|]. apply Z.pow_le_mono_r; lia. }
  destruct (uenc_loop_spec fuel v [] Hb' ltac:(lia)) as (l & Hl & Hwf & Hval & Hlast & Hz & Hlen).
  exists l. unfold unsigned_leb128_encode. cbn [negb].
  destruct (v <? 0) eqn:E; [lia|]. rewrite Hl. cbn [bind app].
  rewrite (wf_all_byte _ Hwf). cbn [guard].
  split; [reflexivity|]. split; [|exact Hlen].
  split; [exact Hwf|]. split; [exact Hval|].
  destruct (Z.eq_dec v 0) as [->|Hnz].
  - left. now rewrite Hz.
  - right. apply Hlast. lia.
Qed.

Lemma u_rejects_negative fuel v : v < 0 -> unsigned_leb128_encode fuel v = Diag 1.
Proof. intros H. unfold unsigned_leb128_encode. cbn [negb]. destruct (v <? 0) eqn:E; [reflexivity|lia]. Qed.

(* ------------------------------------------------------------------ signed encoder *)
Lemma pow7m1_succ n : (0 < n)%nat -> 2 ^ (7 * Z.of_nat (S n) - 1) = 128 * 2 ^ (7 * Z.of_nat n - 1).
Proof.
  intros H. rewrite Nat2Z.inj_succ.
  replace (7 * Z.succ (Z.of_nat n) - 1) with (7 + (7 * Z.of_nat n - 1)) by lia.
  rewrite Z.pow_add_r by lia. reflexivity.
Qed.

Lemma s_minimal_cons b c d r : s_minimal (b :: c :: d :: r) <-> s_minimal (c :: d :: r).
Proof. reflexivity. Qed.

Lemma s_minimal_two b c :
  s_minimal [b; c] <-> ~ (c = 0 /\ b mod 128 < 64) /\ ~ (c = 127 /\ 64 <= b mod 128).
Proof. reflexivity. Qed.

Lemma senc_loop_spec : forall fuel v data,
  - 2 ^ (7 * Z.of_nat fuel - 1) <= v < 2 ^ (7 * Z.of_nat fuel - 1) -> (0 < fuel)%nat ->
  exists l fv, signed_leb128_encode_loop1 fuel v data = Ok (fv, data ++ l) /\
            wf_leb l /\ sleb_rec l = v /\ s_minimal l /\ (length l <= fuel)%nat.
Proof.
  induction fuel as [|n IH]; intros v data Hv Hf; [lia|].
  cbn [signed_leb128_encode_loop1]. rewrite ?land127, ?shiftr7.
  assert (Hb : 0 <= v mod 128 < 128) by (apply Z.mod_pos_bound; lia).
  destruct (group_facts _ Hb) as (Hsign & _ & Hor). rewrite Hsign.
  destruct ((v / 128 =? 0) && negb (64 <=? v mod 128) || (v / 128 =? -1) && (64 <=? v mod 128)) eqn:E.
  - exists [v mod 128], (v / 128).
    split; [reflexivity|]. split; [exact Hb|].
    split; [|split; [exact I|cbn; lia]].
    cbn [sleb_rec]. rewrite (Z.mod_small (v mod 128) 128) by lia.
    destruct (64 <=? v mod 128) eqn:E2; lia.
  - assert (Hn : (0 < n)%nat).
    { destruct n; [|lia]. change (2 ^ (7 * Z.of_nat 1 - 1)) with 64 in Hv. lia. }
    rewrite pow7m1_succ in Hv by exact Hn.
    assert (Hv' : - 2 ^ (7 * Z.of_nat n - 1) <= v / 128 < 2 ^ (7 * Z.of_nat n - 1)) by lia.
    destruct (IH (v / 128) (data ++ [Z.lor (v mod 128) 128]) Hv' Hn)
      as (l & fv & Hl & Hwf & Hval & Hmin & Hlen).
    exists (Z.lor (v mod 128) 128 :: l), fv. rewrite Hl, <- app_assoc. cbn [app].
    destruct l as [|c r]; [destruct Hwf|].
    assert (Hm : (Z.lor (v mod 128) 128) mod 128 = v mod 128) by (rewrite Hor; lia).
    split; [reflexivity|]. split; [apply wf_cons; split; [lia|exact Hwf]|].
    split; [rewrite sleb_rec_cons, Hval, Hm; lia|].
    split; [|cbn [length] in *; lia].
    destruct r as [|d r].
    + apply s_minimal_two. rewrite Hm. cbn [sleb_rec] in Hval. assert (Hc : 0 <= c < 128) by exact Hwf.
      rewrite (Z.mod_small c 128) in Hval by lia.
      destruct (64 <=? c) eqn:E2; lia.
    + apply s_minimal_cons. exact Hmin.
Qed.

Lemma s_encode_ok fuel v : fuel_ok v fuel ->
  exists l, signed_leb128_encode fuel v = Ok l /\ is_sleb v l /\ (length l <= fuel)%nat.
Proof.
  intros Hf. destruct (fuel_ok_bound _ _ Hf) as [H2 Hb].
  assert (Hb' : - 2 ^ (7 * Z.of_nat fuel - 1) <= v < 2 ^ (7 * Z.of_nat fuel - 1)).
  { assert (2 ^ (7 * (Z.of_nat fuel - 1)) <= 2 ^ (7 * Z.of_nat fuel - 1))
      by (apply Z.pow_le_mono_r; lia). lia. }
  destruct (senc_loop_spec fuel v [] Hb' ltac:(lia)) as (l & fv & Hl & Hwf & Hval & Hmin & Hlen).
  exists l. unfold signed_leb128_encode. rewrite Hl. cbn [bind app].
  rewrite (wf_all_byte _ Hwf). cbn [guard].
  split; [reflexivity|]. split; [|exact Hlen].
  split; [exact Hwf|]. split; [|exact Hmin].
  rewrite sleb_value_rec by (apply wf_nonempty; exact Hwf). exact Hval.
Qed.

(* ------------------------------------------------------------------ decoders *)
Ltac tup_eq :=
  repeat match goal with
         | |- Ok _ = Ok _ => f_equal
         | |- (_, _) = (_, _) => f_equal
         end; try reflexivity; try ring.

Lemma len_cons {A} (b : A) r : len (b :: r) = len r + 1.
Proof. unfold len. cbn [length]. lia. Qed.

Lemma udec_loop_spec : forall l fuel rest result shift,
  wf_leb l -> 0 <= shift -> 0 <= result < 2 ^ shift -> (length l <= fuel)%nat ->
  unsigned_leb128_decode_loop1 fuel (l ++ rest) result shift =
    Ok (rest, result + 2 ^ shift * groups_value l, shift + 7 * (len l - 1)).
Proof.
  induction l as [|b r IH]; intros fuel rest result shift Hwf Hs Hr Hf; [destruct Hwf|].
  destruct fuel as [|f]; [cbn [length] in Hf; lia|].
  cbn [unsigned_leb128_decode_loop1 app]. guard_ok. rewrite ?land127.
  assert (Hb : 0 <= b mod 128 < 128) by (apply Z.mod_pos_bound; lia).
  rewrite lor_disjoint_add by lia.
  assert (Hp : 0 < 2 ^ shift) by (apply Z.pow_pos_nonneg; lia).
  destruct r as [|c r].
  - assert (Hb' : 0 <= b < 128) by exact Hwf.
    rewrite cont_facts by lia. destruct (b <? 128) eqn:E; [|lia].
    rewrite groups_cons. cbn [groups_value]. change (len [b]) with 1.
    tup_eq.
  - apply wf_cons in Hwf. destruct Hwf as [Hb' Hwf].
    rewrite cont_facts by lia. destruct (b <? 128) eqn:E; [lia|].
    change ((c :: r) ++ rest) with ((c :: r) ++ rest).
    rewrite IH; [| exact Hwf | lia | | cbn [length] in *; lia].
    + rewrite (groups_cons b), (len_cons b). rewrite Z.pow_add_r by lia. change (2 ^ 7) with 128.
      tup_eq.
    + rewrite Z.pow_add_r by lia. change (2 ^ 7) with 128. nia.
Qed.

Lemma u_decode_ok fuel l rest : wf_leb l -> (length l <= fuel)%nat ->
  unsigned_leb128_decode fuel (l ++ rest) = Ok (uleb_value l, rest).
Proof.
  intros Hwf Hf. unfold unsigned_leb128_decode.
  rewrite udec_loop_spec by (try assumption; cbn; lia). cbn [bind].
  unfold uleb_value. f_equal. f_equal. change (2 ^ 0) with 1. lia.
Qed.

Lemma sdec_loop_spec : forall l fuel b0 rest result shift,
  wf_leb l -> 0 <= shift -> 0 <= result < 2 ^ shift -> (length l <= fuel)%nat ->
  signed_leb128_decode_loop1 fuel b0 (l ++ rest) result shift =
    Ok (last l 0, rest, result + 2 ^ shift * groups_value l, shift + 7 * len l).
Proof.
  induction l as [|b r IH]; intros fuel b0 rest result shift Hwf Hs Hr Hf; [destruct Hwf|].
  destruct fuel as [|f]; [cbn [length] in Hf; lia|].
  cbn [signed_leb128_decode_loop1 app]. guard_ok. rewrite ?land127.
  assert (Hb : 0 <= b mod 128 < 128) by (apply Z.mod_pos_bound; lia).
  rewrite lor_disjoint_add by lia.
  assert (Hp : 0 < 2 ^ shift) by (apply Z.pow_pos_nonneg; lia).
  destruct r as [|c r].
  - assert (Hb' : 0 <= b < 128) by exact Hwf.
    rewrite cont_facts by lia. destruct (b <? 128) eqn:E; [|lia].
    rewrite groups_cons. cbn [groups_value last]. change (len [b]) with 1.
    tup_eq.
  - apply wf_cons in Hwf. destruct Hwf as [Hb' Hwf].
    rewrite cont_facts by lia. destruct (b <? 128) eqn:E; [lia|].
    rewrite IH; [| exact Hwf | lia | | cbn [length] in *; lia].
    + rewrite (groups_cons b), (len_cons b). rewrite Z.pow_add_r by lia. change (2 ^ 7) with 128.
      change (last (b :: c :: r) 0) with (last (c :: r) 0).
      tup_eq.
    + rewrite Z.pow_add_r by lia. change (2 ^ 7) with 128. nia.
Qed.

Lemma lxor_mask r s : 0 <= s -> 0 <= r < 2 ^ s -> Z.lxor r (2 ^ s - 1) = 2 ^ s - 1 - r.
Proof.
  intros Hs Hr.
  assert (H : r + Z.lxor r (2 ^ s - 1) = 2 ^ s - 1).
  { rewrite Z.add_nocarry_lxor.
    - now rewrite <- Z.lxor_assoc, Z.lxor_nilpotent, Z.lxor_0_l.
    - apply Z.bits_inj'. intros i Hi.
      rewrite Z.land_spec, Z.lxor_spec, testbit_ones_full, Z.bits_0 by lia.
      destruct (Z.ltb_spec i s).
      + replace (0 <=? i) with true by lia. cbn. now destruct (Z.testbit r i).
      + rewrite (testbit_small r s i) by lia. reflexivity. }
  lia.
Qed.

Lemma last_group l : wf_leb l -> 0 <= last l 0 < 128.
Proof.
  induction l as [|b r IH]; [intros []|]. destruct r as [|c r].
  - intros H. exact H.
  - intros H. apply wf_cons in H. change (last (b :: c :: r) 0) with (last (c :: r) 0). apply IH, H.
Qed.

Lemma top_bit l : wf_leb l -> Z.testbit (groups_value l) (7 * len l - 1) = (64 <=? last l 0).
Proof.
  induction l as [|b r IH]; [intros []|]. destruct r as [|c r].
  - intros H. assert (Hb : 0 <= b < 128) by exact H.
    cbn [groups_value last]. change (7 * len [b] - 1) with 6.
    rewrite Z.mod_small by lia. replace (b + 128 * 0) with b by lia. now apply testbit6.
  - intros H. apply wf_cons in H. destruct H as [Hb H].
    change (last (b :: c :: r) 0) with (last (c :: r) 0). rewrite <- IH by exact H.
    rewrite groups_cons, (len_cons b). set (G := groups_value (c :: r)). set (n := len (c :: r)).
    assert (Hn : 1 <= n) by (unfold n; rewrite len_cons; unfold len; lia).
    assert (Hb2 : 0 <= b mod 128 < 128) by (apply Z.mod_pos_bound; lia).
    replace (7 * (n + 1) - 1) with ((7 * n - 1) + 7) by lia.
    rewrite <- Z.div_pow2_bits by lia. change (2 ^ 7) with 128.
    now replace ((b mod 128 + 128 * G) / 128) with G by lia.
Qed.

Lemma s_decode_ok fuel l rest : wf_leb l -> (length l <= fuel)%nat ->
  signed_leb128_decode fuel (l ++ rest) = Ok (sleb_value l, rest).
Proof.
  intros Hwf Hf. unfold signed_leb128_decode.
  rewrite sdec_loop_spec by (try assumption; cbn; lia). cbn [bind].
  pose proof (last_group _ Hwf) as Hl. destruct (group_facts _ Hl) as (Hsign & _ & _).
  rewrite Hsign. unfold sleb_value. rewrite top_bit by exact Hwf.
  change (2 ^ 0) with 1. replace (0 + 1 * groups_value l) with (groups_value l) by lia.
  replace (0 + 7 * len l) with (7 * len l) by lia.
  assert (Hn : 0 <= 7 * len l) by (unfold len; lia).
  destruct (64 <=? last l 0); [|reflexivity].
  guard_ok. rewrite shiftl1_pow by lia.
  rewrite lxor_mask by (try lia; apply groups_bound).
  f_equal. f_equal. lia.
Qed.

(* ------------------------------------------------------------------ uniqueness of the canonical encoding *)
Lemma groups_zero_last r : wf_leb r -> groups_value r = 0 -> last r 0 = 0.
Proof.
  induction r as [|b r IH]; [intros []|]. destruct r as [|c r].
  - intros H. assert (Hb : 0 <= b < 128) by exact H. cbn [groups_value last]. lia.
  - intros H HG. apply wf_cons in H. destruct H as [Hb H]. rewrite groups_cons in HG.
    pose proof (groups_bound (c :: r)) as [HG0 _].
    change (last (b :: c :: r) 0) with (last (c :: r) 0). apply IH; [exact H|lia].
Qed.

Lemma u_minimal_tail b c r : u_minimal (b :: c :: r) -> u_minimal (c :: r).
Proof. intros [H|H]; [cbn in H; lia|right; exact H]. Qed.

Lemma u_unique : forall l1 l2, wf_leb l1 -> wf_leb l2 -> groups_value l1 = groups_value l2 ->
  u_minimal l1 -> u_minimal l2 -> l1 = l2.
Proof.
  induction l1 as [|b1 r1 IH]; intros l2 H1 H2 HG M1 M2; [destruct H1|].
  destruct l2 as [|b2 r2]; [destruct H2|].
  rewrite !groups_cons in HG.
  assert (Hm1 : 0 <= b1 mod 128 < 128) by (apply Z.mod_pos_bound; lia).
  assert (Hm2 : 0 <= b2 mod 128 < 128) by (apply Z.mod_pos_bound; lia).
  pose proof (groups_bound r1) as [G1 _]. pose proof (groups_bound r2) as [G2 _].
  destruct r1 as [|c1 r1], r2 as [|c2 r2].
  - assert (0 <= b1 < 128) by exact H1. assert (0 <= b2 < 128) by exact H2.
    cbn [groups_value] in HG. f_equal. lia.
  - exfalso. apply wf_cons in H2. destruct H2 as [_ H2].
    destruct M2 as [M2|M2]; [cbn in M2; lia|]. apply M2.
    change (last (b2 :: c2 :: r2) 0) with (last (c2 :: r2) 0).
    apply groups_zero_last; [exact H2|]. cbn [groups_value] in HG |- *. cbn [groups_value] in G2. lia.
  - exfalso. apply wf_cons in H1. destruct H1 as [_ H1].
    destruct M1 as [M1|M1]; [cbn in M1; lia|]. apply M1.
    change (last (b1 :: c1 :: r1) 0) with (last (c1 :: r1) 0).
    apply groups_zero_last; [exact H1|]. cbn [groups_value] in HG |- *. cbn [groups_value] in G1. lia.
  - apply wf_cons in H1. destruct H1 as [Hb1 H1]. apply wf_cons in H2. destruct H2 as [Hb2 H2].
    assert (groups_value (c1 :: r1) = groups_value (c2 :: r2)) by lia.
    f_equal; [lia|]. apply IH; try assumption; eapply u_minimal_tail; eassumption.
Qed.

Lemma s_zero_not_min : forall r b, wf_leb r -> sleb_rec r = 0 -> b mod 128 < 64 -> ~ s_minimal (b :: r).
Proof.
  induction r as [|c r IH]; intros b H HS Hb; [destruct H|]. destruct r as [|d r].
  - assert (Hc : 0 <= c < 128) by exact H. cbn [sleb_rec] in HS. rewrite Z.mod_small in HS by lia.
    intros M. destruct (proj1 (s_minimal_two b c) M) as [M1 M2]. destruct (64 <=? c) eqn:E; lia.
  - apply wf_cons in H. destruct H as [Hc H]. rewrite sleb_rec_cons in HS.
    assert (0 <= c mod 128 < 128) by (apply Z.mod_pos_bound; lia).
    intros M. apply s_minimal_cons in M. revert M. apply IH; [exact H|lia|lia].
Qed.

Lemma s_m1_not_min : forall r b, wf_leb r -> sleb_rec r = -1 -> 64 <= b mod 128 -> ~ s_minimal (b :: r).
Proof.
  induction r as [|c r IH]; intros b H HS Hb; [destruct H|]. destruct r as [|d r].
  - assert (Hc : 0 <= c < 128) by exact H. cbn [sleb_rec] in HS. rewrite Z.mod_small in HS by lia.
    intros M. destruct (proj1 (s_minimal_two b c) M) as [M1 M2]. destruct (64 <=? c) eqn:E; lia.
  - apply wf_cons in H. destruct H as [Hc H]. rewrite sleb_rec_cons in HS.
    assert (0 <= c mod 128 < 128) by (apply Z.mod_pos_bound; lia).
    intros M. apply s_minimal_cons in M. revert M. apply IH; [exact H|lia|lia].
Qed.

Lemma s_minimal_tail b c r : s_minimal (b :: c :: r) -> s_minimal (c :: r).
Proof. destruct r; [intros _; exact I|intros H; exact H]. Qed.

Lemma s_unique : forall l1 l2, wf_leb l1 -> wf_leb l2 -> sleb_rec l1 = sleb_rec l2 ->
  s_minimal l1 -> s_minimal l2 -> l1 = l2.
Proof.
  induction l1 as [|b1 r1 IH]; intros l2 H1 H2 HS M1 M2; [destruct H1|].
  destruct l2 as [|b2 r2]; [destruct H2|].
  assert (Hm1 : 0 <= b1 mod 128 < 128) by (apply Z.mod_pos_bound; lia).
  assert (Hm2 : 0 <= b2 mod 128 < 128) by (apply Z.mod_pos_bound; lia).
  destruct r1 as [|c1 r1], r2 as [|c2 r2].
  - assert (0 <= b1 < 128) by exact H1. assert (0 <= b2 < 128) by exact H2.
    cbn [sleb_rec] in HS. rewrite !Z.mod_small in HS by lia. f_equal.
    destruct (64 <=? b1) eqn:E1, (64 <=? b2) eqn:E2; lia.
  - exfalso. assert (Hb1 : 0 <= b1 < 128) by exact H1.
    apply wf_cons in H2. destruct H2 as [_ H2]. rewrite sleb_rec_cons in HS.
    remember (sleb_rec (c2 :: r2)) as S2 eqn:ES2.
    cbn [sleb_rec] in HS. rewrite (Z.mod_small b1) in HS by lia.
    destruct (64 <=? b1) eqn:E1.
    + revert M2. apply s_m1_not_min; [exact H2|rewrite <- ES2; lia|lia].
    + revert M2. apply s_zero_not_min; [exact H2|rewrite <- ES2; lia|lia].
  - exfalso. assert (Hb2 : 0 <= b2 < 128) by exact H2.
    apply wf_cons in H1. destruct H1 as [_ H1]. rewrite sleb_rec_cons in HS.
    remember (sleb_rec (c1 :: r1)) as S2 eqn:ES2.
    cbn [sleb_rec] in HS. rewrite (Z.mod_small b2) in HS by lia.
    destruct (64 <=? b2) eqn:E2.
    + revert M1. apply s_m1_not_min; [exact H1|rewrite <- ES2; lia|lia].
    + revert M1. apply s_zero_not_min; [exact H1|rewrite <- ES2; lia|lia].
  - apply wf_cons in H1. destruct H1 as [Hb1 H1]. apply wf_cons in H2. destruct H2 as [Hb2 H2].
    rewrite !sleb_rec_cons in HS.
    assert (sleb_rec (c1 :: r1) = sleb_rec (c2 :: r2)) by lia.
    f_equal; [lia|]. apply IH; try assumption; eapply s_minimal_tail; eassumption.
Qed.

(* ------------------------------------------------------------------ statements used by Props/C20.v *)
Lemma u_roundtrip fuel fuel' v : 0 <= v -> fuel_ok v fuel -> (fuel <= fuel')%nat ->
  exists l, unsigned_leb128_encode fuel v = Ok l /\
            forall rest, unsigned_leb128_decode fuel' (l ++ rest) = Ok (v, rest).
Proof.
  intros Hv Hf Hff. destruct (u_encode_ok fuel v Hv Hf) as (l & He & (Hwf & Hval & _) & Hlen).
  exists l. split; [exact He|]. intros rest. rewrite u_decode_ok by (try assumption; lia).
  now rewrite Hval.
Qed.

Lemma s_roundtrip fuel fuel' v : fuel_ok v fuel -> (fuel <= fuel')%nat ->
  exists l, signed_leb128_encode fuel v = Ok l /\
            forall rest, signed_leb128_decode fuel' (l ++ rest) = Ok (v, rest).
Proof.
  intros Hf Hff. destruct (s_encode_ok fuel v Hf) as (l & He & (Hwf & Hval & _) & Hlen).
  exists l. split; [exact He|]. intros rest. rewrite s_decode_ok by (try assumption; lia).
  now rewrite Hval.
Qed.

Lemma u_canonical_unique fuel v l : is_uleb v l -> fuel_ok v fuel -> unsigned_leb128_encode fuel v = Ok l.
Proof.
  intros (Hwf & Hval & Hmin) Hf.
  assert (Hv : 0 <= v) by (rewrite <- Hval; apply groups_bound).
  destruct (u_encode_ok fuel v Hv Hf) as (l' & He & (Hwf' & Hval' & Hmin') & _).
  rewrite He. f_equal. apply u_unique; try assumption. unfold uleb_value in *. congruence.
Qed.

Lemma s_canonical_unique fuel v l : is_sleb v l -> fuel_ok v fuel -> signed_leb128_encode fuel v = Ok l.
Proof.
  intros (Hwf & Hval & Hmin) Hf.
  destruct (s_encode_ok fuel v Hf) as (l' & He & (Hwf' & Hval' & Hmin') & _).
  rewrite He. f_equal. apply s_unique; try assumption.
  rewrite <- !sleb_value_rec by (apply wf_nonempty; assumption). congruence.
Qed.

Lemma bytes_of_wf l : wf_leb l -> Forall (fun b => 0 <= b <= 255) l.
Proof. intros H. eapply Forall_impl; [|apply wf_bytes, H]. cbv beta. intros; lia. Qed.

(* ---- exact statements of Props/C20.v whose proofs need more than [exact] *)
Lemma u_encode_spec_full : forall fuel v, 0 <= v ->
  (Z.to_nat (Z.log2 (Z.abs v) / 7) + 2 <= fuel)%nat ->
  exists l, unsigned_leb128_encode fuel v = Ok l /\ is_uleb v l /\ Forall (fun b => 0 <= b <= 255) l.
Proof.
  intros fuel v Hv Hf. destruct (u_encode_ok fuel v Hv Hf) as (l & He & Hs & _).
  exists l. repeat split; try assumption; try apply Hs. apply bytes_of_wf, Hs.
Qed.

Lemma s_encode_spec_full : forall fuel v,
  (Z.to_nat (Z.log2 (Z.abs v) / 7) + 2 <= fuel)%nat ->
  exists l, signed_leb128_encode fuel v = Ok l /\ is_sleb v l /\ Forall (fun b => 0 <= b <= 255) l.
Proof.
  intros fuel v Hf. destruct (s_encode_ok fuel v Hf) as (l & He & Hs & _).
  exists l. repeat split; try assumption; try apply Hs. apply bytes_of_wf, Hs.
Qed.

Lemma minimal_unique : forall fuel v l,
  (Z.to_nat (Z.log2 (Z.abs v) / 7) + 2 <= fuel)%nat ->
  (is_uleb v l -> unsigned_leb128_encode fuel v = Ok l) /\
  (is_sleb v l -> signed_leb128_encode fuel v = Ok l).
Proof.
  intros fuel v l Hf. split; intros H; [eapply u_canonical_unique|eapply s_canonical_unique]; eassumption.
Qed.

Lemma minimal_unique_decoded : forall fuel fuel' v l rest x,
  wf_leb l -> (length l <= fuel')%nat ->
  (Z.to_nat (Z.log2 (Z.abs v) / 7) + 2 <= fuel)%nat ->
  (u_minimal l -> unsigned_leb128_decode fuel' (l ++ rest) = Ok (v, x) ->
     unsigned_leb128_encode fuel v = Ok l) /\
  (s_minimal l -> signed_leb128_decode fuel' (l ++ rest) = Ok (v, x) ->
     signed_leb128_encode fuel v = Ok l).
Proof.
  intros fuel fuel' v l rest x Hwf Hl Hf. split; intros Hm Hd.
  - rewrite u_decode_ok in Hd by assumption. injection Hd as Hv _.
    apply u_canonical_unique; [repeat split; assumption|assumption].
  - rewrite s_decode_ok in Hd by assumption. injection Hd as Hv _.
    apply s_canonical_unique; [repeat split; assumption|assumption].
Qed.

Lemma u_rejects_negative_ex : forall fuel v, v < 0 ->
  exists code, unsigned_leb128_encode fuel v = Diag code.
Proof. intros fuel v H. eexists. apply u_rejects_negative, H. Qed.


(* ------------------------------------------------------------------ iterators without a terminating byte *)
Definition cont_byte (b : Z) : Prop := 128 <= b < 256.

Lemma udec_loop_truncated : forall l fuel result shift,
  Forall cont_byte l -> 0 <= shift -> (length l < fuel)%nat ->
  unsigned_leb128_decode_loop1 fuel l result shift = Internal StopIteration.
Proof.
  induction l as [|b r IH]; intros fuel result shift Hc Hs Hf;
    (destruct fuel as [|f]; [cbn [length] in Hf; lia|]); [reflexivity|].
  cbn [unsigned_leb128_decode_loop1]. guard_ok.
  inversion Hc as [|? ? Hb Hr]; subst. unfold cont_byte in Hb.
  rewrite cont_facts by lia. destruct (b <? 128) eqn:E; [lia|].
  apply IH; [exact Hr | lia | cbn [length] in Hf; lia].
Qed.

Lemma sdec_loop_truncated : forall l fuel b0 result shift,
  Forall cont_byte l -> 0 <= shift -> (length l < fuel)%nat ->
  signed_leb128_decode_loop1 fuel b0 l result shift = Internal StopIteration.
Proof.
  induction l as [|b r IH]; intros fuel b0 result shift Hc Hs Hf;
    (destruct fuel as [|f]; [cbn [length] in Hf; lia|]); [reflexivity|].
  cbn [signed_leb128_decode_loop1]. guard_ok.
  inversion Hc as [|? ? Hb Hr]; subst. unfold cont_byte in Hb.
  rewrite cont_facts by lia. destruct (b <? 128) eqn:E; [lia|].
  apply IH; [exact Hr | lia | cbn [length] in Hf; lia].
Qed.

Lemma decode_truncated fuel l : Forall cont_byte l -> (length l < fuel)%nat ->
  unsigned_leb128_decode fuel l = Internal StopIteration /\
  signed_leb128_decode fuel l = Internal StopIteration.
Proof.
  intros Hc Hf. unfold unsigned_leb128_decode, signed_leb128_decode.
  rewrite udec_loop_truncated, sdec_loop_truncated by (try assumption; lia). split; reflexivity.
Qed.

(* every byte string is either all continuation bytes or starts with exactly one well-formed encoding *)
Lemma bytes_split : forall data, Forall (fun b => 0 <= b < 256) data ->
  Forall cont_byte data \/ exists l rest, data = l ++ rest /\ wf_leb l.
Proof.
  induction data as [|b r IH]; intros Hb; [left; constructor|].
  inversion Hb as [|? ? Hb0 Hr]; subst.
  destruct (Z_lt_ge_dec b 128) as [Hlt|Hge].
  - right. exists [b], r. split; [reflexivity|]. apply wf_single. lia.
  - destruct (IH Hr) as [Hall|(l & rest & -> & Hwf)].
    + left. constructor; [unfold cont_byte; lia|exact Hall].
    + right. exists (b :: l), rest. split; [reflexivity|].
      destruct l as [|c l]; [destruct Hwf|]. apply wf_cons. split; [lia|exact Hwf].
Qed.

(* total characterisation of both decoders on iterators over bytes *)
Lemma decode_total fuel data : Forall (fun b => 0 <= b < 256) data -> (length data < fuel)%nat ->
  (exists l rest, data = l ++ rest /\ wf_leb l /\
     unsigned_leb128_decode fuel data = Ok (uleb_value l, rest) /\
     signed_leb128_decode fuel data = Ok (sleb_value l, rest)) \/
  (Forall cont_byte data /\
     unsigned_leb128_decode fuel data = Internal StopIteration /\
     signed_leb128_decode fuel data = Internal StopIteration).
Proof.
  intros Hb Hf. destruct (bytes_split data Hb) as [Hall|(l & rest & -> & Hwf)].
  - right. split; [exact Hall|]. apply decode_truncated; assumption.
  - left. exists l, rest. rewrite app_length in Hf.
    repeat split; try assumption; [apply u_decode_ok|apply s_decode_ok]; try assumption; lia.
Qed.

(* the split is unique: the well-formed prefix is determined by the data *)
Lemma wf_prefix_unique : forall l1 l2 r1 r2, wf_leb l1 -> wf_leb l2 -> l1 ++ r1 = l2 ++ r2 -> l1 = l2 /\ r1 = r2.
Proof.
  induction l1 as [|b l1 IH]; intros l2 r1 r2 H1 H2 E; [destruct H1|].
  destruct l2 as [|c l2]; [destruct H2|]. cbn [app] in E. injection E as <- E.
  destruct l1 as [|b1 l1], l2 as [|c1 l2].
  - cbn [app] in E. now subst.
  - pose proof (proj1 (wf_single _) H1). pose proof (proj1 (wf_cons _ _ _) H2). lia.
  - pose proof (proj1 (wf_single _) H2). pose proof (proj1 (wf_cons _ _ _) H1). lia.
  - pose proof (proj1 (wf_cons _ _ _) H1) as [_ W1]. pose proof (proj1 (wf_cons _ _ _) H2) as [_ W2].
    destruct (IH (c1 :: l2) r1 r2 W1 W2 E) as [-> ->]. split; reflexivity.
Qed.

(* converse: a decoder that returns a value on a byte iterator has consumed exactly one well-formed
   encoding and returned its specification value *)
Lemma decode_ok_inv fuel data v rest : Forall (fun b => 0 <= b < 256) data -> (length data < fuel)%nat ->
  (unsigned_leb128_decode fuel data = Ok (v, rest) ->
     exists l, data = l ++ rest /\ wf_leb l /\ v = uleb_value l) /\
  (signed_leb128_decode fuel data = Ok (v, rest) ->
     exists l, data = l ++ rest /\ wf_leb l /\ v = sleb_value l).
Proof.
  intros Hb Hf.
  destruct (decode_total fuel data Hb Hf) as [(l & r & -> & Hwf & Hu & Hs)|(_ & Hu & Hs)];
    split; intros H; try (rewrite Hu in H); try (rewrite Hs in H); try discriminate;
    injection H as <- <-; exists l; repeat split; assumption.
Qed.
