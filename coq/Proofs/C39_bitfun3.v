(* Proofs/C39_bitfun3.v — wrap_negative, inrange and align of Gen.bitfun (wave 5). *)
From PV Require Import Lib.Py Lib.Tac Spec.BitsSpec Spec.BitsSpecExt Gen.bitfun Proofs.C39_bitfun.
Open Scope Z_scope.

Lemma pow2_half bits : 1 <= bits -> 2 ^ bits = 2 * 2 ^ (bits - 1) /\ 0 < 2 ^ (bits - 1).
Proof.
  intros Hb. split.
  - replace bits with (1 + (bits - 1)) at 1 by lia. rewrite Z.pow_add_r by lia. reflexivity.
  - apply Z.pow_pos_nonneg; lia.
Qed.

Lemma wrap_negative_correct value bits : 1 <= bits ->
  - 2 ^ (bits - 1) <= value < 2 ^ bits ->
  wrap_negative value bits = Ok (unsigned_of bits value).
Proof.
  intros Hb Hr. unfold wrap_negative. rewrite !shiftl1_pow by lia.
  destruct (pow2_half bits Hb) as [E P].
  guards_ok.
  assert (C : negb ((- 2 ^ (bits - 1) <=? value) && (value <? 2 ^ bits - 1 + 1)) = false) by lia.
  rewrite C. rewrite land_ones_mod by lia.
  assert (0 <= value mod 2 ^ bits) by (apply Z.mod_pos_bound; lia).
  guards_ok. reflexivity.
Qed.

Lemma wrap_negative_rejects value bits : 1 <= bits ->
  ~ (- 2 ^ (bits - 1) <= value < 2 ^ bits) ->
  wrap_negative value bits = Diag 1.
Proof.
  intros Hb Hr. unfold wrap_negative. rewrite !shiftl1_pow by lia.
  guards_ok.
  assert (C : negb ((- 2 ^ (bits - 1) <=? value) && (value <? 2 ^ bits - 1 + 1)) = true) by lia.
  rewrite C. reflexivity.
Qed.

Lemma wrap_negative_iff value bits u : 1 <= bits ->
  (wrap_negative value bits = Ok u <-> - 2 ^ (bits - 1) <= value < 2 ^ bits /\ u = unsigned_of bits value).
Proof.
  intros Hb. split.
  - intros H. destruct (Z_le_dec (- 2 ^ (bits - 1)) value); [destruct (Z_lt_dec value (2 ^ bits))|].
    + split; [lia|]. rewrite wrap_negative_correct in H by lia. congruence.
    + rewrite wrap_negative_rejects in H by lia. discriminate.
    + rewrite wrap_negative_rejects in H by lia. discriminate.
  - intros [Hr ->]. apply wrap_negative_correct; assumption.
Qed.

(* wrap_negative followed by to_signed is the identity on the signed range *)
Lemma wrap_negative_to_signed value bits : 1 <= bits ->
  - 2 ^ (bits - 1) <= value < 2 ^ (bits - 1) ->
  exists u, wrap_negative value bits = Ok u /\ to_signed u bits = Ok value.
Proof.
  intros Hb Hr. destruct (pow2_half bits Hb) as [E P].
  exists (unsigned_of bits value). split; [apply wrap_negative_correct; lia|].
  rewrite to_signed_correct by lia. f_equal. unfold signed_of, unsigned_of.
  rewrite Zplus_mod_idemp_l.
  rewrite (Z.mod_small (value + 2 ^ (bits - 1))) by lia. lia.
Qed.

Lemma signed_of_fix n v : 1 <= n -> (signed_of n v = v <-> - 2 ^ (n - 1) <= v < 2 ^ (n - 1)).
Proof.
  intros Hn. destruct (pow2_half n Hn) as [E P]. split.
  - intros H. pose proof (signed_of_spec n v Hn) as [B _]. lia.
  - intros H. unfold signed_of. rewrite Z.mod_small by lia. lia.
Qed.

Lemma inrange_correct value bits : 1 <= bits ->
  inrange value bits = Ok ((- 2 ^ (bits - 1) <=? value) && (value <? 2 ^ (bits - 1))).
Proof.
  intros Hb. unfold inrange. rewrite !shiftl1_pow by lia. guards_ok. reflexivity.
Qed.

Lemma inrange_signed_of value bits : 1 <= bits ->
  inrange value bits = Ok (signed_of bits value =? value).
Proof.
  intros Hb. rewrite inrange_correct by lia. f_equal.
  pose proof (signed_of_fix bits value Hb) as F.
  destruct (Z.eqb_spec (signed_of bits value) value) as [e|ne]; lia.
Qed.

(* ---------------------------------------------------------------- align *)
Lemma align_loop1_spec m : 0 < m -> forall fuel value,
  (Z.to_nat ((- value) mod m) < fuel)%nat ->
  align_loop1 fuel m value = Ok (value + (- value) mod m).
Proof.
  intros Hm. induction fuel as [|fuel IH]; intros value Hf; [lia|].
  cbn [align_loop1]. guards_ok.
  pose proof (Z.mod_pos_bound value m Hm) as B1.
  pose proof (Z.mod_pos_bound (- value) m Hm) as B2.
  destruct (Z.eqb_spec (value mod m) 0) as [e|ne]; cbn [negb].
  - f_equal. assert ((- value) mod m = 0) by (apply Z.mod_opp_l_z; lia). lia.
  - assert (E : (- value) mod m = m - value mod m) by (apply Z.mod_opp_l_nz; lia).
    assert (E' : (- (value + 1)) mod m = (- value) mod m - 1).
    { symmetry. apply Z.mod_unique_pos with (q := (- value) / m); [lia|].
      pose proof (Z.div_mod (- value) m ltac:(lia)). lia. }
    rewrite IH by lia. f_equal. lia.
Qed.

Lemma align_correct fuel value m : 0 < m -> (Z.to_nat m <= fuel)%nat ->
  exists r, align fuel value m = Ok r /\ is_align_up m value r.
Proof.
  intros Hm Hf. pose proof (Z.mod_pos_bound (- value) m Hm) as B.
  exists (value + (- value) mod m). unfold align.
  rewrite align_loop1_spec by lia. split; [reflexivity|].
  unfold is_align_up. split; [lia|].
  rewrite Zplus_mod_idemp_r. rewrite Z.add_opp_diag_r. apply Z.mod_0_l. lia.
Qed.

Lemma inrange_fits value bits : 1 <= bits ->
  exists b, inrange value bits = Ok b /\ (b = true <-> - 2 ^ (bits - 1) <= value < 2 ^ (bits - 1)).
Proof.
  intros Hb. rewrite inrange_correct by lia. eexists. split; [reflexivity|]. lia.
Qed.
