(* Proofs/C21_text.v — C21: the text writer's instruction printing is inverted by the text parser's
   instruction reading (model Model.WasmText), for the instruction classes listed in [wf_text]. *)
From PV Require Import Lib.Py Lib.Tac Model.WasmTypes Gen.Tab_wasm_opcodes Gen.Tab_wasm_text Model.WasmBin
  Model.WasmText Proofs.C21_instr.
From Coq Require Import String Ascii DecimalString DecimalZ DecimalPos Decimal.
Local Open Scope string_scope.
Local Open Scope list_scope.
Open Scope Z_scope.

(* ------------------------------------------------------------------ decimal integers *)
Lemma to_int_not_nil z : Z.to_int z <> Pos Nil /\ Z.to_int z <> Neg Nil.
Proof.
  destruct z; cbn; split; try discriminate; intros H; injection H as H;
    exact (Unsigned.to_uint_nonnil _ H).
Qed.

Lemma undec_dec z : undec (dec z) = Some z.
Proof.
  unfold undec, dec. destruct (to_int_not_nil z) as [H1 H2].
  rewrite NilZero.isi by assumption. cbn [option_map]. now rewrite DecimalZ.of_to.
Qed.

Lemma uint_no_dot_e d : has_dot_e (NilEmpty.string_of_uint d) = false.
Proof. induction d; cbn; auto. Qed.

Lemma zuint_no_dot_e d : has_dot_e (NilZero.string_of_uint d) = false.
Proof. destruct d; try reflexivity; apply (uint_no_dot_e (_ _)). Qed.

Lemma dec_no_dot_e z : has_dot_e (dec z) = false.
Proof.
  unfold dec. destruct (Z.to_int z); cbn [NilZero.string_of_int].
  - apply zuint_no_dot_e.
  - cbn [has_dot_e]. rewrite zuint_no_dot_e. reflexivity.
Qed.

Lemma zuint_numeric d : numeric_first (NilZero.string_of_uint d) = true.
Proof. destruct d; reflexivity. Qed.

Lemma dec_numeric z : numeric_first (dec z) = true.
Proof.
  unfold dec. destruct (Z.to_int z); cbn [NilZero.string_of_int]; [apply zuint_numeric|reflexivity].
Qed.

Lemma lex_dec z : lex_word (dec z) = TInt z.
Proof. unfold lex_word. now rewrite dec_numeric, dec_no_dot_e, undec_dec. Qed.

(* every mnemonic of the table is lexed as a word *)
Definition plain_word (s : string) : bool :=
  match lex_word s with TWord s' => String.eqb s' s && negb (is_dollar s) && negb (has_eq s) | _ => false end.

Lemma mnemonics_are_words : forallb plain_word (map fst opcodes) = true.
Proof. vm_compute. reflexivity. Qed.

Lemma plain_word_lex s : plain_word s = true -> lex_word s = TWord s.
Proof.
  unfold plain_word. destruct (lex_word s); try discriminate. intros H.
  apply andb_true_iff in H. destruct H as [H _]. apply andb_true_iff in H. destruct H as [H _].
  apply String.eqb_eq in H. now subst.
Qed.

Lemma in_table_word op c : assoc String.eqb opcodes op = Some c -> plain_word op = true.
Proof.
  intros H. pose proof mnemonics_are_words as M. rewrite forallb_forall in M. apply M.
  clear M. induction opcodes as [|[k v] l IH]; cbn in *; [discriminate|].
  destruct (String.eqb_spec k op); [left; assumption|right; auto].
Qed.

(* ------------------------------------------------------------------ operands *)
(* what may follow an instruction in the writer's output: nothing, ")", a mnemonic, "(" mnemonic *)
Definition safe (ts : list tok) : bool :=
  match ts with
  | [] => true
  | TRpar :: _ => true
  | TWord w :: _ => negb (has_eq w) && negb (is_dollar w)
  | TLpar :: TWord w :: _ =>
      negb (String.eqb w "result") && negb (String.eqb w "param") && negb (String.eqb w "type")
  | TLpar :: _ => true
  | TInt _ :: _ => false
  end.

Lemma bytes_eqb_eq a : forall b, bytes_eqb a b = true -> a = b.
Proof.
  unfold bytes_eqb. induction a as [|x a IH]; intros [|y b] H; apply andb_true_iff in H; destruct H as [Hl Hc];
    unfold len in Hl; cbn in *; try lia; [reflexivity|].
  apply andb_true_iff in Hc. destruct Hc as [Hx Hr]. apply Z.eqb_eq in Hx. subst y. f_equal.
  apply IH. apply andb_true_iff. split; [unfold len; lia|exact Hr].
Qed.

Definition float_ok (fs : fspell) (raw : bytes) : bool :=
  let rp := if len raw =? 4 then repr32 fs else repr64 fs in
  let ps := if len raw =? 4 then parse32 fs else parse64 fs in
  match make_float ps [lex_word (rp raw)] with
  | Ok (AFloat r, []) => bytes_eqb r raw
  | _ => false
  end.

Definition arg_text_ok (fs : fspell) (k : akind) (a : arg) : bool :=
  match k, a with
  | KLabelIdx, ARef sp _ => String.eqb sp "label"
  | KLocalIdx, ARef sp _ => String.eqb sp "local"
  | KGlobalIdx, ARef sp _ => String.eqb sp "global"
  | KFuncIdx, ARef sp _ => String.eqb sp "func"
  | KTypeIdx, ARef sp _ => String.eqb sp "type"
  | KTableIdx, ARef sp _ => String.eqb sp "table"
  | KI32, AInt z => (- 2 ^ 31 <=? z) && (z <? 2 ^ 31)
  | KI64, AInt z => (- 2 ^ 63 <=? z) && (z <? 2 ^ 63)
  | KF32, AFloat raw => (len raw =? 4) && float_ok fs raw
  | KF64, AFloat raw => negb (len raw =? 4) && float_ok fs raw
  | KU32, AInt _ => true
  | KU8, AInt _ => text_u8_consumes
  | _, _ => false
  end.

Lemma make_float_head ps t tail r : make_float ps [t] = Ok (AFloat r, []) ->
  make_float ps (t :: tail) = Ok (AFloat r, tail).
Proof.
  destruct t; cbn; try discriminate.
  - destruct (ps s); [|discriminate]. intros H. injection H as <-. reflexivity.
  - destruct (ps (dec z)); [|discriminate]. intros H. injection H as <-. reflexivity.
Qed.

Lemma float_ok_parse fs raw tail : float_ok fs raw = true ->
  make_float (if len raw =? 4 then parse32 fs else parse64 fs)
    (lex_word ((if len raw =? 4 then repr32 fs else repr64 fs) raw) :: tail) = Ok (AFloat raw, tail).
Proof.
  unfold float_ok. cbv zeta.
  destruct (make_float _ [_]) as [[a r]| | |] eqn:E; try discriminate.
  destruct a; try discriminate. destruct r; [|discriminate]. intros H. apply bytes_eqb_eq in H. subst raw0.
  now apply make_float_head.
Qed.

Lemma operand_rt fs k a n ps tail : arg_text_ok fs k a = true -> print_arg fs a = Ok (n, ps) ->
  parse_operand fs k (lex ps ++ tail) = Ok (a, tail).
Proof.
  destruct k, a; cbn [arg_text_ok]; try discriminate; intros H Hp; cbn [print_arg] in Hp;
    unfold word_arg in Hp; injection Hp as <- <-; cbn [lex map lex_piece List.app parse_operand].
  all: try (rewrite lex_dec).
  all: cbn [List.app].
  all: try (apply String.eqb_eq in H; subst space; reflexivity).
  all: try (rewrite H; reflexivity).
  all: try reflexivity.
  all: try (apply andb_true_iff in H; destruct H as [Hl Hf]).
  - (* I32 *) cbn [make_int]. change (2 ^ (32 - 1)) with 2147483648. change (2 ^ 31) with 2147483648 in Hf.
    destruct (Z.leb_spec 2147483648 z); [lia|reflexivity].
  - (* I64 *) cbn [make_int]. change (2 ^ (64 - 1)) with 9223372036854775808.
    change (2 ^ 63) with 9223372036854775808 in Hf.
    destruct (Z.leb_spec 9223372036854775808 z); [lia|reflexivity].
  - (* F32 *)
    pose proof (float_ok_parse fs raw tail Hf) as P. rewrite Hl in P. rewrite Hl. exact P.
  - (* F64 *) apply negb_true_iff in Hl.
    pose proof (float_ok_parse fs raw tail Hf) as P. rewrite Hl in P. rewrite Hl. exact P.
Qed.

Lemma lex_app a b : lex (a ++ b) = lex a ++ lex b.
Proof. apply map_app. Qed.

Lemma operands_rt fs : forall ks args l tail, forall2b (arg_text_ok fs) ks args = true ->
  print_args fs args = Ok l ->
  parse_operands fs ks (lex (List.concat (map snd l)) ++ tail) = Ok (args, tail).
Proof.
  induction ks as [|k ks IH]; intros [|a args] l tail H Hp; cbn [forall2b] in H; try discriminate.
  - cbn in Hp. injection Hp as <-. reflexivity.
  - apply andb_true_iff in H. destruct H as [Ha Hr]. cbn [print_args] in Hp.
    destruct (print_arg fs a) as [[n ps]| | |] eqn:Ea; try discriminate. cbn [bind] in Hp.
    destruct (print_args fs args) as [l'| | |] eqn:El; try discriminate. cbn [bind] in Hp. injection Hp as <-.
    cbn [map snd List.concat parse_operands]. rewrite lex_app, <- app_assoc.
    rewrite (operand_rt _ _ _ _ _ _ Ha Ea). cbn [bind]. rewrite (IH _ _ _ Hr El). reflexivity.
Qed.

(* ------------------------------------------------------------------ instructions *)
Definition special_op (op : string) : bool :=
  String.eqb op "br_table" || String.eqb op "memory.size" || String.eqb op "memory.grow" ||
  String.eqb op "call_indirect" || String.eqb op "select".

(* the instruction classes for which the text round trip is proved *)
Definition wf_text (fs : fspell) (i : instr) : bool :=
  let op := i_op i in
  if is_block_op op then
    match i_args i with [AStr t] => plain_word t | _ => false end
  else
    match assoc String.eqb opcodes op with
    | None => false
    | Some _ =>
        match assoc String.eqb text_mem op with
        | Some (Some d) =>
            match i_args i with
            | [AInt al; AInt off] =>
                (al =? d) || match assoc Z.eqb log2_table (2 ^ al) with Some a => a =? al | None => false end
            | _ => false
            end
        | Some None => false
        | None =>
            if String.eqb op "br_table" then
              match i_args i, assoc String.eqb operands op with
              | [ARefs l], Some [KBrTable] => forallb (fun r : (string * Z)%type => String.eqb (fst r) "label") l
              | _, _ => false
              end
            else if String.eqb op "memory.size" || String.eqb op "memory.grow" then
              match i_args i, assoc String.eqb operands op with
              | [AInt 0], Some [KU8] => true
              | _, _ => false
              end
            else if String.eqb op "call_indirect" then
              match i_args i with
              | [ARef sp _; ARef sp' tb] =>
                  String.eqb sp "type" && String.eqb sp' "table" && ((tb =? 0) || text_ci_table_first)
              | _ => false
              end
            else if String.eqb op "select" then
              match i_args i with [AStrs ts] => forallb plain_word ts | _ => false end
            else
              match assoc String.eqb operands op with
              | Some ks => forall2b (arg_text_ok fs) ks (i_args i)
              | None => false
              end
        end
    end.

Definition pieces_of (l : list (Z * list piece)) : list piece := List.concat (map snd l).

Lemma parse_labels_rt l tail : safe tail = true ->
  forallb (fun r : (string * Z)%type => String.eqb (fst r) "label") l = true ->
  parse_labels (lex (pieces_of (map (fun r => word_arg (dec (snd r))) l)) ++ tail) = (l, tail).
Proof.
  intros Hs. induction l as [|[sp z] l IH]; cbn [forallb]; intros H.
  - cbn. destruct tail as [|[| | |] ?]; try reflexivity. discriminate.
  - apply andb_true_iff in H. destruct H as [Hx Hl]. cbn [fst] in Hx. apply String.eqb_eq in Hx. subst sp.
    unfold pieces_of. cbn [map snd word_arg List.concat List.app lex lex_piece]. rewrite lex_dec.
    cbn [List.app parse_labels]. unfold pieces_of in IH. fold (lex (List.concat (map snd (map (fun r : string * Z => word_arg (dec (snd r))) l)))).
    rewrite (IH Hl). reflexivity.
Qed.

Lemma kw_lex k s : lex_word ((String "o" k) ++ s) = TWord ((String "o" k) ++ s) /\
                   lex_word ((String "a" k) ++ s) = TWord ((String "a" k) ++ s).
Proof. split; reflexivity. Qed.

Lemma parse_kwargs_stop f tail o a : safe tail = true ->
  parse_kwargs f tail o a = Ok (o, a, tail).
Proof.
  intros Hs. destruct f; [reflexivity|]. cbn [parse_kwargs].
  destruct tail as [|[| |w|] ?]; try reflexivity. cbn in Hs. apply andb_true_iff in Hs. destruct Hs as [He _].
  apply negb_true_iff in He. now rewrite He.
Qed.

Lemma words_until_rpar_one t tail f : plain_word t = true ->
  parse_words_until_rpar (S (S f)) (lex_word t :: TRpar :: tail) = Ok ([t], TRpar :: tail).
Proof. intros H. rewrite (plain_word_lex _ H). reflexivity. Qed.

Lemma result_list_rt ts : forall tail f, safe tail = true -> forallb plain_word ts = true ->
  (List.length ts < f)%nat ->
  parse_result_list f (lex (pieces_of (map (group_arg "result") ts)) ++ tail) = Ok (ts, tail).
Proof.
  induction ts as [|t ts IH]; intros tail f Hs H Hf; (destruct f as [|f]; [cbn in Hf; lia|]).
  - cbn [map pieces_of List.concat lex List.app parse_result_list].
    destruct tail as [|[| |w|] tail']; try reflexivity; try discriminate.
    destruct tail' as [|[| |w|] ?]; try reflexivity. cbn in Hs.
    apply andb_true_iff in Hs. destruct Hs as [Hs _]. apply andb_true_iff in Hs. destruct Hs as [Hs _].
    apply negb_true_iff in Hs. now rewrite Hs.
  - cbn [forallb] in H. apply andb_true_iff in H. destruct H as [Ht Hr].
    unfold pieces_of. cbn [map snd group_arg List.concat List.app lex lex_piece parse_result_list].
    change (lex_word "result") with (TWord "result"). cbn [String.eqb Ascii.eqb Bool.eqb].
    rewrite (plain_word_lex _ Ht). cbn [List.length parse_words_until_rpar bind].
    unfold pieces_of in IH. fold (lex (List.concat (map snd (map (group_arg "result") ts)))).
    rewrite (IH tail f Hs Hr) by (cbn in Hf; lia). reflexivity.
Qed.

Lemma kw_offset s : has_eq ("offset=" ++ s) = true /\ split_eq ("offset=" ++ s) = ("offset", s).
Proof. split; reflexivity. Qed.
Lemma kw_align s : has_eq ("align=" ++ s) = true /\ split_eq ("align=" ++ s) = ("align", s).
Proof. split; reflexivity. Qed.

Lemma parse_kwargs_offset f r a v :
  parse_kwargs (S f) (TWord ("offset=" ++ dec v) :: r) None a = parse_kwargs f r (Some v) a.
Proof.
  cbn [parse_kwargs]. destruct (kw_offset (dec v)) as [-> ->]. cbn [fst snd]. rewrite undec_dec. reflexivity.
Qed.
Lemma parse_kwargs_align f r o v :
  parse_kwargs (S f) (TWord ("align=" ++ dec v) :: r) o None = parse_kwargs f r o (Some v).
Proof.
  cbn [parse_kwargs]. destruct (kw_align (dec v)) as [-> ->]. cbn [fst snd]. rewrite undec_dec. reflexivity.
Qed.

Ltac refold_kw :=
  repeat match goal with
  | |- context [String "a"%char (String "l"%char (String "i"%char (String "g"%char (String "n"%char (String "="%char ?x)))))] =>
      change (String "a"%char (String "l"%char (String "i"%char (String "g"%char (String "n"%char (String "="%char x))))))
        with ("align=" ++ x)
  | |- context [String "o"%char (String "f"%char (String "f"%char (String "s"%char (String "e"%char (String "t"%char (String "="%char ?x))))))] =>
      change (String "o"%char (String "f"%char (String "f"%char (String "s"%char (String "e"%char (String "t"%char (String "="%char x)))))))
        with ("offset=" ++ x)
  end.

Lemma lex_words ws tail : lex (pieces_of (map word_arg ws)) ++ tail = map lex_word ws ++ tail.
Proof.
  f_equal. induction ws as [|w ws IH]; [reflexivity|]. unfold pieces_of in *.
  cbn [map snd word_arg List.concat List.app lex lex_piece]. f_equal. exact IH.
Qed.

Lemma group_len kw ts : (List.length ts <= List.length (lex (pieces_of (map (group_arg kw) ts))))%nat.
Proof.
  induction ts as [|t ts IH]; [cbn; lia|]. unfold pieces_of in *.
  cbn [map snd group_arg List.concat List.app lex lex_piece List.length].
  fold (lex (List.concat (map snd (map (group_arg kw) ts)))). lia.
Qed.

Lemma mem_args_rt d al off tail : safe tail = true ->
  (al =? d) || match assoc Z.eqb log2_table (2 ^ al) with Some a => a =? al | None => false end = true ->
  ('(oa, r) <- parse_kwargs 3
       (lex (pieces_of ((if off =? 0 then [] else [word_arg ("offset=" ++ dec off)%string]) ++
                        (if al =? d then [] else [word_arg ("align=" ++ dec (2 ^ al))%string]))) ++ tail) None None ;;
   let offset := match fst oa with Some v => v | None => 0 end in
   match snd oa with
   | Some v =>
       match assoc Z.eqb log2_table v with
       | Some a => Ok ([AInt a; AInt offset], r)
       | None => Internal KeyError
       end
   | None => Ok ([AInt d; AInt offset], r)
   end) = Ok ([AInt al; AInt off], tail).
Proof.
  intros Hs H.
  destruct (Z.eqb_spec off 0) as [->|Hoff0]; destruct (Z.eqb_spec al d) as [->|Hal]; cbn [orb] in H.
  - change ([] ++ []) with (map word_arg []). rewrite lex_words. cbn [map List.app].
    rewrite parse_kwargs_stop by assumption. reflexivity.
  - change ([] ++ [word_arg ("align=" ++ dec (2 ^ al))%string]) with (map word_arg [("align=" ++ dec (2 ^ al))%string]).
    rewrite lex_words. change (map lex_word [("align=" ++ dec (2 ^ al))%string] ++ tail) with (TWord ("align=" ++ dec (2 ^ al))%string :: tail).
    rewrite parse_kwargs_align, parse_kwargs_stop by assumption.
    cbn [bind fst snd]. destruct (assoc Z.eqb log2_table (2 ^ al)) as [a|]; [|discriminate].
    apply Z.eqb_eq in H. now subst a.
  - change ([word_arg ("offset=" ++ dec off)%string] ++ []) with (map word_arg [("offset=" ++ dec off)%string]).
    rewrite lex_words. change (map lex_word [("offset=" ++ dec off)%string] ++ tail) with (TWord ("offset=" ++ dec off)%string :: tail).
    rewrite parse_kwargs_offset, parse_kwargs_stop by assumption. reflexivity.
  - change ([word_arg ("offset=" ++ dec off)%string] ++ [word_arg ("align=" ++ dec (2 ^ al))%string])
      with (map word_arg [("offset=" ++ dec off)%string; ("align=" ++ dec (2 ^ al))%string]).
    rewrite lex_words.
    change (map lex_word [("offset=" ++ dec off)%string; ("align=" ++ dec (2 ^ al))%string] ++ tail)
      with (TWord ("offset=" ++ dec off)%string :: TWord ("align=" ++ dec (2 ^ al))%string :: tail).
    rewrite parse_kwargs_offset, parse_kwargs_align, parse_kwargs_stop by assumption.
    cbn [bind fst snd]. destruct (assoc Z.eqb log2_table (2 ^ al)) as [a|]; [|discriminate].
    apply Z.eqb_eq in H. now subst a.
Qed.

Lemma parse_u8_none fs tail : safe tail = true -> parse_operand fs KU8 tail = Ok (AInt 0, tail).
Proof.
  intros Hs. cbn [parse_operand]. destruct text_u8_consumes; [|reflexivity].
  destruct tail as [|[| | |] ?]; try reflexivity. discriminate.
Qed.

(* the operand part: the parser's argument gathering inverts the writer's argument text *)
Lemma gather_rt fs i l tail : wf_text fs i = true -> is_block_op (i_op i) = false ->
  instr_args_text fs i = Ok l -> safe tail = true ->
  gather_arguments fs (i_op i) (lex (pieces_of l) ++ tail) = Ok (i_args i, tail).
Proof.
  destruct i as [op args]. unfold wf_text, instr_args_text, gather_arguments. cbn [i_op i_args].
  intros H Hb Hl Hs. rewrite Hb in H.
  destruct (assoc String.eqb opcodes op) as [c|]; [|discriminate].
  destruct (assoc String.eqb text_mem op) as [[d|]|].
  - (* load / store *)
    destruct args as [|[al| | | | | |] [|[off| | | | | |] [|? ?]]]; try discriminate.
    injection Hl as <-.
    apply mem_args_rt; assumption.
  - discriminate.
  - destruct (String.eqb_spec op "br_table") as [->|Nbr].
    + destruct args as [|[| | | |refs| |] [|? ?]]; try discriminate.
      destruct (assoc String.eqb operands "br_table") as [[|[] [|? ?]]|] eqn:Eks; try discriminate.
      injection Hl as <-. cbn [String.eqb Ascii.eqb Bool.eqb].
      cbn [parse_operands parse_operand]. rewrite (parse_labels_rt _ _ Hs H). reflexivity.
    + destruct (String.eqb op "memory.size" || String.eqb op "memory.grow") eqn:Emem.
      * destruct args as [|[[| |]| | | | | |] [|? ?]]; try discriminate.
        destruct (assoc String.eqb operands op) as [[|[] [|? ?]]|] eqn:Eks; try discriminate.
        injection Hl as <-.
        assert (Hci : String.eqb op "call_indirect" = false /\ String.eqb op "select" = false).
        { apply orb_true_iff in Emem. destruct Emem as [E|E]; apply String.eqb_eq in E; subst op; split; reflexivity. }
        destruct Hci as [-> ->]. change (lex (pieces_of []) ++ tail) with tail. cbn [parse_operands]. rewrite (parse_u8_none fs _ Hs). reflexivity.
      * destruct (String.eqb_spec op "call_indirect") as [->|Nci].
        -- destruct args as [|[| |sp ty| | | |] [|[| |sp' tb| | | |] [|? ?]]]; try discriminate.
           apply andb_true_iff in H. destruct H as [H Htb]. apply andb_true_iff in H. destruct H as [Hsp Hsp'].
           apply String.eqb_eq in Hsp, Hsp'. subst sp sp'.
           assert (Htail : forall b : bool,
                     match tail with
                     | TLpar :: TWord w' :: _ =>
                         if String.eqb w' "param" || String.eqb w' "result" then Internal NotImplemented
                         else Ok ([ARef "type" ty; ARef "table" tb], tail)
                     | _ => Ok ([ARef "type" ty; ARef "table" tb], tail)
                     end = Ok ([ARef "type" ty; ARef "table" tb], tail)).
           { intros _. destruct tail as [|[| |w|] tail']; try reflexivity; try discriminate.
             destruct tail' as [|[| |w|] ?]; try reflexivity. cbn in Hs.
             apply andb_true_iff in Hs. destruct Hs as [Hs _]. apply andb_true_iff in Hs. destruct Hs as [Hr Hp].
             apply negb_true_iff in Hr, Hp. now rewrite Hr, Hp. }
           destruct (Z.eqb_spec tb 0) as [->|Ntb].
           ++ injection Hl as <-.
              unfold pieces_of. cbn [map snd group_arg List.concat List.app lex lex_piece].
              change (lex_word "type") with (TWord "type"). rewrite lex_dec.
              cbn [parse_ref bind String.eqb Ascii.eqb Bool.eqb]. exact (Htail true).
           ++ cbn [orb] in Htb. rewrite Htb in Hl. injection Hl as <-.
              unfold pieces_of. cbn [map snd group_arg word_arg List.concat List.app lex lex_piece].
              change (lex_word "type") with (TWord "type"). rewrite !lex_dec.
              cbn [parse_ref bind String.eqb Ascii.eqb Bool.eqb]. exact (Htail true).
        -- destruct (String.eqb_spec op "select") as [->|Nsel].
           ++ destruct args as [|[| | | | |ts|] [|? ?]]; try discriminate. injection Hl as <-.
              rewrite (result_list_rt ts tail _ Hs H).
              ** reflexivity.
              ** rewrite app_length. pose proof (group_len "result" ts). lia.
           ++ destruct (assoc String.eqb operands op) as [ks|]; [|discriminate].
              apply (operands_rt fs ks args l tail H Hl).
Qed.

(* ------------------------------------------------------------------ one instruction *)
Definition safe_next (ts : list tok) : bool :=
  safe ts && match ts with TWord w :: _ => negb (String.eqb w "emptyblock") | _ => true end.

Definition head_ok (op : string) : bool :=
  plain_word op && negb (String.eqb op "result") && negb (String.eqb op "param") &&
  negb (String.eqb op "type") && negb (String.eqb op "emptyblock").

Lemma mnemonic_heads : forallb head_ok (map fst opcodes) = true.
Proof. vm_compute. reflexivity. Qed.

Lemma in_table_head op c : assoc String.eqb opcodes op = Some c -> head_ok op = true.
Proof.
  intros H. pose proof mnemonic_heads as M. rewrite forallb_forall in M. apply M.
  clear M. induction opcodes as [|[k v] l IH]; cbn in *; [discriminate|].
  destruct (String.eqb_spec k op); [left; assumption|right; auto].
Qed.

Lemma block_op_cases op : is_block_op op = true -> op = "block" \/ op = "loop" \/ op = "if".
Proof.
  unfold is_block_op. intros H. apply orb_true_iff in H. destruct H as [H|H];
    [apply orb_true_iff in H; destruct H as [H|H]|]; apply String.eqb_eq in H; auto.
Qed.

Lemma parse_block_type_empty rest : safe_next rest = true ->
  parse_block_type rest = Ok (AStr "emptyblock", rest).
Proof.
  unfold safe_next. intros H. apply andb_true_iff in H. destruct H as [Hs He].
  destruct rest as [|[| |w|] rest']; try reflexivity.
  - destruct rest' as [|[| |w|] r2]; try reflexivity. cbn in Hs.
    apply andb_true_iff in Hs. destruct Hs as [Hs Ht]. apply andb_true_iff in Hs. destruct Hs as [Hr Hp].
    apply negb_true_iff in Hr, Hp, Ht.
    destruct r2 as [|[| |t|] [|[| | |] r3]]; cbn [parse_block_type]; rewrite Hr; cbn [orb]; rewrite ?Ht, ?Hp; reflexivity.
  - cbn [parse_block_type]. apply negb_true_iff in He. now rewrite He.
Qed.

Theorem text_instr_rt fs i ps rest :
  wf_text fs i = true -> print_instr fs i = Ok ps -> safe_next rest = true ->
  parse_instr fs (lex ps ++ rest) = Ok (i, rest).
Proof.
  destruct i as [op args]. intros Hwf Hp Hs. unfold print_instr in Hp. cbn [i_op i_args] in Hp.
  pose proof Hwf as Hwf'. unfold wf_text in Hwf. cbn [i_op i_args] in Hwf.
  destruct (is_block_op op) eqn:Hb.
  - (* block / loop / if *)
    destruct args as [|[|t| | | | |] [|? ?]]; try discriminate. injection Hp as <-.
    assert (Hop : lex_word op = TWord op) by (destruct (block_op_cases _ Hb) as [->|[->| ->]]; reflexivity).
    destruct (String.eqb_spec t "emptyblock") as [->|Ht].
    + cbn [lex map lex_piece List.app]. rewrite Hop. unfold parse_instr. rewrite Hb.
      rewrite (parse_block_type_empty _ Hs). cbn [bind].
      destruct rest as [|[| |w|] ?]; try reflexivity.
      unfold safe_next in Hs. cbn in Hs. apply andb_true_iff in Hs. destruct Hs as [Hs _].
      apply andb_true_iff in Hs. destruct Hs as [_ Hd]. apply negb_true_iff in Hd. now rewrite Hd.
    + cbn [lex map lex_piece List.app]. rewrite Hop, (plain_word_lex _ Hwf).
      change (lex_word "result") with (TWord "result"). unfold parse_instr. rewrite Hb. reflexivity.
  - destruct (assoc String.eqb opcodes op) as [c|] eqn:Eop; [|discriminate].
    destruct (instr_args_text fs (Instr op args)) as [l| | |] eqn:El; try discriminate. cbn [bind] in Hp.
    assert (Hop : lex_word op = TWord op) by (apply plain_word_lex; eapply in_table_word; eassumption).
    assert (Hsafe : safe rest = true) by (unfold safe_next in Hs; apply andb_true_iff in Hs; tauto).
    assert (Helse : ((String.eqb op "else" || String.eqb op "end") &&
               match lex (pieces_of l) ++ rest with TWord w :: _ => is_dollar w | _ => false end) = false).
    { destruct (String.eqb op "else" || String.eqb op "end") eqn:Ee; [|reflexivity]. cbn [andb].
      assert (l = []) as ->.
      { unfold instr_args_text in El. cbn [i_op i_args] in El.
        apply orb_true_iff in Ee. destruct Ee as [E|E]; apply String.eqb_eq in E; subst op;
          vm_compute in Hwf; destruct args; try discriminate; vm_compute in El; now injection El as <-. }
      cbn. destruct rest as [|[| |w|] ?]; try reflexivity. cbn in Hsafe.
      apply andb_true_iff in Hsafe. destruct Hsafe as [_ Hd]. now apply negb_true_iff in Hd. }
    cbv zeta in Hp. fold (pieces_of l) in Hp.
    destruct (70 <? sumZ (map fst l)); injection Hp as <-.
    + (* folded: ( op args ) *)
      cbn [List.app lex map lex_piece]. rewrite Hop. rewrite map_app. cbn [map lex_piece].
      fold (lex (pieces_of l)). rewrite <- app_assoc. cbn [List.app].
      unfold parse_instr. rewrite Hb, Eop.
      pose proof (gather_rt fs (Instr op args) l (TRpar :: rest) Hwf' Hb El eq_refl) as G.
      cbn [i_op i_args] in G.
      assert (Helse' : ((String.eqb op "else" || String.eqb op "end") &&
               match lex (pieces_of l) ++ TRpar :: rest with TWord w :: _ => is_dollar w | _ => false end) = false).
      { destruct (lex (pieces_of l)) as [|[| |w|] ?]; cbn [List.app] in Helse |- *; try apply andb_false_r.
        exact Helse. }
      rewrite Helse', G. reflexivity.
    + (* flat: op args *)
      cbn [List.app lex map lex_piece]. rewrite Hop. fold (lex (pieces_of l)).
      unfold parse_instr. rewrite Hb, Eop, Helse.
      pose proof (gather_rt fs (Instr op args) l rest Hwf' Hb El Hsafe) as G. cbn [i_op i_args] in G.
      rewrite G. reflexivity.
Qed.

(* ------------------------------------------------------------------ instruction lists (function bodies) *)
Lemma head_ok_safe_word op tail : head_ok op = true -> safe_next (TWord op :: tail) = true.
Proof.
  unfold head_ok. intros H.
  apply andb_true_iff in H. destruct H as [H He]. apply andb_true_iff in H. destruct H as [H Ht].
  apply andb_true_iff in H. destruct H as [H Hp]. apply andb_true_iff in H. destruct H as [Hw Hr].
  unfold plain_word in Hw. destruct (lex_word op); try discriminate.
  apply andb_true_iff in Hw. destruct Hw as [Hw Heq]. apply andb_true_iff in Hw. destruct Hw as [_ Hd].
  unfold safe_next. cbn [safe]. rewrite Heq, Hd, He. reflexivity.
Qed.

Lemma head_ok_safe_par op tail : head_ok op = true -> safe_next (TLpar :: TWord op :: tail) = true.
Proof.
  unfold head_ok. intros H.
  apply andb_true_iff in H. destruct H as [H He]. apply andb_true_iff in H. destruct H as [H Ht].
  apply andb_true_iff in H. destruct H as [H Hp]. apply andb_true_iff in H. destruct H as [Hw Hr].
  unfold safe_next. cbn [safe]. rewrite Hr, Hp, Ht. reflexivity.
Qed.

Lemma print_head_safe fs i ps tail : wf_text fs i = true -> print_instr fs i = Ok ps ->
  ps <> [] /\ safe_next (lex ps ++ tail) = true.
Proof.
  destruct i as [op args]. intros Hwf Hp. unfold print_instr in Hp. unfold wf_text in Hwf.
  cbn [i_op i_args] in *.
  assert (Hh : head_ok op = true /\ lex_word op = TWord op).
  { destruct (is_block_op op) eqn:Hb.
    - destruct (block_op_cases _ Hb) as [->|[->| ->]]; split; reflexivity.
    - destruct (assoc String.eqb opcodes op) as [c|] eqn:Eop; [|discriminate].
      split; [eapply in_table_head; eassumption|apply plain_word_lex; eapply in_table_word; eassumption]. }
  destruct Hh as [Hh Hop].
  destruct (is_block_op op).
  - destruct args as [|[|t| | | | |] ?]; try discriminate. injection Hp as <-. split; [discriminate|].
    cbn [lex map lex_piece List.app]. rewrite Hop. now apply head_ok_safe_word.
  - destruct (instr_args_text fs (Instr op args)) as [l| | |]; try discriminate. cbn [bind] in Hp.
    cbv zeta in Hp. destruct (70 <? sumZ (map fst l)); injection Hp as <-; (split; [discriminate|]);
      cbn [lex map lex_piece List.app]; rewrite Hop; [now apply head_ok_safe_par|now apply head_ok_safe_word].
Qed.

Theorem text_body_rt fs : forall l ps fuel,
  forallb (wf_text fs) l = true -> print_instrs fs l = Ok ps -> (List.length l < fuel)%nat ->
  parse_instrs fs fuel (lex ps) = Ok l.
Proof.
  induction l as [|i l IH]; intros ps fuel Hwf Hp Hf; (destruct fuel as [|f]; [cbn in Hf; lia|]).
  - cbn in Hp. injection Hp as <-. reflexivity.
  - cbn [forallb] in Hwf. apply andb_true_iff in Hwf. destruct Hwf as [Hi Hl].
    unfold print_instrs in Hp. fold (print_instrs fs l) in Hp.
    destruct (print_instr fs i) as [a| | |] eqn:Ea; try discriminate. cbn [bind] in Hp.
    destruct (print_instrs fs l) as [b| | |] eqn:Eb; try discriminate. cbn [bind] in Hp. injection Hp as <-.
    rewrite lex_app.
    assert (Hs : safe_next (lex b) = true).
    { destruct l as [|i' l'].
      - cbn in Eb. injection Eb as <-. reflexivity.
      - cbn [forallb] in Hl. apply andb_true_iff in Hl. destruct Hl as [Hi' _].
        unfold print_instrs in Eb. fold (print_instrs fs l') in Eb.
        destruct (print_instr fs i') as [a'| | |] eqn:Ea'; try discriminate. cbn [bind] in Eb.
        destruct (print_instrs fs l') as [b'| | |]; try discriminate. cbn [bind] in Eb. injection Eb as <-.
        rewrite lex_app. apply (print_head_safe fs i' a' (lex b') Hi' Ea'). }
    destruct (print_head_safe fs i a (lex b) Hi Ea) as [Hne _].
    cbn [parse_instrs]. destruct (lex a ++ lex b) as [|t0 ts0] eqn:Ets.
    { destruct a; [congruence|discriminate]. }
    rewrite <- Ets. rewrite (text_instr_rt fs i a (lex b) Hi Ea Hs). cbn [bind].
    rewrite (IH b f Hl eq_refl) by (cbn in Hf; lia). reflexivity.
Qed.

(* ------------------------------------------------------------------ refuted rows *)
(* operands of kind U8 other than memory.size / memory.grow are printed but not read back *)
Lemma text_u8_operand_refuted fs : text_u8_consumes = false ->
  exists ps, print_instr fs (Instr "memory.fill" [AInt 0]) = Ok ps /\
             parse_instr fs (lex ps) = Ok (Instr "memory.fill" [AInt 0], [TInt 0]).
Proof.
  intros H. vm_compute in H.
  first [discriminate H | exists [PW "memory.fill"; PW "0"]; split; vm_compute; reflexivity].
Qed.

(* call_indirect on a table other than 0 is printed as "(const.i64 n)", which the parser rejects *)
Lemma text_call_indirect_table_refuted fs : text_ci_table_first = false ->
  exists ps, print_instr fs (Instr "call_indirect" [ARef "type" 0; ARef "table" 1]) = Ok ps /\
             parse_instrs fs 10 (lex ps) = Diag 12.
Proof.
  intros H. vm_compute in H.
  first [discriminate H
        | exists [PW "call_indirect"; PL; PW "type"; PW "0"; PR; PL; PW "const.i64"; PW "1"; PR];
          split; vm_compute; reflexivity].
Qed.

(* two different constants with the same spelling (every NaN is printed "nan") cannot both be read back *)
Lemma text_same_spelling_refuted fs r1 r2 : r1 <> r2 -> len r1 = len r2 ->
  (if len r1 =? 4 then repr32 fs r1 = repr32 fs r2 else repr64 fs r1 = repr64 fs r2) ->
  ~ (float_ok fs r1 = true /\ float_ok fs r2 = true).
Proof.
  intros Hne Hl Hsp [H1 H2].
  pose proof (float_ok_parse fs r1 [] H1) as P1. pose proof (float_ok_parse fs r2 [] H2) as P2.
  rewrite <- Hl in P2. destruct (len r1 =? 4); rewrite Hsp in P1; rewrite P1 in P2; injection P2 as E; auto.
Qed.
