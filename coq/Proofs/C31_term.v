(* Proofs/C31_term.v — a decidable termination certificate for compile(): if a finite list S of
   regexes contains r and is closed under the derivatives compile() actually takes (one
   representative symbol per non-empty derivative class), the worklist loop finishes within
   length S iterations. (Without such a set compile() may diverge: known finding "a*a*".) *)
From PV Require Import Lib.Py Lib.Tac Spec.RegLangSpec Model.Regex.
From PV Require Import Proofs.C31_sets Proofs.C31_regex Proofs.C31_dfa.
Open Scope Z_scope.

Definition memb (x : re) (S : list re) : bool := existsb (re_eqb x) S.

Definition closedb (S : list re) : bool :=
  forallb (fun q =>
    forallb (fun K => match K with [] => true | r0 :: _ => memb (deriv q (fst r0)) S end)
            (classes q)) S.

Lemma memb_In x S : memb x S = true <-> In x S.
Proof.
  unfold memb. rewrite existsb_exists. split.
  - intros (y & Hy & E). apply re_eqb_eq in E. now subst.
  - intros H. exists x. split; auto. apply re_eqb_refl.
Qed.

Lemma index_of_none_notin x l : forall i, index_of x l i = None -> ~ In x l.
Proof.
  induction l as [|y l IH]; intros i; cbn; [tauto|].
  destruct (re_eqb x y) eqn:E; [discriminate|]. intros H [<-|Hin].
  - rewrite re_eqb_refl in E. discriminate.
  - eapply IH; eauto.
Qed.

Lemma NoDup_snoc {A} (l : list A) x : NoDup l -> ~ In x l -> NoDup (l ++ [x]).
Proof.
  induction 1 as [|a l Ha Hl IH]; intros Hx; cbn.
  - constructor; [intros []|constructor].
  - constructor.
    + intros Hin. apply in_app_or in Hin. destruct Hin as [Hin|[<-|[]]]; [contradiction|].
      apply Hx. now left.
    + apply IH. intros Hin. apply Hx. now right.
Qed.

Definition TInv (S states : list re) : Prop := NoDup states /\ incl states S.

Lemma class_step_T S state n K states trs stack states' trs' stack' :
  closedb S = true -> In state S -> In K (classes state) -> TInv S states ->
  class_step state n (states, trs, stack) K = (states', trs', stack') ->
  TInv S states' /\ (length states' + length stack = length states + length stack')%nat.
Proof.
  intros Hcl HS HK [Hnd Hincl]. unfold class_step. destruct K as [|r0 K0] eqn:EK.
  - intros H. inversion H; subst. split; [split; auto|lia].
  - assert (Hnxt : In (deriv state (fst r0)) S).
    { unfold closedb in Hcl. rewrite forallb_forall in Hcl. specialize (Hcl state HS).
      rewrite forallb_forall in Hcl. specialize (Hcl (r0 :: K0) HK). now apply memb_In in Hcl. }
    destruct (index_of (deriv state (fst r0)) states O) eqn:Ei.
    + intros H. inversion H; subst. split; [split; auto|lia].
    + intros H. inversion H; subst. split.
      * split.
        -- apply NoDup_snoc; [assumption|]. eapply index_of_none_notin; eauto.
        -- intros x Hx. apply in_app_or in Hx. destruct Hx as [Hx|[<-|[]]]; auto.
      * rewrite app_length. cbn. lia.
Qed.

Lemma class_fold_T S state n : forall ks states trs stack states' trs' stack',
  closedb S = true -> In state S -> (forall K, In K ks -> In K (classes state)) -> TInv S states ->
  fold_left (class_step state n) ks (states, trs, stack) = (states', trs', stack') ->
  TInv S states' /\ (length states' + length stack = length states + length stack')%nat.
Proof.
  induction ks as [|K ks IH]; intros states trs stack states' trs' stack' Hcl HS Hks HT; cbn [fold_left].
  - intros H. inversion H; subst. split; [assumption|lia].
  - destruct (class_step state n (states, trs, stack) K) as [[s1 t1] k1] eqn:E1.
    apply (class_step_T S) in E1; auto; [|apply Hks; now left]. destruct E1 as [HT1 Hl1].
    intros H. apply IH in H; auto; [|intros K' HK'; apply Hks; now right].
    destruct H as [HT2 Hl2]. split; [assumption|lia].
Qed.

Lemma compile_loop_terminates S : closedb S = true ->
  forall fuel states trs stack, TInv S states -> incl stack S ->
  (length S + length stack < fuel + length states)%nat ->
  compile_loop fuel (states, trs, stack) <> OutOfFuel.
Proof.
  intros Hcl. induction fuel as [|fuel IH]; intros states trs stack HT Hstk Hf.
  - exfalso. destruct HT as [Hnd Hincl]. pose proof (NoDup_incl_length Hnd Hincl). cbn in Hf. lia.
  - cbn [compile_loop]. destruct stack as [|state stack0]; [discriminate|].
    destruct (index_of state states O) as [n|]; [|discriminate].
    destruct (fold_left (class_step state n) (classes state) (states, trs, stack0)) as [[s1 t1] k1] eqn:E1.
    pose proof E1 as E1'.
    apply (class_fold_T S) in E1; auto; [|apply Hstk; now left]. destruct E1 as [HT1 Hl1].
    apply IH; auto.
    + (* the new stack only holds states of S *)
      clear - E1' Hstk Hcl HT.
      assert (Hgen : forall ks states trs stack s1 t1 k1, incl stack S ->
                (forall K, In K ks -> In K (classes state)) ->
                fold_left (class_step state n) ks (states, trs, stack) = (s1, t1, k1) -> incl k1 S).
      { induction ks as [|K ks IHk]; intros st tr sk s1' t1' k1' Hsk Hks; cbn [fold_left].
        - intros H. inversion H; subst. assumption.
        - destruct (class_step state n (st, tr, sk) K) as [[s2 t2] k2] eqn:E2. intros H.
          eapply IHk in H; eauto.
          + unfold class_step in E2. destruct K as [|r0 K0]; [inversion E2; subst; assumption|].
            destruct (index_of (deriv state (fst r0)) st O); inversion E2; subst; [assumption|].
            intros x [<-|Hx]; [|auto].
            unfold closedb in Hcl. rewrite forallb_forall in Hcl.
            specialize (Hcl state (Hstk state (or_introl eq_refl))).
            rewrite forallb_forall in Hcl. specialize (Hcl (r0 :: K0) (Hks _ (or_introl eq_refl))).
            now apply memb_In in Hcl.
          + intros K' HK'. apply Hks. now right. }
      eapply Hgen; [|intros K HK; exact HK|exact E1']. intros x Hx. apply Hstk. now right.
    + cbn [length] in Hf. rewrite upd_nth_length || idtac. lia.
Qed.

Theorem compile_terminates S r fuel : closedb S = true -> memb r S = true ->
  (length S < fuel)%nat -> compile fuel r <> OutOfFuel.
Proof.
  intros Hcl Hr Hf. apply memb_In in Hr. unfold compile.
  pose proof (compile_loop_terminates S Hcl fuel [r] [[]] [r]) as H.
  destruct (compile_loop fuel ([r], [[]], [r])) as [[[states trs] stack]| | |] eqn:E; cbn [bind]; try discriminate.
  - destruct (index_of NULL states O); discriminate.
  - exfalso. apply H; auto.
    + split; [constructor; [intros []|constructor]|]. intros x [<-|[]]. assumption.
    + intros x [<-|[]]. assumption.
    + cbn. lia.
Qed.

(* the states compile() finds are themselves such a certificate, e.g. for a literal word or a+ *)
Definition cert_example : list re :=
  [Cat (Sym [(97, 97)]) (Star (Sym [(97, 97)])); Star (Sym [(97, 97)]); NULL].
Lemma cert_example_closed : closedb cert_example = true.
Proof. vm_compute. reflexivity. Qed.

Lemma compile_loop_cases fuel : forall st,
  (exists st', compile_loop fuel st = Ok st') \/ compile_loop fuel st = Internal KeyError \/
  compile_loop fuel st = OutOfFuel.
Proof.
  induction fuel as [|fuel IH]; intros [[states trs] stack]; cbn [compile_loop]; [auto|].
  destruct stack as [|state stack0]; [left; eauto|].
  destruct (index_of state states O) as [n|]; [|auto].
  destruct (fold_left (class_step state n) (classes state) (states, trs, stack0)) as [[s1 t1] k1].
  apply IH.
Qed.

Theorem compile_terminates_cases S r fuel : closedb S = true -> memb r S = true ->
  (length S < fuel)%nat -> (exists d, compile fuel r = Ok d) \/ compile fuel r = Internal KeyError.
Proof.
  intros Hcl Hr Hf. pose proof (compile_terminates S r fuel Hcl Hr Hf) as Hne. unfold compile in *.
  destruct (compile_loop_cases fuel ([r], [[]], [r])) as [(st & E)|[E|E]]; rewrite E in *; cbn [bind] in *.
  - destruct st as [[states trs] stack]. destruct (index_of NULL states O); [left; eauto|now right].
  - now right.
  - exfalso. apply Hne. reflexivity.
Qed.
