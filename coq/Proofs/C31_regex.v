(* Proofs/C31_regex.v — smart constructors, nullability, Brzozowski derivative and derivative
   classes of Model/Regex.v against the denotation L of Spec/RegLangSpec.v. *)
From PV Require Import Lib.Py Lib.Tac Spec.RegLangSpec Model.Regex Proofs.C31_sets.
Open Scope Z_scope.

Lemma L_NULL w : ~ L NULL w.
Proof. cbn. intros (c & _ & H). now apply in_ranges_nil in H. Qed.

Lemma L_Eps w : L Eps w <-> w = [].
Proof. reflexivity. Qed.

Ltac eqb_cases :=
  repeat match goal with
  | |- context [re_eqb ?a ?b] =>
      let E := fresh "E" in destruct (re_eqb a b) eqn:E; [apply re_eqb_eq in E; subst|]
  end.

(* ---- smart constructors preserve the language *)
Lemma concatenate_L a b w : L (concatenate a b) w <-> L (Cat a b) w.
Proof.
  unfold concatenate. eqb_cases; try reflexivity.
  - split; [intros H; now apply L_NULL in H|]. intros (u & v & _ & H & _). now apply L_NULL in H.
  - split; [intros H; now apply L_NULL in H|]. intros (u & v & _ & _ & H). now apply L_NULL in H.
  - cbn [L]. split.
    + intros H. exists [], w. auto.
    + intros (u & v & -> & -> & H). exact H.
  - cbn [L]. split.
    + intros H. exists w, []. rewrite app_nil_r. auto.
    + intros (u & v & -> & H & ->). now rewrite app_nil_r.
Qed.

Definition lor_generic (l r : re) : re :=
  if re_eqb l r then l else if re_eqb l NULL then r else if re_eqb r NULL then l else Or l r.

Lemma lor_generic_L a b w : L (lor_generic a b) w <-> L a w \/ L b w.
Proof.
  unfold lor_generic. eqb_cases; try reflexivity.
  - tauto.
  - split; [now right|]. intros [H|H]; [now apply L_NULL in H|assumption].
  - split; [now left|]. intros [H|H]; [assumption|now apply L_NULL in H].
Qed.

Lemma logical_or_cases a b :
  (exists s t, a = Sym s /\ b = Sym t /\ logical_or a b = Sym (union s t)) \/
  logical_or a b = lor_generic a b.
Proof.
  destruct a, b; try (right; reflexivity). left. eauto.
Qed.

Lemma logical_or_L a b w : L (logical_or a b) w <-> L a w \/ L b w.
Proof.
  destruct (logical_or_cases a b) as [(s & t & -> & -> & ->)| ->].
  - cbn [L]. split.
    + intros (c & -> & H). apply union_spec in H. destruct H; [left|right]; eauto.
    + intros [(c & -> & H)|(c & -> & H)]; exists c; split; auto; apply union_spec; auto.
  - apply lor_generic_L.
Qed.

Lemma logical_and_L a b w : L (logical_and a b) w <-> L a w /\ L b w.
Proof.
  unfold logical_and. eqb_cases; try reflexivity.
  - tauto.
  - split; [intros H; now apply L_NULL in H|]. intros [H _]. now apply L_NULL in H.
  - split; [intros H; now apply L_NULL in H|]. intros [_ H]. now apply L_NULL in H.
Qed.

(* ---- nullability *)
Lemma nu_spec r : (nu r = Eps /\ L r []) \/ (nu r = NULL /\ ~ L r []).
Proof.
  induction r; cbn [nu].
  - left. split; reflexivity.
  - right. split; [reflexivity|]. cbn. intros (c & H & _). discriminate.
  - left. split; [reflexivity|]. cbn. constructor.
  - destruct IHr1 as [[-> H1]|[-> H1]], IHr2 as [[-> H2]|[-> H2]].
    + left. split; [reflexivity|]. exists [], []. auto.
    + right. split; [reflexivity|]. intros (u & v & E & Hu & Hv).
      symmetry in E. apply app_eq_nil in E. destruct E; subst. auto.
    + right. split; [reflexivity|]. intros (u & v & E & Hu & Hv).
      symmetry in E. apply app_eq_nil in E. destruct E; subst. auto.
    + right. split; [reflexivity|]. intros (u & v & E & Hu & Hv).
      symmetry in E. apply app_eq_nil in E. destruct E; subst. auto.
  - destruct IHr1 as [[-> H1]|[-> H1]], IHr2 as [[-> H2]|[-> H2]].
    + left. split; [reflexivity|]. now left.
    + left. split; [reflexivity|]. now left.
    + left. split; [reflexivity|]. now right.
    + right. split; [reflexivity|]. cbn [L]. tauto.
  - destruct IHr1 as [[-> H1]|[-> H1]], IHr2 as [[-> H2]|[-> H2]].
    + left. split; [reflexivity|]. split; auto.
    + right. split; [reflexivity|]. cbn [L]. tauto.
    + right. split; [reflexivity|]. cbn [L]. tauto.
    + right. split; [reflexivity|]. cbn [L]. tauto.
Qed.

Lemma nullable_spec r : nullable r = true <-> L r [].
Proof.
  unfold nullable. destruct (nu_spec r) as [[-> H]|[-> H]].
  - split; auto.
  - split; [discriminate|tauto].
Qed.

Lemma nullable_false_nu r : nullable r = false -> nu r = NULL.
Proof.
  unfold nullable. destruct (nu_spec r) as [[-> H]|[-> H]]; [discriminate|reflexivity].
Qed.

(* ---- star *)
Lemma star_cons (P : list Z -> Prop) c w :
  star P (c :: w) <-> exists u v, w = u ++ v /\ P (c :: u) /\ star P v.
Proof.
  split.
  - intros H. remember (c :: w) as x eqn:E. revert c w E.
    induction H as [|u v Hu Hv IH]; intros c w E; [discriminate|].
    destruct u as [|c' u]; cbn in E.
    + apply IH. exact E.
    + inversion E; subst. exists u, v. auto.
  - intros (u & v & -> & Hu & Hv). change (c :: u ++ v) with ((c :: u) ++ v).
    now constructor.
Qed.

(* ---- derivative *)
Lemma deriv_spec r : forall c w, L (deriv r c) w <-> L r (c :: w).
Proof.
  induction r; intros c w; cbn [deriv].
  - split; [intros H; now apply L_NULL in H|cbn; discriminate].
  - destruct (contains s c) eqn:E.
    + apply contains_spec in E. cbn [L]. split.
      * intros ->. exists c. auto.
      * intros (c' & H & _). now inversion H.
    + apply contains_false in E. split; [intros H; now apply L_NULL in H|].
      cbn [L]. intros (c' & H & Hin). inversion H; subst. tauto.
  - rewrite concatenate_L. cbn [L]. rewrite star_cons. split.
    + intros (u & v & -> & Hu & Hv). exists u, v. rewrite <- IHr. auto.
    + intros (u & v & -> & Hu & Hv). exists u, v. rewrite IHr. auto.
  - rewrite logical_or_L, !concatenate_L. cbn [L]. split.
    + intros [(u & v & -> & Hu & Hv)|(u & v & -> & Hu & Hv)].
      * exists (c :: u), v. rewrite <- IHr1. auto.
      * destruct (nu_spec r1) as [[En H1]|[En H1]]; rewrite En in Hu.
        -- cbn in Hu. subst u. exists [], (c :: v). rewrite <- IHr2. auto.
        -- now apply L_NULL in Hu.
    + intros (u & v & E & Hu & Hv). destruct u as [|c' u]; cbn in E.
      * subst v. right. exists [], w. split; [reflexivity|]. split; [|now apply IHr2].
        destruct (nu_spec r1) as [[-> H1]|[_ H1]]; [reflexivity|tauto].
      * inversion E; subst. left. exists u, v. rewrite IHr1. auto.
  - rewrite logical_or_L. cbn [L]. now rewrite IHr1, IHr2.
  - rewrite logical_and_L. cbn [L]. now rewrite IHr1, IHr2.
Qed.

(* iterated derivative and the derived matcher *)
Definition derivs (r : re) (w : list Z) : re := fold_left deriv w r.
Definition matches (r : re) (w : list Z) : bool := nullable (derivs r w).

Lemma derivs_spec w : forall r v, L (derivs r w) v <-> L r (w ++ v).
Proof.
  induction w as [|c w IH]; intros r v; cbn; [reflexivity|].
  unfold derivs in IH. rewrite IH. apply deriv_spec.
Qed.

Lemma matches_spec r w : matches r w = true <-> L r w.
Proof. unfold matches. rewrite nullable_spec, derivs_spec. now rewrite app_nil_r. Qed.

Lemma derivs_app r u v : derivs r (u ++ v) = derivs (derivs r u) v.
Proof. unfold derivs. apply fold_left_app. Qed.

(* ---- derivative classes *)
Lemma In_product_intersections K A B :
  In K (product_intersections A B) <->
  nonempty K = true /\ exists a b, In a A /\ In b B /\ K = inter a b.
Proof.
  unfold product_intersections. rewrite filter_In, in_flat_map. split.
  - intros [(a & Ha & H) Hn]. apply in_map_iff in H. destruct H as (b & <- & Hb). eauto 6.
  - intros [Hn (a & b & Ha & Hb & ->)]. split; auto. exists a. split; auto.
    apply in_map_iff. eauto.
Qed.

Lemma concatenate_NULL_l x : concatenate NULL x = NULL.
Proof. reflexivity. Qed.

Lemma classes_sound r : forall K a b,
  In K (classes r) -> in_ranges a K -> in_ranges b K -> deriv r a = deriv r b.
Proof.
  induction r; intros K x y HK Hx Hy; cbn [classes deriv] in *.
  - reflexivity.
  - destruct HK as [<-|[<-|[]]].
    + apply contains_spec in Hx, Hy. now rewrite Hx, Hy.
    + apply diff_spec in Hx, Hy. destruct Hx as [_ Hx], Hy as [_ Hy].
      apply contains_false in Hx, Hy. now rewrite Hx, Hy.
  - now rewrite (IHr K x y).
  - destruct (nullable r1) eqn:En.
    + apply In_product_intersections in HK. destruct HK as (_ & A & B & HA & HB & ->).
      apply inter_spec in Hx, Hy. destruct Hx, Hy.
      now rewrite (IHr1 A x y), (IHr2 B x y).
    + rewrite (nullable_false_nu _ En), !concatenate_NULL_l. now rewrite (IHr1 K x y).
  - apply In_product_intersections in HK. destruct HK as (_ & A & B & HA & HB & ->).
    apply inter_spec in Hx, Hy. destruct Hx, Hy.
    now rewrite (IHr1 A x y), (IHr2 B x y).
  - apply In_product_intersections in HK. destruct HK as (_ & A & B & HA & HB & ->).
    apply inter_spec in Hx, Hy. destruct Hx, Hy.
    now rewrite (IHr1 A x y), (IHr2 B x y).
Qed.

Lemma in_ranges_nonempty c K : in_ranges c K -> nonempty K = true.
Proof. destruct K; [intros H; now apply in_ranges_nil in H|reflexivity]. Qed.

Lemma product_cover c A B :
  (exists K, In K A /\ in_ranges c K) -> (exists K, In K B /\ in_ranges c K) ->
  exists K, In K (product_intersections A B) /\ in_ranges c K.
Proof.
  intros (a & Ha & Hca) (b & Hb & Hcb). exists (inter a b).
  assert (H : in_ranges c (inter a b)) by (apply inter_spec; auto).
  split; auto. apply In_product_intersections. split; [eapply in_ranges_nonempty; eauto|eauto 6].
Qed.

Lemma classes_cover r : forall c, in_sigma c -> exists K, In K (classes r) /\ in_ranges c K.
Proof.
  induction r; intros c Hc; cbn [classes].
  - exists SIGMA_SET. split; [now left|now apply sigma_spec].
  - destruct (contains s c) eqn:E.
    + exists s. split; [now left|now apply contains_spec].
    + exists (diff SIGMA_SET s). split; [right; now left|].
      apply diff_spec. split; [now apply sigma_spec|now apply contains_false].
  - auto.
  - destruct (nullable r1); auto using product_cover.
  - auto using product_cover.
  - auto using product_cover.
Qed.

(* pairwise disjointness of the classes *)
Definition disjoint (K1 K2 : iset) : Prop := forall c, ~ (in_ranges c K1 /\ in_ranges c K2).
Definition pairwise_disjoint (l : list iset) : Prop := ForallOrdPairs disjoint l.

Lemma FOP_app {A} (R : A -> A -> Prop) l1 l2 :
  ForallOrdPairs R l1 -> ForallOrdPairs R l2 ->
  (forall x y, In x l1 -> In y l2 -> R x y) -> ForallOrdPairs R (l1 ++ l2).
Proof.
  induction l1 as [|a l1 IH]; cbn; intros H1 H2 H12; [assumption|].
  inversion H1; subst. constructor.
  - apply Forall_app. split; [assumption|]. apply Forall_forall. intros y Hy. apply H12; auto.
  - apply IH; auto.
Qed.

Lemma FOP_filter {A} (R : A -> A -> Prop) f l :
  ForallOrdPairs R l -> ForallOrdPairs R (filter f l).
Proof.
  induction 1 as [|a l Ha Hl IH]; cbn; [constructor|].
  destruct (f a); [|assumption]. constructor; [|assumption].
  apply Forall_forall. intros y Hy. apply filter_In in Hy. destruct Hy as [Hy _].
  rewrite Forall_forall in Ha. auto.
Qed.

Lemma FOP_map_inter a B : pairwise_disjoint B -> pairwise_disjoint (map (fun b => inter a b) B).
Proof.
  induction 1 as [|b B Hb HB IH]; cbn; [constructor|]. constructor; [|assumption].
  apply Forall_forall. intros y Hy. apply in_map_iff in Hy. destruct Hy as (b' & <- & Hb').
  rewrite Forall_forall in Hb. intros c [H1 H2]. apply inter_spec in H1, H2.
  apply (Hb b' Hb' c). tauto.
Qed.

Lemma product_disjoint A B :
  pairwise_disjoint A -> pairwise_disjoint B -> pairwise_disjoint (product_intersections A B).
Proof.
  intros HA HB. unfold product_intersections. apply FOP_filter.
  induction HA as [|a A Ha HA IH]; cbn [flat_map]; [constructor|].
  apply FOP_app; [now apply FOP_map_inter|exact IH|].
  intros x y Hx Hy. apply in_map_iff in Hx. destruct Hx as (b & <- & Hb).
  apply in_flat_map in Hy. destruct Hy as (a' & Ha' & Hy). apply in_map_iff in Hy.
  destruct Hy as (b' & <- & Hb'). rewrite Forall_forall in Ha.
  intros c [H1 H2]. apply inter_spec in H1, H2. apply (Ha a' Ha' c). tauto.
Qed.

Lemma classes_disjoint r : pairwise_disjoint (classes r).
Proof.
  induction r; cbn [classes].
  - constructor; constructor.
  - constructor; [|constructor; constructor]. constructor; [|constructor].
    intros c [H1 H2]. apply diff_spec in H2. tauto.
  - assumption.
  - destruct (nullable r1); auto using product_disjoint.
  - auto using product_disjoint.
  - auto using product_disjoint.
Qed.
