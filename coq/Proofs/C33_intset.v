(* Proofs/C33_intset.v — lemmas about the hand model Model/IntegerSet.v (ppci/utils/integer_set.py)
   against Spec/IntSetSpec.v.  Technique: a boolean membership [mem] (reflecting [denote]) and a
   lower-bounded form [wf] of [canonical] turn every loop invariant into a linear-arithmetic goal
   over booleans that lia (ZifyBool) decides.  Lib.Tac is deliberately not imported: its
   euclidean-division zify hook disables lia's boolean reasoning and is not needed here. *)
From PV Require Import Lib.Py Spec.IntSetSpec Model.IntegerSet.
From Coq Require Import Sorted.
Open Scope Z_scope.

(* ---------------------------------------------------------------- boolean membership *)
Fixpoint mem (z : Z) (l : list rng) : bool :=
  match l with
  | [] => false
  | r :: t => ((fst r <=? z) && (z <=? snd r)) || mem z t
  end.

Lemma mem_denote z l : mem z l = true <-> denote l z.
Proof.
  unfold denote, in_range. induction l as [|r t IH]; cbn [mem In].
  - split; [discriminate|intros (r & [] & _)].
  - rewrite orb_true_iff, IH. split.
    + intros [H|(s & Hs & H)]; [exists r; split; [now left|lia]|exists s; split; [now right|exact H]].
    + intros (s & [->|Hs] & H); [left; lia|right; exists s; split; assumption].
Qed.

Lemma mem_app z a b : mem z (a ++ b) = mem z a || mem z b.
Proof. induction a as [|r a IH]; cbn [mem app]; [reflexivity|rewrite IH; lia]. Qed.

Lemma mem_ext a b : (forall z, mem z a = mem z b) <-> (forall z, denote a z <-> denote b z).
Proof.
  split; intros H z.
  - rewrite <- !mem_denote, H. tauto.
  - specialize (H z). rewrite <- !mem_denote in H.
    destruct (mem z a), (mem z b); intuition congruence.
Qed.

(* ---------------------------------------------------------------- canonical with a lower bound *)
Fixpoint wf (lb : Z) (l : list rng) : Prop :=
  match l with
  | [] => True
  | r :: t => lb < fst r /\ fst r <= snd r /\ wf (snd r + 1) t
  end.

Lemma wf_lb lb l z : wf lb l -> mem z l = true -> lb < z.
Proof.
  revert lb; induction l as [|r t IH]; intros lb; cbn [wf mem]; [discriminate|].
  intros (H1 & H2 & H3) H. apply orb_true_iff in H. destruct H as [H|H]; [lia|].
  specialize (IH _ H3 H). lia.
Qed.

Lemma wf_weaken lb lb' l : lb' <= lb -> wf lb l -> wf lb' l.
Proof. destruct l; cbn [wf]; [tauto|]. intros ? (?&?&?). repeat split; try assumption; lia. Qed.

Lemma wf_canonical lb l : wf lb l -> canonical l.
Proof.
  revert lb; induction l as [|r t IH]; intros lb; cbn [wf canonical]; [tauto|].
  intros (H1 & H2 & H3). split; [exact H2|]. split; [|eapply IH; eassumption].
  destruct t as [|s t']; [exact I|]. cbn [wf] in H3. lia.
Qed.

Lemma canonical_wf l : canonical l -> exists lb, wf lb l.
Proof.
  induction l as [|r t IH]; cbn [canonical]; [exists 0; exact I|].
  intros (H1 & H2 & H3). exists (fst r - 1). cbn [wf]. split; [lia|]. split; [exact H1|].
  destruct (IH H3) as (lb & Hlb). destruct t as [|s t']; [exact I|].
  cbn [wf] in *. destruct Hlb as (_ & ? & ?). repeat split; try assumption; lia.
Qed.

Ltac wf_facts z :=
  repeat match goal with
  | H : wf ?lb ?l |- _ =>
      lazymatch goal with
      | _ : mem z l = true -> lb < z |- _ => fail
      | _ => pose proof (wf_lb lb l z H)
      end
  end.

(* ---------------------------------------------------------------- intersection loop *)
Lemma inter_loop_spec fuel : forall l1 l2 acc lb1 lb2,
  wf lb1 l1 -> wf lb2 l2 -> (length l1 + length l2 < fuel)%nat ->
  exists res, inter_loop fuel l1 l2 acc = Ok res /\
              forall z, mem z res = mem z acc || (mem z l1 && mem z l2).
Proof.
  induction fuel as [|f IH]; intros l1 l2 acc lb1 lb2 W1 W2 Hf; [lia|].
  destruct l1 as [|[r0 r1] i]; [eexists; split; [reflexivity|]; intros; cbn; lia|].
  destruct l2 as [|[s0 s1] j]; [eexists; split; [reflexivity|]; intros; cbn; lia|].
  cbn [inter_loop fst snd].
  pose proof W1 as W1'. pose proof W2 as W2'.
  destruct W1' as (A1 & A2 & A3). destruct W2' as (B1 & B2 & B3). cbn [fst snd length] in *.
  destruct (r1 <=? Z.min r1 s1) eqn:E1; destruct (s1 <=? Z.min r1 s1) eqn:E2.
  - edestruct (IH i j (if Z.max r0 s0 <=? Z.min r1 s1 then acc ++ [(Z.max r0 s0, Z.min r1 s1)] else acc))
      as (res & Hres & Hm); [eassumption|eassumption|lia|].
    exists res; split; [exact Hres|]. intros z. rewrite Hm. wf_facts z.
    destruct (Z.max r0 s0 <=? Z.min r1 s1) eqn:E3; rewrite ?mem_app; cbn [mem fst snd]; lia.
  - edestruct (IH i ((s0, s1) :: j) (if Z.max r0 s0 <=? Z.min r1 s1 then acc ++ [(Z.max r0 s0, Z.min r1 s1)] else acc))
      as (res & Hres & Hm); [eassumption|eassumption|cbn [length]; lia|].
    exists res; split; [exact Hres|]. intros z. rewrite Hm. wf_facts z.
    destruct (Z.max r0 s0 <=? Z.min r1 s1) eqn:E3; rewrite ?mem_app; cbn [mem fst snd]; lia.
  - edestruct (IH ((r0, r1) :: i) j (if Z.max r0 s0 <=? Z.min r1 s1 then acc ++ [(Z.max r0 s0, Z.min r1 s1)] else acc))
      as (res & Hres & Hm); [eassumption|eassumption|cbn [length]; lia|].
    exists res; split; [exact Hres|]. intros z. rewrite Hm. wf_facts z.
    destruct (Z.max r0 s0 <=? Z.min r1 s1) eqn:E3; rewrite ?mem_app; cbn [mem fst snd]; lia.
  - lia.
Qed.

(* ---------------------------------------------------------------- difference loop *)
Lemma diff_loop_spec fuel : forall l1 l2 acc lb1 lb2,
  wf lb1 l1 -> wf lb2 l2 -> (length l1 + length l2 < fuel)%nat ->
  exists res, diff_loop fuel l1 l2 acc = Ok res /\
              forall z, mem z res = mem z acc || (mem z l1 && negb (mem z l2)).
Proof.
  induction fuel as [|f IH]; intros l1 l2 acc lb1 lb2 W1 W2 Hf; [lia|].
  destruct l1 as [|[r0 r1] i]; [eexists; split; [reflexivity|]; intros; cbn; lia|].
  pose proof W1 as W1'. destruct W1' as (A1 & A2 & A3). cbn [fst snd length] in *.
  destruct l2 as [|[s0 s1] j].
  { cbn [diff_loop].
    edestruct (IH i [] (acc ++ [(r0, r1)]) (r1 + 1) 0) as (res & Hres & Hm); [eassumption|exact I|cbn [length]; lia|].
    exists res; split; [exact Hres|]. intros z. rewrite Hm, mem_app. cbn [mem fst snd]. lia. }
  pose proof W2 as W2'. destruct W2' as (B1 & B2 & B3). cbn [fst snd length] in *.
  cbn [diff_loop fst snd].
  destruct (r0 >? s1) eqn:E1.
  { edestruct (IH ((r0, r1) :: i) j acc) as (res & Hres & Hm); [eassumption|eassumption|cbn [length]; lia|].
    exists res; split; [exact Hres|]. intros z. rewrite Hm. wf_facts z. cbn [mem fst snd]. lia. }
  destruct (r1 <? s0) eqn:E2.
  { edestruct (IH i ((s0, s1) :: j) (acc ++ [(r0, r1)])) as (res & Hres & Hm);
      [eassumption|eassumption|cbn [length]; lia|].
    exists res; split; [exact Hres|]. intros z. rewrite Hm, mem_app. wf_facts z. cbn [mem fst snd]. lia. }
  destruct (r1 >? s1) eqn:E3.
  - edestruct (IH ((s1 + 1, r1) :: i) j (if r0 <? s0 then acc ++ [(r0, s0 - 1)] else acc)) as (res & Hres & Hm);
      [|eassumption|cbn [length]; lia|].
    { instantiate (1 := lb1). cbn [wf fst snd]. repeat split; try assumption; lia. }
    exists res; split; [exact Hres|]. intros z. rewrite Hm. wf_facts z.
    destruct (r0 <? s0) eqn:E4; rewrite ?mem_app; cbn [mem fst snd]; lia.
  - edestruct (IH i ((s0, s1) :: j) (if r0 <? s0 then acc ++ [(r0, s0 - 1)] else acc)) as (res & Hres & Hm);
      [eassumption|eassumption|cbn [length]; lia|].
    exists res; split; [exact Hres|]. intros z. rewrite Hm. wf_facts z.
    destruct (r0 <? s0) eqn:E4; rewrite ?mem_app; cbn [mem fst snd]; lia.
Qed.

(* ---------------------------------------------------------------- sorted (insertion sort) *)
(* ascending in the first component, all first components >= lo *)
Fixpoint lbsorted (lo : Z) (l : list rng) : Prop :=
  match l with
  | [] => True
  | s :: t => lo <= fst s /\ lbsorted (fst s) t
  end.

Lemma lbsorted_weaken lo lo' l : lo' <= lo -> lbsorted lo l -> lbsorted lo' l.
Proof. destruct l; cbn [lbsorted]; [tauto|]. intros ? (? & ?). split; [lia|assumption]. Qed.

Lemma insert_sorted r : forall l lo, lo <= fst r -> lbsorted lo l -> lbsorted lo (insert r l).
Proof.
  induction l as [|s t IH]; intros lo Hr Hl; cbn [insert].
  - cbn [lbsorted]. tauto.
  - destruct Hl as (H1 & H2). unfold tuple_le. destruct (_ || _) eqn:E; cbn [lbsorted].
    + repeat split; try assumption; lia.
    + split; [assumption|]. apply IH; [lia|assumption].
Qed.

Lemma sorted_sorted l lo : (forall r, In r l -> lo <= fst r) -> lbsorted lo (sorted l).
Proof.
  induction l as [|r t IH]; intros H; cbn [sorted]; [exact I|].
  apply insert_sorted; [apply H; now left|apply IH; intros; apply H; now right].
Qed.

Lemma lower_bound_exists (l : list rng) : exists lo, forall r, In r l -> lo <= fst r.
Proof.
  induction l as [|r t (lo & IH)]; [exists 0; intros ? []|].
  exists (Z.min lo (fst r)). intros s [<-|Hs]; [lia|]. specialize (IH _ Hs). lia.
Qed.

Lemma insert_In r s l : In s (insert r l) <-> s = r \/ In s l.
Proof.
  induction l as [|x t IH]; cbn [insert In]; [intuition congruence|].
  destruct (tuple_le r x); cbn [In]; [intuition congruence|]. rewrite IH. intuition congruence.
Qed.

Lemma sorted_In s l : In s (sorted l) <-> In s l.
Proof.
  induction l as [|r t IH]; cbn [sorted In]; [tauto|]. rewrite insert_In, IH. intuition congruence.
Qed.

Lemma Forall_sorted (P : rng -> Prop) l : Forall P l -> Forall P (sorted l).
Proof. rewrite !Forall_forall. intros H x Hx. apply H. now apply sorted_In. Qed.

Lemma mem_In_ext a b : (forall r, In r a <-> In r b) -> forall z, mem z a = mem z b.
Proof.
  intros H z. apply eq_true_iff_eq. rewrite !mem_denote. unfold denote.
  split; intros (r & Hr & Hz); exists r; (split; [now apply H|exact Hz]).
Qed.

(* ---------------------------------------------------------------- merge_overlapping_intervals *)
Lemma merge_loop_mem z : forall l r, lbsorted (fst r) l -> mem z (merge_loop r l) = mem z (r :: l).
Proof.
  induction l as [|s t IH]; intros r Hs; cbn [merge_loop]; [reflexivity|].
  destruct Hs as (H1 & H2).
  destruct (fst s >? snd r + 1) eqn:E.
  - change (mem z (r :: merge_loop s t)) with (((fst r <=? z) && (z <=? snd r)) || mem z (merge_loop s t)).
    rewrite IH by assumption. reflexivity.
  - rewrite IH by (cbn [fst]; eapply lbsorted_weaken; [|eassumption]; lia).
    cbn [mem fst snd]. lia.
Qed.

Lemma merge_loop_wf : forall l r lb,
  lb < fst r -> fst r <= snd r -> Forall (fun s => fst s <= snd s) l -> lbsorted (fst r) l ->
  wf lb (merge_loop r l).
Proof.
  induction l as [|s t IH]; intros r lb Hlb Hr Hv Hs; cbn [merge_loop].
  - cbn [wf]. tauto.
  - destruct Hs as (H1 & H2). inversion Hv as [|? ? Hv1 Hv2]; subst.
    destruct (fst s >? snd r + 1) eqn:E.
    + cbn [wf]. repeat split; try assumption. apply IH; try assumption; lia.
    + apply IH; cbn [fst snd]; try assumption; try lia.
      eapply lbsorted_weaken; [|eassumption]; lia.
Qed.

(* ---------------------------------------------------------------- constructor *)
Lemma mk_mem l z : mem z (mk l) = mem z l.
Proof.
  unfold mk, merge_overlapping_intervals.
  destruct (lower_bound_exists (filter nonempty_range l)) as (lo & Hlo).
  pose proof (sorted_sorted _ lo Hlo) as Hs.
  assert (E : mem z (sorted (filter nonempty_range l)) = mem z l).
  { rewrite (mem_In_ext _ _ (fun r => sorted_In r _)).
    clear. induction l as [|r t IH]; cbn [filter mem]; [reflexivity|].
    unfold nonempty_range at 1. destruct (fst r <=? snd r) eqn:E; cbn [mem]; rewrite IH; lia. }
  rewrite <- E. destruct (sorted (filter nonempty_range l)) as [|r t]; [reflexivity|].
  destruct Hs as (_ & Hs). now apply merge_loop_mem.
Qed.

Lemma mk_wf l : exists lb, wf lb (mk l).
Proof.
  unfold mk, merge_overlapping_intervals.
  destruct (lower_bound_exists (filter nonempty_range l)) as (lo & Hlo).
  pose proof (sorted_sorted _ lo Hlo) as Hs.
  assert (Hv : Forall (fun s : rng => fst s <= snd s) (sorted (filter nonempty_range l))).
  { apply Forall_sorted. apply Forall_forall. intros x Hx. apply filter_In in Hx.
    unfold nonempty_range in Hx. lia. }
  destruct (sorted (filter nonempty_range l)) as [|r t]; [exists 0; exact I|].
  destruct Hs as (_ & Hs). inversion Hv; subst.
  exists (fst r - 1). apply merge_loop_wf; try assumption; lia.
Qed.

(* ---------------------------------------------------------------- top-level: constructor and set algebra *)
Lemma mk_canonical l : canonical (mk l).
Proof. destruct (mk_wf l) as (lb & H). eapply wf_canonical; eassumption. Qed.

Lemma mk_denote l z : denote (mk l) z <-> denote l z.
Proof. rewrite <- !mem_denote, mk_mem. tauto. Qed.

Lemma ctor_canonical vs : canonical (ctor vs).
Proof. apply mk_canonical. Qed.

Lemma ctor_denote vs z : denote (ctor vs) z <-> denote (map to_range vs) z.
Proof. apply mk_denote. Qed.

Lemma union_canonical a b : canonical (union a b).
Proof. apply mk_canonical. Qed.

Lemma union_denote a b z : denote (union a b) z <-> denote a z \/ denote b z.
Proof. unfold union. rewrite <- !mem_denote, mk_mem, mem_app, orb_true_iff. tauto. Qed.

Lemma intersection_correct fuel a b :
  canonical a -> canonical b -> (length a + length b < fuel)%nat ->
  exists r, intersection fuel a b = Ok r /\ canonical r /\
            forall z, denote r z <-> denote a z /\ denote b z.
Proof.
  intros Ha Hb Hf. destruct (canonical_wf _ Ha) as (la & Wa). destruct (canonical_wf _ Hb) as (lb & Wb).
  destruct (inter_loop_spec fuel a b [] la lb Wa Wb Hf) as (res & Hres & Hm).
  unfold intersection. rewrite Hres. cbn [bind]. eexists; split; [reflexivity|]. split; [apply mk_canonical|].
  intros z. rewrite <- !mem_denote, mk_mem, Hm. cbn [mem]. lia.
Qed.

Lemma difference_correct fuel a b :
  canonical a -> canonical b -> (length a + length b < fuel)%nat ->
  exists r, difference fuel a b = Ok r /\ canonical r /\
            forall z, denote r z <-> denote a z /\ ~ denote b z.
Proof.
  intros Ha Hb Hf. destruct (canonical_wf _ Ha) as (la & Wa). destruct (canonical_wf _ Hb) as (lb & Wb).
  destruct (diff_loop_spec fuel a b [] la lb Wa Wb Hf) as (res & Hres & Hm).
  unfold difference. rewrite Hres. cbn [bind]. eexists; split; [reflexivity|]. split; [apply mk_canonical|].
  intros z. rewrite <- !mem_denote, mk_mem, Hm. cbn [mem].
  lia.
Qed.

Lemma symmetric_difference_correct fuel a b :
  canonical a -> canonical b -> (length a + length b < fuel)%nat ->
  exists r, symmetric_difference fuel a b = Ok r /\ canonical r /\
            forall z, denote r z <-> (denote a z /\ ~ denote b z) \/ (denote b z /\ ~ denote a z).
Proof.
  intros Ha Hb Hf.
  destruct (difference_correct fuel a b Ha Hb Hf) as (d1 & E1 & C1 & D1).
  destruct (difference_correct fuel b a Hb Ha) as (d2 & E2 & C2 & D2); [lia|].
  unfold symmetric_difference. rewrite E1, E2. cbn [bind]. eexists; split; [reflexivity|].
  split; [apply union_canonical|]. intros z. rewrite union_denote, D1, D2. tauto.
Qed.

(* ---------------------------------------------------------------- contains *)
Lemma contains_mem : forall l lb v, wf lb l -> contains l v = Ok (mem v l).
Proof.
  induction l as [|[e0 e1] t IH]; intros lb v W; [reflexivity|].
  destruct W as (W1 & W2 & W3). cbn [fst snd] in *.
  pose proof (wf_lb _ _ v W3) as Hv.
  specialize (IH _ v W3). revert IH.
  unfold contains. cbn [bisect_right]. unfold key_lt. cbn [fst].
  destruct (v <=? e0) eqn:E.
  - intros _. cbn. destruct (v =? e0) eqn:E2; cbn [mem fst snd]; f_equal; lia.
  - destruct t as [|[t0 t1] t'].
    + intros _. cbn. replace (v =? e0) with false by lia. cbn. f_equal. lia.
    + cbn [bisect_right]. unfold key_lt. cbn [fst].
      destruct W3 as (V1 & V2 & V3). cbn [fst snd] in *. pose proof (wf_lb _ _ v V3) as Hv2.
      destruct (v <=? t0) eqn:E3.
      * intros _. cbn. destruct (v =? t0) eqn:E4; cbn; f_equal; cbn [mem fst snd] in *; lia.
      * set (k := bisect_right v t').
        assert (Hk : (k <= length t')%nat).
        { subst k. clear. induction t' as [|x t IH]; cbn [bisect_right length]; [lia|].
          destruct (key_lt v x); lia. }
        cbn [length].
        replace (S (S k) <? S (S (length t')))%nat with (S k <? S (length t'))%nat by lia.
        replace (0 <? S (S k))%nat with true by lia. replace (0 <? S k)%nat with true by lia.
        replace (S (S k) - 1)%nat with (S k) by lia. replace (S k - 1)%nat with k by lia.
        unfold get. cbn [nth_error].
        intros ->. f_equal. cbn [mem fst snd] in *. lia.
Qed.

Lemma contains_iff rs v : canonical rs ->
  exists b, contains rs v = Ok b /\ (b = true <-> denote rs v).
Proof.
  intros H. destruct (canonical_wf _ H) as (lb & W). exists (mem v rs).
  split; [eapply contains_mem; eassumption|apply mem_denote].
Qed.

(* ---------------------------------------------------------------- equality: canonical forms are unique *)
Lemma ranges_eqb_eq a : forall b, ranges_eqb a b = true <-> a = b.
Proof.
  induction a as [|[a0 a1] a IH]; intros [|[b0 b1] b]; cbn [ranges_eqb fst snd];
    try (split; [discriminate|congruence]); [tauto|].
  rewrite !andb_true_iff, IH, !Z.eqb_eq. split; [intros ((-> & ->) & ->); reflexivity|].
  intros E; inversion E; auto.
Qed.

Lemma wf_unique : forall a b la lb, wf la a -> wf lb b -> (forall z, mem z a = mem z b) -> a = b.
Proof.
  induction a as [|[a0 a1] ta IH]; intros [|[b0 b1] tb] la lb Wa Wb H.
  - reflexivity.
  - destruct Wb as (? & ? & ?). specialize (H b0). cbn [mem fst snd] in *. lia.
  - destruct Wa as (? & ? & ?). specialize (H a0). cbn [mem fst snd] in *. lia.
  - destruct Wa as (A1 & A2 & A3). destruct Wb as (B1 & B2 & B3). cbn [fst snd] in *.
    assert (E0 : a0 = b0).
    { pose proof (H a0) as Ha. pose proof (H b0) as Hb. cbn [mem fst snd] in Ha, Hb.
      wf_facts a0. wf_facts b0. lia. }
    subst b0.
    assert (E1 : a1 = b1).
    { pose proof (H (a1 + 1)) as Ha. pose proof (H (b1 + 1)) as Hb. cbn [mem fst snd] in Ha, Hb.
      wf_facts (a1 + 1). wf_facts (b1 + 1). lia. }
    subst b1. f_equal. eapply IH; try eassumption.
    intros z. specialize (H z). cbn [mem fst snd] in H. wf_facts z.
    apply eq_true_iff_eq. lia.
Qed.

Lemma eq_iff_same_set a b : canonical a -> canonical b ->
  (ranges_eqb a b = true <-> forall z, denote a z <-> denote b z).
Proof.
  intros Ha Hb. destruct (canonical_wf _ Ha) as (la & Wa). destruct (canonical_wf _ Hb) as (lb & Wb).
  rewrite ranges_eqb_eq. split; [intros ->; tauto|].
  intros H. eapply wf_unique; try eassumption. now apply mem_ext.
Qed.

(* ---------------------------------------------------------------- iteration and cardinality *)
Lemma iter_In rs z : In z (iter rs) <-> denote rs z.
Proof.
  unfold iter, denote, in_range. rewrite in_flat_map. split; intros (r & Hr & H); exists r; (split; [exact Hr|]).
  - apply rangeZ_In in H. lia.
  - apply rangeZ_In. lia.
Qed.

Lemma seqZ_from_sorted n : forall a, StronglySorted Z.lt (seqZ_from a n).
Proof.
  induction n as [|n IH]; intros a; cbn [seqZ_from]; constructor; [apply IH|].
  apply Forall_forall. intros x Hx. apply seqZ_from_In in Hx. lia.
Qed.

Lemma sorted_app (l1 l2 : list Z) :
  StronglySorted Z.lt l1 -> StronglySorted Z.lt l2 ->
  (forall x y, In x l1 -> In y l2 -> x < y) -> StronglySorted Z.lt (l1 ++ l2).
Proof.
  induction l1 as [|x l1 IH]; intros H1 H2 H; cbn [app]; [assumption|].
  inversion H1 as [|? ? S1 F1]; subst. constructor.
  - apply IH; [assumption|assumption|]. intros; apply H; [now right|assumption].
  - apply Forall_app. split; [assumption|]. apply Forall_forall. intros y Hy. apply H; [now left|assumption].
Qed.

Lemma iter_sorted : forall rs lb, wf lb rs -> StronglySorted Z.lt (iter rs).
Proof.
  induction rs as [|[a b] t IH]; intros lb W; [constructor|].
  destruct W as (W1 & W2 & W3). cbn [fst snd] in *.
  change (iter ((a, b) :: t)) with (rangeZ a (b + 1) ++ iter t).
  apply sorted_app; [apply seqZ_from_sorted|eapply IH; eassumption|].
  intros x y Hx Hy. apply rangeZ_In in Hx. apply iter_In, mem_denote in Hy.
  pose proof (wf_lb _ _ y W3 Hy). lia.
Qed.

Lemma cardinality_acc rs : forall acc,
  fold_left (fun total r => total + (snd r - fst r + 1)) rs acc =
  acc + fold_left (fun total r => total + (snd r - fst r + 1)) rs 0.
Proof.
  induction rs as [|r t IH]; intros acc; cbn [fold_left]; [lia|].
  rewrite (IH (acc + _)), (IH (0 + _)). lia.
Qed.

Lemma cardinality_length : forall rs lb, wf lb rs -> cardinality rs = Z.of_nat (length (iter rs)).
Proof.
  induction rs as [|[a b] t IH]; intros lb W; [reflexivity|].
  destruct W as (W1 & W2 & W3). cbn [fst snd] in *.
  change (iter ((a, b) :: t)) with (rangeZ a (b + 1) ++ iter t).
  unfold cardinality in *. cbn [fold_left fst snd]. rewrite cardinality_acc, (IH _ W3).
  rewrite app_length. unfold rangeZ. rewrite seqZ_from_length. lia.
Qed.

Lemma sorted_NoDup (l : list Z) : StronglySorted Z.lt l -> NoDup l.
Proof.
  induction 1 as [|x l S IH F]; constructor; [|assumption].
  intros Hx. rewrite Forall_forall in F. specialize (F _ Hx). lia.
Qed.

Lemma iter_enumerates rs : canonical rs -> enumerates (iter rs) (denote rs).
Proof.
  intros H. destruct (canonical_wf _ H) as (lb & W). split; [eapply iter_sorted; eassumption|apply iter_In].
Qed.

Lemma cardinality_correct rs : canonical rs ->
  has_card (denote rs) (cardinality rs) /\ cardinality rs = Z.of_nat (length (iter rs)).
Proof.
  intros H. destruct (canonical_wf _ H) as (lb & W).
  pose proof (cardinality_length _ _ W) as E. split; [|exact E].
  exists (iter rs). split; [apply sorted_NoDup; eapply iter_sorted; eassumption|].
  split; [apply iter_In|exact E].
Qed.

Lemma empty_iff rs : canonical rs -> (empty rs = true <-> forall z, ~ denote rs z).
Proof.
  destruct rs as [|[a b] t]; cbn [empty canonical fst snd].
  - intros _. split; [intros _ z (r & [] & _)|reflexivity].
  - intros (H & _). split; [discriminate|]. intros N. exfalso. apply (N a).
    exists (a, b). split; [now left|unfold in_range; cbn [fst snd]; lia].
Qed.

(* ---------------------------------------------------------------- bisect: binary search = contract *)
Lemma bisect_right_len v l : (bisect_right v l <= length l)%nat.
Proof. induction l as [|x t IH]; cbn [bisect_right length]; [lia|]. destruct (key_lt v x); lia. Qed.

Lemma bisect_right_below v : forall l n e,
  (n < bisect_right v l)%nat -> nth_error l n = Some e -> key_lt v e = false.
Proof.
  induction l as [|x t IH]; intros n e; cbn [bisect_right]; [lia|].
  destruct (key_lt v x) eqn:E; [lia|]. destruct n as [|n]; cbn [nth_error].
  - intros _ [= <-]. exact E.
  - intros Hn. apply IH. lia.
Qed.

Lemma lbsorted_nth : forall l lo n e, lbsorted lo l -> nth_error l n = Some e -> lo <= fst e.
Proof.
  induction l as [|x t IH]; intros lo n e Hs; destruct n as [|n]; cbn [nth_error]; try discriminate.
  - intros [= <-]. apply Hs.
  - intros H. destruct Hs as (H1 & H2). specialize (IH _ _ _ H2 H). lia.
Qed.

Lemma bisect_right_above v : forall l lo n e, lbsorted lo l ->
  (bisect_right v l <= n)%nat -> nth_error l n = Some e -> key_lt v e = true.
Proof.
  induction l as [|x t IH]; intros lo n e Hs; cbn [bisect_right].
  - destruct n; discriminate.
  - destruct Hs as (H1 & H2). destruct (key_lt v x) eqn:E.
    + intros _ Hn. unfold key_lt in *. destruct n as [|n]; cbn [nth_error] in Hn.
      * now injection Hn as <-.
      * pose proof (lbsorted_nth _ _ _ _ H2 Hn). lia.
    + destruct n as [|n]; [lia|]. cbn [nth_error]. intros Hn. eapply IH; [eassumption|lia].
Qed.

Lemma bisect_bs_loop_correct v l lb : lbsorted lb l -> forall fuel lo hi,
  (lo <= bisect_right v l <= hi)%nat -> (hi <= length l)%nat -> (hi - lo < fuel)%nat ->
  bisect_bs_loop fuel v l lo hi = Ok (bisect_right v l).
Proof.
  intros Hs. induction fuel as [|f IH]; intros lo hi Hk Hh Hf; [lia|]. cbn [bisect_bs_loop].
  destruct (lo <? hi)%nat eqn:E; [|f_equal; lia].
  assert (Hm : (lo <= (lo + hi) / 2 < hi)%nat).
  { split; [apply Nat.div_le_lower_bound; lia|apply Nat.div_lt_upper_bound; lia]. }
  set (mid := ((lo + hi) / 2)%nat) in *.
  destruct (nth_error l mid) as [e|] eqn:En; [|apply nth_error_None in En; lia].
  destruct (key_lt v e) eqn:Ek.
  - apply IH; [|lia|lia]. split; [lia|].
    destruct (Nat.le_gt_cases (bisect_right v l) mid) as [?|Hlt]; [assumption|].
    pose proof (bisect_right_below v l mid e Hlt En). congruence.
  - apply IH; [|lia|lia]. split; [|lia].
    destruct (Nat.le_gt_cases (bisect_right v l) mid) as [Hle|?]; [|lia].
    pose proof (bisect_right_above v l lb mid e Hs Hle En). congruence.
Qed.

Lemma bisect_bs_correct fuel v l : canonical l -> (length l < fuel)%nat ->
  bisect_bs fuel v l = Ok (bisect_right v l).
Proof.
  intros H Hf. destruct (canonical_wf _ H) as (lb & W).
  assert (Hs : lbsorted lb l).
  { clear H Hf. revert lb W. induction l as [|r t IH]; intros lb W; [exact I|].
    destruct W as (W1 & W2 & W3). split; [lia|]. apply IH. eapply wf_weaken; [|eassumption]. lia. }
  pose proof (bisect_right_len v l). unfold bisect_bs.
  eapply bisect_bs_loop_correct; try eassumption; unfold range, rng in *; lia.
Qed.

(* ---------------------------------------------------------------- results are canonical whatever the operands *)
Lemma intersection_canonical fuel a b r : intersection fuel a b = Ok r -> canonical r.
Proof.
  unfold intersection. destruct (inter_loop fuel a b []); cbn [bind]; try discriminate.
  intros [= <-]. apply mk_canonical.
Qed.

Lemma difference_canonical fuel a b r : difference fuel a b = Ok r -> canonical r.
Proof.
  unfold difference. destruct (diff_loop fuel a b []); cbn [bind]; try discriminate.
  intros [= <-]. apply mk_canonical.
Qed.

Lemma symmetric_difference_canonical fuel a b r : symmetric_difference fuel a b = Ok r -> canonical r.
Proof.
  unfold symmetric_difference. destruct (difference fuel a b); cbn [bind]; try discriminate.
  destruct (difference fuel b a); cbn [bind]; try discriminate.
  intros [= <-]. apply union_canonical.
Qed.

Lemma intersection_denote fuel a b :
  canonical a -> canonical b -> (length a + length b < fuel)%nat ->
  exists r, intersection fuel a b = Ok r /\ forall z, denote r z <-> denote a z /\ denote b z.
Proof. intros Ha Hb Hf. destruct (intersection_correct fuel a b Ha Hb Hf) as (r & ? & _ & ?). eauto. Qed.

Lemma difference_denote fuel a b :
  canonical a -> canonical b -> (length a + length b < fuel)%nat ->
  exists r, difference fuel a b = Ok r /\ forall z, denote r z <-> denote a z /\ ~ denote b z.
Proof. intros Ha Hb Hf. destruct (difference_correct fuel a b Ha Hb Hf) as (r & ? & _ & ?). eauto. Qed.

Lemma symmetric_difference_denote fuel a b :
  canonical a -> canonical b -> (length a + length b < fuel)%nat ->
  exists r, symmetric_difference fuel a b = Ok r /\
            forall z, denote r z <-> (denote a z /\ ~ denote b z) \/ (denote b z /\ ~ denote a z).
Proof. intros Ha Hb Hf. destruct (symmetric_difference_correct fuel a b Ha Hb Hf) as (r & ? & _ & ?). eauto. Qed.

(* ---------------------------------------------------------------- constructor, stated on its arguments *)
Lemma ctor_denote_values vs z :
  denote (ctor vs) z <->
  exists v, In v vs /\ match v with IInt x => z = x | IRange a b => a <= z <= b end.
Proof.
  rewrite ctor_denote. unfold denote, in_range. split.
  - intros (r & Hr & Hz). apply in_map_iff in Hr. destruct Hr as (v & <- & Hv).
    exists v. split; [exact Hv|]. destruct v; cbn [to_range fst snd] in Hz; lia.
  - intros (v & Hv & Hz). exists (to_range v). split; [now apply in_map|].
    destruct v; cbn [to_range fst snd]; lia.
Qed.

(* a canonical list is a fixed point of the constructor: IntegerSet( *s.ranges) == s *)
Lemma mk_canonical_id rs : canonical rs -> mk rs = rs.
Proof.
  intros H. destruct (canonical_wf _ H) as (lb & W). destruct (mk_wf rs) as (lb' & W').
  eapply wf_unique; try eassumption. intros z. apply mk_mem.
Qed.
