(* Proofs/C18_refuted.v — witnesses against HexFile.check / HexFile.save as they were before fixes
   C18-1 and C18-2 (Model.Hexfile.check_orig, save_orig). *)
From PV Require Import Lib.Py Spec.IhexSpec Model.Hexfile.
From Coq Require Import String.
Open Scope Z_scope.

Definition r16 (a : Z) : region := (a, map (fun i => a + i) (rangeZ 0 16)).

(* add_region(0,16B); add_region(32,16B); add_region(16,16B): the bytes at 32..47 disappear *)
Lemma check_orig_loses_data : exists hf1 hf2 hf3,
  add_region_orig empty_hexfile 0 (snd (r16 0)) = Ok hf1 /\
  add_region_orig hf1 32 (snd (r16 32)) = Ok hf2 /\
  add_region_orig hf2 16 (snd (r16 16)) = Ok hf3 /\
  lookup [r16 0; r16 32; r16 16] 40 = Some 40 /\ lookup (regions hf3) 40 = None.
Proof.
  eexists. eexists. eexists. split; [vm_compute; reflexivity|].
  split; [vm_compute; reflexivity|]. split; [vm_compute; reflexivity|].
  split; vm_compute; reflexivity.
Qed.

(* the same as a statement about check_orig alone: the result is canonical but maps fewer bytes *)
Lemma check_orig_not_merging : exists rs rs' a x,
  check_orig rs = Ok rs' /\ holds rs a x /\ ~ holds rs' a x.
Proof.
  exists [r16 0; r16 32; r16 16]. eexists. exists 40, 40.
  split; [vm_compute; reflexivity|]. split.
  - exists (r16 32). split; [cbn; auto | vm_compute; reflexivity].
  - intros (b & Hin & Hb). cbn [In] in Hin. destruct Hin as [<-|[]]. vm_compute in Hb. discriminate.
Qed.

(* the start address is never written: reloading gives 0 *)
Lemma save_orig_drops_start : exists hf lines hf',
  save_orig hf = Ok lines /\ load lines = Ok hf' /\
  start_address hf = 4660 /\ start_address hf' = 0 /\
  (forall img, denote_file lines = Some img -> snd img = None).
Proof.
  exists (mkHexFile [(256, [97; 98; 99])] 4660). eexists. eexists.
  split; [vm_compute; reflexivity|]. split; [vm_compute; reflexivity|].
  split; [reflexivity|]. split; [reflexivity|].
  intros img H. vm_compute in H. injection H as <-. reflexivity.
Qed.
