(* Proofs/C08_tables.v — C08: reflected facts about the exported ISA tables (coq/Gen/Tab_isa_*.v). *)
From PV Require Import Lib.Py Model.Encode Proofs.C08_encode.
From PV Require Import Gen.Tab_isa_riscv.
From PV Require Import Gen.Tab_isa_riscv_rvc.
From PV Require Import Gen.Tab_isa_arm.
From PV Require Import Gen.Tab_isa_thumb.
From PV Require Import Gen.Tab_isa_x86_64.
From PV Require Import Gen.Tab_isa_msp430.
From PV Require Import Gen.Tab_isa_avr.
From PV Require Import Gen.Tab_isa_m68k.
From PV Require Import Gen.Tab_isa_mips.
From PV Require Import Gen.Tab_isa_or1k.
From PV Require Import Gen.Tab_isa_xtensa.
From PV Require Import Gen.Tab_isa_microblaze.
From Coq Require Import String.
Open Scope Z_scope.

(* what is established for one ISA table *)
Definition table_facts (table nonwf : list instr_desc) (ov : list (nat * nat)) : Prop :=
  (forall d, In d table -> wf_desc d = true) /\
  (forall d, In d nonwf -> wf_desc d = false) /\
  (forall i j, In (i, j) ov <->
     (i < j)%nat /\ exists d1 d2, nth_error table i = Some d1 /\ nth_error table j = Some d2 /\
        is_data d1 = false /\ is_data d2 = false /\ compatible d1 d2 = true).

Lemma table_facts_intro table nonwf ov :
  forallb wf_desc table = true -> forallb (fun d => negb (wf_desc d)) nonwf = true ->
  overlap_pairs table = ov -> table_facts table nonwf ov.
Proof.
  intros H1 H2 H3. split; [|split].
  - intros d Hd. rewrite forallb_forall in H1. auto.
  - intros d Hd. rewrite forallb_forall in H2. specialize (H2 d Hd). now destruct (wf_desc d).
  - intros i j. rewrite <- H3. apply overlap_pairs_spec.
Qed.

(* every in-range operand tuple of every table entry is recovered from the emitted bytes *)
Lemma table_decodable table nonwf ov : table_facts table nonwf ov ->
  forall d ops, In d table -> in_range d ops = true ->
  exists bytes, encode_instr d ops = Ok bytes /\ decode_fields d bytes = Ok ops /\ fixed_ok d bytes = true.
Proof. intros (H & _) d ops Hd Hr. apply decodable_gen; auto. Qed.

Lemma tables_riscv : table_facts table_riscv nonwf_riscv overlaps_riscv.
Proof. apply table_facts_intro; vm_compute; reflexivity. Qed.

Lemma tables_riscv_rvc : table_facts table_riscv_rvc nonwf_riscv_rvc overlaps_riscv_rvc.
Proof. apply table_facts_intro; vm_compute; reflexivity. Qed.

Lemma tables_arm : table_facts table_arm nonwf_arm overlaps_arm.
Proof. apply table_facts_intro; vm_compute; reflexivity. Qed.

Lemma tables_thumb : table_facts table_thumb nonwf_thumb overlaps_thumb.
Proof. apply table_facts_intro; vm_compute; reflexivity. Qed.

Lemma tables_x86_64 : table_facts table_x86_64 nonwf_x86_64 overlaps_x86_64.
Proof. apply table_facts_intro; vm_compute; reflexivity. Qed.

Lemma tables_msp430 : table_facts table_msp430 nonwf_msp430 overlaps_msp430.
Proof. apply table_facts_intro; vm_compute; reflexivity. Qed.

Lemma tables_avr : table_facts table_avr nonwf_avr overlaps_avr.
Proof. apply table_facts_intro; vm_compute; reflexivity. Qed.

Lemma tables_m68k : table_facts table_m68k nonwf_m68k overlaps_m68k.
Proof. apply table_facts_intro; vm_compute; reflexivity. Qed.

Lemma tables_mips : table_facts table_mips nonwf_mips overlaps_mips.
Proof. apply table_facts_intro; vm_compute; reflexivity. Qed.

Lemma tables_or1k : table_facts table_or1k nonwf_or1k overlaps_or1k.
Proof. apply table_facts_intro; vm_compute; reflexivity. Qed.

Lemma tables_xtensa : table_facts table_xtensa nonwf_xtensa overlaps_xtensa.
Proof. apply table_facts_intro; vm_compute; reflexivity. Qed.

Lemma tables_microblaze : table_facts table_microblaze nonwf_microblaze overlaps_microblaze.
Proof. apply table_facts_intro; vm_compute; reflexivity. Qed.
