(* Proofs/C16_rd_func.v — the function-level reader invariant FInv (built prefix = original prefix with the not
   yet registered operands hidden as placeholders, undefined_values covers exactly those), its preservation
   by every instruction (step_nodef / step_def, incl. forward-reference patching), by runs of instructions
   and by whole blocks. *)
From PV Require Import Lib.Py Lib.Tac Lib.Val Lib.Json Spec.IRSyntax Model.IrJson Proofs.C16_irjson.
From PV Require Import Proofs.C16_rd_scope Proofs.C16_rd_patch.
From Coq Require Import String Ascii.
Local Open Scope string_scope.
Local Open Scope list_scope.
Open Scope Z_scope.

Lemma plookup_in s p : plookup s p <> None <-> In s (map fst p).
Proof.
  induction p as [|[k v] p IH]; cbn.
  - split; [congruence | contradiction].
  - destruct (String.eqb_spec s k) as [->|N].
    + split; [now left | discriminate].
    + rewrite IH. split; [now right | intros [E|E]; [congruence|assumption]].
Qed.
Lemma premove_in s n p : In s (map fst (premove n p)) -> In s (map fst p).
Proof.
  induction p as [|[k v] p IH]; cbn; [contradiction|].
  destruct (String.eqb n k); cbn; [now right | intros [E|E]; [now left | right; now apply IH]].
Qed.
Lemma premove_nodup n p : NoDup (map fst p) -> NoDup (map fst (premove n p)) /\ ~ In n (map fst (premove n p)).
Proof.
  induction p as [|[k v] p IH]; cbn; intros H.
  - split; [constructor | tauto].
  - inversion H as [|? ? H1 H2]; subst. destruct (String.eqb_spec n k) as [->|N].
    + split; assumption.
    + destruct (IH H2) as [A B]. cbn. split.
      * constructor; [|assumption]. intros C. apply H1. now apply premove_in in C.
      * intros [E|E]; [congruence | contradiction].
Qed.
Lemma last_open g l : forallb (fun x => negb (is_terminator x)) l = true ->
  match List.rev (map g l) with x :: _ => is_terminator (g x) | [] => false end = false ->
  True.
Proof. trivial. Qed.
Lemma rev_head_in {A} (l : list A) x r : List.rev l = x :: r -> In x l.
Proof. intros H. apply in_rev. rewrite H. now left. Qed.

Section FunInv.
  Variable gn : list string.
  Variable f : func.
  Variable vt : list (string * ty).
  Notation wfr := (wfr gn f).
  Hypothesis ref_inj : forall r r', wfr r -> wfr r' -> ref_name f r = ref_name f r' -> r = r'.
  Hypothesis vt_loc : forall v, wfr (Loc v) -> plookup (ref_name f (Loc v)) vt = Some (vref_ty f (Loc v)).
  Hypothesis vt_glob : forall s, wfr (Glob s) -> plookup s vt = None.
  Hypothesis loc_notgn : forall v, wfr (Loc v) -> mem_str (ref_name f (Loc v)) gn = false.
  Variable fs : list func.     (* subroutines already added to the module (partially resolved) *)
  Hypothesis fs_glob : forall i s, In i (flat_map func_instrs fs) -> In (Unres s) (instr_uses i) -> mem_str s gn = true.
  Variable G : vmap.           (* the module scope while the subroutine is read *)

  Notation hide := (hide f).
  Definition hb next gk (k : block) : block := mapb (map_refs (hide next gk)) k.

  Record FInv (next : positive) (gk : list string) (bs : list block) (is : list instr) (st : rst) : Prop := {
    f_s : SInv gn f next gk st;
    f_next : rs_next st = next;
    f_funcs : rs_funcs st = fs;
    f_blocks : rs_blocks st = map (hb next gk) bs;
    f_ins : rs_ins st = map (map_refs (hide next gk)) is;
    f_cov : cov (rs_pend st) (all_built st);
    f_nodup : NoDup (map fst (rs_pend st));
    f_legit : forall s, In s (map fst (rs_pend st)) ->
              exists r, wfr r /\ ref_name f r = s /\ known next gk r = false;
    f_wf : forall i, In i (flat_map b_ins bs ++ is) -> Forall wfr (instr_uses i);
    f_glob : rs_glob st = G }.

  (* ---- addp / addps keep everything but undefined_values *)
  Lemma addp_fields next gk r st :
    rs_funcs (addp f next gk r st) = rs_funcs st /\ rs_blocks (addp f next gk r st) = rs_blocks st /\
    rs_ins (addp f next gk r st) = rs_ins st /\ rs_loc (addp f next gk r st) = rs_loc st /\
    rs_glob (addp f next gk r st) = rs_glob st /\ rs_infun (addp f next gk r st) = rs_infun st.
  Proof. unfold addp. destruct (known next gk r); [tauto|]. destruct (plookup _ _); cbn; tauto. Qed.
  Lemma addp_pend_mono next gk r st s : plookup s (rs_pend st) <> None -> plookup s (rs_pend (addp f next gk r st)) <> None.
  Proof.
    unfold addp. destruct (known next gk r); [tauto|]. destruct (plookup (ref_name f r) (rs_pend st)) eqn:P; [tauto|].
    cbn. destruct (String.eqb s (ref_name f r)); [discriminate | tauto].
  Qed.
  Lemma addp_covers next gk r st : known next gk r = false -> plookup (ref_name f r) (rs_pend (addp f next gk r st)) <> None.
  Proof.
    intros K. unfold addp. rewrite K. destruct (plookup (ref_name f r) (rs_pend st)) eqn:P; [congruence|].
    cbn. now rewrite String.eqb_refl.
  Qed.
  Lemma addps_fields next gk l : forall st,
    rs_funcs (addps f next gk l st) = rs_funcs st /\ rs_blocks (addps f next gk l st) = rs_blocks st /\
    rs_ins (addps f next gk l st) = rs_ins st /\ rs_loc (addps f next gk l st) = rs_loc st /\
    rs_glob (addps f next gk l st) = rs_glob st /\ rs_infun (addps f next gk l st) = rs_infun st.
  Proof.
    induction l as [|r l IH]; intros st; [tauto|]. rewrite addps_cons.
    destruct (IH (addp f next gk r st)) as (A & B & C & D & E & F).
    destruct (addp_fields next gk r st) as (A' & B' & C' & D' & E' & F'). repeat split; congruence.
  Qed.
  Lemma addps_pend_mono next gk l : forall st s, plookup s (rs_pend st) <> None -> plookup s (rs_pend (addps f next gk l st)) <> None.
  Proof. induction l as [|r l IH]; intros st s H; [assumption|]. rewrite addps_cons. apply IH. now apply addp_pend_mono. Qed.
  Lemma addps_covers next gk l : forall st r, In r l -> known next gk r = false ->
    plookup (ref_name f r) (rs_pend (addps f next gk l st)) <> None.
  Proof.
    induction l as [|x l IH]; intros st r Hin K; [contradiction|]. rewrite addps_cons. destruct Hin as [->|Hin].
    - apply addps_pend_mono. now apply addp_covers.
    - now apply IH.
  Qed.
  Lemma all_built_addps next gk l st : all_built (addps f next gk l st) = all_built st.
  Proof. unfold all_built. destruct (addps_fields next gk l st) as (A & B & C & _). now rewrite A, B, C. Qed.

  Lemma addp_FInv next gk bs is r st : FInv next gk bs is st -> wfr r -> FInv next gk bs is (addp f next gk r st).
  Proof.
    intros [I1 I2 I3 I4 I5 I6 I7 I8 I9 I10] Hr.
    destruct (addp_fields next gk r st) as (A & B & C & D & E & F).
    constructor; try congruence.
    - now apply addp_inv.
    - now rewrite addp_next.
    - intros i s Hi Hu. apply addp_pend_mono. apply (I6 i s); [|assumption].
      unfold all_built in *. now rewrite A, B, C in Hi.
    - unfold addp. destruct (known next gk r); [assumption|].
      destruct (plookup (ref_name f r) (rs_pend st)) eqn:P; [assumption|]. cbn. constructor; [|assumption].
      intros Hin. apply plookup_in in Hin. contradiction.
    - intros s Hs. unfold addp in Hs. destruct (known next gk r) eqn:K; [now apply I8|].
      destruct (plookup (ref_name f r) (rs_pend st)) eqn:P; [now apply I8|]. cbn in Hs. destruct Hs as [<-|Hs].
      + exists r. auto.
      + now apply I8.
    - assumption.
  Qed.
  Lemma addps_FInv next gk bs is l : forall st, FInv next gk bs is st -> Forall wfr l -> FInv next gk bs is (addps f next gk l st).
  Proof.
    induction l as [|r l IH]; intros st I Hl; [assumption|]. inversion Hl; subst. rewrite addps_cons.
    apply IH; [|assumption]. now apply addp_FInv.
  Qed.

  Lemma open_ok g l : forallb (fun x => negb (is_terminator x)) l = true ->
    negb (match List.rev (map (map_refs g) l) with x :: _ => is_terminator x | [] => false end) = true.
  Proof.
    intros H. destruct (List.rev (map (map_refs g) l)) as [|x r] eqn:E; [reflexivity|].
    apply rev_head_in in E. apply in_map_iff in E. destruct E as (y & <- & Hy).
    rewrite term_map_refs. rewrite forallb_forall in H. now apply H.
  Qed.
  Lemma open_ok' g h l : forallb (fun x => negb (is_terminator x)) l = true ->
    negb (match List.rev (map (fun x => map_refs g (map_refs h x)) l) with x :: _ => is_terminator x | [] => false end) = true.
  Proof.
    intros H. destruct (List.rev _) as [|x r] eqn:E; [reflexivity|].
    apply rev_head_in in E. apply in_map_iff in E. destruct E as (y & <- & Hy).
    rewrite !term_map_refs. rewrite forallb_forall in H. now apply H.
  Qed.
  Lemma nodef_phi i : instr_def i = None -> phi_blocks i = [].
  Proof. destruct i; cbn; congruence. Qed.

  Lemma SInv_fields next gk st st' :
    rs_infun st' = rs_infun st -> rs_loc st' = rs_loc st -> rs_glob st' = rs_glob st -> rs_pend st' = rs_pend st ->
    SInv gn f next gk st -> SInv gn f next gk st'.
  Proof.
    intros A B C D [I1 I2 I3 I4]. constructor; unfold slook in *; rewrite ?A, ?B, ?C, ?D; assumption.
  Qed.

  Lemma step_nodef next gk bs is st i j :
    FInv next gk bs is st -> instr_def i = None ->
    Forall wfr (instr_uses i) -> ctor_ok_instr f i = true ->
    (forall b, In b (instr_targets i) -> blookup (block_name f b) (rs_bmap st) = Some b) ->
    forallb (fun x => negb (is_terminator x)) is = true ->
    write_instruction cfg_fixed f i = Ok j ->
    exists st', construct_instruction cfg_fixed vt j st = Ok st' /\ FInv next gk bs (is ++ [i]) st' /\
                rs_bmap st' = rs_bmap st.
  Proof.
    intros I Hd Hu Hc Hb Ho Hw.
    rewrite (read_instr gn f vt ref_inj vt_loc vt_glob next gk st i j); try assumption.
    2: exact (f_s _ _ _ _ _ I).
    2: { intros b Hin. rewrite (nodef_phi i Hd), app_nil_r in Hin. now apply Hb. }
    2: { now rewrite (nodef_phi i Hd). }
    2: { intros v n t E. congruence. }
    unfold fin. rewrite def_map_refs, Hd. unfold add_instruction.
    pose proof (addps_FInv next gk bs is (instr_uses i) st I Hu) as I1.
    set (st1 := addps f next gk (instr_uses i) st) in *.
    rewrite (f_ins _ _ _ _ _ I1). rewrite open_ok by assumption. cbn [check bind].
    rewrite def_map_refs, Hd. cbn [check bind].
    eexists. split; [reflexivity|]. split.
    - destruct I1 as [J1 J2 J3 J4 J5 J6 J7 J8 J9 J10]. constructor; cbn; try assumption.
      + eapply SInv_fields; [..|exact J1]; reflexivity.
      + rewrite map_app. cbn [map]. now rewrite <- J5.
      + intros x s Hx Hs. unfold all_built in Hx. cbn in Hx.
        rewrite !in_app_iff in Hx. destruct Hx as [Hx|[Hx|Hx]];
          try (apply (J6 x s); [unfold all_built; rewrite !in_app_iff; tauto | assumption]).
        destruct Hx as [Hx|[<-|[]]].
        * apply (J6 x s); [unfold all_built; rewrite J5, !in_app_iff; tauto | assumption].
        * rewrite uses_map_refs in Hs. apply in_map_iff in Hs. destruct Hs as (r & Hr & Hin).
          unfold C16_rd_scope.hide in Hr. destruct (known next gk r) eqn:K.
          -- subst r. rewrite Forall_forall in Hu. now apply Hu, wfr_not_unres in Hin.
          -- inversion Hr; subst s. now apply addps_covers.
      + intros x Hx. rewrite app_assoc in Hx. rewrite in_app_iff in Hx. destruct Hx as [Hx|[<-|[]]]; [now apply J9 | assumption].
    - unfold st1. apply addps_bmap.
  Qed.

  Lemma known_succ next gk r : known next gk r = true -> known (Pos.succ next) gk r = true.
  Proof. destruct r; cbn; auto. rewrite !Pos.ltb_lt. lia. Qed.
  Lemma unknown_succ next gk r : known next gk r = false -> r <> Loc next -> known (Pos.succ next) gk r = false.
  Proof.
    destruct r; cbn; auto. rewrite !Pos.ltb_ge. intros H N. assert (v <> next) by congruence. lia.
  Qed.

  Lemma sub1_hide next gk n r :
    wfr (Loc next) -> ref_name f (Loc next) = n -> wfr r ->
    sub1 n (Loc next) (hide next gk r) = hide (Pos.succ next) gk r.
  Proof.
    intros Hl Hn Hr. unfold C16_rd_scope.hide. destruct (known next gk r) eqn:K.
    - rewrite (known_succ _ _ _ K). unfold sub1, is_old. destruct r; try reflexivity. now apply wfr_not_unres in Hr.
    - unfold sub1, is_old. destruct (String.eqb_spec (ref_name f r) n) as [E|E].
      + rewrite <- Hn in E. apply ref_inj in E; try assumption. subst r. cbn. now rewrite (proj2 (Pos.ltb_lt _ _) (Pos.lt_succ_diag_r next)).
      + rewrite unknown_succ; [reflexivity | assumption |]. intros ->. congruence.
  Qed.
  Lemma sub1_hide_instr next gk n i :
    wfr (Loc next) -> ref_name f (Loc next) = n -> Forall wfr (instr_uses i) ->
    map_refs (sub1 n (Loc next)) (map_refs (hide next gk) i) = map_refs (hide (Pos.succ next) gk) i.
  Proof.
    intros Hl Hn Hu. rewrite map_refs_comp. apply map_refs_ext. intros r Hr.
    rewrite Forall_forall in Hu. now apply sub1_hide; auto.
  Qed.
  Lemma plookup_premove_same n p : NoDup (map fst p) -> plookup n (premove n p) = None.
  Proof.
    intros H. destruct (premove_nodup n p H) as [_ B].
    destruct (plookup n (premove n p)) eqn:E; [|reflexivity]. exfalso. apply B. apply plookup_in. congruence.
  Qed.
  Lemma fs_fixed n r : mem_str n gn = false -> map (mapf (map_refs (sub1 n r))) fs = fs.
  Proof.
    intros Hn. apply map_id_in. intros g Hg. destruct g as [a b c d bl]. unfold mapf. cbn. f_equal.
    apply map_id_in. intros k Hk. destruct k as [bi bn ins]. unfold mapb. cbn. f_equal.
    apply map_id_in. intros i Hi. apply sub1_absent. intros Hu.
    assert (mem_str n gn = true); [|congruence].
    apply (fs_glob i n); [|assumption]. apply in_flat_map. exists (mk_func a b c d bl). split; [assumption|].
    unfold func_instrs. cbn. apply in_flat_map. exists (mk_block bi bn ins). now split.
  Qed.

  Lemma step_def next gk bs is st i j n t :
    FInv next gk bs is st -> instr_def i = Some (next, n, t) ->
    wfr (Loc next) -> ref_name f (Loc next) = n -> vref_ty f (Loc next) = t ->
    mem_str n (map b_name bs) = false ->
    Forall wfr (instr_uses i) -> ctor_ok_instr f i = true ->
    (forall b, In b (phi_blocks i) -> blookup (block_name f b) (rs_bmap st) = Some b) ->
    nodup_pos (phi_blocks i) = true ->
    forallb (fun x => negb (is_terminator x)) is = true ->
    write_instruction cfg_fixed f i = Ok j ->
    exists st', construct_instruction cfg_fixed vt j st = Ok st' /\ FInv (Pos.succ next) gk bs (is ++ [i]) st' /\
                rs_bmap st' = rs_bmap st.
  Proof.
    intros I Hd Hl Hn Ht Hbn Hu Hc Hb Hnd Ho Hw.
    assert (Htg : instr_targets i = []) by (destruct i; cbn in Hd; try discriminate; reflexivity).
    rewrite (read_instr gn f vt ref_inj vt_loc vt_glob next gk st i j); try assumption.
    2: exact (f_s _ _ _ _ _ I).
    2: { intros b Hin. rewrite Htg in Hin. now apply Hb. }
    2: { intros v n' t' E. rewrite Hd in E. inversion E; subst. symmetry. exact (f_next _ _ _ _ _ I). }
    unfold fin. rewrite def_map_refs, Hd. unfold finish_value. rewrite def_map_refs, Hd.
    pose proof (addps_FInv next gk bs is (instr_uses i) st I Hu) as I1.
    assert (Hbm : rs_bmap (addps f next gk (instr_uses i) st) = rs_bmap st) by apply addps_bmap.
    set (st1 := addps f next gk (instr_uses i) st) in *.
    set (i' := map_refs (hide next gk) i).
    destruct I1 as [J1 J2 J3 J4 J5 J6 J7 J8 J9 J10].
    assert (Kn : known next gk (Loc next) = false) by (cbn; apply Pos.ltb_irrefl).
    assert (Cself : cov (rs_pend st1) (all_built st1 ++ [i'])).
    { intros x s Hx Hs. rewrite in_app_iff in Hx. destruct Hx as [Hx|[<-|[]]]; [now apply (J6 x s)|].
      unfold i' in Hs. rewrite uses_map_refs in Hs. apply in_map_iff in Hs. destruct Hs as (r & Hr & Hin).
      unfold C16_rd_scope.hide in Hr. destruct (known next gk r) eqn:K.
      - subst r. rewrite Forall_forall in Hu. now apply Hu, wfr_not_unres in Hin.
      - inversion Hr; subst s. now apply addps_covers. }
    assert (Vn : vlookup n (rs_loc st1) = None).
    { pose proof (si_unknown _ _ _ _ _ J1 (Loc next) Hl Kn) as L. rewrite Hn in L. unfold slook in L.
      destruct (vlookup n (rs_loc st1)); [discriminate | reflexivity]. }
    rewrite (register_spec n (Loc next) t (Some i') st1); [| exact Cself | now rewrite (si_infun _ _ _ _ _ J1)].
    cbn [bind option_map]. unfold add_instruction, with_next, reg_state. cbn [rs_ins rs_blocks].
    rewrite (si_infun _ _ _ _ _ J1). rewrite J5, J4, J3.
    rewrite map_map. rewrite open_ok' by assumption. cbn [check bind].
    rewrite def_map_refs. unfold i'. rewrite def_map_refs, Hd. cbn [def_name fst snd].
    replace (block_names_of (map (mapb (map_refs (sub1 n (Loc next)))) (map (hb next gk) bs))) with (map b_name bs)
      by (unfold block_names_of; rewrite !map_map; reflexivity).
    rewrite Hbn. cbn [negb check bind].
    eexists. split; [reflexivity|]. split; [|cbn; exact Hbm].
    assert (Hng : mem_str n gn = false) by (rewrite <- Hn; now apply loc_notgn).
    assert (Ebs : map (mapb (map_refs (sub1 n (Loc next)))) (map (hb next gk) bs) = map (hb (Pos.succ next) gk) bs).
    { rewrite map_map. apply map_ext_in. intros k Hk. destruct k as [bi bnm ins]. unfold hb, mapb. cbn. f_equal.
      rewrite map_map. apply map_ext_in. intros x Hx. apply sub1_hide_instr; try assumption.
      apply J9. apply in_or_app. left. apply in_flat_map. exists (mk_block bi bnm ins). now split. }
    assert (Eis : map (fun x => map_refs (sub1 n (Loc next)) (map_refs (hide next gk) x)) is
                  = map (map_refs (hide (Pos.succ next) gk)) is).
    { apply map_ext_in. intros x Hx. apply sub1_hide_instr; try assumption. apply J9. apply in_or_app. now right. }
    assert (Ei : map_refs (sub1 n (Loc next)) (map_refs (hide next gk) i) = map_refs (hide (Pos.succ next) gk) i)
      by (now apply sub1_hide_instr).
    constructor; cbn [rs_next rs_funcs rs_blocks rs_ins rs_pend].
    - (* SInv *)
      destruct J1 as [S1 S2 S3 S4]. constructor; unfold slook in *; cbn [rs_infun rs_loc rs_glob rs_pend vlookup].
      + reflexivity.
      + intros r Hr K. destruct (String.eqb_spec (ref_name f r) n) as [E|E].
        * rewrite <- Hn in E. apply ref_inj in E; try assumption. subst r. now rewrite Ht.
        * apply S2; [assumption|]. destruct (known next gk r) eqn:K0; [reflexivity|].
          rewrite unknown_succ in K; [discriminate | assumption |]. intros ->. congruence.
      + intros r Hr K. destruct (String.eqb_spec (ref_name f r) n) as [E|E].
        * rewrite <- Hn in E. apply ref_inj in E; try assumption. subst r. cbn in K.
          rewrite (proj2 (Pos.ltb_lt _ _) (Pos.lt_succ_diag_r next)) in K. discriminate.
        * apply S3; [assumption|]. destruct (known next gk r) eqn:K0; [|reflexivity].
          now rewrite (known_succ _ _ _ K0) in K.
      + intros r t' Hr P. destruct (String.eqb_spec (ref_name f r) n) as [E|E].
        * rewrite E, plookup_premove_same in P by assumption. discriminate.
        * rewrite plookup_premove_other in P by assumption. now apply S4.
    - now rewrite J2.
    - now apply fs_fixed.
    - exact Ebs.
    - rewrite map_app. cbn [map]. now rewrite Eis, Ei.
    - (* cov *)
      intros x s Hx Hs. unfold all_built in Hx. cbn [rs_funcs rs_blocks rs_ins] in Hx.
      assert (Hsn : s <> n).
      { intros ->. rewrite !in_app_iff in Hx.
        assert (A : forall y, In (Unres n) (instr_uses (map_refs (sub1 n (Loc next)) y)) -> False).
        { intros y Hy. rewrite uses_map_refs in Hy. apply in_map_iff in Hy. destruct Hy as (r & Hr & _).
          unfold sub1, is_old in Hr. destruct r; try discriminate.
          destruct (String.eqb_spec name n); [discriminate | congruence]. }
        destruct Hx as [Hx|[Hx|[Hx|[<-|[]]]]].
        - apply in_flat_map in Hx. destruct Hx as (g & Hg & Hx). apply in_map_iff in Hg. destruct Hg as (g0 & <- & _).
          unfold func_instrs, mapf in Hx. cbn in Hx. apply in_flat_map in Hx. destruct Hx as (k & Hk & Hx).
          apply in_map_iff in Hk. destruct Hk as (k0 & <- & _). cbn in Hx. apply in_map_iff in Hx.
          destruct Hx as (y & <- & _). now apply A in Hs.
        - apply in_flat_map in Hx. destruct Hx as (k & Hk & Hx). apply in_map_iff in Hk. destruct Hk as (k0 & <- & _).
          cbn in Hx. apply in_map_iff in Hx. destruct Hx as (y & <- & _). now apply A in Hs.
        - apply in_map_iff in Hx. destruct Hx as (y & <- & _). now apply A in Hs.
        - now apply A in Hs. }
      rewrite plookup_premove_other by assumption.
      assert (B : forall y, In y (all_built st1 ++ [i']) -> In (Unres s) (instr_uses (map_refs (sub1 n (Loc next)) y)) ->
                  plookup s (rs_pend st1) <> None).
      { intros y Hy Hu'. apply (Cself y s Hy). rewrite uses_map_refs in Hu'. apply in_map_iff in Hu'.
        destruct Hu' as (r & Hr & Hin). unfold sub1 in Hr. destruct (is_old n r); [discriminate|]. rewrite <- Hr. exact Hin. }
      rewrite !in_app_iff in Hx. destruct Hx as [Hx|[Hx|[Hx|[<-|[]]]]].
      + apply in_flat_map in Hx. destruct Hx as (g & Hg & Hx). apply in_map_iff in Hg. destruct Hg as (g0 & <- & Hg0).
        unfold func_instrs, mapf in Hx. cbn in Hx. apply in_flat_map in Hx. destruct Hx as (k & Hk & Hx).
        apply in_map_iff in Hk. destruct Hk as (k0 & <- & Hk0). cbn in Hx. apply in_map_iff in Hx.
        destruct Hx as (y & <- & Hy). apply (B y); [|assumption]. apply in_or_app. left. unfold all_built.
        apply in_or_app. left. rewrite J3. apply in_flat_map. exists g0. split; [assumption|].
        unfold func_instrs. apply in_flat_map. exists k0. now split.
      + apply in_flat_map in Hx. destruct Hx as (k & Hk & Hx). apply in_map_iff in Hk. destruct Hk as (k0 & <- & Hk0).
        cbn in Hx. apply in_map_iff in Hx. destruct Hx as (y & <- & Hy). apply (B y); [|assumption].
        apply in_or_app. left. unfold all_built. apply in_or_app. right. apply in_or_app. left. rewrite J4.
        apply in_flat_map. exists k0. now split.
      + apply in_map_iff in Hx. destruct Hx as (y & <- & Hy). apply (B (map_refs (hide next gk) y)); [|assumption].
        apply in_or_app. left. unfold all_built. apply in_or_app. right. apply in_or_app. right. rewrite J5.
        now apply in_map.
      + apply (B i'); [|assumption]. apply in_or_app. right. now left.
    - now apply premove_nodup.
    - intros s Hs. destruct (premove_nodup n _ J7) as [_ Nn].
      assert (s <> n) by (intros ->; contradiction).
      apply premove_in in Hs. destruct (J8 s Hs) as (r & Hr & Er & Kr). exists r. repeat split; try assumption.
      apply unknown_succ; [assumption|]. intros ->. congruence.
    - intros x Hx. rewrite app_assoc in Hx. rewrite in_app_iff in Hx. destruct Hx as [Hx|[<-|[]]]; [now apply J9 | assumption].
    - cbn. exact J10.
  Qed.

  (* ---- a run of instructions of one block.  [seq_ok bm bs is next l next']: the instructions l, read
     after the prefix is of the current block (completed blocks bs), are locally well-formed; value ids
     continue at next and end at next'. *)
  Variable bm : list (string * bid).
  Inductive seq_ok (bs : list block) : list instr -> positive -> list instr -> positive -> Prop :=
  | so_nil is next : seq_ok bs is next [] next
  | so_nodef is next i l next' :
      instr_def i = None -> Forall wfr (instr_uses i) -> ctor_ok_instr f i = true ->
      (forall b, In b (instr_targets i) -> blookup (block_name f b) bm = Some b) ->
      forallb (fun x => negb (is_terminator x)) is = true ->
      seq_ok bs (is ++ [i]) next l next' -> seq_ok bs is next (i :: l) next'
  | so_def is next i n t l next' :
      instr_def i = Some (next, n, t) ->
      wfr (Loc next) -> ref_name f (Loc next) = n -> vref_ty f (Loc next) = t ->
      mem_str n (map b_name bs) = false ->
      Forall wfr (instr_uses i) -> ctor_ok_instr f i = true ->
      (forall b, In b (phi_blocks i) -> blookup (block_name f b) bm = Some b) ->
      nodup_pos (phi_blocks i) = true ->
      forallb (fun x => negb (is_terminator x)) is = true ->
      seq_ok bs (is ++ [i]) (Pos.succ next) l next' -> seq_ok bs is next (i :: l) next'.

  Lemma instrs_fold gk bs is next l next' :
    seq_ok bs is next l next' -> forall st js,
    FInv next gk bs is st -> rs_bmap st = bm ->
    mapM (write_instruction cfg_fixed f) l = Ok js ->
    exists st', construct_instructions cfg_fixed vt js st = Ok st' /\ FInv next' gk bs (is ++ l) st' /\ rs_bmap st' = bm.
  Proof.
    induction 1 as [is next | is next i l next' Hd Hu Hc Hb Ho Hs IH | is next i n t l next' Hd Hl Hn Ht Hbn Hu Hc Hb Hnd Ho Hs IH];
      intros st js I Hbm Hw.
    - cbn in Hw. inversion Hw; subst js. exists st. rewrite app_nil_r. split; [reflexivity|]. split; assumption.
    - cbn [mapM] in Hw. destruct (write_instruction cfg_fixed f i) as [j| | |] eqn:Wi; try discriminate.
      cbn [bind] in Hw. destruct (mapM _ l) as [js'| | |] eqn:Wl; try discriminate. inversion Hw; subst js.
      destruct (step_nodef next gk bs is st i j I Hd Hu Hc) as (st1 & E1 & I1 & B1); try assumption.
      { intros b Hin. rewrite Hbm. now apply Hb. }
      destruct (IH st1 js' I1) as (st2 & E2 & I2 & B2); [congruence | reflexivity |].
      exists st2. cbn [construct_instructions]. rewrite E1. cbn [bind]. rewrite <- app_assoc in I2. split; [assumption|]. split; assumption.
    - cbn [mapM] in Hw. destruct (write_instruction cfg_fixed f i) as [j| | |] eqn:Wi; try discriminate.
      cbn [bind] in Hw. destruct (mapM _ l) as [js'| | |] eqn:Wl; try discriminate. inversion Hw; subst js.
      destruct (step_def next gk bs is st i j n t I Hd Hl Hn Ht Hbn Hu Hc) as (st1 & E1 & I1 & B1); try assumption.
      { intros b Hin. rewrite Hbm. now apply Hb. }
      destruct (IH st1 js' I1) as (st2 & E2 & I2 & B2); [congruence | reflexivity |].
      exists st2. cbn [construct_instructions]. rewrite E1. cbn [bind]. rewrite <- app_assoc in I2. split; [assumption|]. split; assumption.
  Qed.

  Lemma instrs_defs_map g l : instrs_defs (map (map_refs g) l) = instrs_defs l.
  Proof.
    unfold instrs_defs. induction l as [|x l IH]; [reflexivity|]. cbn [map flat_map]. now rewrite def_map_refs, IH.
  Qed.
  Lemma flat_map_mapb h bs : flat_map b_ins (map (mapb h) bs) = map h (flat_map b_ins bs).
  Proof. induction bs as [|k bs IH]; [reflexivity|]. cbn [map flat_map]. rewrite map_app, IH. reflexivity. Qed.

  (* ---- one block: DictReader.construct_block + SubRoutine.add_block *)
  Lemma block_read gk bs k next next' st j :
    seq_ok bs [] next (b_ins k) next' ->
    FInv next gk bs [] st -> rs_bmap st = bm ->
    blookup (b_name k) bm = Some (b_id k) ->
    mem_str (b_name k) (map b_name bs ++ map def_name (instrs_defs (flat_map b_ins bs ++ b_ins k))) = false ->
    write_block cfg_fixed f k = Ok j ->
    exists st', construct_block cfg_fixed vt j st = Ok st' /\ FInv next' gk (bs ++ [k]) [] st' /\ rs_bmap st' = bm.
  Proof.
    intros Hs I Hbm Hbk Hnm Hw. unfold write_block in Hw.
    destruct (mapM (write_instruction cfg_fixed f) (b_ins k)) as [js| | |] eqn:Wl; try discriminate.
    cbn [bind] in Hw. inversion Hw; subst j. clear Hw.
    unfold construct_block, jstr. cbn [jget jlookup String.eqb Ascii.eqb Bool.eqb bind as_str as_list].
    unfold get_block_ref. rewrite <- Hbm in Hbk. rewrite Hbk. cbn [bind].
    assert (I0 : FInv next gk bs [] (mk_rst (rs_glob st) (rs_loc st) (rs_infun st) (rs_pend st) (rs_next st)
                                            (rs_bmap st) (rs_funcs st) (rs_blocks st) [])).
    { destruct I as [J1 J2 J3 J4 J5 J6 J7 J8 J9 J10]. cbn [map] in J5. constructor; cbn; try assumption.
      - eapply SInv_fields; [..|exact J1]; reflexivity.
      - reflexivity.
      - intros x s Hx. apply (J6 x s). unfold all_built in *. cbn in Hx. now rewrite J5. }
    destruct (instrs_fold gk bs [] next (b_ins k) next' Hs _ js I0) as (st1 & E1 & I1 & B1); [exact Hbm | exact Wl |].
    rewrite E1. cbn [bind]. cbn [app] in I1.
    destruct I1 as [J1 J2 J3 J4 J5 J6 J7 J8 J9 J10].
    assert (Enames : block_names_of (rs_blocks st1) ++ map def_name (instrs_defs (flat_map b_ins (rs_blocks st1) ++ rs_ins st1))
                     = map b_name bs ++ map def_name (instrs_defs (flat_map b_ins bs ++ b_ins k))).
    { rewrite J4, J5. unfold block_names_of, hb. rewrite flat_map_mapb, <- map_app, instrs_defs_map.
      rewrite map_map. reflexivity. }
    rewrite Enames, Hnm. cbn [negb check bind].
    eexists. split; [reflexivity|]. split; [|exact B1].
    constructor; cbn; try assumption.
    - eapply SInv_fields; [..|exact J1]; reflexivity.
    - rewrite J4, J5, map_app. cbn [map]. unfold hb at 3, mapb. now destruct k.
    - reflexivity.
    - intros x s Hx. apply (J6 x s). unfold all_built in *. cbn in Hx. rewrite flat_map_app in Hx. cbn in Hx.
      rewrite !app_nil_r in Hx. exact Hx.
    - intros x Hx. apply J9. rewrite app_nil_r in Hx. rewrite flat_map_app in Hx. cbn in Hx. now rewrite app_nil_r in Hx.
  Qed.
End FunInv.

(* ---- packaged statements (used by Props/C16.v) *)
Record fun_ctx (gn : list string) (f : func) (vt : list (string * ty)) (fs : list func) : Prop := {
  (* inside f, value names identify values: parameters, values of f and module-level names are distinct *)
  fc_inj : forall r r', wfr gn f r -> wfr gn f r' -> ref_name f r = ref_name f r' -> r = r';
  (* vt = the pre-scan of f's JSON (fix C16-5): name of every value of f -> its type, no module-level names *)
  fc_vt_loc : forall v, wfr gn f (Loc v) -> plookup (ref_name f (Loc v)) vt = Some (vref_ty f (Loc v));
  fc_vt_glob : forall s, wfr gn f (Glob s) -> plookup s vt = None;
  fc_notgn : forall v, wfr gn f (Loc v) -> mem_str (ref_name f (Loc v)) gn = false;
  (* placeholders left in the subroutines read before f stand for module-level names only *)
  fc_fs : forall i s, In i (flat_map func_instrs fs) -> In (Unres s) (instr_uses i) -> mem_str s gn = true }.

Lemma instr_roundtrip gn f vt fs next gk st i j :
  fun_ctx gn f vt fs -> SInv gn f next gk st ->
  Forall (wfr gn f) (instr_uses i) -> ctor_ok_instr f i = true ->
  (forall b, In b (instr_targets i ++ phi_blocks i) -> blookup (block_name f b) (rs_bmap st) = Some b) ->
  nodup_pos (phi_blocks i) = true ->
  (forall v n t, instr_def i = Some (v, n, t) -> v = rs_next st) ->
  write_instruction cfg_fixed f i = Ok j ->
  construct_instruction cfg_fixed vt j st = fin (map_refs (hide f next gk) i) (addps f next gk (instr_uses i) st).
Proof. intros [A B C D E]. now apply read_instr. Qed.

Lemma instr_step_nodef gn f vt fs G next gk bs is st i j :
  fun_ctx gn f vt fs -> FInv gn f fs G next gk bs is st -> instr_def i = None ->
  Forall (wfr gn f) (instr_uses i) -> ctor_ok_instr f i = true ->
  (forall b, In b (instr_targets i) -> blookup (block_name f b) (rs_bmap st) = Some b) ->
  forallb (fun x => negb (is_terminator x)) is = true ->
  write_instruction cfg_fixed f i = Ok j ->
  exists st', construct_instruction cfg_fixed vt j st = Ok st' /\ FInv gn f fs G next gk bs (is ++ [i]) st' /\
              rs_bmap st' = rs_bmap st.
Proof. intros [A B C D E]. now apply step_nodef. Qed.

Lemma instr_step_def gn f vt fs G next gk bs is st i j n t :
  fun_ctx gn f vt fs -> FInv gn f fs G next gk bs is st -> instr_def i = Some (next, n, t) ->
  wfr gn f (Loc next) -> ref_name f (Loc next) = n -> vref_ty f (Loc next) = t ->
  mem_str n (map b_name bs) = false ->
  Forall (wfr gn f) (instr_uses i) -> ctor_ok_instr f i = true ->
  (forall b, In b (phi_blocks i) -> blookup (block_name f b) (rs_bmap st) = Some b) ->
  nodup_pos (phi_blocks i) = true ->
  forallb (fun x => negb (is_terminator x)) is = true ->
  write_instruction cfg_fixed f i = Ok j ->
  exists st', construct_instruction cfg_fixed vt j st = Ok st' /\
              FInv gn f fs G (Pos.succ next) gk bs (is ++ [i]) st' /\ rs_bmap st' = rs_bmap st.
Proof. intros [A B C D E]. now apply step_def. Qed.

Lemma block_roundtrip gn f vt fs G bm gk bs k next next' st j :
  fun_ctx gn f vt fs ->
  seq_ok gn f bm bs [] next (b_ins k) next' ->
  FInv gn f fs G next gk bs [] st -> rs_bmap st = bm ->
  blookup (b_name k) bm = Some (b_id k) ->
  mem_str (b_name k) (map b_name bs ++ map def_name (instrs_defs (flat_map b_ins bs ++ b_ins k))) = false ->
  write_block cfg_fixed f k = Ok j ->
  exists st', construct_block cfg_fixed vt j st = Ok st' /\ FInv gn f fs G next' gk (bs ++ [k]) [] st' /\
              rs_bmap st' = bm.
Proof. intros [A B C D E]. now apply block_read. Qed.

(* non-vacuity: the hypotheses of the reader lemmas hold for the function of the forward-operand witness *)
Definition nv_f : func := mk_func "pr" BGlobal None [] (fwd I32 [IUnop 1 "y" I32 Neg (Loc 2)]).
Definition nv_gn : list string := ["pr"].
Definition nv_vt : list (string * ty) := [("y", I32); ("x", I32)].
Definition nv_bm := number_blocks 1 ["entry"; "b1"; "b2"].
Definition nv_G : vmap := [("pr", (Glob "pr", Ptr))].
Definition nv_st : rst := mk_rst [("pr", (Glob "pr", Ptr))] [] true [] 1 nv_bm [] [] [].

Lemma nv_wfr r : wfr nv_gn nv_f r -> r = Loc 1 \/ r = Loc 2 \/ r = Glob "pr".
Proof.
  unfold wfr. destruct r as [v|n|s|s]; intros H.
  - change (mem_pos v (1%positive :: 2%positive :: nil) = true) in H. cbn [mem_pos] in H.
    destruct (Pos.eq_dec v 1%positive) as [E|E]; [subst; now left|].
    destruct (Pos.eq_dec v 2%positive) as [E2|E2]; [subst; right; now left|].
    rewrite (proj2 (Pos.eqb_neq _ _) E), (proj2 (Pos.eqb_neq _ _) E2) in H. discriminate.
  - change (Nat.ltb n 0 = true) in H. destruct n; discriminate.
  - change (mem_str s ["pr"] = true) in H. cbn [mem_str] in H.
    destruct (string_dec s "pr") as [E|E]; [subst; right; now right|].
    rewrite (proj2 (String.eqb_neq _ _) E) in H. discriminate.
  - discriminate.
Qed.
Lemma nv_ctx : fun_ctx nv_gn nv_f nv_vt [].
Proof.
  constructor.
  - intros r r' H H'. apply nv_wfr in H. apply nv_wfr in H'.
    destruct H as [->|[->| ->]], H' as [->|[->| ->]]; cbn; intros E; try reflexivity; discriminate.
  - intros v H. apply nv_wfr in H. destruct H as [H|[H|H]]; inversion H; subst; reflexivity.
  - intros s H. apply nv_wfr in H. destruct H as [H|[H|H]]; inversion H; subst; reflexivity.
  - intros v H. apply nv_wfr in H. destruct H as [H|[H|H]]; inversion H; subst; reflexivity.
  - intros i s [].
Qed.
Lemma nv_sinv : SInv nv_gn nv_f 1 nv_gn nv_st.
Proof.
  constructor.
  - reflexivity.
  - intros r H K. apply nv_wfr in H. destruct H as [->|[->| ->]]; try discriminate. reflexivity.
  - intros r H K. apply nv_wfr in H. destruct H as [->|[->| ->]]; try discriminate; reflexivity.
  - intros r t H P. discriminate.
Qed.
Lemma nv_finv : FInv nv_gn nv_f [] nv_G 1 nv_gn [] [] nv_st.
Proof.
  constructor; try reflexivity.
  - exact nv_sinv.
  - intros i s [].
  - constructor.
  - intros s [].
  - intros i [].
Qed.
Definition nv_j1 : json := (JObj [("name", JStr "entry"); ("instructions", JList [JObj [("kind", JStr "jump"); ("target", JStr "b2")]])]).
Definition nv_j2 : json := (JObj [("name", JStr "b1"); ("instructions", JList [
                 JObj [("kind", JStr "unop"); ("name", JStr "y"); ("type", write_type I32); ("a", JStr "x"); ("operation", JStr "-")];
                 JObj [("kind", JStr "exit")]])]).
(* the first two blocks (the second one uses x before its definition) are read back, leaving x pending *)
Lemma nv_blocks : exists j1 j2 st1 st2,
  write_block cfg_fixed nv_f (mk_block 1 "entry" [IJump 3]) = Ok j1 /\
  construct_block cfg_fixed nv_vt j1 nv_st = Ok st1 /\
  write_block cfg_fixed nv_f (mk_block 2 "b1" [IUnop 1 "y" I32 Neg (Loc 2); IExit]) = Ok j2 /\
  construct_block cfg_fixed nv_vt j2 st1 = Ok st2 /\
  FInv nv_gn nv_f [] nv_G 2 nv_gn [mk_block 1 "entry" [IJump 3]; mk_block 2 "b1" [IUnop 1 "y" I32 Neg (Loc 2); IExit]] [] st2 /\
  rs_pend st2 = [("x", I32)].
Proof.
  destruct (block_roundtrip nv_gn nv_f nv_vt [] nv_G nv_bm nv_gn [] (mk_block 1 "entry" [IJump 3]) 1 1 nv_st
              nv_j1)
    as (st1 & E1 & I1 & B1); try reflexivity; try exact nv_ctx; try exact nv_finv.
  { apply so_nodef; try reflexivity; [constructor | | constructor].
    intros b [<-|[]]. reflexivity. }

  destruct (block_roundtrip nv_gn nv_f nv_vt [] nv_G nv_bm nv_gn [mk_block 1 "entry" [IJump 3]]
              (mk_block 2 "b1" [IUnop 1 "y" I32 Neg (Loc 2); IExit]) 1 2 st1
              nv_j2)
    as (st2 & E2 & I2 & B2); try reflexivity; try exact nv_ctx; try assumption.
  { eapply so_def; try reflexivity.
    - repeat constructor.
    - intros b [].
    - apply so_nodef; try reflexivity; [constructor | intros b [] | constructor]. }
  exists nv_j1, nv_j2, st1, st2. split; [vm_compute; reflexivity|]. split; [exact E1|]. split; [vm_compute; reflexivity|].
  split; [exact E2|]. split; [exact I2|].
  vm_compute in E1. inversion E1; subst st1. vm_compute in E2. inversion E2. reflexivity.
Qed.
