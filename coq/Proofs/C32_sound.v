(* Proofs/C32_sound.v — soundness of the LR parser model on validated tables (property C32):
   whatever tables pass [tables_ok], every accepted token sequence is a sentence of the grammar
   and the returned value is a parse tree of exactly that sequence. *)
From PV Require Import Lib.Py Spec.CfgGrammarSpec Model.LrValidator.
Open Scope Z_scope.

Section Sound.
Variable fx : bool.
Variable g : grammar.
Variable T : tables.

Definition entry_ok (e : entry) : Prop := wf_tree g (e_sym e) (e_val e).

Fixpoint stack_path (st : stack) : Prop :=
  match st with
  | [] => True
  | e :: st' => In (top_state st', e_sym e) (preds T (e_state e)) /\ e_state e <> 0 /\ stack_path st'
  end.

Definition yield_stack (st : stack) : list Z := flat_map (fun e => yield (e_val e)) (rev st).

(* position of the parser in the token stream  w ++ EOF EOF ... *)
Definition input_inv (w : list Z) (st : stack) (la : Z) (rest : list Z) : Prop :=
  w = yield_stack st ++ la :: rest \/ (la = EOF /\ rest = [] /\ w = yield_stack st).

Lemma key_eqb_eq a b : key_eqb a b = true -> a = b.
Proof.
  destruct a, b; unfold key_eqb; cbn. intros H. apply andb_true_iff in H as [H1 H2].
  apply Z.eqb_eq in H1, H2. now subst.
Qed.

Lemma lookup_In {A} k (l : list ((Z * Z) * A)) v : lookup k l = Some v -> In (k, v) l.
Proof.
  induction l as [|[k' v'] r IH]; cbn; [discriminate|].
  destruct (key_eqb k k') eqn:E.
  - intros [= ->]. apply key_eqb_eq in E. subst. now left.
  - intros H. right. auto.
Qed.

Lemma shift_edge s t s' : In ((s, t), Shift s') (actions T) -> In (s, t) (preds T s').
Proof.
  intros H. unfold preds. apply in_or_app. left. apply in_flat_map.
  exists ((s, t), Shift s'). split; [assumption|]. cbn. rewrite Z.eqb_refl. now left.
Qed.

Lemma stack_path_nonzero st : stack_path st -> top_state st = 0 -> st = [].
Proof. destruct st as [|e st']; cbn; [reflexivity|]. intros (_ & H & _) E. contradiction. Qed.

Lemma stack_path_skipn n st : stack_path st -> stack_path (skipn n st).
Proof.
  revert st; induction n as [|n IH]; intros st H; [assumption|].
  destruct st as [|e st']; [exact I|]. cbn. apply IH. now destruct H as (_ & _ & H).
Qed.

(* the static check [back] transfers to the dynamic stack *)
Lemma back_sound final rrhs : forall st,
  stack_path st -> back (preds T) final rrhs (top_state st) = true ->
  (length rrhs <= length st)%nat ->
  map e_sym (firstn (length rrhs) st) = rrhs /\
  final (top_state (skipn (length rrhs) st)) = true.
Proof.
  induction rrhs as [|X r IH]; intros st Hp Hb Hl.
  - cbn. split; [reflexivity|assumption].
  - destruct st as [|e st']; [cbn in Hl; lia|].
    cbn [back top_state] in Hb. apply andb_true_iff in Hb as [_ Hb].
    rewrite forallb_forall in Hb. cbn in Hp. destruct Hp as (Hin & _ & Hp').
    specialize (Hb _ Hin). cbn [fst snd] in Hb. apply andb_true_iff in Hb as [Hx Hb].
    apply Z.eqb_eq in Hx. cbn in Hl.
    destruct (IH st' Hp' Hb ltac:(lia)) as [H1 H2].
    cbn [length firstn skipn map]. split; [now rewrite Hx, H1|assumption].
Qed.

Lemma wf_forest_app a ta b tb :
  wf_forest g a ta -> wf_forest g b tb -> wf_forest g (a ++ b) (ta ++ tb).
Proof.
  intros Ha Hb. induction Ha; cbn; [assumption|]. constructor; assumption.
Qed.

Lemma forest_of_popped l :
  Forall entry_ok l -> wf_forest g (rev (map e_sym l)) (rev (map e_val l)).
Proof.
  induction 1 as [|e l He Hl IH]; cbn; [constructor|].
  apply wf_forest_app; [assumption|]. constructor; [exact He|constructor].
Qed.

Lemma flat_map_yield_vals (l : list entry) :
  flat_map yield (map e_val l) = flat_map (fun e => yield (e_val e)) l.
Proof. induction l as [|e l IH]; cbn; [reflexivity|now rewrite IH]. Qed.

Lemma yield_stack_reduce n st X s' i :
  yield_stack ((X, s', Node i (rev (map e_val (firstn n st)))) :: skipn n st) = yield_stack st.
Proof.
  unfold yield_stack. cbn [rev]. rewrite flat_map_app. cbn [flat_map e_val snd yield].
  rewrite app_nil_r, <- map_rev, flat_map_yield_vals.
  rewrite <- (firstn_skipn n st) at 3. rewrite rev_app_distr, flat_map_app. reflexivity.
Qed.

Lemma yield_node_stack n st i :
  skipn n st = [] ->
  yield (Node i (rev (map e_val (firstn n st)))) = yield_stack st.
Proof.
  intros H. cbn [yield]. rewrite <- map_rev, flat_map_yield_vals. unfold yield_stack.
  rewrite <- (firstn_skipn n st) at 2. rewrite H, app_nil_r. reflexivity.
Qed.

Lemma get_prod_nth p i X rhs : get_prod g p = Some (i, (X, rhs)) -> nth_error (prods g) i = Some (X, rhs).
Proof.
  unfold get_prod. destruct (_ || _); [discriminate|].
  destruct (nth_error _ _) eqn:E; [|discriminate]. now intros [= <- <-].
Qed.

(* reducing production i on a validated stack gives a well-formed entry *)
Lemma reduce_node final p i X rhs st :
  get_prod g p = Some (i, (X, rhs)) ->
  back (preds T) final (rev rhs) (top_state st) = true ->
  stack_path st -> Forall entry_ok st ->
  (length st <? length rhs)%nat = false ->
  wf_tree g X (Node i (rev (map e_val (firstn (length rhs) st)))) /\
  final (top_state (skipn (length rhs) st)) = true.
Proof.
  intros Hg Hb Hp Hv Hl. apply Nat.ltb_ge in Hl.
  destruct (back_sound final (rev rhs) st Hp Hb) as [H1 H2]; [rewrite rev_length; lia|].
  rewrite rev_length in H1, H2. split; [|assumption].
  econstructor; [eapply get_prod_nth; eassumption|].
  assert (Hf : Forall entry_ok (firstn (length rhs) st)).
  { rewrite Forall_forall in *. intros e He. apply Hv. eapply In_nth_error in He as [k He].
    apply nth_error_In with k. rewrite <- (firstn_skipn (length rhs) st).
    rewrite nth_error_app1; [assumption|]. apply nth_error_Some. congruence. }
  apply forest_of_popped in Hf. rewrite H1, rev_involutive in Hf. exact Hf.
Qed.

Lemma Forall_skipn {A} (P : A -> Prop) n l : Forall P l -> Forall P (skipn n l).
Proof.
  revert l; induction n as [|n IH]; intros l H; [assumption|].
  destruct l; [constructor|]. cbn. apply IH. now inversion H.
Qed.

Hypothesis HT : tables_ok fx g T = true.

Lemma action_checked k a : lookup k (actions T) = Some a -> action_ok fx g T (k, a) = true.
Proof.
  intros H. apply lookup_In in H. unfold tables_ok in HT.
  apply andb_true_iff in HT as [H1 _]. rewrite forallb_forall in H1. now apply H1.
Qed.

Lemma goto_edge s X s' : lookup (s, X) (gotos T) = Some s' -> In (s, X) (preds T s') /\ s' <> 0.
Proof.
  intros H. apply lookup_In in H. split.
  - unfold preds. apply in_or_app. right. apply in_flat_map.
    exists ((s, X), s'). split; [assumption|]. cbn. rewrite Z.eqb_refl. now left.
  - unfold tables_ok in HT. apply andb_true_iff in HT as [_ H2]. rewrite forallb_forall in H2.
    apply H2 in H. unfold goto_ok in H. cbn in H. intros ->. discriminate.
Qed.

Lemma run_sound w (Hw : ~ In EOF w) : forall fuel st la rest v,
  stack_path st -> Forall entry_ok st -> input_inv w st la rest ->
  run fx fuel g T st la rest = Ok v -> parse_of g w v.
Proof.
  induction fuel as [|fuel IH]; intros st la rest v Hp Hv Hi Hr; [discriminate|].
  cbn [run] in Hr. destruct (at_exit_shape g st); [discriminate|].
  destruct (lookup (top_state st, la) (actions T)) as [a|] eqn:Ea; [|discriminate].
  pose proof (action_checked _ _ Ea) as Hok. cbn [action_ok] in Hok.
  destruct a as [s'|p|p].
  - (* Shift *)
    apply andb_true_iff in Hok as [Hok Hs0]. apply andb_true_iff in Hok as [Hterm Hne].
    assert (Hla : la <> EOF) by (intros ->; discriminate).
    destruct (next_token rest) as [la' rest'] eqn:En.
    apply IH in Hr; [assumption| | |].
    + cbn. split; [|split; [|assumption]].
      * apply shift_edge. now apply lookup_In in Ea.
      * cbn. intros ->. discriminate.
    + constructor; [|assumption]. unfold entry_ok; cbn. constructor.
      unfold mem_z in Hterm. apply existsb_exists in Hterm as (x & Hx & E).
      apply Z.eqb_eq in E. now subst.
    + assert (Hys : yield_stack ((la, s', Leaf la) :: st) = yield_stack st ++ [la]).
      { unfold yield_stack. cbn [rev]. rewrite flat_map_app. cbn. reflexivity. }
      destruct Hi as [Hi|(E & _)]; [|contradiction].
      unfold input_inv. rewrite Hys. destruct rest as [|a r]; cbn in En; injection En as <- <-.
      * right. repeat split; try reflexivity. exact Hi.
      * left. rewrite <- app_assoc. exact Hi.
  - (* Reduce *)
    apply andb_true_iff in Hok as [_ Hok].
    destruct (get_prod g p) as [[i [X rhs]]|] eqn:Eg; [|discriminate].
    destruct (length st <? length rhs)%nat eqn:El; [discriminate|].
    destruct (reduce_node _ _ _ _ _ _ Eg Hok Hp Hv El) as [Hnode _].
    destruct (lookup (top_state (skipn (length rhs) st), X) (gotos T)) as [s'|] eqn:Egt; [|discriminate].
    apply goto_edge in Egt as [He Hs0].
    apply IH in Hr; [assumption| | |].
    + cbn. split; [assumption|]. split; [assumption|]. now apply stack_path_skipn.
    + constructor; [exact Hnode|]. now apply Forall_skipn.
    + unfold input_inv. rewrite yield_stack_reduce. exact Hi.
  - (* Accept *)
    apply andb_true_iff in Hok as [Hok Hb]. apply andb_true_iff in Hok as [_ Heof].
    apply Z.eqb_eq in Heof. subst la.
    destruct (get_prod g p) as [[i [X rhs]]|] eqn:Eg; [|discriminate].
    apply andb_true_iff in Hb as [HX Hb]. apply Z.eqb_eq in HX. subst X.
    destruct (length st <? length rhs)%nat eqn:El; [discriminate|].
    assert (Hwy : w = yield_stack st).
    { destruct Hi as [Hi|(_ & _ & Hi)]; [|assumption]. exfalso. apply Hw. rewrite Hi.
      apply in_or_app. right. now left. }
    pose proof goto_edge as GE. destruct fx; cbn [negb] in Hr.
    + destruct (reduce_node _ _ _ _ _ _ Eg Hb Hp Hv El) as [Hnode _].
      destruct (skipn (length rhs) st) as [|e0 st0] eqn:Esk.
      * injection Hr as <-. split; [assumption|]. rewrite Hwy. now apply yield_node_stack.
      * match type of Hr with context [lookup ?k (gotos T)] =>
          destruct (lookup k (gotos T)) as [s'|] eqn:Egt; [|discriminate Hr] end.
        apply GE in Egt as [He Hs0].
        apply IH in Hr; [assumption| | |].
        -- assert (Hsk : stack_path (e0 :: st0)) by (rewrite <- Esk; now apply stack_path_skipn).
           cbn. cbn in Hsk, He. split; [assumption|]. split; assumption.
        -- constructor; [exact Hnode|]. rewrite <- Esk. now apply Forall_skipn.
        -- unfold input_inv. rewrite <- Esk, yield_stack_reduce. exact Hi.
    + destruct (reduce_node _ _ _ _ _ _ Eg Hb Hp Hv El) as [Hnode Hfin].
      injection Hr as <-. split; [assumption|]. rewrite Hwy. apply yield_node_stack.
      apply stack_path_nonzero; [now apply stack_path_skipn|now apply Z.eqb_eq].
Qed.

Lemma parse_sound w fuel v :
  ~ In EOF w -> parse_model fx fuel g T w = Ok v -> parse_of g w v.
Proof.
  intros Hw Hr. unfold parse_model in Hr. destruct (next_token w) as [la rest] eqn:En.
  eapply (run_sound w Hw) in Hr; [exact Hr|exact I|constructor|].
  unfold input_inv, yield_stack. cbn. destruct w as [|a r]; cbn in En; injection En as <- <-.
  - right. auto.
  - left. reflexivity.
Qed.

End Sound.

Lemma c32_sound_lemma : forall fx g T w fuel v,
  tables_ok fx g T = true -> ~ In EOF w ->
  parse_model fx fuel g T w = Ok v ->
  wf_tree g (start g) v /\ yield v = w.
Proof. intros. eapply parse_sound; eauto. Qed.
