(* Proofs/C03_verify.v — what acceptance by the (model of the) ppci verifier guarantees.
   Partial soundness: if verify_function returns normally and the stored `uses` cover the real
   operands, the function satisfies the clauses wf_entry, wf_shape, wf_reachable, wf_dom and the
   weak form of wf_phi_preds (every predecessor has an input).  The clauses the verifier does NOT
   establish are refuted one by one in Props/C03.v (accepted, yet not well-formed). *)
From PV Require Import Lib.Py Spec.IRSyntax Spec.CfgSpec Spec.IRWf Model.DomRef Model.IRWfCheck
  Model.Verify Proofs.C25_ref Proofs.C03_wf.

From Coq Require Import String.
Open Scope nat_scope.

Lemma bind_ok_unit (a : result unit) (b : unit -> result unit) :
  bind a b = Ok tt -> a = Ok tt /\ b tt = Ok tt.
Proof. destruct a as [[]| | |]; cbn; try discriminate. auto. Qed.

Lemma all_ok_spec {A} (chk : A -> result unit) l :
  all_ok chk l = Ok tt -> forall x, In x l -> chk x = Ok tt.
Proof.
  induction l as [|y r IH]; cbn; [tauto|].
  intro H. apply bind_ok_unit in H. destruct H as [H1 H2].
  intros x [->|Hx]; auto.
Qed.

Lemma check_ok c e : e <> Ok tt -> check c e = Ok tt -> c = true.
Proof. unfold check. destruct c; auto; intros H1 H2; contradiction. Qed.
Lemma assert_ok c : assert_ c = Ok tt -> c = true.
Proof. apply check_ok. discriminate. Qed.

Lemma enum_In_gen {A} (l : list A) : forall s x, In x l ->
  exists i, In (i, x) (combine (seq s (List.length l)) l).
Proof.
  induction l as [|y r IH]; cbn; [tauto|].
  intros s x [->|H].
  - exists s. now left.
  - destruct (IH (S s) x H) as [i Hi]. exists i. now right.
Qed.
Lemma enum_In {A} (l : list A) x : In x l -> exists i, In (i, x) (enum l).
Proof. apply enum_In_gen. Qed.

Lemma sites_block f s : In s (sites f) -> In (s_bi s, s_blk s) (enum (f_blocks f)).
Proof.
  unfold sites. rewrite in_flat_map. intros ((bi, k) & H1 & H2).
  unfold block_sites in H2. apply in_map_iff in H2. destruct H2 as (pi & E & _).
  subst s. exact H1.
Qed.

(* the stored uses contain every real operand (the bookkeeping oracle of the check establishes
   this for the real objects; the verifier itself never looks at the operands for dominance) *)
Definition uses_cover (f : func) (st : vstate) : Prop :=
  forall s, In s (sites f) -> forall r, In r (instr_uses (s_ins s)) ->
    In r (uses_at st (s_bi s) (s_pos s)).

Definition wf_phi_preds_weak (f : func) : Prop :=
  forall s v n t ins, In s (sites f) -> s_ins s = IPhi v n t ins ->
    forall pb, is_pred f pb (s_blk s) -> In pb (map fst ins).

Section S.
Variable vx : vfixes.
Variable m : modul.
Variable f : func.
Variable st : vstate.
Hypothesis HV : verify_function vx m f st = Ok tt.

Lemma verify_parts :
  all_ok (check_block_head f) (enum (f_blocks f)) = Ok tt /\
  negb (Nat.eqb (List.length (f_blocks f)) 0) = true /\
  reachable_b f = true /\
  forallb (preds_match f st) (enum (f_blocks f)) = true /\
  all_ok (check_phi_inputs vx st) (sites f) = Ok tt /\
  all_ok (verify_instruction vx m f st) (enum (sites f)) = Ok tt.
Proof.
  unfold verify_function in HV.
  apply bind_ok_unit in HV. destruct HV as [H1 H].
  apply bind_ok_unit in H. destruct H as [H2 H].
  apply bind_ok_unit in H. destruct H as [H3 H].
  apply bind_ok_unit in H. destruct H as [H4 H].
  apply bind_ok_unit in H. destruct H as [H5 H6].
  repeat split; auto.
  - apply check_ok in H2; [auto|discriminate].
  - now apply assert_ok.
  - now apply assert_ok.
Qed.

Lemma v_entry : wf_entry f.
Proof.
  destruct verify_parts as (_ & H & _). intro E. rewrite E in H. discriminate.
Qed.

Lemma v_shape : wf_shape f.
Proof.
  destruct verify_parts as (H & _). intros k Hk.
  destruct (enum_In _ _ Hk) as [bi Hbi].
  pose proof (all_ok_spec _ _ H _ Hbi) as C. unfold check_block_head in C.
  apply bind_ok_unit in C. destruct C as [_ C].
  apply shape_b_spec. unfold shape_b.
  destruct (rev (b_ins k)) as [|t body]; [discriminate|].
  apply bind_ok_unit in C. destruct C as [C1 C]. apply check_ok in C1; [|discriminate].
  apply bind_ok_unit in C. destruct C as [C2 _]. apply assert_ok in C2.
  now rewrite C1, C2.
Qed.

Lemma v_reachable : wf_reachable f.
Proof.
  destruct verify_parts as (_ & _ & H & _). intros n Hn.
  unfold reachable_b in H. rewrite forallb_forall in H.
  apply reachable_ref_correct. unfold reachable_ref. apply H. apply in_seq. lia.
Qed.

Lemma dominates_plain_spec bj q bi p : dominates_plain f bj q bi p = true ->
  (bj = bi /\ q < p) \/ (bj <> bi /\ dominates (cfg f) 0 bj bi).
Proof.
  unfold dominates_plain. destruct (Nat.eqb bj bi) eqn:E; intro H.
  - apply Nat.eqb_eq in E. apply Nat.ltb_lt in H. auto.
  - apply Nat.eqb_neq in E. right. split; auto.
    unfold sdom_b in H. apply andb_true_iff in H. destruct H as [H _].
    now apply dom_ref_correct.
Qed.

Lemma v_dom : uses_cover f st -> wf_dom f.
Proof.
  intros HC s Hs Hphi v Hv.
  destruct verify_parts as (_ & _ & _ & _ & _ & H).
  destruct (enum_In _ _ Hs) as [idx Hidx].
  pose proof (all_ok_spec _ _ H _ Hidx) as C. unfold verify_instruction in C.
  apply bind_ok_unit in C. destruct C as [_ C].
  apply bind_ok_unit in C. destruct C as [_ C].
  apply bind_ok_unit in C. destruct C as [_ C].
  pose proof (all_ok_spec _ _ C _ (HC s Hs _ Hv)) as D. cbn beta in D.
  unfold instruction_dominates in D.
  destruct (def_site f v) as [[[bj q] t]|]; [|discriminate].
  exists bj, q, t. split; auto.
  destruct (s_ins s); try discriminate Hphi; cbn in D; apply assert_ok in D;
    now apply dominates_plain_spec.
Qed.

Lemma v_phi_preds_weak : wf_phi_preds_weak f.
Proof.
  intros s v n t ins Hs E pb Hp.
  destruct verify_parts as (_ & _ & _ & H4 & H5 & _).
  rewrite forallb_forall in H4. specialize (H4 _ (sites_block f s Hs)).
  unfold preds_match in H4. apply andb_true_iff in H4. destruct H4 as [H4 _].
  rewrite forallb_forall in H4. apply preds_of_spec in Hp. apply H4 in Hp.
  apply mem_pos_In in Hp.
  pose proof (all_ok_spec _ _ H5 _ Hs) as C. unfold check_phi_inputs in C. rewrite E in C.
  apply bind_ok_unit in C. destruct C as [_ C].
  pose proof (all_ok_spec _ _ C _ Hp) as D. cbn beta in D.
  unfold phi_get in D. destruct (find (fun p => Pos.eqb (fst p) pb) ins) as [p|] eqn:F;
    [|discriminate].
  apply find_some in F. destruct F as [F1 F2]. apply Pos.eqb_eq in F2. subst pb.
  apply in_map. exact F1.
Qed.
End S.



(* ---------------------------------------------------------------- list facts *)
Lemma enum_nth_gen {A} (l : list A) : forall s i x,
  In (i, x) (combine (seq s (List.length l)) l) -> s <= i /\ nth_error l (i - s) = Some x.
Proof.
  induction l as [|y r IH]; cbn; [tauto|].
  intros s i x [E|H].
  - injection E as <- <-. split; [lia|]. now rewrite Nat.sub_diag.
  - apply IH in H. destruct H as [H1 H2]. split; [lia|].
    replace (i - s) with (S (i - S s)) by lia. exact H2.
Qed.
Lemma enum_nth {A} (l : list A) i x : In (i, x) (enum l) -> nth_error l i = Some x.
Proof. intro H. apply enum_nth_gen in H. rewrite Nat.sub_0_r in H. tauto. Qed.
Lemma nth_enum_gen {A} (l : list A) : forall s i x,
  nth_error l i = Some x -> In (s + i, x) (combine (seq s (List.length l)) l).
Proof.
  induction l as [|y r IH]; intros s [|i] x H; cbn in *; try discriminate.
  - injection H as ->. left. f_equal. lia.
  - right. replace (s + S i) with (S s + i) by lia. now apply IH.
Qed.
Lemma nth_enum {A} (l : list A) i x : nth_error l i = Some x -> In (i, x) (enum l).
Proof. intro H. apply (nth_enum_gen l 0) in H. exact H. Qed.

Lemma map_snd_enum_gen {A} (l : list A) : forall s, map snd (combine (seq s (List.length l)) l) = l.
Proof. induction l as [|y r IH]; cbn; auto. intro s. now rewrite IH. Qed.
Lemma map_flat_map {A B C} (h : B -> C) (g : A -> list B) l :
  map h (flat_map g l) = flat_map (fun x => map h (g x)) l.
Proof. induction l; cbn; auto. now rewrite map_app, IHl. Qed.
Lemma flat_map_map {A B C} (h : A -> B) (g : B -> list C) l :
  flat_map g (map h l) = flat_map (fun x => g (h x)) l.
Proof. induction l; cbn; auto. now rewrite IHl. Qed.

Lemma sites_instrs f : map s_ins (sites f) = func_instrs f.
Proof.
  unfold sites, func_instrs. rewrite map_flat_map.
  rewrite <- (map_snd_enum_gen (f_blocks f) 0) at 2. unfold enum.
  rewrite flat_map_map. apply flat_map_ext. intros [bi k]. unfold block_sites. cbn.
  rewrite map_map. cbn. apply (map_snd_enum_gen (b_ins k) 0).
Qed.
Lemma site_names_defs l :
  flat_map site_names l = map def_name (instrs_defs (map s_ins l)).
Proof.
  induction l as [|s r IH]; cbn; auto. unfold instrs_defs in *. cbn.
  rewrite map_app, <- IH. unfold site_names. destruct (instr_def (s_ins s)); reflexivity.
Qed.
Lemma sites_names f : flat_map site_names (sites f) = map def_name (func_defs f).
Proof. rewrite site_names_defs, sites_instrs. reflexivity. Qed.

Lemma nodup_snoc {A} (l : list A) a : NoDup l -> ~ In a l -> NoDup (l ++ [a]).
Proof.
  induction l as [|x r IH]; cbn; intros H1 H2.
  - constructor; auto.
  - inversion H1; subst. constructor.
    + rewrite in_app_iff. cbn. intuition.
    + apply IH; auto.
Qed.

Lemma nodup_by_prefix {A} (g : A -> list string) (base : list string) (L : list A) :
  NoDup base ->
  (forall x, List.length (g x) <= 1) ->
  (forall i x n, nth_error L i = Some x -> In n (g x) -> ~ In n (base ++ flat_map g (firstn i L))) ->
  NoDup (base ++ flat_map g L).
Proof.
  intros Hb Hg. induction L as [|x L IH] using rev_ind; intro H.
  - cbn. now rewrite app_nil_r.
  - rewrite flat_map_app. cbn. rewrite app_nil_r.
    assert (IH' : NoDup (base ++ flat_map g L)).
    { apply IH. intros i y n Hy Hn.
      assert (Hi : i < List.length L) by (apply nth_error_Some; congruence).
      specialize (H i y n). rewrite nth_error_app1 in H by exact Hi.
      rewrite firstn_app in H. replace (i - List.length L) with 0 in H by lia.
      cbn in H. rewrite app_nil_r in H. auto. }
    specialize (Hg x).
    destruct (g x) as [|n [|n' r]] eqn:E; cbn in Hg; try lia.
    + now rewrite app_nil_r.
    + rewrite app_assoc. apply nodup_snoc; auto.
      specialize (H (List.length L) x n).
      rewrite nth_error_app2, Nat.sub_diag in H by lia. cbn in H.
      rewrite firstn_app, Nat.sub_diag, firstn_all in H. cbn in H. rewrite app_nil_r in H.
      apply H; auto. rewrite E. now left.
Qed.

Lemma mem_str_false s l : mem_str s l = false -> ~ In s l.
Proof. intros H1 H2. apply mem_str_In in H2. congruence. Qed.

Section S.
Variable vx : vfixes.
Variable m : modul.
Variable f : func.
Variable st : vstate.
Hypothesis HV : verify_function vx m f st = Ok tt.

Lemma v_bnames : NoDup (map b_name (f_blocks f)).
Proof.
  destruct (verify_parts vx m f st HV) as (H & _).
  pose proof (nodup_by_prefix (fun k => [b_name k]) [] (f_blocks f)) as P. cbn in P.
  assert (E : forall l, flat_map (fun k : block => [b_name k]) l = map b_name l)
    by (induction l; cbn; congruence).
  rewrite E in P. apply P; auto; [constructor|].
  intros i k n Hk [<-|[]]. rewrite E.
  pose proof (all_ok_spec _ _ H _ (nth_enum _ _ _ Hk)) as C. unfold check_block_head in C.
  apply bind_ok_unit in C. destruct C as [C _]. apply assert_ok in C.
  apply negb_true_iff in C. unfold bnames in C. rewrite firstn_map in C.
  now apply mem_str_false.
Qed.

Lemma v_names : wf_names f.
Proof.
  unfold wf_names. rewrite <- sites_names.
  destruct (verify_parts vx m f st HV) as (_ & _ & _ & _ & _ & H).
  apply nodup_by_prefix.
  - exact v_bnames.
  - intro s. unfold site_names. destruct (instr_def (s_ins s)); cbn; lia.
  - intros i s n Hs Hn.
    pose proof (all_ok_spec _ _ H _ (nth_enum _ _ _ Hs)) as C. unfold verify_instruction in C.
    apply bind_ok_unit in C. destruct C as [C _].
    unfold site_names in Hn. destruct (instr_def (s_ins s)) as [d|]; [|contradiction].
    destruct Hn as [<-|[]]. apply assert_ok in C. apply negb_true_iff in C.
    apply mem_str_false in C. exact C.
Qed.
End S.


(* what the verifier checks of the typing clause: everything except the operand type of Unop,
   the pointer type of CopyBlob operands and of callees (the constructors of ir.py check those) *)
Definition instr_typed_v (m : modul) (f : func) (i : instr) : Prop :=
  match i with
  | IUnop _ _ _ _ _ | ICopyBlob _ _ _ => True
  | ICallF _ _ t c args => call_ok m f c args (Some t)
  | ICallP c args => call_ok m f c args None
  | _ => instr_typed m f i
  end.
Definition wf_types_v (m : modul) (f : func) : Prop :=
  forall s, In s (sites f) -> instr_typed_v m f (s_ins s).
(* dominance is checked for the FIRST input block carrying the value only *)
Definition wf_dom_phi_first (f : func) : Prop :=
  forall s v n t ins, In s (sites f) -> s_ins s = IPhi v n t ins ->
  forall pb w r, find (fun p => vref_eqb (snd p) (Loc w)) ins = Some (pb, r) ->
    exists bj q t', def_site f w = Some (bj, q, t') /\ dominates (cfg f) 0 bj (bidx f pb).
Definition wf_defined_loc (f : func) : Prop :=
  forall s, In s (sites f) -> forall r, In r (instr_uses (s_ins s)) ->
    match r with Loc v => exists d, def_site f v = Some d | Unres _ => False | _ => True end.

Lemma find_filter_head {A} (p : A -> bool) l x :
  find p l = Some x -> exists r, filter p l = x :: r.
Proof.
  induction l as [|y l IH]; cbn; [discriminate|].
  destruct (p y) eqn:E; intro H; [injection H as ->; eauto|auto].
Qed.

Lemma all_true_spec {A} (g : A -> result bool) l :
  all_true g l = Ok true -> forall x, In x l -> g x = Ok true.
Proof.
  induction l as [|y l IH]; cbn; [tauto|].
  destruct (g y) as [[]| | |] eqn:E; cbn; try discriminate.
  intros H x [<-|Hx]; auto.
Qed.

Lemma site_in_block f s : In s (sites f) -> In (s_ins s) (b_ins (s_blk s)).
Proof.
  unfold sites. rewrite in_flat_map. intros ((bi, k) & H1 & H2).
  unfold block_sites in H2. apply in_map_iff in H2. destruct H2 as ((p, i) & E & Hin).
  subst s. cbn. apply in_combine_r in Hin. exact Hin.
Qed.

Section S.
Variable vx : vfixes.
Variable m : modul.
Variable f : func.
Variable st : vstate.
Hypothesis HV : verify_function vx m f st = Ok tt.

Lemma check_call_sound c args rt : check_call m f c args rt = Ok tt -> call_ok m f c args rt.
Proof.
  unfold check_call, call_ok. destruct c; auto.
  destruct (sig_of m name) as [[ats r]|]; auto. intro C.
  apply bind_ok_unit in C. destruct C as [C1 C]. apply check_ok in C1; [|discriminate].
  apply bind_ok_unit in C. destruct C as [C2 C3]. apply check_ok in C2; [|discriminate].
  apply check_ok in C3; [|discriminate]. split.
  - destruct rt, r; try discriminate; auto. apply ty_eqb_spec in C1. congruence.
  - now apply args_typed.
Qed.

(* the terminator of a block, as seen by the first loop of the verifier *)
Lemma block_last s : In s (sites f) -> is_terminator (s_ins s) = true ->
  exists body, rev (b_ins (s_blk s)) = s_ins s :: body.
Proof.
  intros Hs Ht. destruct (verify_parts vx m f st HV) as (H & _).
  pose proof (all_ok_spec _ _ H _ (sites_block f s Hs)) as C. unfold check_block_head in C.
  apply bind_ok_unit in C. destruct C as [_ C].
  pose proof (site_in_block f s Hs) as Hin. apply in_rev in Hin.
  destruct (rev (b_ins (s_blk s))) as [|t body]; [discriminate|].
  apply bind_ok_unit in C. destruct C as [_ C].
  apply bind_ok_unit in C. destruct C as [C2 _]. apply assert_ok in C2.
  destruct Hin as [->|Hin]; [eauto|].
  rewrite forallb_forall in C2. apply C2 in Hin. rewrite Ht in Hin. discriminate.
Qed.

Lemma v_types : wf_types_v m f.
Proof.
  intros s Hs.
  destruct (verify_parts vx m f st HV) as (H1 & _ & _ & _ & _ & H).
  destruct (enum_In _ _ Hs) as [idx Hidx].
  pose proof (all_ok_spec _ _ H _ Hidx) as C. unfold verify_instruction in C.
  apply bind_ok_unit in C. destruct C as [_ C].
  apply bind_ok_unit in C. destruct C as [C _].
  pose proof (all_ok_spec _ _ H1 _ (sites_block f s Hs)) as B. unfold check_block_head in B.
  apply bind_ok_unit in B. destruct B as [_ B].
  destruct (s_ins s) eqn:E; cbn; auto; cbn in C.
  - apply bind_ok_unit in C. destruct C as [Ca Cb].
    apply check_ok in Ca; [|discriminate]. apply check_ok in Cb; [|discriminate].
    split; now apply ty_is_sound.
  - apply check_ok in C; [|discriminate]. now apply ty_is_sound.
  - apply check_ok in C; [|discriminate]. now apply ty_is_sound.
  - apply assert_ok in C. rewrite forallb_forall in C. intros pb r Hin.
    apply (C (pb, r)) in Hin. now apply ty_is_sound.
  - now apply check_call_sound.
  - now apply check_call_sound.
  - apply check_ok in C; [|discriminate]. now apply opt_ty_eqb_eq.
  - (* return *)
    destruct (block_last s Hs) as [body Hb]; [rewrite E; reflexivity|].
    rewrite Hb, E in B.
    apply bind_ok_unit in B. destruct B as [_ B].
    apply bind_ok_unit in B. destruct B as [_ B].
    destruct (f_ret f) as [rt|]; [|discriminate].
    apply check_ok in B; [|discriminate]. exists rt. split; auto. now apply opt_ty_eqb_eq.
  - (* exit *)
    destruct (block_last s Hs) as [body Hb]; [rewrite E; reflexivity|].
    rewrite Hb, E in B.
    apply bind_ok_unit in B. destruct B as [_ B].
    apply bind_ok_unit in B. destruct B as [_ B].
    apply assert_ok in B. destruct (f_ret f); [discriminate|reflexivity].
Qed.

Lemma use_checked s r : uses_cover f st -> In s (sites f) -> In r (instr_uses (s_ins s)) ->
  instruction_dominates vx f r s = Ok true.
Proof.
  intros HC Hs Hr.
  destruct (verify_parts vx m f st HV) as (_ & _ & _ & _ & _ & H).
  destruct (enum_In _ _ Hs) as [idx Hidx].
  pose proof (all_ok_spec _ _ H _ Hidx) as C. unfold verify_instruction in C.
  apply bind_ok_unit in C. destruct C as [_ C].
  apply bind_ok_unit in C. destruct C as [_ C].
  apply bind_ok_unit in C. destruct C as [_ C].
  pose proof (all_ok_spec _ _ C _ (HC s Hs _ Hr)) as D. cbn beta in D.
  destruct (instruction_dominates vx f r s) as [[]| | |]; cbn in D; try discriminate; auto.
Qed.

Lemma v_defined_loc : uses_cover f st -> wf_defined_loc f.
Proof.
  intros HC s Hs r Hr. pose proof (use_checked s r HC Hs Hr) as D.
  destruct r; auto; cbn in D; [|discriminate].
  destruct (def_site f v); [eauto|discriminate].
Qed.

Lemma v_dom_phi_first : uses_cover f st -> wf_dom_phi_first f.
Proof.
  intros HC s v n t ins Hs E pb w r F.
  assert (Hr : In (Loc w) (instr_uses (s_ins s))).
  { rewrite E. cbn. apply find_some in F. destruct F as [F1 F2]. cbn in F2.
    apply vref_eqb_spec in F2. subst r. apply (in_map snd) in F1. exact F1. }
  pose proof (use_checked s (Loc w) HC Hs Hr) as D. unfold instruction_dominates in D.
  destruct (def_site f w) as [[[bj q] t']|]; [|discriminate].
  exists bj, q, t'. split; auto. rewrite E, F in D.
  cbv zeta in D.
  assert (V : (if Nat.ltb (bidx f pb) (List.length (f_blocks f))
               then Ok (dominates_plain f bj q (bidx f pb) (block_len f (bidx f pb) - 1))
               else Internal KeyError) = Ok true).
  { destruct (vx_phi_all vx).
    - destruct (find_filter_head _ _ _ F) as [rest Hf]. rewrite Hf in D.
      exact (all_true_spec _ _ D pb (or_introl eq_refl)).
    - exact D. }
  match type of V with context [if ?c then _ else _] => destruct c end; [|discriminate].
  injection V as V. apply dominates_plain_spec in V. destruct V as [[-> _]|[_ V]]; auto.
  apply dominates_self.
Qed.
End S.

(* ---------------------------------------------------------------- the soundness theorem *)
(* well-formedness minus the recorded gaps of the verifier: wf_phi_preds only as "every predecessor
   has an input" (extra inputs / inputs of former predecessors are not seen), wf_dom_phi only for the
   first input block carrying a value, typing without Unop / CopyBlob / callee operand types, and —
   through the hypothesis uses_cover — no comparison of the stored uses with the operands.
   wf_block_ids, wf_def_ids, wf_targets and the range of Param / Glob references are representation
   invariants of tools/irimport.py (ids are assigned by the importer), not properties of ppci objects. *)
Definition wf_function_except_gaps (m : modul) (f : func) : Prop :=
  wf_entry f /\ wf_shape f /\ wf_reachable f /\ wf_names f /\ wf_defined_loc f /\ wf_dom f /\
  wf_dom_phi_first f /\ wf_phi_preds_weak f /\ wf_types_v m f.

Theorem verifier_sound vx m f st :
  verify_function vx m f st = Ok tt -> uses_cover f st -> wf_function_except_gaps m f.
Proof.
  intros HV HC. repeat split.
  - eapply v_entry; eauto.
  - eapply v_shape; eauto.
  - eapply v_reachable; eauto.
  - eapply v_names; eauto.
  - eapply v_defined_loc; eauto.
  - eapply v_dom; eauto.
  - eapply v_dom_phi_first; eauto.
  - eapply v_phi_preds_weak; eauto.
  - eapply v_types; eauto.
Qed.

(* it is a relaxation of the specification *)
Lemma wf_function_relax m f : wf_function m f -> wf_function_except_gaps m f.
Proof.
  intros (H1 & _ & H3 & _ & H5 & _ & H7 & H8 & H9 & H10 & H11 & H12). repeat split; auto.
  - intros s Hs r Hr. specialize (H8 s Hs r Hr). destruct r; cbn in *; auto.
  - intros s v n t ins Hs E pb w r F. apply find_some in F. destruct F as [F1 F2]. cbn in F2.
    apply vref_eqb_spec in F2. subst r. eapply H10; eauto.
  - intros s v n t ins Hs E pb Hp. apply (H11 s v n t ins Hs E). exact Hp.
  - intros s Hs. specialize (H12 s Hs). destruct (s_ins s); cbn in *; tauto.
Qed.

(* ---------------------------------------------------------------- what the verifier misses *)
Open Scope string_scope.
Definition mod_of (f : func) : modul := mk_modul "m" [] [] [f].

(* W1: output shape of CleanPass.glue_blocks on  entry: c; jmp b  /  b: p = phi entry: c; return p
   — a phi whose input block is not a predecessor.  Accepted. *)
Definition w1 : func := mk_func "f" BGlobal (Some I32) []
  [mk_block 1 "entry" [IConst 1 "c" I32 (CInt 1); IPhi 2 "p" I32 [(1%positive, Loc 1)];
                       IReturn (Loc 2)]].
Definition w1_st := mk_vstate [[[]; [Loc 1]; [Loc 2]]] [[]].
Lemma w1_accepted_not_wf :
  verify_function v_as_found (mod_of w1) w1 w1_st = Ok tt /\ uses_cover w1 w1_st /\ ~ wf_phi_preds w1.
Proof.
  split; [vm_compute; reflexivity|]. split.
  - intros s Hs r Hr. cbn in Hs.
    destruct Hs as [<-|[<-|[<-|[]]]]; cbn in *; tauto.
  - intro H.
    specialize (H (mk_site 0 (mk_block 1 "entry" (b_ins (hd (mk_block 1 "" []) (f_blocks w1))))
                           1 (IPhi 2 "p" I32 [(1%positive, Loc 1)])) 2%positive "p" I32
                  [(1%positive, Loc 1)]).
    cbn in H. destruct H as [_ H]; auto.
    destruct (proj1 (H 1%positive) (or_introl eq_refl)) as (k' & Hin & E & Hs).
    cbn in Hin. destruct Hin as [<-|[]]. cbn in Hs. exact Hs.
Qed.

(* W2: the dominance check reads the stored `uses`, not the operands: with a stale set a use
   before the definition is accepted *)
Definition w2 : func := mk_func "f" BGlobal (Some I32) []
  [mk_block 1 "entry" [IBinop 1 "x" I32 Add (Loc 2) (Loc 2); IConst 2 "c" I32 (CInt 1);
                       IReturn (Loc 1)]].
Definition w2_st := mk_vstate [[[]; []; [Loc 1]]] [[]].
Lemma w2_accepted_not_wf :
  verify_function v_as_found (mod_of w2) w2 w2_st = Ok tt /\ ~ wf_dom w2.
Proof.
  split; [vm_compute; reflexivity|]. intro H.
  specialize (H (mk_site 0 (hd (mk_block 1 "" []) (f_blocks w2)) 0
                         (IBinop 1 "x" I32 Add (Loc 2) (Loc 2)))).
  cbn in H. destruct (H (or_introl eq_refl) eq_refl 2%positive (or_introl eq_refl))
    as (bj & q & t & E & D).
  vm_compute in E. injection E as <- <- <-.
  destruct D as [[_ D]|[D _]]; [inversion D|congruence].
Qed.

(* W3: operand type of a unary operation is not checked *)
Definition w3 : func := mk_func "f" BGlobal (Some I32) []
  [mk_block 1 "entry" [IConst 1 "c" I8 (CInt 1); IUnop 2 "u" I32 Neg (Loc 1); IReturn (Loc 2)]].
Definition w3_st := mk_vstate [[[]; [Loc 1]; [Loc 2]]] [[]].
Lemma w3_accepted_not_wf :
  verify_function v_as_found (mod_of w3) w3 w3_st = Ok tt /\ uses_cover w3 w3_st /\ ~ wf_types (mod_of w3) w3.
Proof.
  split; [vm_compute; reflexivity|]. split.
  - intros s Hs r Hr. cbn in Hs.
    destruct Hs as [<-|[<-|[<-|[]]]]; cbn in *; tauto.
  - intro H.
    specialize (H (mk_site 0 (hd (mk_block 1 "" []) (f_blocks w3)) 1 (IUnop 2 "u" I32 Neg (Loc 1)))).
    cbn in H. specialize (H (or_intror (or_introl eq_refl))). vm_compute in H. discriminate H.
Qed.


(* W4: a value carried by two phi inputs is checked for the first input block only *)
Definition w4 : func := mk_func "f" BGlobal (Some I32) [("a", I32)]
  [mk_block 1 "entry" [IConst 1 "c" I32 (CInt 1); ICJump (Param 0) Ceq (Loc 1) 2 3];
   mk_block 2 "a" [IConst 2 "x" I32 (CInt 5); IJump 4];
   mk_block 3 "b" [IJump 4];
   mk_block 4 "j" [IPhi 3 "p" I32 [(2%positive, Loc 2); (3%positive, Loc 2)]; IReturn (Loc 3)]].
Definition w4_st := mk_vstate [[[]; [Param 0; Loc 1]]; [[]; []]; [[]]; [[Loc 2]; [Loc 3]]]
                              [[]; [1%positive]; [1%positive]; [2%positive; 3%positive]].
Lemma w4_accepted_not_wf :
  verify_function v_as_found (mod_of w4) w4 w4_st = Ok tt /\ uses_cover w4 w4_st /\ ~ wf_dom_phi w4.
Proof.
  split; [vm_compute; reflexivity|]. split.
  - intros s Hs r Hr. cbn in Hs.
    repeat (destruct Hs as [<-|Hs]; [cbn in *; tauto|]). destruct Hs.
  - intro H.
    specialize (H (mk_site 3 (nth 3 (f_blocks w4) (mk_block 1 "" [])) 0
                           (IPhi 3 "p" I32 [(2%positive, Loc 2); (3%positive, Loc 2)]))
                  3%positive "p" I32 [(2%positive, Loc 2); (3%positive, Loc 2)]).
    cbn in H.
    destruct (H (or_intror (or_intror (or_intror (or_intror (or_intror (or_introl eq_refl))))))
                eq_refl 3%positive 2%positive (or_intror (or_introl eq_refl)))
      as (bj & q & t & E & D).
    vm_compute in E. injection E as <- <- <-.
    assert (P : path (cfg w4) 0 [0; 2] 2).
    { apply path_step with (w := 2); [|apply path_one]. split; vm_compute; auto. }
    apply D in P. cbn in P. intuition discriminate.
Qed.

(* a well-formed function that the verifier accepts (hypotheses are inhabited) *)
Definition w0 : func := mk_func "f" BGlobal (Some I32) [("a", I32)]
  [mk_block 1 "entry" [IConst 1 "c" I32 (CInt 1); ICJump (Param 0) Ceq (Loc 1) 2 3];
   mk_block 2 "yes" [IBinop 2 "x" I32 Mul (Param 0) (Param 0); IJump 3];
   mk_block 3 "join" [IPhi 3 "p" I32 [(1%positive, Loc 1); (2%positive, Loc 2)]; IReturn (Loc 3)]].
Definition w0_st := mk_vstate [[[]; [Param 0; Loc 1]]; [[Param 0]; []]; [[Loc 1; Loc 2]; [Loc 3]]]
                              [[]; [1%positive]; [1%positive; 2%positive]].
Lemma w0_ok : verify_function v_as_found (mod_of w0) w0 w0_st = Ok tt /\ wf_function_b (mod_of w0) w0 = true.
Proof. split; vm_compute; reflexivity. Qed.

(* ---------------------------------------------------------------- the repaired verifier *)
Lemma vref_mem_In r l : vref_mem r l = true -> In r l.
Proof.
  unfold vref_mem. rewrite existsb_exists. intros (x & H1 & H2).
  apply vref_eqb_spec in H2. now subst.
Qed.

Definition wf_phi_preds_exact (f : func) : Prop :=
  forall s v n t ins, In s (sites f) -> s_ins s = IPhi v n t ins ->
    forall pb, In pb (map fst ins) <-> is_pred f pb (s_blk s).
Definition wf_unop_typed (f : func) : Prop :=
  forall s v n t o a, In s (sites f) -> s_ins s = IUnop v n t o a -> ty_of f a = Some t.

Section F.
Variable vx : vfixes.
Variable m : modul.
Variable f : func.
Variable st : vstate.
Hypothesis HV : verify_function vx m f st = Ok tt.

(* C03-verifier-uses-match-operands: the hypothesis uses_cover becomes a checked fact *)
Lemma vf_uses_cover : vx_uses vx = true -> uses_cover f st.
Proof.
  intros X s Hs r Hr.
  destruct (verify_parts vx m f st HV) as (_ & _ & _ & _ & _ & H).
  destruct (enum_In _ _ Hs) as [idx Hidx].
  pose proof (all_ok_spec _ _ H _ Hidx) as C. unfold verify_instruction in C.
  apply bind_ok_unit in C. destruct C as [_ C].
  apply bind_ok_unit in C. destruct C as [_ C].
  apply bind_ok_unit in C. destruct C as [C _]. rewrite X in C.
  apply assert_ok in C. apply andb_true_iff in C. destruct C as [_ C].
  rewrite forallb_forall in C. apply vref_mem_In. auto.
Qed.

(* C03-verifier-phi-inputs *)
Lemma vf_phi_exact : vx_phi_exact vx = true -> wf_phi_preds_exact f.
Proof.
  intros X s v n t ins Hs E pb. split; [|eapply v_phi_preds_weak; eauto].
  intro Hin.
  destruct (verify_parts vx m f st HV) as (_ & _ & _ & H4 & H5 & _).
  pose proof (all_ok_spec _ _ H5 _ Hs) as C. unfold check_phi_inputs in C. rewrite E in C.
  apply bind_ok_unit in C. destruct C as [C _]. rewrite X in C. apply assert_ok in C.
  apply andb_true_iff in C. destruct C as [C _]. rewrite forallb_forall in C.
  apply C in Hin.
  rewrite forallb_forall in H4. specialize (H4 _ (sites_block f s Hs)).
  unfold preds_match in H4. apply andb_true_iff in H4. destruct H4 as [_ H4].
  rewrite forallb_forall in H4. apply mem_pos_In in Hin. apply H4 in Hin.
  apply mem_pos_In in Hin. now apply preds_of_spec.
Qed.

(* C03-verifier-unop-type *)
Lemma vf_unop : vx_unop vx = true -> wf_unop_typed f.
Proof.
  intros X s v n t o a Hs E.
  destruct (verify_parts vx m f st HV) as (_ & _ & _ & _ & _ & H).
  destruct (enum_In _ _ Hs) as [idx Hidx].
  pose proof (all_ok_spec _ _ H _ Hidx) as C. unfold verify_instruction in C.
  apply bind_ok_unit in C. destruct C as [_ C].
  apply bind_ok_unit in C. destruct C as [C _]. rewrite E in C. cbn in C. rewrite X in C.
  apply check_ok in C; [|discriminate]. now apply ty_is_sound.
Qed.

(* C03-verifier-phi-dominance-all-inputs *)
Lemma vf_dom_phi : vx_phi_all vx = true -> uses_cover f st -> wf_dom_phi f.
Proof.
  intros X HC s v n t ins Hs E pb w Hin.
  assert (Hr : In (Loc w) (instr_uses (s_ins s))).
  { rewrite E. cbn. apply (in_map snd) in Hin. exact Hin. }
  pose proof (use_checked vx m f st HV s (Loc w) HC Hs Hr) as D.
  unfold instruction_dominates in D.
  destruct (def_site f w) as [[[bj q] t']|]; [|discriminate].
  exists bj, q, t'. split; auto. rewrite E, X in D. cbv zeta in D.
  assert (Hf : In (pb, Loc w) (filter (fun p => vref_eqb (snd p) (Loc w)) ins)).
  { apply filter_In. split; auto. cbn. now apply vref_eqb_spec. }
  destruct (filter (fun p => vref_eqb (snd p) (Loc w)) ins) as [|p0 l0] eqn:EF; [destruct Hf|].
  pose proof (all_true_spec _ _ D pb (in_map fst _ _ Hf)) as V. cbn beta in V.
  match type of V with context [if ?c then _ else _] => destruct c end; [|discriminate].
  injection V as V. apply dominates_plain_spec in V. destruct V as [[-> _]|[_ V]]; auto.
  apply dominates_self.
Qed.
End F.

(* with the four repairs, acceptance needs no hypothesis about the bookkeeping and also gives the
   exact phi-input clause, phi dominance on every input and the Unop typing *)
Theorem verifier_fixed_sound m f st :
  verify_function v_all_fixed m f st = Ok tt ->
  wf_function_except_gaps m f /\ uses_cover f st /\ wf_phi_preds_exact f /\ wf_dom_phi f /\
  wf_unop_typed f.
Proof.
  intro HV.
  assert (HC : uses_cover f st) by (eapply vf_uses_cover; eauto).
  split; [eapply verifier_sound; eauto|]. split; auto. split; [eapply vf_phi_exact; eauto|].
  split; [eapply vf_dom_phi; eauto | eapply vf_unop; eauto].
Qed.

(* the gap witnesses are rejected by the repaired verifier *)
Lemma witnesses_rejected :
  verify_function v_all_fixed (mod_of w1) w1 w1_st <> Ok tt /\
  verify_function v_all_fixed (mod_of w2) w2 w2_st <> Ok tt /\
  verify_function v_all_fixed (mod_of w3) w3 w3_st <> Ok tt /\
  verify_function v_all_fixed (mod_of w4) w4 w4_st <> Ok tt /\
  verify_function v_all_fixed (mod_of w0) w0 w0_st = Ok tt.
Proof. repeat split; vm_compute; congruence. Qed.
