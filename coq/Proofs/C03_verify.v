(* Proofs/C03_verify.v — what acceptance by the (model of the) ppci verifier guarantees.
   Partial soundness: if verify_function returns normally and the stored `uses` cover the real
   operands, the function satisfies the clauses wf_entry, wf_shape, wf_reachable, wf_dom and the
   weak form of wf_phi_preds (every predecessor has an input).  The clauses the verifier does NOT
   establish are refuted one by one in Props/C03.v (accepted, yet not well-formed). *)
From PV Require Import Lib.Py Spec.IRSyntax Spec.CfgSpec Spec.IRWf Model.DomRef Model.IRWfCheck
  Model.Verify Proofs.C25_ref Proofs.C03_wf.
From Coq Require Import String.
Open Scope nat_scope.

Lemma bind_ok_unit (a : result unit) (b : unit -> result unit) :
  bind a b = Ok tt -> a = Ok tt /\ b tt = Ok tt.
Proof. destruct a as [[]| | |]; cbn; try discriminate. auto. Qed.

Lemma all_ok_spec {A} (chk : A -> result unit) l :
  all_ok chk l = Ok tt -> forall x, In x l -> chk x = Ok tt.
Proof.
  induction l as [|y r IH]; cbn; [tauto|].
  intro H. apply bind_ok_unit in H. destruct H as [H1 H2].
  intros x [->|Hx]; auto.
Qed.

Lemma check_ok c e : e <> Ok tt -> check c e = Ok tt -> c = true.
Proof. unfold check. destruct c; auto; intros H1 H2; contradiction. Qed.
Lemma assert_ok c : assert_ c = Ok tt -> c = true.
Proof. apply check_ok. discriminate. Qed.

Lemma enum_In_gen {A} (l : list A) : forall s x, In x l ->
  exists i, In (i, x) (combine (seq s (List.length l)) l).
Proof.
  induction l as [|y r IH]; cbn; [tauto|].
  intros s x [->|H].
  - exists s. now left.
  - destruct (IH (S s) x H) as [i Hi]. exists i. now right.
Qed.
Lemma enum_In {A} (l : list A) x : In x l -> exists i, In (i, x) (enum l).
Proof. apply enum_In_gen. Qed.

Lemma sites_block f s : In s (sites f) -> In (s_bi s, s_blk s) (enum (f_blocks f)).
Proof.
  unfold sites. rewrite in_flat_map. intros ((bi, k) & H1 & H2).
  unfold block_sites in H2. apply in_map_iff in H2. destruct H2 as (pi & E & _).
  subst s. exact H1.
Qed.

(* the stored uses contain every real operand (the bookkeeping oracle of the check establishes
   this for the real objects; the verifier itself never looks at the operands for dominance) *)
Definition uses_cover (f : func) (st : vstate) : Prop :=
  forall s, In s (sites f) -> forall r, In r (instr_uses (s_ins s)) ->
    In r (uses_at st (s_bi s) (s_pos s)).

Definition wf_phi_preds_weak (f : func) : Prop :=
  forall s v n t ins, In s (sites f) -> s_ins s = IPhi v n t ins ->
    forall pb, is_pred f pb (s_blk s) -> In pb (map fst ins).

Section S.
Variable m : modul.
Variable f : func.
Variable st : vstate.
Hypothesis HV : verify_function m f st = Ok tt.

Lemma verify_parts :
  all_ok (check_block_head f) (enum (f_blocks f)) = Ok tt /\
  negb (Nat.eqb (List.length (f_blocks f)) 0) = true /\
  reachable_b f = true /\
  forallb (preds_match f st) (enum (f_blocks f)) = true /\
  all_ok (check_phi_inputs st) (sites f) = Ok tt /\
  all_ok (verify_instruction m f st) (sites f) = Ok tt.
Proof.
  unfold verify_function in HV.
  apply bind_ok_unit in HV. destruct HV as [H1 H].
  apply bind_ok_unit in H. destruct H as [H2 H].
  apply bind_ok_unit in H. destruct H as [H3 H].
  apply bind_ok_unit in H. destruct H as [H4 H].
  apply bind_ok_unit in H. destruct H as [H5 H6].
  repeat split; auto.
  - apply check_ok in H2; [auto|discriminate].
  - now apply assert_ok.
  - now apply assert_ok.
Qed.

Lemma v_entry : wf_entry f.
Proof.
  destruct verify_parts as (_ & H & _). intro E. rewrite E in H. discriminate.
Qed.

Lemma v_shape : wf_shape f.
Proof.
  destruct verify_parts as (H & _). intros k Hk.
  destruct (enum_In _ _ Hk) as [bi Hbi].
  pose proof (all_ok_spec _ _ H _ Hbi) as C. unfold check_block_head in C.
  apply bind_ok_unit in C. destruct C as [_ C].
  apply shape_b_spec. unfold shape_b.
  destruct (rev (b_ins k)) as [|t body]; [discriminate|].
  apply bind_ok_unit in C. destruct C as [C1 C]. apply check_ok in C1; [|discriminate].
  apply bind_ok_unit in C. destruct C as [C2 _]. apply assert_ok in C2.
  now rewrite C1, C2.
Qed.

Lemma v_reachable : wf_reachable f.
Proof.
  destruct verify_parts as (_ & _ & H & _). intros n Hn.
  unfold reachable_b in H. rewrite forallb_forall in H.
  apply reachable_ref_correct. unfold reachable_ref. apply H. apply in_seq. lia.
Qed.

Lemma dominates_plain_spec bj q bi p : dominates_plain f bj q bi p = true ->
  (bj = bi /\ q < p) \/ (bj <> bi /\ dominates (cfg f) 0 bj bi).
Proof.
  unfold dominates_plain. destruct (Nat.eqb bj bi) eqn:E; intro H.
  - apply Nat.eqb_eq in E. apply Nat.ltb_lt in H. auto.
  - apply Nat.eqb_neq in E. right. split; auto.
    unfold sdom_b in H. apply andb_true_iff in H. destruct H as [H _].
    now apply dom_ref_correct.
Qed.

Lemma v_dom : uses_cover f st -> wf_dom f.
Proof.
  intros HC s Hs Hphi v Hv.
  destruct verify_parts as (_ & _ & _ & _ & _ & H).
  pose proof (all_ok_spec _ _ H _ Hs) as C. unfold verify_instruction in C.
  apply bind_ok_unit in C. destruct C as [_ C].
  apply bind_ok_unit in C. destruct C as [_ C].
  pose proof (all_ok_spec _ _ C _ (HC s Hs _ Hv)) as D. cbn beta in D.
  unfold instruction_dominates in D.
  destruct (def_site f v) as [[[bj q] t]|]; [|discriminate].
  exists bj, q, t. split; auto.
  destruct (s_ins s); try discriminate Hphi; cbn in D; apply assert_ok in D;
    now apply dominates_plain_spec.
Qed.

Lemma v_phi_preds_weak : wf_phi_preds_weak f.
Proof.
  intros s v n t ins Hs E pb Hp.
  destruct verify_parts as (_ & _ & _ & H4 & H5 & _).
  rewrite forallb_forall in H4. specialize (H4 _ (sites_block f s Hs)).
  unfold preds_match in H4. apply andb_true_iff in H4. destruct H4 as [H4 _].
  rewrite forallb_forall in H4. apply preds_of_spec in Hp. apply H4 in Hp.
  apply mem_pos_In in Hp.
  pose proof (all_ok_spec _ _ H5 _ Hs) as C. unfold check_phi_inputs in C. rewrite E in C.
  pose proof (all_ok_spec _ _ C _ Hp) as D. cbn beta in D.
  unfold phi_get in D. destruct (find (fun p => Pos.eqb (fst p) pb) ins) as [p|] eqn:F;
    [|discriminate].
  apply find_some in F. destruct F as [F1 F2]. apply Pos.eqb_eq in F2. subst pb.
  apply in_map. exact F1.
Qed.
End S.

Theorem verifier_sound_partial m f st :
  verify_function m f st = Ok tt -> uses_cover f st ->
  wf_entry f /\ wf_shape f /\ wf_reachable f /\ wf_dom f /\ wf_phi_preds_weak f.
Proof.
  intros HV HC. repeat split.
  - eapply v_entry; eauto.
  - eapply v_shape; eauto.
  - eapply v_reachable; eauto.
  - eapply v_dom; eauto.
  - eapply v_phi_preds_weak; eauto.
Qed.

(* ---------------------------------------------------------------- what the verifier misses *)
Open Scope string_scope.
Definition mod_of (f : func) : modul := mk_modul "m" [] [] [f].

(* W1: output shape of CleanPass.glue_blocks on  entry: c; jmp b  /  b: p = phi entry: c; return p
   — a phi whose input block is not a predecessor.  Accepted. *)
Definition w1 : func := mk_func "f" BGlobal (Some I32) []
  [mk_block 1 "entry" [IConst 1 "c" I32 (CInt 1); IPhi 2 "p" I32 [(1%positive, Loc 1)];
                       IReturn (Loc 2)]].
Definition w1_st := mk_vstate [[[]; [Loc 1]; [Loc 2]]] [[]].
Lemma w1_accepted_not_wf :
  verify_function (mod_of w1) w1 w1_st = Ok tt /\ uses_cover w1 w1_st /\ ~ wf_phi_preds w1.
Proof.
  split; [vm_compute; reflexivity|]. split.
  - intros s Hs r Hr. cbn in Hs.
    destruct Hs as [<-|[<-|[<-|[]]]]; cbn in *; tauto.
  - intro H.
    specialize (H (mk_site 0 (mk_block 1 "entry" (b_ins (hd (mk_block 1 "" []) (f_blocks w1))))
                           1 (IPhi 2 "p" I32 [(1%positive, Loc 1)])) 2%positive "p" I32
                  [(1%positive, Loc 1)]).
    cbn in H. destruct H as [_ H]; auto.
    destruct (proj1 (H 1%positive) (or_introl eq_refl)) as (k' & Hin & E & Hs).
    cbn in Hin. destruct Hin as [<-|[]]. cbn in Hs. exact Hs.
Qed.

(* W2: the dominance check reads the stored `uses`, not the operands: with a stale set a use
   before the definition is accepted *)
Definition w2 : func := mk_func "f" BGlobal (Some I32) []
  [mk_block 1 "entry" [IBinop 1 "x" I32 Add (Loc 2) (Loc 2); IConst 2 "c" I32 (CInt 1);
                       IReturn (Loc 1)]].
Definition w2_st := mk_vstate [[[]; []; [Loc 1]]] [[]].
Lemma w2_accepted_not_wf :
  verify_function (mod_of w2) w2 w2_st = Ok tt /\ ~ wf_dom w2.
Proof.
  split; [vm_compute; reflexivity|]. intro H.
  specialize (H (mk_site 0 (hd (mk_block 1 "" []) (f_blocks w2)) 0
                         (IBinop 1 "x" I32 Add (Loc 2) (Loc 2)))).
  cbn in H. destruct (H (or_introl eq_refl) eq_refl 2%positive (or_introl eq_refl))
    as (bj & q & t & E & D).
  vm_compute in E. injection E as <- <- <-.
  destruct D as [[_ D]|[D _]]; [inversion D|congruence].
Qed.

(* W3: operand type of a unary operation is not checked *)
Definition w3 : func := mk_func "f" BGlobal (Some I32) []
  [mk_block 1 "entry" [IConst 1 "c" I8 (CInt 1); IUnop 2 "u" I32 Neg (Loc 1); IReturn (Loc 2)]].
Definition w3_st := mk_vstate [[[]; [Loc 1]; [Loc 2]]] [[]].
Lemma w3_accepted_not_wf :
  verify_function (mod_of w3) w3 w3_st = Ok tt /\ uses_cover w3 w3_st /\ ~ wf_types (mod_of w3) w3.
Proof.
  split; [vm_compute; reflexivity|]. split.
  - intros s Hs r Hr. cbn in Hs.
    destruct Hs as [<-|[<-|[<-|[]]]]; cbn in *; tauto.
  - intro H.
    specialize (H (mk_site 0 (hd (mk_block 1 "" []) (f_blocks w3)) 1 (IUnop 2 "u" I32 Neg (Loc 1)))).
    cbn in H. specialize (H (or_intror (or_introl eq_refl))). vm_compute in H. discriminate H.
Qed.

(* a well-formed function that the verifier accepts (hypotheses are inhabited) *)
Definition w0 : func := mk_func "f" BGlobal (Some I32) [("a", I32)]
  [mk_block 1 "entry" [IConst 1 "c" I32 (CInt 1); ICJump (Param 0) Ceq (Loc 1) 2 3];
   mk_block 2 "yes" [IBinop 2 "x" I32 Mul (Param 0) (Param 0); IJump 3];
   mk_block 3 "join" [IPhi 3 "p" I32 [(1%positive, Loc 1); (2%positive, Loc 2)]; IReturn (Loc 3)]].
Definition w0_st := mk_vstate [[[]; [Param 0; Loc 1]]; [[Param 0]; []]; [[Loc 1; Loc 2]; [Loc 3]]]
                              [[]; [1%positive]; [1%positive; 2%positive]].
Lemma w0_ok : verify_function (mod_of w0) w0 w0_st = Ok tt /\ wf_function_b (mod_of w0) w0 = true.
Proof. split; vm_compute; reflexivity. Qed.
