(* Proofs/C21_module.v — C21: sections and whole modules round-trip. *)
From PV Require Import Lib.Py Lib.Tac Model.WasmTypes Gen.Tab_wasm_opcodes Model.WasmBin
  Proofs.C21_leb Proofs.C21_instr Proofs.C21_defs.
From Coq Require Import String.
Local Open Scope string_scope.
Local Open Scope list_scope.
Open Scope Z_scope.

Definition add_defs (st : rstate) (l : list defn) : rstate :=
  RState (type4func st) (definitions st ++ l).

Lemma add_defs_nil st : add_defs st [] = st.
Proof. destruct st. unfold add_defs. cbn. now rewrite app_nil_r. Qed.

Lemma add_defs_app st a b : add_defs (add_defs st a) b = add_defs st (a ++ b).
Proof. unfold add_defs. cbn. now rewrite app_assoc. Qed.

Lemma read_sections_nil f st : (0 < f)%nat -> read_sections f st [] = Ok st.
Proof. destruct f; [lia|reflexivity]. Qed.

(* one size-prefixed section *)
Lemma wrap_step id payload s st st' :
  u7 id = true -> wrap_section id payload = Ok s ->
  read_section id st payload = Ok (st', []) ->
  forall f rest, read_sections (S f) st (s ++ rest) = read_sections f st' rest.
Proof.
  intros Hid Hs Hr f rest. unfold wrap_section in Hs. rewrite (write_vu7_bytes _ Hid) in Hs.
  cbn [bind] in Hs. destruct (write_vu32 (len payload)) as [l| | |] eqn:El; try discriminate.
  cbn [bind] in Hs. injection Hs as <-. cbn [app read_sections].
  unfold read_length_prefixed_bytes. rewrite <- app_assoc, (write_vu32_sound _ _ El). cbn [bind].
  rewrite read_exactly_app. cbn [bind]. unfold with_pushed_data. rewrite Hr. reflexivity.
Qed.

Lemma read_vec_ext {A} (r1 r2 : reader A) : (forall bs, r1 bs = r2 bs) ->
  forall n bs, read_vec n r1 bs = read_vec n r2 bs.
Proof.
  intros H. induction n as [|n IH]; intros bs; cbn [read_vec]; [reflexivity|].
  rewrite H. destruct (r2 bs) as [[x r]| | |]; cbn [bind]; auto. now rewrite IH.
Qed.

Lemma read_defs_vec name : String.eqb name "func" = false ->
  forall t n i bs, read_defs n i name t bs = read_vec n (read_definition name) bs.
Proof.
  intros Hn t. induction n as [|n IH]; intros i bs; cbn [read_defs read_vec]; [reflexivity|].
  rewrite Hn. destruct (read_definition name bs) as [[x r]| | |]; cbn [bind]; auto. now rewrite IH.
Qed.

(* ------------------------------------------------------------------ count-prefixed sections *)
Definition std_write (defs : list defn) (name : string) (id : Z) : result bytes :=
  let ds := filter (has_name name) defs in
  match ds with
  | [] => Ok []
  | _ :: _ =>
      c <- write_vu32 (len ds) ;; x <- write_all write_definition ds ;; wrap_section id (c ++ x)
  end.

Definition std_read (name : string) (st : rstate) : reader rstate :=
  fun bs =>
    '(n, r) <- read_uint bs ;;
    '(l, r1) <- read_defs (Z.to_nat n) 0 name (type4func st) r ;;
    Ok (RState (type4func st) (definitions st ++ l), r1).

Lemma std_section defs name id rd :
  u7 id = true ->
  write_section defs name id = std_write defs name id ->
  (forall st bs, read_section id st bs = std_read name st bs) ->
  String.eqb name "func" = false ->
  (forall bs, read_definition name bs = rd bs) ->
  Forall (fun d => rt (write_definition d) rd d) (filter (has_name name) defs) ->
  forall s, write_section defs name id = Ok s ->
  forall f st rest, (0 < f)%nat ->
    exists f', (f <= S f')%nat /\
      read_sections f st (s ++ rest) = read_sections f' (add_defs st (filter (has_name name) defs)) rest.
Proof.
  intros Hid Hws Hrs Hnf Hrd Hall s Hs f st rest Hf.
  rewrite Hws in Hs. unfold std_write in Hs. cbv zeta in Hs.
  destruct (filter (has_name name) defs) as [|d0 l] eqn:Eds.
  - injection Hs as <-. exists f. split; [lia|]. now rewrite add_defs_nil.
  - set (ds := d0 :: l) in *.
    destruct (write_vu32 (len ds)) as [c| | |] eqn:Ec; try discriminate. cbn [bind] in Hs.
    destruct (write_all_rt _ _ _ Hall) as (x & Wx & Rx). rewrite Wx in Hs. cbn [bind] in Hs.
    destruct f as [|f']; [lia|]. exists f'. split; [lia|].
    apply (wrap_step id (c ++ x) s st); auto.
    rewrite Hrs. unfold std_read.
    replace (c ++ x) with (c ++ x ++ []) by now rewrite app_nil_r.
    rewrite (write_vu32_sound _ _ Ec). cbn [bind].
    replace (Z.to_nat (len ds)) with (List.length ds) by (unfold len; lia).
    rewrite (read_defs_vec _ Hnf). rewrite (read_vec_ext _ _ Hrd). rewrite Rx. reflexivity.
Qed.

(* ------------------------------------------------------------------ single-definition sections *)
Definition single_write (defs : list defn) (name : string) (id : Z) : result bytes :=
  let ds := filter (has_name name) defs in
  match ds with
  | [] => Ok []
  | d0 :: _ =>
      if negb (Nat.eqb (List.length ds) 1) then Internal AssertionError
      else p <- write_definition d0 ;; wrap_section id p
  end.

Lemma single_section defs name id rd :
  u7 id = true ->
  write_section defs name id = single_write defs name id ->
  (forall st bs, read_section id st bs =
      ('(d, r) <- rd bs ;; Ok (RState (type4func st) (definitions st ++ [d]), r))) ->
  Forall (fun d => rt (write_definition d) rd d) (filter (has_name name) defs) ->
  forall s, write_section defs name id = Ok s ->
  forall f st rest, (0 < f)%nat ->
    exists f', (f <= S f')%nat /\
      read_sections f st (s ++ rest) = read_sections f' (add_defs st (filter (has_name name) defs)) rest.
Proof.
  intros Hid Hws Hrs Hall s Hs f st rest Hf.
  rewrite Hws in Hs. unfold single_write in Hs. cbv zeta in Hs.
  destruct (filter (has_name name) defs) as [|d0 l] eqn:Eds.
  - injection Hs as <-. exists f. split; [lia|]. now rewrite add_defs_nil.
  - destruct l as [|d1 l]; [|cbn in Hs; discriminate]. cbn [List.length Nat.eqb negb] in Hs.
    inversion Hall as [|? ? H0 _]; subst. destruct H0 as (p & Wp & Rp).
    rewrite Wp in Hs. cbn [bind] in Hs.
    destruct f as [|f']; [lia|]. exists f'. split; [lia|].
    apply (wrap_step id p s st); auto.
    rewrite Hrs. replace p with (p ++ []) by now rewrite app_nil_r. rewrite Rp. reflexivity.
Qed.

(* ------------------------------------------------------------------ custom sections *)
Lemma custom_sections ds :
  Forall (fun d => wf_defn d = true /\ has_name "custom" d = true) ds ->
  forall s, write_all (write_custom_section 0) ds = Ok s ->
  forall f st rest, (List.length ds < f)%nat ->
    read_sections f st (s ++ rest) = read_sections (f - List.length ds) (add_defs st ds) rest.
Proof.
  induction 1 as [|d ds [Hwf Hname] Hds IH]; intros s Hs f st rest Hf.
  - cbn in Hs. injection Hs as <-. cbn [app List.length]. rewrite add_defs_nil.
    now rewrite Nat.sub_0_r.
  - cbn [write_all] in Hs.
    destruct (write_custom_section 0 d) as [a| | |] eqn:Ea; try discriminate. cbn [bind] in Hs.
    destruct (write_all (write_custom_section 0) ds) as [b| | |] eqn:Eb; try discriminate.
    cbn [bind] in Hs. injection Hs as <-.
    destruct d; try (vm_compute in Hname; discriminate Hname).
    destruct (defn_custom_sound _ _ Hwf) as (p & Wp & Rp).
    unfold write_custom_section in Ea. rewrite Wp in Ea. cbn [bind] in Ea.
    cbn [List.length] in *. destruct f as [|f']; [lia|].
    rewrite <- app_assoc.
    rewrite (wrap_step 0 p a st (add_defs st [DCustom name data])); auto.
    + rewrite (IH b eq_refl) by lia. rewrite add_defs_app. reflexivity.
    + change (read_section 0 st p) with
        ('(d, r) <- read_custom_definition p ;; Ok (RState (type4func st) (definitions st ++ [d]), r)).
      rewrite Rp. reflexivity.
Qed.

(* ------------------------------------------------------------------ function + code sections *)
Definition tref (d : defn) : Z := snd (func_ref d).

Definition function_write (defs : list defn) (id : Z) : result bytes :=
  let fs := filter (has_name "func") defs in
  match fs with
  | [] => Ok []
  | _ :: _ =>
      c <- write_vu32 (len fs) ;; x <- write_all (fun d => write_ref (func_ref d)) fs ;;
      wrap_section id (c ++ x)
  end.

Definition set_t4f (st : rstate) (l : list Z) : rstate :=
  RState (l ++ skipn (List.length l) (type4func st)) (definitions st).

Lemma write_all_map {A B} (g : A -> B) (w : B -> result bytes) l :
  write_all (fun x => w (g x)) l = write_all w (map g l).
Proof. induction l as [|x l IH]; cbn [write_all map]; [reflexivity|]. now rewrite IH. Qed.

Lemma function_section defs :
  Forall (fun d => u35 (tref d) = true) (filter (has_name "func") defs) ->
  forall s, function_write defs 3 = Ok s ->
  forall f st rest, (0 < f)%nat ->
    exists f', (f <= S f')%nat /\
      read_sections f st (s ++ rest) =
      read_sections f' (set_t4f st (map tref (filter (has_name "func") defs))) rest.
Proof.
  intros Hall s Hs f st rest Hf. unfold function_write in Hs. cbv zeta in Hs.
  destruct (filter (has_name "func") defs) as [|d0 l] eqn:Efs.
  - injection Hs as <-. exists f. split; [lia|]. destruct st. reflexivity.
  - set (fs := d0 :: l) in *.
    destruct (write_vu32 (len fs)) as [c| | |] eqn:Ec; try discriminate. cbn [bind] in Hs.
    change (fun d : defn => write_ref (func_ref d)) with (fun d : defn => write_vu32 (tref d)) in Hs.
    rewrite (write_all_map tref write_vu32) in Hs.
    assert (Hz : Forall (fun z => rt (write_vu32 z) read_uint z) (map tref fs)).
    { clear -Hall. induction Hall; cbn [map]; constructor; auto. now apply write_vu32_rt. }
    destruct (write_all_rt _ _ _ Hz) as (x & Wx & Rx). rewrite Wx in Hs. cbn [bind] in Hs.
    destruct f as [|f']; [lia|]. exists f'. split; [lia|].
    apply (wrap_step 3 (c ++ x) s st); auto.
    change (read_section 3 st (c ++ x)) with
      ('(n, r) <- read_uint (c ++ x) ;;
       '(l, r1) <- read_vec (Z.to_nat n) read_uint r ;;
       Ok (RState (l ++ skipn (List.length l) (type4func st)) (definitions st), r1)).
    replace (c ++ x) with (c ++ x ++ []) by now rewrite app_nil_r.
    rewrite (write_vu32_sound _ _ Ec). cbn [bind].
    replace (Z.to_nat (len fs)) with (List.length (map tref fs)) by (rewrite map_length; unfold len; lia).
    rewrite Rx. reflexivity.
Qed.

Lemma read_funcs t4f x : forall l pre b rest,
  Forall (fun d => wf_defn d = true /\ has_name "func" d = true) l ->
  t4f = map tref (pre ++ l) ++ x ->
  write_all write_definition l = Ok b ->
  read_defs (List.length l) (List.length pre) "func" t4f (b ++ rest) = Ok (l, rest).
Proof.
  induction l as [|d l IH]; intros pre b rest Hall Ht Hb.
  - cbn in Hb. injection Hb as <-. reflexivity.
  - inversion Hall as [|? ? [Hwf Hname] Hl]; subst.
    cbn [write_all] in Hb.
    destruct (write_definition d) as [a| | |] eqn:Ea; try discriminate. cbn [bind] in Hb.
    destruct (write_all write_definition l) as [b'| | |] eqn:Eb; try discriminate.
    cbn [bind] in Hb. injection Hb as <-.
    destruct d; try (vm_compute in Hname; discriminate Hname).
    cbn [List.length read_defs]. cbn [String.eqb Ascii.eqb Bool.eqb].
    rewrite <- app_assoc.
    rewrite (defn_func_sound _ _ _ Hwf _ Ea).
    + cbn [bind]. replace (S (List.length pre)) with (List.length (pre ++ [DFunc r locals instructions]))
        by (rewrite app_length; cbn; lia).
      rewrite (IH (pre ++ [DFunc r locals instructions]) b' rest Hl); [reflexivity| |reflexivity].
      now rewrite <- app_assoc.
    + rewrite map_app, <- app_assoc. rewrite nth_error_app2 by (rewrite map_length; lia).
      rewrite map_length, Nat.sub_diag. reflexivity.
Qed.

Lemma func_section defs x :
  Forall (fun d => wf_defn d = true /\ has_name "func" d = true) (filter (has_name "func") defs) ->
  forall s, std_write defs "func" 10 = Ok s ->
  forall f st rest, (0 < f)%nat ->
    type4func st = map tref (filter (has_name "func") defs) ++ x ->
    exists f', (f <= S f')%nat /\
      read_sections f st (s ++ rest) = read_sections f' (add_defs st (filter (has_name "func") defs)) rest.
Proof.
  intros Hall s Hs f st rest Hf Ht. unfold std_write in Hs. cbv zeta in Hs.
  destruct (filter (has_name "func") defs) as [|d0 l] eqn:Efs.
  - injection Hs as <-. exists f. split; [lia|]. now rewrite add_defs_nil.
  - set (fs := d0 :: l) in *.
    destruct (write_vu32 (len fs)) as [c| | |] eqn:Ec; try discriminate. cbn [bind] in Hs.
    destruct (write_all write_definition fs) as [b| | |] eqn:Eb; try discriminate. cbn [bind] in Hs.
    destruct f as [|f']; [lia|]. exists f'. split; [lia|].
    apply (wrap_step 10 (c ++ b) s st); auto.
    change (read_section 10 st (c ++ b)) with (std_read "func" st (c ++ b)). unfold std_read.
    replace (c ++ b) with (c ++ b ++ []) by now rewrite app_nil_r.
    rewrite (write_vu32_sound _ _ Ec). cbn [bind].
    replace (Z.to_nat (len fs)) with (List.length fs) by (unfold len; lia).
    pose proof (read_funcs (type4func st) x fs [] b [] Hall Ht Eb) as HR.
    change (List.length (@nil defn)) with 0%nat in HR. rewrite HR. reflexivity.
Qed.

(* ------------------------------------------------------------------ whole modules *)
Definition count_name (name : string) (defs : list defn) : nat :=
  List.length (filter (has_name name) defs).

Definition wf_module (defs : list defn) : bool := forallb wf_defn defs.

Lemma filter_wf defs name : forallb wf_defn defs = true ->
  Forall (fun d => wf_defn d = true /\ has_name name d = true) (filter (has_name name) defs).
Proof.
  intros H. apply Forall_forall. intros d Hd. apply filter_In in Hd. destruct Hd as [Hin Hn].
  rewrite forallb_forall in H. auto.
Qed.

Ltac by_name Hn := destruct Hn as [Hwd Hn]; match goal with d : defn |- _ =>
  destruct d; try (vm_compute in Hn; discriminate Hn) end.

Ltac std_rt defs name lem :=
  let H := fresh in
  eapply Forall_impl; [|apply (filter_wf defs name); assumption];
  intros d H; by_name H; now apply lem.

Lemma write_all_cons_inv {A} (w : A -> result bytes) x l bs :
  write_all w (x :: l) = Ok bs -> exists a b, w x = Ok a /\ write_all w l = Ok b /\ bs = a ++ b.
Proof.
  cbn [write_all]. destruct (w x) as [a| | |]; try discriminate. cbn [bind].
  destruct (write_all w l) as [b| | |]; try discriminate. cbn [bind].
  intros H. injection H as <-. eauto.
Qed.

Ltac inv_cons H a E :=
  let b := fresh "b" in
  apply write_all_cons_inv in H; destruct H as (a & b & E & H & ->).

Lemma filter_len_le {A} (p : A -> bool) l : (List.length (filter p l) <= List.length l)%nat.
Proof. induction l as [|x l IH]; cbn; [lia|]. destruct (p x); cbn; lia. Qed.

Lemma read_header_ok rest : read_header (header ++ rest) = Ok (tt, rest).
Proof.
  unfold header.
  change ([0; 97; 115; 109; 1; 0; 0; 0] ++ rest) with ([0; 97; 115; 109] ++ [1; 0; 0; 0] ++ rest).
  unfold read_header. rewrite (read_exactly_n 4 [0; 97; 115; 109]) by reflexivity. cbn [bind].
  rewrite (read_exactly_n 4 [1; 0; 0; 0]) by reflexivity. reflexivity.
Qed.

Theorem module_roundtrip defs bs fuel :
  wf_module defs = true -> write_module defs = Ok bs ->
  (List.length defs + 14 < fuel)%nat ->
  read_module fuel bs = Ok (canonical_order defs).
Proof.
  unfold wf_module. intros Hwf Hw Hfuel.
  unfold write_module, write_sections in Hw.
  change section_ids with
    [("custom", 0); ("type", 1); ("import", 2); ("function", 3); ("table", 4); ("memory", 5);
     ("global", 6); ("export", 7); ("start", 8); ("elem", 9); ("func", 10); ("code", 10);
     ("data", 11); ("datacount", 12)] in Hw.
  match type of Hw with bind ?e _ = Ok _ => destruct e as [S| | |] eqn:ES; try discriminate Hw end.
  cbn [bind] in Hw. injection Hw as <-.
  inv_cons ES s E. inv_cons ES s0 E0. inv_cons ES s1 E1. inv_cons ES s2 E2. inv_cons ES s3 E3.
  inv_cons ES s4 E4. inv_cons ES s5 E5. inv_cons ES s6 E6. inv_cons ES s7 E7. inv_cons ES s8 E8.
  inv_cons ES s9 E9. inv_cons ES s10 E10. inv_cons ES s11 E11. inv_cons ES s12 E12.
  cbn [write_all] in ES. injection ES as <-. cbn [fst snd] in *.
  unfold read_module.
  match goal with |- context [read_header ?l] =>
    match l with 0 :: 97 :: 115 :: 109 :: 1 :: 0 :: 0 :: 0 :: ?r => change l with (header ++ r) end end.
  rewrite read_header_ok. cbn [bind].
  (* custom *)
  assert (Hc : (count_name "custom" defs <= List.length defs)%nat) by apply filter_len_le.
  change (write_section defs "custom" 0) with
    (let ds := filter (has_name "custom") defs in
     match ds with [] => Ok [] | _ :: _ => write_all (write_custom_section 0) ds end) in E.
  cbv zeta in E.
  assert (E' : write_all (write_custom_section 0) (filter (has_name "custom") defs) = Ok s).
  { destruct (filter (has_name "custom") defs); exact E. }
  rewrite (custom_sections _ (filter_wf defs "custom" Hwf) _ E') by (unfold count_name in Hc; lia).
  set (f0 := (fuel - List.length (filter (has_name "custom") defs))%nat).
  assert (Hf0 : (13 < f0)%nat) by (unfold count_name in Hc; lia). clearbody f0.
  (* type *)
  destruct (std_section defs "type" 1 read_type_definition) with (s := s0) (f := f0)
    (st := add_defs (RState [] []) (filter (has_name "custom") defs))
    (rest := s1 ++ s2 ++ s3 ++ s4 ++ s5 ++ s6 ++ s7 ++ s8 ++ s9 ++ s10 ++ s11 ++ s12 ++ [])
    as (f1 & Hf1 & ->); try reflexivity; auto; try lia.
  { std_rt defs "type" defn_type_rt. }
  (* import *)
  destruct (std_section defs "import" 2 read_import_definition) with (s := s1) (f := f1)
    (st := add_defs (add_defs (RState [] []) (filter (has_name "custom") defs)) (filter (has_name "type") defs))
    (rest := s2 ++ s3 ++ s4 ++ s5 ++ s6 ++ s7 ++ s8 ++ s9 ++ s10 ++ s11 ++ s12 ++ [])
    as (f2 & Hf2 & ->); try reflexivity; auto; try lia.
  { std_rt defs "import" defn_import_rt. }
  (* function *)
  match goal with |- context [read_sections _ ?st0 _] =>
    destruct (function_section defs) with (s := s2) (f := f2) (st := st0)
      (rest := s3 ++ s4 ++ s5 ++ s6 ++ s7 ++ s8 ++ s9 ++ s10 ++ s11 ++ s12 ++ [])
      as (f3 & Hf3 & ->); auto; try lia end.
  { eapply Forall_impl; [|apply (filter_wf defs "func"); assumption].
    intros d H; by_name H. cbn [wf_defn] in Hwd. split_and Hwd. unfold tref. cbn [func_ref].
    unfold ref_ok in Hwd. apply andb_true_iff in Hwd. tauto. }
  (* table *)
  match goal with |- context [read_sections _ ?st0 _] =>
    destruct (std_section defs "table" 4 read_table_definition) with (s := s3) (f := f3) (st := st0)
      (rest := s4 ++ s5 ++ s6 ++ s7 ++ s8 ++ s9 ++ s10 ++ s11 ++ s12 ++ [])
      as (f4 & Hf4 & ->); try reflexivity; auto; try lia end.
  { std_rt defs "table" defn_table_rt. }
  (* memory *)
  match goal with |- context [read_sections _ ?st0 _] =>
    destruct (std_section defs "memory" 5 read_memory_definition) with (s := s4) (f := f4) (st := st0)
      (rest := s5 ++ s6 ++ s7 ++ s8 ++ s9 ++ s10 ++ s11 ++ s12 ++ [])
      as (f5 & Hf5 & ->); try reflexivity; auto; try lia end.
  { std_rt defs "memory" defn_memory_rt. }
  (* global *)
  match goal with |- context [read_sections _ ?st0 _] =>
    destruct (std_section defs "global" 6 read_global_definition) with (s := s5) (f := f5) (st := st0)
      (rest := s6 ++ s7 ++ s8 ++ s9 ++ s10 ++ s11 ++ s12 ++ [])
      as (f6 & Hf6 & ->); try reflexivity; auto; try lia end.
  { std_rt defs "global" defn_global_rt. }
  (* export *)
  match goal with |- context [read_sections _ ?st0 _] =>
    destruct (std_section defs "export" 7 read_export_definition) with (s := s6) (f := f6) (st := st0)
      (rest := s7 ++ s8 ++ s9 ++ s10 ++ s11 ++ s12 ++ [])
      as (f7 & Hf7 & ->); try reflexivity; auto; try lia end.
  { std_rt defs "export" defn_export_rt. }
  (* start *)
  match goal with |- context [read_sections _ ?st0 _] =>
    destruct (single_section defs "start" 8 read_start_definition) with (s := s7) (f := f7) (st := st0)
      (rest := s8 ++ s9 ++ s10 ++ s11 ++ s12 ++ [])
      as (f8 & Hf8 & ->); try reflexivity; auto; try lia end.
  { std_rt defs "start" defn_start_rt. }
  (* elem *)
  match goal with |- context [read_sections _ ?st0 _] =>
    destruct (std_section defs "elem" 9 read_elem_definition) with (s := s8) (f := f8) (st := st0)
      (rest := s9 ++ s10 ++ s11 ++ s12 ++ [])
      as (f9 & Hf9 & ->); try reflexivity; auto; try lia end.
  { std_rt defs "elem" defn_elem_rt. }
  (* func (code section) *)
  match goal with |- context [read_sections _ ?st0 _] =>
    destruct (func_section defs []) with (s := s9) (f := f9) (st := st0)
      (rest := s10 ++ s11 ++ s12 ++ [])
      as (f10 & Hf10 & ->); auto; try lia end.
  { apply filter_wf; assumption. }
  { cbn [type4func add_defs set_t4f]. now rewrite skipn_nil. }
  (* code: nothing is written *)
  change (write_section defs "code" 10) with (Ok (A:=bytes) []) in E10. injection E10 as <-.
  cbn [app].
  (* data *)
  match goal with |- context [read_sections _ ?st0 _] =>
    destruct (std_section defs "data" 11 read_data_definition) with (s := s11) (f := f10) (st := st0)
      (rest := s12 ++ [])
      as (f11 & Hf11 & ->); try reflexivity; auto; try lia end.
  { std_rt defs "data" defn_data_rt. }
  (* datacount *)
  match goal with |- context [read_sections _ ?st0 _] =>
    destruct (single_section defs "datacount" 12 read_data_count_definition) with (s := s12) (f := f11)
      (st := st0) (rest := @nil Z)
      as (f12 & Hf12 & ->); try reflexivity; auto; try lia end.
  { std_rt defs "datacount" defn_datacount_rt. }
  rewrite read_sections_nil by lia. cbn [bind definitions add_defs set_t4f].
  unfold canonical_order.
  change section_ids with
    [("custom", 0); ("type", 1); ("import", 2); ("function", 3); ("table", 4); ("memory", 5);
     ("global", 6); ("export", 7); ("start", 8); ("elem", 9); ("func", 10); ("code", 10);
     ("data", 11); ("datacount", 12)].
  cbn [map fst List.concat]. unfold section_defs.
  cbn [String.eqb Ascii.eqb Bool.eqb orb]. cbn [app]. rewrite app_nil_r.
  rewrite <- !app_assoc. reflexivity.
Qed.

(* ------------------------------------------------------------------ one section at a time *)
Definition plain_sections : list (string * Z) :=
  [("type", 1); ("import", 2); ("table", 4); ("memory", 5); ("global", 6); ("export", 7);
   ("start", 8); ("elem", 9); ("data", 11); ("datacount", 12)].

Theorem section_roundtrip name id : In (name, id) plain_sections ->
  forall defs s, wf_module defs = true -> write_section defs name id = Ok s ->
  forall f st rest, (0 < f)%nat ->
    exists f', (f <= S f')%nat /\
      read_sections f st (s ++ rest) = read_sections f' (add_defs st (filter (has_name name) defs)) rest.
Proof.
  unfold plain_sections, wf_module. cbn [In]. intros Hin defs s Hwf Hs f st rest Hf.
  repeat (destruct Hin as [Hin|Hin]; [injection Hin as <- <-|]); try contradiction.
  - apply (std_section defs "type" 1 read_type_definition); try reflexivity; auto.
    std_rt defs "type" defn_type_rt.
  - apply (std_section defs "import" 2 read_import_definition); try reflexivity; auto.
    std_rt defs "import" defn_import_rt.
  - apply (std_section defs "table" 4 read_table_definition); try reflexivity; auto.
    std_rt defs "table" defn_table_rt.
  - apply (std_section defs "memory" 5 read_memory_definition); try reflexivity; auto.
    std_rt defs "memory" defn_memory_rt.
  - apply (std_section defs "global" 6 read_global_definition); try reflexivity; auto.
    std_rt defs "global" defn_global_rt.
  - apply (std_section defs "export" 7 read_export_definition); try reflexivity; auto.
    std_rt defs "export" defn_export_rt.
  - apply (single_section defs "start" 8 read_start_definition); try reflexivity; auto.
    std_rt defs "start" defn_start_rt.
  - apply (std_section defs "elem" 9 read_elem_definition); try reflexivity; auto.
    std_rt defs "elem" defn_elem_rt.
  - apply (std_section defs "data" 11 read_data_definition); try reflexivity; auto.
    std_rt defs "data" defn_data_rt.
  - apply (single_section defs "datacount" 12 read_data_count_definition); try reflexivity; auto.
    std_rt defs "datacount" defn_datacount_rt.
Qed.

(* function (3) + code (10): the code section is read back with the type indices the function
   section announced *)
Theorem function_code_roundtrip defs s3 s10 :
  wf_module defs = true ->
  write_section defs "function" 3 = Ok s3 -> write_section defs "func" 10 = Ok s10 ->
  forall f defs0 rest, (1 < f)%nat ->
    exists f', (f <= S (S f'))%nat /\
      read_sections f (RState [] defs0) (s3 ++ s10 ++ rest) =
      read_sections f' (RState (map tref (filter (has_name "func") defs))
                               (defs0 ++ filter (has_name "func") defs)) rest.
Proof.
  unfold wf_module. intros Hwf E3 E10 f defs0 rest Hf.
  destruct (function_section defs) with (s := s3) (f := f) (st := RState [] defs0) (rest := s10 ++ rest)
    as (f1 & Hf1 & ->); auto; try lia.
  { eapply Forall_impl; [|apply (filter_wf defs "func"); assumption].
    intros d H; by_name H. cbn [wf_defn] in Hwd. split_and Hwd. unfold tref. cbn [func_ref].
    unfold ref_ok in Hwd. apply andb_true_iff in Hwd. tauto. }
  destruct (func_section defs []) with (s := s10) (f := f1) (rest := rest)
    (st := set_t4f (RState [] defs0) (map tref (filter (has_name "func") defs)))
    as (f2 & Hf2 & ->); auto; try lia.
  { apply filter_wf; assumption. }
  { cbn [type4func set_t4f]. now rewrite skipn_nil. }
  exists f2. split; [lia|]. unfold add_defs, set_t4f. cbn [type4func definitions].
  rewrite skipn_nil, app_nil_r. reflexivity.
Qed.

Theorem custom_roundtrip defs s :
  wf_module defs = true -> write_section defs "custom" 0 = Ok s ->
  forall f st rest, (List.length (filter (has_name "custom") defs) < f)%nat ->
    read_sections f st (s ++ rest) =
    read_sections (f - List.length (filter (has_name "custom") defs))
                  (add_defs st (filter (has_name "custom") defs)) rest.
Proof.
  unfold wf_module. intros Hwf E f st rest Hf.
  change (write_section defs "custom" 0) with
    (let ds := filter (has_name "custom") defs in
     match ds with [] => Ok [] | _ :: _ => write_all (write_custom_section 0) ds end) in E.
  cbv zeta in E.
  assert (E' : write_all (write_custom_section 0) (filter (has_name "custom") defs) = Ok s).
  { destruct (filter (has_name "custom") defs); exact E. }
  apply (custom_sections _ (filter_wf defs "custom" Hwf) _ E'). exact Hf.
Qed.
