(* Proofs/C17_file.v — the offset bookkeeping of export_object (unbounded).
   Invariant [Inv] over the writer state: every recorded section header designates a byte range that lies
   inside the file written so far and holds the recorded data, its name sits in the string table at the
   recorded index, section numbers point into the header list.  Every write_* step preserves it and only
   appends to the file, the string table and the header lists ([mono]).  At the end the layer lemmas of
   C17_codec apply at the recorded offsets. *)
From PV Require Import Lib.Py Lib.Tac Gen.Tab_elf Model.ElfWriter Spec.ElfSpec Proofs.C17_codec Proofs.C17_recover.
From Coq Require Import String Ascii.
Open Scope Z_scope.
Local Notation length := List.length (only parsing).
Local Notation concat := List.concat (only parsing).

Ltac ssplit := repeat match goal with |- _ /\ _ => split end.

(* ------------------------------------------------------------------ monotonicity *)
Definition ext {A} (a b : list A) : Prop := exists e, b = a ++ e.
Lemma ext_refl {A} (a : list A) : ext a a.
Proof. exists []. now rewrite app_nil_r. Qed.
Lemma ext_trans {A} (a b c : list A) : ext a b -> ext b c -> ext a c.
Proof. intros [e ->] [f ->]. exists (e ++ f). now rewrite app_assoc. Qed.
Lemma ext_app {A} (a e : list A) : ext a (a ++ e).
Proof. now exists e. Qed.
Lemma ext_len {A} (a b : list A) : ext a b -> zlen a <= zlen b.
Proof. intros [e ->]. unfold zlen. rewrite app_length. lia. Qed.

Record mono (s s' : wst) : Prop := {
  m_buf : ext (w_buf s) (w_buf s'); m_str : ext (w_strtab s) (w_strtab s');
  m_sh : ext (w_shdrs s) (w_shdrs s'); m_ph : ext (w_phdrs s) (w_phdrs s') }.
Lemma mono_refl s : mono s s.
Proof. constructor; apply ext_refl. Qed.
Lemma mono_trans a b c : mono a b -> mono b c -> mono a c.
Proof. intros [] []. constructor; eapply ext_trans; eauto. Qed.

Lemma at_ext bs bs' off x : ext bs bs' -> at_ bs off x -> at_ bs' off x.
Proof. intros [e ->]. apply at_app_r. Qed.
Lemma strtab_at_ext t t' i txt : ext t t' -> strtab_at t i txt -> strtab_at t' i txt.
Proof. intros [e ->]. apply strtab_at_app. Qed.

(* ------------------------------------------------------------------ facts about recorded headers *)
Inductive hfact (buf strtab : list Z) (h : hdr) : Prop :=
  HF (hf_data : list Z) (hf_name : string)
     (hf_at : at_ buf (hget h "sh_offset") hf_data) (hf_size : zlen hf_data = hget h "sh_size")
     (hf_nm : strtab_at strtab (hget h "sh_name") hf_name) (hf_nul : nul_free hf_name = true).

Lemma hfact_ext buf buf' st st' h : ext buf buf' -> ext st st' -> hfact buf st h -> hfact buf' st' h.
Proof.
  intros E1 E2 [d n A S N F]. econstructor; eauto using at_ext, strtab_at_ext.
Qed.

Record Inv (s : wst) : Prop := {
  inv_names : names_inv s;
  inv_hdrs : Forall (hfact (w_buf s) (w_strtab s)) (w_shdrs s);
  inv_secnums : forall n k, sget (w_secnums s) n = Some k -> 1 <= k <= len (w_shdrs s) }.

(* a step that keeps the header list and the section numbers *)
Lemma Inv_keep s s' :
  Inv s -> names_inv s' -> ext (w_buf s) (w_buf s') -> ext (w_strtab s) (w_strtab s') ->
  w_shdrs s' = w_shdrs s -> w_secnums s' = w_secnums s -> Inv s'.
Proof.
  intros [N H K] N' Eb Es Eh Ek. constructor; [exact N'| |].
  - rewrite Eh. eapply Forall_impl; [|exact H]. intros h. now apply hfact_ext.
  - rewrite Eh, Ek. exact K.
Qed.

Lemma wr_Inv s bs : Inv s -> Inv (wr s bs).
Proof. intros I. apply Inv_keep with s; auto; try apply ext_refl; [exact (inv_names _ I)|apply ext_app]. Qed.
Lemma wr_mono s bs : mono s (wr s bs).
Proof. constructor; cbn; try apply ext_refl. apply ext_app. Qed.
Lemma set_eh_Inv s k v : Inv s -> Inv (set_eh s k v).
Proof. intros I. apply Inv_keep with s; auto; try apply ext_refl. exact (inv_names _ I). Qed.
Lemma set_eh_mono s k v : mono s (set_eh s k v).
Proof. constructor; cbn; apply ext_refl. Qed.
Lemma add_phdr_Inv s h : Inv s -> Inv (add_phdr s h).
Proof. intros I. apply Inv_keep with s; auto; try apply ext_refl. exact (inv_names _ I). Qed.
Lemma add_phdr_mono s h : mono s (add_phdr s h).
Proof. constructor; cbn; try apply ext_refl. apply ext_app. Qed.
Lemma add_symmap_Inv s a b : Inv s -> Inv (add_symmap s a b).
Proof. intros I. apply Inv_keep with s; auto; try apply ext_refl. exact (inv_names _ I). Qed.
Lemma add_symmap_mono s a b : mono s (add_symmap s a b).
Proof. constructor; cbn; apply ext_refl. Qed.

Lemma add_shdr_Inv s h reg : Inv s -> hfact (w_buf s) (w_strtab s) h -> Inv (add_shdr s h reg).
Proof.
  intros [N H K] F. constructor; cbn.
  - exact N.
  - apply Forall_app. split; [exact H|]. constructor; [exact F|constructor].
  - unfold len in *. rewrite app_length. cbn [List.length]. intros n k E. destruct reg as [r|].
    + cbn [sget] in E. destruct (String.eqb r n).
      * injection E as <-. lia.
      * apply K in E. lia.
    + apply K in E. lia.
Qed.
Lemma add_shdr_mono s h reg : mono s (add_shdr s h reg).
Proof. constructor; cbn; try apply ext_refl. apply ext_app. Qed.

Lemma get_string_Inv s txt i s' :
  get_string s txt = Ok (i, s') -> Inv s ->
  Inv s' /\ mono s s' /\ strtab_at (w_strtab s') i txt /\ w_buf s' = w_buf s /\ w_shdrs s' = w_shdrs s /\
  w_secnums s' = w_secnums s /\ w_phdrs s' = w_phdrs s /\ w_symmap s' = w_symmap s /\ w_eh s' = w_eh s.
Proof.
  intros G I. destruct (get_string_spec _ _ _ _ G (inv_names _ I)) as (N & A & E & B & Hh & K & P & Y & Eh).
  split.
  - apply Inv_keep with s; auto. rewrite B. apply ext_refl.
  - split; [|repeat split; auto]. constructor; [rewrite B|exact E|rewrite Hh|rewrite P]; apply ext_refl.
Qed.

Lemma align_to_spec s a s' :
  align_to s a = Ok s' -> exists pad, s' = wr s (zeros pad) /\ tell s' mod a = 0.
Proof.
  unfold align_to. destruct (a =? 0); [discriminate|].
  destruct (_ <? 0); [discriminate|]. destruct (_ mod a =? 0) eqn:E; [|discriminate].
  intros H. injection H as <-. eexists. split; [reflexivity|lia].
Qed.
Lemma align_to_Inv s a s' : align_to s a = Ok s' -> Inv s -> Inv s' /\ mono s s'.
Proof. intros H I. destruct (align_to_spec _ _ _ H) as (p & -> & _). split; [now apply wr_Inv|apply wr_mono]. Qed.

(* ------------------------------------------------------------------ PROGBITS headers *)
Record secfields (strtab : list Z) (sec : msection) (off : Z) (h : hdr) : Prop := {
  sfl_off : hget h "sh_offset" = off; sfl_size : hget h "sh_size" = len (ms_data sec);
  sfl_name : strtab_at strtab (hget h "sh_name") (ms_name sec);
  sfl_type : hget h "sh_type" = 1; sfl_addr : hget h "sh_addr" = ms_addr sec;
  sfl_align : hget h "sh_addralign" = ms_align sec; sfl_link : hget h "sh_link" = 0 }.

Lemma secfields_ext st st' sec off h : ext st st' -> secfields st sec off h -> secfields st' sec off h.
Proof. intros E []. constructor; auto. eapply strtab_at_ext; eauto. Qed.

Definition has_sec (K : Z) (s : wst) (sec : msection) : Prop :=
  exists h, In h (w_shdrs s) /\ at_ (w_buf s) (hget h "sh_offset") (ms_data sec)
            /\ secfields (w_strtab s) sec (hget h "sh_offset") h /\ K <= hget h "sh_offset".

Lemma has_sec_mono K s s' sec : mono s s' -> has_sec K s sec -> has_sec K s' sec.
Proof.
  intros [Eb Es [e Eh] _] (h & Hin & A & F & B). exists h. split; [rewrite Eh; apply in_or_app; now left|].
  split; [eapply at_ext; eauto|]. split; [eapply secfields_ext; eauto|exact B].
Qed.

Lemma image_data_from_ge cur secs d : image_data_from cur secs = Ok d ->
  forall sec, In sec secs -> cur <= ms_addr sec.
Proof.
  revert cur d; induction secs as [|s r IH]; intros cur d H sec Hin; [contradiction|].
  cbn [image_data_from] in H. destruct (Z.ltb_spec (ms_addr s) cur) as [|Hge]; [discriminate|].
  destruct (image_data_from (ms_addr s + len (ms_data s)) r) as [rest| | |] eqn:E; try discriminate.
  destruct Hin as [->|Hin]; [exact Hge|]. specialize (IH _ _ E sec Hin). unfold len in IH. lia.
Qed.

Lemma secfields_hfact buf st sec h :
  secfields st sec (hget h "sh_offset") h -> at_ buf (hget h "sh_offset") (ms_data sec) ->
  nul_free (ms_name sec) = true -> hfact buf st h.
Proof.
  intros [] A N. econstructor; eauto; try (unfold zlen, len in *; congruence).
Qed.

(* keys of section_numbers *)
Definition keys_in (s : wst) (W : list string) : Prop :=
  forall n, sget (w_secnums s) n <> None -> In n W.

Lemma gsh_spec s sec off s' :
  gen_section_header s sec off = Ok s' -> names_inv s ->
  names_inv s' /\ mono s s' /\ w_buf s' = w_buf s /\ w_phdrs s' = w_phdrs s /\ w_eh s' = w_eh s
  /\ exists h, w_shdrs s' = w_shdrs s ++ [h] /\ secfields (w_strtab s') sec off h
               /\ w_secnums s' = (ms_name sec, len (w_shdrs s) + 1) :: w_secnums s.
Proof.
  unfold gen_section_header. intros H N.
  destruct (get_string s (ms_name sec)) as [[nm s1]| | |] eqn:G; try discriminate. cbn [bind] in H.
  injection H as <-.
  destruct (get_string_spec _ _ _ _ G N) as (N1 & A & E & B & Hh & K & P & Y & Eh).
  split; [exact N1|]. split.
  { constructor; cbn; [rewrite B; apply ext_refl|exact E|rewrite Hh; apply ext_app|rewrite P; apply ext_refl]. }
  cbn. repeat split; auto. eexists. split; [now rewrite Hh|]. split; [|now rewrite Hh, K].
  constructor; try reflexivity. exact A.
Qed.

Lemma at_shift pre d k x : at_ d k x -> at_ (pre ++ d) (zlen pre + k) x.
Proof.
  intros (a & b & -> & E). exists (pre ++ a), b. split; [now rewrite <- app_assoc|].
  unfold zlen in *. rewrite app_length. lia.
Qed.

Definition nums_ok (s : wst) : Prop :=
  forall n k, sget (w_secnums s) n = Some k -> 1 <= k <= len (w_shdrs s).

Lemma image_headers_spec im fo : forall secs s s',
  image_headers s im fo secs = Ok s' -> names_inv s -> nums_ok s ->
  names_inv s' /\ mono s s' /\ w_buf s' = w_buf s /\ w_phdrs s' = w_phdrs s /\ w_eh s' = w_eh s /\ nums_ok s'
  /\ (forall W, keys_in s W -> keys_in s' (map ms_name secs ++ W))
  /\ exists hs, w_shdrs s' = w_shdrs s ++ hs
       /\ Forall2 (fun sec h => secfields (w_strtab s') sec (fo + (ms_addr sec - mi_addr im)) h) secs hs.
Proof.
  induction secs as [|sec r IH]; intros s s' H N K.
  - injection H as <-. ssplit; auto using mono_refl. exists []. split; [now rewrite app_nil_r|constructor].
  - cbn [image_headers] in H.
    destruct (gen_section_header s sec _) as [s1| | |] eqn:G; try discriminate. cbn [bind] in H.
    destruct (gsh_spec _ _ _ _ G N) as (N1 & M1 & B1 & P1 & E1 & h & Hh & F & Kn).
    assert (K1 : nums_ok s1).
    { intros n k. rewrite Kn, Hh. cbn [sget]. unfold len. rewrite app_length. cbn [List.length].
      destruct (String.eqb _ n); intros E; [injection E as <-; lia|]. apply K in E. unfold len in E. lia. }
    destruct (IH _ _ H N1 K1) as (N2 & M2 & B2 & P2 & E2 & K2 & KW & hs & Hhs & F2).
    split; [exact N2|]. split; [eapply mono_trans; eauto|].
    split; [congruence|]. split; [congruence|]. split; [congruence|]. split; [exact K2|]. split.
    + intros W HW n Hn.
      assert (KS1 : keys_in s1 (ms_name sec :: W)).
      { intros m Hm. rewrite Kn in Hm. cbn [sget] in Hm. destruct (String.eqb (ms_name sec) m) eqn:En.
        - left. now apply String.eqb_eq.
        - right. now apply HW. }
      apply (KW _ KS1) in Hn. cbn [map app]. apply in_app_or in Hn as [Hn|[Hn|Hn]];
        [right; apply in_or_app; now left|now left|right; apply in_or_app; now right].
    + exists (h :: hs). split; [rewrite Hhs, Hh, <- app_assoc; reflexivity|].
      constructor; [|exact F2]. eapply secfields_ext; [|exact F]. apply (m_str _ _ M2).
Qed.

Lemma Forall2_right_In {A B} (P : A -> B -> Prop) l1 l2 :
  Forall2 P l1 l2 -> forall b, In b l2 -> exists a, In a l1 /\ P a b.
Proof.
  induction 1 as [|a b l1 l2 Hab F IH]; intros x Hx; [contradiction|]. destruct Hx as [->|Hx].
  - exists a. split; [now left|exact Hab].
  - destruct (IH x Hx) as (a' & Ha & Pa). exists a'. split; [now right|exact Pa].
Qed.
Lemma Forall2_left_In {A B} (P : A -> B -> Prop) l1 l2 :
  Forall2 P l1 l2 -> forall a, In a l1 -> exists b, In b l2 /\ P a b.
Proof.
  induction 1 as [|a b l1 l2 Hab F IH]; intros x Hx; [contradiction|]. destruct Hx as [->|Hx].
  - exists b. split; [now left|exact Hab].
  - destruct (IH x Hx) as (b' & Hb & Pb). exists b'. split; [now right|exact Pb].
Qed.

(* program header facts *)
Record phfact (K : Z) (buf : list Z) (im : mimage) (ph : hdr) : Prop := {
  pf_d : exists d, image_data im = Ok d /\ at_ buf (hget ph "p_offset") d /\ hget ph "p_filesz" = len d
                   /\ hget ph "p_memsz" = len d;
  pf_type : hget ph "p_type" = 1; pf_vaddr : hget ph "p_vaddr" = mi_addr im;
  pf_paddr : hget ph "p_paddr" = mi_addr im; pf_align : hget ph "p_align" = page_size;
  pf_cong : segments_congruent = true -> (hget ph "p_offset" - mi_addr im) mod page_size = 0;
  pf_lo : K <= hget ph "p_offset" }.

Lemma phfact_ext K buf buf' im ph : ext buf buf' -> phfact K buf im ph -> phfact K buf' im ph.
Proof.
  intros E [(d & A & B & C) T V P Al Cg Lo]. constructor; auto. exists d. split; [exact A|].
  split; [eapply at_ext; eauto|exact C].
Qed.

Definition sec_names_ok (secs : list msection) : Prop := Forall (fun sec => nul_free (ms_name sec) = true) secs.

Lemma write_image_list_spec K : forall ims s s',
  write_image_list s ims = Ok s' -> Inv s -> Forall (fun im => sec_names_ok (mi_secs im)) ims ->
  K <= zlen (w_buf s) ->
  Inv s' /\ mono s s' /\ w_eh s' = w_eh s
  /\ (forall W, keys_in s W -> keys_in s' (map ms_name (concat (map mi_secs ims)) ++ W))
  /\ (forall im sec, In im ims -> In sec (mi_secs im) -> has_sec K s' sec)
  /\ exists phs, w_phdrs s' = w_phdrs s ++ phs /\ Forall2 (phfact K (w_buf s')) ims phs.
Proof.
  induction ims as [|im r IH]; intros s s' H I NF HK.
  - injection H as <-. ssplit; auto using mono_refl; try (intros; contradiction).
    exists []. split; [now rewrite app_nil_r|constructor].
  - cbn [write_image_list] in H. inversion NF as [|? ? NFi NFr]; subst.
    destruct (align_to s page_size) as [s1| | |] eqn:A; try discriminate. cbn [bind] in H.
    destruct (align_to_Inv _ _ _ A I) as [I1 M1].
    destruct (align_to_spec _ _ _ A) as (pad & Es1 & Al).
    set (s1' := if segments_congruent then wr s1 (zeros (mi_addr im mod page_size)) else s1) in *.
    assert (I1' : Inv s1') by (unfold s1'; destruct segments_congruent; [now apply wr_Inv|exact I1]).
    assert (M1' : mono s1 s1') by (unfold s1'; destruct segments_congruent; [apply wr_mono|apply mono_refl]).
    assert (Eh1' : w_eh s1' = w_eh s /\ w_phdrs s1' = w_phdrs s /\ w_shdrs s1' = w_shdrs s /\ w_secnums s1' = w_secnums s).
    { unfold s1'. rewrite Es1. destruct segments_congruent; cbn; auto. }
    destruct Eh1' as (Eh1 & Ep1 & Esh1 & Ek1).
    destruct (image_headers s1' im (tell s1') (mi_secs im)) as [s2| | |] eqn:G; try discriminate. cbn [bind] in H.
    destruct (image_headers_spec _ _ _ _ _ G (inv_names _ I1') (inv_secnums _ I1'))
      as (N2 & M2 & B2 & P2 & E2 & K2 & KW2 & hs & Hhs & F2).
    destruct (image_data im) as [d| | |] eqn:D; try discriminate. cbn [bind] in H.
    set (s3 := wr s2 d) in *.
    assert (I3 : Inv s3).
    { constructor; [exact N2| |exact K2]. cbn. rewrite Hhs. apply Forall_app. split.
      - eapply Forall_impl; [|exact (inv_hdrs _ I1')]. intros h. apply hfact_ext.
        + rewrite B2. apply ext_app.
        + apply (m_str _ _ M2).
      - apply Forall_forall. intros h Hh.
        destruct (Forall2_right_In _ _ _ F2 h Hh) as (sec & Hsec & Fh).
        assert (O : hget h "sh_offset" = tell s1' + (ms_addr sec - mi_addr im)) by (destruct Fh; assumption).
        apply secfields_hfact with sec.
        + rewrite O. exact Fh.
        + rewrite O, B2. unfold tell, len. apply at_shift. eapply image_data_from_at; [exact D|exact Hsec].
        + unfold sec_names_ok in NFi. rewrite Forall_forall in NFi. now apply NFi. }
    set (ph := [("p_align", page_size); ("p_memsz", len d); ("p_filesz", len d); ("p_paddr", mi_addr im);
                ("p_vaddr", mi_addr im); ("p_offset", tell s1');
                ("p_flags", if String.eqb (mi_name im) "code" then 5 else 6); ("p_type", pt_load)]%string) in *.
    assert (I4 : Inv (add_phdr s3 ph)) by now apply add_phdr_Inv.
    assert (M4 : mono s (add_phdr s3 ph)).
    { eapply mono_trans; [exact M1|]. eapply mono_trans; [exact M1'|]. eapply mono_trans; [exact M2|].
      eapply mono_trans; [apply wr_mono|apply add_phdr_mono]. }
    assert (HK1 : K <= tell s1').
    { pose proof (ext_len _ _ (m_buf _ _ M1)). pose proof (ext_len _ _ (m_buf _ _ M1')). unfold tell, len, zlen in *. lia. }
    assert (HK4 : K <= zlen (w_buf (add_phdr s3 ph))) by (pose proof (ext_len _ _ (m_buf _ _ M4)); lia).
    destruct (IH _ _ H I4 NFr HK4) as (I' & M' & Eh' & KW' & HS' & phs & Hphs & Fph).
    split; [exact I'|]. split; [eapply mono_trans; eauto|]. split; [rewrite Eh'; cbn; congruence|].
    split; [|split].
    + intros W HW n Hn.
      assert (KS1 : keys_in s1' W) by (intros m Hm; rewrite Ek1 in Hm; now apply HW).
      assert (KS4 : keys_in (add_phdr s3 ph) (map ms_name (mi_secs im) ++ W)) by exact (KW2 _ KS1).
      apply (KW' _ KS4) in Hn. cbn [map concat]. rewrite map_app.
      apply in_app_or in Hn as [Hn|Hn]; [apply in_or_app; left; apply in_or_app; now right|].
      apply in_app_or in Hn as [Hn|Hn]; [apply in_or_app; left; apply in_or_app; now left|].
      apply in_or_app; now right.
    + intros im' sec [<-|Him] Hsec; [|now apply (HS' im' sec)].
      apply has_sec_mono with (add_phdr s3 ph); [exact M'|].
      destruct (Forall2_left_In _ _ _ F2 sec Hsec) as (h & Hh & Fh).
      assert (O : hget h "sh_offset" = tell s1' + (ms_addr sec - mi_addr im)) by (destruct Fh; assumption).
      exists h. split; [cbn; rewrite Hhs; apply in_or_app; now right|]. split.
      * cbn. rewrite O, B2. unfold tell, len. apply at_shift. eapply image_data_from_at; [exact D|exact Hsec].
      * split; [cbn; rewrite O; exact Fh|]. rewrite O.
        pose proof (image_data_from_ge _ _ _ D sec Hsec). lia.
    + exists (ph :: phs). split; [rewrite Hphs; cbn; rewrite P2, Ep1, <- app_assoc; reflexivity|].
      constructor; [|exact Fph]. apply phfact_ext with (w_buf (add_phdr s3 ph)); [apply (m_buf _ _ M')|].
      constructor; try reflexivity.
      * exists d. split; [exact D|]. split; [|split; reflexivity].
        cbn. rewrite B2. unfold tell, len. apply at_here.
      * intros Cg. change (hget ph "p_offset") with (tell s1'). unfold s1'. rewrite Cg. unfold tell. cbn.
        unfold len. rewrite app_length. unfold zeros. rewrite repeat_length.
        unfold tell, len in Al. unfold page_size in *. lia.
      * exact HK1.
Qed.

(* ------------------------------------------------------------------ write_images / write_sections *)
Definition image_names_ok (o : mobj) : Prop := Forall (fun im => sec_names_ok (mi_secs im)) (mo_images o).

Lemma write_images_spec ht o s s' :
  write_images ht o s = Ok s' -> Inv s -> image_names_ok o ->
  Inv s' /\ mono s s'
  /\ (forall k, k <> "e_phoff"%string -> k <> "e_phentsize"%string -> k <> "e_phnum"%string ->
                hget (w_eh s') k = hget (w_eh s) k)
  /\ hget (w_eh s') "e_phoff" = tell s /\ hget (w_eh s') "e_phentsize" = layout_size (ht_phdr ht)
  /\ hget (w_eh s') "e_phnum" = len (mo_images o)
  /\ (forall W, keys_in s W -> keys_in s' (map ms_name (concat (map mi_secs (mo_images o))) ++ W))
  /\ (forall im sec, In im (mo_images o) -> In sec (mi_secs im) ->
        has_sec (zlen (w_buf s) + len (mo_images o) * layout_size (ht_phdr ht)) s' sec)
  /\ zlen (w_buf s) + len (mo_images o) * layout_size (ht_phdr ht) <= zlen (w_buf s')
  /\ exists phs, w_phdrs s' = w_phdrs s ++ phs
       /\ Forall2 (phfact (zlen (w_buf s) + len (mo_images o) * layout_size (ht_phdr ht)) (w_buf s')) (mo_images o) phs.
Proof.
  unfold write_images. intros H I NF.
  set (s1 := set_eh (set_eh (set_eh s "e_phoff" (tell s)) "e_phentsize" (layout_size (ht_phdr ht)))
                    "e_phnum" (len (mo_images o))) in *.
  set (s2 := wr s1 (zeros (len (mo_images o) * layout_size (ht_phdr ht)))) in *.
  assert (I2 : Inv s2) by (apply wr_Inv; repeat apply set_eh_Inv; exact I).
  assert (Hnn : 0 <= layout_size (ht_phdr ht)).
  { clear. induction (ht_phdr ht) as [|[[n c] b] L IHL]; cbn; [lia|]. destruct (fmt_info c) as [[k sg]|]; lia. }
  assert (HK2 : zlen (w_buf s) + len (mo_images o) * layout_size (ht_phdr ht) <= zlen (w_buf s2)).
  { cbn. unfold zlen, len. rewrite app_length. unfold zeros. rewrite repeat_length. nia. }
  destruct (write_image_list_spec _ _ _ _ H I2 NF HK2) as (I' & M' & Eh' & KW' & HS' & phs & Hphs & Fph).
  assert (M2 : mono s s2).
  { eapply mono_trans; [|apply wr_mono]. eapply mono_trans; [|apply set_eh_mono].
    eapply mono_trans; [|apply set_eh_mono]. apply set_eh_mono. }
  split; [exact I'|]. split; [eapply mono_trans; eauto|].
  split.
  { intros k K1 K2 K3. rewrite Eh'. apply String.eqb_neq in K1, K2, K3.
    change (w_eh s2) with (hset (hset (hset (w_eh s) "e_phoff" (tell s)) "e_phentsize" (layout_size (ht_phdr ht)))
                                "e_phnum" (len (mo_images o))).
    unfold hget, hset. cbn [sget]. rewrite (String.eqb_sym "e_phnum" k), K3,
      (String.eqb_sym "e_phentsize" k), K2, (String.eqb_sym "e_phoff" k), K1. reflexivity. }
  split; [rewrite Eh'; reflexivity|]. split; [rewrite Eh'; reflexivity|]. split; [rewrite Eh'; reflexivity|].
  split; [intros W HW; apply KW'; exact HW|]. split; [exact HS'|]. split.
  - destruct M' as [Mb _ _ _]. apply ext_len in Mb. lia.
  - exists phs. split; [exact Hphs|exact Fph].
Qed.

Lemma write_sections_spec K : forall secs s s' W,
  write_sections s secs = Ok s' -> names_inv s -> keys_in s W -> K <= zlen (w_buf s) ->
  names_inv s' /\ mono s s' /\ w_eh s' = w_eh s /\ w_phdrs s' = w_phdrs s
  /\ (forall pre sec post, secs = pre ++ sec :: post -> ~ In (ms_name sec) W ->
        ~ In (ms_name sec) (map ms_name pre) -> has_sec K s' sec).
Proof.
  induction secs as [|x r IH]; intros s s' W H N KW HK.
  - injection H as <-. ssplit; auto using mono_refl. intros [|? ?] ? ? E; discriminate E.
  - cbn [write_sections] in H. destruct (sget (w_secnums s) (ms_name x)) as [k|] eqn:Ek.
    + assert (Hx : In (ms_name x) W) by (apply KW; congruence).
      destruct (IH _ _ W H N KW HK) as (N' & M' & Eh' & Ep' & HS).
      ssplit; auto. intros [|y pre] sec post E NW NP.
      * injection E as -> ->. contradiction.
      * injection E as -> E. apply (HS pre sec post E NW). intros Hin. apply NP. now right.
    + destruct (align_to s (ms_align x)) as [s1| | |] eqn:A; try discriminate. cbn [bind] in H.
      destruct (align_to_spec _ _ _ A) as (pad & Es1 & _).
      destruct (gen_section_header (wr s1 (ms_data x)) x (tell s1)) as [s3| | |] eqn:G; try discriminate.
      cbn [bind] in H.
      assert (N1 : names_inv (wr s1 (ms_data x))) by (rewrite Es1; exact N).
      destruct (gsh_spec _ _ _ _ G N1) as (N3 & M3 & B3 & P3 & E3 & h & Hh & F & Kn).
      assert (M13 : mono s s3).
      { eapply mono_trans; [|exact M3]. rewrite Es1. eapply mono_trans; apply wr_mono. }
      assert (KW3 : keys_in s3 (ms_name x :: W)).
      { intros m Hm. rewrite Kn in Hm. cbn [sget] in Hm. destruct (String.eqb (ms_name x) m) eqn:En.
        - left. now apply String.eqb_eq.
        - right. apply KW. rewrite Es1 in Hm. exact Hm. }
      assert (HK3 : K <= zlen (w_buf s3)) by (pose proof (ext_len _ _ (m_buf _ _ M13)); lia).
      destruct (IH _ _ _ H N3 KW3 HK3) as (N' & M' & Eh' & Ep' & HS).
      ssplit; auto.
      * eapply mono_trans; eauto.
      * rewrite Eh', E3, Es1. reflexivity.
      * rewrite Ep', P3, Es1. reflexivity.
      * intros [|y pre] sec post E NW NP.
        -- injection E as -> ->. apply has_sec_mono with s3; [exact M'|].
           assert (O : hget h "sh_offset" = tell s1) by (destruct F; assumption).
           exists h. split; [rewrite Hh; apply in_or_app; right; now left|]. split.
           ++ rewrite O, B3. cbn. unfold tell, len. apply at_here.
           ++ split; [rewrite O; exact F|]. rewrite O, Es1. cbn [wr w_buf]. unfold tell, len, zlen in *.
              cbn [wr w_buf]. rewrite app_length. lia.
        -- injection E as -> E. apply (HS pre sec post E).
           ++ intros [Hn|Hn]; [apply NP; left; exact Hn|contradiction].
           ++ intros Hin. apply NP. now right.
Qed.

(* ------------------------------------------------------------------ the later steps only append *)
Lemma get_string_mono s txt i s' : get_string s txt = Ok (i, s') -> mono s s'.
Proof.
  unfold get_string. destruct (sget _ _).
  - intros H. injection H as <- <-. apply mono_refl.
  - destruct (encode_ascii txt); try discriminate. cbn [bind]. intros H. injection H as <- <-.
    constructor; cbn; try apply ext_refl. apply ext_app.
Qed.
Lemma align_to_mono s a s' : align_to s a = Ok s' -> mono s s'.
Proof. intros H. destruct (align_to_spec _ _ _ H) as (p & -> & _). apply wr_mono. Qed.

Ltac bd H :=
  match type of H with
  | bind ?e _ = Ok _ => let x := fresh "x" in let E := fresh "E" in
                        destruct e as [x| | |] eqn:E; [cbn [bind] in H|discriminate H..]
  end.

Section Later.
  Variable R : wst -> wst -> Prop.
  Hypothesis R_refl : forall s, R s s.
  Hypothesis R_trans : forall a b c, R a b -> R b c -> R a c.
  Hypothesis wr_R : forall s bs, R s (wr s bs).
  Hypothesis set_eh_R : forall s k v, R s (set_eh s k v).
  Hypothesis add_shdr_R : forall s h reg, R s (add_shdr s h reg).
  Hypothesis add_symmap_R : forall s a b, R s (add_symmap s a b).
  Hypothesis get_string_R : forall s txt i s', get_string s txt = Ok (i, s') -> R s s'.
  Ltac mt := eapply R_trans; [eassumption|].
  Lemma align_to_R s a s' : align_to s a = Ok s' -> R s s'.
  Proof. intros H. destruct (align_to_spec _ _ _ H) as (p & -> & _). apply wr_R. Qed.

Lemma write_symbols_R ht o : forall syms s nr s', write_symbols ht o s nr syms = Ok s' -> R s s'.
Proof.
  induction syms as [|y r IH]; intros s nr s' H; [injection H as <-; apply R_refl|].
  cbn [write_symbols] in H. bd H. destruct x as [nm s1]. apply get_string_R in E.
  bd H. destruct x as [shndx value]. bd H. apply IH in H.
  eapply R_trans; [apply add_symmap_R|]. mt. eapply R_trans; [apply wr_R|exact H].
Qed.

Lemma write_symbol_table_R ht o s s' : write_symbol_table ht o s = Ok s' -> R s s'.
Proof.
  unfold write_symbol_table. intros H. bd H. apply align_to_R in E. bd H. apply write_symbols_R in E0.
  bd H. destruct x1 as [nm s3]. apply get_string_R in E1. injection H as <-.
  mt. eapply R_trans; [apply wr_R|]. mt. mt. apply add_shdr_R.
Qed.

Lemma write_relas_R ht o : forall rels s s', write_relas ht o s rels = Ok s' -> R s s'.
Proof.
  induction rels as [|y r IH]; intros s s' H; [injection H as <-; apply R_refl|].
  cbn [write_relas] in H. bd H. bd H. bd H. apply IH in H. eapply R_trans; [apply wr_R|exact H].
Qed.

Lemma write_rela_groups_R ht o : forall names s s', write_rela_groups ht o s names = Ok s' -> R s s'.
Proof.
  induction names as [|n r IH]; intros s s' H; [injection H as <-; apply R_refl|].
  cbn [write_rela_groups] in H. bd H. apply align_to_R in E. bd H. apply write_relas_R in E0.
  bd H. destruct x1 as [nm s3]. apply get_string_R in E1. bd H. apply IH in H.
  mt. mt. mt. eapply R_trans; [apply add_shdr_R|exact H].
Qed.

Lemma write_string_table_R s s' : write_string_table s = Ok s' -> R s s'.
Proof.
  unfold write_string_table. intros H. bd H. apply align_to_R in E. bd H. destruct x0 as [nm s2].
  apply get_string_R in E0. injection H as <-. mt. mt. eapply R_trans; [apply wr_R|apply add_shdr_R].
Qed.

Lemma write_shdr_list_R ht : forall hs s s', write_shdr_list ht s hs = Ok s' -> R s s'.
Proof.
  induction hs as [|h r IH]; intros s s' H; [injection H as <-; apply R_refl|].
  cbn [write_shdr_list] in H. bd H. bd H. apply IH in H. eapply R_trans; [apply wr_R|exact H].
Qed.

Lemma write_section_headers_R ht s s' : write_section_headers ht s = Ok s' -> R s s'.
Proof.
  unfold write_section_headers. intros H. bd H. apply align_to_R in E. apply write_shdr_list_R in H.
  mt. eapply R_trans; [|exact H].
  eapply R_trans; [|apply wr_R]. eapply R_trans; [|apply set_eh_R].
  eapply R_trans; [|apply set_eh_R]. apply set_eh_R.
Qed.
End Later.

Definition keepph (s s' : wst) : Prop := w_phdrs s' = w_phdrs s /\ forall k, hget (w_eh s') k = hget (w_eh s) k.
Lemma get_string_keepph s txt i s' : get_string s txt = Ok (i, s') -> keepph s s'.
Proof.
  unfold get_string, keepph. destruct (sget _ _).
  - intros H. injection H as <- <-. auto.
  - destruct (encode_ascii txt); try discriminate. cbn [bind]. intros H. injection H as <- <-. auto.
Qed.

Definition keepp (s s' : wst) : Prop := w_phdrs s' = w_phdrs s.
Ltac inst_mono := first [exact mono_refl|exact mono_trans|exact wr_mono|exact set_eh_mono|exact add_shdr_mono
                        |exact add_symmap_mono|exact get_string_mono].
Ltac inst_keepp :=
  unfold keepp; first [reflexivity | (intros; cbn; congruence)
                      | (intros ? ? ? ? G; destruct (get_string_keepph _ _ _ _ G) as [P _]; exact P)].

Lemma serialize_len L h b : serialize L h = Ok b -> zlen b = layout_size L.
Proof.
  revert b; induction L as [|[[n c] be] L IH]; intros b H; [injection H as <-; reflexivity|].
  cbn [serialize] in H. bd H. bd H. injection H as <-. cbn [layout_size]. unfold zlen in *.
  rewrite app_length, Nat2Z.inj_add, (IH _ eq_refl).
  unfold pack in E. destruct (fmt_info c) as [[k sg]|]; [|discriminate]. destruct (_ && _); [|discriminate].
  injection E as <-. rewrite order_length, le_bytes_length. lia.
Qed.
Lemma serialize_all_len L : forall hs b, serialize_all L hs = Ok b -> zlen b = len hs * layout_size L.
Proof.
  induction hs as [|h r IH]; intros b H; [injection H as <-; reflexivity|].
  cbn [serialize_all] in H. bd H. bd H. injection H as <-. apply serialize_len in E.
  unfold zlen, len in *. cbn [List.length]. rewrite app_length, Nat2Z.inj_add, E, (IH _ eq_refl). lia.
Qed.

Lemma at_overwrite buf hb off x :
  16 + zlen hb <= off -> 16 + zlen hb <= zlen buf -> at_ buf off x -> at_ (overwrite buf 16 hb) off x.
Proof.
  intros Ho Hb (pre & post & -> & E). unfold overwrite, len.
  set (k := Z.to_nat (16 + Z.of_nat (List.length hb))).
  assert (Hk : (k <= List.length pre)%nat) by (unfold zlen in *; lia).
  rewrite (skipn_app k pre). replace (k - List.length pre)%nat with O by lia. cbn [skipn].
  exists (firstn (Z.to_nat 16) (pre ++ x ++ post) ++ hb ++ skipn k pre), post. split.
  - rewrite <- !app_assoc. reflexivity.
  - unfold zlen in *. rewrite !app_length, firstn_length, skipn_length, !app_length. lia.
Qed.

Definition sec_in_file (bs st : list Z) (sec : msection) : Prop :=
  exists h, at_ bs (hget h "sh_offset") (ms_data sec) /\ secfields st sec (hget h "sh_offset") h.
Definition seg_in_file (bs : list Z) (im : mimage) : Prop := exists K ph, phfact K bs im ph.

Lemma Forall2_len {A B} (P : A -> B -> Prop) l1 l2 : Forall2 P l1 l2 -> len l1 = len l2.
Proof. induction 1; unfold len in *; cbn [List.length]; lia. Qed.

Definition with_images (o : mobj) (et : Z) : bool := negb (len (mo_images o) =? 0) && (et =? et_exec).

(* the layout of every file export_object returns: image segments and sections are where their headers say *)
Theorem export_layout ht machine o et bs :
  export_object ht machine o et = Ok bs -> image_names_ok o ->
  exists st,
    (with_images o et = true -> forall im, In im (mo_images o) ->
       seg_in_file bs im /\ forall sec, In sec (mi_secs im) -> sec_in_file bs st sec)
    /\ (forall pre sec post, mo_sections o = pre ++ sec :: post ->
          (with_images o et = true -> ~ In (ms_name sec) (map ms_name (concat (map mi_secs (mo_images o))))) ->
          ~ In (ms_name sec) (map ms_name pre) -> sec_in_file bs st sec).
Proof.
  unfold export_object. intros H NF. set (wi := with_images o et). unfold with_images in wi.
  destruct (negb ((et =? et_rel) || (et =? et_exec))); [discriminate|].
  bd H. rename x into id.
  set (s0 := {| w_buf := id ++ zeros (layout_size (ht_ehdr ht)); w_shdrs := []; w_secnums := [];
                w_strtab := [0]; w_names := []; w_phdrs := []; w_symmap := []; w_eh := [] |}) in *.
  assert (I0 : Inv s0).
  { constructor; cbn; [intros t i Hs; discriminate Hs|constructor|intros n k Hs; discriminate Hs]. }
  fold wi in H. bd H. rename x into s1. bd H. rename x into s2. bd H. rename x into s3.
  bd H. rename x into s4. bd H. rename x into s5. bd H. rename x into s6. bd H. rename x into eb.
  bd H. bd H. rename x0 into pb. injection H as <-.
  (* later steps: only append, program headers untouched *)
  assert (M36 : mono s2 s6 /\ keepp s2 s6).
  { assert (A3 : mono s2 s3 /\ keepp s2 s3)
      by (split; [eapply write_symbol_table_R; try eassumption; inst_mono
                 |eapply (write_symbol_table_R keepp); try eassumption; inst_keepp]).
    assert (A4 : mono s3 s4 /\ keepp s3 s4).
    { destruct (et =? et_rel); [|injection E3 as <-; split; [apply mono_refl|reflexivity]].
      unfold write_rela_table in E3.
      split; [eapply write_rela_groups_R; try eassumption; inst_mono
             |eapply (write_rela_groups_R keepp); try eassumption; inst_keepp]. }
    assert (A5 : mono s4 s5 /\ keepp s4 s5)
      by (split; [eapply write_string_table_R; try eassumption; inst_mono
                 |eapply (write_string_table_R keepp); try eassumption; inst_keepp]).
    assert (A6 : mono s5 s6 /\ keepp s5 s6)
      by (split; [eapply write_section_headers_R; try eassumption; inst_mono
                 |eapply (write_section_headers_R keepp); try eassumption; inst_keepp]).
    destruct A3, A4, A5, A6. split; [repeat (eapply mono_trans; [eassumption|]); apply mono_refl|].
    unfold keepp in *. congruence. }
  destruct M36 as [M26 P26].
  assert (Lid : zlen id = 16).
  { unfold ident_bytes in E. bd E. injection E as <-. reflexivity. }
  assert (L0 : zlen (w_buf s0) = 16 + layout_size (ht_ehdr ht)).
  { unfold s0. cbn [w_buf]. unfold zlen in *. rewrite app_length. unfold zeros. rewrite repeat_length.
    assert (0 <= layout_size (ht_ehdr ht)).
    { clear. induction (ht_ehdr ht) as [|[[n c] b] L IHL]; cbn; [lia|]. destruct (fmt_info c) as [[k sg]|]; lia. }
    lia. }
  assert (Leb : zlen eb = layout_size (ht_ehdr ht)).
  { unfold elf_header_bytes in E6. bd E6. bd E6. now apply serialize_len in E6. }
  apply serialize_all_len in E8.
  exists (w_strtab s6).
  destruct wi eqn:Ewi.
  - (* executable with images *)
    destruct (write_images_spec _ _ _ _ E0 I0 NF)
      as (I1 & M1 & _ & _ & _ & _ & KW1 & HS1 & HK1 & phs & Hphs & Fph).
    set (K := zlen (w_buf s0) + len (mo_images o) * layout_size (ht_phdr ht)) in *.
    assert (KW0 : keys_in s0 []) by (intros n Hn; cbn in Hn; congruence).
    destruct (write_sections_spec K _ _ _ _ E1 (inv_names _ I1) (KW1 _ KW0) HK1) as (N2 & M2 & _ & P2 & HS2).
    assert (Lpb : zlen pb = len (mo_images o) * layout_size (ht_phdr ht)).
    { rewrite E8. f_equal. unfold keepp in P26. rewrite P26, P2, Hphs. cbn. symmetry. eapply Forall2_len; eauto. }
    assert (Lhb : 16 + zlen (eb ++ pb) = K) by (unfold K, zlen in *; rewrite app_length; lia).
    assert (Lbuf : 16 + zlen (eb ++ pb) <= zlen (w_buf s6)).
    { rewrite Lhb. pose proof (ext_len _ _ (m_buf _ _ M2)). pose proof (ext_len _ _ (m_buf _ _ M26)). lia. }
    assert (M16 : mono s1 s6) by (eapply mono_trans; eauto).
    assert (FIN : forall sec, has_sec K s6 sec -> sec_in_file (overwrite (w_buf s6) e_ident_size (eb ++ pb)) (w_strtab s6) sec).
    { intros sec (h & _ & A & F & B). exists h. split; [|exact F]. apply at_overwrite; [lia|exact Lbuf|exact A]. }
    split.
    + intros _ im Him. split.
      * destruct (Forall2_left_In _ _ _ Fph im Him) as (ph & _ & Fp). exists K, ph.
        apply (phfact_ext _ _ (w_buf s6)) in Fp; [|apply (m_buf _ _ M16)].
        destruct Fp as [(d & A & B & C) T V P Al Cg Lo]. constructor; auto.
        exists d. split; [exact A|]. split; [|exact C]. apply at_overwrite; [lia|exact Lbuf|exact B].
      * intros sec Hsec. apply FIN. apply has_sec_mono with s1; [exact M16|]. now apply (HS1 im).
    + intros pre sec post Eo NI NP. apply FIN. apply has_sec_mono with s2; [exact M26|].
      apply (HS2 pre sec post Eo); [|exact NP]. rewrite app_nil_r. now apply NI.
  - (* no program headers *)
    injection E0 as <-.
    assert (KW0 : keys_in s0 []) by (intros n Hn; cbn in Hn; congruence).
    destruct (write_sections_spec (zlen (w_buf s0)) _ _ _ _ E1 (inv_names _ I0) KW0 (Z.le_refl _))
      as (N2 & M2 & _ & P2 & HS2).
    assert (Lpb : zlen pb = 0).
    { rewrite E8. unfold keepp in P26. rewrite P26, P2. reflexivity. }
    assert (Lhb : 16 + zlen (eb ++ pb) = zlen (w_buf s0)) by (unfold zlen in *; rewrite app_length; lia).
    assert (Lbuf : 16 + zlen (eb ++ pb) <= zlen (w_buf s6)).
    { rewrite Lhb. pose proof (ext_len _ _ (m_buf _ _ M2)). pose proof (ext_len _ _ (m_buf _ _ M26)). lia. }
    split; [intros Hf; discriminate Hf|].
    intros pre sec post Eo _ NP.
    destruct (has_sec_mono _ _ _ _ M26 (HS2 pre sec post Eo (fun x => x) NP)) as (h & _ & A & F & B).
    exists h. split; [|exact F]. apply at_overwrite; [lia|exact Lbuf|exact A].
Qed.

(* reader-side corollaries: contents by slice, segment bytes *)
Corollary sec_in_file_slice bs st sec : sec_in_file bs st sec ->
  exists h, slice bs (hget h "sh_offset") (hget h "sh_size") = Some (ms_data sec)
            /\ hget h "sh_addr" = ms_addr sec /\ hget h "sh_addralign" = ms_align sec /\ hget h "sh_type" = 1
            /\ (nul_free (ms_name sec) = true -> forall ext, strtab_get (st ++ ext) (hget h "sh_name") = Some (str_bytes (ms_name sec))).
Proof.
  intros (h & A & [O S N T Ad Al L]). exists h. split.
  - rewrite S. apply at_slice in A. exact A.
  - ssplit; auto. intros NF ext. apply strtab_get_at; [|exact NF]. now apply strtab_at_app.
Qed.

Corollary seg_in_file_bytes bs im : seg_in_file bs im ->
  exists ph, p_type (phdr_of ph) = 1 /\ p_vaddr (phdr_of ph) = mi_addr im /\ p_filesz (phdr_of ph) = p_memsz (phdr_of ph)
    /\ (segments_congruent = true -> (p_offset (phdr_of ph) - p_vaddr (phdr_of ph)) mod page_size = 0)
    /\ forall sec i b, In sec (mi_secs im) -> nth_error (ms_data sec) i = Some b ->
          segment_byte bs (phdr_of ph) (ms_addr sec + Z.of_nat i) = Some b.
Proof.
  intros (K & ph & [(d & D & A & Fz & Mz) T V P Al Cg Lo]). exists ph. cbn [phdr_of p_type p_vaddr p_filesz p_memsz p_offset].
  ssplit; auto; try congruence.
  - rewrite V. exact Cg.
  - intros sec i b Hs Hn. eapply segment_byte_of_image; eauto.
Qed.
