(* Proofs/C39_bitfun.v — lemmas about the regenerated Gen.bitfun (ppci/utils/bitfun.py). *)
From PV Require Import Lib.Py Lib.Tac Spec.BitsSpec Gen.bitfun.
Open Scope Z_scope.

Local Ltac pow_pos := repeat match goal with
  | |- context [2 ^ ?n] =>
      lazymatch goal with
      | _ : 0 < 2 ^ n |- _ => fail
      | _ => assert (0 < 2 ^ n) by (apply Z.pow_pos_nonneg; lia)
      end
  end.

(* ---------------------------------------------------------------- rotl / rotr *)
Lemma nonneg_of_bits v n : 0 <= n -> 0 <= v < 2 ^ n -> 0 <= v.
Proof. lia. Qed.

Lemma lor_bound a b n : 0 <= n -> 0 <= a < 2 ^ n -> 0 <= b < 2 ^ n -> 0 <= Z.lor a b < 2 ^ n.
Proof.
  intros Hn Ha Hb. split.
  - apply Z.lor_nonneg; lia.
  - apply bits_lt_pow2; [lia|apply Z.lor_nonneg; lia|].
    intros i Hi. rewrite Z.lor_spec, (testbit_small a n i), (testbit_small b n i) by lia. reflexivity.
Qed.

Lemma rotl_correct v count bits :
  0 < bits -> 0 <= v < 2 ^ bits ->
  exists r, rotl v count bits = Ok r /\ is_rotl bits v (count mod bits) r.
Proof.
  intros Hb Hv. unfold rotl. guards_ok.
  eexists; split; [reflexivity|].
  set (c := count mod bits). assert (Hc : 0 <= c < bits) by (subst c; lia).
  rewrite shiftl1_pow by lia.
  assert (P1 : 0 < 2 ^ bits) by (apply Z.pow_pos_nonneg; lia).
  assert (P2 : 0 < 2 ^ c) by (apply Z.pow_pos_nonneg; lia).
  assert (P3 : 0 < 2 ^ (bits - c)) by (apply Z.pow_pos_nonneg; lia).
  unfold is_rotl, bits_are. split.
  - apply lor_bound; [lia| |].
    + rewrite land_ones_mod by lia. lia.
    + rewrite shiftr_div by lia. split; [apply Z.div_pos; lia|].
      apply Z.le_lt_trans with v; [|lia]. apply Z.div_le_upper_bound; nia.
  - intros i Hi. rewrite Z.lor_spec, Z.land_spec, testbit_ones_full by lia.
    rewrite Z.shiftl_spec, Z.shiftr_spec by lia.
    replace ((0 <=? i) && (i <? bits)) with true by lia. rewrite andb_true_r.
    destruct (Z.lt_ge_cases i c).
    + rewrite (Z.testbit_neg_r v (i - c)) by lia. cbn [orb].
      f_equal. symmetry. replace (i - c) with ((i + (bits - c)) + (-1) * bits) by lia.
      rewrite Z.mod_add by lia. rewrite Z.mod_small; lia.
    + rewrite (testbit_small v bits (i + (bits - c))) by lia. rewrite orb_false_r.
      f_equal. rewrite Z.mod_small; lia.
Qed.

Lemma rotr_correct v count bits :
  0 < bits -> 0 <= v < 2 ^ bits ->
  exists r, rotr v count bits = Ok r /\ is_rotr bits v (count mod bits) r.
Proof.
  intros Hb Hv. unfold rotr. guards_ok.
  eexists; split; [reflexivity|].
  set (c := count mod bits). assert (Hc : 0 <= c < bits) by (subst c; lia).
  rewrite shiftl1_pow by lia.
  assert (P1 : 0 < 2 ^ bits) by (apply Z.pow_pos_nonneg; lia).
  assert (P2 : 0 < 2 ^ c) by (apply Z.pow_pos_nonneg; lia).
  unfold is_rotr, bits_are. split.
  - apply lor_bound; [lia| |].
    + rewrite shiftr_div by lia. split; [apply Z.div_pos; lia|].
      apply Z.le_lt_trans with v; [|lia]. apply Z.div_le_upper_bound; nia.
    + rewrite land_ones_mod by lia. lia.
  - intros i Hi. rewrite Z.lor_spec, Z.land_spec, testbit_ones_full by lia.
    rewrite Z.shiftl_spec, Z.shiftr_spec by lia.
    replace ((0 <=? i) && (i <? bits)) with true by lia. rewrite andb_true_r.
    destruct (Z.lt_ge_cases (i + c) bits).
    + rewrite (Z.testbit_neg_r v (i - (bits - c))) by lia. rewrite orb_false_r.
      f_equal. rewrite Z.mod_small; lia.
    + rewrite (testbit_small v bits (i + c)) by lia. cbn [orb].
      f_equal. symmetry. replace (i + c) with ((i - (bits - c)) + 1 * bits) by lia.
      rewrite Z.mod_add by lia. rewrite Z.mod_small; lia.
Qed.

(* ---------------------------------------------------------------- rotate_right / rotate_left (32 bit) *)
Lemma rotate_right_correct v n :
  0 <= n <= 32 -> 0 <= v < 2 ^ 32 ->
  exists r, rotate_right v n = Ok r /\ is_rotr 32 v (n mod 32) r.
Proof.
  intros Hn Hv. unfold rotate_right. guards_ok.
  eexists; split; [reflexivity|].
  assert (P2 : 0 < 2 ^ n) by (apply Z.pow_pos_nonneg; lia).
  unfold is_rotr, bits_are. split.
  - split.
    + apply Z.lor_nonneg. split.
      * rewrite shiftr_div by lia. apply Z.div_pos; lia.
      * rewrite shiftl_mul, land_ones_mod by lia.
        assert (0 < 2 ^ (32 - n)) by (apply Z.pow_pos_nonneg; lia). nia.
    + apply bits_lt_pow2; [lia| |].
      * apply Z.lor_nonneg. split.
        -- rewrite shiftr_div by lia. apply Z.div_pos; lia.
        -- rewrite shiftl_mul, land_ones_mod by lia.
           assert (0 < 2 ^ (32 - n)) by (apply Z.pow_pos_nonneg; lia). nia.
      * intros i Hi. rewrite Z.lor_spec, Z.shiftr_spec, Z.shiftl_spec, Z.land_spec by lia.
        rewrite testbit_ones_full by lia.
        rewrite (testbit_small v 32 (i + n)) by lia. cbn [orb].
        replace (i - (32 - n) <? n) with false by lia. now rewrite andb_false_r, andb_false_r.
  - intros i Hi. rewrite Z.lor_spec, Z.shiftr_spec, Z.shiftl_spec, Z.land_spec by lia.
    rewrite testbit_ones_full by lia.
    destruct (Z.eq_dec n 32) as [->|Hne].
    + rewrite Z.mod_same by lia. rewrite (testbit_small v 32 (i + 32)) by lia. cbn [orb].
      replace (i - (32 - 32)) with i by lia. replace (i + 0) with i by lia.
      rewrite Z.mod_small by lia.
      replace ((0 <=? i) && (i <? 32)) with true by lia. now rewrite andb_true_r.
    + rewrite (Z.mod_small n 32) by lia.
      destruct (Z.lt_ge_cases (i + n) 32).
      * rewrite (Z.testbit_neg_r v (i - (32 - n))) by lia. cbn [andb]. rewrite orb_false_r.
        f_equal. rewrite Z.mod_small; lia.
      * rewrite (testbit_small v 32 (i + n)) by lia. cbn [orb].
        replace ((0 <=? i - (32 - n)) && (i - (32 - n) <? n)) with true by lia. rewrite andb_true_r.
        f_equal. symmetry. replace (i + n) with ((i - (32 - n)) + 1 * 32) by lia.
        rewrite Z.mod_add by lia. rewrite Z.mod_small; lia.
Qed.

Lemma is_rotr_rotl n v c r : 0 < n -> 0 <= c < n -> is_rotr n v ((n - c) mod n) r -> is_rotl n v c r.
Proof.
  intros Hn Hc [Hr B]. split; [exact Hr|]. intros i Hi. rewrite B by lia. f_equal.
  destruct (Z.eq_dec c 0) as [->|Hz].
  - replace (n - 0) with (0 + 1 * n) by lia. rewrite Z.mod_add, Z.mod_0_l by lia. f_equal; lia.
  - rewrite (Z.mod_small (n - c) n) by lia.
    replace (i + (n - c)) with ((i - c) + 1 * n) by lia. now rewrite Z.mod_add by lia.
Qed.

Lemma rotate_left_correct v n :
  0 <= n < 32 -> 0 <= v < 2 ^ 32 ->
  exists r, rotate_left v n = Ok r /\ is_rotl 32 v n r.
Proof.
  intros Hn Hv. unfold rotate_left. guards_ok.
  destruct (rotate_right_correct v (32 - n)) as [r [E R]]; [lia|lia|].
  rewrite E. cbn [bind]. eexists; split; [reflexivity|].
  apply is_rotr_rotl; [lia|lia|exact R].
Qed.

Lemma rotate_left_rejects v n : ~ (0 <= n < 32) -> rotate_left v n = Internal AssertionError.
Proof.
  intros H. unfold rotate_left.
  destruct (Z.lt_ge_cases n 0).
  - replace (n >=? 0) with false by lia. reflexivity.
  - replace (n >=? 0) with true by lia. rewrite guard_true.
    replace (n <? 32) with false by lia. reflexivity.
Qed.

(* ---------------------------------------------------------------- sign_extend, correct *)
Lemma sign_extend_correct value bits :
  1 <= bits -> sign_extend value bits = Ok (signed_of bits value).
Proof.
  intros Hb. unfold sign_extend. guards_ok. f_equal. unfold signed_of.
  rewrite shiftl1_pow by lia. rewrite land_ones_mod by lia.
  assert (P : 0 < 2 ^ (bits - 1)) by (apply Z.pow_pos_nonneg; lia).
  assert (E : 2 ^ bits = 2 * 2 ^ (bits - 1)).
  { replace bits with (1 + (bits - 1)) at 1 by lia. rewrite Z.pow_add_r by lia. reflexivity. }
  (* Z.land value 2^(bits-1) is 2^(bits-1) * testbit *)
  assert (L : Z.land value (2 ^ (bits - 1)) = (value / 2 ^ (bits - 1)) mod 2 * 2 ^ (bits - 1)).
  { apply Z.bits_inj'. intros i Hi. rewrite Z.land_spec, Z.pow2_bits_eqb by lia.
    rewrite Z.mul_pow2_bits by lia.
    destruct (Z.eqb_spec (bits - 1) i) as [<-|Hne].
    - rewrite andb_true_r. replace (bits - 1 - (bits - 1)) with 0 by lia.
      change ((value / 2 ^ (bits - 1)) mod 2) with ((value / 2 ^ (bits - 1)) mod 2 ^ 1).
      rewrite Z.mod_pow2_bits_low by lia. rewrite Z.div_pow2_bits by lia. f_equal; lia.
    - rewrite andb_false_r. symmetry.
      destruct (Z.lt_ge_cases i (bits - 1)).
      + apply Z.testbit_neg_r. lia.
      + apply (testbit_small _ 1); lia. }
  rewrite L, E. set (X := 2 ^ (bits - 1)) in *.
  pose proof (Z.div_mod value X ltac:(lia)) as D1.
  pose proof (Z.mod_pos_bound value X P) as B1.
  pose proof (Z.div_mod (value / X) 2 ltac:(lia)) as D2.
  pose proof (Z.mod_pos_bound (value / X) 2 ltac:(lia)) as B2.
  destruct (Z.eq_dec ((value / X) mod 2) 0) as [Z0|Z1].
  - rewrite Z0 in *.
    rewrite <- (Z.mod_unique_pos (value + X) (2 * X) (value / X / 2) (X + value mod X)); nia.
  - assert (Z1' : (value / X) mod 2 = 1) by lia. rewrite Z1' in *.
    rewrite <- (Z.mod_unique_pos (value + X) (2 * X) (value / X / 2 + 1) (value mod X)); nia.
Qed.

Lemma bit_length_eq v n : 1 <= n -> 0 <= v < 2 ^ n -> (bit_length v =? n) = (2 ^ (n - 1) <=? v).
Proof.
  intros Hn Hv. unfold bit_length.
  assert (P : 0 < 2 ^ (n - 1)) by (apply Z.pow_pos_nonneg; lia).
  destruct (Z.eqb_spec v 0) as [->|Hz]; [lia|].
  rewrite Z.abs_eq by lia.
  assert (Z.log2 v < n) by (apply Z.log2_lt_pow2; lia).
  destruct (Z.leb_spec (2 ^ (n - 1)) v).
  - assert (n - 1 <= Z.log2 v) by (apply Z.log2_le_pow2; lia). lia.
  - assert (Z.log2 v < n - 1) by (apply Z.log2_lt_pow2; lia). lia.
Qed.

Lemma signed_wrap v X : 0 < X ->
  (v + X) mod (2 * X) - X = if X <=? v mod (2 * X) then v mod (2 * X) - 2 * X else v mod (2 * X).
Proof.
  intros HX.
  pose proof (Z.div_mod v (2 * X) ltac:(lia)) as D. pose proof (Z.mod_pos_bound v (2 * X) ltac:(lia)) as B.
  destruct (Z.leb_spec X (v mod (2 * X))).
  - rewrite <- (Z.mod_unique_pos (v + X) (2 * X) (v / (2 * X) + 1) (v mod (2 * X) - X)); nia.
  - rewrite <- (Z.mod_unique_pos (v + X) (2 * X) (v / (2 * X)) (v mod (2 * X) + X)); nia.
Qed.

Lemma correct_unsigned value bits :
  0 <= bits -> correct value bits false = Ok (unsigned_of bits value).
Proof.
  intros Hb. unfold correct. guard_ok. rewrite shiftl1_pow by lia.
  assert (P : 0 < 2 ^ bits) by (apply Z.pow_pos_nonneg; lia).
  guard_ok. reflexivity.
Qed.

Lemma correct_signed value bits :
  1 <= bits -> correct value bits true = Ok (signed_of bits value).
Proof.
  intros Hb. unfold correct. guard_ok. rewrite shiftl1_pow by lia.
  assert (P : 0 < 2 ^ bits) by (apply Z.pow_pos_nonneg; lia).
  guard_ok. cbn [andb].
  assert (P' : 0 < 2 ^ (bits - 1)) by (apply Z.pow_pos_nonneg; lia).
  assert (E : 2 ^ bits = 2 * 2 ^ (bits - 1)).
  { replace bits with (1 + (bits - 1)) at 1 by lia. rewrite Z.pow_add_r by lia. reflexivity. }
  rewrite bit_length_eq by lia. unfold signed_of. rewrite E, signed_wrap by lia.
  destruct (2 ^ (bits - 1) <=? value mod (2 * 2 ^ (bits - 1))); reflexivity.
Qed.

Lemma to_signed_correct value bits : 1 <= bits -> to_signed value bits = Ok (signed_of bits value).
Proof. intros H. unfold to_signed. now rewrite correct_signed. Qed.

Lemma to_unsigned_correct value bits : 0 <= bits -> to_unsigned value bits = Ok (unsigned_of bits value).
Proof. intros H. unfold to_unsigned. now rewrite correct_unsigned. Qed.

Lemma signed_of_spec n v : 1 <= n ->
  - 2 ^ (n - 1) <= signed_of n v < 2 ^ (n - 1) /\ (signed_of n v) mod 2 ^ n = v mod 2 ^ n.
Proof.
  intros Hn. unfold signed_of.
  assert (P' : 0 < 2 ^ (n - 1)) by (apply Z.pow_pos_nonneg; lia).
  assert (E : 2 ^ n = 2 * 2 ^ (n - 1)).
  { replace n with (1 + (n - 1)) at 1 by lia. rewrite Z.pow_add_r by lia. reflexivity. }
  rewrite E. split; [lia|].
  rewrite Zminus_mod_idemp_l. f_equal. lia.
Qed.

(* ---------------------------------------------------------------- reverse_bits *)
Lemma testbit_add_shift a b s i :
  0 <= s -> 0 <= a < 2 ^ s -> 0 <= i ->
  Z.testbit (a + b * 2 ^ s) i = if i <? s then Z.testbit a i else Z.testbit b (i - s).
Proof.
  intros Hs Ha Hi. rewrite <- lor_disjoint_add by lia.
  rewrite Z.lor_spec, Z.shiftl_spec by lia.
  destruct (Z.ltb_spec i s).
  - rewrite (Z.testbit_neg_r b) by lia. apply orb_false_r.
  - rewrite (testbit_small a s i) by lia. reflexivity.
Qed.

Lemma land1_b2z v : Z.land v 1 = b2z (Z.testbit v 0).
Proof.
  change 1 with (2 ^ 1 - 1). rewrite land_ones_mod by lia. change (2 ^ 1) with 2.
  rewrite Z.bit0_odd, <- Z.bit0_mod, Z.bit0_odd. unfold b2z, Z.b2z. reflexivity.
Qed.

Fixpoint rev_acc (n : nat) (v pos : Z) : Z :=
  match n with
  | O => 0
  | S n' => Z.shiftl (Z.land v 1) pos + rev_acc n' (Z.shiftr v 1) (pos - 1)
  end.

Lemma rev_acc_spec n : forall v pos, pos = Z.of_nat n - 1 ->
  0 <= rev_acc n v pos < 2 ^ (pos + 1) /\
  forall i, 0 <= i <= pos -> Z.testbit (rev_acc n v pos) i = Z.testbit v (pos - i).
Proof.
  induction n as [|n IH]; intros v pos Hp.
  - cbn [rev_acc]. subst pos. cbn. split; [lia|]. intros i Hi. lia.
  - cbn [rev_acc]. destruct (IH (Z.shiftr v 1) (pos - 1) ltac:(lia)) as [Hr Hb].
    replace (pos - 1 + 1) with pos in Hr by lia.
    assert (Hpos : 0 <= pos) by lia.
    rewrite shiftl_mul by lia. rewrite Z.add_comm.
    assert (P : 0 < 2 ^ pos) by (apply Z.pow_pos_nonneg; lia).
    assert (E : 2 ^ (pos + 1) = 2 * 2 ^ pos) by (rewrite Z.pow_add_r by lia; lia).
    rewrite land1_b2z. split.
    + rewrite E. unfold b2z. destruct (Z.testbit v 0); lia.
    + intros i Hi. rewrite testbit_add_shift by lia.
      destruct (Z.ltb_spec i pos).
      * rewrite Hb by lia. rewrite Z.shiftr_spec by lia. f_equal. lia.
      * replace i with pos by lia. replace (pos - pos) with 0 by lia.
        unfold b2z. destruct (Z.testbit v 0); reflexivity.
Qed.

Lemma reverse_bits_loop1_spec fuel : forall y v pos,
  -1 <= pos -> (Z.to_nat (pos + 1) < fuel)%nat ->
  reverse_bits_loop1 fuel y v pos =
  Ok (y + rev_acc (Z.to_nat (pos + 1)) v pos, Z.shiftr v (pos + 1), -1).
Proof.
  induction fuel as [|fuel IH]; intros y v pos Hp Hf; [lia|].
  cbn [reverse_bits_loop1].
  destruct (Z.geb_spec pos 0) as [Hge|Hlt].
  - guard_ok. rewrite IH by lia.
    replace (Z.to_nat (pos + 1)) with (S (Z.to_nat (pos - 1 + 1))) by lia.
    cbn [rev_acc]. do 2 f_equal. f_equal.
    + lia.
    + rewrite Z.shiftr_shiftr by lia. f_equal. lia.
  - replace pos with (-1) by lia. cbn. do 2 f_equal. f_equal. lia.
Qed.

Lemma reverse_bits_correct fuel v bits :
  0 <= bits -> (Z.to_nat bits < fuel)%nat ->
  exists r, reverse_bits fuel v bits = Ok r /\ is_reverse bits v r.
Proof.
  intros Hb Hf. unfold reverse_bits.
  rewrite reverse_bits_loop1_spec by lia. cbn [bind].
  eexists; split; [reflexivity|].
  replace (bits - 1 + 1) with bits by lia. rewrite Z.add_0_l.
  destruct (rev_acc_spec (Z.to_nat bits) v (bits - 1) ltac:(lia)) as [Hr Hbits].
  replace (bits - 1 + 1) with bits in Hr by lia.
  split; [exact Hr|]. intros i Hi. apply Hbits. lia.
Qed.

(* ---------------------------------------------------------------- popcnt *)
Lemma truthy_land_bit v i : 0 <= i -> truthy (Z.land v (Z.shiftl 1 i)) = Z.testbit v i.
Proof.
  intros Hi. unfold truthy. rewrite shiftl1_pow by lia.
  destruct (Z.testbit v i) eqn:T.
  - apply negb_true_iff, Z.eqb_neq. intros E.
    assert (X : Z.testbit (Z.land v (2 ^ i)) i = false) by (rewrite E; apply Z.bits_0).
    rewrite Z.land_spec, T, Z.pow2_bits_true in X by lia. discriminate.
  - apply negb_false_iff, Z.eqb_eq. apply Z.bits_inj'. intros j Hj.
    rewrite Z.land_spec, Z.bits_0, Z.pow2_bits_eqb by lia.
    destruct (Z.eqb_spec i j) as [<-|]; [now rewrite T|apply andb_false_r].
Qed.

Fixpoint popsum (v : Z) (l : list Z) : Z :=
  match l with [] => 0 | i :: r => b2z (Z.testbit v i) + popsum v r end.

Lemma popcnt_loop1_spec v l : forall count,
  (forall i, In i l -> 0 <= i) -> popcnt_loop1 v l count = Ok (count + popsum v l).
Proof.
  induction l as [|i l IH]; intros count Hl; cbn [popcnt_loop1 popsum].
  - f_equal. lia.
  - assert (0 <= i) by (apply Hl; now left). guard_ok.
    rewrite truthy_land_bit by lia. rewrite IH by (intros; apply Hl; now right).
    unfold b2z. destruct (Z.testbit v i); f_equal; lia.
Qed.

Lemma popsum_app v a b : popsum v (a ++ b) = popsum v a + popsum v b.
Proof. induction a as [|x a IH]; cbn [app popsum]; [lia|rewrite IH; lia]. Qed.

Lemma popsum_range v n : popsum v (rangeZ 0 (Z.of_nat n)) = popcount_nat v n.
Proof.
  induction n as [|n IH]; [reflexivity|].
  replace (Z.of_nat (S n)) with (Z.of_nat n + 1) by lia.
  rewrite rangeZ_snoc by lia. rewrite popsum_app, IH. cbn [popsum popcount_nat]. lia.
Qed.

Lemma popcnt_correct v bits : 0 <= bits -> popcnt v bits = Ok (popcount bits v).
Proof.
  intros Hb. unfold popcnt. rewrite popcnt_loop1_spec by (intros i Hi; apply rangeZ_In in Hi; lia).
  cbn [bind]. f_equal. unfold popcount.
  replace bits with (Z.of_nat (Z.to_nat bits)) at 1 by lia. rewrite popsum_range. lia.
Qed.
