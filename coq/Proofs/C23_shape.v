(* Proofs/C23_shape.v — soundness of the structuring validator (C23). *)
From Coq Require Import List Bool Arith Lia.
Import ListNotations.
From PV Require Import Spec.StructSpec Model.ShapeCheck.

(* ---- induction principle for the nested shape type *)
Section ShapeInd.
  Variable P : shape -> Prop.
  Hypothesis HNone : P SNone.
  Hypothesis HBasic : forall b, P (SBasic b).
  Hypothesis HSeq : forall l, Forall P l -> P (SSeq l).
  Hypothesis HIf : forall b y n, P y -> P n -> P (SIf b y n).
  Hypothesis HLoop : forall body, P body -> P (SLoop body).
  Hypothesis HBreak : forall k, P (SBreak k).
  Hypothesis HCont : forall k, P (SContinue k).
  Fixpoint shape_ind' (s : shape) : P s :=
    match s with
    | SNone => HNone
    | SBasic b => HBasic b
    | SSeq l => HSeq l ((fix go (l : list shape) : Forall P l :=
                           match l with
                           | [] => Forall_nil P
                           | x :: r => Forall_cons x (shape_ind' x) (go r)
                           end) l)
    | SIf b y n => HIf b y n (shape_ind' y) (shape_ind' n)
    | SLoop body => HLoop body (shape_ind' body)
    | SBreak k => HBreak k
    | SContinue k => HCont k
    end.
End ShapeInd.

(* ---- unfolding of exec *)
Lemma exec_0 : forall g o s h, exec g o 0 s h = RFuel h.
Proof. reflexivity. Qed.

Lemma exec_S : forall g o f s h,
  exec g o (S f) s h =
  match s with
  | SNone => RNormal h
  | SBasic b => match term_of g b with
                | Some TRet => RHalt (b :: h)
                | Some _ => RNormal (b :: h)
                | None => RStuck h
                end
  | SSeq l => seq_run (exec g o (S f)) l h
  | SIf b y n => match term_of g b with
                 | Some (TBr _ _) => if o (b :: h) then exec g o (S f) y (b :: h)
                                     else exec g o (S f) n (b :: h)
                 | _ => RStuck h
                 end
  | SLoop body =>
      match exec g o (S f) body h with
      | RNormal h1 => RNormal h1
      | RBreak O h1 => RNormal h1
      | RBreak (S k) h1 => RBreak k h1
      | RCont O h1 => exec g o f (SLoop body) h1
      | RCont (S k) h1 => RCont k h1
      | x => x
      end
  | SBreak k => RBreak k h
  | SContinue k => RCont k h
  end.
Proof. intros. destruct s; reflexivity. Qed.

Lemma seq_run_cons : forall ex s r h,
  seq_run ex (s :: r) h = match ex s h with RNormal h1 => seq_run ex r h1 | x => x end.
Proof. reflexivity. Qed.

Arguments exec : simpl never.

(* ---- the CFG machine *)
Section Sound.
Variable g : cfg.
Variable o : oracle.

Definition cpath (h : hist) (p : tgt) (h' : hist) (p' : tgt) : Prop :=
  exists k, cfg_run g o k p h = (h', p').

Lemma cpath_refl : forall h p, cpath h p h p.
Proof. intros. exists 0. reflexivity. Qed.

Lemma cfg_run_add : forall a b p h,
  cfg_run g o (a + b) p h = let '(h1, p1) := cfg_run g o a p h in cfg_run g o b p1 h1.
Proof.
  induction a; intros; simpl.
  - reflexivity.
  - destruct (cfg_step g o p h) as [[h1 p1]|] eqn:E.
    + apply IHa.
    + (* stuck stays stuck *)
      clear IHa. induction b; simpl; [reflexivity|]. rewrite E. reflexivity.
Qed.

Lemma cpath_trans : forall h1 p1 h2 p2 h3 p3,
  cpath h1 p1 h2 p2 -> cpath h2 p2 h3 p3 -> cpath h1 p1 h3 p3.
Proof.
  intros * [a Ha] [b Hb]. exists (a + b). rewrite cfg_run_add, Ha. exact Hb.
Qed.

Lemma cpath_step : forall h n h1 p1 h' p',
  cfg_step g o (TNode n) h = Some (h1, p1) -> cpath h1 p1 h' p' -> cpath h (TNode n) h' p'.
Proof.
  intros * E [k Hk]. exists (S k). simpl. simpl in E. rewrite E. exact Hk.
Qed.

(* runs from a node never reach TEnd / TBad *)
Definition live (p : tgt) : Prop := match p with TNode _ | THalt => True | _ => False end.
Lemma cfg_run_live : forall k p h h' p', live p -> cfg_run g o k p h = (h', p') -> live p'.
Proof.
  induction k; simpl; intros * L E.
  - inversion E; subst; auto.
  - destruct (cfg_step g o p h) as [[h1 p1]|] eqn:S1.
    + eapply IHk; [|exact E].
      destruct p; simpl in S1; try discriminate.
      destruct (term_of g n) as [[| |]|]; inversion S1; subst; simpl; auto.
    + inversion E; subst; auto.
Qed.

Lemma cfg_run_len : forall k p h h' p', cfg_run g o k p h = (h', p') ->
  exists l, h' = l ++ h /\ length l <= k.
Proof.
  induction k; simpl; intros * E.
  - inversion E; subst. exists []. split; auto.
  - destruct (cfg_step g o p h) as [[h1 p1]|] eqn:S1.
    + destruct (IHk _ _ _ _ E) as [l [-> Hl]].
      destruct p; simpl in S1; try discriminate.
      destruct (term_of g n) as [[| |]|]; inversion S1; subst;
        exists (l ++ [n]); rewrite <- app_assoc; simpl; split; auto;
        rewrite app_length; simpl; lia.
    + inversion E; subst. exists []. split; simpl; auto. lia.
Qed.

(* ---- targets of results *)
Definition rtgt (r : res) (nx : tgt) (c : ctx) : tgt :=
  match r with
  | RNormal _ => nx
  | RBreak k _ => flw c k
  | RCont k _ => hdr c k
  | RHalt _ => THalt
  | _ => TBad
  end.

Definition sound_res (h : hist) (e : tgt) (r : res) (nx : tgt) (c : ctx) : Prop :=
  match r with
  | RFuel h' => exists t, cpath h e h' t
  | RStuck _ => False
  | _ => cpath h e (rhist r) (rtgt r nx c)
  end.

Lemma sound_res_trans : forall h e h1 e1 r nx c,
  cpath h e h1 e1 -> sound_res h1 e1 r nx c -> sound_res h e r nx c.
Proof.
  intros * P S. destruct r; simpl in *; try (eapply cpath_trans; eassumption); auto.
  destruct S as [t S]. exists t. eapply cpath_trans; eassumption.
Qed.

(* ---- order on abstract targets: TBad is "unknown" *)
Definition tle (a b : tgt) : Prop := a = TBad \/ a = b.
Definition cle (c1 c2 : ctx) : Prop :=
  Forall2 (fun x y => tle (fst x) (fst y) /\ tle (snd x) (snd y)) c1 c2.

Lemma tle_refl : forall a, tle a a. Proof. right; reflexivity. Qed.
Lemma cle_refl : forall c, cle c c.
Proof. induction c; constructor; auto. split; apply tle_refl. Qed.

Lemma cle_hdr : forall c1 c2 k, cle c1 c2 -> tle (hdr c1 k) (hdr c2 k).
Proof.
  unfold hdr. intros c1 c2 k H. revert k.
  induction H; intros [|k]; simpl; try apply tle_refl.
  - destruct x, y; simpl in *; tauto.
  - apply IHForall2.
Qed.
Lemma cle_flw : forall c1 c2 k, cle c1 c2 -> tle (flw c1 k) (flw c2 k).
Proof.
  unfold flw. intros c1 c2 k H. revert k.
  induction H; intros [|k]; simpl; try apply tle_refl.
  - destruct x, y; simpl in *; tauto.
  - apply IHForall2.
Qed.

Lemma entry_mono : forall s nx1 nx2 c1 c2,
  tle nx1 nx2 -> cle c1 c2 -> tle (entry s nx1 c1) (entry s nx2 c2).
Proof.
  induction s using shape_ind'; intros nx1 nx2 c1 c2 Hn Hc; simpl; auto;
    try apply tle_refl.
  - induction H; simpl; auto.
  - apply IHs; auto. constructor; auto. simpl. split; [left; reflexivity|exact Hn].
  - apply cle_flw; auto.
  - apply cle_hdr; auto.
Qed.

Lemma entry_loop_hd : forall body nx c hd,
  entry body nx ((TBad, nx) :: c) = TNode hd ->
  entry body nx ((TNode hd, nx) :: c) = TNode hd.
Proof.
  intros * E.
  assert (T : tle (entry body nx ((TBad, nx) :: c)) (entry body nx ((TNode hd, nx) :: c))).
  { apply entry_mono; [apply tle_refl|]. constructor; [|apply cle_refl].
    simpl. split; [left; reflexivity|apply tle_refl]. }
  rewrite E in T. destruct T as [T|T]; [discriminate|auto].
Qed.

Lemma tgt_eqb_eq : forall a b, tgt_eqb a b = true -> a = b.
Proof.
  destruct a, b; simpl; intros H; try discriminate; auto.
  apply Nat.eqb_eq in H. subst; auto.
Qed.

(* ---- main soundness lemma *)
Lemma exec_sound : forall fuel s h nx c,
  check g s nx c = true ->
  sound_res h (entry s nx c) (exec g o fuel s h) nx c.
Proof.
  induction fuel as [|f IHf].
  { intros. rewrite exec_0. simpl. eexists. apply cpath_refl. }
  induction s using shape_ind'; intros h nx c Hc; rewrite exec_S.
  - (* SNone *) simpl. apply cpath_refl.
  - (* SBasic *)
    simpl in Hc. simpl entry.
    destruct (term_of g b) as [[|t|y n]|] eqn:T; try discriminate.
    + unfold sound_res, cpath; simpl. exists 1. simpl. unfold term_of in T |- *. rewrite T. reflexivity.
    + apply tgt_eqb_eq in Hc. subst nx. unfold sound_res, cpath; simpl. exists 1. simpl. rewrite T. reflexivity.
    + apply andb_true_iff in Hc. destruct Hc as [Hy Hc].
      apply Nat.eqb_eq in Hy. apply tgt_eqb_eq in Hc. subst n nx.
      unfold sound_res, cpath; simpl. exists 1. simpl. rewrite T. destruct (o (b :: h)); reflexivity.
  - (* SSeq *)
    simpl in Hc. simpl entry. revert h Hc.
    induction H as [|s r Hs Hr IH]; intros h Hc.
    + simpl. apply cpath_refl.
    + simpl in Hc. apply andb_true_iff in Hc. destruct Hc as [Hc1 Hc2].
      rewrite seq_run_cons. simpl fold_right.
      set (nx1 := fold_right (fun s1 acc => entry s1 acc c) nx r) in *.
      specialize (Hs h nx1 c Hc1).
      destruct (exec g o (S f) s h) as [h1|k h1|k h1|h1|h1|h1] eqn:E; simpl in Hs |- *; auto.
      specialize (IH h1 Hc2).
      eapply sound_res_trans; [exact Hs|exact IH].
  - (* SIf *)
    simpl in Hc. simpl entry.
    destruct (term_of g b) as [[|t|ty tn]|] eqn:T; try discriminate.
    apply andb_true_iff in Hc; destruct Hc as [Hc Cn].
    apply andb_true_iff in Hc; destruct Hc as [Hc Cy].
    apply andb_true_iff in Hc; destruct Hc as [Ey En].
    apply tgt_eqb_eq in Ey. apply tgt_eqb_eq in En.
    assert (St : cfg_step g o (TNode b) h = Some (b :: h, TNode (if o (b :: h) then ty else tn))).
    { simpl. rewrite T. reflexivity. }
    assert (P1 : cpath h (TNode b) (b :: h) (TNode (if o (b :: h) then ty else tn))).
    { exists 1. simpl. rewrite T. reflexivity. }
    destruct (o (b :: h)) eqn:O.
    + specialize (IHs1 (b :: h) nx c Cy). rewrite Ey in IHs1.
      eapply sound_res_trans; [exact P1|exact IHs1].
    + specialize (IHs2 (b :: h) nx c Cn). rewrite En in IHs2.
      eapply sound_res_trans; [exact P1|exact IHs2].
  - (* SLoop *)
    pose proof Hc as Hloop.
    simpl in Hc. simpl entry.
    destruct (entry s nx ((TBad, nx) :: c)) as [hd| | |] eqn:E; try discriminate.
    pose proof (entry_loop_hd _ _ _ _ E) as E'.
    specialize (IHs h nx ((TNode hd, nx) :: c) Hc). rewrite E' in IHs.
    unfold sound_res in *.
    destruct (exec g o (S f) s h) as [h1|k h1|k h1|h1|h1|h1] eqn:X; simpl in IHs |- *; auto.
    + destruct k; simpl in *; auto.
    + destruct k; simpl in *; auto.
      (* continue 0: run the loop again with less fuel *)
      specialize (IHf (SLoop s) h1 nx c Hloop). simpl entry in IHf. rewrite E in IHf.
      unfold hdr in IHs. simpl in IHs.
      eapply sound_res_trans; [exact IHs|exact IHf].
  - (* SBreak *) simpl. apply cpath_refl.
  - (* SContinue *) simpl. apply cpath_refl.
Qed.

(* ---- histories only grow *)
Lemma exec_ext : forall fuel s h, exists l, rhist (exec g o fuel s h) = l ++ h.
Proof.
  induction fuel as [|f IHf].
  { intros. exists []. reflexivity. }
  induction s using shape_ind'; intros h; rewrite exec_S.
  - exists []; reflexivity.
  - destruct (term_of g b) as [[| |]|]; simpl;
      try (exists [b]; reflexivity); exists []; reflexivity.
  - revert h. induction H as [|s r Hs Hr IH]; intros h.
    + exists []; reflexivity.
    + rewrite seq_run_cons. destruct (Hs h) as [l1 E1].
      destruct (exec g o (S f) s h) eqn:X; simpl in E1;
        try (exists l1; exact E1).
      destruct (IH h0) as [l2 E2]. exists (l2 ++ l1). rewrite E2, E1, app_assoc. reflexivity.
  - destruct (term_of g b) as [[| |]|]; try (exists []; reflexivity).
    destruct (o (b :: h)).
    + destruct (IHs1 (b :: h)) as [l E]. exists (l ++ [b]). rewrite E, <- app_assoc. reflexivity.
    + destruct (IHs2 (b :: h)) as [l E]. exists (l ++ [b]). rewrite E, <- app_assoc. reflexivity.
  - destruct (IHs h) as [l1 E1].
    destruct (exec g o (S f) s h) as [h1|k h1|k h1|h1|h1|h1] eqn:X; simpl in E1;
      try (exists l1; exact E1).
    + destruct k; exists l1; exact E1.
    + destruct k; [|exists l1; exact E1].
      destruct (IHf (SLoop s) h1) as [l2 E2]. exists (l2 ++ l1).
      rewrite E2, E1, app_assoc. reflexivity.
  - exists []; reflexivity.
  - exists []; reflexivity.
Qed.

Lemma ext_same : forall (l1 l2 h : hist), l2 ++ l1 ++ h = h -> l1 = [] /\ l2 = [].
Proof.
  intros * E. apply (f_equal (@length node)) in E. rewrite !app_length in E.
  destruct l1, l2; simpl in E; auto; exfalso; rewrite ?app_length in E; simpl in E; lia.
Qed.

(* a run that visits no block reaches the abstract entry of the shape *)
Definition is_jump (r : res) : bool :=
  match r with RNormal _ | RBreak _ _ | RCont _ _ => true | _ => false end.

Lemma silent_entry : forall fuel s h nx c,
  is_jump (exec g o fuel s h) = true -> rhist (exec g o fuel s h) = h ->
  entry s nx c = rtgt (exec g o fuel s h) nx c.
Proof.
  induction fuel as [|f IHf].
  { intros. rewrite exec_0 in H. discriminate. }
  induction s using shape_ind'; intros h nx c; rewrite exec_S.
  - reflexivity.
  - destruct (term_of g b) as [[| |]|]; simpl; intros J E; try discriminate;
      exfalso; apply (f_equal (@length node)) in E; simpl in E; lia.
  - revert h nx. induction H as [|s r Hs Hr IH]; intros h nx.
    + reflexivity.
    + rewrite seq_run_cons. simpl entry. intros J E.
      destruct (exec_ext (S f) s h) as [l1 X1].
      destruct (exec g o (S f) s h) as [h1|k h1|k h1|h1|h1|h1] eqn:X; try discriminate.
      * destruct (exec_ext (S f) (SSeq r) h1) as [l2 X2]. rewrite exec_S in X2.
        simpl in X1. subst h1. rewrite E in X2. symmetry in X2.
        apply ext_same in X2. destruct X2 as [-> ->]. simpl in *.
        specialize (IH h nx J E). simpl entry in IH.
        specialize (Hs h (fold_right (fun s1 acc => entry s1 acc c) nx r) c).
        rewrite X in Hs. simpl in Hs. rewrite Hs by auto. exact IH.
      * simpl in *. specialize (Hs h (fold_right (fun s1 acc => entry s1 acc c) nx r) c).
        rewrite X in Hs. simpl in Hs. apply Hs; auto.
      * simpl in *. specialize (Hs h (fold_right (fun s1 acc => entry s1 acc c) nx r) c).
        rewrite X in Hs. simpl in Hs. apply Hs; auto.
  - destruct (term_of g b) as [[| |]|]; simpl; intros J E; try discriminate.
    exfalso.
    destruct (o (b :: h)).
    + destruct (exec_ext (S f) s1 (b :: h)) as [l X]. rewrite E in X.
      apply (f_equal (@length node)) in X. rewrite app_length in X. simpl in X. lia.
    + destruct (exec_ext (S f) s2 (b :: h)) as [l X]. rewrite E in X.
      apply (f_equal (@length node)) in X. rewrite app_length in X. simpl in X. lia.
  - simpl entry. intros J E.
    destruct (exec_ext (S f) s h) as [l1 X1].
    specialize (IHs h nx ((TBad, nx) :: c)).
    destruct (exec g o (S f) s h) as [h1|k h1|k h1|h1|h1|h1] eqn:X; try discriminate;
      simpl in X1.
    + simpl in *. apply IHs; auto.
    + destruct k; simpl in *; apply IHs; auto.
    + destruct k; simpl in *; [|apply IHs; auto].
      destruct (exec_ext f (SLoop s) h1) as [l2 X2]. subst h1. rewrite E in X2.
      symmetry in X2. apply ext_same in X2. destruct X2 as [-> ->]. simpl in *.
      specialize (IHf (SLoop s) h nx c J E). simpl entry in IHf. exact IHf.
  - reflexivity.
  - reflexivity.
Qed.

(* every unit of fuel that is used up buys at least one visited block *)
Lemma exec_fuel_len : forall fuel s h nx c h',
  check g s nx c = true -> exec g o fuel s h = RFuel h' -> length h + fuel <= length h'.
Proof.
  induction fuel as [|f IHf].
  { intros * _ E. rewrite exec_0 in E. inversion E; subst. lia. }
  induction s using shape_ind'; intros h nx c h' Hc; rewrite exec_S.
  - discriminate.
  - destruct (term_of g b) as [[| |]|]; discriminate.
  - simpl in Hc. revert h Hc. induction H as [|s r Hs Hr IH]; intros h Hc.
    + discriminate.
    + simpl in Hc. apply andb_true_iff in Hc. destruct Hc as [Hc1 Hc2].
      rewrite seq_run_cons.
      destruct (exec_ext (S f) s h) as [l1 X1].
      destruct (exec g o (S f) s h) as [h1|k h1|k h1|h1|h1|h1] eqn:X; try discriminate.
      * intros E. specialize (IH h1 Hc2 E). simpl in X1. subst h1.
        rewrite app_length in IH. lia.
      * intros E. inversion E; subst. eapply Hs; eauto.
  - simpl in Hc. destruct (term_of g b) as [[|t|ty tn]|]; try discriminate.
    apply andb_true_iff in Hc; destruct Hc as [Hc Cn].
    apply andb_true_iff in Hc; destruct Hc as [Hc Cy].
    destruct (o (b :: h)); intros E.
    + specialize (IHs1 _ _ _ _ Cy E). simpl in IHs1. lia.
    + specialize (IHs2 _ _ _ _ Cn E). simpl in IHs2. lia.
  - pose proof Hc as Hloop. simpl in Hc.
    destruct (entry s nx ((TBad, nx) :: c)) as [hd| | |] eqn:En; try discriminate.
    destruct (exec_ext (S f) s h) as [l1 X1].
    pose proof (silent_entry (S f) s h nx ((TBad, nx) :: c)) as Sil.
    destruct (exec g o (S f) s h) as [h1|k h1|k h1|h1|h1|h1] eqn:X; try discriminate.
    + destruct k; discriminate.
    + destruct k; [|discriminate]. intros E.
      specialize (IHf (SLoop s) h1 nx c h' Hloop E).
      simpl in X1. subst h1.
      destruct l1.
      * simpl in Sil. rewrite En in Sil. unfold hdr in Sil. simpl in Sil.
        specialize (Sil eq_refl eq_refl). discriminate.
      * simpl in IHf. rewrite app_length in IHf. lia.
    + intros E. inversion E; subst. eapply IHs; eauto.
  - discriminate.
  - discriminate.
Qed.

Theorem shape_sound : forall s fuel,
  check_shape g s = true -> agrees g o s fuel.
Proof.
  intros s fuel H. unfold check_shape in H. apply andb_true_iff in H. destruct H as [He Hc].
  apply tgt_eqb_eq in He.
  pose proof (exec_sound fuel s [] TEnd [] Hc) as S. rewrite He in S.
  pose proof (exec_fuel_len fuel s [] TEnd [] ) as L.
  unfold agrees, sound_res, cpath in *.
  destruct (exec g o fuel s []) as [h1|k h1|k h1|h1|h1|h1] eqn:X; simpl in S.
  - destruct S as [k S]. apply cfg_run_live in S; simpl in *; tauto.
  - destruct S as [k' S]. apply cfg_run_live in S; simpl; auto.
    unfold flw in S. destruct k; simpl in S; tauto.
  - destruct S as [k' S]. apply cfg_run_live in S; simpl; auto.
    unfold hdr in S. destruct k; simpl in S; tauto.
  - destruct S as [k S]. exists k. exact S.
  - destruct S as [t [k S]]. exists k. split; [exists t; exact S|].
    specialize (L h1 Hc eq_refl). simpl in L. lia.
  - tauto.
Qed.

End Sound.
