(* Proofs/C11_relocs.v — C11: per relocation class, the value an ISA-conforming decoder reads from the
   patched field (Spec/RelocSpec.v) is the symbol address, for every representable distance; the accept
   range of the code as it is (lax: wrap_negative / Token.__setitem__) and the refutations that follow. *)
From PV Require Import Lib.Py Lib.Tac Spec.RelocSpec Gen.bitfun Model.Reloc Proofs.C11_bits.
Open Scope Z_scope.

(* ---------------------------------------------------------------- helpers *)
Lemma wn_ok value bits : 1 <= bits -> - 2 ^ (bits - 1) <= value < 2 ^ bits ->
  wrap_negative value bits = Ok (value mod 2 ^ bits).
Proof.
  intros Hb Hv. unfold wrap_negative. guards_ok. rewrite ?guard_true.
  rewrite !shiftl1_pow by lia.
  replace (negb ((- 2 ^ (bits - 1) <=? value) && (value <? 2 ^ bits - 1 + 1))) with false by lia.
  rewrite land_ones_mod by lia.
  assert (P : 0 < 2 ^ bits) by (apply Z.pow_pos_nonneg; lia).
  pose proof (Z.mod_pos_bound value (2 ^ bits) P).
  replace (value mod 2 ^ bits >=? 0) with true by lia. reflexivity.
Qed.

Lemma wn_rejects value bits : 1 <= bits -> ~ (- 2 ^ (bits - 1) <= value < 2 ^ bits) ->
  wrap_negative value bits = Diag 1.
Proof.
  intros Hb Hv. unfold wrap_negative. guards_ok. rewrite ?guard_true.
  rewrite !shiftl1_pow by lia.
  replace (negb ((- 2 ^ (bits - 1) <=? value) && (value <? 2 ^ bits - 1 + 1))) with true by lia.
  reflexivity.
Qed.

Lemma land_mask_range x k : 0 <= k -> 0 <= Z.land x (Z.shiftl 1 k - 1) < 2 ^ k.
Proof.
  intros. rewrite shiftl1_pow, land_ones_mod by lia. apply Z.mod_pos_bound. apply Z.pow_pos_nonneg; lia.
Qed.

Lemma land_lit x m k : m = 2 ^ k - 1 -> 0 <= k -> Z.land x m = x mod 2 ^ k.
Proof. intros -> Hk. apply land_ones_mod. exact Hk. Qed.

Lemma land_pow2_eq0 x k : 0 <= k -> (Z.land x (2 ^ k) =? 0) = ((x / 2 ^ k) mod 2 =? 0).
Proof.
  intros Hk.
  assert (E : Z.land x (2 ^ k) = (if Z.testbit x k then 2 ^ k else 0)).
  { apply Z.bits_inj'. intros i Hi. rewrite Z.land_spec, Z.pow2_bits_eqb by lia.
    destruct (Z.eqb_spec k i) as [->|Hne].
    - rewrite andb_true_r. destruct (Z.testbit x i) eqn:E; [now rewrite Z.pow2_bits_true|now rewrite Z.bits_0].
    - rewrite andb_false_r. destruct (Z.testbit x k); [rewrite Z.pow2_bits_false by lia|rewrite Z.bits_0]; reflexivity. }
  rewrite E. rewrite Z.testbit_odd, Z.shiftr_div_pow2 by lia.
  assert (0 < 2 ^ k) by (apply Z.pow_pos_nonneg; lia).
  rewrite Zmod_odd. destruct (Z.odd (x / 2 ^ k)); [|reflexivity].
  destruct (Z.eqb_spec (2 ^ k) 0); [lia|reflexivity].
Qed.

Definition W32 (data : list Z) : Prop := wf data /\ len data = 4.
Definition W16 (data : list Z) : Prop := wf data /\ len data = 2.

Lemma W32_range d : W32 d -> 0 <= le_value d < 2 ^ 32.
Proof. intros [Hw Hl]. pose proof (le_value_range d Hw) as H. rewrite Hl in H. exact H. Qed.
Lemma W16_range d : W16 d -> 0 <= le_value d < 2 ^ 16.
Proof. intros [Hw Hl]. pose proof (le_value_range d Hw) as H. rewrite Hl in H. exact H. Qed.

(* one BitView write: existence + the facts needed to continue *)
Lemma bv_step data a b n v : n = b - a -> wf data -> 0 <= a -> a < b -> b <= 8 * len data -> len data <= 4 ->
  0 <= v < 2 ^ n ->
  exists d', bv_set data 4 a b v = Ok d' /\ wf d' /\ len d' = len data /\
             le_value d' = wset (le_value data) a n v.
Proof. intros ->. intros. apply bv_set_wset; lia || auto. Qed.

Lemma mod_small_range x m : 0 < m -> 0 <= x mod m < m.
Proof. intros. apply Z.mod_pos_bound. assumption. Qed.

(* normalise: masks and shifts by literals to mod / div by literals *)
Ltac lits :=
  repeat match goal with
  | |- context [Z.land ?x 1] => rewrite (land_lit x 1 1) by (reflexivity || lia)
  | |- context [Z.land ?x 3] => rewrite (land_lit x 3 2) by (reflexivity || lia)
  | |- context [Z.land ?x 7] => rewrite (land_lit x 7 3) by (reflexivity || lia)
  | |- context [Z.land ?x 15] => rewrite (land_lit x 15 4) by (reflexivity || lia)
  | |- context [Z.land ?x 63] => rewrite (land_lit x 63 6) by (reflexivity || lia)
  | |- context [Z.land ?x 255] => rewrite (land_lit x 255 8) by (reflexivity || lia)
  | |- context [Z.land ?x 1023] => rewrite (land_lit x 1023 10) by (reflexivity || lia)
  | |- context [Z.land ?x 2047] => rewrite (land_lit x 2047 11) by (reflexivity || lia)
  | |- context [Z.land ?x 4095] => rewrite (land_lit x 4095 12) by (reflexivity || lia)
  | |- context [Z.land ?x 1048575] => rewrite (land_lit x 1048575 20) by (reflexivity || lia)
  | |- context [Z.shiftr ?x ?k] => rewrite (shiftr_div x k) by lia
  end.

Ltac pows :=
  repeat match goal with
  | |- context [2 ^ ?k] =>
      let v := eval compute in (2 ^ k) in
      match v with Zpos _ => change (2 ^ k) with v end
  | H : context [2 ^ ?k] |- _ =>
      let v := eval compute in (2 ^ k) in
      match v with Zpos _ => change (2 ^ k) with v in H end
  end.

(* push [bits] through nested [wset]s with literal positions *)
Ltac bw :=
  repeat first [ rewrite bits_wset_same by lia | rewrite bits_wset_other by lia ].

(* perform the next BitView write of the goal; the state of the byte list [d] written to is found in
   hypotheses  wf d, len d = L, le_value d = W *)
Ltac bvs :=
  match goal with
  | Hw : wf ?d, Hl : len ?d = _, Hv : le_value ?d = _ |- context [bv_set ?d 4 ?a ?b ?v] =>
      let d' := fresh "d" in let E := fresh "E" in let Hw' := fresh "Hw" in let Hl' := fresh "Hl" in
      let Hv' := fresh "Hv" in
      let n := eval compute in (b - a) in
      destruct (bv_step d a b n v) as (d' & E & Hw' & Hl' & Hv');
      [ reflexivity | exact Hw | lia | lia | rewrite Hl; lia | rewrite Hl; lia
      | lits; pows; try (apply mod_small_range; lia); try lia | ];
      rewrite E; cbn [bind]; rewrite Hl in Hl'; rewrite Hv in Hv'; clear E
  end.
Ltac lv := repeat match goal with |- context [le_word ?d] => rewrite <- (le_value_word d) end.
Ltac fin_word :=
  lv;
  match goal with H : le_value ?d = _ |- context [le_value ?d] => rewrite !H end.
Ltac start_word data W0 :=
  let H := fresh "HW0" in remember (le_value data) as W0 eqn:H; symmetry in H.

(* ---------------------------------------------------------------- RISC-V J-type (jal; b_imm20, cb_imm11, cbl_imm11) *)
Lemma jtype_exact S P data : W32 data -> S mod 2 = 0 -> P mod 2 = 0 -> - 2 ^ 20 <= S - P < 2 ^ 21 ->
  exists d', apply_jtype S P data = Ok d' /\ W32 d' /\
    rv_j_imm (le_word d') = sext 21 (S - P) /\
    bits (le_word d') 0 12 = bits (le_word data) 0 12.
Proof.
  intros [Hw Hl] HS HP Hr. unfold apply_jtype, asrt.
  rewrite (proj2 (Z.eqb_eq _ _) HS), (proj2 (Z.eqb_eq _ _) HP). unfold guard.
  rewrite shiftr_div by lia. change (2 ^ 1) with 2.
  rewrite wn_ok by (pows; lia). cbn [bind].
  set (r := ((S - P) / 2) mod 2 ^ 20).
  assert (Hrr : 0 <= r < 2 ^ 20) by (apply mod_small_range; pows; lia).
  lv. start_word data W0.
  bvs. bvs. bvs. bvs.
  eexists. split; [reflexivity|]. split; [split; assumption|].
  fin_word. unfold rv_j_imm. bw.
  split; [|reflexivity].
  lits. unfold sext. subst r. pows. lia.
Qed.

Lemma sext_id n x : 0 < n -> fits_signed n x -> sext n x = x.
Proof.
  unfold fits_signed, sext. intros Hn Hx.
  assert (E : 2 ^ n = 2 * 2 ^ (n - 1)) by (rewrite <- Z.pow_succ_r by lia; f_equal; lia).
  assert (0 < 2 ^ (n - 1)) by (apply Z.pow_pos_nonneg; lia).
  rewrite Z.mod_small by lia. lia.
Qed.

(* ---------------------------------------------------------------- token writes *)
Lemma tok_set_wset' ts W s e n v : n = e - s -> 0 <= W < 2 ^ ts -> 0 <= s -> s < e -> e <= ts ->
  - 2 ^ n < v < 2 ^ n -> tok_set ts W s e v = Ok (wset W s n v).
Proof. intros ->. intros. apply tok_set_wset; assumption. Qed.

Lemma pack_word size W : 0 <= size -> 0 <= W < 2 ^ (8 * size) ->
  wf (pack size W) /\ len (pack size W) = size /\ le_value (pack size W) = W.
Proof.
  intros Hs HW. destruct (pack_spec size W) as (A & B & C); try lia.
  repeat split; auto. rewrite C. apply Z.mod_small. exact HW.
Qed.

Ltac wrange := repeat (apply wset_range; [lia|lia|lia|]); assumption.
Ltac vrange :=
  match goal with
  | |- _ < Z.land ?x (Z.shiftl 1 ?k - 1) < _ =>
      let H := fresh in assert (H := land_mask_range x k ltac:(lia)); pows; lia
  | _ => pows; lia
  end.
Ltac toks :=
  match goal with
  | |- context [tok_set ?ts ?W ?s ?e ?v] =>
      let n := eval compute in (e - s) in
      let H := fresh in
      assert (H : tok_set ts W s e v = Ok (wset W s n v));
      [ apply tok_set_wset'; [reflexivity | wrange | lia | lia | lia | vrange]
      | rewrite H; clear H; cbn [bind] ]
  end.

(* Relocation.apply through a single bit_range field *)
Lemma tok_apply_single size data s e n v : n = e - s -> wf data -> len data = size -> 0 < size -> 0 <= s ->
  s < e -> e <= 8 * size -> - 2 ^ n < v < 2 ^ n ->
  exists d', tok_apply size data [(s, e)] v = Ok d' /\ wf d' /\ len d' = size /\
             le_value d' = wset (le_value data) s n v.
Proof.
  intros -> Hw Hl Hs H0 Hse He Hv. unfold tok_apply. rewrite unpack_ok by exact Hl. cbn [bind field_set].
  pose proof (le_value_range data Hw) as HW. rewrite Hl in HW.
  rewrite tok_set_wset by (rewrite ?(Z.mul_comm size 8); lia). cbn [bind].
  destruct (pack_word size (wset (le_value data) s (e - s) v)) as (A & B & C); try lia.
  { apply wset_range; lia. }
  eexists. split; [reflexivity|]. auto.
Qed.

Lemma tok_apply_single_diag size data s e v : len data = size -> s < e -> 2 ^ (e - s) <= v ->
  tok_apply size data [(s, e)] v = Diag 1.
Proof.
  intros Hl Hse Hv. unfold tok_apply. rewrite unpack_ok by exact Hl. cbn [bind field_set].
  rewrite tok_set_diag by lia. reflexivity.
Qed.

(* ---------------------------------------------------------------- RISC-V B-type (b_imm12) *)
Lemma btype_exact A S P data : W32 data -> S mod 2 = 0 -> P mod 2 = 0 -> - 2 ^ 12 <= S - P < 2 ^ 13 ->
  exists d', apply RvBImm12 A S data P = Ok d' /\ W32 d' /\
    rv_b_imm (le_word d') = sext 13 (S - P) /\
    bits (le_word d') 0 7 = bits (le_word data) 0 7 /\ bits (le_word d') 12 13 = bits (le_word data) 12 13.
Proof.
  intros [Hw Hl] HS HP Hr. unfold apply, asrt.
  rewrite (proj2 (Z.eqb_eq _ _) HS), (proj2 (Z.eqb_eq _ _) HP). unfold guard.
  rewrite wn_ok by (pows; lia). cbn [bind].
  set (r := ((S - P) / 2) mod 2 ^ 12).
  assert (Hrr : 0 <= r < 2 ^ 12) by (apply mod_small_range; pows; lia).
  unfold tok_apply. rewrite unpack_ok by exact Hl. cbn [bind field_set concat_set parts_width].
  pose proof (le_value_range data Hw) as HW. rewrite Hl in HW. change (8 * 4) with 32 in HW. change (4 * 8) with 32.
  lv. start_word data W0.
  toks. toks. toks. toks.
  match goal with |- context [pack 4 ?W] => destruct (pack_word 4 W) as (A1 & B1 & C1); [lia | change (8 * 4) with 32; wrange |] end.
  eexists. split; [reflexivity|]. split; [split; assumption|].
  lv. rewrite !C1. unfold rv_b_imm. bw.
  split; [|split; reflexivity].
  rewrite !shiftl1_pow by lia. rewrite !land_ones_mod by lia. lits. unfold sext. subst r. pows. lia.
Qed.

(* ---------------------------------------------------------------- RISC-V hi20 / lo12 pairs *)
Lemma hi20_exact x data : W32 data ->
  exists d', apply_hi20 x data = Ok d' /\ W32 d' /\
    bits (le_word d') 12 20 = ((x + 2048) / 4096) mod 2 ^ 20 /\
    bits (le_word d') 0 12 = bits (le_word data) 0 12.
Proof.
  intros [Hw Hl]. unfold apply_hi20. change 2048 with (2 ^ 11) at 1. rewrite land_pow2_eq0 by lia.
  lv. start_word data W0.
  destruct (Z.eqb_spec ((x / 2 ^ 11) mod 2) 0) as [E0|E0].
  - bvs. eexists. split; [reflexivity|]. split; [split; assumption|].
    fin_word. bw. split; [|reflexivity]. lits. pows. lia.
  - bvs. eexists. split; [reflexivity|]. split; [split; assumption|].
    fin_word. bw. split; [|reflexivity]. lits. pows. lia.
Qed.

Lemma lo12_exact data v : W32 data -> 0 <= v < 2 ^ 12 ->
  exists d', tok_apply 4 data [(20, 32)] v = Ok d' /\ W32 d' /\
    bits (le_word d') 20 12 = v /\ bits (le_word d') 0 20 = bits (le_word data) 0 20.
Proof.
  intros [Hw Hl] Hv.
  destruct (tok_apply_single 4 data 20 32 12 v) as (d' & E & Hw' & Hl' & Hv'); auto; try lia.
  exists d'. split; [exact E|]. split; [split; assumption|].
  lv. rewrite Hv'. bw. split; [|reflexivity]. apply Z.mod_small. exact Hv.
Qed.
