(* Proofs/C16_roundtrip.v — the last folds (externals, variables, subroutines) and the unbounded round trip
   of the repaired reader/writer: roundtrip_unbounded. *)
From PV Require Import Lib.Py Lib.Tac Lib.Val Lib.Json Spec.IRSyntax Model.IrJson Proofs.C16_irjson.
From PV Require Import Proofs.C16_rd_scope Proofs.C16_rd_patch Proofs.C16_rd_func Proofs.C16_rd_wf Proofs.C16_rd_sub Proofs.C16_rd_mod.
From Coq Require Import String Ascii.
Local Open Scope string_scope.
Local Open Scope list_scope.
Open Scope Z_scope.

(* all subroutines of a module, in order *)
Lemma subs_fold gn : forall rest done gk st js,
  MInv gn gk done st ->
  (forall f, In f rest -> wf_func gn f = true /\ ctor_ok_func f = true /\ In (f_name f) gn /\ mem_str (f_name f) gk = false) ->
  NoDup (map f_name rest) ->
  mapM (write_subroutine cfg_fixed) rest = Ok js ->
  exists st' gk', construct_subroutines cfg_fixed js st = Ok st' /\ MInv gn gk' (done ++ rest) st' /\
                  (forall s, In s gk' <-> In s gk \/ In s (map f_name rest)).
Proof.
  induction rest as [|f rest IH]; intros done gk st js M H Hd Hw.
  - cbn in Hw. inversion Hw; subst js. exists st, gk. rewrite app_nil_r. split; [reflexivity|]. split; [assumption|].
    intros s. cbn. tauto.
  - cbn [mapM] in Hw. destruct (write_subroutine cfg_fixed f) as [j| | |] eqn:Wf; try discriminate.
    cbn [bind] in Hw. destruct (mapM _ rest) as [js'| | |] eqn:Wr; try discriminate. inversion Hw; subst js.
    destruct (H f (or_introl eq_refl)) as (A & B & C & D). inversion Hd as [|? ? D1 D2]; subst.
    destruct (function_read gn gk done f st j M A B C D Wf) as (st1 & E1 & M1).
    destruct (IH (done ++ [f]) (f_name f :: gk) st1 js' M1) as (st2 & gk2 & E2 & M2 & G2); try assumption; try reflexivity.
    { intros g Hg. destruct (H g (or_intror Hg)) as (A' & B' & C' & D'). repeat split; try assumption.
      cbn. rewrite D', orb_false_r. apply String.eqb_neq. intros E. apply D1. rewrite <- E. now apply in_map. }
    exists st2, gk2. cbn [construct_subroutines]. rewrite E1. cbn [bind]. rewrite <- app_assoc in M2. cbn [app] in M2.
    split; [exact E2|]. split; [exact M2|]. intros s. rewrite G2. cbn. tauto.
Qed.

Lemma ext_read gn gk done e st :
  MInv gn gk done st -> In (ext_name e) gn -> mem_str (ext_name e) gk = false ->
  exists st', construct_external cfg_fixed (write_external e) st = Ok (e, st') /\ MInv gn (ext_name e :: gk) done st'.
Proof.
  intros M Hn Hk. destruct (reg_global gn gk done (ext_name e) st M Hn Hk) as [R M1].
  eexists. split; [|exact M1].
  destruct e as [n|n args rt|n args]; cbn [ext_name] in *; unfold construct_external, write_external, jstr;
    cbn [jget jlookup String.eqb Ascii.eqb Bool.eqb bind as_str as_list].
  - rewrite R. reflexivity.
  - rewrite (mapM_map_id write_type get_type) by (intros; apply type_roundtrip).
    cbn [bind]. rewrite type_roundtrip. cbn [bind]. rewrite R. reflexivity.
  - rewrite (mapM_map_id write_type get_type) by (intros; apply type_roundtrip).
    cbn [bind]. rewrite R. reflexivity.
Qed.
Lemma var_read gn gk done g st :
  MInv gn gk done st -> wf_gvar gn g = true -> In (g_name g) gn -> mem_str (g_name g) gk = false ->
  exists st', construct_variable cfg_fixed (write_variable cfg_fixed g) st = Ok (g, st') /\ MInv gn (g_name g :: gk) done st'.
Proof.
  intros M Hw Hn Hk. destruct (reg_global gn gk done (g_name g) st M Hn Hk) as [R M1].
  eexists. split; [|exact M1].
  destruct g as [n b a al v]. unfold wf_gvar in Hw. cbn [g_value g_name] in *.
  unfold construct_variable, write_variable, jstr, jint.
  cbn [fix_value cfg_fixed g_name g_binding g_amount g_align g_value app].
  cbn [jget jlookup String.eqb Ascii.eqb Bool.eqb bind as_str as_int].
  rewrite binding_roundtrip. cbn [bind].
  destruct v as [l|].
  - rewrite (mapM_map_id write_init read_init).
    + cbn [bind]. rewrite R. reflexivity.
    + intros x Hx. apply (init_roundtrip gn). rewrite forallb_forall in Hw. now apply Hw.
  - cbn [bind]. rewrite R. reflexivity.
Qed.

Lemma exts_fold gn : forall es done gk st,
  MInv gn gk done st -> (forall e, In e es -> In (ext_name e) gn /\ mem_str (ext_name e) gk = false) ->
  NoDup (map ext_name es) ->
  exists st' gk', construct_externals cfg_fixed (map write_external es) st = Ok (es, st') /\ MInv gn gk' done st' /\
                  (forall s, In s gk' <-> In s gk \/ In s (map ext_name es)).
Proof.
  induction es as [|e es IH]; intros done gk st M H Hd.
  - exists st, gk. split; [reflexivity|]. split; [assumption|]. intros s. cbn. tauto.
  - destruct (H e (or_introl eq_refl)) as (C & D). inversion Hd as [|? ? D1 D2]; subst.
    destruct (ext_read gn gk done e st M C D) as (st1 & E1 & M1).
    destruct (IH done (ext_name e :: gk) st1 M1) as (st2 & gk2 & E2 & M2 & G2); try assumption.
    { intros x Hx. destruct (H x (or_intror Hx)) as (C' & D'). split; [assumption|].
      cbn. rewrite D', orb_false_r. apply String.eqb_neq. intros E. apply D1. rewrite <- E. now apply in_map. }
    exists st2, gk2. cbn [map construct_externals]. rewrite E1. cbn [bind]. rewrite E2. cbn [bind].
    split; [reflexivity|]. split; [exact M2|]. intros s. rewrite G2. cbn. tauto.
Qed.
Lemma vars_fold gn : forall gs done gk st,
  MInv gn gk done st -> (forall g, In g gs -> wf_gvar gn g = true /\ In (g_name g) gn /\ mem_str (g_name g) gk = false) ->
  NoDup (map g_name gs) ->
  exists st' gk', construct_variables cfg_fixed (map (write_variable cfg_fixed) gs) st = Ok (gs, st') /\ MInv gn gk' done st' /\
                  (forall s, In s gk' <-> In s gk \/ In s (map g_name gs)).
Proof.
  induction gs as [|g gs IH]; intros done gk st M H Hd.
  - exists st, gk. split; [reflexivity|]. split; [assumption|]. intros s. cbn. tauto.
  - destruct (H g (or_introl eq_refl)) as (W & C & D). inversion Hd as [|? ? D1 D2]; subst.
    destruct (var_read gn gk done g st M W C D) as (st1 & E1 & M1).
    destruct (IH done (g_name g :: gk) st1 M1) as (st2 & gk2 & E2 & M2 & G2); try assumption.
    { intros x Hx. destruct (H x (or_intror Hx)) as (W' & C' & D'). split; [assumption|]. split; [assumption|].
      cbn. rewrite D', orb_false_r. apply String.eqb_neq. intros E. apply D1. rewrite <- E. now apply in_map. }
    exists st2, gk2. cbn [map construct_variables]. rewrite E1. cbn [bind]. rewrite E2. cbn [bind].
    split; [reflexivity|]. split; [exact M2|]. intros s. rewrite G2. cbn. tauto.
Qed.

(* the writer of the repaired code never fails *)
Lemma write_instruction_total f i : exists j, write_instruction cfg_fixed f i = Ok j.
Proof. destruct i; eexists; reflexivity. Qed.
Lemma mapM_total {A B} (p : A -> result B) l : (forall x, exists y, p x = Ok y) -> exists ys, mapM p l = Ok ys.
Proof.
  intros H. induction l as [|x l [ys IH]]; [now exists []|]. destruct (H x) as [y E]. exists (y :: ys). cbn. now rewrite E, IH.
Qed.
Lemma write_subroutine_total f : exists j, write_subroutine cfg_fixed f = Ok j.
Proof.
  unfold write_subroutine.
  destruct (mapM_total (write_block cfg_fixed f) (IRSyntax.f_blocks f)) as [bjs E].
  { intros k. unfold write_block. destruct (mapM_total (write_instruction cfg_fixed f) (b_ins k) (write_instruction_total f)) as [ij E].
    rewrite E. eexists. reflexivity. }
  rewrite E. cbn [bind]. destruct (f_ret f); eexists; reflexivity.
Qed.

Lemma hideF_all gn gk g :
  (forall s, In s gn -> In s gk) ->
  (forall i r, In i (func_instrs g) -> In r (instr_uses i) -> wf_ref gn g r = true) -> hideF gk g = g.
Proof.
  intros Hall W. unfold hideF. transitivity (mapf (fun i => i) g).
  - apply mapf_ext_in. intros i Hi. apply map_refs_id. intros r Hr. specialize (W i r Hi Hr).
    destruct r as [v|n|s|s]; try reflexivity. cbn in *. apply mem_str_In in W. apply Hall in W. apply mem_str_In in W. now rewrite W.
  - unfold mapf. destruct g as [a b c d bl]. cbn. f_equal. rewrite <- (map_id bl) at 2. apply map_ext. intros k.
    unfold mapb. destruct k. cbn. f_equal. apply map_id.
Qed.

Theorem roundtrip_unbounded m : wf_modul m = true -> ctor_ok_modul m = true -> roundtrip cfg_fixed m = Ok m.
Proof.
  intros Hwf Hct. unfold wf_modul in Hwf. apply andb_prop in Hwf. destruct Hwf as [Hwf Wf]. apply andb_prop in Hwf. destruct Hwf as [Wn Wv].
  set (gn := global_names m) in *. apply nodup_str_NoDup in Wn.
  unfold global_names in gn. assert (Egn : gn = map ext_name (m_externals m) ++ map g_name (m_vars m) ++ map f_name (IRSyntax.m_funcs m)) by reflexivity.
  rewrite Egn in Wn. pose proof (NoDup_app_l _ _ Wn) as Ne. pose proof (NoDup_app_r _ _ Wn) as Nvf.
  pose proof (NoDup_app_l _ _ Nvf) as Nv. pose proof (NoDup_app_r _ _ Nvf) as Nf.
  destruct (mapM_total (write_subroutine cfg_fixed) (IRSyntax.m_funcs m) write_subroutine_total) as [subs Ws].
  unfold roundtrip, to_dict. rewrite Ws. cbn [bind]. unfold from_dict, jstr.
  cbn [jget jlookup String.eqb Ascii.eqb Bool.eqb bind as_str as_list].
  (* externals *)
  destruct (exts_fold gn (m_externals m) [] [] rst0 (MInv_init gn)) as (st1 & gk1 & E1 & M1 & G1); [|exact Ne|].
  { intros e He. split; [|reflexivity]. rewrite Egn. apply in_or_app. left. now apply in_map. }
  rewrite E1. cbn [bind].
  (* variables *)
  destruct (vars_fold gn (m_vars m) [] gk1 st1 M1) as (st2 & gk2 & E2 & M2 & G2); [|exact Nv|].
  { intros g Hg. split; [rewrite forallb_forall in Wv; now apply Wv|]. split.
    - rewrite Egn. apply in_or_app. right. apply in_or_app. left. now apply in_map.
    - apply mem_str_false. rewrite G1. intros [[]|C]. apply (NoDup_app_disj _ _ (g_name g) Wn C). apply in_or_app. left. now apply in_map. }
  rewrite E2. cbn [bind].
  (* subroutines *)
  destruct (subs_fold gn (IRSyntax.m_funcs m) [] gk2 st2 subs M2) as (st3 & gk3 & E3 & M3 & G3); [|exact Nf|exact Ws|].
  { intros f Hf. rewrite forallb_forall in Wf. unfold ctor_ok_modul in Hct. rewrite forallb_forall in Hct.
    split; [now apply Wf|]. split; [now apply Hct|]. split.
    - rewrite Egn. apply in_or_app. right. apply in_or_app. right. now apply in_map.
    - apply mem_str_false. rewrite G2, G1. intros [[[]|C]|C].
      + apply (NoDup_app_disj _ _ (f_name f) Wn C). apply in_or_app. right. now apply in_map.
      + apply (NoDup_app_disj _ _ (f_name f) Nvf C). now apply in_map. }
  rewrite E3. cbn [bind app] in *.
  assert (Hall : forall s, In s gn -> In s gk3).
  { intros s Hs. rewrite G3, G2, G1. rewrite Egn, !in_app_iff in Hs. tauto. }
  assert (Hp : rs_pend st3 = []).
  { destruct (rs_pend st3) as [|[s t] p] eqn:P; [reflexivity|]. exfalso.
    assert (L : plookup s (rs_pend st3) = Some t) by (rewrite P; cbn; now rewrite String.eqb_refl).
    destruct (m_pend _ _ _ _ M3 s t L) as (_ & A & B). apply Hall in A. apply mem_str_In in A. congruence. }
  rewrite Hp. cbn [check bind]. f_equal.
  rewrite (m_funcs _ _ _ _ M3).
  assert (Ef : map (hideF gk3) (IRSyntax.m_funcs m) = IRSyntax.m_funcs m).
  { apply map_id_in. intros g Hg. apply (hideF_all gn); [assumption|]. intros i r Hi Hr. exact (m_done _ _ _ _ M3 g i r Hg Hi Hr). }
  rewrite Ef. destruct m; reflexivity.
Qed.
