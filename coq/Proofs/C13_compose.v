(* Proofs/C13_compose.v — C13: per-site end-to-end composition: hole punching + offset shifts + the replacement
   relocation.  After do_relaxations' byte patching, _apply_relaxation_holes and _do_relocation, the bytes of a
   jump site sit at new_off of the old site offset, and decode to a control transfer to the symbol's final address —
   under the explicit hypothesis that the post-relaxation distance fits the field (cross-image growth is exactly
   where that hypothesis fails: known finding). *)
From PV Require Import Lib.Py Lib.Tac Spec.RelocSpec Gen.bitfun Model.Reloc Model.Relax
  Proofs.C11_bits Proofs.C11_final Proofs.C13_relax Proofs.C13_final.
Open Scope Z_scope.

Fixpoint holes_pos (holes : list hole) : Prop :=
  match holes with [] => True | (_, hs) :: r => 0 < hs /\ holes_pos r end.

(* a run of bytes that no hole touches moves as a block *)
Lemma count_run holes : forall lo b i, holes_ok lo holes -> holes_pos holes -> 0 <= i ->
  (forall o, b <= o < b + i -> ~ in_hole o holes) -> count_holes (b + i) holes = count_holes b holes.
Proof.
  induction holes as [|[ho hs] r IH]; intros lo b i H Hp Hi Hn; cbn [count_holes]; [reflexivity|].
  destruct H as (H1 & H2 & H3). destruct Hp as (Hp1 & Hp2).
  destruct (Z.ltb_spec ho b).
  - destruct (Z.ltb_spec ho (b + i)); [|lia]. f_equal.
    apply (IH (ho + hs)); auto. intros o Ho Hin. apply (Hn o Ho). right. exact Hin.
  - destruct (Z.ltb_spec ho (b + i)); [|reflexivity].
    exfalso. apply (Hn ho); [lia|]. left. lia.
Qed.

Lemma rest_bound holes : forall lo o L, holes_ok lo holes -> holes_end lo holes <= L -> o <= L ->
  sum_holes holes - count_holes o holes <= L - o.
Proof.
  induction holes as [|[ho hs] r IH]; intros lo o L H He Ho; cbn [sum_holes count_holes holes_end] in *; [lia|].
  destruct H as (H1 & H2 & H3).
  destruct (Z.ltb_spec ho o).
  - specialize (IH (ho + hs) o L H3 He Ho). lia.
  - pose proof (sum_le_end r (ho + hs) H3). lia.
Qed.

Lemma slice_eq (l1 l2 : list Z) b1 b2 n : 0 <= b1 -> 0 <= b2 -> 0 <= n -> b1 + n <= len l1 -> b2 + n <= len l2 ->
  (forall i, 0 <= i < n -> nthd l1 (b1 + i) = nthd l2 (b2 + i)) -> sliceZ l1 b1 (b1 + n) = sliceZ l2 b2 (b2 + n).
Proof.
  intros H1 H2 Hn L1 L2 H. unfold sliceZ, len in *.
  replace (b1 + n - b1) with n by lia. replace (b2 + n - b2) with n by lia.
  apply (nth_ext _ _ 0 0).
  - rewrite !firstn_length, !skipn_length. lia.
  - intros k Hk. rewrite firstn_length, skipn_length in Hk.
    rewrite !nth_firstn_lt by lia. rewrite !nth_skipn_add.
    specialize (H (Z.of_nat k) ltac:(lia)). unfold nthd in H.
    replace (Z.to_nat b1 + k)%nat with (Z.to_nat (b1 + Z.of_nat k)) by lia.
    replace (Z.to_nat b2 + k)%nat with (Z.to_nat (b2 + Z.of_nat k)) by lia. exact H.
Qed.

(* the bytes of an instruction that no hole touches are found, unchanged, at new_off of its offset *)
Lemma punch_keeps_site holes data d' b n : holes_ok 0 holes -> holes_pos holes -> holes_end 0 holes <= len data ->
  punch data holes = Ok d' -> 0 <= b -> 0 < n -> b + n <= len data ->
  (forall o, b <= o < b + n -> ~ in_hole o holes) ->
  0 <= new_off holes b /\ sliceZ d' (new_off holes b) (new_off holes b + n) = sliceZ data b (b + n).
Proof.
  intros Hok Hpos Hend Hp Hb Hn Hlen Hfree.
  destruct (punch_spec holes 0 data ltac:(lia) Hok Hend) as (d1 & E & L & Pn). rewrite Hp in E. injection E as <-.
  assert (Hc : forall i, 0 <= i <= n -> count_holes (b + i) holes = count_holes b holes).
  { intros i Hi. apply (count_run holes 0); auto; try lia. intros o Ho. apply Hfree. lia. }
  pose proof (count_bounds 0 holes b Hok Hb (Hfree b ltac:(lia))) as Hcb.
  pose proof (count_le_sum holes (b + n) 0 Hok) as Hcs. rewrite (Hc n) in Hcs by lia.
  pose proof (rest_bound holes 0 (b + n) (len data) Hok Hend ltac:(lia)) as Hrb. rewrite (Hc n) in Hrb by lia.
  unfold new_off. split; [lia|].
  apply slice_eq; try lia.
  intros i Hi. specialize (Pn (b + i) ltac:(lia) (Hfree (b + i) ltac:(lia))).
  unfold new_off in Pn. rewrite (Hc i) in Pn by lia. rewrite <- Pn. f_equal. lia.
Qed.

(* ---- a relaxed site: j / jal ra shrunk by do_relaxations, shifted by the holes, relocated by bc_imm11 *)
Theorem relax_link_site_shrunk k A S P old4 d2 holes data d' b addr' S' :
  is_relaxable k -> bytes_ok 4 old4 -> S mod 2 = 0 -> P mod 2 = 0 ->
  do_shrink k S P old4 = Ok (d2, RvcBcImm11) ->                         (* phase 1 patched the site ... *)
  sliceZ data b (b + 2) = d2 ->                                          (* ... into the section data *)
  holes_ok 0 holes -> holes_pos holes -> holes_end 0 holes <= len data -> (* the section's holes *)
  0 <= b -> b + 2 <= len data -> (forall o, b <= o < b + 2 -> ~ in_hole o holes) ->
  punch data holes = Ok d' ->                                            (* _apply_relaxation_holes *)
  let b' := new_off holes b in                                           (* the relocation's shifted offset *)
  let P' := addr' + b' in                                                (* section.address + offset *)
  S' mod 2 = 0 -> P' mod 2 = 0 ->
  fits_signed 12 (S' - P') ->                                            (* the new distance fits c.j *)
  exists d3, apply RvcBcImm11 A S' (sliceZ d' b' (b' + 2)) P' = Ok d3 /\ bytes_ok 2 d3 /\
    rvc_j_target (le_word d3) P' = S' /\
    (if rkind_beq k RvcCBImm11 then is_cj (le_word d3) else is_cjal (le_word d3)) = true.
Proof.
  intros Hk Ho HS HP Hsh Hsl Hok Hpos Hend Hb Hlen Hfree Hp b' P' HS' HP' Hf.
  destruct (punch_keeps_site holes data d' b 2 Hok Hpos Hend Hp Hb ltac:(lia) Hlen Hfree) as (_ & Esl).
  fold b' in Esl. rewrite Esl, Hsl.
  destruct (shrunk_keeps_target k A S P old4 S' P' Hk Ho HS HP HS' HP' Hf) as (d2' & d3 & E2 & E3 & W3 & T & O).
  rewrite Hsh in E2. injection E2 as <-. exists d3. auto.
Qed.

(* ---- a site that was not relaxed (jal-format, 4 bytes): moved by the holes, relocated by its own relocation *)
Theorem relax_link_site_kept k A holes data d' b addr' S' :
  is_jtype k -> bytes_ok 4 (sliceZ data b (b + 4)) ->
  holes_ok 0 holes -> holes_pos holes -> holes_end 0 holes <= len data ->
  0 <= b -> b + 4 <= len data -> (forall o, b <= o < b + 4 -> ~ in_hole o holes) ->
  punch data holes = Ok d' ->
  let b' := new_off holes b in
  let P' := addr' + b' in
  S' mod 2 = 0 -> P' mod 2 = 0 -> fits_signed 21 (S' - P') ->
  exists d3, apply k A S' (sliceZ d' b' (b' + 4)) P' = Ok d3 /\ bytes_ok 4 d3 /\
    rv_jal_target (le_word d3) P' = S' /\
    bits (le_word d3) 0 12 = bits (le_word (sliceZ data b (b + 4))) 0 12.
Proof.
  intros Hk Ho Hok Hpos Hend Hb Hlen Hfree Hp b' P' HS' HP' Hf.
  destruct (punch_keeps_site holes data d' b 4 Hok Hpos Hend Hp Hb ltac:(lia) Hlen Hfree) as (_ & Esl).
  fold b' in Esl. rewrite Esl.
  destruct (exact_rv_jal k A S' P' _ Hk Ho HS' HP' Hf) as (d3 & E & W & T & F). exists d3. auto.
Qed.
