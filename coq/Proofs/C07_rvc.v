(* Proofs/C07_rvc.v — C07, ISA side for the compressed instructions: executing the expansion as a 2-byte
   instruction writes/reads the same registers as the base instruction (frame + non-interference). *)
From PV Require Import Lib.Py Lib.Tac Spec.RV32Decode Spec.RV32Exec Spec.RVCExec Proofs.C07_exec.
Open Scope Z_scope.
Open Scope list_scope.

Lemma exec_len2_frame i s r : ~ In r (writes i) -> getreg (exec_len2 i s) r = getreg s r.
Proof.
  intros H. destruct i; cbn [exec_len2 writes In] in *;
    try (rewrite getreg_setpc, getreg_setreg_other by (intros ->; tauto); reflexivity);
    try (rewrite getreg_setpc; apply exec_frame; cbn [writes In]; tauto).
  destruct (branch_taken _ _ _); apply getreg_setpc.
Qed.

Lemma exec_len2_mem_frame i s a : is_store i = false -> loadbyte (exec_len2 i s) a = loadbyte s a.
Proof.
  intros H. destruct i; cbn [exec_len2 is_store] in *; try discriminate;
    try (rewrite loadbyte_setpc, loadbyte_setreg; reflexivity);
    try (rewrite loadbyte_setpc; apply exec_mem_frame; reflexivity).
  destruct (branch_taken _ _ _); apply loadbyte_setpc.
Qed.

Lemma exec_len2_reads i s s' :
  (forall r, In r (reads i) -> getreg s r = getreg s' r) ->
  getpc s = getpc s' ->
  (forall a, loadbyte s a = loadbyte s' a) ->
  (forall r, In r (writes i) -> getreg (exec_len2 i s) r = getreg (exec_len2 i s') r) /\
  getpc (exec_len2 i s) = getpc (exec_len2 i s') /\
  (forall a, loadbyte (exec_len2 i s) a = loadbyte (exec_len2 i s') a).
Proof.
  intros Hr Hp Hm. destruct (exec_reads i s s' Hr Hp Hm) as (E1 & E2 & E3).
  destruct i; cbn [exec_len2 reads writes In] in *;
    try (split; [|split];
         [ intros r Hin; rewrite !getreg_setpc; now apply E1
         | rewrite !getpc_setpc, Hp; reflexivity
         | intros a; rewrite !loadbyte_setpc; apply E3 ]).
  - (* jal *) split; [|split].
    + intros r [<-|[]]. rewrite !getreg_setpc, !getreg_setreg, Hp.
      rewrite Z.eqb_refl. cbn [andb]. destruct (rd =? 0) eqn:E0; cbn [negb]; [|reflexivity].
      apply Z.eqb_eq in E0. subst. reflexivity.
    + rewrite !getpc_setpc, Hp. reflexivity.
    + intros a. rewrite !loadbyte_setpc, !loadbyte_setreg. apply Hm.
  - (* jalr *) rewrite (Hr rs1) by (now left). split; [|split].
    + intros r [<-|[]]. rewrite !getreg_setpc, !getreg_setreg, Hp. 
      rewrite Z.eqb_refl. cbn [andb]. destruct (rd =? 0) eqn:E0; cbn [negb]; [|reflexivity].
      apply Z.eqb_eq in E0. subst. reflexivity.
    + rewrite !getpc_setpc. reflexivity.
    + intros a. rewrite !loadbyte_setpc, !loadbyte_setreg. apply Hm.
  - (* branch *) rewrite (Hr rs1), (Hr rs2) by tauto. rewrite Hp.
    destruct (branch_taken _ _ _); (split; [|split]); try (intros r []);
      try (rewrite !getpc_setpc; reflexivity); intros a; rewrite !loadbyte_setpc; apply Hm.
Qed.
