(* Proofs/C01_arith.v — Spec/IRSem arithmetic in the IR type of a C type computes the C11 operators
   (operands already converted): one lemma per operator class, exact casts, exact comparisons. *)
From PV Require Import Lib.Py Lib.Tac Spec.CIntSpec Spec.CExprSpec Gen.ceval Model.CEval
                       Model.CGenExpr Spec.IRSyntax Spec.IRSem Proofs.C01_base.
From Coq Require Import String.
Open Scope Z_scope.

(* the IR type of every C integer type has the width and signedness of the C type *)
Definition faithful (k : cfg) (g : cgen) : Prop :=
  forall t, int_shape k (irty g t) = Some (bits (dm_of (cg_ctx g)) t, is_signed (dm_of (cg_ctx g)) t).

Definition all_ity := [TChar; TUChar; TShort; TUShort; TInt; TUInt; TLong; TULong; TLLong; TULLong].
Definition shape_eqb (a : option (Z * bool)) (b : Z * bool) : bool :=
  match a with Some (n, s) => (n =? fst b) && Bool.eqb s (snd b) | None => false end.
Definition faithful_b (k : cfg) (g : cgen) : bool :=
  forallb (fun t => shape_eqb (int_shape k (irty g t))
                              (bits (dm_of (cg_ctx g)) t, is_signed (dm_of (cg_ctx g)) t)) all_ity.
Lemma faithful_b_sound k g : faithful_b k g = true -> faithful k g.
Proof.
  intros H t. unfold faithful_b in H. rewrite forallb_forall in H.
  assert (I : In t all_ity) by (destruct t; cbn; tauto).
  specialize (H t I). unfold shape_eqb in H.
  destruct (int_shape k (irty g t)) as [[n s]|]; [|discriminate].
  apply andb_prop in H as [H1 H2]. cbn [fst snd] in *.
  apply Z.eqb_eq in H1. apply Bool.eqb_prop in H2. now subst.
Qed.

Section Arith.
Variable k : cfg.
Variable g : cgen.
Let c := cg_ctx g.
Hypothesis Hwf : wf_ctx c.
Hypothesis Hf : faithful k g.
Let dm := dm_of c.

Lemma wrap_convert t z : wrap_bits (bits dm t) (is_signed dm t) z = convert dm t z.
Proof.
  unfold wrap_bits, convert. pose proof (bits_ge8 c Hwf t) as B. fold dm in B.
  assert (P : 0 < 2 ^ (bits dm t - 1)) by (apply Z.pow_pos_nonneg; lia).
  destruct (is_signed dm t); cbn [andb].
  - pose proof (half_pow c Hwf t) as HP. fold dm in HP. rewrite HP.
    rewrite (pow2_half (bits dm t)) by lia. rewrite signed_wrap by lia.
    destruct (2 ^ (bits dm t - 1) <=? z mod (2 * 2 ^ (bits dm t - 1))); reflexivity.
  - reflexivity.
Qed.

Lemma wrap_ty_ok t z : wrap_ty k (irty g t) z = Some (convert dm t z).
Proof. unfold wrap_ty. rewrite (Hf t). fold c dm. now rewrite wrap_convert. Qed.

(* every int -> int conversion (wrap, zero-extension, sign-extension) is the C conversion *)
Lemma cast_exact t v : as_int (eval_cast k (irty g t) (Vint v)) = ODone (convert dm t v).
Proof. unfold eval_cast. now rewrite wrap_ty_ok. Qed.

Lemma const_exact t v : as_int (eval_const k (irty g t) (CInt v)) = ODone (convert dm t v).
Proof. unfold eval_const. now rewrite wrap_ty_ok. Qed.

Lemma load_exact t st n v : nth_error st n = Some v -> load_slot k (irty g t) st n = ODone (convert dm t v).
Proof. intros H. unfold load_slot. now rewrite H, wrap_ty_ok. Qed.

Lemma cid t v : in_range dm t v = true -> convert dm t v = v.
Proof. apply (convert_id c Hwf). Qed.
Lemma cir t v : in_range dm t (convert dm t v) = true.
Proof. apply (convert_in_range c Hwf). Qed.

Lemma range_bounds t v : in_range dm t v = true ->
  (if is_signed dm t then - 2 ^ (bits dm t - 1) <= v <= 2 ^ (bits dm t - 1) - 1
   else 0 <= v <= 2 ^ bits dm t - 1).
Proof. unfold in_range, tmin, tmax. destruct (is_signed dm t); lia. Qed.

Lemma no_div_overflow t a b q :
  fit dm t (a ÷ b) = Some q -> is_signed dm t && (a =? - 2 ^ (bits dm t - 1)) && (b =? -1) = false.
Proof.
  intros H. destruct (is_signed dm t) eqn:S; [|reflexivity]. cbn [andb].
  destruct (Z.eqb_spec a (- 2 ^ (bits dm t - 1))) as [->|]; [|reflexivity].
  destruct (Z.eqb_spec b (-1)) as [->|]; [|reflexivity]. exfalso.
  unfold fit in H. rewrite S in H.
  change (-1) with (- (1)) in H. rewrite Z.quot_opp_opp, Z.quot_1_r in H by lia.
  unfold in_range, tmax in H. rewrite S in H.
  destruct (tmin dm t <=? 2 ^ (bits dm t - 1)); cbn [andb] in H; [|discriminate].
  destruct (Z.leb_spec (2 ^ (bits dm t - 1)) (2 ^ (bits dm t - 1) - 1)); [lia|discriminate].
Qed.

(* + - * / % & | ^ : operands in the range of t *)
Lemma binop_arith_exact t op o a b r :
  ir_binop op = Some o -> is_shift op = false ->
  in_range dm t a = true -> in_range dm t b = true ->
  arith dm t op a b = Some r ->
  eval_binop k (irty g t) o a b = ODone r.
Proof.
  intros Ho Hs Ra Rb H. unfold eval_binop. rewrite (Hf t). fold c dm.
  pose proof (bits_ge8 c Hwf t) as B8. fold dm in B8.
  destruct op; try discriminate; injection Ho as <-; cbn [arith] in H.
  - rewrite wrap_convert. f_equal. now apply (fit_convert c Hwf).
  - rewrite wrap_convert. f_equal. now apply (fit_convert c Hwf).
  - rewrite wrap_convert. f_equal. now apply (fit_convert c Hwf).
  - (* / *) destruct (b =? 0) eqn:Eb; [discriminate|].
    pose proof (no_div_overflow t a b r H) as Q.
    rewrite Q. rewrite wrap_convert. f_equal. now apply (fit_convert c Hwf).
  - (* % *) destruct (b =? 0) eqn:Eb; [discriminate|].
    destruct (fit dm t (a ÷ b)) as [z|] eqn:Fq; [|discriminate].
    pose proof (no_div_overflow t a b z Fq) as Q.
    rewrite Q. rewrite wrap_convert. f_equal. now apply (fit_convert c Hwf).
  - rewrite wrap_convert. now injection H as <-.
  - rewrite wrap_convert. now injection H as <-.
  - rewrite wrap_convert. now injection H as <-.
Qed.

(* << >> : left operand in the range of t, count as C requires *)
Lemma binop_shift_exact t op o a n r :
  ir_binop op = Some o -> is_shift op = true ->
  shift dm t op a n = Some r ->
  eval_binop k (irty g t) o a n = ODone r.
Proof.
  intros Ho Hs H. unfold eval_binop. rewrite (Hf t). fold c dm.
  unfold shift in H. destruct ((n <? 0) || (bits dm t <=? n)) eqn:Hn; [discriminate|].
  assert (N : (0 <=? n) && (n <? bits dm t) = true) by lia.
  destruct op; try discriminate; injection Ho as <-; rewrite N, wrap_convert; f_equal.
  - destruct (is_signed dm t) eqn:S.
    + destruct (a <? 0); [discriminate|]. destruct (in_range dm t (a * 2 ^ n)) eqn:R; [|discriminate].
      injection H as <-. now apply cid.
    + injection H as <-. unfold convert. now rewrite S.
  - now injection H as <-.
Qed.

(* comparisons: the IR condition on the converted operands; signedness is the one of t because the
   operands are values of t (normalised to its range) *)
Lemma compare_exact t op cc a b r :
  ir_cond op = Some cc -> arith dm t op a b = Some r -> r = CIntSpec.b2z (eval_cond cc a b).
Proof.
  intros Hc H. destruct op; try discriminate; injection Hc as <-; cbn [arith] in H; injection H as <-;
    cbn [eval_cond]; reflexivity.
Qed.

Lemma neg_exact t a r : fit dm t (- a) = Some r -> eval_unop k (irty g t) Neg a = ODone r.
Proof.
  intros H. unfold eval_unop. rewrite (Hf t). fold c dm. rewrite wrap_convert. f_equal.
  now apply (fit_convert c Hwf).
Qed.
Lemma inv_exact t a : eval_unop k (irty g t) Inv a = ODone (convert dm t (Z.lnot a)).
Proof.
  unfold eval_unop. rewrite (Hf t). fold c dm. rewrite wrap_convert. reflexivity.
Qed.

(* integer promotion preserves values (6.3.1.1p3) *)
Lemma promote_range t v : in_range dm t v = true -> in_range dm (promote dm t) v = true.
Proof.
  intros H. pose proof (bits_int_ge16 c Hwf) as BI. fold dm in BI.
  destruct Hwf as (W1 & W2 & W3).
  assert (P15 : 2 ^ 15 <= 2 ^ (bits dm TInt - 1)) by (apply Z.pow_le_mono_r; lia).
  unfold promote. destruct (rank t <? 3) eqn:Rk; [|exact H].
  destruct t; cbn in Rk; try discriminate;
    unfold in_range, tmin, tmax in *; cbn [is_signed bits] in *;
    change (char_signed dm) with true in *; change (bits_char dm) with 8 in *; change (bits_short dm) with 16 in *;
    change (bits_int dm) with (bits dm TInt) in *; cbn [orb is_signed] in *.
  - cbn in H. lia.
  - change (8 <? bits dm TInt) with (8 <? bits dm TInt). destruct (8 <? bits dm TInt) eqn:E; [|lia].
    cbn [is_signed bits]. change (bits_int dm) with (bits dm TInt). cbn in H. lia.
  - cbn in H. lia.
  - destruct (16 <? bits dm TInt) eqn:E; cbn [is_signed bits]; change (bits_int dm) with (bits dm TInt).
    + assert (2 ^ 16 <= 2 ^ (bits dm TInt - 1)) by (apply Z.pow_le_mono_r; lia). cbn in H. lia.
    + assert (bits dm TInt = 16) by lia. rewrite H0. cbn in H. cbn. lia.
Qed.
End Arith.
