(* Proofs/C32_safe.v — property C32: on validated tables the parser model never crashes (no
   Internal outcome: goto defined after every reduce, the stack never underflows, the exit shape
   with an unbound result is unreachable), and with a termination certificate (state weights and
   (state, look-ahead) ranks checked by [term_ok]) it never runs out of fuel once the fuel exceeds
   an explicit bound linear in the input length. *)
From PV Require Import Lib.Py Spec.CfgGrammarSpec Model.LrValidator Proofs.C32_sound.
Open Scope Z_scope.

Lemma back_depth T final rrhs : forall st,
  stack_path T st -> back (preds T) final rrhs (top_state st) = true ->
  (length rrhs <= length st)%nat.
Proof.
  induction rrhs as [|X r IH]; intros st Hp Hb; [cbn; lia|].
  destruct st as [|e st'].
  - cbn in Hb. discriminate.
  - cbn [back top_state] in Hb. apply andb_true_iff in Hb as [_ Hb].
    rewrite forallb_forall in Hb. cbn in Hp. destruct Hp as (Hin & _ & Hp').
    specialize (Hb _ Hin). cbn [fst snd] in Hb. apply andb_true_iff in Hb as [_ Hb].
    specialize (IH st' Hp' Hb). cbn. lia.
Qed.

Section Safe.
Variable fx : bool.
Variable g : grammar.
Variable T : tables.
Lemma exit_shape_false st : stack_path T st -> at_exit_shape g st = false.
Proof.
  destruct st as [|e [|e' st']]; try reflexivity. cbn. intros (_ & H & _).
  destruct (e_state e =? 0) eqn:E; [apply Z.eqb_eq in E; contradiction|apply andb_false_r].
Qed.

(* the reduce step on a validated stack: enough entries, and [final] holds below *)
Lemma reduce_ready final rhs st :
  stack_path T st -> back (preds T) final (rev rhs) (top_state st) = true ->
  (length st <? length rhs)%nat = false /\ final (top_state (skipn (length rhs) st)) = true.
Proof.
  intros Hp Hb. pose proof (back_depth T final (rev rhs) st Hp Hb) as Hd. rewrite rev_length in Hd.
  split; [apply Nat.ltb_ge; lia|].
  destruct (back_sound T final (rev rhs) st Hp Hb) as [_ H2]; [rewrite rev_length; lia|].
  now rewrite rev_length in H2.
Qed.

Hypothesis HT : tables_ok fx g T = true.

Lemma run_safe : forall fuel st la rest e,
  stack_path T st -> run fx fuel g T st la rest <> Internal e.
Proof.
  induction fuel as [|fuel IH]; intros st la rest e Hp; [discriminate|].
  cbn [run]. rewrite (exit_shape_false st Hp).
  destruct (lookup (top_state st, la) (actions T)) as [a|] eqn:Ea; [|discriminate].
  pose proof (action_checked fx g T HT _ _ Ea) as Hok. cbn [action_ok] in Hok.
  destruct a as [s'|p|p].
  - apply andb_true_iff in Hok as [Hok Hs0].
    destruct (next_token rest) as [la' rest'].
    apply IH. cbn. split; [apply shift_edge; now apply lookup_In in Ea|].
    split; [cbn; intros ->; discriminate|assumption].
  - apply andb_true_iff in Hok as [_ Hok].
    destruct (get_prod g p) as [[i [X rhs]]|] eqn:Eg; [|discriminate].
    destruct (reduce_ready _ rhs st Hp Hok) as [Hl Hfin]. rewrite Hl.
    match goal with |- context [lookup ?k (gotos T)] => destruct (lookup k (gotos T)) as [s'|] eqn:Egt end;
      [|discriminate].
    apply (goto_edge fx g T HT) in Egt as [He Hs0].
    apply IH. cbn. split; [assumption|]. split; [assumption|]. now apply stack_path_skipn.
  - apply andb_true_iff in Hok as [Hok Hb]. 
    destruct (get_prod g p) as [[i [X rhs]]|] eqn:Eg; [|discriminate].
    apply andb_true_iff in Hb as [HX Hb].
    pose proof (goto_edge fx g T HT) as GE. revert IH Hb. clear HT. destruct fx; intros IH Hb; cbn [negb].
    + destruct (reduce_ready _ rhs st Hp Hb) as [Hl Hfin]. rewrite Hl.
      destruct (skipn (length rhs) st) as [|e0 st0] eqn:Esk; [discriminate|].
      assert (Hsk : stack_path T (e0 :: st0)) by (rewrite <- Esk; now apply stack_path_skipn).
      apply orb_true_iff in Hfin as [Hz|Hg].
      * apply Z.eqb_eq in Hz. cbn in Hz, Hsk. destruct Hsk as (_ & Hn & _). contradiction.
      * match goal with |- context [lookup ?k (gotos T)] => destruct (lookup k (gotos T)) as [s'|] eqn:Egt end;
          [|discriminate].
        apply GE in Egt as [He Hs0].
        apply IH. cbn. cbn in Hsk, He. split; [assumption|]. split; assumption.
    + destruct (reduce_ready _ rhs st Hp Hb) as [Hl _]. rewrite Hl. discriminate.
Qed.

End Safe.

Lemma c32_safe_lemma : forall fx g T w fuel e,
  tables_ok fx g T = true -> parse_model fx fuel g T w <> Internal e.
Proof.
  intros fx g T w fuel e HT. unfold parse_model. destruct (next_token w) as [la rest].
  apply run_safe; [assumption|exact I].
Qed.

Section Term.
Variable fx : bool.
Variable g : grammar.
Variable T : tables.
Variable c : tcert.

Definition wsum (l : stack) : nat := fold_right (fun e a => (getw c (e_state e) + a)%nat) 0%nat l.
Definition phi (st : stack) (la : Z) : nat := (wsum st + getr c (top_state st) la)%nat.
Definition rem (la : Z) (rest : list Z) : nat := ((if Z.eqb la EOF then 0 else 1) + length rest)%nat.
Definition mu (st : stack) (la : Z) (rest : list Z) : nat :=
  (rem la rest * (cert_bound c + 1) + phi st la)%nat.

Lemma wsum_app a b : wsum (a ++ b) = (wsum a + wsum b)%nat.
Proof. induction a as [|e a IH]; cbn; [reflexivity|]. unfold wsum in *. rewrite IH. lia. Qed.

Lemma find_In_max {A} (f : A -> bool) (l : list A) (h : A -> nat) x :
  find f l = Some x -> (h x <= list_max (map h l))%nat.
Proof.
  induction l as [|y l IH]; cbn [find]; [discriminate|].
  change (list_max (map h (y :: l))) with (Nat.max (h y) (list_max (map h l))).
  destruct (f y).
  - intros [= ->]. lia.
  - intros H. apply IH in H. lia.
Qed.

Lemma getw_le s : (getw c s <= list_max (map snd (cw c)))%nat.
Proof.
  unfold getw. destruct (find _ _) eqn:E; [|lia]. eapply find_In_max in E. exact E.
Qed.

Lemma lookup_max {A} (h : A -> nat) k (l : list ((Z * Z) * A)) v :
  lookup k l = Some v -> (h v <= list_max (map (fun e => h (snd e)) l))%nat.
Proof.
  induction l as [|[k' v'] l IH]; cbn [lookup]; [discriminate|].
  change (list_max (map (fun e => h (snd e)) ((k', v') :: l)))
    with (Nat.max (h v') (list_max (map (fun e => h (snd e)) l))).
  destruct (key_eqb k k').
  - intros [= ->]. lia.
  - intros H. apply IH in H. lia.
Qed.

Lemma getr_le s t : (getr c s t <= list_max (map snd (cr c)))%nat.
Proof.
  unfold getr. destruct (lookup _ _) eqn:E; [|lia].
  apply (lookup_max (fun n => n)) in E. exact E.
Qed.

Lemma back_w_sound check rrhs : forall st acc,
  stack_path T st -> back_w (preds T) (getw c) check rrhs (top_state st) acc = true ->
  (length rrhs <= length st)%nat ->
  check (top_state (skipn (length rrhs) st)) (acc + wsum (firstn (length rrhs) st))%nat = true.
Proof.
  induction rrhs as [|X r IH]; intros st acc Hp Hb Hl.
  - cbn. now rewrite Nat.add_0_r.
  - destruct st as [|e st']; [cbn in Hl; lia|].
    cbn [back_w top_state] in Hb. rewrite forallb_forall in Hb.
    cbn in Hp. destruct Hp as (Hin & _ & Hp'). specialize (Hb _ Hin). cbn [fst] in Hb.
    cbn in Hl. specialize (IH st' _ Hp' Hb ltac:(lia)).
    cbn [length firstn skipn]. cbn [wsum fold_right]. fold (wsum (firstn (length r) st')).
    now rewrite Nat.add_assoc.
Qed.

Lemma rem_next la rest la' rest' :
  (la =? EOF) = false -> next_token rest = (la', rest') -> (rem la' rest' + 1 <= rem la rest)%nat.
Proof.
  intros H E. unfold rem. rewrite H. destruct rest as [|a r]; cbn in E; injection E as <- <-.
  - cbn. lia.
  - cbn [length]. destruct (a =? EOF); lia.
Qed.

Hypothesis HT : tables_ok fx g T = true.
Hypothesis HC : term_ok fx g T c = true.

Lemma term_checked k a : lookup k (actions T) = Some a -> term_action_ok fx g T c (k, a) = true.
Proof.
  intros H. apply lookup_In in H. unfold term_ok in HC. rewrite forallb_forall in HC. now apply HC.
Qed.

Lemma run_terminates : forall fuel st la rest,
  stack_path T st -> (mu st la rest < fuel)%nat -> run fx fuel g T st la rest <> OutOfFuel.
Proof.
  induction fuel as [|fuel IH]; intros st la rest Hp Hm; [lia|].
  cbn [run]. destruct (at_exit_shape g st); [discriminate|].
  destruct (lookup (top_state st, la) (actions T)) as [a|] eqn:Ea; [|discriminate].
  pose proof (action_checked fx g T HT _ _ Ea) as Hok. cbn [action_ok] in Hok.
  pose proof (term_checked _ _ Ea) as Hc. cbn [term_action_ok] in Hc.
  destruct a as [s'|p|p].
  - apply andb_true_iff in Hok as [Hok Hs0]. apply andb_true_iff in Hok as [_ Hne].
    apply negb_true_iff in Hne.
    destruct (next_token rest) as [la' rest'] eqn:En.
    pose proof (rem_next _ _ _ _ Hne En) as Hr.
    apply IH.
    + cbn. split; [apply shift_edge; now apply lookup_In in Ea|].
      split; [cbn; apply negb_true_iff in Hs0; intros ->; discriminate|assumption].
    + unfold mu, phi in *. cbn [wsum fold_right top_state e_state fst snd].
      fold (wsum st). pose proof (getw_le s') as H1. pose proof (getr_le s' la') as H2.
      unfold cert_bound in *. nia.
  - apply andb_true_iff in Hok as [_ Hok].
    destruct (get_prod g p) as [[i [X rhs]]|] eqn:Eg; [|discriminate].
    destruct (reduce_ready T _ rhs st Hp Hok) as [Hl Hfin]. rewrite Hl.
    match goal with |- context [lookup ?k (gotos T)] => destruct (lookup k (gotos T)) as [s'|] eqn:Egt end;
      [|discriminate].
    apply Nat.ltb_ge in Hl.
    pose proof (back_w_sound _ (rev rhs) st 0%nat Hp Hc) as Hd. rewrite rev_length in Hd.
    specialize (Hd Hl). unfold reduce_decreases in Hd. rewrite Egt in Hd. apply Nat.leb_le in Hd.
    pose proof (goto_edge fx g T HT _ _ _ Egt) as [He Hs0].
    apply IH.
    + cbn. split; [assumption|]. split; [assumption|]. now apply stack_path_skipn.
    + unfold mu, phi in *. cbn [wsum fold_right top_state e_state fst snd].
      fold (wsum (skipn (length rhs) st)).
      rewrite <- (firstn_skipn (length rhs) st) in Hm at 1. rewrite wsum_app in Hm. lia.
  - apply andb_true_iff in Hok as [Hok Hb].
    destruct (get_prod g p) as [[i [X rhs]]|] eqn:Eg; [|discriminate].
    apply andb_true_iff in Hb as [HX Hb].
    pose proof (goto_edge fx g T HT) as GE. revert IH Hb Hc. clear HT HC.
    destruct fx; intros IH Hb Hc; cbn [negb].
    + destruct (reduce_ready T _ rhs st Hp Hb) as [Hl Hfin]. rewrite Hl.
      destruct (skipn (length rhs) st) as [|e0 st0] eqn:Esk; [discriminate|].
      assert (Hsk : stack_path T (e0 :: st0)) by (rewrite <- Esk; now apply stack_path_skipn).
      match goal with |- context [lookup ?k (gotos T)] => destruct (lookup k (gotos T)) as [s'|] eqn:Egt end;
        [|discriminate].
      apply Nat.ltb_ge in Hl.
      pose proof (back_w_sound _ (rev rhs) st 0%nat Hp Hc) as Hd. rewrite rev_length in Hd.
      specialize (Hd Hl). rewrite Esk in Hd. apply orb_true_iff in Hd as [Hz|Hd].
      { apply Z.eqb_eq in Hz. cbn in Hz, Hsk. destruct Hsk as (_ & Hn & _). contradiction. }
      unfold reduce_decreases in Hd. rewrite Egt in Hd. apply Nat.leb_le in Hd.
      pose proof (GE _ _ _ Egt) as [He Hs0].
      apply IH.
      * cbn. cbn in Hsk, He. split; [assumption|]. split; assumption.
      * unfold mu, phi in *. cbn [wsum fold_right top_state e_state fst snd] in *.
        fold (wsum st0) in *.
        rewrite <- (firstn_skipn (length rhs) st) in Hm at 1. rewrite wsum_app, Esk in Hm.
        cbn [wsum fold_right] in Hm. fold (wsum st0) in Hm. lia.
    + destruct (length st <? length rhs)%nat; discriminate.
Qed.

End Term.

Lemma c32_terminates_lemma : forall fx g T c w fuel,
  tables_ok fx g T = true -> term_ok fx g T c = true ->
  (fuel_for c (length w) <= fuel)%nat ->
  parse_model fx fuel g T w <> OutOfFuel.
Proof.
  intros fx g T c w fuel HT HC Hf. unfold parse_model. destruct (next_token w) as [la rest] eqn:En.
  apply (run_terminates fx g T c HT HC); [exact I|].
  unfold mu, phi, fuel_for in *. cbn [wsum fold_right top_state].
  pose proof (getr_le c 0 la) as H2. unfold cert_bound in *.
  assert (rem la rest <= length w)%nat.
  { unfold rem. destruct w as [|a r]; cbn in En; injection En as <- <-; cbn; [lia|].
    destruct (a =? EOF); lia. }
  nia.
Qed.

Lemma c32_total_lemma : forall fx g T c w,
  tables_ok fx g T = true -> term_ok fx g T c = true -> ~ In EOF w ->
  (exists v, parse_model fx (fuel_for c (length w)) g T w = Ok v /\ parse_of g w v) \/
  (exists d, parse_model fx (fuel_for c (length w)) g T w = Diag d).
Proof.
  intros fx g T c w HT HC Hw.
  destruct (parse_model fx (fuel_for c (length w)) g T w) as [v|d|e|] eqn:E.
  - left. exists v. split; [reflexivity|]. eapply c32_sound_lemma; eauto.
  - right. now exists d.
  - exfalso. eapply c32_safe_lemma; eauto.
  - exfalso. eapply (c32_terminates_lemma fx g T c w); eauto.
Qed.
