(* Proofs/C22_base.v — arithmetic facts relating ppci's signed representation
   (BitsSpec.signed_of / unsigned_of) to WasmNumSpec.signed / unsigned. *)
From PV Require Import Lib.Py Lib.Tac Spec.BitsSpec Spec.WasmNumSpec Proofs.C39_bitfun.
From Coq Require Import Znumtheory.
Open Scope Z_scope.

Definition in_s (N a : Z) : Prop := - 2 ^ (N - 1) <= a < 2 ^ (N - 1).

Lemma pow2_pos n : 0 <= n -> 0 < 2 ^ n.
Proof. intros. apply Z.pow_pos_nonneg; lia. Qed.

Lemma pow2_split N : 1 <= N -> 2 ^ N = 2 * 2 ^ (N - 1).
Proof. intros. replace N with (1 + (N - 1)) at 1 by lia. rewrite Z.pow_add_r by lia. reflexivity. Qed.

Lemma unsigned_range N a : 0 <= N -> 0 <= unsigned N a < 2 ^ N.
Proof. intros. unfold unsigned. apply Z.mod_pos_bound. now apply pow2_pos. Qed.

(* signed_of (ppci/bitfun) is WasmNumSpec.signed of the residue *)
Lemma signed_of_signed N x : 1 <= N -> signed_of N x = signed N (x mod 2 ^ N).
Proof.
  intros HN. unfold signed_of, signed. rewrite (pow2_split N) by lia.
  rewrite signed_wrap by (apply pow2_pos; lia).
  assert (P := pow2_pos (N - 1) ltac:(lia)).
  destruct (Z.leb_spec (2 ^ (N - 1)) (x mod (2 * 2 ^ (N - 1))));
    destruct (Z.ltb_spec (x mod (2 * 2 ^ (N - 1))) (2 ^ (N - 1))); lia.
Qed.

Lemma signed_unsigned N a : 1 <= N -> in_s N a -> signed N (unsigned N a) = a.
Proof.
  intros HN [H1 H2]. unfold signed, unsigned.
  assert (E := pow2_split N HN). assert (P := pow2_pos (N - 1) ltac:(lia)).
  destruct (Z.lt_ge_cases a 0).
  - assert (a mod 2 ^ N = a + 2 ^ N).
    { symmetry. apply (Z.mod_unique_pos a (2 ^ N) (-1) (a + 2 ^ N)); lia. }
    destruct (Z.ltb_spec (a mod 2 ^ N) (2 ^ (N - 1))); lia.
  - rewrite Z.mod_small by lia. destruct (Z.ltb_spec a (2 ^ (N - 1))); lia.
Qed.

Lemma signed_in_s N u : 1 <= N -> 0 <= u < 2 ^ N -> in_s N (signed N u).
Proof.
  intros HN Hu. unfold in_s, signed. assert (E := pow2_split N HN).
  destruct (Z.ltb_spec u (2 ^ (N - 1))); lia.
Qed.

Lemma signed_of_id N a : 1 <= N -> in_s N a -> signed_of N a = a.
Proof. intros. rewrite signed_of_signed by lia. now apply signed_unsigned. Qed.

Lemma signed_of_in_s N x : 1 <= N -> in_s N (signed_of N x).
Proof.
  intros. rewrite signed_of_signed by lia. apply signed_in_s; [lia|].
  apply Z.mod_pos_bound, pow2_pos; lia.
Qed.

Lemma unsigned_inj N a b : 1 <= N -> in_s N a -> in_s N b -> unsigned N a = unsigned N b -> a = b.
Proof.
  intros HN Ha Hb E. rewrite <- (signed_unsigned N a), <- (signed_unsigned N b) by assumption.
  now rewrite E.
Qed.

Lemma mod_mod_pow M N x : 0 <= M <= N -> (x mod 2 ^ N) mod 2 ^ M = x mod 2 ^ M.
Proof.
  intros. symmetry. apply Zmod_div_mod; try (apply pow2_pos; lia).
  exists (2 ^ (N - M)). rewrite <- Z.pow_add_r by lia. f_equal. lia.
Qed.

(* the shift/rotate count: N divides 2^N for the two widths of interest *)
Definition width_ok (N : Z) : Prop := 1 <= N /\ (N | 2 ^ N).
Lemma width_ok_32 : width_ok 32. Proof. split; [lia|]. exists (2 ^ 27). reflexivity. Qed.
Lemma width_ok_64 : width_ok 64. Proof. split; [lia|]. exists (2 ^ 58). reflexivity. Qed.

Lemma count_mod N b : width_ok N -> (b mod 2 ^ N) mod N = b mod N.
Proof.
  intros [HN D]. symmetry. apply Zmod_div_mod; [lia|apply pow2_pos; lia|assumption].
Qed.

(* in-range inclusion between widths *)
Lemma in_s_mono M N a : 1 <= M <= N -> in_s M a -> in_s N a.
Proof.
  intros H [H1 H2]. unfold in_s.
  assert (2 ^ (M - 1) <= 2 ^ (N - 1)) by (apply Z.pow_le_mono_r; lia). lia.
Qed.
