(* Proofs/C38_asfound.v — refutations on the frozen model of the code as it was found
   (Model.ConstFoldOrig, ppci snapshot 722bf2e; constantfolding.py was unchanged until the C38 repairs).  Independent of the regenerated Gen files. *)
From PV Require Import Lib.Py Spec.IRArith Model.ConstFoldOrig.
Open Scope Z_scope.

(* ---- the code as found (Model.ConstFoldOrig): refutations ---- *)
Definition oty (t : ity) : Orig.typ := Orig.Typ false true false (bits t) (signed t).
Definition obin (op : Z) (t : ity) (a b : Z) : Orig.value :=
  Orig.VBinop (Orig.VConst a (oty t)) op (Orig.VConst b (oty t)) (oty t).
Definition ochain (op : Z) (ty : Orig.typ) (c1 c2 : Z) : Orig.value :=
  Orig.VBinop (Orig.VBinop (Orig.VOther ty) op (Orig.VConst c1 ty) ty) op (Orig.VConst c2 ty) ty.

Lemma orig_mod_refuted : exists t a b v w, in_range t a /\ in_range t b /\
  eval_binop Rem t a b = Some v /\ Orig.on_instruction (obin Orig.MOD t a b) = Ok (Orig.Folded w (oty t)) /\ w <> v.
Proof. exists i32, (-7), 2, (-1), 1. repeat split; try (vm_compute; congruence); try (vm_compute; reflexivity); try (unfold in_range; vm_compute; intuition congruence). Qed.

Lemma orig_chain_add_refuted : exists t c1 c2 c, in_range t c1 /\ in_range t c2 /\
  Orig.on_instruction (ochain Orig.ADD (oty t) c1 c2) = Ok (Orig.Rechained (Orig.VOther (oty t)) Orig.ADD c (oty t)) /\
  ~ in_range t c.
Proof. exists u8, 200, 100, 300. repeat split; try (vm_compute; congruence); try (vm_compute; reflexivity); try (unfold in_range; vm_compute; intuition congruence). Qed.

Lemma orig_chain_sub_refuted : exists t c1 c2 c, in_range t c1 /\ in_range t c2 /\
  Orig.on_instruction (ochain Orig.SUB (oty t) c1 c2) = Ok (Orig.Rechained (Orig.VOther (oty t)) Orig.SUB c (oty t)) /\
  ~ in_range t c.
Proof. exists i8, 100, 100, 200. repeat split; try (vm_compute; congruence); try (vm_compute; reflexivity); try (unfold in_range; vm_compute; intuition congruence). Qed.

Lemma orig_chain_float_refuted : exists ty c1 c2 c, Orig.t_float ty = true /\ Orig.t_int ty = false /\
  Orig.on_instruction (ochain Orig.ADD ty c1 c2) = Ok (Orig.Rechained (Orig.VOther ty) Orig.ADD c ty).
Proof. exists (Orig.Typ false false true 32 false), 1, 2, 3. vm_compute. repeat split. Qed.

Lemma orig_raises_refuted :
  (exists t a b e, in_range t a /\ in_range t b /\ Orig.on_instruction (obin Orig.MOD t a b) = Internal e) /\
  (exists t a b e, in_range t a /\ in_range t b /\ Orig.on_instruction (obin Orig.SHL t a b) = Internal e).
Proof.
  split.
  - exists i32, 7, 0, ZeroDiv. repeat split; try (vm_compute; congruence); try (vm_compute; reflexivity); try (unfold in_range; vm_compute; intuition congruence).
  - exists i32, 1, (-1), ValueErrorI. repeat split; try (vm_compute; congruence); try (vm_compute; reflexivity); try (unfold in_range; vm_compute; intuition congruence).
Qed.
