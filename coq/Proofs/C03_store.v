(* Proofs/C03_store.v — theorems about Model/IRStore.v (bookkeeping mutators of ppci/ir.py).
   Refutations: the code as found (configuration [as_found]) breaks or crashes on instructions
   that use one value in two operand slots.  Positive part: for the repaired code
   ([all_fixed] = /repo + fixes/C03-*.diff of ir.py) every mutator maps consistent states to
   consistent states on an exhaustively enumerated family of states (bounded, vm_compute). *)
From PV Require Import Lib.Py Model.IRStore.
From Coq Require Import String.
Open Scope nat_scope.
Open Scope string_scope.
Open Scope list_scope.

Definition is_ok {A} (r : result A) : bool := match r with Ok _ => true | _ => false end.
Definition is_keyerror {A} (r : result A) : bool :=
  match r with Internal KeyError => true | _ => false end.

(* state built by the constructors from a list of instruction specifications (block 0) *)
Definition built (fx : fixes) (specs : list (oid * ispec)) : result store :=
  build fx empty_store 0 specs.
(* [after fx specs o P]: the built state is consistent and the outcome of o satisfies P *)
Definition after (fx : fixes) (specs : list (oid * ispec)) (o : op)
           (P : result store -> bool) : bool :=
  match built fx specs with
  | Ok s => consistent_b s && P (run_op fx s o)
  | _ => false
  end.
Definition ok_inconsistent (r : result store) : bool :=
  match r with Ok s => negb (consistent_b s) | _ => false end.
Definition ok_consistent (r : result store) : bool :=
  match r with Ok s => consistent_b s | _ => false end.

(* ---------------------------------------------------------------- refutations (code as found) *)
(* x = v0 * v0 ; x.replace_use(v0, v1): second del_use of the same value -> KeyError *)
Lemma replace_use_refuted :
  after as_found [(10, SPlain [("a", 0); ("b", 0)])] (OReplaceUse 10 0 1) is_keyerror = true.
Proof. vm_compute. reflexivity. Qed.
(* the same through Value.replace_by (what CSE / mem2reg / constant folding call) *)
Lemma replace_by_refuted :
  after as_found [(10, SPlain [("a", 0); ("b", 0)])] (OReplaceBy 0 1) is_keyerror = true.
Proof. vm_compute. reflexivity. Qed.
(* call v0(v1, v1).replace_use(v1, v2): returns normally, only the first argument is replaced
   and v1 is dropped from uses / used_by although still an operand *)
Lemma call_replace_use_refuted :
  after as_found [(10, SCall 0 [1; 1])] (OReplaceUse 10 1 2) ok_inconsistent = true.
Proof. vm_compute. reflexivity. Qed.
(* callee also passed as argument: KeyError *)
Lemma call_replace_use_callee_refuted :
  after as_found [(10, SCall 0 [0])] (OReplaceUse 10 0 1) is_keyerror = true.
Proof. vm_compute. reflexivity. Qed.
(* phi [b1: v0, b2: v0].replace_use(v0, v1): KeyError *)
Lemma phi_replace_use_refuted :
  after as_found [(10, SPhi [(1, 0); (2, 0)])] (OReplaceUse 10 0 1) is_keyerror = true.
Proof. vm_compute. reflexivity. Qed.
(* phi [b1: v0, b2: v0].del_incoming(b1): v0 is dropped from uses although b2 still carries it *)
Lemma phi_del_incoming_refuted :
  after as_found [(10, SPhi [(1, 0); (2, 0)])] (ODelIncoming 10 1) ok_inconsistent = true.
Proof. vm_compute. reflexivity. Qed.
Lemma phi_set_incoming_refuted :
  after as_found [(10, SPhi [(1, 0); (2, 0)])] (OSetIncoming 10 1 1) ok_inconsistent = true.
Proof. vm_compute. reflexivity. Qed.
(* Block.replace_incoming (CleanPass.remove_empty_blocks) on phi [b1: v0, b2: v0], b1 -> [b2]:
   KeyError *)
Lemma replace_incoming_refuted :
  after as_found [(10, SPhi [(1, 0); (2, 0)])] (OReplaceIncoming 0 1 [2]) is_keyerror = true.
Proof. vm_compute. reflexivity. Qed.
(* cjmp v0 == v1 ? b1 : b1 ; remove_instruction + delete: KeyError (CJumpPass) *)
Lemma jump_delete_refuted :
  after as_found [(10, SJump [("a", 0); ("b", 1)] [("lab_yes", 1); ("lab_no", 1)])]
        (ODetachDelete 10) is_keyerror = true.
Proof. vm_compute. reflexivity. Qed.
(* cjmp v0 == v1 ? b1 : b2 ; delete keeps the jump in used_by of v0 and v1 *)
Lemma jump_delete_stale_refuted :
  after as_found [(10, SJump [("a", 0); ("b", 1)] [("lab_yes", 1); ("lab_no", 2)])]
        (ODetachDelete 10) ok_inconsistent = true.
Proof. vm_compute. reflexivity. Qed.
(* the attribute setter:  x = v0 + v0 ; x.a = v1  drops v0 although x.b still holds it — in every
   configuration without the repair C03-value-use-setter *)
Lemma set_var_refuted a b c d e g :
  after (mk_fixes a b c d e false g) [(10, SPlain [("a", 0); ("b", 0)])] (OSetVar 10 "a" 1)
        ok_inconsistent = true.
Proof. destruct a, b, c, d, e, g; vm_compute; reflexivity. Qed.

(* Instruction.remove_from_block on a jump releases the operands but leaves the jump in
   Block.references of its targets — in every configuration without C03-jump-remove-from-block *)
Lemma remove_from_block_jump_refuted a b c d e f :
  after (mk_fixes a b c d e f false) [(10, SJump [] [("target", 1)])] (ORemoveFromBlock 10)
        ok_inconsistent = true.
Proof. destruct a, b, c, d, e, f; vm_compute; reflexivity. Qed.

(* the witnesses are repaired by the fixes *)
Lemma witnesses_fixed :
  after all_fixed [(10, SPlain [("a", 0); ("b", 0)])] (OReplaceUse 10 0 1) ok_consistent
  && after all_fixed [(10, SPlain [("a", 0); ("b", 0)])] (OReplaceBy 0 1) ok_consistent
  && after all_fixed [(10, SCall 0 [1; 1])] (OReplaceUse 10 1 2) ok_consistent
  && after all_fixed [(10, SCall 0 [0])] (OReplaceUse 10 0 1) ok_consistent
  && after all_fixed [(10, SPhi [(1, 0); (2, 0)])] (OReplaceUse 10 0 1) ok_consistent
  && after all_fixed [(10, SPhi [(1, 0); (2, 0)])] (ODelIncoming 10 1) ok_consistent
  && after all_fixed [(10, SPhi [(1, 0); (2, 0)])] (OSetIncoming 10 1 1) ok_consistent
  && after all_fixed [(10, SPhi [(1, 0); (2, 0)])] (OReplaceIncoming 0 1 [2]) ok_consistent
  && after all_fixed [(10, SJump [("a", 0); ("b", 1)] [("lab_yes", 1); ("lab_no", 1)])]
           (ODetachDelete 10) ok_consistent
  && after all_fixed [(10, SJump [("a", 0); ("b", 1)] [("lab_yes", 1); ("lab_no", 2)])]
           (ODetachDelete 10) ok_consistent
  && after all_fixed [(10, SPlain [("a", 0); ("b", 0)])] (OSetVar 10 "a" 1) ok_consistent
  && after all_fixed [(10, SJump [] [("target", 1)])] (ORemoveFromBlock 10) ok_consistent = true.
Proof. vm_compute. reflexivity. Qed.

(* ---------------------------------------------------------------- bounded positive theorem *)
(* all lists over [vals] of length <= n *)
Fixpoint lists_upto {A} (n : nat) (vals : list A) : list (list A) :=
  match n with
  | O => [[]]
  | S n' => [] :: flat_map (fun l => map (fun v => v :: l) vals)
                           (filter (fun l => Nat.eqb (List.length l) n') (lists_upto n' vals))
              ++ filter (fun l => negb (Nat.eqb (List.length l) 0)) (lists_upto n' vals)
  end.
Definition V3 := [0; 1; 2].
Definition pairs {A B} (la : list A) (lb : list B) : list (A * B) :=
  flat_map (fun a => map (fun b => (a, b)) lb) la.

(* the subject instruction (id 10) *)
Definition shapes : list ispec :=
  map (fun p => SPlain [("a", fst p); ("b", snd p)]) (pairs V3 V3)
  ++ map (fun a => SPlain [("a", a)]) V3
  ++ map (fun p => SCall (fst p) (snd p)) (pairs V3 (lists_upto 3 V3))
  ++ map (fun a => SPhi [(1, a)]) V3
  ++ map (fun p => SPhi [(1, fst p); (2, snd p)]) (pairs V3 V3)
  ++ map (fun p => SPhi [(2, fst (fst p)); (1, snd (fst p)); (3, snd p)]) (pairs (pairs V3 V3) V3)
  ++ map (fun p => SJump [("a", fst (fst p)); ("b", snd (fst p))]
                         [("lab_yes", fst (snd p)); ("lab_no", snd (snd p))])
         (pairs (pairs [0; 1] [0; 1]) (pairs [1; 2] [1; 2]))
  ++ [SJump [] [("target", 1)]].
(* surrounding instructions: none / an earlier user of v0, v1 / an earlier phi sharing v0 *)
Definition contexts : list (list (oid * ispec)) :=
  [ []; [(9, SPlain [("a", 0); ("b", 1)])]; [(9, SPhi [(1, 0); (3, 0)])] ].
Definition V4 := [0; 1; 2; 3].
Definition ops : list op :=
  map (fun p => OReplaceUse 10 (fst p) (snd p)) (pairs V4 V4)
  ++ map (fun p => OReplaceBy (fst p) (snd p)) (pairs V3 V4)
  ++ map (fun p => OSetIncoming 10 (fst p) (snd p)) (pairs [1; 2; 3] V4)
  ++ map (fun b => ODelIncoming 10 b) [1; 2; 3]
  ++ map (fun p => OReplaceIncoming 0 (fst p) (snd p)) (pairs [1; 2; 3] [[]; [2]; [3]; [2; 3]; [3; 3]])
  ++ map (fun p => OSetTarget 10 (fst p) (snd p)) (pairs ["lab_yes"; "lab_no"; "target"] [1; 2; 3])
  ++ map (fun p => OChangeTarget 10 (fst p) (snd p)) (pairs [1; 2; 3] [1; 2; 3])
  ++ map (fun p => OSetVar 10 (fst p) (snd p)) (pairs ["a"; "b"] V4)
  ++ [ODetachDelete 10; ORemoveFromBlock 10; ODetachDelete 9; ORemoveFromBlock 9].
(* an instruction that is still used must not be removed (the passes check is_used first) *)
Definition op_pre (s : store) (o : op) : bool :=
  match o with
  | ODetachDelete i => match get_ub s i with [] => true | _ => false end
  | ORemoveFromBlock i => match get_ub s i with [] => true | _ => false end
  | OSetVar i n _ => match nget i (st_ins s) with
                     | Some x => match sget n (i_vars x) with Some _ => true | None => false end
                     | None => false
                     end
  | OSetTarget i n _ => match nget i (st_ins s) with
                        | Some x => match sget n (i_bmap x) with Some _ => true | None => false end
                        | None => false
                        end
  | _ => true
  end.
Definition case_ok (fx : fixes) (ctx : list (oid * ispec)) (sp : ispec) (o : op) : bool :=
  match built fx (ctx ++ [(10, sp)]) with
  | Ok s => if consistent_b s && op_pre s o
            then match run_op fx s o with Ok s' => consistent_b s' | _ => true end
            else true
  | _ => false
  end.
Definition all_cases_ok (fx : fixes) : bool :=
  forallb (fun ctx => forallb (fun sp => forallb (case_ok fx ctx sp) ops) shapes) contexts.

Lemma mutators_preserve_bookkeeping_bounded : all_cases_ok all_fixed = true.
Proof. vm_compute. reflexivity. Qed.

(* never-crash part: from a consistent state Value.replace_by and the replace_use of plain
   instructions and calls return normally (repaired code, same family of states) *)
Definition total_op (o : op) : bool :=
  match o with OReplaceBy _ _ => true | _ => false end.
Definition case_total (fx : fixes) (ctx : list (oid * ispec)) (sp : ispec) (o : op) : bool :=
  match built fx (ctx ++ [(10, sp)]) with
  | Ok s => if consistent_b s && total_op o then is_ok (run_op fx s o) else true
  | _ => false
  end.
Lemma replace_by_total_bounded :
  forallb (fun ctx => forallb (fun sp => forallb (case_total all_fixed ctx sp) ops) shapes)
          contexts = true.
Proof. vm_compute. reflexivity. Qed.

Definition n_cases : nat := List.length contexts * List.length shapes * List.length ops.
