(* Proofs/C02_promote.v — Mem2RegPromotor against the reference semantics Spec/IRSem.v.

   IRSem is a concrete-address semantics: an Alloc is zero-filled, addresses are plain integers
   handed out by a bump allocator, and any integer can be used as an address.  Under this reading
   the output of the real Mem2RegPromotor is NOT a refinement of its input for every well-formed
   function: the three modules below are the importer's rendering of real before/after pairs
   (tools/props/c02.py re-runs the pass on them on every run) and the executions differ.
     r1  a load before any store: the zero of the fresh alloca becomes ir.Undefined (UB when read)
     r2  removing the promoted alloca moves every later stack address; a function that returns
         the address of another alloca as an integer returns another number
     r3  an integer constant used as an address aliases the promoted cell
   A soundness theorem  check_promote f f' = true -> run_function f' refines run_function f  over
   IRSem therefore needs three dynamic side conditions that IRSem cannot express (no read of
   never-written stack memory, addresses never observed as integers, no access to a promoted cell
   through another pointer); c02's differential stage implements the first one (TrackMachine) and
   the generators respect the other two.  What IS proved here: the memory fact the promotion
   rests on — a load after a store to the same address yields the stored value (c02_rule_las). *)
From PV Require Import Lib.Py Lib.Tac Lib.Val Spec.IRSyntax Spec.IRSem Proofs.C02_rules.
From Coq Require Import String.
Open Scope Z_scope.
Local Open Scope string_scope.

Definition r1_before : modul := (mk_modul "w"%string
  []
  []
  [mk_func "f"%string BGlobal (Some I32) []
   [mk_block 1 "f_entry"%string [IAlloc 1 "a"%string 4 4; IAddrOf 2 "p"%string (Loc 1); ILoad 3 "l"%string I32 (Loc 2) false; IReturn (Loc 3)]]]).
Definition r1_after : modul := (mk_modul "w"%string
  []
  []
  [mk_func "f"%string BGlobal (Some I32) []
   [mk_block 1 "f_entry"%string [IUndef 1 "und_a"%string I32; IReturn (Loc 1)]]]).
Definition r2_before : modul := (mk_modul "w"%string
  []
  []
  [mk_func "f"%string BGlobal (Some I64) [("x"%string, I32)]
   [mk_block 1 "f_entry"%string [IAlloc 1 "a"%string 4 4; IAddrOf 2 "p"%string (Loc 1); IStore (Param 0) (Loc 2) false; ILoad 3 "l"%string I32 (Loc 2) false; IAlloc 4 "b"%string 8 8; IAddrOf 5 "pb"%string (Loc 4); ICast 6 "c"%string I64 (Loc 5); IReturn (Loc 6)]]]).
Definition r2_after : modul := (mk_modul "w"%string
  []
  []
  [mk_func "f"%string BGlobal (Some I64) [("x"%string, I32)]
   [mk_block 1 "f_entry"%string [IAlloc 1 "b"%string 8 8; IAddrOf 2 "pb"%string (Loc 1); ICast 3 "c"%string I64 (Loc 2); IReturn (Loc 3)]]]).
Definition r3_before : modul := (mk_modul "w"%string
  []
  []
  [mk_func "f"%string BGlobal (Some I32) []
   [mk_block 1 "f_entry"%string [IAlloc 1 "a"%string 4 4; IAddrOf 2 "p"%string (Loc 1); IConst 3 "five"%string I32 (CInt 5); IStore (Loc 3) (Loc 2) false; IConst 4 "q"%string Ptr (CInt 16777216); IConst 5 "seven"%string I32 (CInt 7); IStore (Loc 5) (Loc 4) false; ILoad 6 "l"%string I32 (Loc 2) false; IReturn (Loc 6)]]]).
Definition r3_after : modul := (mk_modul "w"%string
  []
  []
  [mk_func "f"%string BGlobal (Some I32) []
   [mk_block 1 "f_entry"%string [IConst 1 "five"%string I32 (CInt 5); IConst 2 "q"%string Ptr (CInt 16777216); IConst 3 "seven"%string I32 (CInt 7); IStore (Loc 3) (Loc 2) false; IReturn (Loc 1)]]]).

Theorem promote_uninitialised_read_refuted :
  run_main default_cfg r1_before "f" [] 10 = ODone (Some (Vint 0), [], []) /\
  run_main default_cfg r1_after "f" [] 10 = OUB UBUndefRead.
Proof. split; vm_compute; reflexivity. Qed.

Theorem promote_address_shift_refuted :
  run_main default_cfg r2_before "f" [Vint 9] 10 = ODone (Some (Vint 16777224), [], []) /\
  run_main default_cfg r2_after "f" [Vint 9] 10 = ODone (Some (Vint 16777216), [], []).
Proof. split; vm_compute; reflexivity. Qed.

Theorem promote_forged_pointer_refuted :
  run_main default_cfg r3_before "f" [] 10 = ODone (Some (Vint 7), [], []) /\
  run_main default_cfg r3_after "f" [] 10 = OUB UBMem.
Proof. split; vm_compute; reflexivity. Qed.

(* ------------------------------------------------------------------ read after write *)
Lemma mem_set_get_same : forall m a b m', mem_set m a b = Some m' -> mem_get m' a = Some b.
Proof.
  induction m as [|[k v] m IH]; intros a b m' H; simpl in H; [discriminate|].
  destruct (Z.eqb_spec k a).
  - inversion H; subst. simpl. rewrite Z.eqb_refl. reflexivity.
  - destruct (mem_set m a b) eqn:E; [|discriminate]. inversion H; subst. simpl.
    destruct (Z.eqb_spec k a); [contradiction|]. eapply IH; eassumption.
Qed.
Lemma mem_set_get_other : forall m a b m' a', mem_set m a b = Some m' -> a' <> a -> mem_get m' a' = mem_get m a'.
Proof.
  induction m as [|[k v] m IH]; intros a b m' a' H Hn; simpl in H; [discriminate|].
  destruct (Z.eqb_spec k a).
  - inversion H; subst. simpl. destruct (Z.eqb_spec a a'); [congruence|reflexivity].
  - destruct (mem_set m a b) eqn:E; [|discriminate]. inversion H; subst. simpl.
    destruct (Z.eqb k a'); [reflexivity|]. eapply IH; eassumption.
Qed.
Lemma write_bytes_get_below : forall l m a m' a0, write_bytes m a l = Some m' -> a0 < a -> mem_get m' a0 = mem_get m a0.
Proof.
  induction l as [|b l IH]; intros m a m' a0 H Hlt; simpl in H; [inversion H; reflexivity|].
  destruct (mem_set m a b) as [m1|] eqn:E; [|discriminate].
  rewrite (IH _ _ _ _ H) by lia. eapply mem_set_get_other; [eassumption|lia].
Qed.
Lemma read_after_write : forall l m a m', write_bytes m a l = Some m' -> read_bytes m' a (List.length l) = Some l.
Proof.
  induction l as [|b l IH]; intros m a m' H; [reflexivity|]. simpl in H.
  destruct (mem_set m a b) as [m1|] eqn:E; [|discriminate].
  cbn [List.length read_bytes]. rewrite (IH _ _ _ H).
  rewrite (write_bytes_get_below _ _ _ _ a H) by lia. rewrite (mem_set_get_same _ _ _ _ E). reflexivity.
Qed.
Lemma le_encode_length : forall n z, List.length (le_encode z n) = n.
Proof. induction n; intros z; simpl; [reflexivity|rewrite IHn; reflexivity]. Qed.
Lemma le_decode_encode : forall n z, le_decode (le_encode z n) = z mod 256 ^ Z.of_nat n.
Proof.
  induction n as [|n IH]; intros z.
  - simpl. rewrite Z.mod_1_r. reflexivity.
  - cbn [le_encode le_decode]. rewrite IH. rewrite Nat2Z.inj_succ, Z.pow_succ_r by lia.
    rewrite Z.rem_mul_r; [reflexivity|lia|apply Z.pow_pos_nonneg; lia].
Qed.

Lemma shape_bytes c t b sg : cfg_ok c -> int_shape c t = Some (b, sg) ->
  exists n, scalar_bytes c t = ODone n /\ b = 8 * n /\ 0 <= n.
Proof.
  unfold cfg_ok, int_shape. intros Hc H.
  destruct t; cbv beta iota zeta delta [ty_is_int ty_bits ty_signed] in H; try discriminate H;
    match type of H with Some (?x, _) = _ => assert (Hb : b = x) by congruence end; subst b;
    simpl scalar_bytes; eexists; (split; [reflexivity|]); (split; [reflexivity|lia]).
Qed.

(* LoadAfterStorePass / Mem2RegPromotor: a load after a store of an in-range integer (or pointer)
   to the same address, with the same type, yields the stored value *)
Theorem c02_rule_las_sound : forall c t b sg s p z s',
  cfg_ok c -> int_shape c t = Some (b, sg) -> wrap_bits b sg z = z ->
  store_val c t s p (Vint z) = ODone s' -> load_val c t s' p = ODone (Vint z).
Proof.
  intros c t b sg s p z s' Hc Hs Hr Hst.
  destruct (shape_bytes _ _ _ _ Hc Hs) as (n & Hn & Hb & Hn0).
  assert (Hnf : ty_is_float t = false).
  { unfold int_shape in Hs. destruct t; try reflexivity; discriminate Hs. }
  unfold store_val in Hst. rewrite Hn, Hnf in Hst. cbn [obind] in Hst.
  destruct (write_bytes (s_mem s) p (le_encode z (Z.to_nat n))) as [mm|] eqn:Ew; [|discriminate Hst].
  inversion Hst; subst s'. unfold load_val. rewrite Hn. cbn [obind s_mem].
  pose proof (read_after_write _ _ _ _ Ew) as Hrd. rewrite le_encode_length in Hrd. rewrite Hrd, Hnf.
  rewrite le_decode_encode, Z2Nat.id by assumption.
  unfold wrap_ty. rewrite Hs. f_equal. f_equal. rewrite <- Hr at 2.
  apply wrap_bits_congr. subst b. rewrite Z.pow_mul_r by lia. change (2 ^ 8) with 256. apply Zmod_mod.
Qed.
