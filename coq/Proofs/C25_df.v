(* Proofs/C25_df.v — Cytron's dominance-frontier recursion is correct for every graph:
   DF(x) = { y in succ(x) | idom y <> x }  U  { y in DF(z) | z child of x, idom y <> x },
   and the model of calculate_dominance_frontier (bottom-up over the dominator tree) computes it. *)
From PV Require Import Lib.Py.
From PV Require Import Spec.CfgSpec Model.DomRef Model.DomTree.
From PV Require Import Proofs.C25_ref Proofs.C25_cert Proofs.C25_intervals Proofs.C25_complete
                       Proofs.C25_compose Proofs.C25_tree.
Close Scope Z_scope.
Open Scope nat_scope.

Section DF.
Variable g : graph.
Variable e : nat.
Let L := idom_list g e.
Let n := length g.

Lemma tree_dom w a : reachable g e w -> (anc L a w <-> dominates g e a w).
Proof. apply cert_tree_dominance. apply check_idom_complete. Qed.

Lemma anc_chain a b p : anc L a p -> anc L b p -> anc L a b \/ anc L b a.
Proof.
  intros Ha. revert b. induction Ha as [a|a p q Hq Ha IH]; intros b Hb.
  - right. exact Hb.
  - inversion Hb; subst.
    + left. eapply anc_up; eauto.
    + rewrite Hq in H. inversion H; subst. auto.
Qed.

Lemma dom_chain p a b : reachable g e p -> dominates g e a p -> dominates g e b p ->
  dominates g e a b \/ dominates g e b a.
Proof.
  intros Hr Ha Hb.
  pose proof (dominator_reachable _ _ _ _ Hr Ha) as Ra.
  pose proof (dominator_reachable _ _ _ _ Hr Hb) as Rb.
  apply (tree_dom p a Hr) in Ha. apply (tree_dom p b Hr) in Hb.
  destruct (anc_chain _ _ _ Ha Hb) as [H|H]; [left; now apply tree_dom|right; now apply tree_dom].
Qed.

Lemma Lfacts w p : pget L w = Some p ->
  w < n /\ p < n /\ is_idom g e p w /\ reachable g e w /\ w <> e.
Proof. apply idom_list_facts. Qed.

Lemma idom_dom_pred u v p : reachable g e u -> edge g u v -> pget L v = Some p -> dominates g e p u.
Proof.
  intros Hr He Hp q Hq. destruct (Lfacts _ _ Hp) as [_ [_ [[[Hdom Hne] _] _]]].
  specialize (Hdom (q ++ [v]) (path_snoc _ _ _ _ _ Hq He)).
  apply in_app_or in Hdom. destruct Hdom as [|[E|[]]]; auto. congruence.
Qed.

Lemma no_sdom_entry x : ~ sdominates g e x e.
Proof. intros [Hd Hne]. specialize (Hd [e] (path_one g e)). destruct Hd as [|[]]. congruence. Qed.

Lemma Lnone_entry y : reachable g e y -> pget L y = None -> y = e.
Proof.
  intros Hr Hn. destruct (Nat.eq_dec y e); auto.
  destruct (idom_list_total g e y Hr n0) as [d [Hd _]]. unfold pget, L in Hn. congruence.
Qed.

Lemma reach_step x y : reachable g e x -> edge g x y -> reachable g e y.
Proof. intros [l Hp] He. exists (l ++ [y]). eapply path_snoc; eauto. Qed.

Lemma local_rule x y : reachable g e x -> edge g x y ->
  (~ sdominates g e x y <-> idom_is L y x = false).
Proof.
  intros Hr He. pose proof (reach_step _ _ Hr He) as Hry. unfold idom_is.
  destruct (pget L y) as [p|] eqn:Ep.
  - destruct (Lfacts _ _ Ep) as [_ [_ [[Hsd Hmax] _]]].
    destruct (p =? x) eqn:Epx.
    + apply Nat.eqb_eq in Epx. subst p. split; [intros H; contradiction|discriminate].
    + apply Nat.eqb_neq in Epx. split; auto. intros _ Hs. apply Epx.
      apply (dom_antisym g e p x); auto;
        first [now (eapply idom_dom_pred; eauto) | now (apply Hmax; auto)].
  - rewrite (Lnone_entry y Hry Ep). split; auto. intros _. apply no_sdom_entry.
Qed.

Lemma up_rule x z y : pget L z = Some x -> in_df g e z y ->
  (~ sdominates g e x y <-> idom_is L y x = false).
Proof.
  intros Hz [[p [Hrp [He Hzp]]] Hnz]. pose proof (reach_step _ _ Hrp He) as Hry. unfold idom_is.
  destruct (Lfacts _ _ Hz) as [_ [_ [[[Hxz Hxnz] Hzmax] [Hrz _]]]].
  destruct (pget L y) as [q|] eqn:Eq.
  - destruct (Lfacts _ _ Eq) as [_ [_ [[[Hqy Hqny] Hymax] _]]].
    destruct (q =? x) eqn:Eqx.
    + apply Nat.eqb_eq in Eqx. subst q. split; [intros H; exfalso; apply H; split; auto|discriminate].
    + apply Nat.eqb_neq in Eqx. split; auto. intros _ Hs. apply Eqx.
      assert (Hxq : dominates g e x q) by (apply Hymax; auto).
      assert (Hqp : dominates g e q p) by (eapply idom_dom_pred; eauto).
      assert (Rq : reachable g e q) by (apply (dominator_reachable g e q y Hry Hqy)).
      destruct (dom_chain p z q Hrp Hzp Hqp) as [Hzq|Hqz].
      * exfalso. apply Hnz. split; [eapply dom_trans; eauto|].
        intros ->. apply Hqny. apply (dom_antisym g e q y); auto.
      * assert (q <> z).
        { intros ->. apply Hnz. split; auto. }
        apply (dom_antisym g e q x); auto;
          first [now (eapply dominator_reachable; eauto) | now (apply Hzmax; split; auto)].
  - rewrite (Lnone_entry y Hry Eq). split; auto. intros _. apply no_sdom_entry.
Qed.

Lemma anc_proper_child x p : anc L x p -> x <> p -> exists z, pget L z = Some x /\ anc L z p.
Proof.
  induction 1 as [a|a p q Hq Ha IH]; intros Hne; [congruence|].
  destruct (Nat.eq_dec a q) as [->|Hn].
  - exists p. split; auto. constructor.
  - destruct (IH Hn) as [z [Hz Hzq]]. exists z. split; auto. eapply anc_up; eauto.
Qed.

(* Cytron's recursion, by the path definitions *)
Theorem df_decompose x y : reachable g e x ->
  (in_df g e x y <->
   (edge g x y /\ idom_is L y x = false) \/
   (exists z, pget L z = Some x /\ in_df g e z y /\ idom_is L y x = false)).
Proof.
  intros Hr. split.
  - intros [[p [Hrp [He Hxp]]] Hns].
    destruct (Nat.eq_dec x p) as [->|Hne].
    + left. split; auto. now apply local_rule.
    + right. apply (tree_dom p x Hrp) in Hxp.
      destruct (anc_proper_child _ _ Hxp Hne) as [z [Hz Hzp]].
      destruct (Lfacts _ _ Hz) as [_ [_ [[[Hxz Hxnz] _] [Hrz _]]]].
      assert (Hdf : in_df g e z y).
      { split.
        - exists p. split; [auto|split; [auto|]]. now apply tree_dom.
        - intros [Hzy Hzny]. apply Hns. split; [eapply dom_trans; eauto|].
          intros ->. apply Hxnz. apply (dom_antisym g e y z); auto. }
      exists z. split; [auto|split; [auto|]]. eapply up_rule; eauto.
  - intros [[He Hi]|[z [Hz [Hdf Hi]]]].
    + split; [|now apply (local_rule x y Hr He)].
      exists x. split; [auto|split; [auto|]]. apply dominates_self.
    + split; [|now apply (up_rule x z y Hz Hdf)].
      destruct Hdf as [[p [Hrp [He Hzp]]] _]. exists p. split; [auto|split; [auto|]].
      destruct (Lfacts _ _ Hz) as [_ [_ [[[Hxz _] _] _]]]. eapply dom_trans; eauto.
Qed.
End DF.

(* ================================================================= bottom_up traversal *)
Fixpoint post (tr : dtree) : list dtree :=
  match tr with
  | DNode x cs =>
    (fix go (l : list dtree) : list dtree :=
       match l with [] => [] | c :: l' => go l' ++ post c end) cs ++ [tr]
  end.

Fixpoint post_list (cs : list dtree) : list dtree :=
  match cs with [] => [] | c :: l' => post_list l' ++ post c end.

Lemma post_unfold x cs : post (DNode x cs) = post_list cs ++ [DNode x cs].
Proof. reflexivity. Qed.

Lemma post_list_snoc l c : post_list (l ++ [c]) = post c ++ post_list l.
Proof.
  induction l as [|a l IH]; cbn [post_list app]; [now rewrite app_nil_r|].
  now rewrite IH, app_assoc.
Qed.

Definition vext (vis vis' : list nat) (Lb : list nat) : Prop :=
  (forall k, In k Lb -> mem k vis' = true) /\ (forall k, ~ In k Lb -> mem k vis' = mem k vis).

Definition bu_spec (tr : dtree) : Prop :=
  NoDup (labels tr) -> forall vis, (forall k, In k (labels tr) -> mem k vis = false) ->
  exists vis', vext vis vis' (labels tr) /\
    forall fuel rest out,
      bottom_up_loop (2 * size tr + fuel) (tr :: rest) vis out =
      bottom_up_loop fuel rest vis' (rev (post tr) ++ out).

Lemma bu_list cs : Forall bu_spec cs -> NoDup (flat_map labels cs) -> forall vis,
  (forall k, In k (flat_map labels cs) -> mem k vis = false) ->
  exists vis', vext vis vis' (flat_map labels cs) /\
    forall fuel rest out,
      bottom_up_loop (2 * sizes cs + fuel) (rev cs ++ rest) vis out =
      bottom_up_loop fuel rest vis' (rev (post_list cs) ++ out).
Proof.
  induction cs as [|c l IH] using rev_ind; intros HF Hnd vis Hfresh.
  - exists vis. split; [split; [intros k []|auto]|].
    intros. reflexivity.
  - apply Forall_app in HF. destruct HF as [HFl HFc]. inversion HFc as [|? ? Hc _]; subst.
    rewrite flat_map_app in Hnd, Hfresh |- *. cbn [flat_map] in Hnd, Hfresh |- *.
    rewrite app_nil_r in Hnd, Hfresh |- *.
    destruct (NoDup_app_inv _ _ Hnd) as [N1 [N2 Dj]].
    destruct (Hc N2 vis) as [vis1 [[E1a E1b] L1]].
    { intros k Hk. apply Hfresh. apply in_or_app; auto. }
    destruct (IH HFl N1 vis1) as [vis2 [[E2a E2b] L2]].
    { intros k Hk. rewrite E1b by (now apply Dj). apply Hfresh. apply in_or_app; auto. }
    exists vis2. split.
    + split.
      * intros k Hk. destruct (in_dec Nat.eq_dec k (flat_map labels l)) as [Hi|Hi]; auto.
        rewrite E2b by auto. apply E1a. apply in_app_or in Hk. tauto.
      * intros k Hk. rewrite E2b, E1b; auto; intros Hi; apply Hk; apply in_or_app; auto.
    + intros fuel rest out. rewrite rev_unit. cbn [app].
      replace (2 * sizes (l ++ [c]) + fuel) with (2 * size c + (2 * sizes l + fuel))
        by (rewrite sizes_snoc; lia).
      rewrite L1, L2, post_list_snoc, rev_app_distr, <- app_assoc. reflexivity.
Qed.

Lemma bu_tree : forall tr, bu_spec tr.
Proof.
  induction tr as [x cs IH] using dtree_ind'. intros Hnd vis Hfresh.
  cbn [labels] in Hnd, Hfresh. inversion Hnd as [|? ? Hx Hnd']; subst.
  destruct (bu_list cs IH Hnd' (x :: vis)) as [vis1 [[Ea Eb] Lc]].
  { intros k Hk. unfold mem. cbn [existsb]. destruct (k =? x) eqn:E.
    - apply Nat.eqb_eq in E. subst. contradiction.
    - apply Hfresh. simpl; auto. }
  exists vis1. split.
  - split.
    + intros k [<-|Hk]; auto. rewrite Eb by auto. unfold mem. cbn [existsb]. now rewrite Nat.eqb_refl.
    + intros k Hk. rewrite Eb by (intros Hi; apply Hk; simpl; auto).
      unfold mem. cbn [existsb]. destruct (k =? x) eqn:E; auto.
      apply Nat.eqb_eq in E. subst. exfalso. apply Hk. simpl; auto.
  - intros fuel rest out. rewrite size_node.
    replace (2 * S (sizes cs) + fuel) with (S (2 * sizes cs + S fuel)) by lia.
    cbn [bottom_up_loop]. rewrite (Hfresh x) by (simpl; auto).
    rewrite Lc. cbn [bottom_up_loop].
    assert (Hm : mem x vis1 = true).
    { rewrite Eb by auto. unfold mem. cbn [existsb]. now rewrite Nat.eqb_refl. }
    rewrite Hm. rewrite post_unfold, rev_app_distr. reflexivity.
Qed.

Theorem bottom_up_post tr fuel : NoDup (labels tr) -> 2 * size tr < fuel ->
  bottom_up_loop fuel [tr] [] [] = Ok (post tr).
Proof.
  intros Hnd Hf. destruct (bu_tree tr Hnd []) as [vis' [_ Lp]]; [reflexivity|].
  replace fuel with (2 * size tr + S (fuel - 2 * size tr - 1)) by lia.
  rewrite Lp. cbn [bottom_up_loop]. now rewrite app_nil_r, rev_involutive.
Qed.

(* ================================================================= the fold of df_step *)
Lemma set_add_In a s y : In y (set_add a s) <-> y = a \/ In y s.
Proof.
  unfold set_add. destruct (mem a s) eqn:E.
  - split; auto. intros [->|H]; auto. now apply mem_In.
  - rewrite in_app_iff. simpl. split; intros H; intuition.
Qed.

Lemma add_fold_In (P : nat -> bool) l : forall s0 y,
  In y (fold_left (fun s y => if P y then s else set_add y s) l s0) <->
  In y s0 \/ (In y l /\ P y = false).
Proof.
  induction l as [|a l IH]; intros s0 y; cbn [fold_left].
  - simpl. tauto.
  - rewrite IH. destruct (P a) eqn:Ea.
    + split; [intros [H|[H1 H2]]; auto; right; split; simpl; auto|].
      intros [H|[[<-|H1] H2]]; auto; congruence.
    + rewrite set_add_In. split.
      * intros [[->|H]|[H1 H2]]; auto; right; split; simpl; auto.
      * intros [H|[[<-|H1] H2]]; auto.
Qed.

Lemma up_fold_In (P : nat -> bool) (look : dtree -> list nat) cs : forall s0 y,
  In y (fold_left (fun s z => fold_left (fun s y => if P y then s else set_add y s) (look z) s) cs s0) <->
  In y s0 \/ exists z, In z cs /\ In y (look z) /\ P y = false.
Proof.
  induction cs as [|c cs IH]; intros s0 y; cbn [fold_left].
  - simpl. split; auto. intros [H|[z [[] _]]]; auto.
  - rewrite IH, add_fold_In. split.
    + intros [[H|[H1 H2]]|[z [Hz H]]]; auto.
      * right. exists c. simpl; auto.
      * right. exists z. simpl; tauto.
    + intros [H|[z [[<-|Hz] [H1 H2]]]]; auto. right. exists z. auto.
Qed.

Section Cytron.
Variable g : graph.
Variable e : nat.
Let L := idom_list g e.
Let n := length g.

Definition dlabel (z : dtree) : nat := match z with DNode zl _ => zl end.

Inductive treeof : dtree -> Prop :=
| treeof_node : forall x cs, reachable g e x ->
    (forall z, In z (map dlabel cs) <-> pget L z = Some x) ->
    Forall treeof cs -> treeof (DNode x cs).

Definition df_ok (df : list (nat * list nat)) (a : nat) : Prop :=
  exists s, alookup a df = Some s /\ forall y, In y s <-> in_df g e a y.

Definition fold_spec (tr : dtree) : Prop :=
  treeof tr -> NoDup (labels tr) -> forall df0,
  let df1 := fold_left (df_step g L) (post tr) df0 in
  (forall a, In a (labels tr) -> df_ok df1 a) /\
  (forall a, ~ In a (labels tr) -> alookup a df1 = alookup a df0).

Lemma fold_list cs : Forall fold_spec cs -> Forall treeof cs -> NoDup (flat_map labels cs) ->
  forall df0, let df1 := fold_left (df_step g L) (post_list cs) df0 in
  (forall a, In a (flat_map labels cs) -> df_ok df1 a) /\
  (forall a, ~ In a (flat_map labels cs) -> alookup a df1 = alookup a df0).
Proof.
  induction 1 as [|c l Hc _ IHl]; intros HT Hnd df0; cbn [post_list flat_map] in *.
  - simpl. split; auto. intros a [].
  - inversion HT as [|? ? Tc Tl]; subst.
    destruct (NoDup_app_inv _ _ Hnd) as [N1 [N2 Dj]].
    rewrite fold_left_app.
    destruct (IHl Tl N2 df0) as [A1 A2].
    destruct (Hc Tc N1 (fold_left (df_step g L) (post_list l) df0)) as [B1 B2].
    split.
    + intros a Ha. apply in_app_or in Ha. destruct Ha as [Ha|Ha]; auto.
      assert (Hn : ~ In a (labels c)) by (intros Hi; apply (Dj a); auto).
      destruct (A1 a Ha) as [s [Hs1 Hs2]]. exists s. split; auto. now rewrite B2.
    + intros a Ha. rewrite B2, A2; auto; intros Hi; apply Ha; apply in_or_app; auto.
Qed.

Lemma dlabel_in_labels z : In (dlabel z) (labels z).
Proof. destruct z. simpl; auto. Qed.

Lemma fold_tree : forall tr, fold_spec tr.
Proof.
  induction tr as [x cs IH] using dtree_ind'. intros HT Hnd df0.
  inversion HT as [? ? Hrx Hch HTc]; subst.
  cbn [labels] in Hnd. inversion Hnd as [|? ? Hx Hnd']; subst.
  rewrite post_unfold, fold_left_app.
  destruct (fold_list cs IH HTc Hnd' df0) as [A1 A2].
  set (dfm := fold_left (df_step g L) (post_list cs) df0) in *.
  cbn [fold_left df_step].
  split.
  - intros a [<-|Ha].
    + eexists. split; [cbn [alookup]; now rewrite Nat.eqb_refl|].
      intros y. rewrite up_fold_In, add_fold_In. rewrite (df_decompose g e x y Hrx). fold L.
      split.
      * intros [[[]|[H1 H2]]|[z [Hz [H1 H2]]]].
        -- left. split; auto. now apply succs_edge.
        -- right. exists (dlabel z). split; [apply Hch; now apply in_map|]. split; auto.
           destruct (A1 (dlabel z)) as [s [Hs1 Hs2]].
           { apply in_flat_map. exists z. split; auto. apply dlabel_in_labels. }
           change (match z with DNode zl _ => zl end) with (dlabel z) in H1.
           rewrite Hs1 in H1. now apply Hs2.
      * intros [[H1 H2]|[z [Hz [H1 H2]]]].
        -- left. right. split; auto. now apply succs_edge.
        -- right. apply Hch in Hz. apply in_map_iff in Hz. destruct Hz as [c [<- Hc]].
           exists c. split; auto. split; auto.
           destruct (A1 (dlabel c)) as [s [Hs1 Hs2]].
           { apply in_flat_map. exists c. split; auto. apply dlabel_in_labels. }
           change (match c with DNode zl _ => zl end) with (dlabel c).
           rewrite Hs1. now apply Hs2.
    + destruct (A1 a Ha) as [s [Hs1 Hs2]]. exists s. split; auto.
      cbn [alookup]. destruct (a =? x) eqn:E; auto.
      apply Nat.eqb_eq in E. subst. contradiction.
  - intros a Ha. cbn [alookup]. destruct (a =? x) eqn:E.
    + apply Nat.eqb_eq in E. subst. exfalso. apply Ha. simpl; auto.
    + apply A2. intros Hi. apply Ha. simpl; auto.
Qed.

Lemma filter_all {A} (l : list A) : filter (fun _ => true) l = l.
Proof. induction l; simpl; congruence. Qed.

Lemma sdcnt_lt_n x : x < n -> sdcnt g e x < n.
Proof.
  intros Hx. unfold sdcnt.
  replace n with (length (filter (fun _ : nat => true) (seq 0 (length g))))
    by (rewrite filter_all; apply seq_length).
  apply filter_len_lt; auto. exists x. split; [apply in_seq; unfold n in Hx; lia|].
  rewrite Nat.eqb_refl. simpl. split; auto. apply andb_false_r.
Qed.

Lemma dlabel_build f x : dlabel (build_tree f n L x) = x.
Proof. destruct f; reflexivity. Qed.

Lemma build_treeof : forall f x, reachable g e x -> x < n -> n <= f + sdcnt g e x ->
  treeof (build_tree f n L x).
Proof.
  induction f; intros x Hr Hx Hf.
  - pose proof (sdcnt_lt_n x Hx). lia.
  - cbn [build_tree]. constructor; auto.
    + intros z. rewrite map_map.
      rewrite (map_ext _ (fun c => c)) by (intros; apply dlabel_build). rewrite map_id.
      apply (ch_In g e x z).
    + apply Forall_forall. intros c Hc. apply in_map_iff in Hc. destruct Hc as [c0 [<- Hc0]].
      apply (ch_In g e x c0) in Hc0.
      pose proof (step_sdcnt g e _ _ Hc0).
      unfold pget in Hc0. destruct (idom_list_facts _ _ _ _ Hc0) as [H1 [_ [_ [H2 _]]]].
      apply IHf; auto. lia.
Qed.

Hypothesis He : e < n.

Theorem cytron_correct :
  exists df, cytron_df (2 * n + 2) g e L = Ok df /\
    (forall x, reachable g e x ->
       exists s, alookup x df = Some s /\ forall y, In y s <-> in_df g e x y) /\
    (forall x, ~ reachable g e x -> alookup x df = None).
Proof.
  unfold cytron_df. fold n.
  pose proof (build_tree_represents g e He) as [Hnd _].
  pose proof (build_tree_size g e He) as Hsz.
  assert (Hb : bottom_up_loop (2 * n + 2) [build_tree n n L e] [] [] = Ok (post (build_tree n n L e))).
  { apply bottom_up_post; auto. unfold n, L. lia. }
  rewrite Hb.
  eexists. split; [reflexivity|].
  assert (HT : treeof (build_tree n n L e)).
  { apply build_treeof; auto; [exists [e]; constructor|lia]. }
  destruct (fold_tree _ HT Hnd []) as [A1 A2].
  split.
  - intros x Hx. apply A1. now apply (root_labels_reach g e He).
  - intros x Hx. rewrite A2; auto. intros Hi. apply Hx. now apply (root_labels_reach g e He).
Qed.
End Cytron.

(* for any idom map accepted by the checker (as the real Lengauer-Tarjan output is, per graph) *)
Theorem cytron_accepted g e t : e < length g -> check_idom g e t = true -> length t = length g ->
  exists df, cytron_df (2 * length g + 2) g e t = Ok df /\
    (forall x, reachable g e x ->
       exists s, alookup x df = Some s /\ forall y, In y s <-> in_df g e x y) /\
    (forall x, ~ reachable g e x -> alookup x df = None).
Proof.
  intros He Hc Hl.
  assert (t = idom_list g e).
  { apply (nth_ext t (idom_list g e) None None).
    - rewrite Hl. unfold idom_list. now rewrite map_length, seq_length.
    - intros i Hi. apply (check_idom_iff_exact g e t Hc). lia. }
  subst t. now apply cytron_correct.
Qed.
