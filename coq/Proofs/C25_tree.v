(* Proofs/C25_tree.v — build_tree of the true idom map represents it: distinct labels, labels =
   reachable nodes, tree ancestors = parent-map ancestors.  With C25_compose this makes the
   dominates / strictly_dominates pipeline correct for every graph. *)
From PV Require Import Lib.Py.
From PV Require Import Spec.CfgSpec Model.DomRef Model.DomTree.
From PV Require Import Proofs.C25_ref Proofs.C25_cert Proofs.C25_intervals Proofs.C25_complete Proofs.C25_compose.
Close Scope Z_scope.
Open Scope nat_scope.

Section Tree.
Variable g : graph.
Variable e : nat.
Let L := idom_list g e.
Let n := length g.

(* a is the k-th ancestor of w *)
Inductive ancn : nat -> nat -> nat -> Prop :=
| ancn_0 : forall a, ancn 0 a a
| ancn_S : forall k a w p, pget L w = Some p -> ancn k a p -> ancn (S k) a w.

Lemma ancn_anc k a w : ancn k a w -> anc L a w.
Proof. induction 1; [constructor|eapply anc_up; eauto]. Qed.

Lemma anc_ancn a w : anc L a w -> exists k, ancn k a w.
Proof. induction 1 as [|a w p Hp _ [k Hk]]; [exists 0; constructor|exists (S k); econstructor; eauto]. Qed.

Lemma step_sdcnt w p : pget L w = Some p -> sdcnt g e p < sdcnt g e w.
Proof.
  intros H. unfold pget in H. destruct (idom_list_facts _ _ _ _ H) as [_ [Hp [Hid [Hr _]]]].
  now apply sdcnt_lt.
Qed.

Lemma ancn_sdcnt k a w : ancn k a w -> sdcnt g e a + k <= sdcnt g e w.
Proof. induction 1; [lia|]. pose proof (step_sdcnt _ _ H). lia. Qed.

Lemma ancn_fun k a a' w : ancn k a w -> ancn k a' w -> a = a'.
Proof.
  intros H. revert a'. induction H; intros a' H'; inversion H'; subst; auto.
  rewrite H in H2. inversion H2; subst. auto.
Qed.

Lemma ancn_det k1 k2 a w : ancn k1 a w -> ancn k2 a w -> k1 = k2.
Proof.
  intros H. revert k2. induction H; intros k2 H'; inversion H'; subst; auto.
  - pose proof (ancn_sdcnt _ _ _ H'). lia.
  - pose proof (ancn_sdcnt _ _ _ (ancn_S _ _ _ _ H H0)). lia.
  - rewrite H in H1. inversion H1; subst. f_equal. auto.
Qed.

Lemma ancn_trans k j a b w : ancn k a b -> ancn j b w -> ancn (j + k) a w.
Proof. intros Ha Hb. induction Hb; simpl; auto. econstructor; eauto. Qed.

(* top-step decomposition *)
Lemma ancn_top k x w : ancn (S k) x w <-> exists c, pget L c = Some x /\ ancn k c w.
Proof.
  split.
  - revert x w. induction k; intros x w H; inversion H; subst.
    + inversion H2; subst. exists w. split; auto. constructor.
    + destruct (IHk _ _ H2) as [c [Hc Hk]]. exists c. split; auto. econstructor; eauto.
  - intros [c [Hc Hk]]. replace (S k) with (k + 1) by lia.
    eapply ancn_trans; eauto. econstructor; eauto. constructor.
Qed.

Definition ch (x : nat) : list nat := children_of n L x.

Lemma ch_In x c : In c (ch x) <-> pget L c = Some x.
Proof.
  unfold ch, children_of. rewrite filter_In, in_seq. split.
  - intros [_ H]. destruct (pget L c) as [p|]; [|discriminate]. apply Nat.eqb_eq in H. now subst.
  - intros H. split.
    + unfold pget in H. apply idom_list_facts in H. unfold n. lia.
    + rewrite H. apply Nat.eqb_refl.
Qed.

Lemma ch_NoDup x : NoDup (ch x).
Proof. apply NoDup_filter, seq_NoDup. Qed.

Lemma flat_map_map {A B C} (f : B -> list C) (h : A -> B) l :
  flat_map f (map h l) = flat_map (fun a => f (h a)) l.
Proof. induction l; simpl; auto. now rewrite IHl. Qed.

Lemma labels_build f x : labels (build_tree (S f) n L x) =
  x :: flat_map (fun c => labels (build_tree f n L c)) (ch x).
Proof. cbn [build_tree labels]. now rewrite flat_map_map. Qed.

Lemma labels_spec : forall f x w,
  In w (labels (build_tree f n L x)) <-> exists k, k <= f /\ ancn k x w.
Proof.
  induction f; intros x w.
  - simpl. split.
    + intros [<-|[]]. exists 0. split; auto. constructor.
    + intros [k [Hk H]]. assert (k = 0) by lia. subst. inversion H. auto.
  - rewrite labels_build. simpl. rewrite in_flat_map. split.
    + intros [<-|[c [Hc Hw]]].
      * exists 0. split; [lia|constructor].
      * apply IHf in Hw. destruct Hw as [k [Hk H]]. exists (S k). split; [lia|].
        apply ancn_top. exists c. split; auto. now apply ch_In.
    + intros [k [Hk H]]. destruct k.
      * inversion H. auto.
      * right. apply ancn_top in H. destruct H as [c [Hc H]]. exists c. split.
        -- now apply ch_In.
        -- apply IHf. exists k. split; [lia|auto].
Qed.

Lemma NoDup_app_intro {A} (l1 l2 : list A) :
  NoDup l1 -> NoDup l2 -> (forall x, In x l1 -> ~ In x l2) -> NoDup (l1 ++ l2).
Proof.
  induction l1 as [|a l1 IH]; simpl; intros N1 N2 D; auto.
  inversion N1; subst. constructor.
  - intros Hin. apply in_app_or in Hin. destruct Hin; [contradiction|]. apply (D a); auto.
  - apply IH; auto.
Qed.

Lemma NoDup_flat_map {A} (f : A -> list nat) l :
  NoDup l -> (forall c, In c l -> NoDup (f c)) ->
  (forall c1 c2 w, In c1 l -> In c2 l -> In w (f c1) -> In w (f c2) -> c1 = c2) ->
  NoDup (flat_map f l).
Proof.
  induction l as [|a l IH]; simpl; intros N Hn Hd; [constructor|].
  inversion N; subst. apply NoDup_app_intro.
  - apply Hn; auto.
  - apply IH; auto. intros; eapply Hd; eauto.
  - intros w Hw Hin. apply in_flat_map in Hin. destruct Hin as [c [Hc Hwc]].
    assert (a = c) by (eapply Hd; eauto). subst. contradiction.
Qed.

Lemma labels_NoDup : forall f x, NoDup (labels (build_tree f n L x)).
Proof.
  induction f; intros x.
  - simpl. constructor; auto. constructor.
  - rewrite labels_build. constructor.
    + intros Hin. apply in_flat_map in Hin. destruct Hin as [c [Hc Hw]].
      apply labels_spec in Hw. destruct Hw as [k [_ Hk]]. apply ch_In in Hc.
      pose proof (ancn_sdcnt _ _ _ (proj2 (ancn_top k x x) (ex_intro _ c (conj Hc Hk)))). lia.
    + apply NoDup_flat_map; auto using ch_NoDup.
      intros c1 c2 w H1 H2 W1 W2. apply ch_In in H1, H2.
      apply labels_spec in W1, W2. destruct W1 as [k1 [_ K1]], W2 as [k2 [_ K2]].
      assert (A1 : ancn (S k1) x w) by (apply ancn_top; eauto).
      assert (A2 : ancn (S k2) x w) by (apply ancn_top; eauto).
      pose proof (ancn_det _ _ _ _ A1 A2) as E. inversion E; subst.
      eapply ancn_fun; eauto.
Qed.

Lemma tanc_anc : forall f x b a, tanc (build_tree f n L x) b a -> anc L b a.
Proof.
  induction f; intros x b a H.
  - simpl in H. inversion H; subst.
    + match goal with Hin : In a (labels _) |- _ => simpl in Hin; destruct Hin as [<-|[]] end.
      constructor.
    + match goal with Hin : In _ [] |- _ => inversion Hin end.
  - cbn [build_tree] in H. inversion H; subst.
    + match goal with Hin : In a (labels (DNode ?r _)) |- _ =>
        change (In a (labels (build_tree (S f) n L r))) in Hin;
        apply labels_spec in Hin; destruct Hin as [k [_ Hk]] end.
      eapply ancn_anc; eauto.
    + match goal with Hin : In _ (map _ _) |- _ =>
        apply in_map_iff in Hin; destruct Hin as [c0 [<- _]] end.
      eauto.
Qed.

Lemma anc_tanc : forall f x b a,
  In a (labels (build_tree f n L x)) -> In b (labels (build_tree f n L x)) ->
  anc L b a -> tanc (build_tree f n L x) b a.
Proof.
  induction f; intros x b a Ha Hb Hanc.
  - simpl in *. destruct Ha as [<-|[]]. destruct Hb as [<-|[]]. apply tanc_root. simpl; auto.
  - destruct (Nat.eq_dec b x) as [->|Hbx].
    + cbn [build_tree]. apply tanc_root. exact Ha.
    + rewrite labels_build in Ha, Hb.
      destruct Hb as [Hb|Hb]; [congruence|].
      apply in_flat_map in Hb. destruct Hb as [c [Hc Hbc]].
      pose proof Hbc as Hbc'. apply labels_spec in Hbc'. destruct Hbc' as [kb [_ Kb]].
      destruct (anc_ancn _ _ Hanc) as [j Hj].
      pose proof (ancn_trans _ _ _ _ _ Kb Hj) as Kca.
      pose proof Hc as Hc'. apply ch_In in Hc'.
      assert (Hac : In a (labels (build_tree f n L c))).
      { destruct Ha as [Ha|Ha].
        - subst a. exfalso.
          pose proof (ancn_sdcnt _ _ _ (proj2 (ancn_top _ x x) (ex_intro _ c (conj Hc' Kca)))). lia.
        - apply in_flat_map in Ha. destruct Ha as [c' [Hc2 Hac]].
          pose proof Hac as Hac'. apply labels_spec in Hac'. destruct Hac' as [k' [_ K']].
          apply ch_In in Hc2.
          assert (A1 : ancn (S (j + kb)) x a) by (apply ancn_top; eauto).
          assert (A2 : ancn (S k') x a) by (apply ancn_top; eauto).
          pose proof (ancn_det _ _ _ _ A1 A2) as E. inversion E; subst.
          assert (c = c') by (eapply ancn_fun; eauto). now subst. }
      cbn [build_tree]. eapply tanc_child.
      * apply in_map. exact Hc.
      * apply IHf; auto.
Qed.

Lemma labels_size : forall tr, length (labels tr) = size tr.
Proof.
  induction tr as [x cs IH] using dtree_ind'. cbn [labels size length]. f_equal.
  induction IH as [|c l Hc _ IHl]; simpl; auto. rewrite app_length, Hc, IHl. reflexivity.
Qed.

Hypothesis He : e < n.

Lemma root_labels_reach w : In w (labels (build_tree n n L e)) <-> reachable g e w.
Proof.
  rewrite labels_spec. split.
  - intros [k [_ H]]. inversion H; subst.
    + eexists. apply path_one.
    + match goal with H0 : pget L _ = Some _ |- _ => unfold pget in H0; apply idom_list_facts in H0; tauto end.
  - intros Hr. destruct Hr as [l Hp].
    assert (Ha : anc L e w).
    { apply (tree_anc_complete g e L) with (k := length l) (l := l); auto.
      - intros v Hv Hve. destruct (idom_list_total g e v Hv Hve) as [d [Ed Hd]]. exists d. auto.
      - apply dominates_entry. }
    destruct (anc_ancn _ _ Ha) as [k Hk]. exists k. split; auto.
    pose proof (ancn_sdcnt _ _ _ Hk). pose proof (sdcnt_le g e w). unfold n. lia.
Qed.

Theorem build_tree_represents : represents g e L (build_tree n n L e).
Proof.
  split; [apply labels_NoDup|]. split.
  - intros w. apply root_labels_reach.
  - intros a b Ha Hb. split; [apply tanc_anc|now apply anc_tanc].
Qed.

Lemma build_tree_size : size (build_tree n n L e) <= n.
Proof.
  rewrite <- labels_size.
  replace n with (length (seq 0 n)) at 3 by apply seq_length.
  apply NoDup_incl_length; [apply labels_NoDup|].
  intros w Hw. apply root_labels_reach in Hw. apply in_seq.
  destruct (Nat.eq_dec w e) as [->|Hne]; [lia|].
  pose proof (reachable_node_bound _ _ _ Hw Hne). unfold n. lia.
Qed.
End Tree.

Lemma build_tree_ext n t t' : (forall w, w < n -> pget t w = pget t' w) ->
  forall f x, build_tree f n t x = build_tree f n t' x.
Proof.
  intros H. induction f; intros x; cbn [build_tree]; auto.
  assert (E : children_of n t x = children_of n t' x).
  { unfold children_of. apply filter_ext_in. intros w Hw. apply in_seq in Hw.
    rewrite H by lia. reflexivity. }
  rewrite E. f_equal. apply map_ext. auto.
Qed.

(* dominates / strictly_dominates of cfg.py, modelled end to end (tree construction from the idom
   map, interval numbering, interval tests), decide dominance by the path definition — for every
   graph and every idom map accepted by the checker *)
Theorem dominates_unbounded g e t : e < length g -> check_idom g e t = true ->
  exists iv, tree_intervals g e t = Ok iv /\
    forall one other, reachable g e one -> reachable g e other ->
      exists io i1, alookup other iv = Some io /\ alookup one iv = Some i1 /\
        (below_or_same io i1 = true <-> dominates g e one other) /\
        (below io i1 = true <-> sdominates g e one other).
Proof.
  intros He Hc. unfold tree_intervals.
  rewrite (build_tree_ext (length g) t (idom_list g e)).
  2:{ intros w Hw. rewrite (check_idom_iff_exact g e t Hc w Hw). reflexivity. }
  destruct (dominates_by_intervals g e (idom_list g e) (build_tree (length g) (length g) (idom_list g e) e)
              (2 * length g + 2) (check_idom_complete g e) (build_tree_represents g e He))
    as [iv [Hiv Hq]].
  { pose proof (build_tree_size g e He). lia. }
  exists iv. split; auto. intros one other H1 H2.
  apply Hq; now apply root_labels_reach.
Qed.
