(* Proofs/C04_peephole.v — PeepHoleStream: (A) the window machine equals the "drop an item when the
   next item has an equal effect" filter; (B) under Spec/StreamSem.v the filtered stream simulates the
   original one and vice versa (stuttering bisimulation, states equal). *)
From Coq Require Import List Arith Bool Lia.
From PV Require Import Model.Peephole Spec.StreamSem.
Import ListNotations.

(* ------------------------------------------------------------------ (A) window machine = peep *)
Section A.
  Context {I E : Type}.
  Variable effect : I -> option E.
  Variable eqE : E -> E -> bool.
  Variable is_label : I -> bool.
  Notation do_emit := (do_emit effect eqE is_label).
  Notation peep := (peep effect eqE is_label).
  Notation drops := (drops effect eqE is_label).

  Definition finish (st : pstate) (rest : list I) : list I :=
    down (flush (fold_left do_emit rest st)).

  Lemma do_emit_two : forall a b d,
    do_emit (mkps [a] d) b = if drops a b then mkps [b] d else mkps [a; b] d.
  Proof.
    intros. unfold do_emit, Peephole.drops. simpl.
    destruct (effect a), (effect b); simpl; auto.
    destruct (eqE e e0); simpl; auto.
  Qed.

  Lemma do_emit_three : forall x a b d,
    do_emit (mkps [x; a] d) b =
    if drops a b then mkps [b] (d ++ [x]) else mkps [a; b] (d ++ [x]).
  Proof.
    intros. unfold do_emit, Peephole.drops. simpl.
    destruct (effect a), (effect b); simpl; auto.
    destruct (eqE e e0); simpl; auto.
  Qed.

  Lemma finish_inv : forall rest d,
    finish (mkps [] d) rest = d ++ peep rest /\
    (forall a, finish (mkps [a] d) rest = d ++ peep (a :: rest)) /\
    (forall x a, finish (mkps [x; a] d) rest = d ++ x :: peep (a :: rest)).
  Proof.
    induction rest as [|b r IH]; intros d.
    - unfold finish, flush. simpl. repeat split; intros; simpl.
      + now rewrite app_nil_r.
      + rewrite <- app_assoc. reflexivity.
    - unfold finish in *. simpl fold_left. repeat split; intros.
      + change (do_emit (mkps [] d) b) with (mkps [b] d). apply IH.
      + rewrite do_emit_two. simpl. destruct (drops a b); apply IH.
      + rewrite do_emit_three. simpl. destruct (drops a b).
        * destruct (IH (d ++ [x])) as (_ & H & _). rewrite H, <- app_assoc. reflexivity.
        * destruct (IH (d ++ [x])) as (_ & _ & H). rewrite H, <- app_assoc. reflexivity.
  Qed.

  Theorem peephole_eq_peep : forall l, peephole effect eqE is_label l = peep l.
  Proof. intros l. unfold peephole. apply (finish_inv l []). Qed.
End A.

(* ------------------------------------------------------------------ (B) semantic soundness *)
Section B.
  Context {L K S : Type}.
  Variable L_eqb : L -> L -> bool.
  Hypothesis L_eqb_spec : forall a b, reflect (a = b) (L_eqb a b).
  Variable sem : K -> S -> S * @ctl L.
  Notation instr := (instr L K).
  Notation status := (status L).
  Notation peep := (peep (@i_effect L K) L_eqb (@i_is_label L K)).
  Notation drops := (drops (@i_effect L K) L_eqb (@i_is_label L K)).
  Notation drops_hd := (drops_hd (@i_effect L K) L_eqb (@i_is_label L K)).
  Notation find_label := (find_label L_eqb).
  Notation goto := (goto L_eqb).
  Notation step := (step L_eqb sem).
  Notation run := (run L_eqb sem).

  Lemma L_eqb_refl l : L_eqb l l = true.
  Proof. destruct (L_eqb_spec l l); congruence. Qed.

  Lemma drops_inv (a b : instr) : drops a b = true ->
    exists l, a = IJmp l /\ (b = IJmp l \/ b = ILabel l).
  Proof.
    unfold Peephole.drops. destruct a, b; simpl; try discriminate;
      rewrite ?andb_false_r, ?andb_true_r; try discriminate;
      intros H; destruct (L_eqb_spec l l0); try discriminate; subst; eauto.
  Qed.

  Lemma drops_hd_inv (a : instr) tl : drops_hd a tl = true ->
    exists l b tl', tl = b :: tl' /\ a = IJmp l /\ (b = IJmp l \/ b = ILabel l).
  Proof.
    destruct tl as [|b tl']; simpl; [discriminate|]. intros H.
    destruct (drops_inv _ _ H) as (l & Ha & Hb). eauto 7.
  Qed.

  (* is the instruction at position pc removed by the filter? *)
  Fixpoint dropped_at (p : list instr) (pc : nat) : bool :=
    match p with
    | [] => false
    | a :: tl => match pc with O => drops_hd a tl | Datatypes.S pc' => dropped_at tl pc' end
    end.
  (* position in the filtered stream = number of kept instructions before pc *)
  Fixpoint mapc (p : list instr) (pc : nat) : nat :=
    match p, pc with
    | a :: tl, Datatypes.S pc' => (if drops_hd a tl then 0 else 1) + mapc tl pc'
    | _, _ => 0
    end.
  Definition mapst (p : list instr) (st : status) : status :=
    match st with Running pc => Running (mapc p pc) | x => x end.
  Definition mapres (p : list instr) (r : status * S) : status * S := (mapst p (fst r), snd r).

  Lemma mapc_0 p : mapc p 0 = 0.
  Proof. destruct p; reflexivity. Qed.

  Lemma kept_at : forall p pc i, nth_error p pc = Some i -> dropped_at p pc = false ->
    nth_error (peep p) (mapc p pc) = Some i /\ mapc p (Datatypes.S pc) = Datatypes.S (mapc p pc).
  Proof.
    induction p as [|a tl IH]; intros pc i Hn Hd; destruct pc; simpl in *; try discriminate.
    - rewrite Hd. simpl. rewrite mapc_0. split; [assumption | reflexivity].
    - destruct (IH _ _ Hn Hd) as [I1 I2]. rewrite I2.
      destruct (drops_hd a tl); simpl; split; auto.
  Qed.

  Lemma dropped_at_inv : forall p pc, dropped_at p pc = true ->
    mapc p (Datatypes.S pc) = mapc p pc /\
    exists l b, nth_error p pc = Some (IJmp l) /\ nth_error p (Datatypes.S pc) = Some b /\
                (b = IJmp l \/ b = ILabel l).
  Proof.
    induction p as [|a tl IH]; intros pc Hd; destruct pc; simpl in *; try discriminate.
    - rewrite Hd, mapc_0. split; [reflexivity|].
      destruct (drops_hd_inv _ _ Hd) as (l & b & tl' & -> & -> & Hb). simpl. eauto.
    - destruct (IH _ Hd) as [I1 I2]. rewrite I1. split; [reflexivity | exact I2].
  Qed.

  Lemma past_end : forall p pc, nth_error p pc = None ->
    nth_error (peep p) (mapc p pc) = None /\ dropped_at p pc = false.
  Proof.
    induction p as [|a tl IH]; intros pc Hn; destruct pc; simpl in *; try discriminate; auto.
    destruct (IH _ Hn) as [I1 I2]. split; [| assumption].
    destruct (drops_hd a tl); simpl; assumption.
  Qed.

  Lemma find_label_peep : forall l p,
    find_label l (peep p) = option_map (mapc p) (find_label l p).
  Proof.
    induction p as [|a tl IH]; [reflexivity|]. simpl peep.
    destruct (drops_hd a tl) eqn:Hd.
    - destruct (drops_hd_inv _ _ Hd) as (l0 & b & tl' & Htl & -> & _).
      rewrite IH. simpl. destruct (find_label l tl); simpl; [rewrite Hd|]; reflexivity.
    - assert (Hshift : option_map Datatypes.S (find_label l (peep tl)) =
                       option_map (mapc (a :: tl)) (option_map Datatypes.S (find_label l tl))).
      { rewrite IH. destruct (find_label l tl); simpl; [rewrite Hd|]; reflexivity. }
      destruct a; simpl; auto. destruct (L_eqb l0 l); auto.
  Qed.

  Lemma nth_label_in : forall (p : list instr) j l, nth_error p j = Some (ILabel l) -> In l (labels p).
  Proof.
    induction p as [|a tl IH]; intros j l H; destruct j; simpl in *; try discriminate.
    - inversion H; subst. simpl. now left.
    - apply in_or_app. right. eauto.
  Qed.

  Lemma find_label_unique : forall (p : list instr) j l, NoDup (labels p) ->
    nth_error p j = Some (ILabel l) -> find_label l p = Some j.
  Proof.
    induction p as [|a tl IH]; intros j l Hnd H; destruct j; simpl in *; try discriminate.
    - inversion H; subst. now rewrite L_eqb_refl.
    - destruct a as [l'| |]; simpl in Hnd.
      + inversion Hnd; subst. destruct (L_eqb_spec l' l) as [-> | _].
        * exfalso. apply H2. eapply nth_label_in; eauto.
        * now rewrite (IH _ _ H3 H).
      + now rewrite (IH _ _ Hnd H).
      + now rewrite (IH _ _ Hnd H).
  Qed.

  Lemma goto_peep p l : goto (peep p) l = mapst p (goto p l).
  Proof. unfold StreamSem.goto. rewrite find_label_peep. destruct (find_label l p); reflexivity. Qed.

  Lemma step_kept p pc s : dropped_at p pc = false ->
    step (peep p) (mapc p pc) s = mapres p (step p pc s).
  Proof.
    intros Hd. unfold StreamSem.step, mapres. destruct (nth_error p pc) as [i|] eqn:E.
    - destruct (kept_at _ _ _ E Hd) as [-> K2]. destruct i; simpl.
      + now rewrite K2.
      + now rewrite goto_peep.
      + destruct (sem k s) as [s' c]. destruct c; simpl; rewrite ?K2, ?goto_peep; reflexivity.
    - destruct (past_end _ _ E) as [-> _]. reflexivity.
  Qed.

  Lemma run_stopped p n st s : (forall pc, st <> Running pc) -> run p n st s = (st, s).
  Proof. destruct n; simpl; auto. destruct st; auto. intros H. now destruct (H pc). Qed.

  Lemma dropped_lt : forall p pc, dropped_at p pc = true -> Datatypes.S pc < length p.
  Proof.
    intros p pc Hd. destruct (dropped_at_inv _ _ Hd) as (_ & l & b & _ & Hb & _).
    apply nth_error_Some. congruence.
  Qed.

  Section WithProgram.
  Variable p : list instr.
  Hypothesis Hnd : NoDup (labels p).

  (* the three situations at a position of the original stream *)
  Lemma at_dropped pc s : dropped_at p pc = true ->
    mapc p (Datatypes.S pc) = mapc p pc /\
    (step p pc s = (Running (Datatypes.S pc), s) \/ step p pc s = step p (Datatypes.S pc) s).
  Proof.
    intros Hd. destruct (dropped_at_inv _ _ Hd) as (Hm & l & b & Ha & Hb & [-> | ->]); split; auto.
    - right. unfold StreamSem.step. now rewrite Ha, Hb.
    - left. unfold StreamSem.step. rewrite Ha. unfold StreamSem.goto.
      now rewrite (find_label_unique _ _ _ Hnd Hb).
  Qed.

  Theorem peep_forward : forall n st s,
    exists m, m <= n /\ run (peep p) m (mapst p st) s = mapres p (run p n st s).
  Proof.
    induction n as [|n IHn]; intros st s.
    - exists 0. split; [lia | reflexivity].
    - destruct st as [pc| | |]; try (exists 0; split; [lia | reflexivity]).
      remember (length p - pc) as k eqn:Hk. revert pc s Hk.
      induction k as [k IHk] using lt_wf_ind. intros pc s Hk.
      destruct (dropped_at p pc) eqn:Hd.
      + destruct (at_dropped pc s Hd) as [Hm [Hs | Hs]].
        * destruct (IHn (Running (Datatypes.S pc)) s) as (m & Hle & Hr).
          exists m. split; [lia|]. simpl mapst in *. rewrite <- Hm, Hr.
          simpl run at 2. now rewrite Hs.
        * pose proof (dropped_lt _ _ Hd) as Hlt.
          destruct (IHk (length p - Datatypes.S pc) ltac:(lia) (Datatypes.S pc) s eq_refl)
            as (m & Hle & Hr).
          exists m. split; [assumption|]. simpl mapst in *. rewrite <- Hm, Hr.
          simpl run. now rewrite Hs.
      + pose proof (step_kept p pc s Hd) as Hs.
        destruct (step p pc s) as [st1 s1] eqn:E1.
        destruct (IHn st1 s1) as (m & Hle & Hr).
        exists (Datatypes.S m). split; [lia|]. simpl. rewrite Hs, E1. exact Hr.
  Qed.

  Theorem peep_backward : forall m st s,
    exists n, m <= n /\ mapres p (run p n st s) = run (peep p) m (mapst p st) s.
  Proof.
    induction m as [|m IHm]; intros st s.
    - exists 0. split; [lia | reflexivity].
    - destruct st as [pc| | |]; try (exists (Datatypes.S m); split; [lia | reflexivity]).
      remember (length p - pc) as k eqn:Hk. revert pc s Hk.
      induction k as [k IHk] using lt_wf_ind. intros pc s Hk.
      destruct (dropped_at p pc) eqn:Hd.
      + pose proof (dropped_lt _ _ Hd) as Hlt.
        destruct (IHk (length p - Datatypes.S pc) ltac:(lia) (Datatypes.S pc) s eq_refl)
          as (n & Hle & Hr).
        destruct (at_dropped pc s Hd) as [Hm [Hs | Hs]].
        * exists (Datatypes.S n). split; [lia|]. simpl mapst in *. rewrite <- Hm, <- Hr.
          simpl run at 1. now rewrite Hs.
        * exists n. split; [assumption|]. simpl mapst in *. rewrite <- Hm, <- Hr.
          destruct n as [|n]; [lia|]. simpl run. now rewrite Hs.
      + pose proof (step_kept p pc s Hd) as Hs.
        destruct (step p pc s) as [st1 s1] eqn:E1.
        destruct (IHm st1 s1) as (n & Hle & Hr).
        exists (Datatypes.S n). split; [lia|]. simpl. rewrite Hs, E1. exact Hr.
  Qed.
  End WithProgram.

  (* the statement for the stream model itself, from the first instruction *)
  Theorem peephole_sound : forall p, NoDup (labels p) ->
    let q := peephole (@i_effect L K) L_eqb (@i_is_label L K) p in
    (forall n s, exists m, m <= n /\ run q m (Running 0) s = mapres p (run p n (Running 0) s)) /\
    (forall m s, exists n, m <= n /\ mapres p (run p n (Running 0) s) = run q m (Running 0) s).
  Proof.
    intros p Hnd q. unfold q. rewrite peephole_eq_peep. split.
    - intros n s. destruct (peep_forward p Hnd n (Running 0) s) as (m & Hle & H).
      exists m. split; auto. simpl mapst in H. now rewrite mapc_0 in H.
    - intros m s. destruct (peep_backward p Hnd m (Running 0) s) as (n & Hle & H).
      exists n. split; auto. simpl mapst in H. now rewrite mapc_0 in H.
  Qed.

  Definition stopped (st : status) : Prop := match st with Running _ => False | _ => True end.

  (* both streams stop in the same way with the same state, or neither stops *)
  Corollary peephole_same_result : forall p, NoDup (labels p) ->
    let q := peephole (@i_effect L K) L_eqb (@i_is_label L K) p in
    forall s st s', stopped st ->
      ((exists n, run p n (Running 0) s = (st, s')) <-> (exists m, run q m (Running 0) s = (st, s'))).
  Proof.
    intros p Hnd q s st s' Hst. destruct (peephole_sound p Hnd) as [F B]. fold q in F, B. split.
    - intros [n Hn]. destruct (F n s) as (m & _ & Hm). exists m. rewrite Hm, Hn.
      destruct st; simpl in Hst; try contradiction; reflexivity.
    - intros [m Hm]. destruct (B m s) as (n & _ & Hn). exists n. rewrite Hm in Hn.
      destruct (run p n (Running 0) s) as [st0 s0]. unfold mapres in Hn. simpl in Hn.
      inversion Hn; subst. destruct st0; simpl in *; try contradiction; reflexivity.
  Qed.
End B.

(* ------------------------------------------------------------------ the NoDup hypothesis is needed *)
(* With a label defined twice the filter is wrong:  L: k; jmp L; L:   loops for ever (the jump goes
   to the FIRST definition), the filtered stream  L: k; L:  runs past the end. Such a stream is
   rejected later on (duplicate symbol), so the hypothesis costs nothing. *)
Section Dup.
  Let sem1 (k : unit) (s : nat) : nat * @ctl nat := (Datatypes.S s, Next).
  Let p1 : list (instr nat unit) := [ILabel 0; IOther tt; IJmp 0; ILabel 0].

  Lemma p1_loops : forall n pc s, pc < 3 ->
    exists pc' s', run Nat.eqb sem1 p1 n (Running pc) s = (Running pc', s') /\ pc' < 3.
  Proof.
    induction n as [|n IH]; intros pc s Hpc.
    - exists pc, s. split; [reflexivity | assumption].
    - destruct pc as [|[|[|pc]]]; try lia; simpl; apply IH; lia.
  Qed.

  Theorem peephole_dup_labels_refuted :
    exists (p : list (instr nat unit)) s st s',
      stopped st /\
      (exists m, run Nat.eqb sem1 (peephole (@i_effect nat unit) Nat.eqb (@i_is_label nat unit) p)
                     m (Running 0) s = (st, s')) /\
      ~ (exists n, run Nat.eqb sem1 p n (Running 0) s = (st, s')).
  Proof.
    exists p1, 0, Fell, 1. split; [exact Logic.I|]. split.
    - exists 4. vm_compute. reflexivity.
    - intros [n Hn]. destruct (p1_loops n 0 0 ltac:(lia)) as (pc' & s' & H & _).
      rewrite H in Hn. discriminate.
  Qed.
End Dup.
