(* Proofs/C25_pdom.v — the model of calculate_post_dominators (set fixpoint, Model/DomTree.v)
   returns exactly the post-dominators by the path definition, for EVERY graph and every exit
   node without successors, whenever the iteration terminates within the fuel
   (partial correctness; fuel sufficiency is not proved here, it is covered for <= 4 nodes by
   c25_pdom_fixpoint_bounded and observed on every generated graph). *)
From PV Require Import Lib.Py.
From PV Require Import Spec.CfgSpec Model.DomRef Model.DomTree.
From PV Require Import Proofs.C25_ref.
Close Scope Z_scope.
Open Scope nat_scope.

Lemma set_nth_length {A} (v : A) : forall l i, length (set_nth i v l) = length l.
Proof. induction l; destruct i; simpl; auto. Qed.

Lemma nth_set_nth {A} (v d : A) : forall l i w, i < length l ->
  nth w (set_nth i v l) d = if w =? i then v else nth w l d.
Proof.
  induction l as [|a l IH]; intros i w Hi; simpl in Hi; [lia|].
  destruct i, w; simpl; auto. apply IH. lia.
Qed.

Lemma list_eqb_true a : forall b, list_eqb a b = true -> a = b.
Proof.
  induction a as [|x a IH]; intros [|y b]; simpl; intros H; try discriminate; auto.
  apply andb_true_iff in H. destruct H as [H1 H2]. apply Nat.eqb_eq in H1. f_equal; auto.
Qed.

Section Pdom.
Variable g : graph.
Variable x : nat.
Hypothesis Hx : x < length g.
Hypothesis Hsink : succs g x = [].

Definition newset (pd : list (list nat)) (node : nat) : list nat :=
  filter (fun d => (d =? node) || forallb (mem d) (map (fun s => nth s pd []) (succs g node)))
         (seq 0 (length g)).

Lemma pdom_sweep_eq pd change node :
  pdom_sweep g (pd, change) node =
  match succs g node with
  | [] => (pd, change)
  | _ => if list_eqb (newset pd node) (nth node pd [])
         then (pd, change) else (set_nth node (newset pd node) pd, true)
  end.
Proof. unfold pdom_sweep, newset. destruct (succs g node); reflexivity. Qed.

(* invariant: the true post-dominators are never removed *)
Definition inv (pd : list (list nat)) : Prop :=
  length pd = length g /\
  nth x pd [] = [x] /\
  (forall w d, In d (nth w pd []) -> d < length g) /\
  (forall w d, w < length g -> d < length g -> postdominates g x d w -> In d (nth w pd [])).

Lemma postdom_succ d node s : edge g node s -> postdominates g x d node -> d <> node ->
  postdominates g x d s.
Proof.
  intros He Hd Hne l Hp.
  specialize (Hd (node :: l) (path_step _ _ _ _ _ He Hp)). destruct Hd; [congruence|auto].
Qed.

Lemma newset_In pd node d : In d (newset pd node) <->
  d < length g /\ (d = node \/ forall s, edge g node s -> In d (nth s pd [])).
Proof.
  unfold newset. rewrite filter_In, in_seq, orb_true_iff, Nat.eqb_eq, forallb_forall.
  split.
  - intros [H1 [H2|H2]]; split; try lia; auto. right. intros s Hs.
    apply mem_In. apply H2. apply in_map_iff. exists s. split; auto. now apply succs_edge.
  - intros [H1 [H2|H2]]; split; try lia; auto. right. intros l Hl.
    apply in_map_iff in Hl. destruct Hl as [s [<- Hs]]. apply mem_In. apply H2. now apply succs_edge.
Qed.

Lemma sweep_inv pd change node : node < length g -> inv pd -> inv (fst (pdom_sweep g (pd, change) node)).
Proof.
  intros Hn [Hlen [Hxx [Hb Hd]]]. rewrite pdom_sweep_eq.
  destruct (succs g node) as [|s0 ss] eqn:Es; [simpl; repeat split; auto|].
  destruct (list_eqb (newset pd node) (nth node pd [])); [simpl; repeat split; auto|].
  simpl.
  assert (Hnx : node <> x) by (intros ->; rewrite Hsink in Es; discriminate).
  repeat split.
  - now rewrite set_nth_length.
  - rewrite nth_set_nth by lia. destruct (x =? node) eqn:E; auto.
    apply Nat.eqb_eq in E. congruence.
  - intros w d. rewrite nth_set_nth by lia. destruct (w =? node); eauto.
    intros H. apply newset_In in H. tauto.
  - intros w d Hw Hdn Hpd. rewrite nth_set_nth by lia. destruct (w =? node) eqn:E; auto.
    apply Nat.eqb_eq in E. subst w. apply newset_In. split; auto.
    destruct (Nat.eq_dec d node); auto. right. intros s He.
    apply Hd; auto. apply He. eapply postdom_succ; eauto.
Qed.

Lemma fold_inv : forall l pd change, (forall u, In u l -> u < length g) -> inv pd ->
  inv (fst (fold_left (pdom_sweep g) l (pd, change))).
Proof.
  induction l as [|u l IH]; intros pd change Hl Hi; cbn [fold_left]; auto.
  destruct (pdom_sweep g (pd, change) u) as [pd1 c1] eqn:E.
  apply IH; [intros; apply Hl; simpl; auto|].
  replace pd1 with (fst (pdom_sweep g (pd, change) u)) by now rewrite E.
  apply sweep_inv; auto. apply Hl. simpl; auto.
Qed.

Lemma sweep_true pd node : snd (pdom_sweep g (pd, true) node) = true.
Proof.
  rewrite pdom_sweep_eq. destruct (succs g node); auto.
  destruct (list_eqb _ _); auto.
Qed.

Lemma fold_true : forall l pd, snd (fold_left (pdom_sweep g) l (pd, true)) = true.
Proof.
  induction l as [|u l IH]; intros pd; cbn [fold_left]; auto.
  destruct (pdom_sweep g (pd, true) u) as [pd1 c1] eqn:E.
  assert (c1 = true) by (pose proof (sweep_true pd u) as H; now rewrite E in H). subst. apply IH.
Qed.

(* a sweep that reports "no change" left the map untouched and every node is at its fixpoint *)
Lemma fold_stable : forall l pd pd',
  fold_left (pdom_sweep g) l (pd, false) = (pd', false) ->
  pd' = pd /\ forall u, In u l -> succs g u <> [] -> nth u pd [] = newset pd u.
Proof.
  induction l as [|u l IH]; intros pd pd' H; cbn [fold_left] in H.
  - inversion H. split; auto. intros u [].
  - rewrite pdom_sweep_eq in H.
    destruct (succs g u) as [|s0 ss] eqn:Es.
    + destruct (IH _ _ H) as [-> Hs]. split; auto. intros v [<-|Hv]; auto. congruence.
    + destruct (list_eqb (newset pd u) (nth u pd [])) eqn:El.
      * destruct (IH _ _ H) as [-> Hs]. split; auto. intros v [<-|Hv]; auto.
        intros _. symmetry. now apply list_eqb_true.
      * exfalso. pose proof (fold_true l (set_nth u (newset pd u) pd)) as Ht.
        rewrite H in Ht. discriminate.
Qed.

Lemma fixpoint_sound pd : inv pd ->
  (forall u, u < length g -> succs g u <> [] -> nth u pd [] = newset pd u) ->
  forall w l, path g w l x -> w < length g -> forall d, In d (nth w pd []) -> In d l.
Proof.
  intros [Hlen [Hxx _]] Hfix.
  assert (G : forall w l y, path g w l y -> y = x -> w < length g ->
              forall d, In d (nth w pd []) -> In d l).
  { intros w l y Hp. induction Hp; intros Ey Hw d Hd.
    - subst u. rewrite Hxx in Hd. exact Hd.
    - assert (Hs : succs g u <> []).
      { intros E. apply succs_edge in H. rewrite E in H. inversion H. }
      rewrite (Hfix u Hw Hs) in Hd. apply newset_In in Hd. destruct Hd as [_ [->|Hd]].
      + simpl; auto.
      + right. apply IHHp; auto. apply H. }
  intros w l Hp. eapply G; eauto.
Qed.

Lemma pdom_loop_correct : forall fuel pd res, inv pd -> pdom_loop fuel g pd = Ok res ->
  forall w d, w < length g ->
    (In d (nth w res []) <-> d < length g /\ postdominates g x d w).
Proof.
  induction fuel; intros pd res Hi H; [discriminate|]. cbn [pdom_loop] in H.
  destruct (fold_left (pdom_sweep g) (seq 0 (length g)) (pd, false)) as [pd' change] eqn:E.
  assert (Hi' : inv pd').
  { replace pd' with (fst (fold_left (pdom_sweep g) (seq 0 (length g)) (pd, false))) by now rewrite E.
    apply fold_inv; auto. intros u Hu. apply in_seq in Hu. lia. }
  destruct change.
  - eapply IHfuel; eauto.
  - inversion H; subst res. destruct (fold_stable _ _ _ E) as [-> Hfix].
    intros w d Hw. split.
    + intros Hd. split; [eapply Hi'; eauto|].
      intros l Hp. eapply fixpoint_sound; eauto.
      intros u Hu. apply Hfix. apply in_seq. lia.
    + intros [Hd Hp]. destruct Hi' as [_ [_ [_ Hall]]]. auto.
Qed.

Theorem post_dominators_correct fuel res : post_dominators fuel g x = Ok res ->
  forall w d, w < length g ->
    (In d (nth w res []) <-> d < length g /\ postdominates g x d w).
Proof.
  unfold post_dominators. apply pdom_loop_correct.
  repeat split.
  - now rewrite map_length, seq_length.
  - rewrite nth_map_seq by auto. now rewrite Nat.eqb_refl.
  - intros w d. destruct (Nat.lt_ge_cases w (length g)) as [Hw|Hw].
    + rewrite nth_map_seq by auto. destruct (w =? x) eqn:E.
      * apply Nat.eqb_eq in E. subst. intros [<-|[]]. auto.
      * intros H. apply in_seq in H. lia.
    + rewrite nth_overflow; [intros []|]. now rewrite map_length, seq_length.
  - intros w d Hw Hd Hp. rewrite nth_map_seq by auto. destruct (w =? x) eqn:E.
    + apply Nat.eqb_eq in E. subst. specialize (Hp [x] (path_one g x)). exact Hp.
    + apply in_seq. lia.
Qed.
End Pdom.
