(* Proofs/C03_refs_inv.v — UNBOUNDED invariant for the predecessor bookkeeping of ppci/ir.py
   (Model/IRStore.v, repaired configuration all_fixed).
   REFS s: every Block.references set is duplicate-free and contains exactly the instruction objects
   whose _block_map mentions the block.  Theorems: REFS is preserved by JumpBase.set_target_block and
   change_target (any arguments), by delete / remove_from_block / remove_instruction+delete (jumps:
   all targets popped, also with both targets equal), and — because they do not touch the
   (_block_map, references) view of the state — by every def-use mutator (replace_use, replace_by,
   the attribute setter, Phi.set_incoming / del_incoming, Block.replace_incoming); hence by every
   sequence of operations of the scenario language (block_refs_inv, by fold_left). *)
From PV Require Import Lib.Py Model.IRStore Proofs.C03_store_inv.
From Coq Require Import String.
Open Scope nat_scope.


(* ---------------------------------------------------------------- the invariant *)
(* Block.references (stored) = the jumps whose _block_map mentions the block (derived), for every
   block and every instruction object; every references set is duplicate-free *)
Definition REFS (s : store) : Prop :=
  (forall b, NoDup (get_refs s b)) /\
  (forall b i, In i (get_refs s b) <->
               exists x, get_i s i = Ok x /\ In b (map snd (i_bmap x))).

(* the part of the state REFS talks about *)
Definition bview (s : store) :=
  (map (fun p => (fst p, i_bmap (snd p))) (st_ins s), st_refs s).

Lemma nget_map {A B} (g : A -> B) l i :
  nget i (map (fun p => (fst p, g (snd p))) l) = option_map g (nget i l).
Proof.
  induction l as [|[k v] r IH]; cbn; auto. destruct (Nat.eqb i k); auto.
Qed.
Lemma get_i_nget s i x : get_i s i = Ok x <-> nget i (st_ins s) = Some x.
Proof. unfold get_i. destruct (nget i (st_ins s)); split; congruence. Qed.

Lemma REFS_bview s s' : bview s' = bview s -> REFS s -> REFS s'.
Proof.
  unfold bview. intros E [N L]. injection E as E1 E2.
  assert (G : forall b, get_refs s' b = get_refs s b) by (intro b; unfold get_refs; now rewrite E2).
  assert (B : forall i, option_map i_bmap (nget i (st_ins s')) = option_map i_bmap (nget i (st_ins s))).
  { intro i. pose proof (f_equal (nget i) E1) as Q.
    exact (eq_trans (eq_sym (nget_map i_bmap _ i)) (eq_trans Q (nget_map i_bmap _ i))). }
  split; [intro b; rewrite G; auto|].
  intros b i. rewrite G, L. specialize (B i). split; intros (x & Hx & Hb).
  - apply get_i_nget in Hx. rewrite Hx in B. cbn in B.
    destruct (nget i (st_ins s')) as [x'|] eqn:E; [|discriminate]. injection B as B.
    exists x'. split; [now apply get_i_nget|congruence].
  - apply get_i_nget in Hx. rewrite Hx in B. cbn in B.
    destruct (nget i (st_ins s)) as [x'|] eqn:E; [|discriminate]. injection B as B.
    exists x'. split; [now apply get_i_nget|congruence].
Qed.

Lemma map_nset_same {A B} (g : A -> B) i x x' l :
  nget i l = Some x -> g x' = g x ->
  map (fun p => (fst p, g (snd p))) (nset i x' l) = map (fun p => (fst p, g (snd p))) l.
Proof.
  induction l as [|[k v] r IH]; cbn; [discriminate|].
  destruct (Nat.eqb i k) eqn:E; cbn; intros H1 H2.
  - injection H1 as ->. apply Nat.eqb_eq in E. subst. now rewrite H2.
  - now rewrite IH.
Qed.

Lemma bv_put_i s i x x' : get_i s i = Ok x -> i_bmap x' = i_bmap x ->
  bview (put_i s i x') = bview s.
Proof.
  intros H E. apply get_i_nget in H. unfold bview, put_i. cbn. f_equal.
  now apply (map_nset_same i_bmap i x x').
Qed.

Lemma bv_add_use s i v s' : add_use s i v = Ok s' -> bview s' = bview s.
Proof.
  unfold add_use. intro H. apply bind_ok in H. destruct H as (x & Hx & H). injection H as <-.
  change (bview (put_ub (put_i s i (with_uses x (os_add v (i_uses x)))) v
                        (os_add i (get_ub (put_i s i (with_uses x (os_add v (i_uses x)))) v))))
    with (bview (put_i s i (with_uses x (os_add v (i_uses x))))).
  now apply (bv_put_i s i x).
Qed.
Lemma bv_del_use s i v s' : del_use s i v = Ok s' -> bview s' = bview s.
Proof.
  unfold del_use. intro H. apply bind_ok in H. destruct H as (x & Hx & H).
  apply bind_ok in H. destruct H as (u & Hu & H).
  apply bind_ok in H. destruct H as (ub & Hub & H). injection H as <-.
  change (bview (put_ub (put_i s i (with_uses x u)) v ub)) with (bview (put_i s i (with_uses x u))).
  now apply (bv_put_i s i x).
Qed.


Ltac stepb H a Ha := apply bind_ok in H; destruct H as (a & Ha & H).
Ltac ifb H := match type of H with context [if ?c then _ else _] => destruct c end.

(* the def-use mutators (repaired code) do not touch the references / _block_map view *)
Lemma bv_base s i old new s' : replace_use_base all_fixed s i old new = Ok s' -> bview s' = bview s.
Proof.
  unfold replace_use_base. intro H. stepb H x Hx. cbn in H. ifb H.
  - stepb H s2 H2. rewrite (bv_add_use _ _ _ _ H), (bv_del_use _ _ _ _ H2).
    now apply (bv_put_i s i x).
  - now injection H as <-.
Qed.
Lemma bv_call s i old new s' : replace_use_call all_fixed s i old new = Ok s' -> bview s' = bview s.
Proof.
  unfold replace_use_call. intro H. stepb H s1 Hb. stepb H x Hx. cbn in H.
  rewrite <- (bv_base _ _ _ _ _ Hb). ifb H.
  - stepb H s3 H3. rewrite (bv_add_use _ _ _ _ H). ifb H3.
    + rewrite (bv_del_use _ _ _ _ H3). now apply (bv_put_i s1 i x).
    + injection H3 as <-. now apply (bv_put_i s1 i x).
  - now injection H as <-.
Qed.
Lemma bv_phi s i old new s' : replace_use_phi all_fixed s i old new = Ok s' -> bview s' = bview s.
Proof.
  unfold replace_use_phi. intro H. stepb H x Hx. cbn in H. ifb H; [|discriminate].
  stepb H s2 H2. rewrite (bv_add_use _ _ _ _ H), (bv_del_use _ _ _ _ H2).
  now apply (bv_put_i s i x).
Qed.
Lemma bv_replace_use s i old new s' : replace_use all_fixed s i old new = Ok s' -> bview s' = bview s.
Proof.
  unfold replace_use. intro H. stepb H x Hx.
  destruct (i_kind x); eauto using bv_base, bv_call, bv_phi.
Qed.
Lemma bv_replace_by_loop v new : forall users s s',
  replace_by_loop all_fixed s v new users = Ok s' -> bview s' = bview s.
Proof.
  induction users as [|u r IH]; cbn; intros s s' H.
  - now injection H as <-.
  - stepb H s1 H1. rewrite (IH _ _ H). eapply bv_replace_use; eauto.
Qed.
Lemma bv_set_var s i n v s' : set_var all_fixed s i n v = Ok s' -> bview s' = bview s.
Proof.
  unfold set_var. intro H. stepb H x Hx. cbn in H. stepb H s2 H2.
  rewrite (bv_add_use _ _ _ _ H).
  destruct (sget n (i_vars x)).
  - ifb H2.
    + injection H2 as <-. now apply (bv_put_i s i x).
    + rewrite (bv_del_use _ _ _ _ H2). now apply (bv_put_i s i x).
  - injection H2 as <-. now apply (bv_put_i s i x).
Qed.
Lemma bv_set_incoming s i b v s' : set_incoming all_fixed s i b v = Ok s' -> bview s' = bview s.
Proof.
  unfold set_incoming. intro H. stepb H x Hx. cbn in H. stepb H s2 H2.
  rewrite (bv_add_use _ _ _ _ H).
  destruct (nget b (i_inputs x)).
  - ifb H2.
    + injection H2 as <-. now apply (bv_put_i s i x).
    + rewrite (bv_del_use _ _ _ _ H2). now apply (bv_put_i s i x).
  - injection H2 as <-. now apply (bv_put_i s i x).
Qed.
Lemma bv_del_incoming s i b s' : del_incoming all_fixed s i b = Ok s' -> bview s' = bview s.
Proof.
  unfold del_incoming. intro H. stepb H x Hx. destruct (nget b (i_inputs x)); [|discriminate].
  cbn in H. ifb H.
  - injection H as <-. now apply (bv_put_i s i x).
  - rewrite (bv_del_use _ _ _ _ H). now apply (bv_put_i s i x).
Qed.
Lemma bv_set_incoming_all i v : forall bs s s',
  set_incoming_all all_fixed s i v bs = Ok s' -> bview s' = bview s.
Proof.
  induction bs as [|b r IH]; cbn; intros s s' H.
  - now injection H as <-.
  - stepb H s1 H1. rewrite (IH _ _ H). eapply bv_set_incoming; eauto.
Qed.
Lemma bv_replace_incoming_loop b news : forall phis s s',
  replace_incoming_loop all_fixed s b news phis = Ok s' -> bview s' = bview s.
Proof.
  induction phis as [|p r IH]; cbn; intros s s' H.
  - now injection H as <-.
  - stepb H x Hx. destruct (nget b (i_inputs x)); [|discriminate].
    stepb H s1 H1. stepb H s2 H2. rewrite (IH _ _ H), (bv_set_incoming_all _ _ _ _ _ H2).
    eapply bv_del_incoming; eauto.
Qed.
Lemma bv_del_uses i : forall vs s s', del_uses s i vs = Ok s' -> bview s' = bview s.
Proof.
  induction vs as [|v r IH]; cbn; intros s s' H.
  - now injection H as <-.
  - stepb H s1 H1. rewrite (IH _ _ H). eapply bv_del_use; eauto.
Qed.
Lemma bv_remove_instruction s i s' : remove_instruction s i = Ok s' -> bview s' = bview s.
Proof.
  unfold remove_instruction. intro H. stepb H x Hx. destruct (i_block x); [|discriminate].
  ifb H; [|discriminate]. injection H as <-.
  change (bview (put_blk (put_i s i (with_block x None)) o (remove1 i (get_blk s o))))
    with (bview (put_i s i (with_block x None))).
  now apply (bv_put_i s i x).
Qed.


Fixpoint sdel {A} (k : string) (l : list (string * A)) : list (string * A) :=
  match l with [] => [] | (k', v) :: r => if String.eqb k k' then r else (k', v) :: sdel k r end.
Lemma snd_ssplit {A} n (l : list (string * A)) w :
  In w (map snd l) <-> sget n l = Some w \/ In w (map snd (sdel n l)).
Proof.
  induction l as [|[k v] r IH]; cbn; [intuition discriminate|].
  destruct (String.eqb n k); cbn; [intuition congruence|]. rewrite IH. tauto.
Qed.
Lemma snd_sset {A} n (v : A) l w :
  In w (map snd (sset n v l)) <-> w = v \/ In w (map snd (sdel n l)).
Proof.
  induction l as [|[k v'] r IH]; cbn; [intuition|].
  destruct (String.eqb n k); cbn; [intuition|]. rewrite IH. tauto.
Qed.
Lemma sdel_none {A} n (l : list (string * A)) : sget n l = None -> sdel n l = l.
Proof.
  induction l as [|[k v] r IH]; cbn; auto. destruct (String.eqb n k); [discriminate|].
  intro H. now rewrite IH.
Qed.
Lemma count_n_0 x l : count_n x l = 0 <-> ~ In x l.
Proof.
  unfold count_n. induction l as [|y r IH]; cbn; [tauto|].
  destruct (Nat.eqb x y) eqn:E; cbn.
  - apply Nat.eqb_eq in E. subst. split; [discriminate|]. intro H. exfalso. apply H. now left.
  - apply Nat.eqb_neq in E. rewrite IH. intuition congruence.
Qed.
Lemma count_ssplit n (l : list (string * oid)) o x : sget n l = Some o ->
  count_n x (map snd l) = (if Nat.eqb x o then 1 else 0) + count_n x (map snd (sdel n l)).
Proof.
  unfold count_n. induction l as [|[k v] r IH]; cbn; [discriminate|].
  destruct (String.eqb n k); cbn.
  - intro H. injection H as ->. destruct (Nat.eqb x o); reflexivity.
  - intro H. specialize (IH H). destruct (Nat.eqb x v); cbn; rewrite IH; destruct (Nat.eqb x o); cbn; lia.
Qed.

Lemma get_refs_put_refs s b l b' :
  get_refs (put_refs s b l) b' = if Nat.eqb b' b then l else get_refs s b'.
Proof. unfold get_refs, put_refs. cbn. rewrite nget_nset. destruct (Nat.eqb b' b); reflexivity. Qed.
Lemma get_i_put_refs s b l j : get_i (put_refs s b l) j = get_i s j.
Proof. reflexivity. Qed.

(* closing lemma for operations that change the targets of ONE jump i *)
Lemma REFS_close s s' i x x' : REFS s -> get_i s i = Ok x ->
  (forall j, get_i s' j = if Nat.eqb j i then Ok x' else get_i s j) ->
  (forall b, NoDup (get_refs s' b)) ->
  (forall b j, j <> i -> (In j (get_refs s' b) <-> In j (get_refs s b))) ->
  (forall b, In i (get_refs s' b) <-> In b (map snd (i_bmap x'))) ->
  REFS s'.
Proof.
  intros [N L] Hx G N' O I. split; auto. intros b j. rewrite G.
  destruct (Nat.eqb j i) eqn:E.
  - apply Nat.eqb_eq in E. subst j. rewrite I. split; [eauto|]. intros (y & Hy & Hb). congruence.
  - apply Nat.eqb_neq in E. rewrite O, L; auto. reflexivity.
Qed.

(* ---- JumpBase.set_target_block *)
Theorem set_target_block_REFS s i name b s' :
  REFS s -> set_target_block s i name b = Ok s' -> REFS s'.
Proof.
  intros HR H. pose proof HR as [N L]. unfold set_target_block in H.
  apply bind_ok in H. destruct H as (x & Hx & H).
  apply bind_ok in H. destruct H as (s1 & H1 & H). injection H as <-.
  assert (Li : forall b', In i (get_refs s b') <-> In b' (map snd (i_bmap x))).
  { intro b'. rewrite L. split; [intros (y & Hy & Hb); congruence | eauto]. }
  (* the state after the optional removal from the old target *)
  assert (S1 : get_i s1 i = Ok x /\ (forall j, get_i s1 j = get_i s j) /\
               (forall b', NoDup (get_refs s1 b')) /\
               (forall b' j, j <> i -> (In j (get_refs s1 b') <-> In j (get_refs s b'))) /\
               (forall b', In i (get_refs s1 b') <-> In b' (map snd (sdel name (i_bmap x))))).
  { destruct (sget name (i_bmap x)) as [old|] eqn:E.
    - pose proof (count_ssplit name (i_bmap x) old old E) as C. rewrite Nat.eqb_refl in C.
      destruct (Nat.eqb (count_n old (map snd (i_bmap x))) 1) eqn:E1.
      + apply Nat.eqb_eq in E1. apply bind_ok in H1. destruct H1 as (r & Hr & H1).
        apply os_remove_ok in Hr. destruct Hr as [Hr ->]. injection H1 as <-.
        assert (C0 : ~ In old (map snd (sdel name (i_bmap x)))) by (apply count_n_0; lia).
        repeat split; auto.
        * intro b'. rewrite get_refs_put_refs. destruct (Nat.eqb b' old); auto. now apply NoDup_removen.
        * rewrite get_refs_put_refs. destruct (Nat.eqb b' old) eqn:E2; auto.
          apply Nat.eqb_eq in E2. subst. rewrite In_removen. tauto.
        * rewrite get_refs_put_refs. destruct (Nat.eqb b' old) eqn:E2; auto.
          apply Nat.eqb_eq in E2. subst. rewrite In_removen. tauto.
        * rewrite get_refs_put_refs. destruct (Nat.eqb b' old) eqn:E2.
          -- apply Nat.eqb_eq in E2. subst. rewrite In_removen. tauto.
          -- apply Nat.eqb_neq in E2. rewrite Li, (snd_ssplit name (i_bmap x) b'), E. intuition congruence.
        * rewrite get_refs_put_refs. destruct (Nat.eqb b' old) eqn:E2.
          -- apply Nat.eqb_eq in E2. subst. tauto.
          -- rewrite Li, (snd_ssplit name (i_bmap x) b'), E. tauto.
      + apply Nat.eqb_neq in E1. injection H1 as <-.
        assert (C1 : In old (map snd (sdel name (i_bmap x)))).
        { destruct (count_n old (map snd (sdel name (i_bmap x)))) eqn:Z; [lia|].
          destruct (in_dec Nat.eq_dec old (map snd (sdel name (i_bmap x)))) as [I|I]; auto.
          apply count_n_0 in I. lia. }
        repeat split; auto; try tauto.
        * rewrite Li, (snd_ssplit name (i_bmap x) b'), E. intros [Q|Q]; auto. injection Q as <-. auto.
        * rewrite Li, (snd_ssplit name (i_bmap x) b'), E. tauto.
    - injection H1 as <-. repeat split; auto; try tauto.
      + rewrite Li, (sdel_none _ _ E). tauto.
      + rewrite Li, (sdel_none _ _ E). tauto. }
  destruct S1 as (G1 & GA & N1 & O1 & I1).
  set (x' := with_bmap x (sset name b (i_bmap x))).
  eapply (REFS_close s _ i x x'); eauto.
  - intro j. rewrite get_i_put_refs, get_i_put_i. destruct (Nat.eqb j i); auto.
  - intro b'. rewrite get_refs_put_refs. destruct (Nat.eqb b' b); [apply NoDup_os_add|]; apply N1.
  - intros b' j Hj. rewrite get_refs_put_refs. cbn [get_refs put_i st_refs].
    change (get_refs (put_i s1 i x') b) with (get_refs s1 b).
    change (get_refs (put_i s1 i x') b') with (get_refs s1 b').
    destruct (Nat.eqb b' b) eqn:E2.
    + apply Nat.eqb_eq in E2. subst. rewrite In_os_add, O1; auto. tauto.
    + apply O1; auto.
  - intro b'. rewrite get_refs_put_refs.
    change (get_refs (put_i s1 i x') b) with (get_refs s1 b).
    change (get_refs (put_i s1 i x') b') with (get_refs s1 b').
    cbn [i_bmap x' with_bmap]. rewrite snd_sset.
    destruct (Nat.eqb b' b) eqn:E2.
    + apply Nat.eqb_eq in E2. subst. rewrite In_os_add. tauto.
    + apply Nat.eqb_neq in E2. rewrite I1. tauto.
Qed.


Lemma change_target_loop_REFS i old new : forall names s s',
  REFS s -> change_target_loop s i old new names = Ok s' -> REFS s'.
Proof.
  induction names as [|n r IH]; cbn; intros s s' HR H.
  - now injection H as <-.
  - apply bind_ok in H. destruct H as (x & Hx & H).
    destruct (sget n (i_bmap x)); [|discriminate]. destruct (Nat.eqb o old).
    + apply bind_ok in H. destruct H as (s1 & H1 & H). eapply IH; [|exact H].
      eapply set_target_block_REFS; eauto.
    + eapply IH; eauto.
Qed.
Theorem change_target_REFS s i old new s' : REFS s -> change_target s i old new = Ok s' -> REFS s'.
Proof.
  intros HR H. unfold change_target in H. apply bind_ok in H. destruct H as (x & Hx & H).
  eapply change_target_loop_REFS; eauto.
Qed.

Lemma pop_eq i : forall l s, pop_targets all_fixed s i l = Ok (discard_targets s i l).
Proof. induction l as [|b r IH]; cbn; intro s; auto. Qed.

Lemma discard_spec i : forall l s,
  (forall j, get_i (discard_targets s i l) j = get_i s j) /\
  (forall b, NoDup (get_refs s b) -> NoDup (get_refs (discard_targets s i l) b)) /\
  (forall b j, In j (get_refs (discard_targets s i l) b) <->
               In j (get_refs s b) /\ (j <> i \/ ~ In b l)).
Proof.
  induction l as [|b0 r IH]; cbn; intro s.
  - split; [|split]; auto. intros; tauto.
  - destruct (IH (put_refs s b0 (os_discard i (get_refs s b0)))) as (A & B & C).
    split; [|split].
    + intro j. rewrite A. reflexivity.
    + intros b Hb. apply B. rewrite get_refs_put_refs. destruct (Nat.eqb b b0) eqn:E; auto.
      apply Nat.eqb_eq in E. subst. now apply NoDup_removen.
    + intros b j. rewrite C, get_refs_put_refs. destruct (Nat.eqb b b0) eqn:E.
      * apply Nat.eqb_eq in E. subst. unfold os_discard. rewrite In_removen. tauto.
      * apply Nat.eqb_neq in E. intuition.
Qed.

(* pop all targets of jump i and clear its _block_map *)
Lemma clear_targets_REFS s i x :
  REFS s -> get_i s i = Ok x ->
  REFS (put_i (discard_targets s i (rev (map snd (i_bmap x)))) i (with_bmap x [])).
Proof.
  intros HR Hx. pose proof HR as [N L].
  destruct (discard_spec i (rev (map snd (i_bmap x))) s) as (A & B & C).
  eapply (REFS_close s _ i x (with_bmap x [])); [exact HR|exact Hx| | | |].
  - intro j. rewrite get_i_put_i. destruct (Nat.eqb j i); auto.
  - intro b. change (get_refs (put_i ?s0 i ?y) b) with (get_refs s0 b). auto.
  - intros b j Hj. change (get_refs (put_i ?s0 i ?y) b) with (get_refs s0 b). rewrite C. tauto.
  - intro b. change (get_refs (put_i ?s0 i ?y) b) with (get_refs s0 b). rewrite C. cbn.
    split; [|tauto]. intros [Hi [Hn|Hn]]; [congruence|]. apply Hn. apply -> in_rev.
    apply L in Hi. destruct Hi as (y & Hy & Hb). congruence.
Qed.

Lemma bv_delete_base s i s' : delete_base s i = Ok s' -> bview s' = bview s.
Proof.
  unfold delete_base. intro H. apply bind_ok in H. destruct H as (x & Hx & H).
  eapply bv_del_uses; eauto.
Qed.

(* ---- Instruction.delete / JumpBase.delete (repaired) *)
Theorem delete_REFS s i s' : REFS s -> delete all_fixed s i = Ok s' -> REFS s'.
Proof.
  intros HR H. unfold delete in H. apply bind_ok in H. destruct H as (x & Hx & H).
  destruct (i_kind x);
    try exact (REFS_bview s s' (bv_delete_base _ _ _ H) HR).
  rewrite pop_eq in H. cbn in H.
  destruct (discard_spec i (rev (map snd (i_bmap x))) s) as (A & _). rewrite A, Hx in H. cbn in H.
  exact (REFS_bview _ s' (bv_delete_base _ _ _ H) (clear_targets_REFS s i x HR Hx)).
Qed.

(* ---- Instruction.remove_from_block / JumpBase.remove_from_block (repaired) *)
Theorem remove_from_block_REFS s i s' :
  REFS s -> remove_from_block all_fixed s i = Ok s' -> REFS s'.
Proof.
  intros HR H. unfold remove_from_block in H. apply bind_ok in H. destruct H as (x0 & Hx0 & H).
  cbv zeta in H.
  set (s0 := match i_kind x0 with KJump => _ | _ => s end) in H.
  assert (R0 : REFS s0).
  { unfold s0. destruct (i_kind x0); auto. cbn. now apply clear_targets_REFS. }
  clearbody s0.
  apply bind_ok in H. destruct H as (x & Hx & H).
  apply bind_ok in H. destruct H as (s1 & H1 & H).
  apply bind_ok in H. destruct H as (x1 & Hx1 & H).
  destruct (i_block x1); [|discriminate].
  match type of H with context [if ?c then _ else _] => destruct c end; [|discriminate].
  injection H as <-.
  apply (REFS_bview s0); [|exact R0].
  change (bview (put_blk (put_i s1 i (with_block x1 None)) o (remove1 i (get_blk s1 o))))
    with (bview (put_i s1 i (with_block x1 None))).
  rewrite (bv_put_i s1 i x1); auto. eapply bv_del_uses; eauto.
Qed.

Theorem detach_delete_REFS s i s' : REFS s -> detach_delete all_fixed s i = Ok s' -> REFS s'.
Proof.
  intros HR H. unfold detach_delete in H. apply bind_ok in H. destruct H as (s1 & H1 & H).
  eapply delete_REFS; [|exact H]. exact (REFS_bview s s1 (bv_remove_instruction _ _ _ H1) HR).
Qed.

(* ---- every operation of the scenario language, and every sequence of them *)
Theorem run_op_REFS s o s' : REFS s -> run_op all_fixed s o = Ok s' -> REFS s'.
Proof.
  intros HR H. destruct o; cbn in H.
  - eapply (REFS_bview s s'); [eapply bv_replace_use; exact H|exact HR].
  - eapply (REFS_bview s s'); [eapply bv_replace_by_loop; exact H|exact HR].
  - eapply (REFS_bview s s'); [eapply bv_set_var; exact H|exact HR].
  - eapply (REFS_bview s s'); [eapply bv_set_incoming; exact H|exact HR].
  - eapply (REFS_bview s s'); [eapply bv_del_incoming; exact H|exact HR].
  - eapply (REFS_bview s s'); [eapply bv_replace_incoming_loop; exact H|exact HR].
  - eapply set_target_block_REFS; eauto.
  - eapply change_target_REFS; eauto.
  - eapply detach_delete_REFS; eauto.
  - eapply remove_from_block_REFS; eauto.
Qed.

Definition run_ops (fx : fixes) (s : store) (os : list op) : result store :=
  fold_left (fun r o => bind r (fun s1 => run_op fx s1 o)) os (Ok s).

Lemma fold_err {A} (g : result store -> A -> result store) (Hg : forall a e, g (Internal e) a = Internal e)
      (Hd : forall a c, g (Diag c) a = Diag c) (Hf : forall a, g OutOfFuel a = OutOfFuel) :
  forall l r s', fold_left g l r = Ok s' -> exists s0, r = Ok s0.
Proof.
  induction l as [|a l IH]; cbn; intros r s' H; [eauto|].
  destruct r; eauto; apply IH in H; destruct H as [s0 H];
    rewrite ?Hg, ?Hd, ?Hf in H; discriminate.
Qed.

Theorem block_refs_inv : forall os s s',
  REFS s -> run_ops all_fixed s os = Ok s' -> REFS s'.
Proof.
  unfold run_ops. induction os as [|o r IH]; cbn; intros s s' HR H.
  - now injection H as <-.
  - destruct (run_op all_fixed s o) as [s1| | |] eqn:E.
    + eapply IH; [|exact H]. eapply run_op_REFS; eauto.
    + apply fold_err in H; auto. destruct H; discriminate.
    + apply fold_err in H; auto. destruct H; discriminate.
    + apply fold_err in H; auto. destruct H; discriminate.
Qed.

Lemma REFS_empty : REFS empty_store.
Proof.
  split; [intro b; constructor|]. intros b i. cbn. split; [tauto|].
  intros (x & H & _). discriminate H.
Qed.
