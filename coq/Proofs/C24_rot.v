(* Proofs/C24_rot.v — the repaired rol/ror lowering is exact (property C24). *)
From PV Require Import Lib.Py Lib.Tac Spec.IRSemArith Gen.ir2py_runtime Model.Ir2Py Model.Ir2PyRot Proofs.C24_ir2py.
Open Scope Z_scope.

Lemma wrap_congr_mod t x y : x mod 2 ^ bits t = y mod 2 ^ bits t -> wrap t x = wrap t y.
Proof. intros H. unfold wrap. now rewrite H. Qed.

Lemma rot_exact op t a b v :
  0 < bits t -> (op = Rol \/ op = Ror) -> in_range t a -> in_range t b ->
  sem_binop op t a b = Some v -> py_rot op t a b = Ok v.
Proof.
  intros Hb Hop Ha Hb' Hs.
  assert (Et : mkity (bits t) (signed t) = t) by (destruct t; reflexivity).
  assert (M : 0 < 2 ^ bits t) by (apply Z.pow_pos_nonneg; lia).
  set (u := a mod 2 ^ bits t). pose proof (Z.mod_pos_bound a (2 ^ bits t) M) as Hu. fold u in Hu.
  destruct Hop as [-> | ->]; cbn [sem_binop] in Hs;
    destruct (shift_defined t b) eqn:D; try discriminate; injection Hs as <-;
    unfold shift_defined in D; unfold py_rot.
  - (* rol *)
    unfold irol_m. guard_ok. rewrite Z.mod_small by lia. guard_ok. rewrite shiftl1_pow by lia.
    guard_ok. guard_ok. guard_ok. cbn [bind]. fold u.
    rewrite correct_wrap, Et by lia. f_equal.
    rewrite shiftr_div by lia. rewrite Z.lor_comm.
    assert (P : 0 < 2 ^ (bits t - b)) by (apply Z.pow_pos_nonneg; lia).
    assert (Hh : 0 <= u / 2 ^ (bits t - b) < 2 ^ b).
    { split; [apply Z.div_pos; lia|]. apply Z.div_lt_upper_bound; [lia|].
      rewrite <- Z.pow_add_r by lia. replace (bits t - b + b) with (bits t) by lia. lia. }
    rewrite lor_disjoint_add by lia. apply wrap_congr_mod. unfold rotl_bits. fold u.
    rewrite Z.add_comm. now rewrite Z.add_mod_idemp_l by lia.
  - (* ror *)
    unfold iror_m. guard_ok. rewrite Z.mod_small by lia. guard_ok. rewrite shiftl1_pow by lia.
    guard_ok. guard_ok. guard_ok. cbn [bind]. fold u.
    rewrite correct_wrap, Et by lia. f_equal.
    rewrite shiftr_div by lia.
    assert (P : 0 < 2 ^ b) by (apply Z.pow_pos_nonneg; lia).
    assert (Hh : 0 <= u / 2 ^ b < 2 ^ (bits t - b)).
    { split; [apply Z.div_pos; lia|]. apply Z.div_lt_upper_bound; [lia|].
      rewrite <- Z.pow_add_r by lia. replace (b + (bits t - b)) with (bits t) by lia. lia. }
    rewrite lor_disjoint_add by lia. apply wrap_congr_mod. unfold rotl_bits. fold u.
    destruct (Z.eq_dec b 0) as [->|Hnz].
    + rewrite Z.sub_0_r, Z.mod_same by lia. rewrite Z.sub_0_r. change (2 ^ 0) with 1.
      rewrite Z.div_1_r, Z.mul_1_r. rewrite (Z.div_small u) by lia. rewrite Z.add_0_r.
      rewrite Z.mod_mod by lia. now rewrite Z.mod_add by lia.
    + rewrite (Z.mod_small (bits t - b)) by lia. replace (bits t - (bits t - b)) with b by lia.
      rewrite Z.add_comm. now rewrite Z.add_mod_idemp_l by lia.
Qed.

Lemma rot_nonvacuous : sem_binop Rol u8 129 1 = Some 3 /\ py_rot Rol u8 129 1 = Ok 3 /\
                       sem_binop Ror i8 (-127) 1 = Some (-64) /\ py_rot Ror i8 (-127) 1 = Ok (-64).
Proof. repeat split; vm_compute; reflexivity. Qed.
