(* Proofs/C23_data.v — placement of initialised globals in the wasm memory image (C23). *)
From Coq Require Import ZArith List Bool Lia String.
Import ListNotations.
From PV Require Import Lib.Py Lib.Tac.
From PV Require Import Model.Ir2WasmOps.
Open Scope Z_scope.

Definition zlen (d : list Z) : Z := Z.of_nat (List.length d).

(* the initial contents of a global: its bytes, zero-padded to its size *)
Definition init_byte (v : gvar) (j : Z) : Z :=
  match gv_init v with
  | Some d => nth (Z.to_nat j) d 0
  | None => 0
  end.

Definition wf_gvar (v : gvar) : Prop :=
  0 <= gv_amount v /\ match gv_init v with Some d => zlen d <= gv_amount v | None => True end.

Lemma seg_byte_in : forall d base j, 0 <= j < zlen d ->
  seg_byte d base (base + j) = Some (nth (Z.to_nat j) d 0).
Proof.
  unfold zlen. induction d as [|x r IH]; intros base j Hj; simpl in *.
  - lia.
  - destruct (base + j =? base) eqn:E.
    + assert (j = 0) by lia. subst j. reflexivity.
    + replace (base + j) with (base + 1 + (j - 1)) by lia.
      rewrite IH by lia.
      replace (Z.to_nat j) with (S (Z.to_nat (j - 1))) by lia. reflexivity.
Qed.

Lemma seg_byte_out : forall d base addr, addr < base \/ base + zlen d <= addr ->
  seg_byte d base addr = None.
Proof.
  unfold zlen. induction d as [|x r IH]; intros base addr H; simpl in *.
  - reflexivity.
  - destruct (addr =? base) eqn:E; [lia|]. apply IH. lia.
Qed.

Lemma mem_lookup_cons : forall base d r addr,
  mem_lookup ((base, d) :: r) addr =
  match mem_lookup r addr with Some x => Some x | None => seg_byte d base addr end.
Proof. reflexivity. Qed.

Lemma nth_beyond : forall (d : list Z) j, zlen d <= j -> nth (Z.to_nat j) d 0 = 0.
Proof. intros. apply nth_overflow. unfold zlen in H. lia. Qed.

Definition total (vs : list gvar) : Z := fold_right (fun v acc => gv_amount v + acc) 0 vs.

Lemma place_spec : forall vs start labs segs e,
  Forall wf_gvar vs -> place start vs = (labs, segs, e) ->
  e = start + total vs /\ start <= e /\
  (forall addr, addr < start \/ e <= addr -> mem_lookup segs addr = None) /\
  (forall i v, nth_error vs i = Some v ->
     exists a, nth_error labs i = Some (gv_name v, a) /\
               a = start + total (firstn i vs) /\ start <= a /\ a + gv_amount v <= e /\
               forall j, 0 <= j < gv_amount v -> mem_image segs (a + j) = init_byte v j).
Proof.
  induction vs as [|v r IH]; intros start labs segs e W P; simpl in P.
  - inversion P; subst. simpl. repeat split; try lia; auto.
    intros [|i] v H; discriminate.
  - inversion W as [|? ? Wv Wr]; subst.
    destruct (place (start + gv_amount v) r) as [[labs' segs'] e'] eqn:Pr.
    inversion P; subst labs segs e; clear P.
    destruct (IH _ _ _ _ Wr Pr) as [He [Hle [Hout Hin]]].
    destruct Wv as [Wa Wd].
    assert (Hout' : forall addr, addr < start \/ e' <= addr ->
              mem_lookup match gv_init v with
                         | Some d => match d with [] => segs' | _ => (start, d) :: segs' end
                         | None => segs' end addr = None).
    { intros addr Ha. destruct (gv_init v) as [d|]; [|apply Hout; lia].
      destruct d as [|x d']; [apply Hout; lia|].
      rewrite mem_lookup_cons. rewrite Hout by lia. apply seg_byte_out. lia. }
    simpl total. repeat split; try lia; auto.
    intros [|i] v0 H; simpl in H.
    + inversion H; subst v0. exists start. simpl. repeat split; try lia.
      intros j Hj. unfold mem_image, init_byte.
      destruct (gv_init v) as [d|].
      * destruct d as [|x d'].
        { rewrite Hout by lia. destruct (Z.to_nat j); reflexivity. }
        rewrite mem_lookup_cons. rewrite Hout by lia.
        destruct (Z_lt_le_dec j (zlen (x :: d'))).
        -- rewrite seg_byte_in by lia. reflexivity.
        -- rewrite seg_byte_out by lia. rewrite nth_beyond by lia. reflexivity.
      * rewrite Hout by lia. reflexivity.
    + destruct (Hin i v0 H) as [a [Hl [Ha [Hs [He' Hm]]]]].
      exists a. simpl. repeat split; try lia; auto.
      intros j Hj. rewrite <- (Hm j Hj). unfold mem_image.
      destruct (gv_init v) as [d|]; [|reflexivity].
      destruct d as [|x d']; [reflexivity|].
      rewrite mem_lookup_cons.
      destruct (mem_lookup segs' (a + j)); [reflexivity|].
      rewrite seg_byte_out by lia. reflexivity.
Qed.

(* addresses are increasing and the areas disjoint *)
Lemma total_firstn_mono : forall vs i k v, Forall wf_gvar vs -> nth_error vs i = Some v ->
  (i < k)%nat -> total (firstn i vs) + gv_amount v <= total (firstn k vs).
Proof.
  induction vs as [|x r IH]; intros i k v W H L.
  - destruct i; discriminate.
  - inversion W as [|? ? Wx Wr]; subst. destruct k; [lia|].
    destruct i; simpl in *.
    + inversion H; subst.
      assert (0 <= total (firstn k r)).
      { clear - Wr. revert k. induction Wr; intros [|k]; simpl; try lia.
        destruct H. specialize (IHWr k). lia. }
      lia.
    + specialize (IH i k v Wr H ltac:(lia)). lia.
Qed.

Theorem data_segments : forall vs labs segs e,
  Forall wf_gvar vs -> place STACKSIZE vs = (labs, segs, e) ->
  forall i v, nth_error vs i = Some v ->
  exists a, nth_error labs i = Some (gv_name v, a) /\ STACKSIZE <= a /\ a + gv_amount v <= e /\
    (forall j, 0 <= j < gv_amount v -> mem_image segs (a + j) = init_byte v j) /\
    (forall i' v' a', (i < i')%nat -> nth_error vs i' = Some v' ->
        nth_error labs i' = Some (gv_name v', a') -> a + gv_amount v <= a').
Proof.
  intros vs labs segs e W P i v H.
  destruct (place_spec vs STACKSIZE labs segs e W P) as [He [Hle [Hout Hin]]].
  destruct (Hin i v H) as [a [Hl [Ha [Hs [He' Hm]]]]].
  exists a. repeat split; auto.
  intros i' v' a' L H' Hl'.
  destruct (Hin i' v' H') as [a2 [Hl2 [Ha2 _]]].
  rewrite Hl2 in Hl'. inversion Hl'; subst a'.
  pose proof (total_firstn_mono vs i i' v W H L). lia.
Qed.
