(* Proofs/C31_dfa.v — the worklist DFA construction (compiler.compile) and the table-driven run
   (scanner.pick_transition): every state is a regex whose language is the residual of the word
   read so far. *)
From PV Require Import Lib.Py Lib.Tac Spec.RegLangSpec Model.Regex Proofs.C31_sets Proofs.C31_regex.
Open Scope Z_scope.

(* ---- all symbol sets have well-formed ranges (IntegerSet's constructor guarantees it) *)
Fixpoint re_valid (r : re) : Prop :=
  match r with
  | Eps => True
  | Sym s => valid s
  | Star a => re_valid a
  | Cat a b => re_valid a /\ re_valid b
  | Or a b => re_valid a /\ re_valid b
  | And a b => re_valid a /\ re_valid b
  end.

Lemma NULL_valid : re_valid NULL.
Proof. constructor. Qed.

Lemma concatenate_valid a b : re_valid a -> re_valid b -> re_valid (concatenate a b).
Proof.
  intros Ha Hb. unfold concatenate.
  destruct (re_eqb a NULL); [apply NULL_valid|].
  destruct (re_eqb b NULL); [apply NULL_valid|].
  destruct (re_eqb a Eps); [assumption|].
  destruct (re_eqb b Eps); [assumption|]. split; assumption.
Qed.

Lemma logical_or_valid a b : re_valid a -> re_valid b -> re_valid (logical_or a b).
Proof.
  intros Ha Hb. destruct (logical_or_cases a b) as [(s & t & -> & -> & ->)| ->].
  - cbn. apply mk_iset_valid.
  - unfold lor_generic. destruct (re_eqb a b); [assumption|].
    destruct (re_eqb a NULL); [assumption|]. destruct (re_eqb b NULL); [assumption|]. split; assumption.
Qed.

Lemma logical_and_valid a b : re_valid a -> re_valid b -> re_valid (logical_and a b).
Proof.
  intros Ha Hb. unfold logical_and. destruct (re_eqb a b); [assumption|].
  destruct (re_eqb a NULL); [assumption|]. destruct (re_eqb b NULL); [assumption|]. split; assumption.
Qed.

Lemma nu_valid r : re_valid (nu r).
Proof. destruct (nu_spec r) as [[-> _]|[-> _]]; [exact I|apply NULL_valid]. Qed.

Lemma deriv_valid r c : re_valid r -> re_valid (deriv r c).
Proof.
  induction r; cbn [deriv re_valid]; intros H.
  - apply NULL_valid.
  - destruct (contains s c); [exact I|apply NULL_valid].
  - apply concatenate_valid; auto.
  - destruct H. apply logical_or_valid; apply concatenate_valid; auto using nu_valid.
  - destruct H. apply logical_or_valid; auto.
  - destruct H. apply logical_and_valid; auto.
Qed.

Lemma sigma_valid : valid SIGMA_SET.
Proof. constructor; [cbn; lia|constructor]. Qed.

Lemma product_valid A B K : In K (product_intersections A B) -> valid K.
Proof.
  intros H. apply In_product_intersections in H. destruct H as (_ & a & b & _ & _ & ->).
  apply mk_iset_valid.
Qed.

Lemma classes_valid r : re_valid r -> forall K, In K (classes r) -> valid K.
Proof.
  induction r; cbn [classes re_valid]; intros H K HK.
  - destruct HK as [<-|[]]. apply sigma_valid.
  - destruct HK as [<-|[<-|[]]]; [assumption|apply mk_iset_valid].
  - auto.
  - destruct H. destruct (nullable r1); [eapply product_valid; eauto|auto].
  - eapply product_valid; eauto.
  - eapply product_valid; eauto.
Qed.

(* ---- list helpers *)
Lemma upd_nth_length {A} (f : A -> A) l : forall n, length (upd_nth n f l) = length l.
Proof. induction l; intros [|n]; cbn; auto. Qed.

Lemma nth_error_upd_nth_eq {A} (f : A -> A) l : forall n,
  nth_error (upd_nth n f l) n = option_map f (nth_error l n).
Proof. induction l; intros [|n]; cbn; auto. Qed.

Lemma nth_error_upd_nth_neq {A} (f : A -> A) l : forall n i, i <> n ->
  nth_error (upd_nth n f l) i = nth_error l i.
Proof.
  induction l; intros [|n] [|i] H; cbn; auto; try congruence.
Qed.

Lemma insert_tr_In x p l : In x (insert_tr p l) <-> x = p \/ In x l.
Proof.
  induction l as [|q l IH]; cbn.
  - intuition.
  - destruct (tr_leb p q); cbn; rewrite ?IH; intuition.
Qed.

Lemma sort_tr_In x l : In x (sort_tr l) <-> In x l.
Proof.
  induction l as [|p l IH]; cbn; [tauto|]. rewrite insert_tr_In, IH. intuition.
Qed.

Lemma index_of_spec x l : forall i m, index_of x l i = Some m ->
  (i <= m)%nat /\ nth_error l (m - i) = Some x.
Proof.
  induction l as [|y l IH]; intros i m; cbn; [discriminate|].
  destruct (re_eqb x y) eqn:E.
  - intros H. inversion H; subst. apply re_eqb_eq in E. subst.
    split; [lia|]. now replace (m - m)%nat with O by lia.
  - intros H. apply IH in H. destruct H as [H1 H2]. split; [lia|].
    replace (m - i)%nat with (S (m - S i)) by lia. exact H2.
Qed.

Lemma index_of_0 x l m : index_of x l O = Some m -> nth_error l m = Some x.
Proof. intros H. apply index_of_spec in H. destruct H as [_ H]. now rewrite Nat.sub_0_r in H. Qed.

(* ---- the invariant of the construction *)
Definition tr_ok (states : list re) (si : re) (t : tr) : Prop :=
  tr_first t <= tr_last t /\
  forall c, tr_first t <= c <= tr_last t -> nth_error states (tr_next t) = Some (deriv si c).

Definition Inv (states : list re) (trs : list (list tr)) : Prop :=
  length trs = length states /\ Forall re_valid states /\
  forall i ts si, nth_error trs i = Some ts -> nth_error states i = Some si ->
                  Forall (tr_ok states si) ts.

Lemma nth_error_app_some {A} (l l' : list A) i x :
  nth_error l i = Some x -> nth_error (l ++ l') i = Some x.
Proof.
  intros H. rewrite nth_error_app1; [assumption|]. apply nth_error_Some. congruence.
Qed.

Lemma tr_ok_mono states l si t : tr_ok states si t -> tr_ok (states ++ l) si t.
Proof. intros [H1 H2]. split; auto. intros c Hc. apply nth_error_app_some. auto. Qed.

(* one derivative class *)
Lemma class_step_inv state n K states trs stack states' trs' stack' :
  Inv states trs -> nth_error states n = Some state -> In K (classes state) ->
  class_step state n (states, trs, stack) K = (states', trs', stack') ->
  Inv states' trs' /\ exists l, states' = states ++ l.
Proof.
  intros (Hlen & Hval & Htr) Hn HK. unfold class_step.
  destruct K as [|r0 K0] eqn:EK.
  - intros H. inversion H; subst. split; [repeat split; auto|exists []; now rewrite app_nil_r].
  - rewrite <- EK in *.
    assert (Hst : re_valid state) by (rewrite Forall_forall in Hval; eapply Hval, nth_error_In; eauto).
    assert (HvK : valid K) by (eapply classes_valid; eauto).
    assert (Hf0 : in_ranges (fst r0) K).
    { rewrite EK. apply in_ranges_cons. left. rewrite EK in HvK. inversion HvK; subst.
      unfold inr. lia. }
    set (nxt := deriv state (fst r0)).
    assert (Hnxt : re_valid nxt) by (apply deriv_valid; assumption).
    (* correctness of the new transitions, whatever the number m of the target *)
    assert (Hnew : forall sts m, nth_error sts m = Some nxt ->
              Forall (tr_ok sts state) (map (fun r => (fst r, snd r, m)) K)).
    { intros sts m Hm. apply Forall_forall. intros t Ht. apply in_map_iff in Ht.
      destruct Ht as (r & <- & Hr). unfold tr_ok, tr_first, tr_last, tr_next. cbn [fst snd].
      split; [unfold valid in HvK; rewrite Forall_forall in HvK; now apply HvK|].
      intros c Hc. rewrite Hm. f_equal. unfold nxt.
      apply (classes_sound state K); auto.
      apply in_ranges_alt. exists r. split; auto. }
    destruct (index_of nxt states O) as [m|] eqn:Ei.
    + intros H. inversion H; subst states' trs' stack'. clear H.
      apply index_of_0 in Ei.
      split; [|exists []; now rewrite app_nil_r].
      split; [now rewrite upd_nth_length|]. split; [assumption|].
      intros i ts si Hi Hsi. destruct (Nat.eq_dec i n) as [->|Hne].
      * rewrite nth_error_upd_nth_eq in Hi. destruct (nth_error trs n) as [ts0|] eqn:E0; [|discriminate].
        cbn in Hi. inversion Hi; subst ts. rewrite Hn in Hsi. inversion Hsi; subst si.
        apply Forall_app. split; [eapply Htr; eauto|]. now apply Hnew.
      * rewrite nth_error_upd_nth_neq in Hi by assumption. eapply Htr; eauto.
    + intros H. inversion H; subst states' trs' stack'. clear H.
      split; [|eexists; reflexivity].
      assert (Hm : nth_error (states ++ [nxt]) (length states) = Some nxt).
      { rewrite nth_error_app2 by lia. now rewrite Nat.sub_diag. }
      split; [rewrite upd_nth_length, !app_length; cbn; lia|].
      split; [apply Forall_app; split; [assumption|constructor; [assumption|constructor]]|].
      intros i ts si Hi Hsi.
      assert (Hold : forall j ts1 sj, nth_error (trs ++ [[]]) j = Some ts1 ->
                 nth_error (states ++ [nxt]) j = Some sj -> Forall (tr_ok (states ++ [nxt]) sj) ts1).
      { intros j ts1 sj Hj Hsj. destruct (Nat.lt_ge_cases j (length states)) as [Hlt|Hge].
        - rewrite nth_error_app1 in Hj by lia. rewrite nth_error_app1 in Hsj by lia.
          eapply Forall_impl; [|eapply Htr; eauto]. intros t. apply tr_ok_mono.
        - rewrite nth_error_app2 in Hj by lia.
          destruct (j - length trs)%nat as [|k] eqn:Ek; cbn in Hj.
          + inversion Hj; subst. constructor.
          + destruct k; discriminate. }
      destruct (Nat.eq_dec i n) as [->|Hne].
      * rewrite nth_error_upd_nth_eq in Hi.
        destruct (nth_error (trs ++ [[]]) n) as [ts0|] eqn:E0; [|discriminate].
        cbn in Hi. inversion Hi; subst ts.
        assert (Hsn : nth_error (states ++ [nxt]) n = Some state) by now apply nth_error_app_some.
        rewrite Hsn in Hsi. inversion Hsi; subst si.
        apply Forall_app. split; [eapply Hold; eauto|]. now apply Hnew.
      * rewrite nth_error_upd_nth_neq in Hi by assumption. eapply Hold; eauto.
Qed.

(* all classes of one state *)
Lemma class_fold_inv state n : forall ks states trs stack states' trs' stack',
  (forall K, In K ks -> In K (classes state)) ->
  Inv states trs -> nth_error states n = Some state ->
  fold_left (class_step state n) ks (states, trs, stack) = (states', trs', stack') ->
  Inv states' trs' /\ exists l, states' = states ++ l.
Proof.
  induction ks as [|K ks IH]; intros states trs stack states' trs' stack' Hks HI Hn; cbn [fold_left].
  - intros H. inversion H; subst. split; auto. exists []. now rewrite app_nil_r.
  - destruct (class_step state n (states, trs, stack) K) as [[s1 t1] k1] eqn:E1.
    apply class_step_inv in E1; auto; [|apply Hks; now left].
    destruct E1 as [HI1 (l1 & ->)]. intros H.
    apply IH in H; auto.
    + destruct H as [HI2 (l2 & ->)]. split; auto. exists (l1 ++ l2). now rewrite app_assoc.
    + intros K' HK'. apply Hks. now right.
    + now apply nth_error_app_some.
Qed.

Lemma sort_step_inv states trs n : Inv states trs -> Inv states (upd_nth n sort_tr trs).
Proof.
  intros (Hlen & Hval & Htr). split; [now rewrite upd_nth_length|]. split; [assumption|].
  intros i ts si Hi Hsi. destruct (Nat.eq_dec i n) as [->|Hne].
  - rewrite nth_error_upd_nth_eq in Hi. destruct (nth_error trs n) as [ts0|] eqn:E0; [|discriminate].
    cbn in Hi. inversion Hi; subst ts. apply Forall_forall. intros t Ht. apply -> sort_tr_In in Ht.
    specialize (Htr n ts0 si E0 Hsi). rewrite Forall_forall in Htr. auto.
  - rewrite nth_error_upd_nth_neq in Hi by assumption. eapply Htr; eauto.
Qed.

Lemma compile_loop_inv fuel : forall states trs stack states' trs' stack',
  Inv states trs ->
  compile_loop fuel (states, trs, stack) = Ok (states', trs', stack') ->
  Inv states' trs' /\ exists l, states' = states ++ l.
Proof.
  induction fuel as [|fuel IH]; intros states trs stack states' trs' stack' HI; cbn [compile_loop];
    [discriminate|].
  destruct stack as [|state stack0].
  - intros H. inversion H; subst. split; auto. exists []. now rewrite app_nil_r.
  - destruct (index_of state states O) as [n|] eqn:En; [|discriminate].
    apply index_of_0 in En.
    destruct (fold_left (class_step state n) (classes state) (states, trs, stack0)) as [[s1 t1] k1] eqn:E1.
    apply class_fold_inv in E1; auto.
    destruct E1 as [HI1 (l1 & ->)]. intros H. apply IH in H; [|now apply sort_step_inv].
    destruct H as [HI2 (l2 & ->)]. split; auto. exists (l1 ++ l2). now rewrite app_assoc.
Qed.

(* ---- running the tables *)
Lemma pick_transition_sound states trs j q c m :
  Inv states trs -> nth_error states j = Some q ->
  pick_transition trs j c = Ok m -> nth_error states m = Some (deriv q c).
Proof.
  intros (Hlen & Hval & Htr) Hq. unfold pick_transition.
  destruct (nth_error trs j) as [ts|] eqn:Ets; [|discriminate].
  specialize (Htr j ts q Ets Hq). rewrite Forall_forall in Htr.
  set (i := bisect_tr ts c).
  destruct (nth_error ts i) as [t|] eqn:Et.
  - destruct (c =? tr_first t) eqn:Ec.
    + intros H. inversion H; subst m. apply nth_error_In in Et. destruct (Htr t Et) as [H1 H2].
      apply H2. lia.
    + destruct i as [|i']; [discriminate|].
      destruct (nth_error ts i') as [t'|] eqn:Et'; [|discriminate].
      destruct ((tr_first t' <=? c) && (c <=? tr_last t')) eqn:Eb; [|discriminate].
      intros H. inversion H; subst m. apply nth_error_In in Et'. destruct (Htr t' Et') as [H1 H2].
      apply H2. lia.
  - destruct i as [|i']; [discriminate|].
    destruct (nth_error ts i') as [t'|] eqn:Et'; [|discriminate].
    destruct ((tr_first t' <=? c) && (c <=? tr_last t')) eqn:Eb; [|discriminate].
    intros H. inversion H; subst m. apply nth_error_In in Et'. destruct (Htr t' Et') as [H1 H2].
    apply H2. lia.
Qed.

Lemma run_from_sound states trs e : Inv states trs ->
  forall s j q b, nth_error states j = Some q ->
  run_from (trs, map nullable states, e) j s = Ok b -> b = nullable (derivs q s).
Proof.
  intros HI. induction s as [|c s IH]; intros j q b Hq; cbn [run_from].
  - rewrite nth_error_map, Hq. cbn. intros H. now inversion H.
  - destruct (pick_transition trs j c) as [m| | |] eqn:Ep; cbn [bind]; try discriminate.
    intros H. eapply pick_transition_sound in Ep; eauto.
Qed.

Theorem dfa_correct fuel r d : re_valid r -> compile fuel r = Ok d ->
  forall s b, run d s = Ok b -> (b = true <-> L r s).
Proof.
  intros Hr. unfold compile.
  destruct (compile_loop fuel ([r], [[]], [r])) as [[[states trs] stack]| | |] eqn:Ec; cbn [bind];
    try discriminate.
  assert (HI0 : Inv [r] [[]]).
  { split; [reflexivity|]. split; [constructor; [assumption|constructor]|].
    intros [|[|i]] ts si Hi Hsi; cbn in Hi; try discriminate. inversion Hi. constructor. }
  apply compile_loop_inv in Ec; auto. destruct Ec as [HI (l & ->)].
  destruct (index_of NULL ([r] ++ l) O) as [e|]; [|discriminate].
  intros H. inversion H; subst d. clear H. intros s b Hrun. unfold run in Hrun.
  change (nullable r :: map nullable l) with (map nullable ([r] ++ l)) in Hrun.
  eapply run_from_sound in Hrun; eauto; [|reflexivity].
  subst b. apply matches_spec.
Qed.
