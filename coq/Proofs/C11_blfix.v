(* Proofs/C11_blfix.v — C11: the repaired Thumb BL relocation is exact on the whole +-16 MiB range of encoding T1. *)
From PV Require Import Lib.Py Lib.Tac Spec.RelocSpec Gen.bitfun Model.Reloc Model.RelocFix Proofs.C11_bits
  Proofs.C11_relocs Proofs.C11_final Proofs.C11_relocs3.
Open Scope Z_scope.

Lemma xnor_bit a b : (a = 0 \/ a = 1) -> (b = 0 \/ b = 1) -> Z.lxor (Z.lxor a b) 1 = (if a =? b then 1 else 0).
Proof. intros [-> | ->] [-> | ->]; reflexivity. Qed.

Lemma bit01 x : x mod 2 = 0 \/ x mod 2 = 1.
Proof. pose proof (Z.mod_pos_bound x 2). lia. Qed.

Lemma thumb_bl_full_range S P data : bytes_ok 4 data -> S mod 2 = 0 -> P mod 2 = 0 ->
  - 2 ^ 24 <= S - (P + 4) < 2 ^ 24 - 2 ->
  exists d', apply_bl_fixed S data P = Ok d' /\ bytes_ok 4 d' /\ thumb_bl_target (le_word d') P = S /\
    bits (le_word d') 11 5 = bits (le_word data) 11 5 /\ bits (le_word d') 28 1 = bits (le_word data) 28 1 /\
    bits (le_word d') 30 2 = bits (le_word data) 30 2.
Proof.
  intros [Hw Hl] HS HP Hr. change (wf data) in Hw. unfold apply_bl_fixed, asrt. rewrite (proj2 (Z.eqb_eq _ _) HS). unfold guard.
  rewrite align2_even by exact HP. cbn [bind]. pows.
  assert (E : ((-16777216 <=? S - (P + 4)) && (S - (P + 4) <? 16777214) && ((S - (P + 4) + 16777216) mod 2 =? 0)) = true) by lia.
  rewrite E. set (o := S - (P + 4)) in *.
  rewrite shiftr_div by lia. change (2 ^ 1) with 2. rewrite wn_ok by (pows; lia). cbn [bind].
  set (r := (o / 2) mod 2 ^ 32).
  assert (Hrr : 0 <= r < 2 ^ 32) by (apply mod_small_range; pows; lia).
  lits. pows.
  set (s := (r / 16777216) mod 2). set (i1 := (r / 4194304) mod 2). set (i2 := (r / 2097152) mod 2).
  assert (Hs : s = 0 \/ s = 1) by apply bit01. assert (H1 : i1 = 0 \/ i1 = 1) by apply bit01.
  assert (H2 : i2 = 0 \/ i2 = 1) by apply bit01.
  rewrite !xnor_bit by assumption.
  assert (J1 : 0 <= (if i1 =? s then 1 else 0) < 2) by (destruct (i1 =? s); lia).
  assert (J2 : 0 <= (if i2 =? s then 1 else 0) < 2) by (destruct (i2 =? s); lia).
  lv. start_word data W0.
  bvs. bvs. bvs. bvs. bvs.
  eexists. split; [reflexivity|]. split; [split; assumption|].
  fin_word. unfold thumb_bl_target. bw.
  split; [|repeat split; reflexivity].
  rewrite !Z.mod_small by (pows; first [lia | apply mod_small_range; lia | subst s; apply mod_small_range; lia]).
  fold s.
  assert (Es : s mod 2 = s) by (apply Z.mod_small; lia).
  destruct (Z.eqb_spec i1 s) as [E1|E1]; destruct (Z.eqb_spec i2 s) as [E2|E2];
    cbn [Z.eqb]; unfold sext; subst s i1 i2 r; pows;
    repeat match goal with |- context [if ?c then _ else _] => destruct c eqn:? end; lia.
Qed.
