(* Proofs/C16_rd_sub.v — one subroutine: type pre-scan, parameters, all blocks, the finished function. *)
From PV Require Import Lib.Py Lib.Tac Lib.Val Lib.Json Spec.IRSyntax Model.IrJson Proofs.C16_irjson.
From PV Require Import Proofs.C16_rd_scope Proofs.C16_rd_patch Proofs.C16_rd_func.
From PV Require Import Proofs.C16_rd_wf.
From Coq Require Import String Ascii.
Local Open Scope string_scope.
Local Open Scope list_scope.
Open Scope Z_scope.

Definition dentry (d : vid * string * ty) : string * ty := (def_name d, def_ty d).
Definition idefs (i : instr) : list (string * ty) :=
  match instr_def i with Some d => [dentry d] | None => [] end.

Lemma scan_instr_ok f i j :
  write_instruction cfg_fixed f i = Ok j -> ctor_ok_instr f i = true -> scan_instr_type j = Ok (idefs i).
Proof.
  intros Hw Hc. destruct i; cbn in Hw; inversion Hw; subst j; clear Hw; unfold idefs; cbn [instr_def];
    unfold scan_instr_type, jint; cbn [jlookup jget String.eqb Ascii.eqb Bool.eqb bind as_int];
    try rewrite type_roundtrip; try reflexivity.
  cbn [ctor_ok_instr] in Hc. rewrite bytes_roundtrip by assumption. reflexivity.
Qed.

Lemma mapM_inv {A B} (p : A -> result B) l r : mapM p l = Ok r -> Forall2 (fun x y => p x = Ok y) l r.
Proof.
  revert r. induction l as [|x l IH]; intros r H; cbn in H.
  - inversion H. constructor.
  - destruct (p x) as [y| | |] eqn:E; try discriminate. cbn [bind] in H.
    destruct (mapM p l) as [ys| | |] eqn:E2; try discriminate. inversion H; subst. constructor; auto.
Qed.
Lemma scan_list f l js :
  mapM (write_instruction cfg_fixed f) l = Ok js -> forallb (ctor_ok_instr f) l = true ->
  mapM scan_instr_type js = Ok (map idefs l).
Proof.
  intros H. apply mapM_inv in H. induction H as [|i j l js Hw _ IH]; intros Hc; [reflexivity|].
  cbn [forallb] in Hc. apply andb_prop in Hc. destruct Hc as [C1 C2].
  cbn [mapM map]. rewrite (scan_instr_ok f i j Hw C1). cbn [bind]. now rewrite IH.
Qed.
Lemma concat_idefs l : List.concat (map idefs l) = map dentry (instrs_defs l).
Proof.
  unfold instrs_defs. induction l as [|i l IH]; [reflexivity|]. cbn [map List.concat flat_map]. rewrite IH, map_app.
  f_equal. unfold idefs. now destruct (instr_def i).
Qed.
Lemma scan_blocks f bl js :
  mapM (write_block cfg_fixed f) bl = Ok js -> forallb (ctor_ok_instr f) (flat_map b_ins bl) = true ->
  scan_value_types js = Ok (map dentry (instrs_defs (flat_map b_ins bl))).
Proof.
  intros H Hc. unfold scan_value_types.
  assert (E : mapM (fun b => ij <- jget "instructions" b ;; il <- as_list ij ;; ts <- mapM scan_instr_type il ;; Ok (List.concat ts)) js
              = Ok (map (fun k => map dentry (instrs_defs (b_ins k))) bl)).
  { apply mapM_inv in H. induction H as [|k j bl js Hw _ IH]; [reflexivity|].
    cbn [flat_map] in Hc. rewrite forallb_app in Hc. apply andb_prop in Hc. destruct Hc as [C1 C2].
    unfold write_block in Hw. destruct (mapM (write_instruction cfg_fixed f) (b_ins k)) as [ij| | |] eqn:Wi; try discriminate.
    cbn [bind] in Hw. inversion Hw; subst j. cbn [mapM map].
    cbn [jget jlookup String.eqb Ascii.eqb Bool.eqb bind as_list].
    rewrite (scan_list f (b_ins k) ij Wi C1). cbn [bind]. rewrite concat_idefs. now rewrite IH. }
  rewrite E. cbn [bind]. f_equal. clear. induction bl as [|k bl IH]; [reflexivity|].
  cbn [map List.concat flat_map]. rewrite IH. unfold instrs_defs. now rewrite flat_map_app, map_app.
Qed.

Lemma instrs_defs_app l1 l2 : instrs_defs (l1 ++ l2) = instrs_defs l1 ++ instrs_defs l2.
Proof. unfold instrs_defs. apply flat_map_app. Qed.

Section Sub.
  Variable gn : list string.
  Variable f : func.
  Variable fs : list func.
  Variable G : vmap.
  Hypothesis Hwf : wf_func gn f = true.
  Hypothesis Hct : ctor_ok_func f = true.
  Hypothesis Hctx : fun_ctx gn f (vt_of f) fs.
  Notation ndefs l := (List.length (instrs_defs (flat_map b_ins l))).

  Lemma blocks_fold gk : forall rest bs st js,
    IRSyntax.f_blocks f = bs ++ rest ->
    FInv gn f fs G (pshift 1 (ndefs bs)) gk bs [] st -> rs_bmap st = bm_of f ->
    mapM (write_block cfg_fixed f) rest = Ok js ->
    exists st', construct_blocks cfg_fixed (vt_of f) js st = Ok st' /\
                FInv gn f fs G (pshift 1 (ndefs (bs ++ rest))) gk (bs ++ rest) [] st' /\ rs_bmap st' = bm_of f.
  Proof.
    induction rest as [|k rest IH]; intros bs st js Hb I Hbm Hw.
    - cbn in Hw. inversion Hw; subst js. exists st. rewrite app_nil_r. split; [reflexivity|]. split; assumption.
    - cbn [mapM] in Hw. destruct (write_block cfg_fixed f k) as [j| | |] eqn:Wk; try discriminate.
      cbn [bind] in Hw. destruct (mapM _ rest) as [js'| | |] eqn:Wr; try discriminate. inversion Hw; subst js.
      destruct (wf_parts gn f Hwf) as (Bi & Di & Sh & Wi & Nl & Dg & Bn & Dn).
      assert (Hk : In k (IRSyntax.f_blocks f)) by (rewrite Hb; apply in_or_app; right; now left).
      assert (Hfi : func_instrs f = flat_map b_ins bs ++ b_ins k ++ flat_map b_ins rest).
      { unfold func_instrs. rewrite Hb, flat_map_app. reflexivity. }
      (* value ids of block k *)
      assert (Hid : map def_id (instrs_defs (b_ins k)) =
                    seq_pos (pshift 1 (ndefs bs)) (List.length (instrs_defs (b_ins k)))).
      { unfold func_defs in Di. rewrite Hfi, !instrs_defs_app, !map_app in Di.
        apply seq_pos_split in Di. destruct Di as [_ D2]. rewrite map_length in D2.
        rewrite app_length in D2. apply seq_pos_split in D2. destruct D2 as [D2 _]. now rewrite !map_length in D2. }
      assert (Hseq : seq_ok gn f (bm_of f) bs [] (pshift 1 (ndefs bs)) (b_ins k)
                            (pshift (pshift 1 (ndefs bs)) (List.length (instrs_defs (b_ins k))))).
      { apply (seq_ok_of gn f Hwf Hct bs).
        - rewrite Hb, map_app. apply incl_appl, incl_refl.
        - intros i Hi. rewrite Hfi. apply in_or_app. right. apply in_or_app. now left.
        - rewrite forallb_forall in Sh. now apply Sh.
        - exact Hid. }
      assert (Hnm : mem_str (b_name k) (map b_name bs ++ map def_name (instrs_defs (flat_map b_ins bs ++ b_ins k))) = false).
      { apply mem_str_false. rewrite in_app_iff. intros [C|C].
        - rewrite Hb, map_app in Bn. cbn [map] in Bn. apply NoDup_remove_2 in Bn. apply Bn. apply in_or_app. now left.
        - apply (Dn (b_name k)); [|now apply in_map]. unfold func_defs. rewrite Hfi.
          rewrite app_assoc, instrs_defs_app, map_app. apply in_or_app. now left. }
      destruct (block_roundtrip gn f (vt_of f) fs G (bm_of f) gk bs k _ _ st j Hctx Hseq I Hbm) as (st1 & E1 & I1 & B1);
        [ unfold bm_of; apply blookup_blocks; [rewrite Bi; reflexivity | assumption | assumption] | exact Hnm | exact Wk | ].
      assert (En : pshift (pshift 1 (ndefs bs)) (List.length (instrs_defs (b_ins k))) = pshift 1 (ndefs (bs ++ [k]))).
      { rewrite <- pshift_add. f_equal. rewrite flat_map_app, instrs_defs_app, app_length. cbn [flat_map]. now rewrite app_nil_r. }
      rewrite En in I1.
      destruct (IH (bs ++ [k]) st1 js') as (st2 & E2 & I2 & B2);
        [ rewrite <- app_assoc; exact Hb | exact I1 | exact B1 | reflexivity | ].
      exists st2. cbn [construct_blocks]. rewrite E1. cbn [bind]. rewrite <- app_assoc in I2. cbn [app] in I2.
      split; [exact E2|]. split; [exact I2 | exact B2].
  Qed.
End Sub.
