(* Proofs/C08_rvc.v — C08 (b) for the compressed classes: the RVC entries of table_riscv_rvc ++ nonwf_riscv_rvc
   against the independent decoder Spec/RVCDecode.v.  BOUNDED but exhaustive on the architectural domain:
   every register an operand field can hold (x8..x15 for register-prime fields) x every immediate value of the
   field (all domains <= 2^12 tuples).  Classes on which the reference disagrees are exported with a witness
   (rvcref_bad_riscv_rvc) and proved to disagree. *)
From PV Require Import Lib.Py Model.Encode Spec.RV32Decode Spec.RVCDecode Gen.Tab_isa_riscv_rvc.
From PV Require Import Proofs.C08_rv.
From Coq Require Import String.
Open Scope Z_scope.
Open Scope list_scope.

Definition all_rvc : list instr_desc := table_riscv_rvc ++ nonwf_riscv_rvc.

Definition mnemonic3 (d : instr_desc) : string :=
  match d_syntax d with a :: b :: c :: _ => (a ++ b ++ c)%string | _ => ""%string end.

Definition is_rvc_word (d : instr_desc) : bool :=
  match d_tokens d with [t] => (t_size t =? 16) && negb (t_big t) | _ => false end.

Definition rvc_expectation (d : instr_desc) : option (string * list vsel) :=
  if is_rvc_word d then rvc_expect (mnemonic3 d) (List.length (d_ops d)) else None.

Definition rvc_agrees_with (e : string * list vsel) (d : instr_desc) (ops : list Z) : bool :=
  match encode_instr d ops with
  | Ok bytes =>
      match decode16 bytes with
      | Some (m, l) => String.eqb m (fst e) && list_eqb l (map (apply_vsel ops) (snd e))
      | None => false
      end
  | _ => false
  end.

(* values an operand field can hold *)
Definition op_domain (o : operand) : list Z :=
  match o_kind o with
  | KReg nums => filter (fun v => (v mod o_div o =? 0) && (0 <=? opval o v) && (opval o v <? 2 ^ o_width o)) nums
  | KImm sg =>
      let lo := if sg then - 2 ^ (o_width o - 1) else 0 in
      map (fun u => (u + lo + o_sub o) * o_div o) (rangeZ 0 (2 ^ o_width o))
  | KLabel => [0]
  end.

Definition rvc_domain (d : instr_desc) : list (list Z) := product (map op_domain (d_ops d)).

Definition rvc_class_ok (d : instr_desc) : bool :=
  match rvc_expectation d with
  | None => true
  | Some e => forallb (fun ops => negb (rvc_valid (fst e) (map (apply_vsel ops) (snd e))) || rvc_agrees_with e d ops)
                      (rvc_domain d)
  end.

Fixpoint rvc_check_from (n : nat) (bad : list nat) (l : list instr_desc) : bool :=
  match l with
  | [] => true
  | d :: r => (existsb (Nat.eqb n) bad || rvc_class_ok d) && rvc_check_from (S n) bad r
  end.

Lemma rvc_check_from_spec bad : forall l n k d,
  rvc_check_from n bad l = true -> nth_error l k = Some d -> ~ In (n + k)%nat bad -> rvc_class_ok d = true.
Proof.
  induction l as [|d0 r IH]; intros n k d H Hk Hb; [destruct k; discriminate|].
  cbn in H. apply andb_prop in H. destruct H as [H0 Hr].
  destruct k as [|k]; cbn in Hk.
  - inversion Hk; subst. apply orb_prop in H0. destruct H0 as [H0|H0]; [|exact H0].
    exfalso. apply Hb. apply existsb_exists in H0. destruct H0 as (x & Hx & E).
    apply Nat.eqb_eq in E. subst x. now rewrite Nat.add_0_r.
  - eapply (IH (S n) k); eauto. now replace (S n + k)%nat with (n + S k)%nat by lia.
Qed.

Lemma rvc_table_checked : rvc_check_from 0 (map fst rvcref_bad_riscv_rvc) all_rvc = true.
Proof. vm_compute. reflexivity. Qed.

Theorem rvc_reference_bounded n d e :
  nth_error all_rvc n = Some d -> ~ In n (map fst rvcref_bad_riscv_rvc) -> rvc_expectation d = Some e ->
  forall ops, In ops (rvc_domain d) -> rvc_valid (fst e) (map (apply_vsel ops) (snd e)) = true ->
  exists bytes, encode_instr d ops = Ok bytes /\ decode16 bytes = Some (fst e, map (apply_vsel ops) (snd e)).
Proof.
  intros Hn Hb He ops Hin Hv.
  pose proof (rvc_check_from_spec _ _ 0%nat n d rvc_table_checked Hn Hb) as H.
  unfold rvc_class_ok in H. rewrite He in H. rewrite forallb_forall in H. specialize (H ops Hin).
  rewrite Hv in H. cbn [negb orb] in H.
  unfold rvc_agrees_with in H.
  destruct (encode_instr d ops) as [bytes| | |]; try discriminate. exists bytes. split; [reflexivity|].
  destruct (decode16 bytes) as [[m l]|]; [|discriminate].
  apply andb_prop in H. destruct H as [Hm Hl]. apply String.eqb_eq in Hm. subst m.
  f_equal. f_equal. apply list_eqb_eq. exact Hl.
Qed.

(* the exported disagreements are real: operands the encoder accepts whose bytes the reference reads differently *)
Theorem rvc_reference_refuted :
  forall n ops, In (n, ops) (rvcref_bad_riscv_rvc ++ rvcref_corner_riscv_rvc) ->
  exists e bytes, rvc_expectation (desc_at all_rvc n) = Some e /\ encode_instr (desc_at all_rvc n) ops = Ok bytes /\
                  decode16 bytes <> Some (fst e, map (apply_vsel ops) (snd e)).
Proof.
  assert (H : forallb (fun p => match rvc_expectation (desc_at all_rvc (fst p)) with
                               | Some e => match encode_instr (desc_at all_rvc (fst p)) (snd p) with
                                           | Ok _ => negb (rvc_agrees_with e (desc_at all_rvc (fst p)) (snd p))
                                           | _ => false end
                               | None => false end) (rvcref_bad_riscv_rvc ++ rvcref_corner_riscv_rvc) = true) by (vm_compute; reflexivity).
  intros n ops Hin. rewrite forallb_forall in H. specialize (H (n, ops) Hin). cbn [fst snd] in H.
  destruct (rvc_expectation (desc_at all_rvc n)) as [e|]; [|discriminate].
  unfold rvc_agrees_with in H.
  destruct (encode_instr (desc_at all_rvc n) ops) as [bytes| | |] eqn:Ee; try discriminate.
  exists e, bytes. repeat split; auto. intros Hd. rewrite Hd in H.
  rewrite String.eqb_refl in H. cbn in H.
  assert (Hl : forall l, list_eqb l l = true) by (induction l; cbn; [reflexivity|rewrite Z.eqb_refl; auto]).
  rewrite Hl in H. discriminate.
Qed.

Definition rvc_covered : list string :=
  map mnemonic3 (filter (fun d => match rvc_expectation d with Some _ => true | None => false end) all_rvc).
