(* Proofs/C23_table2.v — the exported re-wrapping and cast tables (Gen/Tab_ir2wasm.v: posttable,
   casttable) against the models, by reflection.  The statements hold on the tree with and without
   fixes/C23-rewrap-narrow.diff: [rewrap_complete] / [cast_bad_rows] say which one it is. *)
From Coq Require Import ZArith List Bool.
Import ListNotations.
From PV Require Import Spec.IRSyntax Spec.IRSem Spec.WasmNumSpec Model.Ir2WasmOps Model.Ir2WasmPost.
From PV Require Import Gen.Tab_ir2wasm Proofs.C23_ops Proofs.C23_post Proofs.C23_table.

Lemma post_eqb_eq : forall a b, post_eqb a b = true -> a = b.
Proof. destruct a, b; simpl; intros; try discriminate; reflexivity. Qed.

Definition conv_eqb (a b : conv) : bool :=
  match a, b with
  | CvNone, CvNone | CvWrap, CvWrap | CvExtS, CvExtS | CvExtU, CvExtU => true
  | _, _ => false
  end.
Lemma conv_eqb_eq : forall a b, conv_eqb a b = true -> a = b.
Proof. destruct a, b; simpl; intros; try discriminate; reflexivity. Qed.

(* every narrow + - * << row of this tree is followed by the proper re-wrapping, every other row by
   nothing: true exactly on a tree with the fix *)
Definition rewrap_complete : bool :=
  forallb (fun '(o, t, p) =>
             if inexact o t && negb (signed_on_unsigned o t) then post_eqb p (wrap_post t)
             else post_eqb p PNone) posttable.

(* a cast row is proved correct: the model's conversion, and either no re-wrapping where none is
   needed or the re-wrapping of the destination type *)
Definition cast_good (r : ty * ty * conv * post) : bool :=
  let '(f, t, cv, p) := r in
  match select_cast f t with
  | Some cv' =>
      conv_eqb cv cv' &&
      ((post_eqb p PNone && cast_exact_bare f t) || (post_eqb p (wrap_post t) && cast_fixable f t))
  | None => false
  end
  || match f, t, cv, p with I32, U64, CvExtS, PNone => true | _, _, _, _ => false end.
Definition cast_bad_rows : list (ty * ty * conv * post) := filter (fun r => negb (cast_good r)) casttable.

Section T.
Variable c : cfg.
Hypothesis Hp : ptr_bytes c = 4%Z.

Theorem op_table_rewrapped : forall o t w p,
  In (o, t, w) optable -> In (o, t, p) posttable ->
  inexact o t = true -> signed_on_unsigned o t = false -> post_eqb p (wrap_post t) = true ->
  exact_post_row c (o, t, w, p).
Proof.
  intros o t w p H _ I U E. apply post_eqb_eq in E. subst p.
  apply select_post_exact; auto.
  apply row_ok_sel. pose proof optable_ok as T. rewrite forallb_forall in T. apply T. exact H.
Qed.

Lemma exact_row_post : forall o t w, exact_row c (o, t, w) -> exact_post_row c (o, t, w, PNone).
Proof.
  intros o t w [cw [C H]]. exists cw. split; [exact C|]. intros a b z Ha Hb E.
  eexists. split; [apply (H a b z Ha Hb E)|reflexivity].
Qed.

(* on a tree where the re-wrapping is complete, every row of the operator table (except the ptr
   rows with signed opcodes) is exact *)
Theorem op_table_exact_when_rewrapped : rewrap_complete = true ->
  forall o t w p, In (o, t, w) optable -> In (o, t, p) posttable ->
  signed_on_unsigned o t = false -> exact_post_row c (o, t, w, p).
Proof.
  intros R o t w p H HP U.
  unfold rewrap_complete in R. rewrite forallb_forall in R. specialize (R _ HP). simpl in R.
  destruct (inexact o t) eqn:I.
  - rewrite U in R. simpl in R. apply op_table_rewrapped; auto.
  - simpl in R. apply post_eqb_eq in R. subst p. apply exact_row_post.
    apply op_table_sound; auto.
Qed.

Theorem cast_table_sound : forall f t cv p,
  In (f, t, cv, p) casttable -> cast_good (f, t, cv, p) = true -> cast_row c f t cv p.
Proof.
  intros f t cv p _ G. unfold cast_good in G.
  apply orb_true_iff in G. destruct G as [G|G];
    [|destruct f, t, cv, p; try discriminate; apply cast_i32_u64_exts].
  destruct (select_cast f t) as [cv'|] eqn:S; [|discriminate].
  apply andb_true_iff in G. destruct G as [Ec G]. apply conv_eqb_eq in Ec. subst cv'.
  apply orb_true_iff in G. destruct G as [G|G]; apply andb_true_iff in G; destruct G as [Ep B];
    apply post_eqb_eq in Ep; subst p.
  - apply select_cast_bare; auto.
  - apply select_cast_wrapped; auto.
Qed.
(* all casts: on a tree where no exported cast row is left unproved (cast_bad_rows = [], evaluated
   by the check on every run) every integer cast ir_to_wasm compiles is the IR cast *)
Theorem cast_exact : cast_bad_rows = [] ->
  forall f t cv p, In (f, t, cv, p) casttable -> cast_row c f t cv p.
Proof.
  intros E f t cv p H. apply cast_table_sound; [exact H|].
  destruct (cast_good (f, t, cv, p)) eqn:G; [reflexivity|exfalso].
  assert (B : In (f, t, cv, p) cast_bad_rows).
  { unfold cast_bad_rows. apply filter_In. split; [exact H|]. rewrite G. reflexivity. }
  rewrite E in B. exact B.
Qed.
End T.
