(* Proofs/StmtCode_lemmas.v -- facts about Model/StmtCode.v used by C36 and C37. *)
From PV Require Import Lib.Py Lib.Tac Spec.IRSyntax Spec.IRSem Model.StmtCode.
Open Scope Z_scope.

Section Lemmas.
Variable exp : Type.
Variable evale : list Z -> exp -> outcome Z.
Variable wrapc : Z -> Z.
Variable ftab : nat -> option (nat * code exp).
Notation runs := (runs exp evale wrapc ftab).

(* code whose free jumps stay within the loops ls runs the same inside further loops *)
Lemma weaken ls env rg c v : runs ls env rg c v -> forall ex,
  top_ok (length ls) c -> runs (ls ++ ex) env rg c v.
Proof.
  induction 1; intros ex Hok; cbn [top_ok] in Hok.
  - now constructor.
  - econstructor; eauto.
  - econstructor; eauto. apply IHruns. destruct (eval_cond c xa xb); tauto.
  - constructor. rewrite firstn_app. replace (l - length ls)%nat with O by lia. cbn [firstn].
    now rewrite app_nil_r.
  - econstructor.
    + rewrite nth_error_app1 by lia. eassumption.
    + rewrite firstn_app. replace (S l - length ls)%nat with O by lia. cbn [firstn].
      now rewrite app_nil_r.
  - econstructor; eauto.
  - econstructor; eauto.
  - constructor; auto.
  - constructor. apply IHruns. destruct (eval_cond c (ropv wrapc rg a) (ropv wrapc rg b)); tauto.
  - econstructor; eauto.
Qed.

Lemma top_ok_mono (c : code exp) d d' : (d <= d')%nat -> top_ok d c -> top_ok d' c.
Proof. intros H. induction c; cbn [top_ok]; intuition lia. Qed.

Lemma runs_loop_inv ls env rg l body v :
  runs ls env rg (KLoop l body) v -> runs (firstn l ls ++ [body]) env rg body v.
Proof. inversion 1; subst; assumption. Qed.
End Lemmas.
