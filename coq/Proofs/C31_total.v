(* Proofs/C31_total.v — totality of the table-driven run: after compile() every state has a sorted
   transition row whose ranges are pairwise disjoint and cover 0..255, so pick_transition never
   raises on a symbol of SIGMA. *)
From PV Require Import Lib.Py Lib.Tac Spec.RegLangSpec Model.Regex.
From PV Require Import Proofs.C31_sets Proofs.C31_regex Proofs.C31_dfa.
Open Scope Z_scope.

(* ================================================================== canonical symbol sets *)
Definition rdisj (r1 r2 : Z * Z) : Prop := snd r1 < fst r2 \/ snd r2 < fst r1.
Definition canon (s : iset) : Prop := valid s /\ ForallOrdPairs rdisj s.

Lemma merge_from_lb l : forall r, sortedF l -> Forall (fun s => fst r <= fst s) l ->
  Forall (fun x => fst r <= fst x) (merge_from r l).
Proof.
  induction l as [|s l IH]; intros r Hs Hr; cbn [merge_from].
  - constructor; [lia|constructor].
  - destruct Hs as [Hs1 Hs2]. inversion Hr as [|? ? Hrs Hrl]; subst.
    destruct (fst s >? snd r + 1).
    + constructor; [lia|]. eapply Forall_impl; [|apply (IH s Hs2 Hs1)]. cbn. intros x Hx. lia.
    + apply (IH (fst r, Z.max (snd r) (snd s))); auto.
Qed.

Lemma merge_from_disj l : forall r, sortedF l -> Forall (fun s => fst r <= fst s) l ->
  ForallOrdPairs rdisj (merge_from r l).
Proof.
  induction l as [|s l IH]; intros r Hs Hr; cbn [merge_from].
  - constructor; constructor.
  - destruct Hs as [Hs1 Hs2]. inversion Hr as [|? ? Hrs Hrl]; subst.
    destruct (fst s >? snd r + 1) eqn:E.
    + constructor; [|apply IH; auto].
      eapply Forall_impl; [|apply (merge_from_lb l s Hs2 Hs1)]. cbn. intros x Hx. left. lia.
    + apply (IH (fst r, Z.max (snd r) (snd s))); auto.
Qed.

Lemma mk_iset_canon l : canon (mk_iset l).
Proof.
  split; [apply mk_iset_valid|]. unfold mk_iset.
  pose proof (sort_pairs_sorted (filter range_ok l)) as Hs.
  destruct (sort_pairs (filter range_ok l)) as [|r l']; cbn; [constructor|].
  destruct Hs. now apply merge_from_disj.
Qed.

Lemma canon_nil : canon [].
Proof. split; constructor. Qed.

Lemma sigma_canon : canon SIGMA_SET.
Proof. split; [apply sigma_valid|constructor; constructor]. Qed.

Fixpoint re_canon (r : re) : Prop :=
  match r with
  | Eps => True
  | Sym s => canon s
  | Star a => re_canon a
  | Cat a b => re_canon a /\ re_canon b
  | Or a b => re_canon a /\ re_canon b
  | And a b => re_canon a /\ re_canon b
  end.

Lemma re_canon_valid r : re_canon r -> re_valid r.
Proof. induction r; cbn; try tauto. intros [H _]. exact H. Qed.

Lemma NULL_canon : re_canon NULL.
Proof. apply canon_nil. Qed.

Lemma concatenate_canon a b : re_canon a -> re_canon b -> re_canon (concatenate a b).
Proof.
  intros Ha Hb. unfold concatenate.
  destruct (re_eqb a NULL); [apply NULL_canon|].
  destruct (re_eqb b NULL); [apply NULL_canon|].
  destruct (re_eqb a Eps); [assumption|].
  destruct (re_eqb b Eps); [assumption|]. split; assumption.
Qed.

Lemma logical_or_canon a b : re_canon a -> re_canon b -> re_canon (logical_or a b).
Proof.
  intros Ha Hb. destruct (logical_or_cases a b) as [(s & t & -> & -> & ->)| ->].
  - cbn. apply mk_iset_canon.
  - unfold lor_generic. destruct (re_eqb a b); [assumption|].
    destruct (re_eqb a NULL); [assumption|]. destruct (re_eqb b NULL); [assumption|]. split; assumption.
Qed.

Lemma logical_and_canon a b : re_canon a -> re_canon b -> re_canon (logical_and a b).
Proof.
  intros Ha Hb. unfold logical_and. destruct (re_eqb a b); [assumption|].
  destruct (re_eqb a NULL); [assumption|]. destruct (re_eqb b NULL); [assumption|]. split; assumption.
Qed.

Lemma nu_canon r : re_canon (nu r).
Proof. destruct (nu_spec r) as [[-> _]|[-> _]]; [exact I|apply NULL_canon]. Qed.

Lemma deriv_canon r c : re_canon r -> re_canon (deriv r c).
Proof.
  induction r; cbn [deriv re_canon]; intros H.
  - apply NULL_canon.
  - destruct (contains s c); [exact I|apply NULL_canon].
  - apply concatenate_canon; auto.
  - destruct H. apply logical_or_canon; apply concatenate_canon; auto using nu_canon.
  - destruct H. apply logical_or_canon; auto.
  - destruct H. apply logical_and_canon; auto.
Qed.

Lemma product_canon A B K : In K (product_intersections A B) -> canon K.
Proof.
  intros H. apply In_product_intersections in H. destruct H as (_ & a & b & _ & _ & ->).
  apply mk_iset_canon.
Qed.

Lemma classes_canon r : re_canon r -> forall K, In K (classes r) -> canon K.
Proof.
  induction r; cbn [classes re_canon]; intros H K HK.
  - destruct HK as [<-|[]]. apply sigma_canon.
  - destruct HK as [<-|[<-|[]]]; [assumption|apply mk_iset_canon].
  - auto.
  - destruct H. destruct (nullable r1); [eapply product_canon; eauto|auto].
  - eapply product_canon; eauto.
  - eapply product_canon; eauto.
Qed.

(* the ranges of all classes of a state, taken together, are pairwise disjoint *)
Lemma rdisj_of_no_common r1 r2 :
  fst r1 <= snd r1 -> fst r2 <= snd r2 -> (forall c, ~ (inr c r1 /\ inr c r2)) -> rdisj r1 r2.
Proof.
  intros H1 H2 H. unfold rdisj.
  destruct (Z_lt_le_dec (snd r1) (fst r2)) as [|Ha]; [now left|].
  destruct (Z_lt_le_dec (snd r2) (fst r1)) as [|Hb]; [now right|].
  exfalso. apply (H (Z.max (fst r1) (fst r2))). unfold inr. lia.
Qed.

Lemma concat_classes_disj Ks :
  (forall K, In K Ks -> canon K) -> pairwise_disjoint Ks -> ForallOrdPairs rdisj (concat Ks).
Proof.
  intros Hc Hd. induction Hd as [|K Ks HK HKs IH]; cbn [concat]; [constructor|].
  apply FOP_app.
  - apply Hc. now left.
  - apply IH. intros K' HK'. apply Hc. now right.
  - intros r1 r2 Hr1 Hr2. apply in_concat in Hr2. destruct Hr2 as (K2 & HK2 & Hr2).
    rewrite Forall_forall in HK. specialize (HK K2 HK2).
    destruct (Hc K (or_introl eq_refl)) as [Hv1 _]. destruct (Hc K2 (or_intror HK2)) as [Hv2 _].
    unfold valid in Hv1, Hv2. rewrite Forall_forall in Hv1, Hv2.
    apply rdisj_of_no_common; auto. intros c [Hc1 Hc2]. apply (HK c). split; apply in_ranges_alt; eauto.
Qed.

(* ================================================================== transition rows *)
Definition tdisj (t1 t2 : tr) : Prop := rdisj (fst t1) (fst t2).
Definition tvalid (t : tr) : Prop := tr_first t <= tr_last t.
Definition tin (c : Z) (t : tr) : Prop := tr_first t <= c <= tr_last t.
Definition covers (ts : list tr) : Prop := forall c, in_sigma c -> exists t, In t ts /\ tin c t.

Fixpoint sortedT (l : list tr) : Prop :=
  match l with
  | [] => True
  | t :: l' => Forall (fun t' => tr_first t <= tr_first t') l' /\ sortedT l'
  end.

Lemma tr_leb_first p q : tr_leb p q = true -> tr_first p <= tr_first q.
Proof. unfold tr_leb. lia. Qed.
Lemma tr_leb_false_first p q : tr_leb p q = false -> tr_first q <= tr_first p.
Proof. unfold tr_leb. lia. Qed.

Lemma insert_tr_sorted p l : sortedT l -> sortedT (insert_tr p l).
Proof.
  induction l as [|q l IH]; cbn; intros H.
  - split; auto.
  - destruct H as [Hq Hl]. destruct (tr_leb p q) eqn:E; cbn.
    + apply tr_leb_first in E. split; [|split; auto]. constructor; [assumption|].
      eapply Forall_impl; [|exact Hq]. cbn. intros a Ha. lia.
    + apply tr_leb_false_first in E. split; [|auto]. apply Forall_forall. intros x Hx.
      apply insert_tr_In in Hx. destruct Hx as [->|Hx]; [assumption|].
      rewrite Forall_forall in Hq. auto.
Qed.

Lemma sort_tr_sorted l : sortedT (sort_tr l).
Proof. induction l; cbn; [exact I|now apply insert_tr_sorted]. Qed.

Lemma FOP_insert_tr (R : tr -> tr -> Prop) p l :
  (forall x y, R x y -> R y x) -> ForallOrdPairs R l -> Forall (R p) l ->
  ForallOrdPairs R (insert_tr p l).
Proof.
  intros Hsym. induction l as [|q l IH]; cbn; intros HF Hp.
  - constructor; constructor.
  - inversion HF; subst. inversion Hp; subst. destruct (tr_leb p q).
    + constructor; [constructor; assumption|assumption].
    + constructor; [|apply IH; assumption].
      apply Forall_forall. intros x Hx. apply insert_tr_In in Hx. destruct Hx as [->|Hx].
      * now apply Hsym.
      * match goal with H : Forall (R q) l |- _ => rewrite Forall_forall in H; auto end.
Qed.

Lemma FOP_sort_tr (R : tr -> tr -> Prop) l :
  (forall x y, R x y -> R y x) -> ForallOrdPairs R l -> ForallOrdPairs R (sort_tr l).
Proof.
  intros Hsym. induction 1 as [|p l Hp Hl IH]; cbn; [constructor|].
  apply FOP_insert_tr; auto. apply Forall_forall. intros x Hx. apply -> sort_tr_In in Hx.
  rewrite Forall_forall in Hp. auto.
Qed.

Lemma tdisj_sym x y : tdisj x y -> tdisj y x.
Proof. unfold tdisj, rdisj. tauto. Qed.

(* strictly increasing chain of valid ranges *)
Fixpoint schain (l : list tr) : Prop :=
  match l with
  | [] => True
  | t :: l' => tvalid t /\ Forall (fun t' => tr_last t < tr_first t') l' /\ schain l'
  end.

Lemma schain_of l : sortedT l -> Forall tvalid l -> ForallOrdPairs tdisj l -> schain l.
Proof.
  induction l as [|t l IH]; cbn; auto. intros [Hs1 Hs2] Hv Hd.
  inversion Hv as [|? ? Hvt Hvl]; subst. inversion Hd as [|? ? Hdt Hdl]; subst.
  split; [assumption|]. split; [|auto].
  apply Forall_forall. intros t' Ht'. rewrite Forall_forall in Hs1, Hvl, Hdt.
  specialize (Hs1 t' Ht'). specialize (Hvl t' Ht'). specialize (Hdt t' Ht').
  unfold tdisj, rdisj, tvalid, tr_first, tr_last in *. lia.
Qed.

Lemma filter_none l c b : Forall (fun t' => b < tr_first t') l -> c <= b ->
  filter (fun t' => tr_first t' <? c) l = [].
Proof.
  induction 1 as [|x l Hx Hl IH]; intros Hle; cbn; auto.
  assert (E : (tr_first x <? c) = false) by lia. rewrite E. auto.
Qed.

Lemma bisect_find l c : schain l -> (exists t, In t l /\ tin c t) ->
  (exists t, nth_error l (bisect_tr l c) = Some t /\ c = tr_first t) \/
  (exists j t, bisect_tr l c = S j /\ nth_error l j = Some t /\ tin c t).
Proof.
  induction l as [|t l IH]; intros Hch (t0 & Hin & Hc); [destruct Hin|].
  destruct Hch as (Hv & Hlater & Hch). unfold bisect_tr in *. cbn [filter].
  assert (Hnone : c <= tr_last t -> filter (fun t' => tr_first t' <? c) l = []).
  { intros Hle. eapply filter_none; eauto. }
  unfold tvalid, tin in *.
  destruct (Z_lt_le_dec (tr_last t) c) as [Hgt|Hle].
  - (* c beyond t *)
    assert (E : (tr_first t <? c) = true) by lia. rewrite E. cbn [length].
    destruct Hin as [->|Hin]; [lia|].
    destruct (IH Hch (ex_intro _ t0 (conj Hin Hc))) as [(t1 & H1 & H2)|(j & t1 & H1 & H2 & H3)].
    + left. exists t1. split; auto.
    + right. exists (S j), t1. cbn [nth_error]. split; [now rewrite H1|]. split; auto.
  - rewrite (Hnone Hle).
    assert (Hct : tr_first t <= c).
    { destruct Hin as [->|Hin]; [lia|]. rewrite Forall_forall in Hlater. specialize (Hlater t0 Hin). lia. }
    destruct (Z.eq_dec c (tr_first t)) as [Heq|Hne].
    + assert (E : (tr_first t <? c) = false) by lia. rewrite E. left. exists t. cbn. auto.
    + assert (E : (tr_first t <? c) = true) by lia. rewrite E. right. exists O, t. cbn. repeat split; try lia; auto.
Qed.

Definition RowOK (ts : list tr) : Prop := schain ts /\ covers ts.

Lemma pick_transition_total trs j ts c : nth_error trs j = Some ts -> RowOK ts -> in_sigma c ->
  exists m, pick_transition trs j c = Ok m.
Proof.
  intros Hj [Hch Hcov] Hc. unfold pick_transition. rewrite Hj.
  destruct (bisect_find ts c Hch (Hcov c Hc)) as [(t & H1 & H2)|(i & t & H1 & H2 & H3)].
  - rewrite H1. assert (E : (c =? tr_first t) = true) by lia. rewrite E. eauto.
  - destruct (nth_error ts (bisect_tr ts c)) as [t0|] eqn:E0.
    + destruct (c =? tr_first t0); [eauto|]. rewrite H1, H2.
      unfold tin in H3. assert (E : ((tr_first t <=? c) && (c <=? tr_last t)) = true) by lia.
      rewrite E. eauto.
    + rewrite H1, H2. unfold tin in H3.
      assert (E : ((tr_first t <=? c) && (c <=? tr_last t)) = true) by lia. rewrite E. eauto.
Qed.

(* ================================================================== index_of *)
Lemma index_of_app_some x l l' : forall i m, index_of x l i = Some m -> index_of x (l ++ l') i = Some m.
Proof.
  induction l as [|y l IH]; intros i m; cbn; [discriminate|]. destruct (re_eqb x y); auto.
Qed.

Lemma index_of_none_app x l : forall i, index_of x l i = None ->
  index_of x (l ++ [x]) i = Some (i + length l)%nat.
Proof.
  induction l as [|y l IH]; intros i; cbn.
  - intros _. rewrite re_eqb_refl. f_equal. lia.
  - destruct (re_eqb x y); [discriminate|]. intros H. rewrite IH by assumption. f_equal. lia.
Qed.

Lemma index_of_app_inv q x l : forall i m, index_of q (l ++ [x]) i = Some m ->
  index_of q l i = Some m \/ (index_of q l i = None /\ q = x /\ m = (i + length l)%nat).
Proof.
  induction l as [|y l IH]; intros i m; cbn.
  - destruct (re_eqb q x) eqn:E; [|discriminate]. intros H. inversion H; subst.
    apply re_eqb_eq in E. right. repeat split; auto; lia.
  - destruct (re_eqb q y); [auto|]. intros H. apply IH in H.
    destruct H as [H|(H1 & H2 & H3)]; [auto|]. right. repeat split; auto; lia.
Qed.

Lemma index_of_lt x l m : index_of x l O = Some m -> (m < length l)%nat.
Proof. intros H. apply index_of_0 in H. apply nth_error_Some. congruence. Qed.

Lemma index_of_inj q q' l m : index_of q l O = Some m -> index_of q' l O = Some m -> q = q'.
Proof. intros H1 H2. apply index_of_0 in H1, H2. congruence. Qed.

Lemma index_of_self_head r l : index_of r (r :: l) O = Some O.
Proof. cbn. now rewrite re_eqb_refl. Qed.

(* ================================================================== the strengthened invariant *)
Definition tr_ok2 (states : list re) (si : re) (t : tr) : Prop :=
  tvalid t /\ forall c, tin c t -> index_of (deriv si c) states O = Some (tr_next t).

Definition Base (states : list re) (trs : list (list tr)) : Prop :=
  length trs = length states /\ Forall re_canon states /\
  forall i ts si, nth_error trs i = Some ts -> nth_error states i = Some si ->
                  Forall (tr_ok2 states si) ts.

(* ex = Some n: the row of state number n is being filled *)
Definition Pend (states : list re) (trs : list (list tr)) (stack : list re) (ex : option nat) : Prop :=
  NoDup stack /\
  (forall q, In q stack -> exists m, index_of q states O = Some m /\ ex <> Some m /\ nth_error trs m = Some []) /\
  (forall q m, index_of q states O = Some m -> ex <> Some m ->
               In q stack \/ exists ts, nth_error trs m = Some ts /\ RowOK ts).

Lemma tr_ok2_mono states l si t : tr_ok2 states si t -> tr_ok2 (states ++ l) si t.
Proof. intros [H1 H2]. split; auto. intros c Hc. apply index_of_app_some. auto. Qed.

Lemma map_pair_id (K : list (Z * Z)) (m : nat) :
  map fst (map (fun r => (fst r, snd r, m)) K) = K.
Proof. induction K as [|[a b] K IH]; cbn; [reflexivity|]. now rewrite IH. Qed.

Lemma concat_snoc (l : list iset) (x : iset) : concat (l ++ [x]) = concat l ++ x.
Proof. rewrite concat_app. cbn. now rewrite app_nil_r. Qed.

Lemma class_step_G state n K done states trs stack states' trs' stack' :
  Base states trs -> Pend states trs stack (Some n) ->
  (exists ts, nth_error trs n = Some ts /\ map fst ts = concat done) ->
  index_of state states O = Some n -> In K (classes state) ->
  class_step state n (states, trs, stack) K = (states', trs', stack') ->
  Base states' trs' /\ Pend states' trs' stack' (Some n) /\
  (exists ts, nth_error trs' n = Some ts /\ map fst ts = concat (done ++ [K])) /\
  index_of state states' O = Some n.
Proof.
  intros (Hlen & Hcan & Htr) (Hnd & Hstk & Hdone) (ts0 & Hts0 & Hmap0) Hidx HK. unfold class_step.
  pose proof (index_of_0 _ _ _ Hidx) as Hn.
  pose proof (index_of_lt _ _ _ Hidx) as Hnlt.
  destruct K as [|r0 K0] eqn:EK.
  - intros H. inversion H; subst. split; [repeat split; auto|]. split; [repeat split; auto|].
    split; auto. exists ts0. split; auto. rewrite concat_snoc. now rewrite app_nil_r.
  - rewrite <- EK in *.
    assert (Hst : re_canon state) by (rewrite Forall_forall in Hcan; eapply Hcan, nth_error_In; eauto).
    assert (HcK : canon K) by (eapply classes_canon; eauto). destruct HcK as [HvK _].
    assert (Hf0 : in_ranges (fst r0) K).
    { rewrite EK. apply in_ranges_cons. left. rewrite EK in HvK. inversion HvK; subst. unfold inr. lia. }
    set (nxt := deriv state (fst r0)).
    assert (Hnxt : re_canon nxt) by (apply deriv_canon; assumption).
    assert (Hnew : forall sts m, index_of nxt sts O = Some m ->
              Forall (tr_ok2 sts state) (map (fun r => (fst r, snd r, m)) K)).
    { intros sts m Hm. apply Forall_forall. intros t Ht. apply in_map_iff in Ht.
      destruct Ht as (r & <- & Hr). unfold tr_ok2, tvalid, tin, tr_first, tr_last, tr_next. cbn [fst snd].
      split; [unfold valid in HvK; rewrite Forall_forall in HvK; now apply HvK|].
      intros c Hc. rewrite <- Hm. f_equal. unfold nxt. apply (classes_sound state K); auto.
      apply in_ranges_alt. exists r. split; auto. }
    destruct (index_of nxt states O) as [m|] eqn:Ei.
    + (* the target state exists already *)
      intros H. inversion H; subst states' trs' stack'. clear H.
      split; [|split; [|split]]; auto.
      * split; [now rewrite upd_nth_length|]. split; [assumption|].
        intros i ts si Hi Hsi. destruct (Nat.eq_dec i n) as [->|Hne].
        -- rewrite nth_error_upd_nth_eq, Hts0 in Hi. cbn in Hi. inversion Hi; subst ts.
           rewrite Hn in Hsi. inversion Hsi; subst si.
           apply Forall_app. split; [eapply Htr; eauto|]. now apply Hnew.
        -- rewrite nth_error_upd_nth_neq in Hi by assumption. eapply Htr; eauto.
      * split; [assumption|]. split.
        -- intros q Hq. destruct (Hstk q Hq) as (k & H1 & H2 & H3). exists k. repeat split; auto.
           rewrite nth_error_upd_nth_neq; auto; congruence.
        -- intros q k Hk Hex. destruct (Hdone q k Hk Hex) as [H|(ts & H1 & H2)]; [now left|right].
           exists ts. split; auto. rewrite nth_error_upd_nth_neq; auto; congruence.
      * exists (ts0 ++ map (fun r => (fst r, snd r, m)) K). split.
        -- now rewrite nth_error_upd_nth_eq, Hts0.
        -- rewrite map_app, map_pair_id, concat_snoc. f_equal. exact Hmap0.
    + (* a new state *)
      intros H. inversion H; subst states' trs' stack'. clear H.
      pose proof (index_of_none_app nxt states O Ei) as Hm. cbn [Nat.add] in Hm.
      assert (Hrows : forall k, k <> n ->
                nth_error (upd_nth n (fun t => t ++ map (fun r => (fst r, snd r, length states)) K) (trs ++ [[]])) k
                = nth_error (trs ++ [[]]) k).
      { intros k Hk. now apply nth_error_upd_nth_neq. }
      split; [|split; [|split]].
      * split; [rewrite upd_nth_length, !app_length; cbn; lia|].
        split; [apply Forall_app; split; [assumption|constructor; [assumption|constructor]]|].
        assert (Hold : forall j ts1 sj, nth_error (trs ++ [[]]) j = Some ts1 ->
                 nth_error (states ++ [nxt]) j = Some sj -> Forall (tr_ok2 (states ++ [nxt]) sj) ts1).
        { intros j ts1 sj Hj Hsj. destruct (Nat.lt_ge_cases j (length states)) as [Hlt|Hge].
          - rewrite nth_error_app1 in Hj by lia. rewrite nth_error_app1 in Hsj by lia.
            eapply Forall_impl; [|eapply Htr; eauto]. intros t. apply tr_ok2_mono.
          - rewrite nth_error_app2 in Hj by lia.
            destruct (j - length trs)%nat as [|k] eqn:Ek; cbn in Hj.
            + inversion Hj; subst. constructor.
            + destruct k; discriminate. }
        intros i ts si Hi Hsi. destruct (Nat.eq_dec i n) as [->|Hne].
        -- rewrite nth_error_upd_nth_eq in Hi. rewrite nth_error_app1 in Hi by lia. rewrite Hts0 in Hi.
           cbn in Hi. inversion Hi; subst ts.
           rewrite (nth_error_app_some _ _ _ _ Hn) in Hsi. inversion Hsi; subst si.
           apply Forall_app. split; [|now apply Hnew].
           eapply Forall_impl; [|eapply Htr; eauto]. intros t. apply tr_ok2_mono.
        -- rewrite Hrows in Hi by assumption. eapply Hold; eauto.
      * split.
        -- constructor; [|assumption]. intros Hin. destruct (Hstk nxt Hin) as (k & H1 & _). congruence.
        -- split.
           ++ intros q [<-|Hq].
              ** exists (length states). split; [assumption|]. split; [intros E; inversion E; lia|].
                 rewrite Hrows by lia. rewrite nth_error_app2 by lia. now replace (length states - length trs)%nat with O by lia.
              ** destruct (Hstk q Hq) as (k & H1 & H2 & H3). exists k.
                 split; [now apply index_of_app_some|]. split; [assumption|].
                 rewrite Hrows by congruence. now apply nth_error_app_some.
           ++ intros q k Hk Hex. apply index_of_app_inv in Hk. cbn [Nat.add] in Hk.
              destruct Hk as [Hk|(_ & -> & _)]; [|left; now left].
              destruct (Hdone q k Hk Hex) as [H|(ts & H1 & H2)]; [left; now right|right].
              exists ts. split; auto. rewrite Hrows by congruence. now apply nth_error_app_some.
      * exists (ts0 ++ map (fun r => (fst r, snd r, length states)) K). split.
        -- rewrite nth_error_upd_nth_eq. rewrite nth_error_app1 by lia. now rewrite Hts0.
        -- rewrite map_app, map_pair_id, concat_snoc. f_equal. exact Hmap0.
      * now apply index_of_app_some.
Qed.

Lemma class_fold_G state n : forall ks done states trs stack states' trs' stack',
  (forall K, In K ks -> In K (classes state)) ->
  Base states trs -> Pend states trs stack (Some n) ->
  (exists ts, nth_error trs n = Some ts /\ map fst ts = concat done) ->
  index_of state states O = Some n ->
  fold_left (class_step state n) ks (states, trs, stack) = (states', trs', stack') ->
  Base states' trs' /\ Pend states' trs' stack' (Some n) /\
  (exists ts, nth_error trs' n = Some ts /\ map fst ts = concat (done ++ ks)) /\
  index_of state states' O = Some n /\ exists l, states' = states ++ l.
Proof.
  induction ks as [|K ks IH]; intros done states trs stack states' trs' stack' Hks HB HP HR Hi; cbn [fold_left].
  - intros H. inversion H; subst. rewrite app_nil_r. do 4 (split; [assumption|]). exists []. now rewrite app_nil_r.
  - destruct (class_step state n (states, trs, stack) K) as [[s1 t1] k1] eqn:E1.
    pose proof E1 as E1'. apply (class_step_G state n K done) in E1; auto; [|apply Hks; now left].
    destruct E1 as (HB1 & HP1 & HR1 & Hi1).
    assert (Hext : exists l, s1 = states ++ l).
    { unfold class_step in E1'. destruct K as [|r0 K0]; [inversion E1'; exists []; now rewrite app_nil_r|].
      destruct (index_of (deriv state (fst r0)) states O); inversion E1'; [exists []; now rewrite app_nil_r|eexists; reflexivity]. }
    intros H. apply (IH (done ++ [K])) in H; auto; [|intros K' HK'; apply Hks; now right].
    destruct H as (HB2 & HP2 & HR2 & Hi2 & (l2 & ->)). destruct Hext as (l1 & ->).
    rewrite <- app_assoc in HR2. cbn [app] in HR2. do 4 (split; [assumption|]).
    exists (l1 ++ l2). now rewrite app_assoc.
Qed.

Lemma FOP_of_map {A B} (f : A -> B) (R : B -> B -> Prop) l :
  ForallOrdPairs R (map f l) -> ForallOrdPairs (fun x y => R (f x) (f y)) l.
Proof.
  induction l as [|a l IH]; cbn; intros H; [constructor|]. inversion H; subst.
  constructor; [|auto]. apply Forall_forall. intros x Hx.
  match goal with H1 : Forall _ (map f l) |- _ => rewrite Forall_forall in H1; apply H1 end.
  now apply in_map.
Qed.

Lemma finish_row state n states trs stack ts :
  Base states trs -> Pend states trs stack (Some n) ->
  nth_error trs n = Some ts -> map fst ts = concat (classes state) ->
  index_of state states O = Some n ->
  Base states (upd_nth n sort_tr trs) /\ Pend states (upd_nth n sort_tr trs) stack None.
Proof.
  intros (Hlen & Hcan & Htr) (Hnd & Hstk & Hdone) Hts Hmap Hidx.
  pose proof (index_of_0 _ _ _ Hidx) as Hn.
  assert (Hst : re_canon state) by (rewrite Forall_forall in Hcan; eapply Hcan, nth_error_In; eauto).
  split.
  - split; [now rewrite upd_nth_length|]. split; [assumption|].
    intros i ts1 si Hi Hsi. destruct (Nat.eq_dec i n) as [->|Hne].
    + rewrite nth_error_upd_nth_eq, Hts in Hi. cbn in Hi. inversion Hi; subst ts1.
      apply Forall_forall. intros t Ht. apply -> sort_tr_In in Ht.
      specialize (Htr n ts si Hts Hsi). rewrite Forall_forall in Htr. auto.
    + rewrite nth_error_upd_nth_neq in Hi by assumption. eapply Htr; eauto.
  - split; [assumption|]. split.
    + intros q Hq. destruct (Hstk q Hq) as (k & H1 & H2 & H3). exists k. split; [assumption|].
      split; [discriminate|]. rewrite nth_error_upd_nth_neq; auto; congruence.
    + intros q k Hk _. destruct (Nat.eq_dec k n) as [->|Hne].
      * right. exists (sort_tr ts). split; [now rewrite nth_error_upd_nth_eq, Hts|].
        specialize (Htr n ts state Hts Hn). rewrite Forall_forall in Htr.
        split.
        -- apply schain_of.
           ++ apply sort_tr_sorted.
           ++ apply Forall_forall. intros t Ht. apply -> sort_tr_In in Ht. now apply Htr.
           ++ apply FOP_sort_tr; [apply tdisj_sym|]. unfold tdisj. apply FOP_of_map.
              change (ForallOrdPairs rdisj (map fst ts)). rewrite Hmap.
              apply concat_classes_disj; [apply classes_canon; assumption|apply classes_disjoint].
        -- intros c Hc. destruct (classes_cover state c Hc) as (K & HK & HcK).
           apply in_ranges_alt in HcK. destruct HcK as (r & Hr & Hcr).
           assert (Hin : In r (map fst ts)).
           { change (In r (map fst ts)). rewrite Hmap. apply in_concat. eauto. }
           apply in_map_iff in Hin. destruct Hin as (t & <- & Ht). exists t.
           split; [now apply sort_tr_In|]. exact Hcr.
      * destruct (Hdone q k Hk) as [H|(ts1 & H1 & H2)]; [congruence|now left|right].
        exists ts1. split; auto. rewrite nth_error_upd_nth_neq; auto.
Qed.

Lemma compile_loop_J fuel : forall states trs stack states' trs' stack',
  Base states trs -> Pend states trs stack None ->
  compile_loop fuel (states, trs, stack) = Ok (states', trs', stack') ->
  Base states' trs' /\ Pend states' trs' [] None /\ exists l, states' = states ++ l.
Proof.
  induction fuel as [|fuel IH]; intros states trs stack states' trs' stack' HB HP; cbn [compile_loop];
    [discriminate|].
  destruct stack as [|state stack0].
  - intros H. inversion H; subst. do 2 (split; [assumption|]). exists []. now rewrite app_nil_r.
  - destruct (index_of state states O) as [n|] eqn:En; [|discriminate].
    destruct HP as (Hnd & Hstk & Hdone). inversion Hnd as [|? ? Hnotin Hnd0]; subst.
    assert (Hrow : nth_error trs n = Some []).
    { destruct (Hstk state (or_introl eq_refl)) as (k & H1 & _ & H3). congruence. }
    assert (HP0 : Pend states trs stack0 (Some n)).
    { split; [assumption|]. split.
      - intros q Hq. destruct (Hstk q (or_intror Hq)) as (k & H1 & _ & H3). exists k.
        split; [assumption|]. split; [|assumption]. intros E. inversion E; subst k.
        apply Hnotin. now rewrite (index_of_inj _ _ _ _ En H1).
      - intros q k Hk Hex. destruct (Hdone q k Hk) as [[<-|H]|H]; [discriminate| |now left|now right].
        exfalso. apply Hex. congruence. }
    destruct (fold_left (class_step state n) (classes state) (states, trs, stack0)) as [[s1 t1] k1] eqn:E1.
    apply (class_fold_G state n (classes state) []) in E1; auto; [|exists []; split; auto].
    destruct E1 as (HB1 & HP1 & (ts & Hts & Hmap) & Hi1 & (l1 & ->)). cbn [app] in Hmap.
    destruct (finish_row state n _ _ _ ts HB1 HP1 Hts Hmap Hi1) as [HB2 HP2].
    intros H. apply IH in H; auto. destruct H as (HB3 & HP3 & (l2 & ->)).
    do 2 (split; [assumption|]). exists (l1 ++ l2). now rewrite app_assoc.
Qed.

(* ---- the run never fails on words over SIGMA *)
Lemma pick_transition_spec trs j ts c m : nth_error trs j = Some ts -> Forall tvalid ts ->
  pick_transition trs j c = Ok m -> exists t, In t ts /\ tr_next t = m /\ tin c t.
Proof.
  intros Hj Hv. unfold pick_transition. rewrite Hj. rewrite Forall_forall in Hv.
  set (i := bisect_tr ts c).
  assert (Hprev : match i with
            | O => Internal (OtherI 1)
            | S j0 => match nth_error ts j0 with
                      | Some t => if (tr_first t <=? c) && (c <=? tr_last t) then Ok (tr_next t) else Internal (OtherI 1)
                      | None => Internal IndexError end
            end = Ok m -> exists t, In t ts /\ tr_next t = m /\ tin c t).
  { destruct i as [|i']; [discriminate|]. destruct (nth_error ts i') as [t'|] eqn:Et'; [|discriminate].
    destruct ((tr_first t' <=? c) && (c <=? tr_last t')) eqn:Eb; [|discriminate].
    intros H. inversion H; subst m. exists t'. split; [eapply nth_error_In; eauto|]. split; auto.
    unfold tin. lia. }
  destruct (nth_error ts i) as [t|] eqn:Et; [|exact Hprev].
  destruct (c =? tr_first t) eqn:Ec; [|exact Hprev].
  intros H. inversion H; subst m. apply nth_error_In in Et. exists t. split; auto. split; auto.
  specialize (Hv t Et). unfold tin, tvalid in *. lia.
Qed.

Lemma run_from_total states trs e :
  Base states trs ->
  (forall q m, index_of q states O = Some m -> exists ts, nth_error trs m = Some ts /\ RowOK ts) ->
  forall s, Forall in_sigma s -> forall j q, index_of q states O = Some j ->
  exists b, run_from (trs, map nullable states, e) j s = Ok b.
Proof.
  intros (Hlen & Hcan & Htr) Hrows. induction s as [|c s IH]; intros Hs j q Hq; cbn [run_from].
  - apply index_of_0 in Hq. rewrite nth_error_map, Hq. cbn. eauto.
  - inversion Hs as [|? ? Hc Hs']; subst. destruct (Hrows q j Hq) as (ts & Hts & Hok).
    destruct (pick_transition_total trs j ts c Hts Hok Hc) as (m & Hm). rewrite Hm. cbn [bind].
    pose proof (index_of_0 _ _ _ Hq) as Hnq. specialize (Htr j ts q Hts Hnq).
    assert (Hv : Forall tvalid ts) by (eapply Forall_impl; [|exact Htr]; intros t [H _]; exact H).
    destruct (pick_transition_spec trs j ts c m Hts Hv Hm) as (t & Ht & <- & Hct).
    rewrite Forall_forall in Htr. destruct (Htr t Ht) as [_ Hnext].
    apply (IH Hs' (tr_next t) (deriv q c)). now apply Hnext.
Qed.

Theorem run_total fuel r d : re_canon r -> compile fuel r = Ok d ->
  forall s, Forall in_sigma s -> exists b, run d s = Ok b.
Proof.
  intros Hr. unfold compile.
  destruct (compile_loop fuel ([r], [[]], [r])) as [[[states trs] stack]| | |] eqn:Ec; cbn [bind];
    try discriminate.
  assert (HB0 : Base [r] [[]]).
  { split; [reflexivity|]. split; [constructor; [assumption|constructor]|].
    intros [|[|i]] ts si Hi Hsi; cbn in Hi; try discriminate. inversion Hi. constructor. }
  assert (HP0 : Pend [r] [[]] [r] None).
  { split; [constructor; [intros []|constructor]|]. split.
    - intros q [<-|[]]. exists O. split; [apply index_of_self_head|]. split; [discriminate|reflexivity].
    - intros q m Hm _. left. left. cbn in Hm. destruct (re_eqb q r) eqn:E; [|discriminate].
      apply re_eqb_eq in E. now subst. }
  apply compile_loop_J in Ec; auto. destruct Ec as (HB & (_ & _ & Hdone) & (l & ->)).
  destruct (index_of NULL ([r] ++ l) O) as [e|]; [|discriminate].
  intros H. inversion H; subst d. clear H. intros s Hs. unfold run.
  change (nullable r :: map nullable l) with (map nullable ([r] ++ l)).
  apply (run_from_total _ _ _ HB) with (q := r); auto.
  - intros q m Hm. destruct (Hdone q m Hm) as [[]|H]; [discriminate|exact H].
  - apply index_of_self_head.
Qed.

Theorem dfa_correct_total fuel r d : re_canon r -> compile fuel r = Ok d ->
  forall s, Forall in_sigma s -> (run d s = Ok true <-> L r s) /\ (run d s = Ok false <-> ~ L r s).
Proof.
  intros Hr Hc s Hs. destruct (run_total fuel r d Hr Hc s Hs) as (b & Hb).
  pose proof (dfa_correct fuel r d (re_canon_valid r Hr) Hc s b Hb) as H. rewrite Hb.
  destruct b.
  - split.
    + split; [intros _; apply H; reflexivity|reflexivity].
    + split; [discriminate|intros HN; exfalso; apply HN, H; reflexivity].
  - split.
    + split; [discriminate|intros HL; apply H in HL; discriminate].
    + split; [intros _ HL; apply H in HL; discriminate|reflexivity].
Qed.

(* a decidable sufficient check for the IntegerSet class invariant: sorted ranges with gaps *)
Fixpoint canonb (s : iset) : bool :=
  match s with
  | [] => true
  | r :: s' => (fst r <=? snd r) &&
               match s' with [] => true | r' :: _ => snd r <? fst r' end && canonb s'
  end.
Fixpoint re_canonb (r : re) : bool :=
  match r with
  | Eps => true
  | Sym s => canonb s
  | Star a => re_canonb a
  | Cat a b => re_canonb a && re_canonb b
  | Or a b => re_canonb a && re_canonb b
  | And a b => re_canonb a && re_canonb b
  end.

Lemma canonb_lb s : canonb s = true -> forall r, In r s ->
  match s with [] => True | r0 :: _ => fst r0 <= fst r end.
Proof.
  induction s as [|r0 s IH]; intros H r Hin; [exact I|]. destruct Hin as [->|Hin]; [lia|].
  cbn [canonb] in H. apply andb_true_iff in H. destruct H as [H Hs]. apply andb_true_iff in H.
  destruct H as [H0 H1]. specialize (IH Hs r Hin). destruct s as [|r1 s1]; [destruct Hin|]. lia.
Qed.

Lemma canonb_canon s : canonb s = true -> canon s.
Proof.
  induction s as [|r0 s IH]; intros H; [apply canon_nil|].
  pose proof (canonb_lb _ H) as Hlb.
  cbn [canonb] in H. apply andb_true_iff in H. destruct H as [H Hs]. apply andb_true_iff in H.
  destruct H as [H0 H1]. destruct (IH Hs) as [Hv Hd]. split.
  - constructor; [lia|assumption].
  - constructor; [|assumption]. apply Forall_forall. intros r Hr. left.
    pose proof (canonb_lb _ Hs r Hr) as Hlb2. destruct s as [|r1 s1]; [destruct Hr|]. lia.
Qed.

Lemma re_canonb_canon r : re_canonb r = true -> re_canon r.
Proof.
  induction r; cbn; intros H; auto; try (apply andb_true_iff in H; destruct H; split; auto).
  now apply canonb_canon.
Qed.
