(* Proofs/C25_cert.v — soundness of the certificate checker for immediate-dominator maps. *)
From Coq Require Import List Arith Bool Lia.
From PV Require Import Spec.CfgSpec Model.DomRef Proofs.C25_ref.
Import ListNotations.

Lemma anc_b_sound t : forall fuel a w, anc_b fuel t a w = true -> anc t a w.
Proof.
  induction fuel; intros a w; simpl; rewrite orb_true_iff.
  - intros [H|H]; [|discriminate]. apply Nat.eqb_eq in H. subst. constructor.
  - intros [H|H].
    + apply Nat.eqb_eq in H. subst. constructor.
    + destruct (pget t w) eqn:E; [|discriminate]. eapply anc_up; eauto.
Qed.

Lemma anc_trans t a b c : anc t a b -> anc t b c -> anc t a c.
Proof. intros H1 H2. induction H2; auto. eapply anc_up; eauto. Qed.

Lemma edge_src_bound g u v : edge g u v -> u < length g.
Proof.
  intros [H _]. destruct (Nat.lt_ge_cases u (length g)); auto.
  rewrite nth_overflow in H by auto. inversion H.
Qed.

Lemma check_parent_spec g e t : check_parent g e t = true ->
  pget t e = None /\
  forall u v, in_tree t e u = true -> edge g u v ->
    in_tree t e v = true /\ (v = e \/ exists p, pget t v = Some p /\ anc t p u).
Proof.
  unfold check_parent. rewrite andb_true_iff. intros [H1 H2]. split.
  - destruct (pget t e); auto; discriminate.
  - intros u v Hu He. rewrite forallb_forall in H2.
    assert (Hi : In u (seq 0 (length g))) by (apply in_seq; pose proof (edge_src_bound _ _ _ He); lia).
    specialize (H2 u Hi). rewrite Hu in H2. simpl in H2.
    rewrite forallb_forall in H2. specialize (H2 v (proj2 (succs_edge g u v) He)).
    apply andb_true_iff in H2. destruct H2 as [A B]. split; auto.
    apply orb_true_iff in B. destruct B as [B|B].
    + left. now apply Nat.eqb_eq.
    + right. destruct (pget t v) as [p|]; [|discriminate]. exists p. split; auto.
      eapply anc_b_sound; eauto.
Qed.

Lemma in_tree_entry t e : in_tree t e e = true.
Proof. unfold in_tree. now rewrite Nat.eqb_refl. Qed.

Lemma parent_closed g e t : check_parent g e t = true ->
  forall u l w, path g u l w -> in_tree t e u = true -> in_tree t e w = true.
Proof.
  intros Hc u l w Hp. induction Hp; auto. intros Hu. apply IHHp.
  eapply (proj2 (check_parent_spec _ _ _ Hc)); eauto.
Qed.

Lemma parent_paths g e t : check_parent g e t = true ->
  forall u l w, path g u l w -> in_tree t e u = true ->
  forall a, anc t a w -> In a l \/ anc t a u.
Proof.
  intros Hc. destruct (check_parent_spec _ _ _ Hc) as [He Hedge].
  intros u l w Hp. induction Hp; intros Hu a Ha; auto.
  destruct (Hedge u w Hu H) as [Hw Hpar].
  destruct (IHHp Hw a Ha) as [Hin|Hanc].
  - left. simpl; auto.
  - destruct (path_head _ _ _ _ Hp) as [l' ->].
    inversion Hanc; subst.
    + left. simpl; auto.
    + destruct Hpar as [->|[p' [Hp' Hanc']]]; [congruence|].
      rewrite Hp' in H0. inversion H0; subst. right. eapply anc_trans; eauto.
Qed.

(* structural part alone: every ancestor in a map with the parent property is a dominator *)
Theorem cert_parent_sound g e t : check_parent g e t = true ->
  forall w a, reachable g e w -> anc t a w -> dominates g e a w.
Proof.
  intros Hc w a _ Ha l Hp.
  destruct (parent_paths g e t Hc e l w Hp (in_tree_entry t e) a Ha) as [|Hanc]; auto.
  destruct (check_parent_spec _ _ _ Hc) as [He _].
  destruct (path_head _ _ _ _ Hp) as [l' ->].
  inversion Hanc; subst; [simpl; auto|congruence].
Qed.

Lemma reachable_node_bound g e w : reachable g e w -> w <> e -> w < length g.
Proof.
  intros [l Hp] Hne.
  destruct (path_bound _ _ _ _ Hp w (path_last_In _ _ _ _ Hp)); [congruence|auto].
Qed.

(* full checker: the map is exactly the immediate-dominator map on the reachable nodes *)
Theorem cert_sound g e t : check_idom g e t = true ->
  forall w, reachable g e w -> w <> e -> exists d, pget t w = Some d /\ is_idom g e d w.
Proof.
  unfold check_idom. cbv zeta. rewrite andb_true_iff. intros [Hc Heq] w Hr Hne.
  pose proof (reachable_node_bound _ _ _ Hr Hne) as Hlt.
  destruct Hr as [l Hp].
  pose proof (parent_closed _ _ _ Hc _ _ _ Hp (in_tree_entry t e)) as Hin.
  unfold in_tree in Hin. apply orb_true_iff in Hin. destruct Hin as [Hin|Hin].
  - apply Nat.eqb_eq in Hin. congruence.
  - destruct (pget t w) as [d|] eqn:Ed; [|discriminate]. exists d. split; auto.
    rewrite forallb_forall in Heq.
    assert (Hi : In w (seq 0 (length g))) by (apply in_seq; lia).
    specialize (Heq w Hi). rewrite Ed in Heq.
    destruct (nth w (idom_list g e) None) as [d2|] eqn:E2; simpl in Heq; [|discriminate].
    apply Nat.eqb_eq in Heq. subst d2. now apply idom_list_sound.
Qed.

(* with an exact idom map, the tree-ancestor relation IS dominance (on reachable nodes);
   this is what ppci's interval test on the dominator tree decides *)
Lemma tree_anc_complete g e t :
  (forall w, reachable g e w -> w <> e -> exists d, pget t w = Some d /\ is_idom g e d w) ->
  forall k l w a, length l <= k -> path g e l w -> dominates g e a w -> anc t a w.
Proof.
  intros Hid. induction k; intros l w a Hk Hp Hd.
  - destruct Hp; simpl in Hk; lia.
  - destruct (Nat.eq_dec a w) as [->|Hne]; [constructor|].
    destruct (Nat.eq_dec w e) as [->|Hwe].
    + specialize (Hd [e] (path_one g e)). destruct Hd as [->|[]]. congruence.
    + destruct (Hid w (ex_intro _ l Hp) Hwe) as [d [Ed [[Hdw Hdne] Hmax]]].
      eapply anc_up; eauto.
      destruct (path_split _ _ _ _ _ Hp (Hdw l Hp)) as [l1 [l2 [-> [P1 P2]]]].
      assert (l2 <> []).
      { intros ->. inversion P2; subst; [congruence|].
        match goal with H : path _ _ [] _ |- _ => inversion H end. }
      assert (length l1 <= k).
      { rewrite app_length in Hk. destruct l2; [congruence|]. simpl in Hk. lia. }
      eapply (IHk l1 d a); eauto. apply Hmax. split; auto.
Qed.

Theorem cert_tree_dominance g e t : check_idom g e t = true ->
  forall w a, reachable g e w -> (anc t a w <-> dominates g e a w).
Proof.
  intros Hc w a Hr. split.
  - apply cert_parent_sound; auto.
    unfold check_idom in Hc. cbv zeta in Hc. apply andb_true_iff in Hc. tauto.
  - destruct Hr as [l Hp]. intros Hd.
    eapply (tree_anc_complete g e t (cert_sound g e t Hc) (length l) l); eauto.
Qed.
