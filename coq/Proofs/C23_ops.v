(* Proofs/C23_ops.v — the operator selection of ppci2wasm against WasmNumSpec / IRSem (C23). *)
From Coq Require Import ZArith List Bool Lia Znumtheory.
Import ListNotations.
From PV Require Import Lib.Py Lib.Tac.
From PV Require Import Spec.IRSyntax Spec.IRSem Spec.WasmNumSpec Model.Ir2WasmOps.
Open Scope Z_scope.

Ltac pows :=
  repeat match goal with
  | |- context [Z.pow_pos ?b ?n] =>
      let v := eval vm_compute in (Z.pow_pos b n) in change (Z.pow_pos b n) with v
  | H : context [Z.pow_pos ?b ?n] |- _ =>
      let v := eval vm_compute in (Z.pow_pos b n) in change (Z.pow_pos b n) with v in H
  | |- context [2 ^ ?n] =>
      lazymatch n with
      | context [Z.modulo] => fail
      | _ => let v := eval vm_compute in (2 ^ n) in
             lazymatch v with Zpos _ => change (2 ^ n) with v end
      end
  | H : context [2 ^ ?n] |- _ =>
      lazymatch n with
      | context [Z.modulo] => fail
      | _ => let v := eval vm_compute in (2 ^ n) in
             lazymatch v with Zpos _ => change (2 ^ n) with v in H end
      end
  end.

(* ---- quotient / remainder bounds (nonlinear facts handed to lia as hypotheses) *)
Lemma quot_bound : forall a b, b <> 0 -> - Z.abs a <= Z.quot a b <= Z.abs a.
Proof.
  intros a b Hb.
  assert (A : Z.abs (Z.quot a b) <= Z.abs a).
  { rewrite <- Z.quot_abs by assumption.
    destruct (Z.eq_dec (Z.abs b) 1) as [E|E].
    - rewrite E, Z.quot_1_r. lia.
    - destruct (Z.eq_dec a 0) as [->|Ha]; [rewrite Z.quot_0_l; lia|].
      apply Z.lt_le_incl. apply Z.quot_lt; lia. }
  lia.
Qed.

Lemma quot_min : forall P b, 0 < P -> b <> 0 -> b <> -1 -> Z.quot (- P) b < P.
Proof.
  intros P b HP Hb Hb1.
  destruct (Z_lt_le_dec 0 b) as [Pos|Neg].
  - assert (Z.quot (- P) b <= 0); [|lia].
    rewrite Z.quot_opp_l by lia.
    assert (0 <= Z.quot P b) by (apply Z.quot_pos; lia). lia.
  - replace b with (- (- b)) by lia. rewrite Z.quot_opp_opp by lia.
    apply Z.quot_lt; lia.
Qed.

Lemma rem_bound : forall a b, b <> 0 -> - Z.abs a <= Z.rem a b <= Z.abs a.
Proof.
  intros a b Hb.
  assert (A : Z.abs (Z.rem a b) <= Z.abs a).
  { rewrite <- Z.rem_abs by assumption. apply Z.rem_le; lia. }
  lia.
Qed.

Lemma rem_sign : forall a b, b <> 0 -> (0 <= a -> 0 <= Z.rem a b) /\ (a <= 0 -> Z.rem a b <= 0).
Proof.
  intros a b Hb. split; intros H.
  - apply Z.rem_nonneg; lia.
  - apply Z.rem_nonpos; lia.
Qed.

Lemma quot_sign : forall a b, 0 <= a -> 0 < b -> 0 <= Z.quot a b.
Proof. intros. apply Z.quot_pos; lia. Qed.

Lemma shr_range : forall a b lo hi, 0 <= b -> lo <= 0 -> 0 < hi -> lo <= a < hi ->
  lo <= a / 2 ^ b < hi.
Proof.
  intros a b lo hi Hb Hlo Hhi Ha.
  assert (P : 0 < 2 ^ b) by (apply Z.pow_pos_nonneg; lia).
  generalize dependent (2 ^ b). intros p P.
  split.
  - apply Z.div_le_lower_bound; nia.
  - apply Z.div_lt_upper_bound; nia.
Qed.

(* ---- bitwise operations: closure of the value ranges, compatibility with mod 2^N *)
Lemma range_s_shiftr : forall k x, 0 <= k ->
  (- 2 ^ k <= x < 2 ^ k) <-> (Z.shiftr x k = 0 \/ Z.shiftr x k = -1).
Proof.
  intros k x Hk. rewrite Z.shiftr_div_pow2 by assumption.
  assert (P : 0 < 2 ^ k) by (apply Z.pow_pos_nonneg; lia).
  generalize dependent (2 ^ k). intros p P.
  pose proof (Z.div_mod x p ltac:(lia)). pose proof (Z.mod_pos_bound x p P).
  split; intros; nia.
Qed.
Lemma range_u_shiftr : forall k x, 0 <= k ->
  (0 <= x < 2 ^ k) <-> Z.shiftr x k = 0.
Proof.
  intros k x Hk. rewrite Z.shiftr_div_pow2 by assumption.
  assert (P : 0 < 2 ^ k) by (apply Z.pow_pos_nonneg; lia).
  generalize dependent (2 ^ k). intros p P.
  pose proof (Z.div_mod x p ltac:(lia)). pose proof (Z.mod_pos_bound x p P).
  split; intros; nia.
Qed.

Lemma bit_range_s : forall (f : Z -> Z -> Z) k a b, 0 <= k ->
  (forall x y, Z.shiftr (f x y) k = f (Z.shiftr x k) (Z.shiftr y k)) ->
  (f 0 0 = 0 \/ f 0 0 = -1) -> (f 0 (-1) = 0 \/ f 0 (-1) = -1) ->
  (f (-1) 0 = 0 \/ f (-1) 0 = -1) -> (f (-1) (-1) = 0 \/ f (-1) (-1) = -1) ->
  - 2 ^ k <= a < 2 ^ k -> - 2 ^ k <= b < 2 ^ k -> - 2 ^ k <= f a b < 2 ^ k.
Proof.
  intros f k a b Hk Hs H00 H01 H10 H11 Ha Hb.
  apply range_s_shiftr in Ha; auto. apply range_s_shiftr in Hb; auto.
  apply range_s_shiftr; auto. rewrite Hs.
  destruct Ha as [-> | ->], Hb as [-> | ->]; assumption.
Qed.
Lemma bit_range_u : forall (f : Z -> Z -> Z) k a b, 0 <= k ->
  (forall x y, Z.shiftr (f x y) k = f (Z.shiftr x k) (Z.shiftr y k)) ->
  f 0 0 = 0 ->
  0 <= a < 2 ^ k -> 0 <= b < 2 ^ k -> 0 <= f a b < 2 ^ k.
Proof.
  intros f k a b Hk Hs H00 Ha Hb.
  apply range_u_shiftr in Ha; auto. apply range_u_shiftr in Hb; auto.
  apply range_u_shiftr; auto. rewrite Hs, Ha, Hb. assumption.
Qed.

Lemma land_mod : forall n a b, 0 <= n ->
  Z.land (a mod 2 ^ n) (b mod 2 ^ n) = (Z.land a b) mod 2 ^ n.
Proof.
  intros. rewrite <- !Z.land_ones by assumption.
  apply Z.bits_inj'. intros i Hi. rewrite !Z.land_spec.
  destruct (Z.testbit a i), (Z.testbit b i), (Z.testbit (Z.ones n) i); reflexivity.
Qed.
Lemma lor_mod : forall n a b, 0 <= n ->
  Z.lor (a mod 2 ^ n) (b mod 2 ^ n) = (Z.lor a b) mod 2 ^ n.
Proof.
  intros. rewrite <- !Z.land_ones by assumption.
  apply Z.bits_inj'. intros i Hi. rewrite !Z.land_spec, !Z.lor_spec, !Z.land_spec.
  destruct (Z.testbit a i), (Z.testbit b i), (Z.testbit (Z.ones n) i); reflexivity.
Qed.
Lemma lxor_mod : forall n a b, 0 <= n ->
  Z.lxor (a mod 2 ^ n) (b mod 2 ^ n) = (Z.lxor a b) mod 2 ^ n.
Proof.
  intros. rewrite <- !Z.land_ones by assumption.
  apply Z.bits_inj'. intros i Hi. rewrite !Z.land_spec, !Z.lxor_spec, !Z.land_spec.
  destruct (Z.testbit a i), (Z.testbit b i), (Z.testbit (Z.ones n) i); reflexivity.
Qed.

Lemma land_range_s : forall k a b, 0 <= k ->
  - 2 ^ k <= a < 2 ^ k -> - 2 ^ k <= b < 2 ^ k -> - 2 ^ k <= Z.land a b < 2 ^ k.
Proof.
  intros. apply (bit_range_s Z.land); auto; try (intros; apply Z.shiftr_land);
    vm_compute; auto.
Qed.
Lemma lor_range_s : forall k a b, 0 <= k ->
  - 2 ^ k <= a < 2 ^ k -> - 2 ^ k <= b < 2 ^ k -> - 2 ^ k <= Z.lor a b < 2 ^ k.
Proof.
  intros. apply (bit_range_s Z.lor); auto; try (intros; apply Z.shiftr_lor);
    vm_compute; auto.
Qed.
Lemma lxor_range_s : forall k a b, 0 <= k ->
  - 2 ^ k <= a < 2 ^ k -> - 2 ^ k <= b < 2 ^ k -> - 2 ^ k <= Z.lxor a b < 2 ^ k.
Proof.
  intros. apply (bit_range_s Z.lxor); auto; try (intros; apply Z.shiftr_lxor);
    vm_compute; auto.
Qed.
Lemma land_range_u : forall k a b, 0 <= k ->
  0 <= a < 2 ^ k -> 0 <= b < 2 ^ k -> 0 <= Z.land a b < 2 ^ k.
Proof. intros. apply (bit_range_u Z.land); auto. intros; apply Z.shiftr_land. Qed.
Lemma lor_range_u : forall k a b, 0 <= k ->
  0 <= a < 2 ^ k -> 0 <= b < 2 ^ k -> 0 <= Z.lor a b < 2 ^ k.
Proof. intros. apply (bit_range_u Z.lor); auto. intros; apply Z.shiftr_lor. Qed.
Lemma lxor_range_u : forall k a b, 0 <= k ->
  0 <= a < 2 ^ k -> 0 <= b < 2 ^ k -> 0 <= Z.lxor a b < 2 ^ k.
Proof. intros. apply (bit_range_u Z.lxor); auto. intros; apply Z.shiftr_lxor. Qed.

Lemma quot_range_s : forall P a b, 0 < P -> - P <= a < P -> b <> 0 ->
  ~ (a = - P /\ b = -1) -> - P <= Z.quot a b < P.
Proof.
  intros P a b HP Ha Hb Hx. pose proof (quot_bound a b Hb).
  destruct (Z.eq_dec a (- P)) as [->|Na]; [|lia].
  destruct (Z.eq_dec b (-1)) as [->|Nb]; [tauto|].
  pose proof (quot_min P b HP Hb Nb). lia.
Qed.
Lemma rem_range_s : forall P a b, 0 < P -> - P <= a < P -> b <> 0 -> - P <= Z.rem a b < P.
Proof.
  intros P a b HP Ha Hb. pose proof (rem_bound a b Hb). pose proof (rem_sign a b Hb). lia.
Qed.
Lemma quot_range_u : forall P a b, 0 <= a < P -> 0 < b -> 0 <= Z.quot a b < P.
Proof.
  intros P a b Ha Hb. pose proof (quot_bound a b ltac:(lia)).
  pose proof (quot_sign a b ltac:(lia) Hb). lia.
Qed.
Lemma rem_range_u : forall P a b, 0 <= a < P -> 0 < b -> 0 <= Z.rem a b < P.
Proof.
  intros P a b Ha Hb. pose proof (rem_bound a b ltac:(lia)).
  pose proof (rem_sign a b ltac:(lia)). lia.
Qed.

Definition markA (x : Z) : Prop := True.
Definition markB (x : Z) : Prop := True.

Section Rows.
Variable c : cfg.
Hypothesis Hp : ptr_bytes c = 4.

Ltac start cw :=
  exists cw; split; [reflexivity|];
  let a := fresh "a" in let b := fresh "b" in let z := fresh "z" in
  let Ha := fresh "Ha" in let Hb := fresh "Hb" in let E := fresh "E" in
  intros a b z Ha Hb E;
  pose proof (I : markA a); pose proof (I : markB b);
  unfold in_range_ty, eval_binop, int_shape in *; rewrite ?Hp in *;
  simpl in Ha, Hb, E; pows;
  repeat match type of E with
         | (if ?x then _ else _) = _ => destruct x eqn:?; try discriminate
         end;
  inversion E; subst z; clear E;
  cbn [wop_sem bin_sem bits]; unfold rep; cbn [bits].

Ltac with_ab tac :=
  lazymatch goal with
  | _ : markA ?a, _ : markB ?b, Ha : _ <= ?a < _, Hb : _ <= ?b < _ |- _ => tac a b Ha Hb
  end.

Ltac sgn := unfold signed, unsigned; pows;
  repeat match goal with |- context [if ?x <? ?y then _ else _] => destruct (x <? y) eqn:? end.

Ltac splitifs :=
  repeat match goal with
         | |- context [if ?x then _ else _] => destruct x eqn:?
         end.
Ltac fin := unfold wrap_bits, wrap, unsigned; pows; cbn [andb]; splitifs; try f_equal; try lia.

Ltac cw_of t := lazymatch t with
  | I8 => constr:(W32) | U8 => constr:(W32) | I16 => constr:(W32) | U16 => constr:(W32)
  | I32 => constr:(W32) | Ptr => constr:(W32) | _ => constr:(W64) end.
(* exponent k: signed range [-2^k, 2^k), unsigned range [0, 2^k) *)
Ltac k_of t := lazymatch t with
  | I8 => constr:(7) | I16 => constr:(15) | I32 => constr:(31) | I64 => constr:(63)
  | U8 => constr:(8) | U16 => constr:(16) | U32 => constr:(32) | U64 => constr:(64)
  | Ptr => constr:(32) end.
Ltac n_of w := lazymatch w with W32 => constr:(32) | W64 => constr:(64) end.

Ltac unsign w a :=
  let n := n_of w in
  replace (signed n (a mod 2 ^ n)) with a by (sgn; lia).

Ltac t_addsub t := let w := cw_of t in start w; unfold iadd, isub; fin.
Ltac t_mul t := let w := cw_of t in start w; unfold imul, wrap; cbn [bits];
  rewrite <- Zmult_mod; fin.
Ltac t_div_s t := let w := cw_of t in let k := k_of t in start w; unfold idiv_s;
  with_ab ltac:(fun a b Ha Hb =>
  unsign w a; unsign w b; cbv zeta;
  pose proof (quot_range_s (2 ^ k) a b) as QR; pows;
  set (Q := Z.quot a b) in *; clearbody Q; fin).
Ltac t_rem_s t := let w := cw_of t in let k := k_of t in start w; unfold irem_s;
  with_ab ltac:(fun a b Ha Hb =>
  unsign w a; unsign w b; cbv zeta;
  pose proof (rem_range_s (2 ^ k) a b) as QR; pows;
  set (Q := Z.rem a b) in *; clearbody Q; fin).
Ltac t_div_u t := let w := cw_of t in let k := k_of t in start w; unfold idiv_u;
  with_ab ltac:(fun a b Ha Hb =>
  pose proof (quot_range_u (2 ^ k) a b) as QR; pows;
  replace (a mod _) with a by lia; replace (b mod _) with b by lia;
  set (Q := Z.quot a b) in *; clearbody Q; fin).
Ltac t_rem_u t := let w := cw_of t in let k := k_of t in start w; unfold irem_u;
  with_ab ltac:(fun a b Ha Hb =>
  pose proof (rem_range_u (2 ^ k) a b) as QR; pows;
  replace (a mod _) with a by lia; replace (b mod _) with b by lia;
  set (Q := Z.rem a b) in *; clearbody Q; fin).
Ltac t_bit t modl rs ru := let w := cw_of t in let k := k_of t in let n := n_of w in start w;
  with_ab ltac:(fun a b Ha Hb =>
  unfold iand, ior, ixor; rewrite (modl n) by lia;
  first [ pose proof (rs k a b ltac:(lia)) as QR; pows; specialize (QR Ha Hb)
        | pose proof (ru k a b ltac:(lia)) as QR; pows; specialize (QR Ha Hb) ];
  match goal with |- context [(?f a b) mod _] => set (Q := f a b) in *; clearbody Q end; fin).
Ltac t_shl t := let w := cw_of t in start w; unfold ishl, wrap;
  with_ab ltac:(fun a b Ha Hb =>
  replace ((b mod _) mod _) with b by lia;
  rewrite Zmult_mod_idemp_l;
  set (Q := a * 2 ^ b) in *; clearbody Q; fin).
Ltac t_shr_s t := let w := cw_of t in let k := k_of t in start w; unfold ishr_s;
  with_ab ltac:(fun a b Ha Hb =>
  unsign w a; replace ((b mod _) mod _) with b by lia;
  pose proof (shr_range a b (- 2 ^ k) (2 ^ k)) as QR; pows;
  set (Q := a / 2 ^ b) in *; clearbody Q; fin).
Ltac t_shr_u t := let w := cw_of t in let k := k_of t in start w; unfold ishr_u;
  with_ab ltac:(fun a b Ha Hb =>
  replace ((b mod _) mod _) with b by lia; replace (a mod _) with a by lia;
  pose proof (shr_range a b 0 (2 ^ k)) as QR; pows;
  set (Q := a / 2 ^ b) in *; clearbody Q; fin).

Ltac row_ty := lazymatch goal with |- exact_row _ (_, ?t, _) => t | |- wrap_row _ (_, ?t, _) => t end.

Ltac dispatch :=
  let t := row_ty in
  lazymatch goal with
  | |- exact_row _ (IRSyntax.Add, _, _) => t_addsub t
  | |- exact_row _ (IRSyntax.Sub, _, _) => t_addsub t
  | |- exact_row _ (IRSyntax.Mul, _, _) => t_mul t
  | |- exact_row _ (IRSyntax.Div, _, Bin _ DivS) => t_div_s t
  | |- exact_row _ (IRSyntax.Div, _, Bin _ DivU) => t_div_u t
  | |- exact_row _ (IRSyntax.Rem, _, Bin _ RemS) => t_rem_s t
  | |- exact_row _ (IRSyntax.Rem, _, Bin _ RemU) => t_rem_u t
  | |- exact_row _ (IRSyntax.And, _, _) => t_bit t land_mod land_range_s land_range_u
  | |- exact_row _ (IRSyntax.Or, _, _) => t_bit t lor_mod lor_range_s lor_range_u
  | |- exact_row _ (IRSyntax.Xor, _, _) => t_bit t lxor_mod lxor_range_s lxor_range_u
  | |- exact_row _ (IRSyntax.Shl, _, _) => t_shl t
  | |- exact_row _ (IRSyntax.Shr, _, Bin _ ShrS) => t_shr_s t
  | |- exact_row _ (IRSyntax.Shr, _, Bin _ ShrU) => t_shr_u t
  end.

Theorem select_exact : forall o t w,
  select_binop o t = Some w -> inexact o t = false -> exact_row c (o, t, w).
Proof.
  intros o t w S I.
  destruct o; destruct t; simpl in S, I; try discriminate; inversion S; subst w; clear S I.
  all: dispatch.
Qed.

(* ---- the inexact rows of the narrow types: correct after re-wrapping *)
Lemma wrap_bits_congr : forall n sg x y, x mod 2 ^ n = y mod 2 ^ n -> wrap_bits n sg x = wrap_bits n sg y.
Proof. intros. unfold wrap_bits. rewrite H. reflexivity. Qed.

Ltac startw cw :=
  exists cw; split; [reflexivity|];
  let a := fresh "a" in let b := fresh "b" in let z := fresh "z" in
  let Ha := fresh "Ha" in let Hb := fresh "Hb" in let E := fresh "E" in
  intros a b z Ha Hb E;
  pose proof (I : markA a); pose proof (I : markB b);
  unfold in_range_ty, eval_binop, int_shape in *; rewrite ?Hp in *;
  simpl in Ha, Hb, E; pows;
  repeat match type of E with
         | (if ?x then _ else _) = _ => destruct x eqn:?; try discriminate
         end;
  inversion E; subst z; clear E;
  eexists; split; [reflexivity|];
  unfold wrap_ty, int_shape; cbn [ty_is_int ty_bits ty_signed]; f_equal;
  apply wrap_bits_congr; unfold rep; cbn [bits].

Ltac w_addsub t := let w := cw_of t in startw w; unfold iadd, isub, wrap; pows; lia.
Ltac w_mul t := let w := cw_of t in startw w; unfold imul, wrap;
  with_ab ltac:(fun a b Ha Hb =>
  rewrite <- Zmult_mod; set (Q := a * b) in *; clearbody Q; pows; lia).
Ltac w_shl t := let w := cw_of t in startw w; unfold ishl, wrap;
  with_ab ltac:(fun a b Ha Hb =>
  replace ((b mod _) mod _) with b by (pows; lia);
  rewrite Zmult_mod_idemp_l; set (Q := a * 2 ^ b) in *; clearbody Q; pows; lia).

Theorem select_wrap : forall o t w,
  select_binop o t = Some w -> inexact o t = true -> signed_on_unsigned o t = false ->
  wrap_row c (o, t, w).
Proof.
  intros o t w S I U.
  destruct o; destruct t; simpl in S, I, U; try discriminate; inversion S; subst w; clear S I U.
  all: let t := row_ty in
       lazymatch goal with
       | |- wrap_row _ (IRSyntax.Add, _, _) => w_addsub t
       | |- wrap_row _ (IRSyntax.Sub, _, _) => w_addsub t
       | |- wrap_row _ (IRSyntax.Mul, _, _) => w_mul t
       | |- wrap_row _ (IRSyntax.Shl, _, _) => w_shl t
       end.
Qed.

(* ---- witnesses: the narrow rows are not exact, the ptr rows not even up to wrapping *)
Theorem add_i8_not_exact : ~ exact_row c (IRSyntax.Add, I8, Bin W32 WasmNumSpec.Add).
Proof.
  intros [cw [C H]]. inversion C; subst cw.
  specialize (H 127 1 (-128)). unfold in_range_ty, int_shape in H. simpl in H.
  specialize (H ltac:(lia) ltac:(lia) eq_refl). vm_compute in H. discriminate.
Qed.
Theorem add_u32_not_exact : ~ exact_row c (IRSyntax.Add, U32, Bin W64 WasmNumSpec.Add).
Proof.
  intros [cw [C H]]. inversion C; subst cw.
  specialize (H 4294967295 1 0). unfold in_range_ty, int_shape in H. simpl in H.
  specialize (H ltac:(lia) ltac:(lia) eq_refl). vm_compute in H. discriminate.
Qed.
Theorem shr_ptr_wrong : ~ wrap_row c (IRSyntax.Shr, Ptr, Bin W32 ShrS).
Proof.
  intros [cw [C H]]. inversion C; subst cw.
  specialize (H 2147483648 1 1073741824).
  unfold in_range_ty, eval_binop, int_shape in H. rewrite Hp in H. simpl in H.
  destruct (H ltac:(lia) ltac:(lia) eq_refl) as [x [A B]].
  vm_compute in A. inversion A; subst x.
  unfold wrap_ty, int_shape in B. rewrite Hp in B. vm_compute in B. discriminate.
Qed.

(* ---- comparisons of CJMP *)
Definition cmp_ok (cc : cond) (t : ty) : bool :=
  match t with
  | Ptr => match cc with Ceq | Cne => true | _ => false end   (* signed compare of unsigned ptr *)
  | _ => true
  end.

Theorem select_cmp_sound : forall cc t w,
  select_cmp cc t = Some w -> cmp_ok cc t = true -> cmp_row c cc t w.
Proof.
  intros cc t w S K.
  destruct cc; destruct t; simpl in S, K; try discriminate; inversion S; subst w; clear S K.
  all: lazymatch goal with |- cmp_row _ _ ?t _ => let w := cw_of t in exists w end;
       (split; [reflexivity|]); intros a b Ha Hb;
       unfold in_range_ty, int_shape in *; rewrite ?Hp in *; simpl in Ha, Hb; pows;
       cbn [wop_sem rel_sem bits]; unfold rep; cbn [bits]; f_equal;
       unfold ieq, ine, ilt_s, ilt_u, igt_s, igt_u, ile_s, ile_u, ige_s, ige_u, bool_i, signed,
         eval_cond; pows; splitifs;
       repeat match goal with H : context [if ?x then _ else _] |- _ => destruct x eqn:? end;
       lia.
Qed.
End Rows.
