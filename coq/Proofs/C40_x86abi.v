(* Proofs/C40_x86abi.v — lemmas for property C40 (x86-64 System V ABI; partial).
   Bridge between the hand model (Model/X86Abi.v over Gen/Tab_x86abi.v) and Spec/SysVSpec.v. *)
From PV Require Import Lib.Py Lib.Tac Spec.SysVSpec Model.X86AbiTypes Gen.Tab_x86abi Model.X86Abi.
From Coq Require Import String.
Open Scope Z_scope.

(* ------------------------------------------------------------------ abstraction functions *)
(* the C type a ppci IR type stands for *)
Definition sty_of (t : ity) : sty :=
  match t with
  | I8 => SInt true 1 | I16 => SInt true 2 | I32 => SInt true 4 | I64 => SInt true 8
  | U8 => SInt false 1 | U16 => SInt false 2 | U32 => SInt false 4 | U64 => SInt false 8
  | PTR => SPtr | F32 => SFloat | F64 => SDouble
  end.

(* the physical register a ppci Register object denotes (its num is the hardware encoding) *)
Definition phys (r : reg) : preg :=
  match rclass r with
  | R8c => phys_of_byte (rnum r)
  | R16c | R32c | R64c => phys_of_wide (rnum r)
  | XSc | XDc => PX (rnum r)
  end.

(* StackLocation offsets are relative to the callee's rbp (= rsp at the call - 16) *)
Definition abs_loc (l : aloc) : aplace :=
  match l with LReg r => AReg (phys r) | LStack off _ => AStack (off - 16) end.

(* the types of the arguments that the psABI passes in memory *)
Definition stack_passed_from (ni nf : nat) (stk : Z) (tys : list ity) : list ity :=
  flat_map (fun x => match snd x with AStack _ => [fst x] | AReg _ => [] end)
           (combine tys (sysv_assign ni nf stk (map sty_of tys))).
Definition stack_passed (tys : list ity) : list ity := stack_passed_from 0 0 0 tys.

(* ------------------------------------------------------------------ generic list facts *)
Lemma skipn_nth_error {A} (l : list A) n :
  skipn n l = match nth_error l n with Some x => x :: skipn (S n) l | None => [] end.
Proof.
  revert n; induction l as [|a l IH]; intros [|n]; cbn; try reflexivity. apply IH.
Qed.

Lemma nth_error_map_eq {A B C} (f : A -> C) (g : B -> C) la lb n :
  map f la = map g lb -> option_map f (nth_error la n) = option_map g (nth_error lb n).
Proof.
  intros H. rewrite <- !nth_error_map. now rewrite H.
Qed.

Lemma classify_sty_of t : classify (sty_of t) = if is_int_ty t then INTEGER else SSE.
Proof. destruct t; reflexivity. Qed.

(* ------------------------------------------------------------------ argument locations *)
Section ArgLocs.
  Variables (int_slot : Z) (fp_slot : ity -> Z) (IR FR : list (reg * reg)).
  Hypothesis Hint : int_slot = 8.
  Hypothesis HIR : map (fun p => (phys (fst p), phys (snd p))) IR
                   = map (fun g => (PG (gpr_num g), PG (gpr_num g))) int_arg_sequence.
  Hypothesis HFR : map (fun p => (phys (fst p), phys (snd p))) FR
                   = map (fun n => (PX (Z.of_nat n), PX (Z.of_nat n))) (seq 0 8).

  Lemma int_reg_at ni :
    match nth_error IR ni with
    | Some p => exists g, nth_error int_arg_sequence ni = Some g /\
                          phys (fst p) = PG (gpr_num g) /\ phys (snd p) = PG (gpr_num g)
    | None => nth_error int_arg_sequence ni = None
    end.
  Proof.
    pose proof (nth_error_map_eq _ _ _ _ ni HIR) as H.
    destruct (nth_error IR ni) as [p|], (nth_error int_arg_sequence ni) as [g|]; cbn in H; try discriminate.
    - exists g. inversion H. auto.
    - reflexivity.
  Qed.

  Lemma float_reg_at nf :
    match nth_error FR nf with
    | Some p => (Z.of_nat nf <? sse_arg_count) = true /\
                phys (fst p) = PX (Z.of_nat nf) /\ phys (snd p) = PX (Z.of_nat nf)
    | None => (Z.of_nat nf <? sse_arg_count) = false
    end.
  Proof.
    pose proof (nth_error_map_eq _ _ _ _ nf HFR) as H.
    destruct (Nat.lt_ge_cases nf 8) as [Hlt|Hge].
    - rewrite (nth_error_nth' (seq 0 8) 0%nat) in H by (rewrite seq_length; exact Hlt).
      rewrite seq_nth in H by exact Hlt. cbn [plus] in H.
      destruct (nth_error FR nf) as [p|]; cbn in H; [|discriminate].
      inversion H. unfold sse_arg_count. repeat split; try assumption. lia.
    - assert (Hn : nth_error (seq 0 8) nf = None) by (apply nth_error_None; rewrite seq_length; exact Hge).
      rewrite Hn in H. destruct (nth_error FR nf); cbn in H; [discriminate|].
      unfold sse_arg_count. lia.
  Qed.

  Lemma arg_locs_general tys : forall ni nf stk,
    (forall t, In t (stack_passed_from ni nf stk tys) -> is_int_ty t = false -> fp_slot t = 8) ->
    map abs_loc (arg_locs_go int_slot fp_slot (skipn ni IR) (skipn nf FR) (16 + stk) tys)
    = sysv_assign ni nf stk (map sty_of tys).
  Proof.
    induction tys as [|t rest IH]; intros ni nf stk Hs; [reflexivity|].
    cbn [arg_locs_go map sysv_assign]. rewrite classify_sty_of.
    unfold stack_passed_from in Hs. cbn [map sysv_assign combine] in Hs. rewrite classify_sty_of in Hs.
    destruct (is_int_ty t) eqn:Hty.
    - rewrite (skipn_nth_error IR ni). pose proof (int_reg_at ni) as Hr.
      destruct (nth_error IR ni) as [p|].
      + destruct Hr as (g & Hg & H1 & H2). rewrite Hg in *. cbn [map abs_loc]. f_equal.
        * destruct (is_32_ty t); cbn [phys]; now rewrite ?H1, ?H2.
        * apply IH. intros t' Hin. apply Hs. cbn [flat_map snd]. exact Hin.
      + rewrite Hr in *. cbn [map abs_loc]. f_equal; [f_equal; lia|].
        replace (16 + stk + int_slot) with (16 + (stk + 8)) by lia.
        replace (@nil (reg * reg)) with (skipn ni IR).
        * apply IH. intros t' Hin. apply Hs. cbn [flat_map snd fst app]. right. exact Hin.
        * rewrite (skipn_nth_error IR ni). destruct (nth_error IR ni) eqn:E; [|reflexivity].
          pose proof (int_reg_at ni) as Hr'. rewrite E in Hr'. destruct Hr' as (g & Hg & _). congruence.
    - rewrite (skipn_nth_error FR nf). pose proof (float_reg_at nf) as Hr.
      destruct (nth_error FR nf) as [p|] eqn:E.
      + destruct Hr as (Hlt & H1 & H2). rewrite Hlt in *. cbn [map abs_loc]. f_equal.
        * destruct t; cbn [phys]; try discriminate; now rewrite ?H1, ?H2.
        * apply IH. intros t' Hin. apply Hs. cbn [flat_map snd]. exact Hin.
      + rewrite Hr in *. cbn [map abs_loc]. f_equal; [f_equal; lia|].
        assert (Hsl : fp_slot t = 8) by (apply Hs; [cbn [flat_map snd fst app]; left; reflexivity|exact Hty]).
        rewrite Hsl. replace (16 + stk + 8) with (16 + (stk + 8)) by lia.
        replace (@nil (reg * reg)) with (skipn nf FR) by (rewrite (skipn_nth_error FR nf), E; reflexivity).
        apply IH. intros t' Hin. apply Hs. cbn [flat_map snd fst app]. right. exact Hin.
  Qed.
End ArgLocs.

(* ---- the exported tables satisfy the hypotheses of the section (re-checked on every regeneration) *)
Lemma tab_int_regs_ok :
  map (fun p => (phys (fst p), phys (snd p))) tab_int_regs
  = map (fun g => (PG (gpr_num g), PG (gpr_num g))) int_arg_sequence.
Proof. vm_compute. reflexivity. Qed.

Lemma tab_float_regs_ok :
  map (fun p => (phys (fst p), phys (snd p))) tab_float_regs
  = map (fun n => (PX (Z.of_nat n), PX (Z.of_nat n))) (seq 0 8).
Proof. vm_compute. reflexivity. Qed.

Lemma tab_int_slot_ok : tab_int_slot = 8.
Proof. reflexivity. Qed.

Lemma tab_fp_slot_f64_ok : tab_fp_slot F64 = 8.
Proof. reflexivity. Qed.

(* determine_arg_locations as it is in the tree, outside the region where a slot size matters *)
Lemma arg_locations_current tys :
  (forall t, In t (stack_passed tys) -> is_int_ty t = false -> tab_fp_slot t = 8) ->
  map abs_loc (determine_arg_locations tys) = sysv_arg_places (map sty_of tys).
Proof.
  intros H. unfold determine_arg_locations, sysv_arg_places.
  exact (arg_locs_general tab_int_slot tab_fp_slot tab_int_regs tab_float_regs
           tab_int_slot_ok tab_int_regs_ok tab_float_regs_ok tys 0%nat 0%nat 0 H).
Qed.

Lemma arg_locations_no_f32_on_stack tys :
  ~ In F32 (stack_passed tys) ->
  map abs_loc (determine_arg_locations tys) = sysv_arg_places (map sty_of tys).
Proof.
  intros H. apply arg_locations_current. intros t Hin Hty.
  destruct t; try discriminate; [contradiction|exact tab_fp_slot_f64_ok].
Qed.

(* the same walk with 8-byte slots for every stack-passed scalar: equal to the psABI for ALL signatures *)
Lemma arg_locations_slot8 tys :
  map abs_loc (arg_locs_go tab_int_slot (fun _ => 8) tab_int_regs tab_float_regs 16 tys)
  = sysv_arg_places (map sty_of tys).
Proof.
  unfold sysv_arg_places.
  exact (arg_locs_general tab_int_slot (fun _ => 8) tab_int_regs tab_float_regs
           tab_int_slot_ok tab_int_regs_ok tab_float_regs_ok tys 0%nat 0%nat 0 (fun _ _ _ => eq_refl)).
Qed.

(* the walk with slot = size of the type (info.get_size): NOT the psABI *)
Lemma arg_locations_typesize_refuted :
  exists tys, map abs_loc (arg_locs_go tab_int_slot tab_type_size tab_int_regs tab_float_regs 16 tys)
              <> sysv_arg_places (map sty_of tys).
Proof.
  exists (repeat F32 10). vm_compute. intros H. inversion H.
Qed.

Lemma rv_location_ok t : phys (determine_rv_location t) = sysv_return_place (sty_of t).
Proof. destruct t; reflexivity. Qed.

(* ------------------------------------------------------------------ register tables (reflection) *)
Lemma forallb_In {A} (f : A -> bool) l : forallb f l = true -> forall x, In x l -> f x = true.
Proof. intros H x Hx. rewrite forallb_forall in H. auto. Qed.

Definition covered_by (tab : list reg) (r : reg) : bool :=
  existsb (fun c => existsb (reg_eqb r) (alias_of c)) tab.

Lemma reg_eqb_eq a b : reg_eqb a b = true -> a = b.
Proof.
  destruct a as [na ia ca], b as [nb ib cb]. unfold reg_eqb. cbn.
  rewrite !andb_true_iff. intros [[Hn Hi] Hc].
  apply String.eqb_eq in Hn. apply Z.eqb_eq in Hi. subst.
  destruct ca, cb; try discriminate; reflexivity.
Qed.

Lemma covered_by_spec tab r :
  covered_by tab r = true -> exists c, In c tab /\ In r (alias_of c).
Proof.
  unfold covered_by. rewrite existsb_exists. intros (c & Hc & H).
  rewrite existsb_exists in H. destruct H as (a & Ha & He). apply reg_eqb_eq in He. subst a.
  exists c. auto.
Qed.

(* every allocatable register that lives in an ABI-callee-saved physical register is an alias of
   an entry of callee_save (so frame.is_used sees it) *)
Lemma callee_saved_covers_tab :
  forallb (fun r => implb (abi_callee_saved (phys r)) (covered_by tab_callee_save r)) tab_allocatable = true.
Proof. vm_compute. reflexivity. Qed.

(* every other allocatable register is an alias of an entry of caller_save (the clobber list of Call) *)
Lemma caller_saved_covers_tab :
  forallb (fun r => implb (negb (abi_callee_saved (phys r))) (covered_by tab_caller_save r)) tab_allocatable = true.
Proof. vm_compute. reflexivity. Qed.

(* ppci's alias sets agree with the hardware: an alias of c lives in the same physical register *)
Lemma alias_table_sound_tab :
  forallb (fun c => forallb (fun a => preg_eqb (phys a) (phys c)) (alias_of c))
          (tab_callee_save ++ tab_caller_save) = true.
Proof. vm_compute. reflexivity. Qed.

(* nothing the ABI requires to be preserved is in the clobber list, rbp/rsp are never allocated *)
Lemma allocatable_excludes_sp_fp_tab :
  forallb (fun r => negb (preg_eqb (phys r) (PG (gpr_num RSP))) && negb (preg_eqb (phys r) (PG (gpr_num RBP))))
          tab_allocatable = true.
Proof. vm_compute. reflexivity. Qed.

Lemma preg_eqb_eq a b : preg_eqb a b = true -> a = b.
Proof. destruct a, b; cbn; try discriminate; intros H; apply Z.eqb_eq in H; now subst. Qed.

Lemma callee_saved_covers r used :
  In r tab_allocatable -> abi_callee_saved (phys r) = true -> In r used ->
  exists c, In c (get_callee_saved used) /\ phys c = phys r.
Proof.
  intros Hal Habi Hu.
  pose proof (forallb_In _ _ callee_saved_covers_tab r Hal) as H. cbn beta in H.
  rewrite Habi in H. cbn [implb] in H. apply covered_by_spec in H. destruct H as (c & Hc & Hr).
  exists c. split.
  - unfold get_callee_saved. apply filter_In. split; [exact Hc|].
    unfold is_used. apply existsb_exists. exists r. split; [exact Hr|].
    apply existsb_exists. exists r. split; [exact Hu|].
    destruct r as [n i k]. unfold reg_eqb. cbn. rewrite String.eqb_refl, Z.eqb_refl. destruct k; reflexivity.
  - pose proof (forallb_In _ _ alias_table_sound_tab c) as Hs. cbn beta in Hs.
    assert (Hin : In c (tab_callee_save ++ tab_caller_save)) by (apply in_or_app; left; exact Hc).
    specialize (Hs Hin). pose proof (forallb_In _ _ Hs r Hr) as He. cbn beta in He.
    symmetry. now apply preg_eqb_eq.
Qed.

Lemma caller_saved_covers r :
  In r tab_allocatable -> abi_callee_saved (phys r) = false ->
  exists c, In c tab_caller_save /\ In r (alias_of c) /\ phys c = phys r.
Proof.
  intros Hal Habi.
  pose proof (forallb_In _ _ caller_saved_covers_tab r Hal) as H. cbn beta in H.
  rewrite Habi in H. cbn [implb negb] in H. apply covered_by_spec in H. destruct H as (c & Hc & Hr).
  exists c. repeat split; try assumption.
  pose proof (forallb_In _ _ alias_table_sound_tab c) as Hs. cbn beta in Hs.
  assert (Hin : In c (tab_callee_save ++ tab_caller_save)) by (apply in_or_app; right; exact Hc).
  specialize (Hs Hin). pose proof (forallb_In _ _ Hs r Hr) as He. cbn beta in He.
  symmetry. now apply preg_eqb_eq.
Qed.

(* ------------------------------------------------------------------ abstract operations -> machine *)
Definition abs_op (o : mop) : list sop :=
  match o with
  | MLabel => []
  | MPush r => match rclass r with
               | XDc => [SPushX 8 (phys r)] | XSc => [SPushX 4 (phys r)] | _ => [SPush (phys r)] end
  | MPop r => match rclass r with
              | XDc => [SPopX 8 (phys r)] | XSc => [SPopX 4 (phys r)] | _ => [SPop (phys r)] end
  | MPushArg i => [SPushVal (VArg i)]
  | MSub n => [SSub n]
  | MAdd n => [SAdd n]
  | MMovFpSp => [SMovFpSp]
  | MArgToReg r i => [SSetReg (phys r) (VArg i)]
  | MCall => []          (* call pushes the return address, the callee's ret pops it: no net effect on rsp *)
  | MRvFrom _ => []
  | MArgFromReg _ _ => []
  | MArgFromStack _ _ _ => []
  | MRet => [SRet]
  end.
Definition abs_ops (l : list mop) : list sop := flat_map abs_op l.

(* registers whose push/pop moves rsp by 8 = bitsize/8, as saved_size assumes *)
Definition push8 (r : reg) : bool := match rclass r with R64c | XDc => true | _ => false end.

Lemma run_app s l1 l2 :
  run s (l1 ++ l2) = match run s l1 with Some s1 => run s1 l2 | None => None end.
Proof.
  revert s; induction l1 as [|o l1 IH]; intros s; cbn; [reflexivity|].
  destruct (step s o); [apply IH|reflexivity].
Qed.

Lemma abs_ops_app l1 l2 : abs_ops (l1 ++ l2) = abs_ops l1 ++ abs_ops l2.
Proof. unfold abs_ops. apply flat_map_app. Qed.

Lemma run_push8 r s k : push8 r = true ->
  run s (abs_op (MPush r) ++ k)
  = run (mkst (st_rsp s - 8) (st_reg s) (upd_mem (st_mem s) (st_rsp s - 8) (st_reg s (phys r)))) k.
Proof. unfold push8, abs_op. destruct (rclass r); intros H; try discriminate; reflexivity. Qed.

Lemma run_pop8 r s v : push8 r = true -> st_mem s (st_rsp s) = Some v ->
  run s (abs_op (MPop r)) = Some (mkst (st_rsp s + 8) (upd_reg (st_reg s) (phys r) v) (st_mem s)).
Proof.
  unfold push8, abs_op. destruct (rclass r); intros H Hm; try discriminate; cbn; rewrite Hm; reflexivity.
Qed.

Lemma saved_size_push8 saved : forallb push8 saved = true -> saved_size_of saved = 8 * len saved.
Proof.
  unfold saved_size_of, len. induction saved as [|r l IH]; intros H; [reflexivity|].
  cbn [forallb] in H. apply andb_true_iff in H. destruct H as [Hr Hl].
  cbn [map sumZ]. rewrite (IH Hl). unfold push8 in Hr.
  destruct (rclass r); try discriminate; cbn [rcls_bits Datatypes.length]; rewrite Nat2Z.inj_succ;
    change (64 / 8) with 8; lia.
Qed.

(* pushes ; body ; pops in reverse order: rsp, the pushed registers, every register the body does not
   touch, and the memory outside the locals area and above rsp are as before *)
Lemma bracket saved : forallb push8 saved = true ->
  forall s b locals clob, st_reg s fp = VAddr b -> st_rsp s <= b - locals -> 0 <= locals ->
  exists s', run s (abs_ops (map MPush saved) ++ [SBody locals clob] ++ abs_ops (map MPop (rev saved))) = Some s'
    /\ st_rsp s' = st_rsp s
    /\ (forall p, existsb (preg_eqb p) clob = false \/ In p (map phys saved) -> st_reg s' p = st_reg s p)
    /\ (forall a, (st_rsp s <= a /\ a <= b - locals - 8) \/ b <= a -> st_mem s' a = st_mem s a).
Proof.
  induction saved as [|r rest IH]; intros Hp s b locals clob Hfp Hsp Hl.
  - cbn [map abs_ops flat_map rev app run step]. rewrite Hfp. eexists. split; [reflexivity|].
    cbn [st_rsp st_reg st_mem]. split; [reflexivity|]. split.
    + intros p [Hc|[]]. now rewrite Hc.
    + intros a Ha.
      replace (((b - locals - 8 <? a) && (a <? b)) || (a <? st_rsp s)) with false; [reflexivity|].
      symmetry. apply orb_false_iff. split; [apply andb_false_iff|]; lia.
  - cbn [forallb] in Hp. apply andb_true_iff in Hp. destruct Hp as [Hr Hrest].
    cbn [map rev]. rewrite map_app, abs_ops_app. cbn [map]. unfold abs_ops at 1. cbn [flat_map].
    fold (abs_ops (map MPush rest)). rewrite <- app_assoc. rewrite (run_push8 r s _ Hr).
    set (s1 := mkst (st_rsp s - 8) (st_reg s) (upd_mem (st_mem s) (st_rsp s - 8) (st_reg s (phys r)))).
    destruct (IH Hrest s1 b locals clob) as (s2 & Hrun & Hrsp & Hregs & Hmem); try (subst s1; cbn; lia || assumption).
    replace (abs_ops (map MPush rest) ++ [SBody locals clob] ++ abs_ops (map MPop (rev rest)) ++ abs_ops [MPop r])
      with ((abs_ops (map MPush rest) ++ [SBody locals clob] ++ abs_ops (map MPop (rev rest))) ++ abs_ops [MPop r])
      by (rewrite <- !app_assoc; reflexivity).
    rewrite run_app, Hrun.
    assert (Hslot : st_mem s2 (st_rsp s2) = Some (st_reg s (phys r))).
    { rewrite Hrsp, Hmem by (subst s1; cbn; lia). subst s1. cbn [st_mem st_rsp]. unfold upd_mem. now rewrite Z.eqb_refl. }
    unfold abs_ops. cbn [flat_map]. rewrite app_nil_r. rewrite (run_pop8 r s2 _ Hr Hslot).
    eexists. split; [reflexivity|]. cbn [st_rsp st_reg st_mem]. split; [rewrite Hrsp; subst s1; cbn; lia|]. split.
    + intros p Hpq. unfold upd_reg. destruct (preg_eqb p (phys r)) eqn:E.
      * apply preg_eqb_eq in E. now subst p.
      * rewrite Hregs; [reflexivity|]. destruct Hpq as [Hc|Hin]; [left; exact Hc|].
        cbn [map In] in Hin. destruct Hin as [He|Hin]; [|right; exact Hin].
        subst p. destruct (phys r); cbn in E; rewrite Z.eqb_refl in E; discriminate.
    + intros a Ha. rewrite Hmem by (subst s1; cbn; lia). subst s1. cbn. unfold upd_mem.
      destruct (a =? st_rsp s - 8) eqn:E; [lia|reflexivity].
Qed.

(* ------------------------------------------------------------------ frames *)
Definition adj_ops_sub (o : option Z) : list sop := match o with Some n => [SSub n] | None => [] end.
Definition adj_ops_add (o : option Z) : list sop := match o with Some n => [SAdd n] | None => [] end.
Definition adj_val (o : option Z) : Z := match o with Some n => n | None => 0 end.

Lemma tab_rbp_ok : phys tab_rbp = fp /\ push8 tab_rbp = true.
Proof. split; reflexivity. Qed.

Lemma abs_prologue stacksize saved :
  abs_ops (prologue_of stacksize saved)
  = [SPush fp; SMovFpSp] ++ adj_ops_sub (frame_adjust stacksize (saved_size_of saved)) ++ abs_ops (map MPush saved).
Proof.
  unfold prologue_of. rewrite !abs_ops_app. destruct (frame_adjust _ _); reflexivity.
Qed.

Lemma abs_epilogue stacksize saved :
  abs_ops (epilogue_of stacksize saved)
  = abs_ops (map MPop (rev saved)) ++ adj_ops_add (frame_adjust stacksize (saved_size_of saved)) ++ [SPop fp; SRet].
Proof.
  unfold epilogue_of. rewrite !abs_ops_app. destruct (frame_adjust _ _); reflexivity.
Qed.

Lemma run_adj_sub o r g m k : run (mkst r g m) (adj_ops_sub o ++ k) = run (mkst (r - adj_val o) g m) k.
Proof. destruct o; cbn [adj_ops_sub adj_val app run step st_rsp st_reg st_mem]; [reflexivity|now rewrite Z.sub_0_r]. Qed.

Lemma run_adj_add o r g m k : run (mkst r g m) (adj_ops_add o ++ k) = run (mkst (r + adj_val o) g m) k.
Proof. destruct o; cbn [adj_ops_add adj_val app run step st_rsp st_reg st_mem]; [reflexivity|now rewrite Z.add_0_r]. Qed.

(* the stack adjustment covers the locals and makes (adjustment + saved registers) a multiple of 16 *)
Lemma frame_adjust_facts stacksize saved : 0 <= stacksize -> forallb push8 saved = true ->
  let n := adj_val (frame_adjust stacksize (saved_size_of saved)) in
  stacksize <= n /\ (n + saved_size_of saved) mod 16 = 0.
Proof.
  intros Hs Hp. rewrite (saved_size_push8 _ Hp). unfold frame_adjust, round_up16.
  set (k := len saved).
  destruct (stacksize >? 0) eqn:E1; cbn [adj_val].
  - lia.
  - destruct (8 * k mod 16 =? 0) eqn:E2; cbn [negb adj_val]; lia.
Qed.

Lemma frame_balanced stacksize saved clob rsp0 m :
  0 <= stacksize -> forallb push8 saved = true ->
  exists s',
    run (entry_state rsp0 m)
        (abs_ops (prologue_of stacksize saved) ++ [SBody stacksize clob] ++ abs_ops (epilogue_of stacksize saved))
    = Some s'
    /\ st_rsp s' = rsp0 + 8
    /\ (forall p, p = fp \/ In p (map phys saved) \/ existsb (preg_eqb p) clob = false -> st_reg s' p = VInit p)
    /\ (forall a, rsp0 <= a -> st_mem s' a = st_mem (entry_state rsp0 m) a).
Proof.
  intros Hs Hp. destruct (frame_adjust_facts stacksize saved Hs Hp) as [Hn _].
  rewrite abs_prologue, abs_epilogue.
  set (o := frame_adjust stacksize (saved_size_of saved)) in *. set (n := adj_val o) in *.
  unfold entry_state. cbn [app run step st_rsp st_reg st_mem].
  rewrite <- app_assoc. rewrite run_adj_sub. fold n.
  set (M0 := upd_mem m rsp0 VRetAddr).
  set (M1 := upd_mem M0 (rsp0 - 8) (VInit fp)).
  set (R2 := upd_reg VInit fp (VAddr (rsp0 - 8))).
  set (s3 := mkst (rsp0 - 8 - n) R2 M1).
  destruct (bracket saved Hp s3 (rsp0 - 8) stacksize clob) as (s4 & Hrun & Hrsp & Hregs & Hmem);
    try (subst s3 R2; cbn; lia || reflexivity).
  replace (abs_ops (map MPush saved) ++ SBody stacksize clob :: abs_ops (map MPop (rev saved)) ++ adj_ops_add o ++ [SPop fp; SRet])
    with ((abs_ops (map MPush saved) ++ [SBody stacksize clob] ++ abs_ops (map MPop (rev saved))) ++ adj_ops_add o ++ [SPop fp; SRet])
    by (rewrite <- !app_assoc; reflexivity).
  rewrite run_app, Hrun. destruct s4 as [r4 g4 m4]. cbn [st_rsp st_reg st_mem] in *.
  rewrite run_adj_add. fold n. subst r4. subst s3. cbn [st_rsp st_reg st_mem] in *.
  replace (rsp0 - 8 - n + n) with (rsp0 - 8) by lia.
  assert (Hb : m4 (rsp0 - 8) = Some (VInit fp)).
  { rewrite Hmem by lia. subst M1. unfold upd_mem. now rewrite Z.eqb_refl. }
  assert (Hr : m4 (rsp0 - 8 + 8) = Some VRetAddr).
  { rewrite Hmem by lia. subst M1 M0. unfold upd_mem.
    replace (rsp0 - 8 + 8 =? rsp0 - 8) with false by lia. replace (rsp0 - 8 + 8 =? rsp0) with true by lia. reflexivity. }
  cbn [run step st_rsp st_reg st_mem]. rewrite Hb. cbn [run step st_rsp st_reg st_mem]. rewrite Hr.
  eexists. split; [reflexivity|]. cbn [st_rsp st_reg st_mem]. split; [lia|]. split.
  - intros p Hpq. unfold upd_reg at 1. destruct (preg_eqb p fp) eqn:E.
    + apply preg_eqb_eq in E. now subst p.
    + rewrite Hregs.
      * subst R2. unfold upd_reg. now rewrite E.
      * destruct Hpq as [He|[Hin|Hc]]; [subst p; discriminate|right; exact Hin|left; exact Hc].
  - intros a Ha. rewrite Hmem by lia. subst M1. unfold upd_mem at 1.
    replace (a =? rsp0 - 8) with false by lia. reflexivity.
Qed.

(* rsp after the prologue of a function entered with the ABI's alignment is 16-byte aligned *)
Lemma run_pushes8 saved : forallb push8 saved = true -> forall s,
  exists s', run s (abs_ops (map MPush saved)) = Some s' /\ st_rsp s' = st_rsp s - 8 * len saved
             /\ st_reg s' = st_reg s.
Proof.
  induction saved as [|r rest IH]; intros Hp s.
  - exists s. cbn. split; [reflexivity|]. split; [lia|reflexivity].
  - cbn [forallb] in Hp. apply andb_true_iff in Hp. destruct Hp as [Hr Hrest].
    cbn [map]. unfold abs_ops. cbn [flat_map]. fold (abs_ops (map MPush rest)).
    rewrite (run_push8 r s _ Hr).
    destruct (IH Hrest (mkst (st_rsp s - 8) (st_reg s) (upd_mem (st_mem s) (st_rsp s - 8) (st_reg s (phys r)))))
      as (s' & Hrun & Hrsp & Hreg).
    exists s'. split; [exact Hrun|]. cbn [st_rsp st_reg] in *. split; [|exact Hreg].
    unfold len in *. cbn [Datatypes.length]. lia.
Qed.

Lemma prologue_aligned stacksize saved rsp0 m :
  0 <= stacksize -> forallb push8 saved = true -> entry_aligned rsp0 ->
  exists s, run (entry_state rsp0 m) (abs_ops (prologue_of stacksize saved)) = Some s
            /\ aligned16 (st_rsp s) /\ st_reg s fp = VAddr (rsp0 - 8)
            /\ st_rsp s <= rsp0 - 8 - stacksize.
Proof.
  intros Hs Hp Ha. destruct (frame_adjust_facts stacksize saved Hs Hp) as [Hn Hm].
  rewrite abs_prologue. unfold entry_state. cbn [app run step st_rsp st_reg st_mem].
  rewrite run_adj_sub.
  set (s3 := mkst _ _ _).
  destruct (run_pushes8 saved Hp s3) as (s' & Hrun & Hrsp & Hreg).
  exists s'. split; [exact Hrun|]. rewrite Hrsp, Hreg. subst s3. cbn [st_rsp st_reg].
  pose proof (saved_size_push8 _ Hp) as E. unfold aligned16, entry_aligned in *.
  set (n := adj_val _) in *. set (k := len saved) in *. set (z := saved_size_of saved) in *.
  split; [|split; [reflexivity|]].
  - lia.
  - assert (0 <= k) by (subst k; unfold len; lia). lia.
Qed.

(* ------------------------------------------------------------------ calls *)
Fixpoint before_call (l : list mop) : list mop :=
  match l with
  | [] => []
  | MCall :: _ => []
  | o :: r => o :: before_call r
  end.

Definition no_call (o : mop) : Prop := o <> MCall.

Lemma before_call_app pre post : Forall no_call pre -> before_call (pre ++ MCall :: post) = pre.
Proof.
  induction pre as [|o pre IH]; intros H; [reflexivity|].
  inversion H; subst. cbn. unfold no_call in *. destruct o; try congruence; now rewrite IH.
Qed.

Lemma map_res_ok {A B} (f : A -> result B) l r :
  map_res f l = Ok r -> Forall2 (fun a b => f a = Ok b) l r.
Proof.
  revert r; induction l as [|a l IH]; intros r H; cbn in H.
  - inversion H. constructor.
  - destruct (f a) as [b| | |] eqn:Ea; cbn in H; try discriminate.
    destruct (map_res f l) as [bs| | |] eqn:El; cbn in H; try discriminate.
    inversion H; subst. constructor; [exact Ea|apply IH; reflexivity].
Qed.

Lemma pushes_shape l r : map_res push_mem_arg l = Ok r -> r = map (fun x => MPushArg (fst x)) l.
Proof.
  intros H. apply map_res_ok in H. induction H as [|a b l r Hab H IH]; [reflexivity|].
  rewrite IH. unfold push_mem_arg in Hab.
  destruct (snd a); destruct tab_call_push_small, tab_call_push_fp; try discriminate;
    injection Hab as <-; reflexivity.
Qed.

Definition is_argtoreg (o : mop) : Prop := exists r i, o = MArgToReg r i.

Lemma moves_shape l r : map_res move_reg_arg l = Ok r -> Forall is_argtoreg r.
Proof.
  intros H. apply map_res_ok in H. induction H as [|a b l r Hab H IH]; constructor; [|exact IH].
  unfold move_reg_arg in Hab.
  destruct (rclass (fst a)), (snd (snd a)); try discriminate; inversion Hab; eexists; eexists; reflexivity.
Qed.

Definition call_mem (tys : list ity) : list (nat * rcls) := mem_args_of (arg_items tys).

Lemma gen_call_shape tys rv ops : gen_call tys rv = Ok ops ->
  let ss := 8 * len (call_mem tys) in
  let padded := negb (ss mod 16 =? 0) in
  exists moves,
    ops = (if padded then [MSub (ss mod 16)] else [])
          ++ map MPushArg (rev (map fst (call_mem tys))) ++ moves ++ [MCall]
          ++ match rv with Some t => [MRvFrom (determine_rv_location t)] | None => [] end
          ++ (if (if padded then ss + ss mod 16 else ss) =? 0 then []
              else [MAdd (if padded then ss + ss mod 16 else ss)])
    /\ Forall is_argtoreg moves.
Proof.
  unfold gen_call, call_mem, call_stack_size, call_padding. intros H.
  destruct (map_res push_mem_arg (rev (mem_args_of (arg_items tys)))) as [pushes| | |] eqn:Ep; unfold bind at 1 in H; try discriminate.
  destruct (map_res move_reg_arg (reg_args_of (arg_items tys))) as [moves| | |] eqn:Em; unfold bind at 1 in H; try discriminate.
  injection H as H. subst ops.
  apply pushes_shape in Ep. subst pushes. apply moves_shape in Em.
  exists moves. split; [|exact Em].
  replace (map MPushArg (rev (map fst (mem_args_of (arg_items tys)))))
      with (map (fun x : nat * rcls => MPushArg (fst x)) (rev (mem_args_of (arg_items tys))))
      by (rewrite <- map_rev, map_map; reflexivity).
  reflexivity.
Qed.

(* pushing the memory arguments right to left puts the k-th one at rsp + 8k *)
Lemma run_pushargs l : forall s,
  exists s', run s (abs_ops (map MPushArg (rev l))) = Some s'
    /\ st_rsp s' = st_rsp s - 8 * len l /\ st_reg s' = st_reg s
    /\ (forall k i, nth_error l k = Some i -> st_mem s' (st_rsp s' + 8 * Z.of_nat k) = Some (VArg i))
    /\ (forall a, st_rsp s <= a -> st_mem s' a = st_mem s a).
Proof.
  induction l as [|a l IH]; intros s.
  - exists s. cbn. split; [reflexivity|]. split; [lia|]. split; [reflexivity|]. split; [|reflexivity].
    intros [|k] i H; discriminate.
  - cbn [rev]. rewrite map_app, abs_ops_app. destruct (IH s) as (s1 & Hrun & Hrsp & Hreg & Hmem & Hab).
    rewrite run_app, Hrun. cbn [map abs_ops flat_map abs_op app run step].
    eexists. split; [reflexivity|]. cbn [st_rsp st_reg st_mem].
    unfold len in *. cbn [Datatypes.length]. split; [lia|]. split; [exact Hreg|]. split.
    + intros [|k] i Hn; cbn [nth_error] in Hn; unfold upd_mem.
      * inversion Hn; subst. replace (st_rsp s1 - 8 + 8 * Z.of_nat 0 =? st_rsp s1 - 8) with true by lia. reflexivity.
      * replace (st_rsp s1 - 8 + 8 * Z.of_nat (S k) =? st_rsp s1 - 8) with false by lia.
        replace (st_rsp s1 - 8 + 8 * Z.of_nat (S k)) with (st_rsp s1 + 8 * Z.of_nat k) by lia.
        now apply Hmem.
    + intros b Hb. unfold upd_mem. replace (b =? st_rsp s1 - 8) with false by lia. apply Hab. exact Hb.
Qed.

Lemma run_setregs moves : Forall is_argtoreg moves -> forall s,
  exists s', run s (abs_ops moves) = Some s' /\ st_rsp s' = st_rsp s /\ st_mem s' = st_mem s.
Proof.
  induction 1 as [|o moves Ho H IH]; intros s.
  - exists s. cbn. auto.
  - destruct Ho as (r & i & ->). unfold abs_ops. cbn [flat_map abs_op app run step]. fold (abs_ops moves).
    destruct (IH (mkst (st_rsp s) (upd_reg (st_reg s) (phys r) (VArg i)) (st_mem s))) as (s' & Hr & H1 & H2).
    exists s'. auto.
Qed.

Lemma pushargs_no_call l : Forall no_call (map MPushArg l).
Proof. apply Forall_forall. intros o Ho. apply in_map_iff in Ho. destruct Ho as (i & <- & _). discriminate. Qed.

Lemma moves_no_call moves : Forall is_argtoreg moves -> Forall no_call moves.
Proof. intros H. eapply Forall_impl; [|exact H]. intros o (r & i & ->). discriminate. Qed.

(* state at the call instruction: rsp, the pushed arguments, the caller's stack *)
Lemma call_state tys rv ops s : gen_call tys rv = Ok ops ->
  let ss := 8 * len (call_mem tys) in
  let pad := if negb (ss mod 16 =? 0) then ss mod 16 else 0 in
  exists s', run s (abs_ops (before_call ops)) = Some s'
    /\ st_rsp s' = st_rsp s - pad - ss
    /\ (forall k i, nth_error (map fst (call_mem tys)) k = Some i ->
                    st_mem s' (st_rsp s' + 8 * Z.of_nat k) = Some (VArg i))
    /\ (forall a, st_rsp s <= a -> st_mem s' a = st_mem s a).
Proof.
  intros H. destruct (gen_call_shape _ _ _ H) as (moves & -> & Hmv). cbn zeta.
  set (ss := 8 * len (call_mem tys)). set (padded := negb (ss mod 16 =? 0)).
  set (padops := if padded then [MSub (ss mod 16)] else []).
  replace (padops ++ map MPushArg (rev (map fst (call_mem tys))) ++ moves ++ [MCall] ++
           match rv with Some t => [MRvFrom (determine_rv_location t)] | None => [] end ++
           (if (if padded then ss + ss mod 16 else ss) =? 0 then [] else [MAdd (if padded then ss + ss mod 16 else ss)]))
    with ((padops ++ map MPushArg (rev (map fst (call_mem tys))) ++ moves) ++ MCall ::
           (match rv with Some t => [MRvFrom (determine_rv_location t)] | None => [] end ++
           (if (if padded then ss + ss mod 16 else ss) =? 0 then [] else [MAdd (if padded then ss + ss mod 16 else ss)])))
    by (rewrite <- !app_assoc; reflexivity).
  rewrite before_call_app.
  2:{ apply Forall_app. split; [subst padops; destruct padded; repeat constructor; discriminate|].
      apply Forall_app. split; [apply pushargs_no_call|apply moves_no_call; exact Hmv]. }
  rewrite !abs_ops_app, !run_app.
  set (s0 := mkst (st_rsp s - (if padded then ss mod 16 else 0)) (st_reg s) (st_mem s)).
  assert (Hpad : run s (abs_ops padops) = Some s0 \/ (padded = false /\ run s (abs_ops padops) = Some s)).
  { subst padops s0. destruct padded; [left; reflexivity|right; split; reflexivity]. }
  assert (Hlen : len (map fst (call_mem tys)) = len (call_mem tys)) by (unfold len; now rewrite map_length).
  destruct Hpad as [Hpad|[Hf Hpad]]; rewrite Hpad.
  - destruct (run_pushargs (map fst (call_mem tys)) s0) as (s1 & Hr1 & Hrsp1 & _ & Hm1 & Ha1). rewrite run_app, Hr1.
    destruct (run_setregs moves Hmv s1) as (s2 & Hr2 & Hrsp2 & Hm2). rewrite Hr2.
    eexists. split; [reflexivity|]. subst s0. cbn [st_rsp st_mem] in *.
    split; [rewrite Hrsp2, Hrsp1, Hlen; fold ss; lia|].
    split; [intros k i Hk; rewrite Hm2, Hrsp2; apply Hm1; exact Hk|].
    intros a Ha. rewrite Hm2. apply Ha1. assert (0 <= ss mod 16) by (apply Z.mod_pos_bound; lia). destruct padded; lia.
  - destruct (run_pushargs (map fst (call_mem tys)) s) as (s1 & Hr1 & Hrsp1 & _ & Hm1 & Ha1). rewrite run_app, Hr1.
    destruct (run_setregs moves Hmv s1) as (s2 & Hr2 & Hrsp2 & Hm2). rewrite Hr2.
    eexists. split; [reflexivity|]. rewrite Hf.
    split; [rewrite Hrsp2, Hrsp1, Hlen; fold ss; lia|].
    split; [intros k i Hk; rewrite Hm2, Hrsp2; apply Hm1; exact Hk|].
    intros a Ha. rewrite Hm2. apply Ha1. exact Ha.
Qed.

Lemma call_alignment tys rv ops s : gen_call tys rv = Ok ops -> aligned16 (st_rsp s) ->
  exists s', run s (abs_ops (before_call ops)) = Some s' /\ aligned16 (st_rsp s').
Proof.
  intros H Ha. destruct (call_state tys rv ops s H) as (s' & Hr & Hrsp & _). exists s'. split; [exact Hr|].
  unfold aligned16 in *. rewrite Hrsp. set (k := len (call_mem tys)).
  destruct (negb (8 * k mod 16 =? 0)) eqn:E; lia.
Qed.

(* the whole call sequence (with the callee as a stack-neutral step) leaves rsp where it was *)
Lemma call_balanced tys rv ops s : gen_call tys rv = Ok ops ->
  exists s', run s (abs_ops ops) = Some s' /\ st_rsp s' = st_rsp s.
Proof.
  intros H. destruct (gen_call_shape _ _ _ H) as (moves & -> & Hmv). cbn zeta.
  set (ss := 8 * len (call_mem tys)). set (padded := negb (ss mod 16 =? 0)).
  rewrite !abs_ops_app. rewrite run_app.
  assert (Hlen : len (map fst (call_mem tys)) = len (call_mem tys)) by (unfold len; now rewrite map_length).
  assert (Hpad : exists s0, run s (abs_ops (if padded then [MSub (ss mod 16)] else [])) = Some s0
                            /\ st_rsp s0 = st_rsp s - (if padded then ss mod 16 else 0)).
  { destruct padded; eexists; (split; [reflexivity|cbn; lia]). }
  destruct Hpad as (s0 & Hr0 & Hrsp0). rewrite Hr0.
  destruct (run_pushargs (map fst (call_mem tys)) s0) as (s1 & Hr1 & Hrsp1 & _). rewrite run_app, Hr1.
  destruct (run_setregs moves Hmv s1) as (s2 & Hr2 & Hrsp2 & _). rewrite run_app, Hr2.
  replace (abs_ops [MCall]) with (@nil sop) by reflexivity.
  replace (abs_ops match rv with Some t => [MRvFrom (determine_rv_location t)] | None => [] end) with (@nil sop)
    by (destruct rv; reflexivity). cbn [app].
  rewrite Hlen in Hrsp1. fold ss in Hrsp1.
  destruct padded; cbn [negb] in *.
  - destruct (ss + ss mod 16 =? 0) eqn:E; cbn [abs_ops flat_map abs_op app run step]; eexists; (split; [reflexivity|cbn [st_rsp]; lia]).
  - destruct (ss =? 0) eqn:E; cbn [abs_ops flat_map abs_op app run step]; eexists; (split; [reflexivity|cbn [st_rsp]; lia]).
Qed.

(* ------------------------------------------------------------------ caller / callee agreement *)
Definition slot_of (l : aloc) (t : ity) : Prop :=
  match l with
  | LStack _ size => size = if is_int_ty t then tab_int_slot else tab_fp_slot t
  | LReg _ => True
  end.

Lemma arg_locs_sizes tys : forall ir fr off,
  Forall2 slot_of (arg_locs_go tab_int_slot tab_fp_slot ir fr off tys) tys.
Proof.
  induction tys as [|t rest IH]; intros ir fr off; cbn [arg_locs_go]; [constructor|].
  destruct (is_int_ty t) eqn:E.
  - destruct ir; constructor; try apply IH; cbn; now rewrite ?E.
  - destruct fr; constructor; try apply IH; cbn; now rewrite ?E.
Qed.

Lemma Forall2_combine_In {A B} (P : A -> B -> Prop) la lb a b :
  Forall2 P la lb -> In (a, b) (combine la lb) -> P a b.
Proof.
  induction 1 as [|x y la lb Hxy H IH]; cbn; [tauto|]. intros [He|Hin]; [inversion He; now subst|auto].
Qed.

(* every stack slot of every scalar is one eightbyte (fails to compile if the tree changes a slot size) *)
Lemma tab_fp_slot_8 t : tab_fp_slot t = 8.
Proof. destruct t; reflexivity. Qed.

Lemma items_slots8 tys : forall x, In x (arg_items tys) ->
  match fst (snd x) with LStack _ size => size = 8 | LReg _ => True end.
Proof.
  intros x Hx. destruct x as [i [l t]]. cbn [fst snd]. destruct l as [r|off size]; [exact I|].
  unfold arg_items in Hx. apply in_combine_r in Hx.
  pose proof (Forall2_combine_In _ _ _ _ _ (arg_locs_sizes tys tab_int_regs tab_float_regs 16) Hx) as Hs.
  cbn [slot_of] in Hs. rewrite Hs. destruct (is_int_ty t); [exact tab_int_slot_ok|apply tab_fp_slot_8].
Qed.

Lemma enter_offsets items : forall so ops, enter_go so items = Ok ops ->
  (forall x, In x items -> match fst (snd x) with LStack _ size => size = 8 | LReg _ => True end) ->
  forall i off bits, In (MArgFromStack i off bits) ops ->
  exists k, nth_error (map fst (mem_args_of items)) k = Some i /\ off = so + 16 + 8 * Z.of_nat k.
Proof.
  induction items as [|[j [l t]] rest IH]; intros so ops H H8 i off bits Hin.
  - cbn in H. injection H as <-. destruct Hin.
  - cbn [enter_go] in H. destruct l as [r|o size].
    + assert (Hmore : exists more, enter_go so rest = Ok more /\ ops = MArgFromReg j r :: more).
      { destruct (rclass r), (tab_class_of_type t); try discriminate;
          (destruct (enter_go so rest) as [more| | |]; unfold bind in H; try discriminate;
           injection H as <-; eexists; split; reflexivity). }
      destruct Hmore as (more & Hm & ->). destruct Hin as [Hd|Hin]; [discriminate|].
      destruct (IH so more Hm (fun x Hx => H8 x (or_intror Hx)) i off bits Hin) as (k & Hk & Ho).
      exists k. split; [|exact Ho]. unfold mem_args_of. cbn [flat_map fst snd app]. exact Hk.
    + assert (Hsz : size = 8) by (apply (H8 (j, (LStack o size, t))); left; reflexivity). subst size.
      assert (Hmore : exists more, enter_go (so + 8) rest = Ok more /\
                                   ops = MArgFromStack j (so + 16) (rcls_bits (tab_class_of_type t)) :: more).
      { destruct (tab_class_of_type t); destruct tab_enter_small; try discriminate;
          (destruct (enter_go (so + 8) rest) as [more| | |]; unfold bind in H; try discriminate;
           injection H as <-; eexists; split; reflexivity). }
      destruct Hmore as (more & Hm & ->). unfold mem_args_of. cbn [flat_map fst snd app map].
      destruct Hin as [Hd|Hin].
      * injection Hd as -> <- _. exists 0%nat. split; [reflexivity|lia].
      * destruct (IH (so + 8) more Hm (fun x Hx => H8 x (or_intror Hx)) i off bits Hin) as (k & Hk & Ho).
        exists (S k). split; [exact Hk|lia].
Qed.

(* every stack argument is read by the callee (rbp = rsp at the call - 16) from the slot into which the
   caller pushed that argument *)
Lemma caller_callee_agree tys rv ops_call ops_enter s :
  gen_call tys rv = Ok ops_call -> gen_function_enter tys = Ok ops_enter ->
  exists s_call, run s (abs_ops (before_call ops_call)) = Some s_call /\
    forall i off bits, In (MArgFromStack i off bits) ops_enter ->
      st_mem s_call (st_rsp s_call - 16 + off) = Some (VArg i).
Proof.
  intros Hc He. destruct (call_state tys rv ops_call s Hc) as (s' & Hr & _ & Hm & _).
  exists s'. split; [exact Hr|]. intros i off bits Hin.
  destruct (enter_offsets (arg_items tys) 0 ops_enter He (items_slots8 tys) i off bits Hin)
    as (k & Hk & ->).
  replace (st_rsp s' - 16 + (0 + 16 + 8 * Z.of_nat k)) with (st_rsp s' + 8 * Z.of_nat k) by lia.
  apply Hm. exact Hk.
Qed.

(* ------------------------------------------------------------------ facts used by Props *)
Lemma tab_callee_save_push8 : forallb push8 tab_callee_save = true.
Proof. vm_compute. reflexivity. Qed.

Lemma callee_saved_push8 used : forallb push8 (get_callee_saved used) = true.
Proof.
  apply forallb_forall. intros r Hr. unfold get_callee_saved in Hr. apply filter_In in Hr.
  exact (forallb_In _ _ tab_callee_save_push8 r (proj1 Hr)).
Qed.

Definition pushes_of (l : list mop) : list reg :=
  flat_map (fun o => match o with MPush r => [r] | _ => [] end) l.
Definition pops_of (l : list mop) : list reg :=
  flat_map (fun o => match o with MPop r => [r] | _ => [] end) l.

Lemma pushes_of_map l : pushes_of (map MPush l) = l.
Proof. unfold pushes_of. induction l as [|a l IH]; cbn [map flat_map app]; [reflexivity|now rewrite IH]. Qed.
Lemma pops_of_map l : pops_of (map MPop l) = l.
Proof. unfold pops_of. induction l as [|a l IH]; cbn [map flat_map app]; [reflexivity|now rewrite IH]. Qed.

Lemma pushes_of_app a b : pushes_of (a ++ b) = pushes_of a ++ pushes_of b.
Proof. apply flat_map_app. Qed.
Lemma pops_of_app a b : pops_of (a ++ b) = pops_of a ++ pops_of b.
Proof. apply flat_map_app. Qed.

Lemma pops_mirror_pushes stacksize used :
  pops_of (gen_epilogue stacksize used) = rev (pushes_of (gen_prologue stacksize used)).
Proof.
  unfold gen_epilogue, gen_prologue, epilogue_of, prologue_of.
  rewrite !pops_of_app, !pushes_of_app, pops_of_map, pushes_of_map.
  destruct (frame_adjust _ _); unfold pops_of, pushes_of; cbn [flat_map app];
    change (tab_rbp :: get_callee_saved used) with ([tab_rbp] ++ get_callee_saved used);
    rewrite rev_app_distr; reflexivity.
Qed.

(* ------------------------------------------------------------------ wave 3: all signatures, stack order *)
Lemma arg_locations_all tys :
  map abs_loc (determine_arg_locations tys) = sysv_arg_places (map sty_of tys).
Proof. apply arg_locations_current. intros t _ _. apply tab_fp_slot_8. Qed.

Definition stack_offsets (ls : list aloc) : list Z :=
  flat_map (fun l => match l with LStack o _ => [o] | LReg _ => [] end) ls.

(* memory arguments sit left to right in consecutive eightbytes, whatever mixture of integer and
   floating point arguments overflowed the registers *)
Lemma stack_offsets_go tys : forall ir fr off k o,
  nth_error (stack_offsets (arg_locs_go tab_int_slot tab_fp_slot ir fr off tys)) k = Some o ->
  o = off + 8 * Z.of_nat k.
Proof.
  induction tys as [|t rest IH]; intros ir fr off k o H; cbn [arg_locs_go] in H.
  - destruct k; discriminate.
  - destruct (is_int_ty t).
    + destruct ir as [|p ir']; unfold stack_offsets in H; cbn [flat_map app] in H; fold stack_offsets in H.
      * destruct k as [|k]; cbn [nth_error] in H; [injection H as <-; lia|].
        apply IH in H. rewrite tab_int_slot_ok in H. lia.
      * apply IH in H. exact H.
    + destruct fr as [|p fr']; unfold stack_offsets in H; cbn [flat_map app] in H; fold stack_offsets in H.
      * destruct k as [|k]; cbn [nth_error] in H; [injection H as <-; lia|].
        apply IH in H. rewrite tab_fp_slot_8 in H. lia.
      * apply IH in H. exact H.
Qed.

Lemma stack_args_in_order tys k o :
  nth_error (stack_offsets (determine_arg_locations tys)) k = Some o -> o = 16 + 8 * Z.of_nat k.
Proof. apply stack_offsets_go. Qed.

(* ------------------------------------------------------------------ wave 3: aggregates by value *)
(* how the model's location of an argument reads as a psABI place *)
Definition abs_xloc (x : xty * aloc) : xplace :=
  match fst x, snd x with
  | XT _, l => XAt (abs_loc l)
  | XB _, LStack off size => XInMem (off - 16) size
  | XB _, LReg r => XInRegs [phys r]
  end.
Definition places_x (tys : list xty) : list xplace :=
  map abs_xloc (combine tys (determine_arg_locations_x tys)).

(* a blob seen as a psABI aggregate with the given eightbyte classes ([] = MEMORY) *)
Definition xsty_of (cls_of : Z -> list acls) (t : xty) : xsty :=
  match t with XT t => XScalar (sty_of t) | XB size => XAggr size (cls_of size) end.

(* struct { long a; } is class INTEGER and travels in %rdi; ppci puts every blob on the stack *)
Lemma struct_small_refuted :
  places_x [XB 8] <> sysv_arg_places_x [XAggr 8 [INTEGER]].
Proof. vm_compute. discriminate. Qed.

(* even for class MEMORY the layout differs when a size is not a multiple of 8: 20 bytes take 24 *)
Lemma struct_memory_size_refuted :
  places_x [XB 20; XB 24] <> sysv_arg_places_x [XAggr 20 []; XAggr 24 []].
Proof. vm_compute. discriminate. Qed.

(* class MEMORY aggregates whose size is a multiple of 8, mixed with any scalars: ppci = psABI *)
Definition blob_ok (t : xty) : Prop := match t with XT _ => True | XB size => size mod 8 = 0 end.

Lemma roundup8_mult n : n mod 8 = 0 -> roundup8 n = n.
Proof. unfold roundup8. intros H. lia. Qed.

Lemma places_x_memory_general tys : forall ni nf stk,
  Forall blob_ok tys ->
  map abs_xloc (combine tys (arg_locs_x (skipn ni tab_int_regs) (skipn nf tab_float_regs) (16 + stk) tys))
  = sysv_assign_x ni nf stk (map (xsty_of (fun _ => [])) tys).
Proof.
  induction tys as [|t rest IH]; intros ni nf stk Hok; [reflexivity|].
  inversion Hok as [|? ? Ht Hrest]; subst.
  destruct t as [t|size]; cbn [arg_locs_x map xsty_of sysv_assign_x combine].
  - rewrite classify_sty_of. destruct (is_int_ty t) eqn:Hty.
    + rewrite (skipn_nth_error tab_int_regs ni).
      pose proof (int_reg_at tab_int_regs tab_int_regs_ok ni) as Hr.
      destruct (nth_error tab_int_regs ni) as [p|] eqn:E.
      * destruct Hr as (g & Hg & H1 & H2). rewrite Hg. cbn [combine map]. f_equal.
        -- unfold abs_xloc. cbn [fst snd abs_loc]. do 2 f_equal. destruct (is_32_ty t); cbn [phys]; now rewrite ?H1, ?H2.
        -- apply IH. exact Hrest.
      * rewrite Hr. cbn [combine map]. f_equal.
        -- unfold abs_xloc. cbn [fst snd abs_loc]. do 2 f_equal. lia.
        -- rewrite tab_int_slot_ok. replace (16 + stk + 8) with (16 + (stk + 8)) by lia.
           replace (@nil (reg * reg)) with (skipn ni tab_int_regs)
             by (rewrite (skipn_nth_error tab_int_regs ni), E; reflexivity).
           apply IH. exact Hrest.
    + rewrite (skipn_nth_error tab_float_regs nf).
      pose proof (float_reg_at tab_float_regs tab_float_regs_ok nf) as Hr.
      destruct (nth_error tab_float_regs nf) as [p|] eqn:E.
      * destruct Hr as (Hlt & H1 & H2). rewrite Hlt. cbn [combine map]. f_equal.
        -- unfold abs_xloc. cbn [fst snd abs_loc]. do 2 f_equal. destruct t; cbn [phys]; try discriminate; now rewrite ?H1, ?H2.
        -- apply IH. exact Hrest.
      * rewrite Hr. cbn [combine map]. f_equal.
        -- unfold abs_xloc. cbn [fst snd abs_loc]. do 2 f_equal. lia.
        -- rewrite tab_fp_slot_8. replace (16 + stk + 8) with (16 + (stk + 8)) by lia.
           replace (@nil (reg * reg)) with (skipn nf tab_float_regs)
             by (rewrite (skipn_nth_error tab_float_regs nf), E; reflexivity).
           apply IH. exact Hrest.
  - cbn [blob_ok] in Ht. rewrite (roundup8_mult _ Ht). cbn [combine map]. f_equal.
    + unfold abs_xloc. cbn [fst snd]. f_equal. lia.
    + replace (16 + stk + size) with (16 + (stk + size)) by lia. apply IH. exact Hrest.
Qed.

Lemma places_x_memory tys : Forall blob_ok tys ->
  places_x tys = sysv_arg_places_x (map (xsty_of (fun _ => [])) tys).
Proof. intros H. exact (places_x_memory_general tys 0%nat 0%nat 0 H). Qed.

(* alignment of rsp at the call when blobs are copied to the stack *)
Lemma call_rsp_drop_aligned ss : ss mod 8 = 0 -> (call_rsp_drop ss) mod 16 = 0.
Proof.
  intros H. unfold call_rsp_drop, call_padding. destruct (ss mod 16 =? 0) eqn:E; cbn [negb]; lia.
Qed.

Lemma call_rsp_drop_refuted : exists ss, 0 < ss /\ (call_rsp_drop ss) mod 16 <> 0.
Proof. exists 4. split; [lia|]. vm_compute. discriminate. Qed.

Lemma call_blob_alignment_refuted : (call_rsp_drop_x [XB 4]) mod 16 <> 0.
Proof. vm_compute. discriminate. Qed.

Lemma sumZ_mod8 l : Forall (fun z => z mod 8 = 0) l -> sumZ l mod 8 = 0.
Proof. induction 1 as [|z l Hz H IH]; cbn [sumZ]; [reflexivity|lia]. Qed.

Lemma call_mem_sizes_x_mod8 tys : Forall blob_ok tys ->
  Forall (fun z => z mod 8 = 0) (call_mem_sizes_x tys).
Proof.
  intros H. unfold call_mem_sizes_x. apply Forall_forall. intros z Hz.
  apply in_flat_map in Hz. destruct Hz as ([t l] & Hin & Hz). cbn [fst snd] in Hz.
  apply in_combine_l in Hin. rewrite Forall_forall in H. specialize (H _ Hin).
  destruct t as [t|size]; [destruct l; [destruct Hz|destruct Hz as [<-|[]]; reflexivity]|].
  destruct Hz as [<-|[]]. exact H.
Qed.

Lemma call_alignment_x tys : Forall blob_ok tys -> (call_rsp_drop_x tys) mod 16 = 0.
Proof.
  intros H. unfold call_rsp_drop_x. apply call_rsp_drop_aligned. apply sumZ_mod8.
  apply call_mem_sizes_x_mod8. exact H.
Qed.
