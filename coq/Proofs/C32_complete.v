(* Proofs/C32_complete.v — property C32: bounded completeness of the (repaired) builder model and
   the two refutations of lr.py as it is.
   Derivability oracle: per grammar, the table D of all (X, u), |u| <= N, is computed by fixpoint
   iteration; completeness of D (every derivable word of length <= N is in D) is PROVED from the
   boolean closedness check, so no unverified oracle is trusted. *)
From PV Require Import Lib.Py Spec.CfgGrammarSpec Model.LrValidator Model.LrBuilder Proofs.C32_sound.
Open Scope Z_scope.

Definition word := list Z.
Fixpoint word_eqb (a b : word) : bool :=
  match a, b with
  | [], [] => true
  | x :: a', y :: b' => (x =? y) && word_eqb a' b'
  | _, _ => false
  end.
Definition dent := (Z * word)%type.
Definition dmem (X : Z) (u : word) (D : list dent) : bool :=
  existsb (fun e => (fst e =? X) && word_eqb (snd e) u) D.
Definition lang_of (D : list dent) (X : Z) : list word :=
  map snd (filter (fun e => fst e =? X) D).
Definition sym_words (g : grammar) (D : list dent) (X : Z) : list word :=
  (if mem_z X (terminals g) then [[X]] else []) ++ lang_of D X.
Fixpoint seq_words (N : nat) (g : grammar) (D : list dent) (al : list Z) : list word :=
  match al with
  | [] => [[]]
  | X :: r => filter (fun u => (length u <=? N)%nat)
                (flat_map (fun u1 => map (app u1) (seq_words N g D r)) (sym_words g D X))
  end.
Definition dstep (N : nat) (g : grammar) (D : list dent) : list dent :=
  fold_left (fun D' pr =>
     fold_left (fun D'' u => if dmem (fst pr) u D'' then D'' else D'' ++ [(fst pr, u)])
               (seq_words N g D (snd pr)) D') (prods g) D.
Definition closed (N : nat) (g : grammar) (D : list dent) : bool :=
  forallb (fun pr => forallb (fun u => dmem (fst pr) u D) (seq_words N g D (snd pr))) (prods g).
Fixpoint diter (k : nat) (N : nat) (g : grammar) (D : list dent) : list dent :=
  match k with O => D | S k' => if closed N g D then D else diter k' N g (dstep N g D) end.

Lemma word_eqb_eq a : forall b, word_eqb a b = true -> a = b.
Proof.
  induction a as [|x a IH]; intros [|y b]; cbn; try discriminate; [reflexivity|].
  intros H. apply andb_true_iff in H as [H1 H2]. apply Z.eqb_eq in H1. apply IH in H2. now subst.
Qed.

Lemma dmem_lang X u D : dmem X u D = true -> In u (lang_of D X).
Proof.
  unfold dmem, lang_of. intros H. apply existsb_exists in H as ([Y v] & Hin & H).
  cbn in H. apply andb_true_iff in H as [H1 H2]. apply word_eqb_eq in H2. subst v.
  apply in_map_iff. exists (Y, u). split; [reflexivity|]. apply filter_In. now split.
Qed.

Section Oracle.
Variable N : nat.
Variable g : grammar.
Variable D : list dent.
Hypothesis HD : closed N g D = true.

(* every derivable word of length <= N is in the table *)
Lemma oracle_complete :
  (forall X t, wf_tree g X t -> (length (yield t) <= N)%nat -> In (yield t) (sym_words g D X)) /\
  (forall al ts, wf_forest g al ts -> (length (flat_map yield ts) <= N)%nat ->
                 In (flat_map yield ts) (seq_words N g D al)).
Proof.
  apply wf_tree_forest_ind.
  - intros a Ha _. unfold sym_words. apply in_or_app. left.
    assert (E : mem_z a (terminals g) = true).
    { unfold mem_z. apply existsb_exists. exists a. split; [assumption|apply Z.eqb_refl]. }
    rewrite E. now left.
  - intros p X rhs cs Hn Hf IH Hl. cbn [yield] in *. specialize (IH Hl).
    unfold sym_words. apply in_or_app. right. apply dmem_lang.
    unfold closed in HD. rewrite forallb_forall in HD.
    specialize (HD (X, rhs) (nth_error_In _ _ Hn)). cbn [fst snd] in HD.
    rewrite forallb_forall in HD. now apply HD.
  - intros _. now left.
  - intros X xs t ts Ht IHt Hts IHts Hl. cbn [flat_map] in *. rewrite app_length in Hl.
    cbn [seq_words]. apply filter_In. split.
    + apply in_flat_map. exists (yield t). split; [apply IHt; lia|].
      apply in_map. apply IHts. lia.
    + apply Nat.leb_le. rewrite app_length. lia.
Qed.

Lemma oracle_sentence w : sentence g w -> (length w <= N)%nat -> In w (sym_words g D (start g)).
Proof. intros (t & Ht & <-) Hl. now apply (proj1 oracle_complete). Qed.
End Oracle.

(* ------------------------------------------------------------------ the enumerated family *)
(* terminals a = 2, b = 3; nonterminals S = 4 (start), A = 5;
   candidate productions: lhs in {S, A}, rhs any sequence of length <= 2 over {a, b, S, A};
   a grammar = any set of 1..3 candidate productions (12383 grammars, epsilon productions included) *)
Definition cand_rhs : list (list Z) :=
  [] :: map (fun a => [a]) [2;3;4;5] ++ flat_map (fun a => map (fun b => [a;b]) [2;3;4;5]) [2;3;4;5].
Definition cands : list (Z * list Z) := flat_map (fun l => map (fun r => (l, r)) cand_rhs) [4;5].
Fixpoint combos {A} (k : nat) (l : list A) : list (list A) :=
  match k with
  | O => [[]]
  | S k' => match l with
            | [] => []
            | x :: r => map (cons x) (combos k' r) ++ combos (S k') r
            end
  end.
Definition family : list grammar :=
  map (fun ps => mkGrammar [2;3] ps 4) (combos 1 cands ++ combos 2 cands ++ combos 3 cands).

Definition BFUEL : nat := 80%nat.
Definition is_ok {A} (r : result A) : bool := match r with Ok _ => true | _ => false end.

(* per grammar: builder model (repaired lookahead) runs within fuel; if it reports no conflict and
   resolved none silently, then its tables validate and the (repaired) parser model accepts every
   word of the complete table D of derivable words of length <= 4 *)
Definition check_g (g : grammar) : bool :=
  match generate_tables_sr true BFUEL g with
  | Ok (T, false) =>
      let D := diter 12 4 g [] in
      closed 4 g D && tables_ok true g T && negb (mem_z (start g) (terminals g)) &&
      forallb (fun u => negb (mem_z EOF u) && is_ok (parse_model true BFUEL g T u)) (lang_of D (start g))
  | OutOfFuel => false
  | _ => true
  end.

Lemma family_checked : forallb check_g family = true.
Proof. vm_compute. reflexivity. Qed.

Lemma c32_complete_bounded_lemma : forall g, In g family ->
  forall T, generate_tables_sr true BFUEL g = Ok (T, false) ->
  forall w, (length w <= 4)%nat -> sentence g w ->
  exists v, parse_model true BFUEL g T w = Ok v /\ parse_of g w v.
Proof.
  intros g Hg T HT w Hl Hs.
  pose proof family_checked as H. rewrite forallb_forall in H. specialize (H g Hg).
  unfold check_g in H. rewrite HT in H.
  apply andb_true_iff in H as [H Hall]. apply andb_true_iff in H as [H Hst].
  apply andb_true_iff in H as [Hc Hok].
  pose proof (oracle_sentence 4 g _ Hc w Hs Hl) as Hin.
  unfold sym_words in Hin. destruct (mem_z (start g) (terminals g)); [discriminate|].
  cbn [app] in Hin. rewrite forallb_forall in Hall. specialize (Hall w Hin).
  apply andb_true_iff in Hall as [He Hp].
  destruct (parse_model true BFUEL g T w) as [v| | |] eqn:Ep; try discriminate.
  exists v. split; [reflexivity|].
  eapply c32_sound_lemma; [exact Hok| |exact Ep].
  intros Hin'. unfold mem_z in He. apply negb_true_iff in He.
  assert (existsb (Z.eqb EOF) w = true); [|congruence].
  apply existsb_exists. exists EOF. split; [assumption|apply Z.eqb_refl].
Qed.

(* the builder model never runs out of fuel on the family (the fuel hypothesis is satisfiable) *)
Lemma family_fuel_ok : forallb (fun g => match generate_tables_sr true BFUEL g with
                                          | OutOfFuel => false | _ => true end) family = true.
Proof. vm_compute. reflexivity. Qed.

(* ------------------------------------------------------------------ refutations (lr.py as it is) *)
(* (a) S -> A B c ; A -> a ; B -> eps | b   with a=2 b=3 c=6 S=4 A=5 B=7: "a c" is a sentence,
   the builder reports no conflict, the parser raises ParserException *)
Definition g_la : grammar := mkGrammar [2;3;6] [(4,[5;7;6]); (5,[2]); (7,[]); (7,[3])] 4.

Lemma c32_lookahead_refuted_lemma :
  exists g w T, generate_tables_sr false BFUEL g = Ok (T, false) /\ tables_ok false g T = true /\
                sentence g w /\ parse_model false BFUEL g T w = Diag 1.
Proof.
  exists g_la, [2;6].
  destruct (generate_tables_sr false BFUEL g_la) as [[T sr]| | |] eqn:E; try (vm_compute in E; discriminate).
  exists T. vm_compute in E. injection E as <- <-.
  split; [reflexivity|]. split; [vm_compute; reflexivity|]. split.
  - exists (Node 0 [Node 1 [Leaf 2]; Node 2 []; Leaf 6]). split; [|reflexivity].
    econstructor; [reflexivity|].
    constructor. { econstructor; [reflexivity|]. constructor; [|constructor]. constructor. cbn; tauto. }
    constructor. { econstructor; [reflexivity|]. constructor. }
    constructor; [|constructor]. constructor. cbn; tauto.
  - vm_compute. reflexivity.
Qed.

(* (b) S -> a S | b : on "a a b" the parser returns the value of the inner S -> b *)
Definition g_rr : grammar := mkGrammar [2;3] [(4,[2;4]); (4,[3])] 4.

Lemma c32_accept_refuted_lemma :
  exists g w T v, generate_tables_sr false BFUEL g = Ok (T, false) /\
                  parse_model false BFUEL g T w = Ok v /\ yield v <> w /\ tables_ok false g T = false.
Proof.
  exists g_rr, [2;2;3].
  destruct (generate_tables_sr false BFUEL g_rr) as [[T sr]| | |] eqn:E; try (vm_compute in E; discriminate).
  exists T, (Node 1 [Leaf 3]). vm_compute in E. injection E as <- <-.
  split; [reflexivity|]. split; [vm_compute; reflexivity|]. split; [discriminate|].
  vm_compute. reflexivity.
Qed.
