(* Proofs/C16_rd_patch.v — map_refs algebra; Value.replace_by with all replace_use fixes is a substitution;
   specification of DictReader.register_value (register_spec). *)
From PV Require Import Lib.Py Lib.Tac Lib.Val Lib.Json Spec.IRSyntax Model.IrJson Proofs.C16_irjson.
From PV Require Import Proofs.C16_rd_scope.
From Coq Require Import String Ascii.
Local Open Scope string_scope.
Local Open Scope list_scope.
Open Scope Z_scope.

(* ---- map_refs *)
Lemma uses_map_refs g i : instr_uses (map_refs g i) = map g (instr_uses i).
Proof. destruct i; cbn; try reflexivity; rewrite !map_map; reflexivity. Qed.
Lemma def_map_refs g i : instr_def (map_refs g i) = instr_def i.
Proof. destruct i; reflexivity. Qed.
Lemma targets_map_refs g i : instr_targets (map_refs g i) = instr_targets i.
Proof. destruct i; reflexivity. Qed.
Lemma term_map_refs g i : is_terminator (map_refs g i) = is_terminator i.
Proof. destruct i; reflexivity. Qed.
Lemma map_refs_ext g h i : (forall r, In r (instr_uses i) -> g r = h r) -> map_refs g i = map_refs h i.
Proof.
  intros H. destruct i; cbn in *; try reflexivity;
    repeat match goal with |- context [g ?x] => rewrite (H x) by auto end; try reflexivity.
  - f_equal. apply map_ext_in. intros [b r] Hp. cbn. f_equal. apply H. now apply (in_map snd) in Hp.
  - f_equal. apply map_ext_in. intros r Hr. apply H. now right.
  - f_equal. apply map_ext_in. intros r Hr. apply H. now right.
Qed.
Lemma map_refs_comp g h i : map_refs g (map_refs h i) = map_refs (fun r => g (h r)) i.
Proof. destruct i; cbn; try reflexivity; rewrite !map_map; reflexivity. Qed.
Lemma map_refs_id g i : (forall r, In r (instr_uses i) -> g r = r) -> map_refs g i = i.
Proof.
  intros H. rewrite (map_refs_ext g (fun r => r)) by assumption.
  destruct i; cbn; try reflexivity; f_equal; try apply map_id.
  rewrite <- (map_id ins) at 2. apply map_ext. now intros [b r].
Qed.

(* ---- replace_by with all replace_use fixes = substitution *)
Lemma patch_instr_fixed name new i : patch_instr cfg_fixed name new i = Ok (map_refs (sub1 name new) i).
Proof. destruct i; reflexivity. Qed.
Lemma mapM_ok {A B} (g : A -> B) (l : list A) : mapM (fun x => Ok (g x)) l = Ok (map g l).
Proof. induction l as [|x l IH]; [reflexivity|]. cbn [mapM bind map]. now rewrite IH. Qed.
Lemma mapM_ext {A B} (p q : A -> result B) l : (forall x, p x = q x) -> mapM p l = mapM q l.
Proof. intros H. induction l as [|x l IH]; [reflexivity|]. cbn [mapM]. now rewrite H, IH. Qed.

Definition mapb (g : instr -> instr) (k : block) : block := mk_block (b_id k) (b_name k) (map g (b_ins k)).
Definition mapf (g : instr -> instr) (f : func) : func :=
  mk_func (f_name f) (f_binding f) (f_ret f) (f_params f) (map (mapb g) (f_blocks f)).
Lemma patch_block_fixed name new k : patch_block cfg_fixed name new k = Ok (mapb (map_refs (sub1 name new)) k).
Proof.
  unfold patch_block. rewrite (mapM_ext _ (fun i => Ok (map_refs (sub1 name new) i))) by (intros; apply patch_instr_fixed).
  now rewrite mapM_ok.
Qed.
Lemma patch_func_fixed name new f : patch_func cfg_fixed name new f = Ok (mapf (map_refs (sub1 name new)) f).
Proof.
  unfold patch_func. rewrite (mapM_ext _ (fun k => Ok (mapb (map_refs (sub1 name new)) k))) by (intros; apply patch_block_fixed).
  now rewrite mapM_ok.
Qed.

Definition all_built (st : rst) : list instr :=
  flat_map func_instrs (rs_funcs st) ++ flat_map b_ins (rs_blocks st) ++ rs_ins st.
Definition cov (pend : list (string * ty)) (l : list instr) : Prop :=
  forall i s, In i l -> In (Unres s) (instr_uses i) -> plookup s pend <> None.

Lemma sub1_absent name new i : ~ In (Unres name) (instr_uses i) -> map_refs (sub1 name new) i = i.
Proof.
  intros H. apply map_refs_id. intros r Hr. unfold sub1, is_old. destruct r; try reflexivity.
  destruct (String.eqb_spec name0 name) as [->|]; [contradiction|reflexivity].
Qed.
Lemma premove_none s p : plookup s p = None -> premove s p = p.
Proof.
  induction p as [|[k v] p IH]; [reflexivity|]. cbn. destruct (String.eqb s k); [discriminate|]. intros H. now rewrite IH.
Qed.
Lemma plookup_premove_other s n p : s <> n -> plookup s (premove n p) = plookup s p.
Proof.
  intros N. induction p as [|[k v] p IH]; [reflexivity|]. cbn. destruct (String.eqb_spec n k) as [->|E].
  - destruct (String.eqb_spec s k); [contradiction|reflexivity].
  - cbn. now rewrite IH.
Qed.

(* the state after register: everything built is substituted, the name leaves undefined_values and
   enters the innermost scope *)
Definition reg_state (name : string) (r : vref) (t : ty) (st : rst) : rst :=
  let g := map_refs (sub1 name r) in
  mk_rst (if rs_infun st then rs_glob st else (name, (r, t)) :: rs_glob st)
         (if rs_infun st then (name, (r, t)) :: rs_loc st else rs_loc st)
         (rs_infun st) (premove name (rs_pend st)) (rs_next st) (rs_bmap st)
         (map (mapf g) (rs_funcs st)) (map (mapb g) (rs_blocks st)) (map g (rs_ins st)).

Lemma map_id_in {A} (g : A -> A) l : (forall x, In x l -> g x = x) -> map g l = l.
Proof. intros H. rewrite <- (map_id l) at 2. now apply map_ext_in. Qed.

Lemma register_spec name r t (self : option instr) st :
  cov (rs_pend st) (all_built st ++ match self with Some i => [i] | None => [] end) ->
  vlookup name (if rs_infun st then rs_loc st else rs_glob st) = None ->
  register cfg_fixed name r t self st = Ok (option_map (map_refs (sub1 name r)) self, reg_state name r t st).
Proof.
  intros C V. unfold register.
  destruct (plookup name (rs_pend st)) eqn:P.
  - rewrite (mapM_ext _ (fun x => Ok (mapf (map_refs (sub1 name r)) x))) by (intros; apply patch_func_fixed).
    rewrite mapM_ok. cbn [bind].
    rewrite (mapM_ext _ (fun x => Ok (mapb (map_refs (sub1 name r)) x))) by (intros; apply patch_block_fixed).
    rewrite mapM_ok. cbn [bind].
    rewrite (mapM_ext _ (fun x => Ok (map_refs (sub1 name r) x))) by (intros; apply patch_instr_fixed).
    rewrite mapM_ok. cbn [bind].
    destruct self as [i|]; [rewrite patch_instr_fixed|]; cbn [bind rs_infun rs_loc rs_glob]; rewrite V;
      unfold reg_state; destruct (rs_infun st); reflexivity.
  - cbn [bind]. rewrite V.
    assert (A : forall i, In i (all_built st ++ match self with Some i => [i] | None => [] end) ->
                map_refs (sub1 name r) i = i).
    { intros i Hi. apply sub1_absent. intros Hu. now apply (C i name Hi Hu). }
    assert (E : reg_state name r t st =
                mk_rst (if rs_infun st then rs_glob st else (name, (r, t)) :: rs_glob st)
                       (if rs_infun st then (name, (r, t)) :: rs_loc st else rs_loc st)
                       (rs_infun st) (rs_pend st) (rs_next st) (rs_bmap st) (rs_funcs st) (rs_blocks st) (rs_ins st)).
    { unfold reg_state. rewrite premove_none by assumption. f_equal.
      - apply map_id_in. intros g Hg. destruct g as [n b rt ps bl]. unfold mapf. cbn. f_equal.
        apply map_id_in. intros k Hk. destruct k as [bi bn ins]. unfold mapb. cbn. f_equal.
        apply map_id_in. intros i Hi. apply A. apply in_or_app. left. unfold all_built.
        apply in_or_app. left. apply in_flat_map. exists (mk_func n b rt ps bl). split; [assumption|].
        unfold func_instrs. cbn. apply in_flat_map. exists (mk_block bi bn ins). now split.
      - apply map_id_in. intros k Hk. destruct k as [bi bn ins]. unfold mapb. cbn. f_equal.
        apply map_id_in. intros i Hi. apply A. apply in_or_app. left. unfold all_built.
        apply in_or_app. right. apply in_or_app. left. apply in_flat_map. exists (mk_block bi bn ins). now split.
      - apply map_id_in. intros i Hi. apply A. apply in_or_app. left. unfold all_built.
        apply in_or_app. right. apply in_or_app. now right. }
    rewrite E. destruct self as [i|]; cbn [option_map].
    + rewrite A by (apply in_or_app; right; now left). destruct (rs_infun st); reflexivity.
    + destruct (rs_infun st); reflexivity.
Qed.
