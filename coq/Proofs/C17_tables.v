(* Proofs/C17_tables.v — the tables of a whole file, for lists of arbitrary length:
   (1) any list of header records serialised one after the other, anywhere in any file, is read back by the
       gABI reader as exactly the views of those records (section headers, symbols, RELA entries, program headers);
   (2) the writer loops (write_shdr_list, write_symbols, write_relas, serialize_all) produce such serialised lists,
       whose records carry the fields the object prescribes;
   (3) where the ELF header, the program header table and the section header table sit in the final file. *)
From PV Require Import Lib.Py Lib.Tac Gen.Tab_elf Model.ElfWriter Spec.ElfSpec.
From PV Require Import Proofs.C17_codec Proofs.C17_recover Proofs.C17_file.
From Coq Require Import String Ascii.
Open Scope Z_scope.
Local Notation length := List.length (only parsing).
Local Notation concat := List.concat (only parsing).

Definition sers (L : layout) (es : list hdr) (chunks : list (list Z)) : Prop :=
  Forall2 (fun e b => serialize L e = Ok b) es chunks.

Lemma table_read_gen {X} be L Lw (mk : list Z -> option X) (view : hdr -> X) :
  (forall h b, serialize Lw h = Ok b -> length b = lsize L /\ mk (decode_fields be L b) = Some (view h)) ->
  forall es chunks bs off, sers Lw es chunks -> at_ bs off (concat chunks) ->
  exists raw, read_table be L bs off (len es) = Some raw /\ omap mk raw = Some (map view es).
Proof.
  intros RT es chunks bs off S A.
  assert (Fl : Forall (fun c => length c = lsize L) chunks).
  { clear A. induction S as [|e b es chunks Hs S IH]; [constructor|constructor; [apply (RT _ _ Hs)|apply IH]]. }
  assert (El : len es = zlen chunks) by exact (Forall2_len _ _ _ S).
  exists (map (decode_fields be L) chunks). split; [rewrite El; now apply read_table_at|].
  clear A Fl El. induction S as [|e b es chunks Hs S IH]; [reflexivity|].
  cbn [map omap]. destruct (RT _ _ Hs) as [_ ->]. cbn [obind]. rewrite IH. reflexivity.
Qed.

Section Tables.
  Variable ht : htypes.
  Hypothesis OK : ht_ok ht.
  Let c64 := ht_bits ht =? 64.
  Let be := ht_big ht.

  Theorem shdr_table_read hs chunks bs off : sers (ht_shdr ht) hs chunks -> at_ bs off (concat chunks) ->
    exists raw, read_table be (shdr_layout c64) bs off (len hs) = Some raw
                /\ omap mk_shdr raw = Some (map shdr_of hs).
  Proof. apply table_read_gen. intros h b. apply (shdr_roundtrip ht OK). Qed.

  Theorem symtab_read es chunks bs off : sers (ht_sym ht) es chunks -> at_ bs off (concat chunks) ->
    exists raw, read_table be (sym_layout c64) bs off (len es) = Some raw
                /\ omap (mk_sym c64) raw = Some (map sym_of es).
  Proof. apply table_read_gen. intros h b. apply (sym_roundtrip ht OK). Qed.

  Theorem rela_read es chunks bs off : sers (ht_rela ht) es chunks -> at_ bs off (concat chunks) ->
    exists raw, read_table be (rela_layout c64) bs off (len es) = Some raw
                /\ omap (mk_rela c64) raw = Some (map (rela_of c64) es).
  Proof. apply table_read_gen. intros h b. apply (rela_roundtrip ht OK). Qed.

  Theorem phdr_read es chunks bs off : sers (ht_phdr ht) es chunks -> at_ bs off (concat chunks) ->
    exists raw, read_table be (phdr_layout c64) bs off (len es) = Some raw
                /\ omap (mk_phdr c64) raw = Some (map phdr_of es).
  Proof. apply table_read_gen. intros h b. apply (phdr_roundtrip ht OK). Qed.
End Tables.

(* ------------------------------------------------------------------ the writer loops produce serialised lists *)
Lemma serialize_all_sers L : forall hs b, serialize_all L hs = Ok b ->
  exists chunks, sers L hs chunks /\ b = concat chunks.
Proof.
  induction hs as [|h r IH]; intros b H; [injection H as <-; exists []; split; [constructor|reflexivity]|].
  cbn [serialize_all] in H. bd H. bd H. injection H as <-. destruct (IH _ eq_refl) as (ch & S & ->).
  exists (x :: ch). split; [constructor; assumption|reflexivity].
Qed.

(* the forward links write_section_headers patches in *)
Definition patch (sn : list (string * Z)) (h : hdr) : result hdr :=
  if hget h "sh_type" =? sht_symtab then n <- key (sget sn ".strtab") ;; Ok (hset h "sh_link" n)
  else if hget h "sh_type" =? sht_dynamic then n <- key (sget sn ".strtab") ;; Ok (hset h "sh_link" n)
  else if hget h "sh_type" =? sht_rela then n <- key (sget sn ".symtab") ;; Ok (hset h "sh_link" n)
  else Ok h.

Lemma patch_fields sn h h' : patch sn h = Ok h' ->
  (forall k, k <> "sh_link"%string -> hget h' k = hget h k)
  /\ (hget h "sh_type" = 2 -> sget sn ".strtab"%string = Some (hget h' "sh_link"))
  /\ (hget h "sh_type" = 4 -> sget sn ".symtab"%string = Some (hget h' "sh_link"))
  /\ (hget h "sh_type" = 1 \/ hget h "sh_type" = 3 -> h' = h).
Proof.
  unfold patch. change sht_symtab with 2. change sht_dynamic with 6. change sht_rela with 4. intros H.
  assert (HS : forall n k, k <> "sh_link"%string -> hget (hset h "sh_link" n) k = hget h k).
  { intros n k Hk. unfold hget, hset. cbn [sget]. apply String.eqb_neq in Hk.
    rewrite String.eqb_sym, Hk. reflexivity. }
  destruct (Z.eqb_spec (hget h "sh_type") 2) as [E2|N2].
  { bd H. injection H as <-. unfold key in E. destruct (sget sn ".strtab") eqn:G; [|discriminate]. injection E as ->.
    ssplit; auto; try (intros; lia). }
  destruct (Z.eqb_spec (hget h "sh_type") 6) as [E6|N6].
  { bd H. injection H as <-. ssplit; auto; intros; lia. }
  destruct (Z.eqb_spec (hget h "sh_type") 4) as [E4|N4].
  { bd H. injection H as <-. unfold key in E. destruct (sget sn ".symtab") eqn:G; [|discriminate]. injection E as ->.
    ssplit; auto; try (intros; lia). }
  injection H as <-. ssplit; auto; intros; lia.
Qed.

Lemma write_shdr_list_sers ht : forall hs s s', write_shdr_list ht s hs = Ok s' ->
  exists hs' chunks, Forall2 (fun h h' => patch (w_secnums s) h = Ok h') hs hs'
    /\ sers (ht_shdr ht) hs' chunks /\ w_buf s' = w_buf s ++ concat chunks
    /\ w_eh s' = w_eh s /\ w_secnums s' = w_secnums s /\ w_phdrs s' = w_phdrs s.
Proof.
  induction hs as [|h r IH]; intros s s' H.
  - injection H as <-. exists [], []. ssplit; try constructor. cbn. now rewrite app_nil_r.
  - cbn [write_shdr_list] in H. bd H. change (patch (w_secnums s) h = Ok x) in E. bd H.
    destruct (IH _ _ H) as (hs' & ch & F & S & B & Eh & Ek & Ep). exists (x :: hs'), (x0 :: ch).
    ssplit; [constructor; assumption|constructor; assumption| |exact Eh|exact Ek|exact Ep].
    rewrite B. cbn. now rewrite <- app_assoc.
Qed.

(* symbol entries *)
Definition symrel (o : mobj) (sn : list (string * Z)) (st : list Z) (y : msymbol) (e : hdr) : Prop :=
  hget e "st_info" = model_info y /\ hget e "st_size" = my_size y /\ hget e "st_other" = 0
  /\ strtab_at st (hget e "st_name") (my_name y)
  /\ (my_value y = None -> hget e "st_shndx" = 0 /\ hget e "st_value" = 0)
  /\ (forall v secname, my_value y = Some v -> my_section y = Some secname ->
        exists sec, obj_get_section o secname = Ok sec /\ hget e "st_value" = v + ms_addr sec
                    /\ sget sn secname = Some (hget e "st_shndx")).

Lemma symrel_ext o sn st st' y e : ext st st' -> symrel o sn st y e -> symrel o sn st' y e.
Proof. intros E (A & B & C & D & F & G). unfold symrel. ssplit; auto. eapply strtab_at_ext; eauto. Qed.

Lemma write_symbols_sers ht o : forall syms s nr s', write_symbols ht o s nr syms = Ok s' -> names_inv s ->
  exists es chunks, sers (ht_sym ht) es chunks /\ w_buf s' = w_buf s ++ concat chunks
    /\ Forall2 (symrel o (w_secnums s) (w_strtab s')) syms es
    /\ names_inv s' /\ ext (w_strtab s) (w_strtab s') /\ w_secnums s' = w_secnums s /\ w_shdrs s' = w_shdrs s.
Proof.
  induction syms as [|y r IH]; intros s nr s' H N.
  - injection H as <-. exists [], []. ssplit; try constructor; auto using ext_refl. cbn. now rewrite app_nil_r.
  - cbn [write_symbols] in H. bd H. destruct x as [nm s1].
    assert (N0 : names_inv (add_symmap s (my_id y) nr)) by exact N.
    destruct (get_string_spec _ _ _ _ E N0) as (N1 & A1 & X1 & B1 & H1 & K1 & _).
    bd H. destruct x as [shndx value]. bd H.
    destruct (IH _ _ _ H N1) as (es & ch & S & B & F & N' & X' & K' & Hs').
    set (e := [("st_size", my_size y); ("st_value", value); ("st_shndx", shndx);
               ("st_info", Z.lor (Z.shiftl (if my_global y then stb_global else stb_local) 4) (st_type_of (my_typ y)));
               ("st_name", nm)]%string) in *.
    exists (e :: es), (x :: ch). ssplit.
    + constructor; assumption.
    + rewrite B. cbn. rewrite B1. cbn. now rewrite <- app_assoc.
    + constructor; [|change (w_secnums (wr s1 x)) with (w_secnums s1) in F; rewrite K1 in F; exact F].
      unfold symrel. ssplit; try reflexivity.
      * eapply strtab_at_ext; [exact X'|exact A1].
      * intros Hv. rewrite Hv in E0. injection E0 as <- <-. split; reflexivity.
      * intros v secname Hv Hsn. rewrite Hv, Hsn in E0. cbn in E0.
        unfold key in E0. rewrite K1 in E0. cbn in E0.
        destruct (sget (w_secnums s) secname) as [n|] eqn:G; [|discriminate]. cbn [bind] in E0.
        destruct (obj_get_section o secname) as [sec| | |] eqn:Gs; try discriminate. cbn [bind] in E0.
        injection E0 as <- <-. exists sec. ssplit; reflexivity.
    + exact N'.
    + eapply ext_trans; [exact X1|exact X'].
    + rewrite K'. cbn. rewrite K1. reflexivity.
    + rewrite Hs'. cbn. rewrite H1. reflexivity.
Qed.

(* RELA entries *)
Definition relrel (ht : htypes) (o : mobj) (sm : list (Z * Z)) (rel : mreloc) (e : hdr) : Prop :=
  hget e "r_offset" = mr_offset rel /\ hget e "r_addend" = mr_addend rel
  /\ exists r_sym r_type, zget sm (mr_symid rel) = Some r_sym /\ get_reloc_type o rel = Ok r_type
       /\ hget e "r_info" = (if ht_bits ht =? 64 then Z.shiftl r_sym 32 + r_type else Z.shiftl r_sym 8 + r_type).

Lemma write_relas_sers ht o : forall rels s s', write_relas ht o s rels = Ok s' ->
  exists es chunks, sers (ht_rela ht) es chunks /\ w_buf s' = w_buf s ++ concat chunks
    /\ Forall2 (relrel ht o (w_symmap s)) rels es.
Proof.
  induction rels as [|rel r IH]; intros s s' H.
  - injection H as <-. exists [], []. ssplit; try constructor. cbn. now rewrite app_nil_r.
  - cbn [write_relas] in H. bd H. bd H. bd H. destruct (IH _ _ H) as (es & ch & S & B & F).
    unfold key in E. destruct (zget (w_symmap s) (mr_symid rel)) as [rs|] eqn:G; [|discriminate]. injection E as <-.
    eexists (_ :: es), (x1 :: ch). ssplit.
    + constructor; [exact E1|exact S].
    + rewrite B. cbn. now rewrite <- app_assoc.
    + constructor; [|exact F]. unfold relrel. ssplit; try reflexivity.
      exists rs, x0. ssplit; auto.
Qed.

(* ------------------------------------------------------------------ where the tables sit in the final file *)
Lemma read_table_S be L bs off n r rs : 0 <= n ->
  read_struct be L bs off = Some r -> read_table be L bs (off + Z.of_nat (lsize L)) n = Some rs ->
  read_table be L bs off (n + 1) = Some (r :: rs).
Proof.
  unfold read_table. intros Hn Hr Hrs. destruct (Z.ltb_spec n 0); [lia|]. destruct (Z.ltb_spec (n + 1) 0); [lia|].
  replace (Z.to_nat (n + 1)) with (S (Z.to_nat n)) by lia. cbn [read_table_n]. rewrite Hr. cbn [obind].
  rewrite Hrs. reflexivity.
Qed.

Lemma at_overwrite_hdr buf hb1 hb2 : 16 <= zlen buf ->
  at_ (overwrite buf 16 (hb1 ++ hb2)) 16 hb1 /\ at_ (overwrite buf 16 (hb1 ++ hb2)) (16 + zlen hb1) hb2.
Proof.
  intros Hb. unfold overwrite. set (rest := skipn _ buf).
  assert (Lf : zlen (firstn (Z.to_nat 16) buf) = 16) by (unfold zlen in *; rewrite firstn_length; lia).
  split.
  - exists (firstn (Z.to_nat 16) buf), (hb2 ++ rest). split; [now rewrite <- app_assoc|exact Lf].
  - exists (firstn (Z.to_nat 16) buf ++ hb1), rest. split; [now rewrite <- !app_assoc|].
    unfold zlen in *. rewrite app_length. lia.
Qed.

Lemma null_shdr_decode c64 be :
  mk_shdr (decode_fields be (shdr_layout c64) (zeros (Z.of_nat (lsize (shdr_layout c64))))) = Some (shdr_of []).
Proof. destruct c64, be; reflexivity. Qed.

Lemma hget_hset_ne h k k' v : k <> k' -> hget (hset h k v) k' = hget h k'.
Proof. intros N. unfold hget, hset. cbn [sget]. apply String.eqb_neq in N. now rewrite N. Qed.
Lemma hget_hset_eq h k v : hget (hset h k v) k = v.
Proof. unfold hget, hset. cbn [sget]. now rewrite String.eqb_refl. Qed.

Ltac hg := repeat first [rewrite hget_hset_eq | rewrite hget_hset_ne by discriminate].

Theorem export_tables ht machine o et bs :
  export_object ht machine o et = Ok bs -> image_names_ok o -> ht_ok ht ->
  exists eh hs hs' phs sn,
    (exists raw, read_struct (ht_big ht) (ehdr_layout (ht_bits ht =? 64)) bs 16 = Some raw
                 /\ mk_ehdr (ht_bits ht =? 64) (ht_big ht) raw = Some (ehdr_of (ht_bits ht =? 64) (ht_big ht) eh))
    /\ hget eh "e_type" = et /\ hget eh "e_machine" = machine /\ hget eh "e_version" = 1
    /\ hget eh "e_shnum" = len hs + 1
    /\ hget eh "e_shentsize" = Z.of_nat (lsize (shdr_layout (ht_bits ht =? 64)))
    /\ hget eh "e_ehsize" = 16 + Z.of_nat (lsize (ehdr_layout (ht_bits ht =? 64)))
    /\ hget eh "e_phnum" = len phs
    /\ sget sn ".strtab"%string = Some (hget eh "e_shstrndx")
    /\ Forall2 (fun h h' => patch sn h = Ok h') hs hs'
    /\ (exists raw0 raw,
          read_struct (ht_big ht) (shdr_layout (ht_bits ht =? 64)) bs (hget eh "e_shoff") = Some raw0
          /\ mk_shdr raw0 = Some (shdr_of [])
          /\ read_table (ht_big ht) (shdr_layout (ht_bits ht =? 64)) bs
               (hget eh "e_shoff" + Z.of_nat (lsize (shdr_layout (ht_bits ht =? 64)))) (len hs) = Some raw
          /\ omap mk_shdr raw = Some (map shdr_of hs'))
    /\ (exists rawp, read_table (ht_big ht) (phdr_layout (ht_bits ht =? 64)) bs
                       (16 + Z.of_nat (lsize (ehdr_layout (ht_bits ht =? 64)))) (len phs) = Some rawp
                     /\ omap (mk_phdr (ht_bits ht =? 64)) rawp = Some (map phdr_of phs)).
Proof.
  unfold export_object. intros H NF OK. set (wi := with_images o et). unfold with_images in wi.
  destruct (negb ((et =? et_rel) || (et =? et_exec))); [discriminate|].
  bd H. rename x into id.
  set (s0 := {| w_buf := id ++ zeros (layout_size (ht_ehdr ht)); w_shdrs := []; w_secnums := [];
                w_strtab := [0]; w_names := []; w_phdrs := []; w_symmap := []; w_eh := [] |}) in *.
  assert (I0 : Inv s0).
  { constructor; cbn; [intros t i Hs; discriminate Hs|constructor|intros n k Hs; discriminate Hs]. }
  fold wi in H. bd H. rename x into s1. bd H. rename x into s2. bd H. rename x into s3.
  bd H. rename x into s4. bd H. rename x into s5. bd H. rename x into s6. bd H. rename x into eb.
  bd H. bd H. rename x0 into pb. injection H as <-.
  assert (M36 : mono s2 s5 /\ keepp s2 s5).
  { assert (A3 : mono s2 s3 /\ keepp s2 s3)
      by (split; [eapply write_symbol_table_R; try eassumption; inst_mono
                 |eapply (write_symbol_table_R keepp); try eassumption; inst_keepp]).
    assert (A4 : mono s3 s4 /\ keepp s3 s4).
    { destruct (et =? et_rel); [|injection E3 as <-; split; [apply mono_refl|reflexivity]].
      unfold write_rela_table in E3.
      split; [eapply write_rela_groups_R; try eassumption; inst_mono
             |eapply (write_rela_groups_R keepp); try eassumption; inst_keepp]. }
    assert (A5 : mono s4 s5 /\ keepp s4 s5)
      by (split; [eapply write_string_table_R; try eassumption; inst_mono
                 |eapply (write_string_table_R keepp); try eassumption; inst_keepp]).
    destruct A3, A4, A5. split; [repeat (eapply mono_trans; [eassumption|]); apply mono_refl|].
    unfold keepp in *. congruence. }
  destruct M36 as [M25 P25].
  assert (L0 : zlen (w_buf s0) = 16 + layout_size (ht_ehdr ht)).
  { assert (Lid : zlen id = 16) by (unfold ident_bytes in E; bd E; injection E as <-; reflexivity).
    unfold s0. cbn [w_buf]. unfold zlen in *. rewrite app_length. unfold zeros. rewrite repeat_length.
    assert (0 <= layout_size (ht_ehdr ht)).
    { clear. induction (ht_ehdr ht) as [|[[n c] b] L IHL]; cbn; [lia|]. destruct (fmt_info c) as [[k sg]|]; lia. }
    lia. }
  (* section header table *)
  unfold write_section_headers in E5.
  destruct (align_to s5 8) as [s5a| | |] eqn:EA; try discriminate. cbn [bind] in E5.
  pose proof (align_to_mono _ _ _ EA) as M5a.
  assert (P5a : w_phdrs s5a = w_phdrs s5) by (destruct (align_to_spec _ _ _ EA) as (pd & -> & _); reflexivity).
  destruct (write_shdr_list_sers _ _ _ _ E5) as (hs' & chunks & FP & SS & B6 & Eh6 & Ek6 & Ep6).
  cbn in B6, Eh6, Ek6, Ep6.
  assert (Leb : zlen eb = layout_size (ht_ehdr ht)).
  { unfold elf_header_bytes in E6. bd E6. bd E6. now apply serialize_len in E6. }
  pose proof (serialize_all_len _ _ _ E8) as Lpb.
  destruct (serialize_all_sers _ _ _ E8) as (pch & PS & Epb).
  assert (Lb2 : 16 + zlen (eb ++ pb) <= zlen (w_buf s2)).
  { assert (Hp6 : w_phdrs s6 = w_phdrs s2) by (unfold keepp in P25; congruence).
    destruct wi eqn:Ewi.
    - destruct (write_images_spec _ _ _ _ E0 I0 NF)
        as (I1 & M1 & _ & _ & _ & _ & KW1 & HS1 & HK1 & phs & Hphs & Fph).
      assert (KW0 : keys_in s0 []) by (intros n Hn; cbn in Hn; congruence).
      destruct (write_sections_spec 0 _ _ _ _ E1 (inv_names _ I1) (KW1 _ KW0)) as (N2 & M2 & _ & P2 & _);
        [unfold zlen; lia|].
      pose proof (ext_len _ _ (m_buf _ _ M2)).
      assert (len (w_phdrs s6) = len (mo_images o)).
      { rewrite Hp6, P2, Hphs. cbn. symmetry. eapply Forall2_len; eauto. }
      unfold zlen in *. rewrite app_length. lia.
    - injection E0 as <-.
      assert (KW0 : keys_in s0 []) by (intros n Hn; cbn in Hn; congruence).
      destruct (write_sections_spec 0 _ _ _ _ E1 (inv_names _ I0) KW0) as (N2 & M2 & _ & P2 & _);
        [unfold zlen; lia|].
      pose proof (ext_len _ _ (m_buf _ _ M2)).
      assert (len (w_phdrs s6) = 0) by (rewrite Hp6, P2; reflexivity).
      unfold zlen in *. rewrite app_length. lia. }
  pose proof (ext_len _ _ (m_buf _ _ M25)) as L25. pose proof (ext_len _ _ (m_buf _ _ M5a)) as L5a.
  set (esz := layout_size (ht_shdr ht)) in *.
  assert (Hesz : esz = Z.of_nat (lsize (shdr_layout (ht_bits ht =? 64)))).
  { destruct (ok_sh _ OK) as (_ & Lq & G). unfold esz. rewrite layout_size_spec, Lq; [reflexivity|].
    destruct (ht_big ht); [left|right]; exact G. }
  assert (Hehs : layout_size (ht_ehdr ht) = Z.of_nat (lsize (ehdr_layout (ht_bits ht =? 64)))).
  { destruct (ok_eh _ OK) as (_ & Lq & G). rewrite layout_size_spec, Lq; [reflexivity|].
    destruct (ht_big ht); [left|right]; exact G. }
  assert (L6 : zlen (w_buf s6) = zlen (w_buf s5a) + esz + zlen (List.concat chunks)).
  { rewrite B6. unfold zlen. rewrite !app_length. unfold zeros. rewrite repeat_length. rewrite Hesz. lia. }
  assert (Hb6 : 16 <= zlen (w_buf s6)) by (unfold zlen in *; rewrite app_length in Lb2; lia).
  destruct (at_overwrite_hdr (w_buf s6) eb pb Hb6) as [Aeb Apb].
  assert (Atab : at_ (overwrite (w_buf s6) e_ident_size (eb ++ pb)) (zlen (w_buf s5a))
                     (zeros esz ++ List.concat chunks)).
  { apply at_overwrite; [lia|unfold zlen in *; lia|]. rewrite B6, <- app_assoc. apply at_here. }
  apply at_split in Atab as [Anull Atab].
  assert (Lz : zlen (zeros esz) = esz) by (unfold zlen, zeros; rewrite repeat_length, Hesz; lia).
  rewrite Lz in Atab.
  (* ELF header record *)
  unfold elf_header_bytes in E6.
  set (eh0 := hset (hset (hset (w_eh s6) "e_type" et) "e_machine" machine) "e_version" 1) in *.
  bd E6. rename x0 into eh1. bd E6. rename x0 into nstr.
  assert (H1 : forall k, k <> "e_entry"%string -> hget eh1 k = hget eh0 k).
  { intros k Hk. destruct (et =? et_exec).
    - destruct (mo_entry o).
      + bd E9. injection E9 as <-. apply hget_hset_ne. intro Q. apply Hk. now symmetry.
      + injection E9 as <-. apply hget_hset_ne. intro Q. apply Hk. now symmetry.
    - injection E9 as <-. reflexivity. }
  set (eh := hset (hset (hset eh1 "e_flags" 0) "e_ehsize" (e_ident_size + layout_size (ht_ehdr ht)))
                  "e_shstrndx" nstr) in *.
  destruct (ehdr_roundtrip ht OK _ _ E6) as [Lraw Draw].
  assert (F_sh : forall k, k <> "e_flags"%string -> k <> "e_ehsize"%string -> k <> "e_shstrndx"%string ->
                 k <> "e_entry"%string -> hget eh k = hget eh0 k).
  { intros k K1 K2 K3 K4. unfold eh. rewrite !hget_hset_ne by (intro Q; symmetry in Q; contradiction). now apply H1. }
  exists eh, (w_shdrs s5a), hs', (w_phdrs s6), (w_secnums s5a).
  ssplit.
  - eexists. split; [apply read_struct_at; [exact Aeb|exact Lraw]|exact Draw].
  - rewrite F_sh by discriminate. unfold eh0. hg. reflexivity.
  - rewrite F_sh by discriminate. unfold eh0. hg. reflexivity.
  - rewrite F_sh by discriminate. unfold eh0. hg. reflexivity.
  - rewrite F_sh by discriminate. unfold eh0. hg. rewrite Eh6. hg. reflexivity.
  - rewrite F_sh by discriminate. unfold eh0. hg. rewrite Eh6. hg. exact Hesz.
  - unfold eh. hg. rewrite Hehs. reflexivity.
  - rewrite F_sh by discriminate. unfold eh0. hg.
    destruct (Z.eqb_spec (hget (w_eh s6) "e_phnum") (len (w_phdrs s6))) as [Q|Q]; [exact Q|discriminate E7].
  - unfold eh. hg. unfold key in E10. rewrite Ek6 in E10.
    destruct (sget (w_secnums s5a) ".strtab"); [now injection E10 as ->|discriminate].
  - exact FP.
  - assert (Eoff : hget eh "e_shoff" = zlen (w_buf s5a)).
    { rewrite F_sh by discriminate. unfold eh0. hg. rewrite Eh6. hg. reflexivity. }
    rewrite Eoff.
    destruct (shdr_table_read ht OK hs' chunks _ _ SS Atab) as (raw & R1 & R2).
    exists (decode_fields (ht_big ht) (shdr_layout (ht_bits ht =? 64)) (zeros esz)), raw. ssplit.
    + apply read_struct_at; [exact Anull|]. unfold zeros. rewrite repeat_length, Hesz. lia.
    + rewrite Hesz. apply null_shdr_decode.
    + rewrite <- Hesz. assert (Q : len (w_shdrs s5a) = len hs') by exact (Forall2_len _ _ _ FP). rewrite Q. exact R1.
    + exact R2.
  - rewrite Leb, Hehs in Apb. rewrite Epb in Apb |- *.
    destruct (phdr_read ht OK _ _ _ _ PS Apb) as (rawp & R1 & R2). exists rawp. split; [exact R1|exact R2].
Qed.
