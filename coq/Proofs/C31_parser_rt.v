(* Proofs/C31_parser_rt.v — the repaired parser returns, for the text of every well-formed
   concrete syntax tree of the reference grammar, exactly the abstract syntax the grammar
   prescribes (build_alt): recursive-descent correctness by induction over the trees, with the
   usual generalisation "parse a prefix, leave the rest". *)
From PV Require Import Lib.Py Lib.Tac Spec.RegLangSpec Model.Regex.
From PV Require Import Proofs.C31_sets Proofs.C31_regex Proofs.C31_parser.
Open Scope Z_scope.

(* the part of _parse_element before _parse_modifier *)
Definition parse_atom_inner (f : nat) (txt : list Z) : result (re * list Z) :=
  match txt with
  | c :: rest =>
      if c =? ch_lpar then
        '(e, rest') <- parse_or f rest ;;
        match rest' with
        | d :: rest2 => if d =? ch_rpar then Ok (e, rest2) else Diag 1
        | [] => Diag 1
        end
      else if c =? ch_lbrack then parse_set f txt
      else if c =? ch_dot then Ok (SIGMA, rest)
      else '(sym, rest') <- eat_any txt ;; Ok (Symbol sym, rest')
  | [] => Diag 1
  end.

Lemma parse_element_unfold f txt :
  parse_element (S f) txt = ('(e, rest) <- parse_atom_inner f txt ;; Ok (parse_modifier e rest)).
Proof. reflexivity. Qed.

(* what may follow *)
Definition no_mod_head (rest : list Z) : Prop :=
  match rest with [] => True | c :: _ => c <> ch_star /\ c <> ch_plus /\ c <> ch_qmark end.
Definition seq_follow (rest : list Z) : Prop :=
  match rest with [] => True | c :: _ => c = ch_bar \/ c = ch_rpar end.
Definition alt_follow (rest : list Z) : Prop :=
  match rest with [] => True | c :: _ => c = ch_rpar end.
Definition start_char (c : Z) : Prop :=
  c <> ch_bar /\ c <> ch_rpar /\ c <> ch_star /\ c <> ch_plus /\ c <> ch_qmark.

Ltac chars := unfold plain_lit, class_lit, start_char, ch_lpar, ch_rpar, ch_star, ch_plus, ch_minus, ch_dot,
  ch_qmark, ch_lbrack, ch_bslash, ch_rbrack, ch_caret, ch_bar in *.

Lemma seq_follow_no_mod rest : seq_follow rest -> no_mod_head rest.
Proof. destruct rest as [|c r]; cbn; auto. chars. lia. Qed.

Lemma alt_follow_seq rest : alt_follow rest -> seq_follow rest.
Proof. destruct rest as [|c r]; cbn; auto. Qed.

(* ---- character classes *)
Lemma set_loop_items items : Forall wf_item items -> forall fuel acc rest,
  (length items < fuel)%nat ->
  set_loop fuel (flat_map unparse_item items ++ ch_rbrack :: rest) acc =
  Ok (acc ++ map item_range items, ch_rbrack :: rest).
Proof.
  induction 1 as [|i items Hi Hitems IH]; intros fuel acc rest Hf.
  - destruct fuel; [cbn in Hf; lia|]. cbn. now rewrite app_nil_r.
  - destruct fuel as [|fuel]; [cbn in Hf; lia|]. cbn [length] in Hf.
    assert (Hnext : forall d tl, flat_map unparse_item items ++ ch_rbrack :: rest = d :: tl -> d <> ch_minus).
    { intros d tl E. destruct items as [|i2 items2]; cbn in E.
      - inversion E; subst. chars. lia.
      - inversion Hitems as [|? ? Hi2 _]; subst. destruct i2; cbn in E, Hi2; inversion E; subst; chars; lia. }
    cbn [flat_map]. rewrite <- app_assoc.
    destruct i as [c|c d]; cbn [unparse_item app wf_item item_range map] in *.
    + cbn [set_loop]. assert (Ec : (c =? ch_rbrack) = false) by (chars; lia). rewrite Ec.
      unfold eat_any. assert (Eb : (c =? ch_bslash) = false) by (chars; lia). rewrite Eb. cbn [bind].
      destruct (flat_map unparse_item items ++ ch_rbrack :: rest) as [|d tl] eqn:E.
      * exfalso. symmetry in E. revert E. apply app_cons_not_nil.
      * assert (Ed : (d =? ch_minus) = false) by (specialize (Hnext d tl eq_refl); lia). rewrite Ed.
        rewrite <- E, IH by lia. rewrite <- app_assoc. reflexivity.
    + destruct Hi as (Hc & Hd & Hlt). cbn [set_loop].
      assert (Ec : (c =? ch_rbrack) = false) by (chars; lia). rewrite Ec.
      unfold eat_any. assert (Eb : (c =? ch_bslash) = false) by (chars; lia). rewrite Eb. cbn [bind].
      assert (Em : (ch_minus =? ch_minus) = true) by reflexivity. rewrite Em.
      assert (Eb2 : (d =? ch_bslash) = false) by (chars; lia). rewrite Eb2. cbn [bind].
      assert (El : (c <? d) = true) by lia. rewrite El.
      rewrite IH by lia. rewrite <- app_assoc. reflexivity.
Qed.

Lemma parse_set_class items rest fuel : items <> [] -> Forall wf_item items -> (length items < fuel)%nat ->
  parse_set fuel (ch_lbrack :: flat_map unparse_item items ++ ch_rbrack :: rest) =
  Ok (Sym (mk_iset (map item_range items)), rest).
Proof.
  intros Hne Hwf Hf. unfold parse_set.
  destruct (flat_map unparse_item items ++ ch_rbrack :: rest) as [|c tl] eqn:E.
  - exfalso. symmetry in E. revert E. apply app_cons_not_nil.
  - assert (Ec : (c =? ch_caret) = false).
    { destruct items as [|i items]; [congruence|]. inversion Hwf as [|? ? Hi _]; subst.
      destruct i; cbn in E, Hi; inversion E; subst; chars; lia. }
    rewrite Ec, <- E, (set_loop_items items Hwf fuel [] rest Hf). cbn [bind app].
    destruct (map item_range items) eqn:Em; [destruct items; [congruence|discriminate]|].
    reflexivity.
Qed.

(* ---- first character of an element *)
Lemma atom_head a : wf_atom a -> exists c tl, unparse_atom a = c :: tl /\ start_char c.
Proof.
  destruct a; cbn; intros H; eexists; eexists; (split; [reflexivity|]); chars; lia.
Qed.

Lemma elem_head e : wf_elem e -> forall more, exists c tl, unparse_elem e ++ more = c :: tl /\ start_char c.
Proof.
  destruct e as [a m]. cbn. intros H more. destruct (atom_head a H) as (c & tl & E & Hc).
  rewrite E. cbn. eauto.
Qed.

Lemma seq_head_no_mod s rest : wf_seq s -> seq_follow rest -> no_mod_head (unparse_seq s ++ rest).
Proof.
  destruct s as [|e s]; cbn.
  - intros _. apply seq_follow_no_mod.
  - intros [He _] _. rewrite <- app_assoc. destruct (elem_head e He (unparse_seq s ++ rest)) as (c & tl & -> & Hc).
    cbn. chars. lia.
Qed.

(* fuel bookkeeping: from n <= fuel with n = S _ get the predecessor *)
Ltac need_fuel fuel Hf f :=
  destruct fuel as [|f]; [exfalso; lia|].

Lemma parse_modifier_none e rest : no_mod_head rest -> parse_modifier e rest = (e, rest).
Proof.
  destruct rest as [|c r]; cbn; auto. intros (H1 & H2 & H3). unfold parse_modifier.
  assert (E1 : (c =? ch_star) = false) by lia. assert (E2 : (c =? ch_plus) = false) by lia.
  assert (E3 : (c =? ch_qmark) = false) by lia. now rewrite E1, E2, E3.
Qed.

Definition P_atom (a : atom) : Prop := wf_atom a -> forall rest, exists n, forall fuel, (n <= fuel)%nat ->
  parse_atom_inner fuel (unparse_atom a ++ rest) = Ok (build_atom a, rest).
Definition P_elem (e : elem) : Prop := wf_elem e -> forall rest,
  (match e with Elem _ MNone => no_mod_head rest | _ => True end) ->
  exists n, forall fuel, (n <= fuel)%nat ->
  parse_element fuel (unparse_elem e ++ rest) = Ok (build_elem e, rest).
Definition P_seq (s : seq) : Prop := wf_seq s -> forall acc rest, seq_follow rest ->
  exists n, forall fuel, (n <= fuel)%nat ->
  parse_and fuel acc (unparse_seq s ++ rest) = Ok (build_seq acc s, rest).
Definition P_alt (a : alt) : Prop := wf_alt a -> forall rest, alt_follow rest ->
  (exists n, forall fuel, (n <= fuel)%nat ->
     parse_or fuel (unparse_alt a ++ rest) = Ok (build_alt a, rest)) /\
  (forall acc, exists n, forall fuel, (n <= fuel)%nat ->
     or_loop fuel acc (ch_bar :: unparse_alt a ++ rest) = Ok (build_alt_from acc a, rest)).

Lemma or_loop_stop fuel e rest : alt_follow rest -> or_loop (S fuel) e rest = Ok (e, rest).
Proof.
  destruct rest as [|c r]; cbn; auto. intros ->. reflexivity.
Qed.

Lemma parser_roundtrip_all :
  (forall a, P_atom a) /\ (forall e, P_elem e) /\ (forall s, P_seq s) /\ (forall a, P_alt a).
Proof.
  apply cst_mutind.
  - (* ALit *) intros c Hc rest. exists O. intros fuel _. cbn [unparse_atom app build_atom].
    unfold parse_atom_inner. cbn in Hc.
    assert (E1 : (c =? ch_lpar) = false) by (chars; lia). assert (E2 : (c =? ch_lbrack) = false) by (chars; lia).
    assert (E3 : (c =? ch_dot) = false) by (chars; lia). rewrite E1, E2, E3. unfold eat_any.
    assert (E4 : (c =? ch_bslash) = false) by (chars; lia). now rewrite E4.
  - (* AEsc *) intros c _ rest. exists O. intros fuel _. reflexivity.
  - (* ADot *) intros _ rest. exists O. intros fuel _. reflexivity.
  - (* AClass *) intros items [Hne Hwf] rest. exists (S (length items)). intros fuel Hf.
    cbn [unparse_atom build_atom]. rewrite <- !app_assoc. cbn [app].
    unfold parse_atom_inner. change (ch_lbrack =? ch_lpar) with false. change (ch_lbrack =? ch_lbrack) with true.
    cbv iota. apply parse_set_class; [assumption|assumption|lia].
  - (* AGroup *) intros a IH Hwf rest. cbn in Hwf.
    destruct (IH Hwf (ch_rpar :: rest) eq_refl) as [(n & Hn) _]. exists n. intros fuel Hf.
    cbn [unparse_atom build_atom]. rewrite <- !app_assoc. cbn [app].
    unfold parse_atom_inner. change (ch_lpar =? ch_lpar) with true. cbv iota.
    rewrite Hn by assumption. cbn [bind]. reflexivity.
  - (* Elem *) intros a IH m Hwf rest Hfollow. cbn in Hwf.
    destruct m.
    + destruct (IH Hwf rest) as (n & Hn). exists (S n). intros fuel Hf. need_fuel fuel Hf f.
      rewrite parse_element_unfold. cbn [unparse_elem build_elem]. rewrite app_nil_r.
      rewrite Hn by lia. cbn [bind]. now rewrite parse_modifier_none.
    + destruct (IH Hwf (ch_star :: rest)) as (n & Hn). exists (S n). intros fuel Hf. need_fuel fuel Hf f.
      rewrite parse_element_unfold. cbn [unparse_elem build_elem]. rewrite <- app_assoc. cbn [app].
      rewrite Hn by lia. reflexivity.
    + destruct (IH Hwf (ch_plus :: rest)) as (n & Hn). exists (S n). intros fuel Hf. need_fuel fuel Hf f.
      rewrite parse_element_unfold. cbn [unparse_elem build_elem]. rewrite <- app_assoc. cbn [app].
      rewrite Hn by lia. reflexivity.
    + destruct (IH Hwf (ch_qmark :: rest)) as (n & Hn). exists (S n). intros fuel Hf. need_fuel fuel Hf f.
      rewrite parse_element_unfold. cbn [unparse_elem build_elem]. rewrite <- app_assoc. cbn [app].
      rewrite Hn by lia. reflexivity.
  - (* SNil *) intros _ acc rest Hfollow. exists 1%nat. intros fuel Hf. need_fuel fuel Hf f.
    cbn [unparse_seq app build_seq parse_and]. destruct rest as [|c r]; [reflexivity|].
    cbn in Hfollow. destruct Hfollow as [-> | ->]; reflexivity.
  - (* SCons *) intros e IHe s IHs [Hwe Hws] acc rest Hfollow.
    cbn [unparse_seq build_seq]. rewrite <- app_assoc.
    assert (Hm : match e with Elem _ MNone => no_mod_head (unparse_seq s ++ rest) | _ => True end).
    { destruct e as [a []]; auto. now apply seq_head_no_mod. }
    destruct (IHe Hwe (unparse_seq s ++ rest) Hm) as (n1 & Hn1).
    destruct (IHs Hws (concatenate acc (build_elem e)) rest Hfollow) as (n2 & Hn2).
    exists (S (Nat.max n1 n2)). intros fuel Hf. need_fuel fuel Hf f.
    destruct (elem_head e Hwe (unparse_seq s ++ rest)) as (c & tl & E & Hc).
    cbn [parse_and]. rewrite E.
    assert (Ec : ((c =? ch_bar) || (c =? ch_rpar)) = false) by (chars; lia). rewrite Ec, <- E.
    rewrite Hn1 by lia. cbn [bind]. apply Hn2. lia.
  - (* AltOne *) intros s IHs Hwf rest Hfollow. cbn in Hwf. split.
    + destruct (IHs Hwf Eps rest (alt_follow_seq _ Hfollow)) as (n & Hn). exists (S (S n)).
      intros fuel Hf. need_fuel fuel Hf f. need_fuel f Hf f'.
      cbn [unparse_alt build_alt parse_or]. rewrite Hn by lia. cbn [bind].
      now apply or_loop_stop.
    + intros acc. destruct (IHs Hwf Eps rest (alt_follow_seq _ Hfollow)) as (n & Hn). exists (S (S n)).
      intros fuel Hf. need_fuel fuel Hf f. need_fuel f Hf f'.
      cbn [unparse_alt build_alt_from or_loop]. change (ch_bar =? ch_bar) with true. cbv iota.
      rewrite Hn by lia. cbn [bind]. now apply or_loop_stop.
  - (* AltCons *) intros s IHs a IHa [Hws Hwa] rest Hfollow.
    destruct (IHa Hwa rest Hfollow) as [_ IHa2].
    assert (Hsf : seq_follow (ch_bar :: unparse_alt a ++ rest)) by (left; reflexivity).
    destruct (IHs Hws Eps (ch_bar :: unparse_alt a ++ rest) Hsf) as (n1 & Hn1).
    split.
    + destruct (IHa2 (build_seq Eps s)) as (n2 & Hn2). exists (S (Nat.max n1 n2)).
      intros fuel Hf. need_fuel fuel Hf f.
      cbn [unparse_alt build_alt parse_or]. rewrite <- !app_assoc. cbn [app].
      rewrite Hn1 by lia. cbn [bind]. apply Hn2. lia.
    + intros acc. destruct (IHa2 (logical_or acc (build_seq Eps s))) as (n2 & Hn2).
      exists (S (Nat.max n1 n2)). intros fuel Hf. need_fuel fuel Hf f.
      cbn [unparse_alt build_alt_from or_loop]. rewrite <- !app_assoc. cbn [app].
      change (ch_bar =? ch_bar) with true. cbv iota.
      rewrite Hn1 by lia. cbn [bind]. apply Hn2. lia.
Qed.

Theorem parser_matches_grammar a : wf_alt a ->
  exists n, forall fuel, (n <= fuel)%nat -> parse fuel (unparse_alt a) = Ok (build_alt a).
Proof.
  intros Hwf. destruct parser_roundtrip_all as (_ & _ & _ & H).
  destruct (H a Hwf [] I) as [(n & Hn) _]. exists n. intros fuel Hf. unfold parse.
  rewrite <- (app_nil_r (unparse_alt a)), Hn by assumption. reflexivity.
Qed.

(* with the meaning of build_alt: the parsed regex denotes the grammar's language of the text *)
Corollary parser_language a : wf_alt a ->
  exists n, forall fuel, (n <= fuel)%nat ->
  exists r, parse fuel (unparse_alt a) = Ok r /\ forall w, L r w <-> L_alt a w.
Proof.
  intros Hwf. destruct (parser_matches_grammar a Hwf) as (n & Hn). exists n. intros fuel Hf.
  exists (build_alt a). split; [now apply Hn|]. intros w.
  destruct build_meaning as (_ & _ & _ & H). apply H.
Qed.
