(* Proofs/C23_unop.v — NEG rows of ppci2wasm against WasmNumSpec / IRSem (C23). *)
From Coq Require Import ZArith List Bool Lia.
Import ListNotations.
From PV Require Import Lib.Py Lib.Tac.
From PV Require Import Spec.IRSyntax Spec.IRSem Spec.WasmNumSpec.
From PV Require Import Model.Ir2WasmOps Model.Ir2WasmPost Model.Ir2WasmUnop Proofs.C23_ops Proofs.C23_post.
Open Scope Z_scope.

Section Rows.
Variable c : cfg.
Hypothesis Hp : ptr_bytes c = 4.

Theorem unop_good_sound : forall r, unop_good r = true -> unop_row c r.
Proof.
  intros [[t w] p] G. unfold unop_good in G.
  apply andb_true_iff in G. destruct G as [G Cw]. apply andb_true_iff in G. destruct G as [S E].
  destruct p, t; simpl in S, E; try discriminate; destruct w; simpl in Cw; try discriminate;
    (split; [reflexivity|]); intros a z Ha Ez;
    unfold in_range_ty, eval_unop, int_shape in *; rewrite ?Hp in *; simpl in Ha, Ez;
    inversion Ez; subst z; clear Ez; unfold rep, isub, wrap; cbn [bits].
  all: try (rewrite post_i8; f_equal; apply wrap_bits_congr; pows; lia).
  all: try (rewrite post_i16; f_equal; apply wrap_bits_congr; pows; lia).
  all: unfold post_sem, wrap_bits; pows; cbn [andb];
       repeat match goal with |- context [if ?x then _ else _] => destruct x eqn:? end; lia.
Qed.

(* without the re-wrapping, NEG of the minimum of a narrow type is not canonical *)
Theorem neg_i8_unwrapped_wrong : ~ unop_row c (I8, W32, PNone).
Proof.
  intros [_ H]. specialize (H (-128) (-128)). unfold in_range_ty, int_shape in H. simpl in H.
  specialize (H ltac:(lia) eq_refl). vm_compute in H. discriminate.
Qed.
End Rows.
