(* Proofs/C23_post.v — re-wrapping after narrow arithmetic and the integer casts of do_tree (C23). *)
From Coq Require Import ZArith List Bool Lia.
Import ListNotations.
From PV Require Import Lib.Py Lib.Tac.
From PV Require Import Spec.IRSyntax Spec.IRSem Spec.WasmNumSpec Model.Ir2WasmOps Model.Ir2WasmPost.
From PV Require Import Proofs.C23_ops.
Open Scope Z_scope.

Lemma land_255 : forall x, Z.land x 255 = x mod 256.
Proof. intros. change 255 with (Z.ones 8). rewrite Z.land_ones by lia. reflexivity. Qed.
Lemma land_65535 : forall x, Z.land x 65535 = x mod 65536.
Proof. intros. change 65535 with (Z.ones 16). rewrite Z.land_ones by lia. reflexivity. Qed.
Lemma land_32 : forall x, Z.land x 4294967295 = x mod 4294967296.
Proof. intros. change 4294967295 with (Z.ones 32). rewrite Z.land_ones by lia. reflexivity. Qed.

Ltac post_unfold :=
  unfold post_sem, wrap_post, ishr_s, ishl, iand, wrap, signed, unsigned, wrap_bits;
  rewrite ?land_255, ?land_65535, ?land_32; pows; cbn [andb].
Ltac ifs :=
  repeat match goal with
         | |- context [if ?x then _ else _] => destruct x eqn:?
         end.

(* re-wrapping a container value gives the representation of the wrapped IR value *)
Lemma post_i8 : forall y, post_sem PSext8 (y mod 2 ^ 32) = (wrap_bits 8 true y) mod 2 ^ 32.
Proof. intros. post_unfold. change (24 mod 32) with 24. pows. ifs; lia. Qed.
Lemma post_i16 : forall y, post_sem PSext16 (y mod 2 ^ 32) = (wrap_bits 16 true y) mod 2 ^ 32.
Proof. intros. post_unfold. change (16 mod 32) with 16. pows. ifs; lia. Qed.
Lemma post_u8 : forall y, post_sem PMask8 (y mod 2 ^ 32) = (wrap_bits 8 false y) mod 2 ^ 32.
Proof. intros. post_unfold. lia. Qed.
Lemma post_u16 : forall y, post_sem PMask16 (y mod 2 ^ 32) = (wrap_bits 16 false y) mod 2 ^ 32.
Proof. intros. post_unfold. lia. Qed.
Lemma post_u32 : forall y, post_sem PMask32 (y mod 2 ^ 64) = (wrap_bits 32 false y) mod 2 ^ 64.
Proof. intros. post_unfold. lia. Qed.

Section Rows.
Variable c : cfg.
Hypothesis Hp : ptr_bytes c = 4.

Ltac post_row lem :=
  match goal with
  | |- exact_post_row _ (?o, ?t, ?w, _) =>
      let S := fresh "S" in
      assert (S : select_binop o t = Some w) by reflexivity;
      destruct (select_wrap c o t w S eq_refl eq_refl) as [cw [C H]];
      exists cw; split; [exact C|];
      intros a b z Ha Hb E;
      destruct (H a b z Ha Hb E) as [x [Hx Hw]];
      exists x; split; [exact Hx|];
      inversion C; subst cw;
      cbn [wop_sem bin_sem bits] in Hx; unfold iadd, isub, imul, ishl, wrap in Hx;
      inversion Hx; subst x; clear Hx;
      unfold wrap_ty, int_shape in Hw; cbn [ty_is_int ty_bits ty_signed] in Hw;
      inversion Hw; subst z; clear Hw;
      unfold rep; cbn [bits]; rewrite lem;
      f_equal; apply wrap_bits_congr; pows; lia
  end.

Theorem select_post_exact : forall o t w,
  select_binop o t = Some w -> inexact o t = true -> signed_on_unsigned o t = false ->
  exact_post_row c (o, t, w, wrap_post t).
Proof.
  intros o t w S I U.
  destruct o; destruct t; simpl in S, I, U; try discriminate; inversion S; subst w; clear S I U;
    cbn [wrap_post].
  all: first [ post_row post_i8 | post_row post_i16 | post_row post_u8 | post_row post_u16
             | post_row post_u32 ].
Qed.
End Rows.

(* ---- casts *)
Definition cast_fixable (from to : ty) : bool :=
  match from, to with
  | I32, U64 => false      (* i64.extend_i32_u zero-extends a signed value: no re-wrapping repairs it *)
  | _, _ => true
  end.

Section Casts.
Variable c : cfg.
Hypothesis Hp : ptr_bytes c = 4.

Ltac cast_tac :=
  match goal with
  | |- cast_row _ ?f ?t _ _ =>
      let cf := eval cbv in (container f) in
      let ct := eval cbv in (container t) in
      match cf with Some ?wf => match ct with Some ?wt =>
        exists wf, wt; split; [reflexivity|]; split; [reflexivity|] end end
  end;
  intros a z Ha W;
  unfold in_range_ty, wrap_ty, int_shape in *; rewrite ?Hp in *;
  cbn [ty_is_int ty_bits ty_signed] in *; pows;
  inversion W; subst z; clear W;
  unfold rep, conv_sem, wrap_i64, extend_i32_s, extend_i32_u; cbn [bits];
  post_unfold; try change (24 mod 32) with 24; try change (16 mod 32) with 16; pows; ifs; lia.

Theorem select_cast_bare : forall f t cv,
  select_cast f t = Some cv -> cast_exact_bare f t = true -> cast_row c f t cv PNone.
Proof.
  intros f t cv S B.
  destruct f; destruct t; simpl in S, B; try discriminate; inversion S; subst cv; clear S B.
  all: cast_tac.
Qed.

Theorem select_cast_wrapped : forall f t cv,
  select_cast f t = Some cv -> cast_fixable f t = true -> cast_row c f t cv (wrap_post t).
Proof.
  intros f t cv S B.
  destruct f; destruct t; simpl in S, B; try discriminate; inversion S; subst cv; clear S B;
    cbn [wrap_post].
  all: cast_tac.
Qed.

(* witnesses: without re-wrapping a narrowing cast is wrong; i32 -> u64 is wrong in any case *)
Theorem cast_i32_u8_bare_wrong : ~ cast_row c I32 U8 CvNone PNone.
Proof.
  intros [cf [ct [Cf [Ct H]]]]. inversion Cf; inversion Ct; subst.
  specialize (H 300 44). unfold in_range_ty, wrap_ty, int_shape in H. simpl in H.
  specialize (H ltac:(lia) eq_refl). vm_compute in H. discriminate.
Qed.
Theorem cast_i32_u64_wrong : forall p, ~ cast_row c I32 U64 CvExtU p.
Proof.
  intros p [cf [ct [Cf [Ct H]]]]. inversion Cf; inversion Ct; subst.
  specialize (H (-1) 18446744073709551615). unfold in_range_ty, wrap_ty, int_shape in H. simpl in H.
  specialize (H ltac:(lia) eq_refl). destruct p; vm_compute in H; discriminate.
Qed.
(* the repaired i32 -> u64 (fixes/C23-cast-i32-u64-sign-extend.diff): sign extension is exact *)
Theorem cast_i32_u64_exts : cast_row c I32 U64 CvExtS PNone.
Proof. cast_tac. Qed.
End Casts.
