(* Proofs/C11_final.v — C11: the statements used by Props/C11.v. *)
From PV Require Import Lib.Py Lib.Tac Spec.RelocSpec Gen.bitfun Model.Reloc Gen.Tab_relocs
  Proofs.C11_bits Proofs.C11_relocs Proofs.C11_relocs2.
From Coq Require Import String.
Open Scope Z_scope.

Definition bytes_ok (n : Z) (data : list Z) : Prop := Forall (fun d => 0 <= d < 256) data /\ len data = n.

(* BitView(data, 0, length)[a:b] = v writes exactly bits [a, b) of the little-endian word *)
Lemma bitview_writes_field data length a b v :
  Forall (fun d => 0 <= d < 256) data -> 0 <= a -> a < b -> b <= 8 * len data -> len data <= length ->
  0 <= v < 2 ^ (b - a) ->
  exists d', bv_set data length a b v = Ok d' /\ bytes_ok (len data) d' /\
    bits (le_word d') a (b - a) = v /\
    forall a' n', 0 <= a' -> 0 <= n' -> a' + n' <= a \/ b <= a' ->
                  bits (le_word d') a' n' = bits (le_word data) a' n'.
Proof.
  intros Hw Ha Hab Hb Hl Hv.
  destruct (bv_set_wset data length a b v) as (d' & E & Hw' & Hl' & Hv'); auto; try lia.
  exists d'. split; [exact E|]. split; [split; assumption|].
  rewrite <- !le_value_word, Hv'. split.
  - rewrite bits_wset_same by lia. apply Z.mod_small. exact Hv.
  - intros a' n' Ha' Hn' Hd. apply bits_wset_other; lia.
Qed.

Lemma W32_ok d : bytes_ok 4 d <-> W32 d. Proof. reflexivity. Qed.
Lemma W16_ok d : bytes_ok 2 d <-> W16 d. Proof. reflexivity. Qed.

(* ---- RISC-V jal (b_imm20) and the two relaxable rvc classes *)
Definition is_jtype (k : rkind) : Prop := k = RvBImm20 \/ k = RvcCBImm11 \/ k = RvcCBlImm11.

Lemma exact_rv_jal k A S P data : is_jtype k -> bytes_ok 4 data -> S mod 2 = 0 -> P mod 2 = 0 ->
  fits_signed 21 (S - P) ->
  exists d', apply k A S data P = Ok d' /\ bytes_ok 4 d' /\ rv_jal_target (le_word d') P = S /\
             bits (le_word d') 0 12 = bits (le_word data) 0 12.
Proof.
  intros Hk Hd HS HP Hf.
  assert (E : apply k A S data P = apply_jtype S P data) by (destruct Hk as [->|[->| ->]]; reflexivity).
  rewrite E. unfold fits_signed in Hf. change (21 - 1) with 20 in Hf.
  destruct (jtype_exact S P data) as (d' & E' & Hw & Hi & Hfr); auto; try (pows; lia).
  exists d'. repeat split; try apply Hw; auto.
  unfold rv_jal_target. rewrite Hi, sext_id by (unfold fits_signed; pows; lia). lia.
Qed.

Lemma rejects_rv_jal_outside k A S P data : is_jtype k -> S mod 2 = 0 -> P mod 2 = 0 ->
  S - P < - 2 ^ 20 \/ 2 ^ 21 <= S - P -> apply k A S data P = Diag 1.
Proof.
  intros Hk HS HP Hr.
  assert (E : apply k A S data P = apply_jtype S P data) by (destruct Hk as [->|[->| ->]]; reflexivity).
  rewrite E. unfold apply_jtype, asrt.
  rewrite (proj2 (Z.eqb_eq _ _) HS), (proj2 (Z.eqb_eq _ _) HP). unfold guard.
  rewrite shiftr_div by lia. rewrite wn_rejects by (pows; lia). reflexivity.
Qed.

(* the full-strength rejection clause fails: +1 MiB is not representable in a J-type immediate, links, and
   decodes as a jump to -1 MiB *)
Lemma rejects_rv_jal_refuted :
  exists S P data d', ~ fits_signed 21 (S - P) /\ apply RvBImm20 0 S data P = Ok d' /\
                      rv_jal_target (le_word d') P <> S.
Proof.
  exists 1048576, 0, [111; 0; 0; 0], [111; 0; 0; 128]. split; [unfold fits_signed; pows; lia|].
  split; [vm_compute; reflexivity|vm_compute; discriminate].
Qed.

(* ---- RISC-V conditional branches (b_imm12) *)
Lemma exact_rv_branch A S P data : bytes_ok 4 data -> S mod 2 = 0 -> P mod 2 = 0 -> fits_signed 13 (S - P) ->
  exists d', apply RvBImm12 A S data P = Ok d' /\ bytes_ok 4 d' /\ rv_branch_target (le_word d') P = S /\
             bits (le_word d') 0 7 = bits (le_word data) 0 7 /\ bits (le_word d') 12 13 = bits (le_word data) 12 13.
Proof.
  intros Hd HS HP Hf. unfold fits_signed in Hf. change (13 - 1) with 12 in Hf.
  destruct (btype_exact A S P data) as (d' & E' & Hw & Hi & Hfr); auto; try (pows; lia).
  exists d'. repeat split; try apply Hw; try apply Hfr; auto.
  unfold rv_branch_target. rewrite Hi, sext_id by (unfold fits_signed; pows; lia). lia.
Qed.

Lemma rejects_rv_branch_outside A S P data : S mod 2 = 0 -> P mod 2 = 0 ->
  S - P < - 2 ^ 12 \/ 2 ^ 13 <= S - P -> apply RvBImm12 A S data P = Diag 1.
Proof.
  intros HS HP Hr. unfold apply, asrt.
  rewrite (proj2 (Z.eqb_eq _ _) HS), (proj2 (Z.eqb_eq _ _) HP). unfold guard.
  rewrite wn_rejects by (pows; lia). reflexivity.
Qed.

(* beq x1, x2, target with the target 4100 bytes ahead links and decodes as a branch to -4092 *)
Lemma rejects_rv_branch_refuted :
  exists S P data d', ~ fits_signed 13 (S - P) /\ apply RvBImm12 0 S data P = Ok d' /\
                      rv_branch_target (le_word d') P = S - 8192.
Proof.
  exists 4100, 0, [99; 128; 32; 0], [99; 130; 32; 128]. split; [unfold fits_signed; pows; lia|].
  split; vm_compute; reflexivity.
Qed.

(* ---- RISC-V lui/addi and auipc/addi pairs: exact for every 32-bit address, any distance *)
Lemma exact_rv_lui_addi A S Phi Plo dhi dlo : bytes_ok 4 dhi -> bytes_ok 4 dlo -> S mod 2 = 0 ->
  exists h l, apply RvAbs32Imm20 A S dhi Phi = Ok h /\ apply RvAbs32Imm12 A S dlo Plo = Ok l /\
    bytes_ok 4 h /\ bytes_ok 4 l /\
    rv_lui_addi (le_word h) (le_word l) = S mod 2 ^ 32 /\
    bits (le_word h) 0 12 = bits (le_word dhi) 0 12 /\ bits (le_word l) 0 20 = bits (le_word dlo) 0 20.
Proof.
  intros Hh Hl HS. unfold apply, asrt. rewrite (proj2 (Z.eqb_eq _ _) HS). unfold guard.
  destruct (hi20_exact S dhi Hh) as (h & Eh & Wh & Bh & Fh).
  assert (Hv : 0 <= Z.land S 4095 < 2 ^ 12) by (rewrite (land_lit S 4095 12) by (reflexivity || lia); apply mod_small_range; pows; lia).
  destruct (lo12_exact dlo (Z.land S 4095) Hl Hv) as (l & El & Wl & Bl & Fl).
  exists h, l. repeat split; try apply Wh; try apply Wl; auto.
  unfold rv_lui_addi, rv_u_imm, rv_i_imm. rewrite Bh, Bl. rewrite (land_lit S 4095 12) by (reflexivity || lia).
  unfold sext. pows. lia.
Qed.

(* auipc at address P (relocation rel_imm20 at P), addi at P + 4 (relocation rel_imm12 at P + 4) *)
Lemma exact_rv_auipc_addi A S P dhi dlo : bytes_ok 4 dhi -> bytes_ok 4 dlo -> S mod 2 = 0 -> P mod 2 = 0 ->
  exists h l, apply RvRelImm20 A S dhi P = Ok h /\ apply RvRelImm12 A S dlo (P + 4) = Ok l /\
    bytes_ok 4 h /\ bytes_ok 4 l /\
    rv_auipc_addi (le_word h) (le_word l) P = S mod 2 ^ 32 /\
    bits (le_word h) 0 12 = bits (le_word dhi) 0 12 /\ bits (le_word l) 0 20 = bits (le_word dlo) 0 20.
Proof.
  intros Hh Hl HS HP. unfold apply, asrt.
  assert (HP4 : (P + 4) mod 2 = 0) by lia.
  rewrite (proj2 (Z.eqb_eq _ _) HS), (proj2 (Z.eqb_eq _ _) HP), (proj2 (Z.eqb_eq _ _) HP4). unfold guard.
  destruct (hi20_exact (S - P) dhi Hh) as (h & Eh & Wh & Bh & Fh).
  replace (S - (P + 4) + 4) with (S - P) by lia.
  assert (Hv : 0 <= Z.land (S - P) 4095 < 2 ^ 12) by (rewrite (land_lit (S - P) 4095 12) by (reflexivity || lia); apply mod_small_range; pows; lia).
  destruct (lo12_exact dlo (Z.land (S - P) 4095) Hl Hv) as (l & El & Wl & Bl & Fl).
  exists h, l. repeat split; try apply Wh; try apply Wl; auto.
  unfold rv_auipc_addi, rv_u_imm, rv_i_imm. rewrite Bh, Bl. rewrite (land_lit (S - P) 4095 12) by (reflexivity || lia).
  unfold sext. pows. lia.
Qed.

(* ---- RVC c.j / c.jal (bc_imm11) and c.beqz / c.bnez (bc_imm8) *)
Lemma exact_rvc_cj A S P data : bytes_ok 2 data -> S mod 2 = 0 -> P mod 2 = 0 -> fits_signed 12 (S - P) ->
  exists d', apply RvcBcImm11 A S data P = Ok d' /\ bytes_ok 2 d' /\ rvc_j_target (le_word d') P = S /\
             bits (le_word d') 0 2 = bits (le_word data) 0 2 /\ bits (le_word d') 13 3 = bits (le_word data) 13 3.
Proof.
  intros Hd HS HP Hf. unfold fits_signed in Hf. change (12 - 1) with 11 in Hf.
  destruct (cj_exact A S P data) as (d' & E' & Hw & Hi & Hfr); auto; try (pows; lia).
  exists d'. repeat split; try apply Hw; try apply Hfr; auto.
  unfold rvc_j_target. rewrite Hi, sext_id by (unfold fits_signed; pows; lia). lia.
Qed.

Lemma rejects_rvc_cj_refuted :
  exists S P data d', ~ fits_signed 12 (S - P) /\ apply RvcBcImm11 0 S data P = Ok d' /\
                      rvc_j_target (le_word d') P = S - 4096.
Proof.
  exists 2048, 0, [1; 160], [1; 176]. split; [unfold fits_signed; pows; lia|]. split; vm_compute; reflexivity.
Qed.

Lemma exact_rvc_cb A S P data : bytes_ok 2 data -> S mod 2 = 0 -> P mod 2 = 0 -> fits_signed 9 (S - P) ->
  exists d', apply RvcBcImm8 A S data P = Ok d' /\ bytes_ok 2 d' /\ rvc_b_target (le_word d') P = S /\
             bits (le_word d') 0 2 = bits (le_word data) 0 2 /\ bits (le_word d') 7 3 = bits (le_word data) 7 3 /\
             bits (le_word d') 13 3 = bits (le_word data) 13 3.
Proof.
  intros Hd HS HP Hf. unfold fits_signed in Hf. change (9 - 1) with 8 in Hf.
  destruct (cb_exact A S P data) as (d' & E' & Hw & Hi & Hfr); auto; try (pows; lia).
  exists d'. repeat split; try apply Hw; try apply Hfr; auto.
  unfold rvc_b_target. rewrite Hi, sext_id by (unfold fits_signed; pows; lia). lia.
Qed.

(* ---- ARM b / bl (imm24) *)
Lemma exact_arm_b A S P data : bytes_ok 4 data -> S mod 4 = 0 -> P mod 4 = 0 -> fits_signed 26 (S - (P + 8)) ->
  exists d', apply ArmImm24 A S data P = Ok d' /\ bytes_ok 4 d' /\ arm_b_target (le_word d') P = S /\
             bits (le_word d') 24 8 = bits (le_word data) 24 8.
Proof.
  intros Hd HS HP Hf. unfold fits_signed in Hf. change (26 - 1) with 25 in Hf.
  destruct (arm_imm24_exact A S P data) as (d' & E' & Hw & Hi & Hfr); auto; try (pows; lia).
  exists d'. repeat split; try apply Hw; auto.
  unfold arm_b_target. rewrite Hi, sext_id by (unfold fits_signed; pows; lia). lia.
Qed.

Lemma rejects_arm_b_refuted :
  exists S P data d', ~ fits_signed 26 (S - (P + 8)) /\ apply ArmImm24 0 S data P = Ok d' /\
                      arm_b_target (le_word d') P = S - 67108864.
Proof.
  exists 33554440, 0, [0; 0; 0; 235], [0; 0; 128; 235]. split; [unfold fits_signed; pows; lia|]. split; vm_compute; reflexivity.
Qed.

(* ---- x86-64 rel32 (the only class that honours the addend), abs64, and data words *)
Lemma exact_x86_rel32 A S P data : bytes_ok 4 data -> fits_signed 32 (S + A - P) ->
  exists d', apply X86Rel32 A S data P = Ok d' /\ bytes_ok 4 d' /\ x86_rel32 (le_word d') = S + A - P.
Proof.
  intros [Hw Hl] Hf. unfold fits_signed in Hf. change (32 - 1) with 31 in Hf. unfold apply.
  destruct (single_field 4 data 32 (S - P + A)) as (d' & E & Hw' & Hl' & Hv); auto; try (pows; lia).
  exists d'. repeat split; auto. unfold x86_rel32. rewrite Hv. unfold sext. pows. lia.
Qed.

(* a call/jmp rel32 with the addend -4 every x86-64 instruction class uses goes to S *)
Lemma exact_x86_rel32_target S P data : bytes_ok 4 data -> fits_signed 32 (S - 4 - P) ->
  exists d', apply X86Rel32 (-4) S data P = Ok d' /\ bytes_ok 4 d' /\ x86_rel32_target (le_word d') P = S.
Proof.
  intros Hd Hf. destruct (exact_x86_rel32 (-4) S P data Hd) as (d' & E & Hw & Hv).
  { replace (S + -4 - P) with (S - 4 - P) by lia. exact Hf. }
  exists d'. repeat split; try apply Hw; auto. unfold x86_rel32_target. unfold x86_rel32 in Hv. rewrite Hv. lia.
Qed.

Lemma rejects_x86_rel32_refuted :
  exists A S P data d', ~ fits_signed 32 (S + A - P) /\ apply X86Rel32 A S data P = Ok d' /\
                        x86_rel32 (le_word d') <> S + A - P.
Proof.
  exists 0, 2147483648, 0, [0; 0; 0; 0], [0; 0; 0; 128]. split; [unfold fits_signed; pows; lia|].
  split; [vm_compute; reflexivity|vm_compute; discriminate].
Qed.

Lemma exact_abs_word k size A S P data :
  (k = X86Abs32 /\ size = 4) \/ (k = DataAbs32 /\ size = 4 /\ P mod 4 = 0) \/
  (k = DataAbs16 /\ size = 2 /\ P mod 2 = 0) \/ (k = DataAbs64 /\ size = 8 /\ P mod 4 = 0) ->
  bytes_ok size data -> 0 <= S < 2 ^ (8 * size) ->
  exists d', apply k A S data P = Ok d' /\ bytes_ok size d' /\ le_word d' = S.
Proof.
  intros Hk [Hw Hl] HS.
  assert (G : forall n, n = 8 * size -> 0 < size ->
              exists d', tok_apply size data [(0, n)] S = Ok d' /\ bytes_ok size d' /\ le_word d' = S).
  { intros n Hn Hs. destruct (single_field size data n S) as (d' & E & Hw' & Hl' & Hv); auto; try (subst n; lia).
    exists d'. repeat split; auto. rewrite Hv. apply Z.mod_small. subst n. lia. }
  destruct Hk as [[-> ->]|[[-> [-> HP]]|[[-> [-> HP]]|[-> [-> HP]]]]]; unfold apply, asrt;
    rewrite ?(proj2 (Z.eqb_eq _ _) HP); unfold guard; apply G; lia.
Qed.

(* ---- the addend is ignored by every class except x86-64 rel32 *)
Lemma addend_ignored k A S data P : k <> X86Rel32 -> apply k A S data P = apply k 0 S data P.
Proof. intros Hk. destruct k; try reflexivity. congruence. Qed.

Lemma addend_refuted :
  exists A S P data d', A <> 0 /\ apply RvBImm20 A S data P = Ok d' /\ rv_jal_target (le_word d') P = S /\
                        rv_jal_target (le_word d') P <> S + A.
Proof.
  exists 8, 64, 0, [111; 0; 0; 0], [111; 0; 0; 4]. split; [lia|]. split; [vm_compute; reflexivity|].
  split; [vm_compute; reflexivity|vm_compute; discriminate].
Qed.

(* ---- Thumb BL: the asserted range is +-16 MiB but J1/J2 are never written: with the assembler's template
   (J1 = J2 = 1) every distance of 4 MiB or more is mis-encoded *)
Lemma thumb_bl_refuted :
  exists S P data d', fits_signed 25 (S - (P + 4)) /\ apply ThBlImm11 0 S data P = Ok d' /\
                      thumb_bl_target (le_word d') P <> S.
Proof.
  exists 4194308, 0, [0; 240; 0; 248], [0; 240; 0; 248]. split; [unfold fits_signed; pows; lia|].
  split; [vm_compute; reflexivity|vm_compute; discriminate].
Qed.

(* ---- symbol values and the relocation step of the linker *)
Lemma symbol_value secs syms id v : get_symbol_id_value secs syms id = Ok v ->
  exists y, find_symbol syms id = Ok y /\ y_undef y = false /\
    match y_sec y with
    | None => v = y_val y
    | Some sn => exists s, find_section secs sn = Ok s /\ v = s_addr s + y_val y
    end.
Proof.
  unfold get_symbol_id_value. destruct (find_symbol syms id) as [y| | |]; cbn [bind]; try discriminate.
  destruct (y_undef y) eqn:Eu; [discriminate|]. intros H. exists y. split; [reflexivity|]. split; [exact Eu|].
  destruct (y_sec y) as [sn|].
  - destruct (find_section secs sn) as [s| | |]; cbn [bind] in H; try discriminate.
    exists s. split; [reflexivity|]. injection H as <-. lia.
  - injection H as <-. reflexivity.
Qed.

Lemma slice_splice (l x : list Z) b e : 0 <= b -> b <= e -> e <= len l -> len x = e - b ->
  sliceZ (splice l b e x) b e = x /\
  firstn (Z.to_nat b) (splice l b e x) = firstn (Z.to_nat b) l /\
  skipn (Z.to_nat e) (splice l b e x) = skipn (Z.to_nat e) l.
Proof.
  unfold sliceZ, splice, len. intros Hb Hbe He Hx.
  assert (L1 : Datatypes.length (firstn (Z.to_nat b) l) = Z.to_nat b) by (rewrite firstn_length; lia).
  split; [|split].
  - rewrite skipn_app, L1, Nat.sub_diag. cbn [skipn].
    rewrite (skipn_all2 (firstn (Z.to_nat b) l)) by lia. cbn [app].
    rewrite firstn_app. replace (Z.to_nat (e - b) - Datatypes.length x)%nat with 0%nat by lia.
    cbn [firstn]. rewrite app_nil_r. apply firstn_all2. lia.
  - rewrite firstn_app, L1, Nat.sub_diag. cbn [firstn]. rewrite app_nil_r. apply firstn_all2. lia.
  - rewrite skipn_app, L1. rewrite (skipn_all2 (firstn (Z.to_nat b) l)) by lia. cbn [app].
    rewrite skipn_app. rewrite (skipn_all2 x) by lia. cbn [app].
    replace (Z.to_nat e - Z.to_nat b - Datatypes.length x)%nat with 0%nat by lia. reflexivity.
Qed.

(* Linker._do_relocation patches exactly the [size] bytes at the relocation offset with apply's result *)
Lemma do_relocation_site secs syms r secs' : 0 <= r_off r -> do_relocation secs syms r = Ok secs' ->
  exists S sec data',
    get_symbol_id_value secs syms (r_sym r) = Ok S /\ find_section secs (r_sec r) = Ok sec /\
    let b := r_off r in let e := r_off r + rk_size (r_kind r) in
    apply (r_kind r) (r_add r) S (sliceZ (s_data sec) b e) (s_addr sec + r_off r) = Ok data' /\
    secs' = update_section secs (r_sec r) (splice (s_data sec) b e data') /\
    sliceZ (splice (s_data sec) b e data') b e = data' /\
    firstn (Z.to_nat b) (splice (s_data sec) b e data') = firstn (Z.to_nat b) (s_data sec) /\
    skipn (Z.to_nat e) (splice (s_data sec) b e data') = skipn (Z.to_nat e) (s_data sec).
Proof.
  intros Hoff. unfold do_relocation.
  destruct (get_symbol_id_value secs syms (r_sym r)) as [S| | |]; cbn [bind]; try discriminate.
  destruct (find_section secs (r_sec r)) as [sec| | |]; cbn [bind]; try discriminate.
  unfold asrt, guard.
  destruct (Z.eqb_spec (len (sliceZ (s_data sec) (r_off r) (r_off r + rk_size (r_kind r)))) (rk_size (r_kind r))) as [E1|]; [|discriminate].
  destruct (apply (r_kind r) (r_add r) S _ (s_addr sec + r_off r)) as [data'| | |] eqn:Ea; cbn [bind]; try discriminate.
  destruct (Z.eqb_spec (len data') (rk_size (r_kind r))) as [E2|]; [|discriminate].
  intros H. injection H as <-. exists S, sec, data'. split; [reflexivity|]. split; [reflexivity|]. cbn zeta.
  split; [exact Ea|]. split; [reflexivity|].
  assert (Hsz : 0 < rk_size (r_kind r)) by (destruct (r_kind r); cbn; lia).
  apply slice_splice; try lia.
  unfold sliceZ, len in E1. rewrite firstn_length, skipn_length in E1. unfold len. lia.
Qed.

(* ---- tie I: the exported table agrees with the model on the size of every modelled class *)
Definition table_row_ok (e : string * string * string * Z * option rkind) : bool :=
  match e with (_, _, _, size, Some k) => size =? rk_size k | _ => true end.
Lemma table_sizes : forallb table_row_ok reloc_table = true.
Proof. vm_compute. reflexivity. Qed.
