(* C29 — cover completeness for target arm: reflection of the closure check on the regenerated table *)
From Coq Require Import String List.
From PV Require Import Spec.BurgCoverSpec Spec.IRTrees Spec.C29Known Model.BurgCover Model.C29Synth Proofs.C29_cover Gen.Tab_burg_arm.
Import ListNotations.
Local Open Scope string_scope.

Lemma closure_arm : closure_ok (usable assume_arm rules_arm) (irtrees desc_arm excl_arm) "S" "stm" = true.
Proof. vm_compute. reflexivity. Qed.

Theorem cover_complete_arm : forall t,
  in_lang (irtrees desc_arm excl_arm) "S" t -> covers (usable assume_arm rules_arm) t "stm".
Proof. exact (closure_ok_complete _ _ _ _ closure_arm). Qed.

(* the synthesized rules (UND<ty>, CALL, ASM) produce registers of the class the target maps the type to *)
Lemma synth_classes_arm : synth_bad desc_arm clsnt_arm synth_arm = [] /\ synth_complete desc_arm synth_arm = true.
Proof. split; vm_compute; reflexivity. Qed.
