(* Proofs/C25_reach.v — the model of calculate_reach (fixed-point iteration, Model/DomTree.v)
   returns exactly reachability by at least one edge (path definition), for EVERY graph,
   whenever the iteration terminates within the fuel (partial correctness). *)
From PV Require Import Lib.Py.
From PV Require Import Spec.CfgSpec Model.DomRef Model.DomTree.
From PV Require Import Proofs.C25_ref Proofs.C25_pdom.
Close Scope Z_scope.
Open Scope nat_scope.

Section Reach.
Variable g : graph.

Definition rnew (rs : list (list nat)) (node : nat) : list nat :=
  filter (fun d => mem d (nth node rs []) || existsb (fun m => mem d (nth m rs [])) (succs g node))
         (seq 0 (length g)).

Lemma reach_sweep_eq rs change node :
  reach_sweep g (rs, change) node =
  if list_eqb (rnew rs node) (nth node rs []) then (rs, change)
  else (set_nth node (rnew rs node) rs, true).
Proof. reflexivity. Qed.

Lemma rnew_In rs node d : In d (rnew rs node) <->
  d < length g /\ (In d (nth node rs []) \/ exists m, edge g node m /\ In d (nth m rs [])).
Proof.
  unfold rnew. rewrite filter_In, in_seq, orb_true_iff, mem_In, existsb_exists. split.
  - intros [H1 [H2|[m [Hm H2]]]]; split; try lia; auto. right. exists m. split.
    now apply succs_edge. now apply mem_In.
  - intros [H1 [H2|[m [Hm H2]]]]; split; try lia; auto. right. exists m. split.
    now apply succs_edge. now apply mem_In.
Qed.

(* invariant: only truly reachable nodes; direct successors are present *)
Definition rinv (rs : list (list nat)) : Prop :=
  length rs = length g /\
  (forall u d, In d (nth u rs []) -> d < length g /\ reachable_plus g u d) /\
  (forall u d, edge g u d -> In d (nth u rs [])).

Lemma reachable_plus_step u m d : edge g u m -> reachable_plus g m d -> reachable_plus g u d.
Proof.
  intros He [w [Hw [l Hp]]]. exists m. split; auto. exists (m :: l). eapply path_step; eauto.
Qed.

Lemma rsweep_inv rs change node : node < length g -> rinv rs -> rinv (fst (reach_sweep g (rs, change) node)).
Proof.
  intros Hn [Hlen [Hs Hc]]. rewrite reach_sweep_eq.
  destruct (list_eqb (rnew rs node) (nth node rs [])); [simpl; split; [|split]; auto|].
  simpl. split; [now rewrite set_nth_length|]. split.
  - intros u d. rewrite nth_set_nth by lia. destruct (u =? node) eqn:E; [|apply Hs].
    apply Nat.eqb_eq in E. subst u. intros H. apply rnew_In in H. destruct H as [Hd [H|[m [Hm H]]]].
    + apply Hs; auto.
    + split; auto. eapply reachable_plus_step; eauto. apply Hs; auto.
  - intros u d He. rewrite nth_set_nth by lia. destruct (u =? node) eqn:E; auto.
    apply Nat.eqb_eq in E. subst u. apply rnew_In. split; [apply He|]. left. auto.
Qed.

Lemma rfold_inv : forall l rs change, (forall u, In u l -> u < length g) -> rinv rs ->
  rinv (fst (fold_left (reach_sweep g) l (rs, change))).
Proof.
  induction l as [|u l IH]; intros rs change Hl Hi; cbn [fold_left]; auto.
  destruct (reach_sweep g (rs, change) u) as [rs1 c1] eqn:E.
  apply IH; [intros; apply Hl; simpl; auto|].
  replace rs1 with (fst (reach_sweep g (rs, change) u)) by now rewrite E.
  apply rsweep_inv; auto. apply Hl. simpl; auto.
Qed.

Lemma rfold_true : forall l rs, snd (fold_left (reach_sweep g) l (rs, true)) = true.
Proof.
  induction l as [|u l IH]; intros rs; cbn [fold_left]; auto.
  rewrite reach_sweep_eq. destruct (list_eqb _ _); apply IH.
Qed.

Lemma rfold_stable : forall l rs rs',
  fold_left (reach_sweep g) l (rs, false) = (rs', false) ->
  rs' = rs /\ forall u, In u l -> nth u rs [] = rnew rs u.
Proof.
  induction l as [|u l IH]; intros rs rs' H; cbn [fold_left] in H.
  - inversion H. split; auto. intros u [].
  - rewrite reach_sweep_eq in H.
    destruct (list_eqb (rnew rs u) (nth u rs [])) eqn:El.
    + destruct (IH _ _ H) as [-> Hs]. split; auto. intros v [<-|Hv]; auto.
      symmetry. now apply list_eqb_true.
    + exfalso. pose proof (rfold_true l (set_nth u (rnew rs u) rs)) as Ht.
      rewrite H in Ht. discriminate.
Qed.

Lemma rfix_complete rs : rinv rs ->
  (forall u, u < length g -> nth u rs [] = rnew rs u) ->
  forall m l d, path g m l d -> forall u, edge g u m -> In d (nth u rs []).
Proof.
  intros [Hlen [Hs Hc]] Hfix m l d Hp. induction Hp; intros u0 He.
  - auto.
  - assert (Hu0 : u0 < length g).
    { destruct He as [He _]. destruct (Nat.lt_ge_cases u0 (length g)); auto.
      rewrite nth_overflow in He by auto. inversion He. }
    rewrite (Hfix u0 Hu0). apply rnew_In. split.
    + pose proof (IHHp u H) as Hin. apply Hs in Hin. tauto.
    + right. exists u. split; auto.
Qed.

Lemma reach_loop_correct : forall fuel rs res, rinv rs -> reach_loop fuel g rs = Ok res ->
  forall u d, u < length g -> (In d (nth u res []) <-> reachable_plus g u d).
Proof.
  induction fuel; intros rs res Hi H; [discriminate|]. cbn [reach_loop] in H.
  destruct (fold_left (reach_sweep g) (seq 0 (length g)) (rs, false)) as [rs' change] eqn:E.
  assert (Hi' : rinv rs').
  { replace rs' with (fst (fold_left (reach_sweep g) (seq 0 (length g)) (rs, false))) by now rewrite E.
    apply rfold_inv; auto. intros u Hu. apply in_seq in Hu. lia. }
  destruct change.
  - eapply IHfuel; eauto.
  - inversion H; subst res. destruct (rfold_stable _ _ _ E) as [-> Hfix].
    intros u d Hu. split.
    + intros Hd. apply Hi' in Hd. tauto.
    + intros [m [He [l Hp]]]. eapply rfix_complete; eauto.
      intros v Hv. apply Hfix. apply in_seq. lia.
Qed.

Theorem calculate_reach_correct fuel res : calculate_reach fuel g = Ok res ->
  forall u d, u < length g -> (In d (nth u res []) <-> reachable_plus g u d).
Proof.
  unfold calculate_reach. apply reach_loop_correct.
  split; [now rewrite map_length, seq_length|]. split.
  - intros u d. destruct (Nat.lt_ge_cases u (length g)) as [Hu|Hu].
    + rewrite nth_map_seq by auto. rewrite filter_In, mem_In, succs_edge. intros [H1 H2].
      split; [apply H2|]. exists d. split; auto. exists [d]. constructor.
    + rewrite nth_overflow; [intros []|]. now rewrite map_length, seq_length.
  - intros u d He.
    assert (Hu : u < length g).
    { destruct He as [He _]. destruct (Nat.lt_ge_cases u (length g)); auto.
      rewrite nth_overflow in He by auto. inversion He. }
    rewrite nth_map_seq by auto. rewrite filter_In, mem_In, succs_edge. split; auto.
    apply in_seq. destruct He. lia.
Qed.
End Reach.
