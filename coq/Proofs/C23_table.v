(* Proofs/C23_table.v — the exported operator tables (Gen/Tab_ir2wasm.v) against the hand model
   of the selection, by reflection; lifts the per-row theorems of C23_ops.v to the tables. *)
From Coq Require Import ZArith List Bool.
Import ListNotations.
From PV Require Import Spec.IRSyntax Spec.IRSem Spec.WasmNumSpec Model.Ir2WasmOps.
From PV Require Import Gen.Tab_ir2wasm Proofs.C23_ops.

Scheme Equality for width.
Scheme Equality for ibin.
Scheme Equality for iun.
Scheme Equality for irel.
Scheme Equality for wop.

Definition row_ok (r : IRSyntax.binop * ty * wop) : bool :=
  let '(o, t, w) := r in
  match select_binop o t with Some w' => wop_beq w' w | None => false end.
Definition crow_ok (r : cond * ty * wop) : bool :=
  let '(c, t, w) := r in
  match select_cmp c t with Some w' => wop_beq w' w | None => false end.

Lemma row_ok_sel : forall o t w, row_ok (o, t, w) = true -> select_binop o t = Some w.
Proof.
  intros o t w H. unfold row_ok in H. destruct (select_binop o t) as [w'|]; [|discriminate].
  apply internal_wop_dec_bl in H. subst. reflexivity.
Qed.
Lemma crow_ok_sel : forall c t w, crow_ok (c, t, w) = true -> select_cmp c t = Some w.
Proof.
  intros c t w H. unfold crow_ok in H. destruct (select_cmp c t) as [w'|]; [|discriminate].
  apply internal_wop_dec_bl in H. subst. reflexivity.
Qed.

(* the compiler's table is the model's table *)
Lemma optable_ok : forallb row_ok optable = true.
Proof. vm_compute. reflexivity. Qed.
Lemma cmptable_ok : forallb crow_ok cmptable = true.
Proof. vm_compute. reflexivity. Qed.

(* ... and has a row for everything the model selects (nothing silently dropped) *)
Definition all_binops := [IRSyntax.Add; IRSyntax.Sub; IRSyntax.Mul; IRSyntax.Div; IRSyntax.Rem;
  IRSyntax.Or; IRSyntax.And; IRSyntax.Xor; IRSyntax.Shl; IRSyntax.Shr; IRSyntax.Rol; IRSyntax.Ror].
Definition all_itys := [I8; I16; I32; I64; U8; U16; U32; U64; Ptr].
Definition ty_tag (t : ty) : Z :=
  match t with I8 => 1 | I16 => 2 | I32 => 3 | I64 => 4 | U8 => 5 | U16 => 6 | U32 => 7 | U64 => 8
             | Ptr => 9 | _ => 0 end%Z.
Definition has_row (o : IRSyntax.binop) (t : ty) : bool :=
  existsb (fun '(o', t', _) => binop_eqb o o' && Z.eqb (ty_tag t) (ty_tag t')) optable.
Lemma optable_complete :
  forallb (fun o => forallb (fun t => match select_binop o t with
                                      | Some _ => has_row o t | None => negb (has_row o t) end)
                            all_itys) all_binops = true.
Proof. vm_compute. reflexivity. Qed.

Section Table.
Variable c : cfg.
Hypothesis Hp : ptr_bytes c = 4%Z.

Theorem op_table_sound : forall o t w, In (o, t, w) optable -> inexact o t = false ->
  exact_row c (o, t, w).
Proof.
  intros o t w H I. apply select_exact; auto.
  apply row_ok_sel. pose proof optable_ok as T. rewrite forallb_forall in T. apply T. exact H.
Qed.

Theorem op_table_wrapped : forall o t w, In (o, t, w) optable -> inexact o t = true ->
  signed_on_unsigned o t = false -> wrap_row c (o, t, w).
Proof.
  intros o t w H I U. apply select_wrap; auto.
  apply row_ok_sel. pose proof optable_ok as T. rewrite forallb_forall in T. apply T. exact H.
Qed.

Theorem cmp_table_sound : forall cc t w, In (cc, t, w) cmptable -> cmp_ok cc t = true ->
  cmp_row c cc t w.
Proof.
  intros cc t w H K. apply select_cmp_sound; auto.
  apply crow_ok_sel. pose proof cmptable_ok as T. rewrite forallb_forall in T. apply T. exact H.
Qed.

(* the table really contains rows that are not exact: the full-strength statement is false *)
Theorem op_table_refuted :
  (exists o t w, In (o, t, w) optable /\ ~ exact_row c (o, t, w)) /\
  (exists o t w, In (o, t, w) optable /\ ~ wrap_row c (o, t, w)).
Proof.
  split.
  - exists IRSyntax.Add, I8, (Bin W32 WasmNumSpec.Add). split.
    + assert (E : existsb (fun '(o, t, w) => binop_eqb o IRSyntax.Add && Z.eqb (ty_tag t) 1
                                             && wop_beq w (Bin W32 WasmNumSpec.Add)) optable = true)
        by (vm_compute; reflexivity).
      apply existsb_exists in E. destruct E as [[[o t] w] [Hin E]].
      apply andb_true_iff in E. destruct E as [E Ew]. apply andb_true_iff in E. destruct E as [Eo Et].
      apply internal_wop_dec_bl in Ew. subst w.
      destruct o; try discriminate; destruct t; try discriminate. exact Hin.
    + apply add_i8_not_exact.
  - exists IRSyntax.Shr, Ptr, (Bin W32 ShrS). split.
    + assert (E : existsb (fun '(o, t, w) => binop_eqb o IRSyntax.Shr && Z.eqb (ty_tag t) 9
                                             && wop_beq w (Bin W32 ShrS)) optable = true)
        by (vm_compute; reflexivity).
      apply existsb_exists in E. destruct E as [[[o t] w] [Hin E]].
      apply andb_true_iff in E. destruct E as [E Ew]. apply andb_true_iff in E. destruct E as [Eo Et].
      apply internal_wop_dec_bl in Ew. subst w.
      destruct o; try discriminate; destruct t; try discriminate. exact Hin.
    + apply shr_ptr_wrong; assumption.
Qed.
End Table.
