(* Proofs/C11_relocs2.v — C11 continued: RVC (c.j / c.jal / c.beqz), ARM b/bl, x86-64, data words. *)
From PV Require Import Lib.Py Lib.Tac Spec.RelocSpec Gen.bitfun Model.Reloc Proofs.C11_bits Proofs.C11_relocs.
Open Scope Z_scope.

(* ---------------------------------------------------------------- RVC CJ format (bc_imm11) *)
Lemma cj_exact A S P data : W16 data -> S mod 2 = 0 -> P mod 2 = 0 -> - 2 ^ 11 <= S - P < 2 ^ 12 ->
  exists d', apply RvcBcImm11 A S data P = Ok d' /\ W16 d' /\
    rvc_j_imm (le_word d') = sext 12 (S - P) /\
    bits (le_word d') 0 2 = bits (le_word data) 0 2 /\ bits (le_word d') 13 3 = bits (le_word data) 13 3.
Proof.
  intros [Hw Hl] HS HP Hr. unfold apply, asrt.
  rewrite (proj2 (Z.eqb_eq _ _) HS), (proj2 (Z.eqb_eq _ _) HP). unfold guard.
  rewrite shiftr_div by lia. change (2 ^ 1) with 2.
  rewrite wn_ok by (pows; lia). cbn [bind].
  set (r := ((S - P) / 2) mod 2 ^ 11).
  assert (Hrr : 0 <= r < 2 ^ 11) by (apply mod_small_range; pows; lia).
  lv. start_word data W0.
  bvs. bvs. bvs. bvs. bvs. bvs. bvs. bvs.
  eexists. split; [reflexivity|]. split; [split; assumption|].
  fin_word. unfold rvc_j_imm. bw.
  split; [|split; reflexivity].
  lits. unfold sext. subst r. pows. lia.
Qed.

(* ---------------------------------------------------------------- RVC CB format (bc_imm8) *)
Lemma cb_exact A S P data : W16 data -> S mod 2 = 0 -> P mod 2 = 0 -> - 2 ^ 8 <= S - P < 2 ^ 9 ->
  exists d', apply RvcBcImm8 A S data P = Ok d' /\ W16 d' /\
    rvc_b_imm (le_word d') = sext 9 (S - P) /\
    bits (le_word d') 0 2 = bits (le_word data) 0 2 /\ bits (le_word d') 7 3 = bits (le_word data) 7 3 /\
    bits (le_word d') 13 3 = bits (le_word data) 13 3.
Proof.
  intros [Hw Hl] HS HP Hr. unfold apply, asrt.
  rewrite (proj2 (Z.eqb_eq _ _) HS), (proj2 (Z.eqb_eq _ _) HP). unfold guard.
  rewrite shiftr_div by lia. change (2 ^ 1) with 2.
  rewrite wn_ok by (pows; lia). cbn [bind].
  set (r := ((S - P) / 2) mod 2 ^ 8).
  assert (Hrr : 0 <= r < 2 ^ 8) by (apply mod_small_range; pows; lia).
  lv. start_word data W0.
  bvs. bvs. bvs. bvs. bvs.
  eexists. split; [reflexivity|]. split; [split; assumption|].
  fin_word. unfold rvc_b_imm. bw.
  split; [|repeat split; reflexivity].
  lits. unfold sext. subst r. pows. lia.
Qed.

(* ---------------------------------------------------------------- single-field token classes *)
(* generic: the class writes value v into bits [0, n) of a size-byte word *)
Lemma single_field size data n v : wf data -> len data = size -> 0 < size -> n = 8 * size -> - 2 ^ n < v < 2 ^ n ->
  exists d', tok_apply size data [(0, n)] v = Ok d' /\ wf d' /\ len d' = size /\ le_word d' = v mod 2 ^ n.
Proof.
  intros Hw Hl Hs Hn Hv.
  destruct (tok_apply_single size data 0 n n v) as (d' & E & Hw' & Hl' & Hv'); auto; try lia.
  exists d'. repeat split; auto. rewrite <- le_value_word, Hv'.
  pose proof (le_value_range data Hw) as HW. rewrite Hl in HW.
  assert (HR : 0 <= wset (le_value data) 0 n v < 2 ^ n) by (apply wset_range; try lia; rewrite Hn; exact HW).
  rewrite <- (bits_wset_same (le_value data) 0 n v) by lia.
  unfold bits. rewrite Z.pow_0_r, Z.div_1_r. symmetry. apply Z.mod_small. exact HR.
Qed.

Lemma arm_imm24_exact A S P data : W32 data -> S mod 4 = 0 -> P mod 4 = 0 -> - 2 ^ 25 <= S - (P + 8) < 2 ^ 26 ->
  exists d', apply ArmImm24 A S data P = Ok d' /\ W32 d' /\
    sext 26 (bits (le_word d') 0 24 * 4) = sext 26 (S - (P + 8)) /\
    bits (le_word d') 24 8 = bits (le_word data) 24 8.
Proof.
  intros [Hw Hl] HS HP Hr. unfold apply, asrt.
  rewrite (proj2 (Z.eqb_eq _ _) HS), (proj2 (Z.eqb_eq _ _) HP). unfold guard.
  rewrite shiftr_div by lia. change (2 ^ 2) with 4.
  rewrite wn_ok by (pows; lia). cbn [bind].
  set (r := ((S - (P + 8)) / 4) mod 2 ^ 24).
  assert (Hrr : 0 <= r < 2 ^ 24) by (apply mod_small_range; pows; lia).
  destruct (tok_apply_single 4 data 0 24 24 r) as (d' & E & Hw' & Hl' & Hv'); auto; try lia.
  exists d'. split; [exact E|]. split; [split; assumption|].
  lv. rewrite Hv'. bw. split; [|reflexivity].
  unfold sext. subst r. pows. lia.
Qed.
