(* Proofs/C33_laws.v — algebraic laws of the IntegerSet operations at the level of the
   representation (the [ranges] lists themselves, i.e. what __eq__ compares), derived from the
   denotation theorems of C33_intset.v and the uniqueness of canonical forms. *)
From PV Require Import Lib.Py Spec.IntSetSpec Model.IntegerSet Proofs.C33_intset.
Open Scope Z_scope.

(* extensionality: two canonical range lists with the same members are the same list *)
Lemma canonical_ext a b : canonical a -> canonical b -> (forall z, mem z a = mem z b) -> a = b.
Proof.
  intros Ha Hb H. destruct (canonical_wf _ Ha) as (la & Wa). destruct (canonical_wf _ Hb) as (lb & Wb).
  eapply wf_unique; eassumption.
Qed.

Lemma canonical_ext_denote a b : canonical a -> canonical b ->
  (forall z, denote a z <-> denote b z) -> a = b.
Proof. intros Ha Hb H. apply canonical_ext; try assumption. now apply mem_ext. Qed.

Lemma union_mem a b z : mem z (union a b) = mem z a || mem z b.
Proof. unfold union. now rewrite mk_mem, mem_app. Qed.

Lemma inter_mem fuel a b :
  canonical a -> canonical b -> (length a + length b < fuel)%nat ->
  exists r, intersection fuel a b = Ok r /\ canonical r /\ forall z, mem z r = mem z a && mem z b.
Proof.
  intros Ha Hb Hf. destruct (intersection_correct fuel a b Ha Hb Hf) as (r & E & C & D).
  exists r. split; [exact E|]. split; [exact C|]. intros z. specialize (D z).
  rewrite <- !mem_denote in D. apply eq_true_iff_eq. rewrite andb_true_iff. exact D.
Qed.

Lemma diff_mem fuel a b :
  canonical a -> canonical b -> (length a + length b < fuel)%nat ->
  exists r, difference fuel a b = Ok r /\ canonical r /\ forall z, mem z r = mem z a && negb (mem z b).
Proof.
  intros Ha Hb Hf. destruct (difference_correct fuel a b Ha Hb Hf) as (r & E & C & D).
  exists r. split; [exact E|]. split; [exact C|]. intros z. specialize (D z).
  rewrite <- !mem_denote in D. apply eq_true_iff_eq. rewrite andb_true_iff, negb_true_iff.
  destruct (mem z b); intuition congruence.
Qed.

Lemma symdiff_mem fuel a b :
  canonical a -> canonical b -> (length a + length b < fuel)%nat ->
  exists r, symmetric_difference fuel a b = Ok r /\ canonical r /\ forall z, mem z r = xorb (mem z a) (mem z b).
Proof.
  intros Ha Hb Hf.
  destruct (diff_mem fuel a b Ha Hb Hf) as (d1 & E1 & C1 & D1).
  destruct (diff_mem fuel b a Hb Ha) as (d2 & E2 & C2 & D2); [lia|].
  unfold symmetric_difference. rewrite E1, E2. cbn [bind]. eexists; split; [reflexivity|].
  split; [apply union_canonical|]. intros z. rewrite union_mem, D1, D2.
  destruct (mem z a), (mem z b); reflexivity.
Qed.

Ltac bools := intros ?z;
  repeat match goal with H : forall z, mem z _ = _ |- _ => rewrite H end;
  rewrite ?union_mem;
  repeat match goal with H : forall z, mem z _ = _ |- _ => rewrite H end;
  rewrite ?union_mem;
  repeat match goal with |- context [mem ?z ?l] => destruct (mem z l) end; reflexivity.

(* ---- union: a | b == b | a, (a | b) | c == a | (b | c) for arbitrary range lists;
        a | a == a and a | {} == a for canonical a ---- *)
Lemma union_comm a b : union a b = union b a.
Proof. apply canonical_ext; try apply union_canonical. bools. Qed.

Lemma union_assoc a b c : union (union a b) c = union a (union b c).
Proof. apply canonical_ext; try apply union_canonical. bools. Qed.

Lemma union_idem a : canonical a -> union a a = a.
Proof. intros Ha. apply canonical_ext; [apply union_canonical|exact Ha|]. bools. Qed.

Lemma union_empty a : canonical a -> union a [] = a /\ union [] a = a.
Proof.
  intros Ha. split; (apply canonical_ext; [apply union_canonical|exact Ha|]);
    intros z; rewrite union_mem; cbn [mem]; destruct (mem z a); reflexivity.
Qed.

Lemma union_laws :
  (forall a b, union a b = union b a) /\
  (forall a b c, union (union a b) c = union a (union b c)) /\
  (forall a, canonical a -> union a a = a /\ union a [] = a /\ union [] a = a).
Proof.
  split; [exact union_comm|]. split; [exact union_assoc|].
  intros a Ha. split; [now apply union_idem|now apply union_empty].
Qed.

(* ---- a & b == b & a ---- *)
Lemma inter_comm fuel a b : canonical a -> canonical b -> (length a + length b < fuel)%nat ->
  exists r, intersection fuel a b = Ok r /\ intersection fuel b a = Ok r.
Proof.
  intros Ha Hb Hf.
  destruct (inter_mem fuel a b Ha Hb Hf) as (r & E & C & D).
  destruct (inter_mem fuel b a Hb Ha) as (r' & E' & C' & D'); [lia|].
  exists r. split; [exact E|]. rewrite E'. f_equal. apply canonical_ext; try assumption. bools.
Qed.

(* ---- a ^ b == (a | b) - (a & b) ---- *)
Lemma symdiff_union_minus_inter fuel a b i :
  canonical a -> canonical b -> (length a + length b < fuel)%nat ->
  intersection fuel a b = Ok i -> (length (union a b) + length i < fuel)%nat ->
  exists r, symmetric_difference fuel a b = Ok r /\ difference fuel (union a b) i = Ok r.
Proof.
  intros Ha Hb Hf Ei Hf2.
  destruct (inter_mem fuel a b Ha Hb Hf) as (i' & Ei' & Ci & Di). rewrite Ei in Ei'. injection Ei' as <-.
  destruct (symdiff_mem fuel a b Ha Hb Hf) as (x & Ex & Cx & Dx).
  destruct (diff_mem fuel (union a b) i (union_canonical a b) Ci Hf2) as (r & Er & Cr & Dr).
  exists x. split; [exact Ex|]. rewrite Er. f_equal. apply canonical_ext; try assumption. bools.
Qed.

(* ---- De Morgan for relative complement: a - (b | c) == (a - b) & (a - c) ---- *)
Lemma diff_union_demorgan fuel a b c d1 d2 :
  canonical a -> canonical b -> canonical c ->
  (length a + length b < fuel)%nat -> (length a + length c < fuel)%nat ->
  difference fuel a b = Ok d1 -> difference fuel a c = Ok d2 ->
  (length a + length (union b c) < fuel)%nat -> (length d1 + length d2 < fuel)%nat ->
  exists r, difference fuel a (union b c) = Ok r /\ intersection fuel d1 d2 = Ok r.
Proof.
  intros Ha Hb Hc F1 F2 E1 E2 F3 F4.
  destruct (diff_mem fuel a b Ha Hb F1) as (d1' & E1' & C1 & D1). rewrite E1 in E1'. injection E1' as <-.
  destruct (diff_mem fuel a c Ha Hc F2) as (d2' & E2' & C2 & D2). rewrite E2 in E2'. injection E2' as <-.
  destruct (diff_mem fuel a (union b c) Ha (union_canonical b c) F3) as (x & Ex & Cx & Dx).
  destruct (inter_mem fuel d1 d2 C1 C2 F4) as (r & Er & Cr & Dr).
  exists x. split; [exact Ex|]. rewrite Er. f_equal. apply canonical_ext; try assumption. bools.
Qed.

(* ---- intersection by double difference: a & b == a - (a - b) ---- *)
Lemma inter_double_diff fuel a b d :
  canonical a -> canonical b -> (length a + length b < fuel)%nat ->
  difference fuel a b = Ok d -> (length a + length d < fuel)%nat ->
  exists r, intersection fuel a b = Ok r /\ difference fuel a d = Ok r.
Proof.
  intros Ha Hb Hf Ed Hf2.
  destruct (diff_mem fuel a b Ha Hb Hf) as (d' & Ed' & Cd & Dd). rewrite Ed in Ed'. injection Ed' as <-.
  destruct (inter_mem fuel a b Ha Hb Hf) as (x & Ex & Cx & Dx).
  destruct (diff_mem fuel a d Ha Cd Hf2) as (r & Er & Cr & Dr).
  exists x. split; [exact Ex|]. rewrite Er. f_equal. apply canonical_ext; try assumption. bools.
Qed.

(* ---------------------------------------------------------------- result sizes: no operation returns more ranges than it was given,
   so the fuel hypotheses of the composed laws can be stated over the inputs alone *)

Lemma insert_length r l : length (insert r l) = S (length l).
Proof. induction l as [|s t IH]; cbn [insert length]; [reflexivity|]. destruct (tuple_le r s); cbn [length]; lia. Qed.

Lemma sorted_length l : length (sorted l) = length l.
Proof. induction l as [|r t IH]; cbn [sorted length]; [reflexivity|]. rewrite insert_length; lia. Qed.

Lemma filter_length_le' (f : rng -> bool) l : (length (filter f l) <= length l)%nat.
Proof. induction l as [|r t IH]; cbn [filter length]; [lia|]. destruct (f r); cbn [length]; lia. Qed.

Lemma merge_loop_length : forall l r, (length (merge_loop r l) <= S (length l))%nat.
Proof.
  induction l as [|s t IH]; intros r; cbn [merge_loop length]; [lia|].
  destruct (fst s >? snd r + 1); cbn [length]; [specialize (IH s)|specialize (IH (fst r, Z.max (snd r) (snd s)))]; lia.
Qed.

Lemma mk_length l : (length (mk l) <= length l)%nat.
Proof.
  unfold mk, merge_overlapping_intervals.
  pose proof (filter_length_le' nonempty_range l) as Hf. rewrite <- sorted_length in Hf.
  destruct (sorted (filter nonempty_range l)) as [|r t]; cbn [length] in *; [lia|].
  pose proof (merge_loop_length t r). lia.
Qed.

Lemma union_length a b : (length (union a b) <= length a + length b)%nat.
Proof. unfold union. pose proof (mk_length (a ++ b)) as H. rewrite app_length in H. exact H. Qed.

Lemma inter_loop_length fuel : forall l1 l2 acc res, inter_loop fuel l1 l2 acc = Ok res ->
  (length res <= length acc + length l1 + length l2)%nat.
Proof.
  induction fuel as [|f IH]; intros l1 l2 acc res; cbn [inter_loop]; [discriminate|].
  destruct l1 as [|r i]; [intros [= <-]; lia|]. destruct l2 as [|s j]; [intros [= <-]; lia|].
  cbv zeta. intros H. apply IH in H. revert H.
  destruct (Z.max (fst r) (fst s) <=? Z.min (snd r) (snd s));
  destruct (snd r <=? Z.min (snd r) (snd s)) eqn:E1; destruct (snd s <=? Z.min (snd r) (snd s)) eqn:E2;
    rewrite ?app_length; cbn [length]; lia.
Qed.

Lemma intersection_length fuel a b r : intersection fuel a b = Ok r -> (length r <= length a + length b)%nat.
Proof.
  unfold intersection. destruct (inter_loop fuel a b []) as [l| | |] eqn:E; cbn [bind]; try discriminate.
  intros [= <-]. apply inter_loop_length in E. pose proof (mk_length l). cbn [length] in E. lia.
Qed.

Lemma diff_loop_length fuel : forall l1 l2 acc res, diff_loop fuel l1 l2 acc = Ok res ->
  (length res <= length acc + length l1 + length l2)%nat.
Proof.
  induction fuel as [|f IH]; intros l1 l2 acc res; cbn [diff_loop]; [discriminate|].
  destruct l1 as [|r i]; [intros [= <-]; lia|]. destruct l2 as [|s j].
  - intros H. apply IH in H. rewrite app_length in H. cbn [length] in *. lia.
  - destruct (fst r >? snd s); [intros H; apply IH in H; cbn [length] in *; lia|].
    destruct (snd r <? fst s); [intros H; apply IH in H; rewrite app_length in H; cbn [length] in *; lia|].
    cbv zeta. destruct (snd r >? snd s); intros H; apply IH in H; revert H;
      destruct (fst r <? fst s); rewrite ?app_length; cbn [length]; lia.
Qed.

Lemma difference_length fuel a b r : difference fuel a b = Ok r -> (length r <= length a + length b)%nat.
Proof.
  unfold difference. destruct (diff_loop fuel a b []) as [l| | |] eqn:E; cbn [bind]; try discriminate.
  intros [= <-]. apply diff_loop_length in E. pose proof (mk_length l). cbn [length] in E. lia.
Qed.

(* ---- the composed laws with fuel bounds over the inputs only ---- *)
Lemma symdiff_law fuel a b : canonical a -> canonical b -> (2 * (length a + length b) < fuel)%nat ->
  exists i r, intersection fuel a b = Ok i /\ symmetric_difference fuel a b = Ok r /\
              difference fuel (union a b) i = Ok r.
Proof.
  intros Ha Hb Hf. destruct (inter_mem fuel a b Ha Hb) as (i & Ei & _); [lia|].
  pose proof (intersection_length _ _ _ _ Ei). pose proof (union_length a b).
  destruct (symdiff_union_minus_inter fuel a b i Ha Hb) as (r & E1 & E2); try assumption; try (unfold rng, range in *; lia).
  exists i, r. auto.
Qed.

Lemma demorgan_law fuel a b c : canonical a -> canonical b -> canonical c ->
  (2 * length a + length b + length c < fuel)%nat ->
  exists d1 d2 r, difference fuel a b = Ok d1 /\ difference fuel a c = Ok d2 /\
                  difference fuel a (union b c) = Ok r /\ intersection fuel d1 d2 = Ok r.
Proof.
  intros Ha Hb Hc Hf.
  destruct (diff_mem fuel a b Ha Hb) as (d1 & E1 & _); [lia|].
  destruct (diff_mem fuel a c Ha Hc) as (d2 & E2 & _); [lia|].
  pose proof (difference_length _ _ _ _ E1). pose proof (difference_length _ _ _ _ E2).
  pose proof (union_length b c).
  destruct (diff_union_demorgan fuel a b c d1 d2 Ha Hb Hc) as (r & E3 & E4); try assumption; try (unfold rng, range in *; lia).
  exists d1, d2, r. auto.
Qed.

Lemma double_diff_law fuel a b : canonical a -> canonical b -> (2 * length a + length b < fuel)%nat ->
  exists d r, difference fuel a b = Ok d /\ intersection fuel a b = Ok r /\ difference fuel a d = Ok r.
Proof.
  intros Ha Hb Hf. destruct (diff_mem fuel a b Ha Hb) as (d & Ed & _); [lia|].
  pose proof (difference_length _ _ _ _ Ed).
  destruct (inter_double_diff fuel a b d Ha Hb) as (r & E1 & E2); try assumption; try (unfold rng, range in *; lia).
  exists d, r. auto.
Qed.

Lemma result_sizes :
  (forall a b, (length (union a b) <= length a + length b)%nat) /\
  (forall fuel a b r, intersection fuel a b = Ok r -> (length r <= length a + length b)%nat) /\
  (forall fuel a b r, difference fuel a b = Ok r -> (length r <= length a + length b)%nat).
Proof. split; [exact union_length|]. split; [exact intersection_length|exact difference_length]. Qed.
