(* Proofs/C16_rd_wf.v — consequences of wf_func / ctor_ok_func needed by the reader lemmas:
   fun_ctx, block lookup, seq_ok for every block, the type pre-scan. *)
From PV Require Import Lib.Py Lib.Tac Lib.Val Lib.Json Spec.IRSyntax Model.IrJson Proofs.C16_irjson.
From PV Require Import Proofs.C16_rd_scope Proofs.C16_rd_patch Proofs.C16_rd_func.
From Coq Require Import String Ascii.
Local Open Scope string_scope.
Local Open Scope list_scope.
Open Scope Z_scope.

(* ---- boolean list predicates *)
Lemma mem_str_In s l : mem_str s l = true <-> In s l.
Proof.
  induction l as [|x l IH]; cbn; [split; [discriminate|contradiction]|].
  rewrite orb_true_iff, IH. destruct (String.eqb_spec s x) as [->|N]; split; auto.
  - intros [E|E]; [discriminate|now right].
  - intros [E|E]; [congruence|now right].
Qed.
Lemma mem_str_false s l : mem_str s l = false <-> ~ In s l.
Proof. rewrite <- mem_str_In. destruct (mem_str s l); split; congruence. Qed.
Lemma nodup_str_NoDup l : nodup_str l = true -> NoDup l.
Proof.
  induction l as [|x l IH]; cbn; [constructor|]. intros H. apply andb_prop in H. destruct H as [A B].
  constructor; [|now apply IH]. apply mem_str_false. now destruct (mem_str x l).
Qed.
Lemma mem_pos_In p l : mem_pos p l = true <-> In p l.
Proof.
  induction l as [|x l IH]; cbn; [split; [discriminate|contradiction]|].
  rewrite orb_true_iff, IH. destruct (Pos.eqb_spec p x) as [->|N]; split; auto.
  - intros [E|E]; [discriminate|now right].
  - intros [E|E]; [congruence|now right].
Qed.
Lemma NoDup_app_disj {A} (l1 l2 : list A) x : NoDup (l1 ++ l2) -> In x l1 -> In x l2 -> False.
Proof.
  induction l1 as [|y l1 IH]; cbn; [contradiction|]. intros H [->|H1] H2; inversion H; subst.
  - apply H3. apply in_or_app. now right.
  - now apply IH.
Qed.
Lemma NoDup_app_l {A} (l1 l2 : list A) : NoDup (l1 ++ l2) -> NoDup l1.
Proof. induction l1 as [|y l1 IH]; cbn; [constructor|]. intros H. inversion H; subst. constructor; [|now apply IH].
  intros C. apply H2. apply in_or_app. now left. Qed.
Lemma NoDup_app_r {A} (l1 l2 : list A) : NoDup (l1 ++ l2) -> NoDup l2.
Proof. induction l1 as [|y l1 IH]; cbn; [auto|]. intros H. inversion H; subst. now apply IH. Qed.

(* ---- seq_pos *)
Fixpoint pshift (p : positive) (n : nat) : positive := match n with O => p | S n' => pshift (Pos.succ p) n' end.
Lemma seq_pos_ge p n x : In x (seq_pos p n) -> (p <= x)%positive.
Proof. revert p. induction n as [|n IH]; intros p; cbn; [contradiction|]. intros [<-|H]; [lia|]. apply IH in H. lia. Qed.
Lemma seq_pos_lt p n x : In x (seq_pos p n) -> (x < pshift p n)%positive.
Proof.
  revert p. induction n as [|n IH]; intros p; cbn; [contradiction|]. intros [<-|H].
  - clear IH. assert (G : forall m q, (q <= pshift q m)%positive).
    { induction m as [|m IHm]; intros q; cbn; [lia|]. specialize (IHm (Pos.succ q)). lia. }
    specialize (G n (Pos.succ p)). lia.
  - now apply IH.
Qed.
Lemma seq_pos_NoDup p n : NoDup (seq_pos p n).
Proof.
  revert p. induction n as [|n IH]; intros p; cbn; constructor; [|apply IH].
  intros H. apply seq_pos_ge in H. lia.
Qed.
Lemma seq_pos_app p a b : seq_pos p (a + b) = seq_pos p a ++ seq_pos (pshift p a) b.
Proof. revert p. induction a as [|a IH]; intros p; cbn; [reflexivity|]. now rewrite IH. Qed.
Lemma pshift_add p a b : pshift p (a + b) = pshift (pshift p a) b.
Proof. revert p. induction a as [|a IH]; intros p; cbn; [reflexivity|]. now rewrite IH. Qed.
Lemma app_eq_len {A} (l1 l1' l2 l2' : list A) :
  List.length l1 = List.length l1' -> l1 ++ l2 = l1' ++ l2' -> l1 = l1' /\ l2 = l2'.
Proof.
  revert l1'. induction l1 as [|x l1 IH]; intros [|y l1'] L H; try discriminate; cbn in *; [auto|].
  inversion H; subst. destruct (IH l1') as [-> ->]; auto.
Qed.
Lemma seq_pos_split p n (l1 l2 : list positive) :
  l1 ++ l2 = seq_pos p n -> l1 = seq_pos p (List.length l1) /\ l2 = seq_pos (pshift p (List.length l1)) (List.length l2).
Proof.
  intros H. assert (L : n = (List.length l1 + List.length l2)%nat).
  { apply (f_equal (@List.length _)) in H. rewrite app_length in H.
    assert (G : forall m q, List.length (seq_pos q m) = m) by (induction m; intros; cbn; auto).
    now rewrite G in H. }
  subst n. rewrite seq_pos_app in H. apply app_eq_len in H; [exact H|].
  assert (G : forall m q, List.length (seq_pos q m) = m) by (induction m; intros; cbn; auto). now rewrite G.
Qed.

(* ---- lookups in association lists built from lists without duplicates *)
Lemma plookup_map {A} (key : A -> string) (val : A -> ty) l d :
  NoDup (map key l) -> In d l -> plookup (key d) (map (fun x => (key x, val x)) l) = Some (val d).
Proof.
  induction l as [|x l IH]; cbn; [contradiction|]. intros N [->|H].
  - now rewrite String.eqb_refl.
  - inversion N; subst. destruct (String.eqb_spec (key d) (key x)) as [E|E].
    + exfalso. apply H2. rewrite <- E. now apply in_map.
    + now apply IH.
Qed.
Lemma plookup_notin s (l : list (string * ty)) : ~ In s (map fst l) -> plookup s l = None.
Proof.
  induction l as [|[k v] l IH]; cbn; [reflexivity|]. intros H. destruct (String.eqb_spec s k) as [->|E].
  - exfalso. apply H. now left.
  - apply IH. tauto.
Qed.
Lemma find_key {A} (key : A -> positive) l d :
  NoDup (map key l) -> In d l -> find (fun x => Pos.eqb (key x) (key d)) l = Some d.
Proof.
  induction l as [|x l IH]; cbn; [contradiction|]. intros N [->|H].
  - now rewrite Pos.eqb_refl.
  - inversion N; subst. destruct (Pos.eqb_spec (key x) (key d)) as [E|E].
    + exfalso. apply H2. rewrite E. now apply in_map.
    + now apply IH.
Qed.
Lemma blookup_blocks (bl : list block) : forall p k,
  map b_id bl = seq_pos p (List.length bl) -> NoDup (map b_name bl) -> In k bl ->
  blookup (b_name k) (number_blocks p (map b_name bl)) = Some (b_id k).
Proof.
  induction bl as [|x bl IH]; intros p k Hi Hn Hk; [contradiction|].
  cbn in Hi. inversion Hi as [[E1 E2]]. cbn [map number_blocks blookup]. destruct Hk as [->|Hk].
  - rewrite String.eqb_refl. now rewrite E1.
  - inversion Hn; subst. destruct (String.eqb_spec (b_name k) (b_name x)) as [E|E].
    + exfalso. apply H1. rewrite <- E. now apply in_map.
    + now apply IH.
Qed.

Definition vt_of (f : func) : list (string * ty) := map (fun d => (def_name d, def_ty d)) (func_defs f).
Definition bm_of (f : func) : list (string * bid) := number_blocks 1 (map b_name (IRSyntax.f_blocks f)).

Section WfFun.
  Variable gn : list string.
  Variable f : func.
  Hypothesis Hwf : wf_func gn f = true.

  Lemma wf_parts :
    map b_id (IRSyntax.f_blocks f) = seq_pos 1 (List.length (IRSyntax.f_blocks f)) /\
    map def_id (func_defs f) = seq_pos 1 (List.length (func_defs f)) /\
    forallb (fun k => wf_block_shape (b_ins k)) (IRSyntax.f_blocks f) = true /\
    forallb (wf_instr gn f) (func_instrs f) = true /\
    NoDup (func_local_names f) /\
    (forall s, In s (func_local_names f) -> ~ In s gn) /\
    NoDup (map b_name (IRSyntax.f_blocks f)) /\
    (forall s, In s (map def_name (func_defs f)) -> ~ In s (map b_name (IRSyntax.f_blocks f))).
  Proof.
    pose proof Hwf as W. unfold wf_func, list_pos_eqb in W.
    apply andb_prop in W. destruct W as [W C9]. apply andb_prop in W. destruct W as [W C8].
    apply andb_prop in W. destruct W as [W C7]. apply andb_prop in W. destruct W as [W C6].
    apply andb_prop in W. destruct W as [W C5]. apply andb_prop in W. destruct W as [W C4].
    apply andb_prop in W. destruct W as [W C3]. apply andb_prop in W. destruct W as [C1 C2].
    repeat split.
    - now apply dec2b_spec in C1.
    - now apply dec2b_spec in C2.
    - assumption.
    - assumption.
    - now apply nodup_str_NoDup.
    - intros s Hs. rewrite forallb_forall in C7. specialize (C7 s Hs). apply mem_str_false. now destruct (mem_str s gn).
    - now apply nodup_str_NoDup.
    - intros s Hs. rewrite forallb_forall in C9. specialize (C9 s Hs). apply mem_str_false.
      now destruct (mem_str s (map b_name (IRSyntax.f_blocks f))).
  Qed.

  Lemma defs_nodup_ids : NoDup (map def_id (func_defs f)).
  Proof. destruct wf_parts as (_ & E & _). rewrite E. apply seq_pos_NoDup. Qed.
  Lemma find_def_in d : In d (func_defs f) -> find_def f (def_id d) = Some d.
  Proof. intros H. unfold find_def. apply (find_key def_id); [apply defs_nodup_ids | assumption]. Qed.
  Lemma wfr_loc v : wfr gn f (Loc v) -> exists d, In d (func_defs f) /\ def_id d = v /\ find_def f v = Some d.
  Proof.
    unfold wfr. cbn. intros H. apply mem_pos_In in H. apply in_map_iff in H. destruct H as (d & E & Hd).
    exists d. repeat split; try assumption. rewrite <- E. now apply find_def_in.
  Qed.
  Lemma defs_nodup_names : NoDup (map def_name (func_defs f)).
  Proof. destruct wf_parts as (_ & _ & _ & _ & N & _). unfold func_local_names in N. now apply NoDup_app_r in N. Qed.
  Lemma params_nodup : NoDup (map fst (f_params f)).
  Proof. destruct wf_parts as (_ & _ & _ & _ & N & _). unfold func_local_names in N. now apply NoDup_app_l in N. Qed.

  Lemma ref_name_local r : wfr gn f r -> match r with Glob _ => True | _ => In (ref_name f r) (func_local_names f) end.
  Proof.
    intros H. destruct r as [v|n|s|s]; [| |exact I|now apply wfr_not_unres in H].
    - destruct (wfr_loc v H) as (d & Hd & E & F). cbn. rewrite F. unfold func_local_names. apply in_or_app. right. now apply in_map.
    - unfold wfr in H. cbn in H. apply Nat.ltb_lt in H. cbn. destruct (nth_error (f_params f) n) as [p|] eqn:E.
      + unfold func_local_names. apply in_or_app. left. apply in_map. eapply nth_error_In; eassumption.
      + apply nth_error_None in E. lia.
  Qed.

  Lemma wf_ref_inj r r' : wfr gn f r -> wfr gn f r' -> ref_name f r = ref_name f r' -> r = r'.
  Proof.
    intros H H' E. pose proof (ref_name_local r H) as L. pose proof (ref_name_local r' H') as L'.
    destruct wf_parts as (_ & _ & _ & _ & N & D & _).
    destruct r as [v|n|s|s], r' as [v'|n'|s'|s']; try (now apply wfr_not_unres in H); try (now apply wfr_not_unres in H').
    - destruct (wfr_loc v H) as (d & Hd & Ev & Fv). destruct (wfr_loc v' H') as (d' & Hd' & Ev' & Fv').
      cbn in E. rewrite Fv, Fv' in E.
      assert (d = d'); [|congruence].
      pose proof defs_nodup_names as M. clear - E Hd Hd' M.
      revert M Hd Hd' E. generalize (func_defs f). intros l. induction l as [|x l IH]; cbn; [contradiction|].
      intros M [->|A] [->|B] E; try reflexivity; inversion M; subst.
      + exfalso. apply H1. rewrite E. now apply in_map.
      + exfalso. apply H1. rewrite <- E. now apply in_map.
      + now apply IH.
    - exfalso. destruct (wfr_loc v H) as (d & Hd & Ev & Fv). cbn in E, L. rewrite Fv in E, L.
      apply (NoDup_app_disj _ _ (def_name d) N).
      + rewrite E. unfold wfr in H'. cbn in H'. apply Nat.ltb_lt in H'. cbn.
        destruct (nth_error (f_params f) n') as [p|] eqn:En; [|apply nth_error_None in En; lia].
        apply in_map. eapply nth_error_In; eassumption.
      + now apply in_map.
    - exfalso. cbn in E. apply (D (ref_name f (Loc v)) L). cbn. rewrite E. unfold wfr in H'. cbn in H'. now apply mem_str_In.
    - exfalso. destruct (wfr_loc v' H') as (d & Hd & Ev & Fv). cbn in E, L'. rewrite Fv in E, L'.
      apply (NoDup_app_disj _ _ (def_name d) N).
      + rewrite <- E. unfold wfr in H. cbn in H. apply Nat.ltb_lt in H. cbn.
        destruct (nth_error (f_params f) n) as [p|] eqn:En; [|apply nth_error_None in En; lia].
        apply in_map. eapply nth_error_In; eassumption.
      + now apply in_map.
    - f_equal. unfold wfr in H, H'. cbn in H, H'. apply Nat.ltb_lt in H. apply Nat.ltb_lt in H'.
      cbn in E. pose proof params_nodup as P. rewrite NoDup_nth_error in P. apply P; [now rewrite map_length|].
      rewrite !nth_error_map.
      destruct (nth_error (f_params f) n) as [p|] eqn:En; [|apply nth_error_None in En; lia].
      destruct (nth_error (f_params f) n') as [p'|] eqn:En'; [|apply nth_error_None in En'; lia].
      cbn. now rewrite E.
    - exfalso. cbn in E. apply (D (ref_name f (Param n)) L). cbn. rewrite E. unfold wfr in H'. cbn in H'. now apply mem_str_In.
    - exfalso. cbn in E. apply (D (ref_name f (Loc v')) L'). cbn. rewrite <- E. unfold wfr in H. cbn in H. now apply mem_str_In.
    - exfalso. cbn in E. apply (D (ref_name f (Param n')) L'). cbn. rewrite <- E. unfold wfr in H. cbn in H. now apply mem_str_In.
    - cbn in E. now subst.
  Qed.

  Lemma ctx_of fs :
    (forall i s, In i (flat_map func_instrs fs) -> In (Unres s) (instr_uses i) -> mem_str s gn = true) ->
    fun_ctx gn f (vt_of f) fs.
  Proof.
    intros Hfs. destruct wf_parts as (_ & _ & _ & _ & N & D & _). constructor.
    - exact wf_ref_inj.
    - intros v H. destruct (wfr_loc v H) as (d & Hd & Ev & Fv). cbn. rewrite Fv. unfold vt_of.
      apply (plookup_map def_name def_ty); [apply defs_nodup_names | assumption].
    - intros s H. apply plookup_notin. unfold vt_of. rewrite map_map. cbn. intros C.
      apply (D s); [unfold func_local_names; apply in_or_app; now right|]. unfold wfr in H. cbn in H. now apply mem_str_In.
    - intros v H. apply mem_str_false. apply D. exact (ref_name_local (Loc v) H).
    - exact Hfs.
  Qed.
End WfFun.

Lemma shape_prefix (is : list instr) i l : wf_block_shape (is ++ i :: l) = true ->
  forallb (fun x => negb (is_terminator x)) is = true.
Proof.
  induction is as [|x is IH]; [reflexivity|]. cbn [app]. intros H.
  destruct (is ++ i :: l) as [|y r] eqn:E; [destruct is; discriminate|].
  cbn [wf_block_shape] in H. apply andb_prop in H. destruct H as [A B]. cbn [forallb]. rewrite A. cbn. apply IH. exact B.
Qed.
Lemma in_instrs_defs i d l : In i l -> instr_def i = Some d -> In d (instrs_defs l).
Proof. intros H E. unfold instrs_defs. apply in_flat_map. exists i. split; [assumption|]. rewrite E. now left. Qed.

Section WfFun2.
  Variable gn : list string.
  Variable f : func.
  Hypothesis Hwf : wf_func gn f = true.
  Hypothesis Hct : ctor_ok_func f = true.

  Lemma target_ok b : mem_pos b (map b_id (IRSyntax.f_blocks f)) = true ->
    blookup (block_name f b) (bm_of f) = Some b.
  Proof.
    intros H. apply mem_pos_In in H. apply in_map_iff in H. destruct H as (k & E & Hk). subst b.
    destruct (wf_parts gn f Hwf) as (Bi & _ & _ & _ & _ & _ & Bn & _).
    assert (F : find_block f (b_id k) = Some k).
    { unfold find_block. pose proof (seq_pos_NoDup 1 (List.length (IRSyntax.f_blocks f))) as N. rewrite <- Bi in N.
      now apply (find_key b_id). }
    unfold block_name. rewrite F. unfold bm_of. now apply blookup_blocks.
  Qed.

  Lemma instr_facts i : In i (func_instrs f) ->
    Forall (wfr gn f) (instr_uses i) /\ ctor_ok_instr f i = true /\
    (forall b, In b (instr_targets i ++ phi_blocks i) -> blookup (block_name f b) (bm_of f) = Some b) /\
    nodup_pos (phi_blocks i) = true.
  Proof.
    intros Hi. destruct (wf_parts gn f Hwf) as (_ & _ & _ & Wi & _).
    rewrite forallb_forall in Wi. specialize (Wi i Hi). unfold wf_instr in Wi.
    apply andb_prop in Wi. destruct Wi as [Wi W3]. apply andb_prop in Wi. destruct Wi as [W1 W2].
    unfold ctor_ok_func in Hct. rewrite forallb_forall in Hct. repeat split.
    - apply Forall_forall. intros r Hr. rewrite forallb_forall in W1. now apply W1.
    - now apply Hct.
    - intros b Hb. apply target_ok. rewrite in_app_iff in Hb. destruct Hb as [Hb|Hb].
      + rewrite forallb_forall in W2. now apply W2.
      + destruct i; cbn in Hb; try contradiction. apply andb_prop in W3. destruct W3 as [_ W3].
        rewrite forallb_forall in W3. apply in_map_iff in Hb. destruct Hb as (p & <- & Hp). now apply W3.
    - destruct i; try reflexivity. cbn. apply andb_prop in W3. now destruct W3.
  Qed.

  Lemma seq_ok_of bs : incl (map b_name bs) (map b_name (IRSyntax.f_blocks f)) ->
    forall l is next,
    (forall i, In i l -> In i (func_instrs f)) ->
    wf_block_shape (is ++ l) = true ->
    map def_id (instrs_defs l) = seq_pos next (List.length (instrs_defs l)) ->
    seq_ok gn f (bm_of f) bs is next l (pshift next (List.length (instrs_defs l))).
  Proof.
    intros Hbs. induction l as [|i l IH]; intros is next Hin Hsh Hid; [constructor|].
    destruct (instr_facts i (Hin i (or_introl eq_refl))) as (Fu & Fc & Fb & Fn).
    pose proof (shape_prefix is i l Hsh) as Ho.
    assert (Hsh' : wf_block_shape ((is ++ [i]) ++ l) = true) by (now rewrite <- app_assoc).
    assert (Hin' : forall x, In x l -> In x (func_instrs f)) by (intros x Hx; apply Hin; now right).
    destruct (instr_def i) as [[[v n] t]|] eqn:Hd.
    - assert (E : instrs_defs (i :: l) = (v, n, t) :: instrs_defs l) by (unfold instrs_defs; cbn; now rewrite Hd).
      rewrite E in *. cbn [List.length map seq_pos pshift def_id fst] in *. inversion Hid as [[Ev Er]]. subst v.
      assert (Hdf : In (next, n, t) (func_defs f)) by (apply (in_instrs_defs i); [apply Hin; now left | exact Hd]).
      pose proof (find_def_in gn f Hwf _ Hdf) as Fd. cbn [def_id fst] in Fd.
      apply (so_def gn f (bm_of f) bs is next i n t l).
      + exact Hd.
      + unfold wfr. cbn. apply mem_pos_In. change next with (def_id (next, n, t)). now apply in_map.
      + cbn. now rewrite Fd.
      + cbn. now rewrite Fd.
      + apply mem_str_false. intros C. apply Hbs in C.
        destruct (wf_parts gn f Hwf) as (_ & _ & _ & _ & _ & _ & _ & Dn). apply (Dn n); [|assumption].
        change n with (def_name (next, n, t)). now apply in_map.
      + exact Fu.
      + exact Fc.
      + intros b Hb. apply Fb. apply in_or_app. now right.
      + exact Fn.
      + exact Ho.
      + now apply IH.
    - assert (E : instrs_defs (i :: l) = instrs_defs l) by (unfold instrs_defs; cbn; now rewrite Hd).
      rewrite E in *. apply so_nodef; try assumption.
      + intros b Hb. apply Fb. apply in_or_app. now left.
      + now apply IH.
  Qed.
End WfFun2.
