(* Proofs/C22_helpers.v — the integer helpers of ppci/wasm/execution/runtime.py
   (Gen.wasm_runtime, regenerated from the source) compute the WasmNumSpec operators
   on ppci's signed representation.  Unbounded: every operand in the N-bit signed range. *)
From PV Require Import Lib.Py Lib.Tac Spec.BitsSpec Spec.WasmNumSpec Gen.bitfun Gen.wasm_runtime.
From PV Require Import Proofs.C39_bitfun Proofs.C22_base.
From Coq Require Import Znumtheory.
Open Scope Z_scope.

(* ------------------------------------------------------------------ rotates *)
Lemma rotl_arith v c N :
  1 <= N -> 0 <= v < 2 ^ N ->
  rotl v c N = Ok (irotl N v c).
Proof.
  intros HN Hv. unfold rotl, irotl. guards_ok.
  set (k := c mod N). assert (Hk : 0 <= k < N) by (subst k; lia).
  f_equal. rewrite shiftl1_pow, land_ones_mod, shiftl_mul, shiftr_div by lia.
  assert (P1 := pow2_pos N ltac:(lia)). assert (P2 := pow2_pos k ltac:(lia)).
  assert (P3 := pow2_pos (N - k) ltac:(lia)).
  assert (E : 2 ^ N = 2 ^ (N - k) * 2 ^ k) by (rewrite <- Z.pow_add_r by lia; f_equal; lia).
  unfold wrap. rewrite E, Z.mul_mod_distr_r by lia.
  assert (L : Z.lor (v / 2 ^ (N - k)) (Z.shiftl (v mod 2 ^ (N - k)) k)
              = v / 2 ^ (N - k) + v mod 2 ^ (N - k) * 2 ^ k).
  { apply lor_disjoint_add; [lia|].
    split; [apply Z.div_pos; lia|]. apply Z.div_lt_upper_bound; lia. }
  rewrite Z.lor_comm, Z.add_comm, <- L. now rewrite shiftl_mul by lia.
Qed.

Lemma rotr_arith v c N :
  1 <= N -> 0 <= v < 2 ^ N ->
  rotr v c N = Ok (irotr N v c).
Proof.
  intros HN Hv. unfold rotr, irotr. guards_ok.
  set (k := c mod N). assert (Hk : 0 <= k < N) by (subst k; lia).
  f_equal. rewrite shiftl1_pow, land_ones_mod, shiftl_mul, shiftr_div by lia.
  assert (P1 := pow2_pos N ltac:(lia)). assert (P2 := pow2_pos k ltac:(lia)).
  assert (P3 := pow2_pos (N - k) ltac:(lia)).
  assert (E : 2 ^ N = 2 ^ k * 2 ^ (N - k)) by (rewrite <- Z.pow_add_r by lia; f_equal; lia).
  unfold wrap. rewrite E, Z.mul_mod_distr_r by lia.
  assert (L : Z.lor (v / 2 ^ k) (Z.shiftl (v mod 2 ^ k) (N - k))
              = v / 2 ^ k + v mod 2 ^ k * 2 ^ (N - k)).
  { apply lor_disjoint_add; [lia|].
    split; [apply Z.div_pos; lia|]. apply Z.div_lt_upper_bound; lia. }
  rewrite <- L. now rewrite shiftl_mul by lia.
Qed.

(* the arithmetic definition of the spec is the bitwise rotation (sanity of the spec) *)
Lemma irotl_is_rotl N a b : 1 <= N -> 0 <= a < 2 ^ N -> is_rotl N a (b mod N) (irotl N a b).
Proof.
  intros HN Ha. destruct (rotl_correct a b N ltac:(lia) Ha) as (r & E & R).
  rewrite rotl_arith in E by lia. now inversion E; subst.
Qed.
Lemma irotr_is_rotr N a b : 1 <= N -> 0 <= a < 2 ^ N -> is_rotr N a (b mod N) (irotr N a b).
Proof.
  intros HN Ha. destruct (rotr_correct a b N ltac:(lia) Ha) as (r & E & R).
  rewrite rotr_arith in E by lia. now inversion E; subst.
Qed.

Lemma irotl_count N a b : width_ok N -> irotl N a (unsigned N b) = irotl N a b.
Proof. intros W. unfold irotl, unsigned. now rewrite count_mod. Qed.
Lemma irotr_count N a b : width_ok N -> irotr N a (unsigned N b) = irotr N a b.
Proof. intros W. unfold irotr, unsigned. now rewrite count_mod. Qed.

Definition sres (N : Z) (r : Z) : result Z := Ok (signed N r).

Lemma rotl_wrapper N v c : width_ok N ->
  (r1_ <- to_unsigned v N ;; r2_ <- rotl r1_ c N ;; r3_ <- to_signed r2_ N ;; Ok r3_)
  = sres N (irotl N (unsigned N v) (unsigned N c)).
Proof.
  intros W. destruct W as [HN D]. rewrite to_unsigned_correct by lia. cbn [bind].
  change (unsigned_of N v) with (unsigned N v).
  assert (R := unsigned_range N v ltac:(lia)).
  rewrite rotl_arith by lia. cbn [bind]. rewrite to_signed_correct by lia. cbn [bind].
  unfold sres. f_equal. rewrite signed_of_signed by lia. rewrite irotl_count by (split; assumption).
  f_equal. apply Z.mod_small.
  destruct (irotl_is_rotl N (unsigned N v) c HN R) as [B _]. exact B.
Qed.

Lemma rotr_wrapper N v c : width_ok N ->
  (r1_ <- to_unsigned v N ;; r2_ <- rotr r1_ c N ;; r3_ <- to_signed r2_ N ;; Ok r3_)
  = sres N (irotr N (unsigned N v) (unsigned N c)).
Proof.
  intros W. destruct W as [HN D]. rewrite to_unsigned_correct by lia. cbn [bind].
  change (unsigned_of N v) with (unsigned N v).
  assert (R := unsigned_range N v ltac:(lia)).
  rewrite rotr_arith by lia. cbn [bind]. rewrite to_signed_correct by lia. cbn [bind].
  unfold sres. f_equal. rewrite signed_of_signed by lia. rewrite irotr_count by (split; assumption).
  f_equal. apply Z.mod_small.
  destruct (irotr_is_rotr N (unsigned N v) c HN R) as [B _]. exact B.
Qed.

Theorem helper_i32_rotl v c : i32_rotl v c = Ok (signed 32 (irotl 32 (unsigned 32 v) (unsigned 32 c))).
Proof. apply (rotl_wrapper 32), width_ok_32. Qed.
Theorem helper_i64_rotl v c : i64_rotl v c = Ok (signed 64 (irotl 64 (unsigned 64 v) (unsigned 64 c))).
Proof. apply (rotl_wrapper 64), width_ok_64. Qed.
Theorem helper_i32_rotr v c : i32_rotr v c = Ok (signed 32 (irotr 32 (unsigned 32 v) (unsigned 32 c))).
Proof. apply (rotr_wrapper 32), width_ok_32. Qed.
Theorem helper_i64_rotr v c : i64_rotr v c = Ok (signed 64 (irotr 64 (unsigned 64 v) (unsigned 64 c))).
Proof. apply (rotr_wrapper 64), width_ok_64. Qed.

(* ------------------------------------------------------------------ sign extension inside a width *)
Lemma extend_wrapper M N x : 1 <= M <= N -> in_s N x ->
  (r1_ <- sign_extend x M ;; Ok r1_) = sres N (iextend_s M N (unsigned N x)).
Proof.
  intros H Hx. rewrite sign_extend_correct by lia. cbn [bind]. unfold sres, iextend_s. f_equal.
  unfold wrap, unsigned at 2. rewrite mod_mod_pow by lia.
  rewrite <- signed_of_signed by lia.
  rewrite signed_unsigned; [reflexivity|lia|].
  apply (in_s_mono M N); [lia|]. apply signed_of_in_s. lia.
Qed.

Theorem helper_i32_extend8_s x : in_s 32 x ->
  i32_extend8_s x = Ok (signed 32 (iextend_s 8 32 (unsigned 32 x))).
Proof. apply (extend_wrapper 8 32). lia. Qed.
Theorem helper_i32_extend16_s x : in_s 32 x ->
  i32_extend16_s x = Ok (signed 32 (iextend_s 16 32 (unsigned 32 x))).
Proof. apply (extend_wrapper 16 32). lia. Qed.
Theorem helper_i64_extend8_s x : in_s 64 x ->
  i64_extend8_s x = Ok (signed 64 (iextend_s 8 64 (unsigned 64 x))).
Proof. apply (extend_wrapper 8 64). lia. Qed.
Theorem helper_i64_extend16_s x : in_s 64 x ->
  i64_extend16_s x = Ok (signed 64 (iextend_s 16 64 (unsigned 64 x))).
Proof. apply (extend_wrapper 16 64). lia. Qed.
Theorem helper_i64_extend32_s x : in_s 64 x ->
  i64_extend32_s x = Ok (signed 64 (iextend_s 32 64 (unsigned 64 x))).
Proof. apply (extend_wrapper 32 64). lia. Qed.

(* ------------------------------------------------------------------ ctz *)
Fixpoint tz (n : nat) (v : Z) : Z :=
  match n with O => 0 | S k => if v mod 2 =? 0 then 1 + tz k (v / 2) else 0 end.

Lemma tz_range n : forall v, 0 <= tz n v <= Z.of_nat n.
Proof. induction n; intros v; cbn [tz]; [lia|]. destruct (v mod 2 =? 0); specialize (IHn (v / 2)); lia. Qed.

Lemma ctz_loop_spec fuel : forall bits count v,
  0 <= bits - count -> (Z.to_nat (bits - count) < fuel)%nat ->
  exists v', ctz_loop1 fuel bits count v = Ok (count + tz (Z.to_nat (bits - count)) v, v').
Proof.
  induction fuel; intros bits count v H F; [lia|]. cbn [ctz_loop1].
  destruct (Z.ltb_spec count bits) as [L|L]; cbn [andb].
  - replace (Z.to_nat (bits - count)) with (S (Z.to_nat (bits - (count + 1)))) by lia. cbn [tz].
    destruct (v mod 2 =? 0).
    + destruct (IHfuel bits (count + 1) (v / 2)) as (v' & E); [lia|lia|].
      exists v'. rewrite E. do 2 f_equal. lia.
    + exists v. do 2 f_equal. lia.
  - replace (bits - count) with 0 by lia. exists v. cbn [Z.to_nat tz]. do 2 f_equal. lia.
Qed.

Lemma mod_pow2_succ v k : 0 <= k -> v mod 2 ^ (k + 1) = 2 * ((v / 2) mod 2 ^ k) + v mod 2.
Proof.
  intros. rewrite Z.pow_add_r by lia. rewrite Z.mul_comm. change (2 ^ 1) with 2.
  rewrite Z.rem_mul_r by (try lia; apply Z.pow_nonzero; lia). lia.
Qed.

Lemma tz_ictz n : forall v, tz n v = ictz (Z.of_nat n) (v mod 2 ^ Z.of_nat n).
Proof.
  induction n; intros v.
  - cbn [tz]. change (2 ^ Z.of_nat 0) with 1. now rewrite Z.mod_1_r.
  - cbn [tz]. replace (Z.of_nat (S n)) with (Z.of_nat n + 1) by lia.
    rewrite mod_pow2_succ by lia. rewrite (IHn (v / 2)).
    assert (P := pow2_pos (Z.of_nat n) ltac:(lia)).
    pose proof (Z.mod_pos_bound (v / 2) (2 ^ Z.of_nat n) P) as B.
    pose proof (Z.mod_pos_bound v 2 ltac:(lia)) as B2.
    destruct (Z.eqb_spec (v mod 2) 0) as [E|E].
    + rewrite E, Z.add_0_r.
      destruct ((v / 2) mod 2 ^ Z.of_nat n) as [|p|p];
        [change (2 * 0) with 0|change (2 * Z.pos p) with (Z.pos p~0)|lia];
        cbn [ictz pos_ctz ipopcnt pos_popcnt]; lia.
    + replace (v mod 2) with 1 by lia.
      destruct ((v / 2) mod 2 ^ Z.of_nat n) as [|p|p];
        [change (2 * 0 + 1) with 1|change (2 * Z.pos p + 1) with (Z.pos p~1)|lia];
        cbn [ictz pos_ctz ipopcnt pos_popcnt]; lia.
Qed.

Lemma ctz_wrapper N fuel v : 0 <= N -> (Z.to_nat N < fuel)%nat ->
  (r1_ <- ctz fuel v N ;; Ok r1_) = Ok (ictz N (unsigned N v)) /\ 0 <= ictz N (unsigned N v) <= N.
Proof.
  intros HN F. unfold ctz.
  destruct (ctz_loop_spec fuel N 0 v) as (v' & E); [lia|rewrite Z.sub_0_r; lia|].
  assert (T : tz (Z.to_nat N) v = ictz N (unsigned N v)).
  { rewrite tz_ictz. rewrite Z2Nat.id by lia. reflexivity. }
  rewrite E. cbn [bind]. rewrite Z.sub_0_r, Z.add_0_l, T. split; [reflexivity|].
  rewrite <- T. pose proof (tz_range (Z.to_nat N) v). lia.
Qed.

(* ------------------------------------------------------------------ clz *)
Fixpoint lz (n : nat) (v mask : Z) : Z :=
  match n with O => 0 | S k => if Z.land v mask =? 0 then 1 + lz k (v * 2) mask else 0 end.

Lemma lz_range n mask : forall v, 0 <= lz n v mask <= Z.of_nat n.
Proof. induction n; intros v; cbn [lz]; [lia|]. destruct (Z.land v mask =? 0); specialize (IHn (v * 2)); lia. Qed.

Lemma clz_loop_spec fuel : forall bits mask count v,
  0 <= bits - count -> (Z.to_nat (bits - count) < fuel)%nat ->
  exists v', clz_loop1 fuel bits mask count v = Ok (count + lz (Z.to_nat (bits - count)) v mask, v').
Proof.
  induction fuel; intros bits mask count v H F; [lia|]. cbn [clz_loop1].
  destruct (Z.ltb_spec count bits) as [L|L]; cbn [andb].
  - replace (Z.to_nat (bits - count)) with (S (Z.to_nat (bits - (count + 1)))) by lia. cbn [lz].
    destruct (Z.land v mask =? 0).
    + destruct (IHfuel bits mask (count + 1) (v * 2)) as (v' & E); [lia|lia|].
      exists v'. rewrite E. do 2 f_equal. lia.
    + exists v. do 2 f_equal. lia.
  - replace (bits - count) with 0 by lia. exists v. cbn [Z.to_nat lz]. do 2 f_equal. lia.
Qed.

Lemma land_pow2_eqb x j : 0 <= j -> (Z.land x (2 ^ j) =? 0) = negb (Z.testbit x j).
Proof.
  intros Hj.
  assert (E : Z.land x (2 ^ j) = if Z.testbit x j then 2 ^ j else 0).
  { apply Z.bits_inj'. intros i Hi. rewrite Z.land_spec, Z.pow2_bits_eqb by lia.
    destruct (Z.eqb_spec j i) as [->|Hne].
    - rewrite andb_true_r. destruct (Z.testbit x i) eqn:T; [rewrite Z.pow2_bits_true; auto|now rewrite Z.bits_0].
    - rewrite andb_false_r. destruct (Z.testbit x j); [rewrite Z.pow2_bits_false; auto|now rewrite Z.bits_0]. }
  rewrite E. assert (P := pow2_pos j Hj). destruct (Z.testbit x j); cbn [negb]; lia.
Qed.

Lemma pos_size_log2 p : pos_size p = Z.log2 (Zpos p) + 1.
Proof.
  assert (S : forall q, pos_size q = Zpos (Pos.size q)).
  { induction q; cbn [pos_size Pos.size]; try rewrite IHq; lia. }
  destruct p; cbn [pos_size Z.log2]; rewrite ?S; lia.
Qed.

Lemma iclz_step k m' : 0 <= m' -> iclz (k + 1) m' = 1 + iclz k m'.
Proof. intros. destruct m'; cbn [iclz]; lia. Qed.

Lemma iclz_top k m : 0 <= k -> 2 ^ k <= m < 2 ^ (k + 1) -> iclz (k + 1) m = 0.
Proof.
  intros Hk Hm. assert (P := pow2_pos k Hk). destruct m as [|p|p]; try lia.
  cbn [iclz]. rewrite pos_size_log2. rewrite (Z.log2_unique (Zpos p) k); lia.
Qed.

Lemma mod_pow2_top v k : 0 <= k ->
  v mod 2 ^ (k + 1) = v mod 2 ^ k + 2 ^ k * (if Z.testbit v k then 1 else 0).
Proof.
  intros. rewrite Z.pow_add_r by lia. change (2 ^ 1) with 2.
  rewrite Z.rem_mul_r by (try lia; apply Z.pow_nonzero; lia).
  rewrite <- Z.testbit_spec' by lia. destruct (Z.testbit v k); reflexivity.
Qed.

Lemma lz_iclz N n : forall v, 1 <= N -> Z.of_nat n <= N ->
  lz n (v * 2 ^ (N - Z.of_nat n)) (2 ^ (N - 1)) = iclz (Z.of_nat n) (v mod 2 ^ Z.of_nat n).
Proof.
  induction n; intros v HN Hn.
  - cbn [lz]. change (2 ^ Z.of_nat 0) with 1. now rewrite Z.mod_1_r.
  - cbn [lz]. replace (Z.of_nat (S n)) with (Z.of_nat n + 1) in * by lia.
    set (k := Z.of_nat n) in *. assert (Hk : 0 <= k) by (subst k; lia).
    rewrite land_pow2_eqb by lia. rewrite Z.mul_pow2_bits by lia.
    replace (N - 1 - (N - (k + 1))) with k by lia.
    rewrite mod_pow2_top by lia.
    assert (P := pow2_pos k Hk). pose proof (Z.mod_pos_bound v (2 ^ k) P) as B.
    destruct (Z.testbit v k); cbn [negb].
    + rewrite iclz_top; [reflexivity|lia|]. rewrite Z.pow_add_r by lia. lia.
    + rewrite Z.mul_0_r, Z.add_0_r. rewrite iclz_step by lia. f_equal.
      rewrite <- IHn by lia. f_equal. rewrite <- Z.mul_assoc. f_equal.
      replace (N - k) with ((N - (k + 1)) + 1) by lia. rewrite Z.pow_add_r by lia. reflexivity.
Qed.

Lemma clz_wrapper N fuel v : 1 <= N -> (Z.to_nat N < fuel)%nat ->
  (r1_ <- clz fuel v N ;; Ok r1_) = Ok (iclz N (unsigned N v)) /\ 0 <= iclz N (unsigned N v) <= N.
Proof.
  intros HN F. unfold clz. guard_ok. rewrite shiftl1_pow by lia.
  destruct (clz_loop_spec fuel N (2 ^ (N - 1)) 0 v) as (v' & E); [lia|rewrite Z.sub_0_r; lia|].
  rewrite E. cbn [bind]. rewrite Z.sub_0_r, Z.add_0_l.
  assert (L := lz_iclz N (Z.to_nat N) v HN ltac:(lia)). rewrite Z2Nat.id in L by lia.
  rewrite Z.sub_diag, Z.mul_1_r in L. rewrite L. split; [reflexivity|].
  unfold unsigned. rewrite <- L. pose proof (lz_range (Z.to_nat N) (2 ^ (N - 1)) v). lia.
Qed.

(* ------------------------------------------------------------------ popcnt *)
Lemma popcount_nat_low k : forall v,
  popcount_nat v (S k) = b2z (Z.testbit v 0) + popcount_nat (v / 2) k.
Proof.
  induction k; intros v.
  - cbn [popcount_nat Z.of_nat]. lia.
  - change (popcount_nat v (S (S k))) with (popcount_nat v (S k) + b2z (Z.testbit v (Z.of_nat (S k)))).
    rewrite IHk. cbn [popcount_nat].
    change (v / 2) with (v / 2 ^ 1). rewrite Z.div_pow2_bits by lia.
    replace (Z.of_nat k + 1) with (Z.of_nat (S k)) by lia. lia.
Qed.

Lemma popcount_nat_range n : forall v, 0 <= popcount_nat v n <= Z.of_nat n.
Proof.
  induction n; intros v; cbn [popcount_nat]; [lia|]. specialize (IHn v).
  destruct (Z.testbit v (Z.of_nat n)); cbn [b2z]; lia.
Qed.

Lemma popcount_ipopcnt n : forall v, popcount_nat v n = ipopcnt (Z.of_nat n) (v mod 2 ^ Z.of_nat n).
Proof.
  induction n; intros v.
  - cbn [popcount_nat]. change (2 ^ Z.of_nat 0) with 1. now rewrite Z.mod_1_r.
  - rewrite popcount_nat_low. replace (Z.of_nat (S n)) with (Z.of_nat n + 1) by lia.
    rewrite mod_pow2_succ by lia. rewrite (IHn (v / 2)).
    assert (P := pow2_pos (Z.of_nat n) ltac:(lia)).
    pose proof (Z.mod_pos_bound (v / 2) (2 ^ Z.of_nat n) P) as B.
    pose proof (Z.mod_pos_bound v 2 ltac:(lia)) as B2.
    change (b2z (Z.testbit v 0)) with (Z.b2z (Z.testbit v 0)). rewrite Z.bit0_mod.
    destruct (Z.eqb_spec (v mod 2) 0) as [E|E].
    + rewrite E, Z.add_0_r.
      destruct ((v / 2) mod 2 ^ Z.of_nat n) as [|p|p];
        [change (2 * 0) with 0|change (2 * Z.pos p) with (Z.pos p~0)|lia];
        cbn [ictz pos_ctz ipopcnt pos_popcnt]; lia.
    + replace (v mod 2) with 1 by lia.
      destruct ((v / 2) mod 2 ^ Z.of_nat n) as [|p|p];
        [change (2 * 0 + 1) with 1|change (2 * Z.pos p + 1) with (Z.pos p~1)|lia];
        cbn [ictz pos_ctz ipopcnt pos_popcnt]; lia.
Qed.

Lemma popcnt_wrapper N v : 0 <= N ->
  (r1_ <- popcnt v N ;; Ok r1_) = Ok (ipopcnt N (unsigned N v)) /\ 0 <= ipopcnt N (unsigned N v) <= N.
Proof.
  intros HN. rewrite popcnt_correct by lia. cbn [bind]. unfold popcount.
  rewrite popcount_ipopcnt. rewrite Z2Nat.id by lia. split; [reflexivity|].
  unfold unsigned. pose proof (popcount_nat_range (Z.to_nat N) v) as R.
  rewrite popcount_ipopcnt in R. rewrite Z2Nat.id in R by lia. exact R.
Qed.

(* small results are their own signed interpretation *)
Lemma signed_small32 r : 0 <= r <= 64 -> signed 32 r = r.
Proof. intros. unfold signed. change (2 ^ (32 - 1)) with 2147483648. destruct (Z.ltb_spec r 2147483648); lia. Qed.
Lemma signed_small64 r : 0 <= r <= 64 -> signed 64 r = r.
Proof. intros. unfold signed. change (2 ^ (64 - 1)) with 9223372036854775808. destruct (Z.ltb_spec r 9223372036854775808); lia. Qed.

Theorem helper_i32_clz fuel v : (64 < fuel)%nat -> i32_clz fuel v = Ok (signed 32 (iclz 32 (unsigned 32 v))).
Proof. intros F. destruct (clz_wrapper 32 fuel v) as [E R]; [lia|lia|]. unfold i32_clz. rewrite E, signed_small32; [reflexivity|lia]. Qed.
Theorem helper_i64_clz fuel v : (64 < fuel)%nat -> i64_clz fuel v = Ok (signed 64 (iclz 64 (unsigned 64 v))).
Proof. intros F. destruct (clz_wrapper 64 fuel v) as [E R]; [lia|lia|]. unfold i64_clz. rewrite E, signed_small64; [reflexivity|lia]. Qed.
Theorem helper_i32_ctz fuel v : (64 < fuel)%nat -> i32_ctz fuel v = Ok (signed 32 (ictz 32 (unsigned 32 v))).
Proof. intros F. destruct (ctz_wrapper 32 fuel v) as [E R]; [lia|lia|]. unfold i32_ctz. rewrite E, signed_small32; [reflexivity|lia]. Qed.
Theorem helper_i64_ctz fuel v : (64 < fuel)%nat -> i64_ctz fuel v = Ok (signed 64 (ictz 64 (unsigned 64 v))).
Proof. intros F. destruct (ctz_wrapper 64 fuel v) as [E R]; [lia|lia|]. unfold i64_ctz. rewrite E, signed_small64; [reflexivity|lia]. Qed.
Theorem helper_i32_popcnt v : i32_popcnt v = Ok (signed 32 (ipopcnt 32 (unsigned 32 v))).
Proof. destruct (popcnt_wrapper 32 v) as [E R]; [lia|]. unfold i32_popcnt. rewrite E, signed_small32; [reflexivity|lia]. Qed.
Theorem helper_i64_popcnt v : i64_popcnt v = Ok (signed 64 (ipopcnt 64 (unsigned 64 v))).
Proof. destruct (popcnt_wrapper 64 v) as [E R]; [lia|]. unfold i64_popcnt. rewrite E, signed_small64; [reflexivity|lia]. Qed.
