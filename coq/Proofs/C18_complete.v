(* Proofs/C18_complete.v — completeness of HexFile.check / add_region: pairwise non-overlapping,
   non-empty regions are accepted in any insertion order; an overlap is rejected. *)
From PV Require Import Lib.Py Lib.Tac Spec.IhexSpec Model.Hexfile Proofs.C18_hexfile Proofs.C18_loadsave.
From Coq Require Import Permutation.
Open Scope Z_scope.

(* ---------------- a chain (each region ends at or before the next one starts) is accepted *)
Fixpoint chain (l : list region) : Prop :=
  match l with
  | [] => True
  | r :: tl => match tl with [] => True | r2 :: _ => r_end r <= fst r2 end /\ chain tl
  end.

Lemma scan_head r tl l' : scan (r :: tl) = Ok (Some l') -> exists y t, l' = y :: t /\ fst y = fst r.
Proof.
  cbn [scan]. destruct tl as [|r2 rest]; [discriminate|].
  destruct (r_end r =? fst r2); [intros H; injection H as <-; eauto|].
  destruct (r_end r >? fst r2); [discriminate|].
  destruct (scan (r2 :: rest)) as [[l2|]| | |]; cbn [bind option_map]; try discriminate.
  intros H; injection H as <-; eauto.
Qed.

Lemma scan_chain l : chain l -> exists x, scan l = Ok x.
Proof.
  induction l as [|r tl IH]; intros H; [cbn; eauto|]. destruct H as [H1 H2].
  cbn [scan]. destruct tl as [|r2 rest]; [eauto|].
  destruct (r_end r =? fst r2) eqn:E; [eauto|].
  replace (r_end r >? fst r2) with false by lia.
  destruct (IH H2) as (x & Hx). rewrite Hx. cbn [bind]. eauto.
Qed.

Lemma scan_some_chain l : forall l', chain l -> scan l = Ok (Some l') -> chain l'.
Proof.
  induction l as [|r tl IH]; intros l' H Hs; [discriminate|]. destruct H as [H1 H2].
  cbn [scan] in Hs. destruct tl as [|r2 rest]; [discriminate|].
  destruct (r_end r =? fst r2) eqn:E.
  - injection Hs as <-. destruct H2 as [H3 H4]. split; [|exact H4].
    destruct rest as [|r3 t]; [exact I|]. unfold r_end in *. cbn [fst snd]. rewrite len_app. lia.
  - destruct (r_end r >? fst r2); [discriminate|].
    destruct (scan (r2 :: rest)) as [[l2|]| | |] eqn:E2; cbn [bind option_map] in Hs; try discriminate.
    injection Hs as <-. destruct (scan_head _ _ _ E2) as (y & t & -> & Hy).
    split; [lia | now apply IH].
Qed.

Lemma check_loop_succeeds fuel : forall l, (List.length l < fuel)%nat -> chain l ->
  exists l', check_loop fuel l = Ok l'.
Proof.
  induction fuel as [|f IH]; intros l Hl Hc; [lia|].
  cbn [check_loop]. destruct (len l <=? 1); [eauto|].
  destruct (scan_chain l Hc) as ([l2|] & Hx); rewrite Hx; cbn [bind]; [|eauto].
  destruct (scan_some l l2 Hx) as (_ & H2 & _). apply IH; [lia | eapply scan_some_chain; eauto].
Qed.

(* ---------------- sorting *)
Lemma insert_sorted r l : sortedle l -> sortedle (insert_region r l).
Proof.
  induction l as [|x t IH]; intros H; [cbn; auto|].
  destruct H as [H1 H2]. cbn [insert_region]. destruct (fst r <=? fst x) eqn:E.
  - cbn [sortedle]. repeat split; auto; lia.
  - specialize (IH H2). destruct t as [|y t'].
    + cbn. repeat split; auto; lia.
    + cbn [insert_region] in *. destruct (fst r <=? fst y) eqn:E2; cbn [sortedle] in *; repeat split; try tauto; lia.
Qed.

Lemma sort_sortedle l : sortedle (sort_regions l).
Proof. induction l as [|x t IH]; [exact I|]. cbn [sort_regions]. now apply insert_sorted. Qed.

(* ---------------- pairwise non-overlapping sets *)
Definition no_overlap (r1 r2 : region) : Prop := r_end r1 <= fst r2 \/ r_end r2 <= fst r1.

Definition disjoint_set (rs : list region) : Prop :=
  nonempty rs /\ NoDup rs /\ forall r1 r2, In r1 rs -> In r2 rs -> r1 <> r2 -> no_overlap r1 r2.

Lemma disjoint_perm l l' : Permutation l l' -> disjoint_set l -> disjoint_set l'.
Proof.
  intros P (H1 & H2 & H3). split; [eapply nonempty_perm; eauto|]. split; [eapply Permutation_NoDup; eauto|].
  intros r1 r2 I1 I2. apply H3; eapply Permutation_in; try eassumption; now symmetry.
Qed.

Lemma disjoint_tail r l : disjoint_set (r :: l) -> disjoint_set l.
Proof.
  intros (H1 & H2 & H3). inversion H1; inversion H2; subst. repeat split; auto.
  intros r1 r2 I1 I2. apply H3; now right.
Qed.

Lemma sorted_disjoint_chain l : sortedle l -> disjoint_set l -> chain l.
Proof.
  induction l as [|r tl IH]; intros Hs Hd; [exact I|]. destruct Hs as [Hs1 Hs2].
  split; [|apply IH; [assumption | eapply disjoint_tail; eauto]].
  destruct tl as [|r2 t]; [exact I|].
  destruct Hd as (Hn & Hnd & Hp).
  assert (Hne : r <> r2) by (inversion Hnd as [|? ? Hni _]; subst; intros ->; apply Hni; now left).
  destruct (Hp r r2 (or_introl eq_refl) (or_intror (or_introl eq_refl)) Hne) as [H|H]; [exact H|].
  inversion Hn as [|? ? _ Hn2]; inversion Hn2 as [|? ? Hr2 _]; subst. unfold r_end in *. lia.
Qed.

Lemma check_succeeds rs : disjoint_set rs -> exists rs', check rs = Ok rs'.
Proof.
  intros H. unfold check. apply check_loop_succeeds.
  - rewrite <- (Permutation_length (sort_perm rs)). lia.
  - apply sorted_disjoint_chain; [apply sort_sortedle | eapply disjoint_perm; [apply sort_perm | exact H]].
Qed.

(* ---------------- an overlap is rejected *)
Fixpoint bad (l : list region) : Prop :=
  match l with
  | r :: tl => match tl with r2 :: _ => r_end r > fst r2 \/ bad tl | [] => False end
  | [] => False
  end.

Lemma scan_some_bad l : forall l', bad l -> scan l = Ok (Some l') -> bad l'.
Proof.
  induction l as [|r tl IH]; intros l' Hb Hs; [discriminate|].
  cbn [scan] in Hs. destruct tl as [|r2 rest]; [discriminate|].
  destruct (r_end r =? fst r2) eqn:E.
  - injection Hs as <-. cbn [bad] in Hb. destruct Hb as [Hb|Hb]; [lia|].
    destruct rest as [|r3 t]; [destruct Hb|]. cbn [bad] in *.
    destruct Hb as [Hb|Hb]; [left|right; exact Hb].
    unfold r_end in *. cbn [fst snd]. rewrite len_app. lia.
  - destruct (r_end r >? fst r2) eqn:E2; [discriminate|].
    destruct (scan (r2 :: rest)) as [[l2|]| | |] eqn:E3; cbn [bind option_map] in Hs; try discriminate.
    injection Hs as <-. destruct (scan_head _ _ _ E3) as (y & t & -> & Hy).
    cbn [bad] in Hb. destruct Hb as [Hb|Hb]; [lia|].
    change (r_end r > fst y \/ bad (y :: t)). right. now apply IH.
Qed.

Lemma separated_not_bad l : separated l -> ~ bad l.
Proof.
  induction l as [|r tl IH]; intros Hs Hb; [exact Hb|]. destruct Hs as [H1 H2].
  destruct tl as [|r2 t]; [exact Hb|]. cbn [bad] in Hb. destruct Hb as [Hb|Hb]; [lia | now apply IH].
Qed.

Lemma check_loop_bad fuel : forall l l', bad l -> check_loop fuel l <> Ok l'.
Proof.
  induction fuel as [|f IH]; intros l l' Hb; [discriminate|].
  cbn [check_loop]. destruct (len l <=? 1) eqn:E.
  - destruct l as [|r [|r2 t]]; try (exfalso; exact Hb).
    rewrite !len_cons in E. pose proof (len_nonneg t). lia.
  - destruct (scan l) as [[l2|]| | |] eqn:E2; cbn [bind]; try discriminate.
    + apply IH. eapply scan_some_bad; eauto.
    + exfalso. eapply separated_not_bad; [apply scan_none; exact E2 | exact Hb].
Qed.

Lemma scan_codes l : (forall c, scan l = Diag c -> c = 1) /\ (forall e, scan l <> Internal e).
Proof.
  induction l as [|r tl IH]; [split; intros; discriminate|].
  cbn [scan]. destruct tl as [|r2 rest]; [split; intros; discriminate|].
  destruct (r_end r =? fst r2); [split; intros; discriminate|].
  destruct (r_end r >? fst r2); [split; [intros c H; now injection H | intros; discriminate]|].
  destruct IH as [I1 I2].
  destruct (scan (r2 :: rest)) as [x|c| e|] eqn:E; cbn [bind]; split; intros; try discriminate.
  - apply I1. congruence.
  - exfalso. now apply (I2 e).
Qed.

Lemma check_loop_codes fuel : forall l,
  (forall c, check_loop fuel l = Diag c -> c = 1) /\ (forall e, check_loop fuel l <> Internal e).
Proof.
  induction fuel as [|f IH]; intros l; [split; intros; discriminate|].
  cbn [check_loop]. destruct (len l <=? 1); [split; intros; discriminate|].
  destruct (scan_codes l) as [S1 S2].
  destruct (scan l) as [[l2|]|c|e|] eqn:E; cbn [bind]; try (split; intros; discriminate).
  - apply IH.
  - split; [intros c' H; apply S1; congruence | intros; discriminate].
  - exfalso. now apply (S2 e).
Qed.

Lemma bad_or_chain l : bad l \/ chain l.
Proof.
  induction l as [|r tl IH]; [now right|]. destruct tl as [|r2 t]; [right; cbn; auto|].
  destruct (Z_le_gt_dec (r_end r) (fst r2)).
  - destruct IH as [IH|IH]; [left; cbn [bad]; now right | right; split; assumption].
  - left. cbn [bad]. now left.
Qed.

Lemma chain_all r tl : nonempty (r :: tl) -> chain (r :: tl) -> Forall (fun r2 => r_end r <= fst r2) tl.
Proof.
  revert r. induction tl as [|r2 t IH]; intros r Hn Hc; [constructor|].
  destruct Hc as [H1 H2]. unfold nonempty in Hn.
  pose proof (Forall_inv_tail Hn) as Hn2. pose proof (Forall_inv Hn2) as Hr2. cbn beta in Hr2.
  constructor; [exact H1|].
  specialize (IH r2 Hn2 H2). rewrite Forall_forall in *. intros x Hx. specialize (IH x Hx).
  unfold r_end in *. lia.
Qed.

Lemma chain_disjoint l : nonempty l -> chain l -> disjoint_set l.
Proof.
  induction l as [|r tl IH]; intros Hn Hc.
  - repeat split; [constructor | constructor | intros ? ? []].
  - pose proof (chain_all r tl Hn Hc) as Hall. rewrite Forall_forall in Hall.
    pose proof (Forall_inv_tail Hn) as Hn2. pose proof (Forall_inv Hn) as Hr. cbn beta in Hr.
    destruct Hc as [_ Hc2].
    destruct (IH Hn2 Hc2) as (_ & Hnd & Hp).
    split; [exact Hn|]. split.
    + constructor; [|exact Hnd]. intros Hin. specialize (Hall r Hin). unfold r_end in Hall. lia.
    + intros r1 r2 [<-|I1] [<-|I2] Hne.
      * congruence.
      * left. now apply Hall.
      * right. now apply Hall.
      * now apply Hp.
Qed.

(* rs contains two (occurrences of) regions that overlap: check raises HexFileException *)
Lemma check_rejects rs r1 r2 rest : nonempty rs -> Permutation (r1 :: r2 :: rest) rs ->
  ~ no_overlap r1 r2 -> check rs = Diag 1.
Proof.
  intros Hn Hp Hov. unfold check.
  assert (Hb : bad (sort_regions rs)).
  { destruct (bad_or_chain (sort_regions rs)) as [H|H]; [exact H|]. exfalso.
    assert (Hd : disjoint_set (sort_regions rs))
      by (apply chain_disjoint; [eapply nonempty_perm; [apply sort_perm | exact Hn] | exact H]).
    assert (Hd' : disjoint_set (r1 :: r2 :: rest)).
    { eapply disjoint_perm; [|exact Hd]. symmetry. eapply perm_trans; [exact Hp | apply sort_perm]. }
    destruct Hd' as (_ & Hnd & Hpw). apply Hov. apply Hpw; [now left | right; now left|].
    inversion Hnd as [|? ? Hni _]; subst. intros ->. apply Hni. now left. }
  assert (Hnok : forall x, check_loop (S (List.length rs)) (sort_regions rs) <> Ok x) by (intros x; now apply check_loop_bad).
  destruct (check_loop_codes (S (List.length rs)) (sort_regions rs)) as [C1 C2].
  pose proof (check_terminates rs) as Hf. unfold check in Hf.
  destruct (check_loop (S (List.length rs)) (sort_regions rs)) as [x|c|e|] eqn:E.
  - exfalso. now apply (Hnok x).
  - f_equal. now apply C1.
  - exfalso. now apply (C2 e).
  - exfalso. now apply Hf.
Qed.

(* ---------------- add_region sequences *)
Fixpoint add_all (seq : list region) (hf : HexFile) : result HexFile :=
  match seq with
  | [] => Ok hf
  | r :: t => hf' <- add_region hf (fst r) (snd r) ;; add_all t hf'
  end.

Lemma canonical_nonempty l : canonical l -> nonempty l.
Proof.
  induction l as [|r tl IH]; intros H; [constructor|]. destruct H as (H1 & _ & H3).
  constructor; [exact H1 | now apply IH].
Qed.

Lemma canonical_chain l : canonical l -> chain l.
Proof.
  induction l as [|r tl IH]; intros H; [exact I|]. destruct H as (_ & H2 & H3).
  split; [|now apply IH]. destruct tl as [|r2 t]; [exact I|]. unfold r_end. lia.
Qed.

Lemma block_lookup_range r z x : block_lookup r z = Some x -> fst r <= z < r_end r.
Proof.
  unfold block_lookup, r_end. destruct ((fst r <=? z) && (z <? fst r + len (snd r))) eqn:E; [lia|discriminate].
Qed.

Lemma block_lookup_some r z : fst r <= z < r_end r -> exists x, block_lookup r z = Some x.
Proof.
  intros H. unfold block_lookup, r_end in *.
  replace ((fst r <=? z) && (z <? fst r + len (snd r))) with true by lia.
  destruct (nth_error (snd r) (Z.to_nat (z - fst r))) eqn:E; [eauto|].
  apply nth_error_None in E. unfold len in H. lia.
Qed.

Lemma holds_app l1 l2 a x : holds (l1 ++ l2) a x <-> holds l1 a x \/ holds l2 a x.
Proof.
  unfold holds. split.
  - intros (b & Hin & Hb). apply in_app_or in Hin. destruct Hin; [left|right]; eauto.
  - intros [(b & Hin & Hb)|(b & Hin & Hb)]; exists b; split; auto; apply in_or_app; auto.
Qed.

Lemma NoDup_app_snoc {A} (l : list A) x : NoDup l -> ~ In x l -> NoDup (l ++ [x]).
Proof.
  intros H1 H2. eapply Permutation_NoDup; [apply Permutation_cons_append|]. now constructor.
Qed.

Lemma add_all_gen seq : forall hf pre, canonical (regions hf) ->
  (forall a x, holds (regions hf) a x <-> holds pre a x) -> disjoint_set (pre ++ seq) ->
  exists hf', add_all seq hf = Ok hf' /\ canonical (regions hf') /\
              (forall a x, holds (regions hf') a x <-> holds (pre ++ seq) a x) /\
              start_address hf' = start_address hf.
Proof.
  induction seq as [|r t IH]; intros hf pre Hc Hh Hd.
  - exists hf. rewrite app_nil_r. cbn [add_all]. auto.
  - destruct Hd as (Hn & Hnd & Hp). destruct r as [a d].
    assert (Hd0 : 0 < len d).
    { unfold nonempty in Hn. rewrite Forall_forall in Hn. apply (Hn (a, d)). apply in_or_app. right. now left. }
    assert (Hsep : forall m, In m (regions hf) -> no_overlap m (a, d)).
    { intros m Hm. unfold no_overlap. cbn [fst]. unfold r_end at 2. cbn [fst snd].
      destruct (Z_le_gt_dec (r_end m) a) as [|G1]; [now left|].
      destruct (Z_le_gt_dec (a + len d) (fst m)) as [|G2]; [now right|]. exfalso.
      pose proof (canonical_nonempty _ Hc) as Hne. unfold nonempty in Hne. rewrite Forall_forall in Hne.
      specialize (Hne m Hm). cbn beta in Hne.
      set (z := Z.max (fst m) a).
      destruct (block_lookup_some m z) as (x & Hx); [unfold r_end in *; lia|].
      assert (Hz : holds pre z x) by (apply Hh; exists m; auto).
      destruct Hz as (r' & Hr' & Hx'). apply block_lookup_range in Hx'.
      assert (Hne' : r' <> (a, d)).
      { intros ->. apply (NoDup_remove_2 _ _ _ Hnd). apply in_or_app. now left. }
      destruct (Hp r' (a, d)) as [H|H]; [apply in_or_app; now left | apply in_or_app; right; now left | exact Hne' | |];
        unfold r_end in *; cbn [fst snd] in *; lia. }
    assert (Hds : disjoint_set (regions hf ++ [(a, d)])).
    { destruct (chain_disjoint _ (canonical_nonempty _ Hc) (canonical_chain _ Hc)) as (_ & Hnd1 & Hp1).
      assert (Hnotin : ~ In (a, d) (regions hf)).
      { intros Hin. destruct (Hsep _ Hin) as [H|H]; unfold r_end in H; cbn [fst snd] in H; lia. }
      split; [|split].
      - unfold nonempty. apply Forall_app. split; [now apply canonical_nonempty | constructor; [exact Hd0 | constructor]].
      - apply NoDup_app_snoc; assumption.
      - intros r1 r2 I1 I2 Hne. apply in_app_or in I1. apply in_app_or in I2.
        destruct I1 as [I1|[<-|[]]], I2 as [I2|[<-|[]]].
        + now apply Hp1.
        + now apply Hsep.
        + destruct (Hsep _ I2) as [H|H]; [right|left]; exact H.
        + congruence. }
    destruct (check_succeeds _ Hds) as (rs' & Hrs').
    destruct (check_merges _ _ (proj1 Hds) Hrs') as (Hh' & Hc').
    cbn [add_all fst snd]. unfold add_region. rewrite Hrs'. cbn [bind].
    destruct (IH (mkHexFile rs' (start_address hf)) (pre ++ [(a, d)])) as (hf' & H1 & H2 & H3 & H4).
    + exact Hc'.
    + intros z x. cbn [regions]. rewrite Hh', !holds_app, Hh. tauto.
    + rewrite <- app_assoc. cbn [app]. repeat split; assumption.
    + exists hf'. rewrite <- app_assoc in H3. cbn [app] in H3. auto.
Qed.

(* any insertion order of a pairwise non-overlapping set of non-empty regions is accepted; the result
   is canonical and holds exactly the inserted bytes *)
Lemma add_all_succeeds seq : disjoint_set seq ->
  exists hf, add_all seq empty_hexfile = Ok hf /\ canonical (regions hf) /\
             (forall a x, holds (regions hf) a x <-> holds seq a x) /\ start_address hf = 0.
Proof.
  intros H. destruct (add_all_gen seq empty_hexfile [] I) as (hf & H1 & H2 & H3 & H4); [tauto | exact H|].
  exists hf. auto.
Qed.

Lemma add_all_perm seq seq' : Permutation seq seq' -> disjoint_set seq ->
  exists hf hf', add_all seq empty_hexfile = Ok hf /\ add_all seq' empty_hexfile = Ok hf' /\
                 forall a x, holds (regions hf) a x <-> holds (regions hf') a x.
Proof.
  intros P H. destruct (add_all_succeeds seq H) as (hf & H1 & _ & H3 & _).
  destruct (add_all_succeeds seq' (disjoint_perm _ _ P H)) as (hf' & H1' & _ & H3' & _).
  exists hf, hf'. split; [assumption|]. split; [assumption|]. intros a x. rewrite H3, H3'.
  split; apply holds_perm; [|symmetry]; assumption.
Qed.

Lemma add_region_rejects_overlap hf a d r : canonical (regions hf) -> 0 < len d ->
  In r (regions hf) -> ~ no_overlap r (a, d) -> add_region hf a d = Diag 1.
Proof.
  intros Hc Hd Hin Hov. unfold add_region.
  destruct (in_split _ _ Hin) as (l1 & l2 & E).
  rewrite (check_rejects (regions hf ++ [(a, d)]) r (a, d) (l1 ++ l2)); [reflexivity| | |exact Hov].
  - unfold nonempty. apply Forall_app. split; [now apply canonical_nonempty | constructor; [exact Hd | constructor]].
  - rewrite E. eapply perm_trans; [apply perm_swap|].
    eapply perm_trans; [apply Permutation_cons_append|]. apply Permutation_app_tail. apply Permutation_middle.
Qed.
