(* Proofs/C09_text_tables.v — reflected text-level side conditions of the exported syntax tables: every literal and
   every register name of every well-formed class variant is an identifier, every glyph a single glyph character. *)
From PV Require Import Lib.Py Model.AsmSyntax Model.AsmLexer Model.AsmReloc Proofs.C09_syntax Proofs.C09_tables Proofs.C09_lexer.
From PV Require Import Gen.Tab_syntax_riscv.
From PV Require Import Gen.Tab_syntax_riscv_rvc.
From PV Require Import Gen.Tab_syntax_arm.
From PV Require Import Gen.Tab_syntax_thumb.
From PV Require Import Gen.Tab_syntax_x86_64.
From PV Require Import Gen.Tab_syntax_msp430.
From PV Require Import Gen.Tab_syntax_avr.
From PV Require Import Gen.Tab_syntax_m68k.
From PV Require Import Gen.Tab_syntax_mips.
From PV Require Import Gen.Tab_syntax_or1k.
From PV Require Import Gen.Tab_syntax_xtensa.
From PV Require Import Gen.Tab_syntax_microblaze.

Lemma text_facts_riscv : forallb (text_entry_ok regs_riscv) stab_riscv = true.
Proof. vm_compute. reflexivity. Qed.

Lemma text_facts_riscv_rvc : forallb (text_entry_ok regs_riscv_rvc) stab_riscv_rvc = true.
Proof. vm_compute. reflexivity. Qed.

Lemma text_facts_arm : forallb (text_entry_ok regs_arm) stab_arm = true.
Proof. vm_compute. reflexivity. Qed.

Lemma text_facts_thumb : forallb (text_entry_ok regs_thumb) stab_thumb = true.
Proof. vm_compute. reflexivity. Qed.

Lemma text_facts_x86_64 : forallb (text_entry_ok regs_x86_64) stab_x86_64 = true.
Proof. vm_compute. reflexivity. Qed.

Lemma text_facts_msp430 : forallb (text_entry_ok regs_msp430) stab_msp430 = true.
Proof. vm_compute. reflexivity. Qed.

Lemma text_facts_avr : forallb (text_entry_ok regs_avr) stab_avr = true.
Proof. vm_compute. reflexivity. Qed.

Lemma text_facts_m68k : forallb (text_entry_ok regs_m68k) stab_m68k = true.
Proof. vm_compute. reflexivity. Qed.

Lemma text_facts_mips : forallb (text_entry_ok regs_mips) stab_mips = true.
Proof. vm_compute. reflexivity. Qed.

Lemma text_facts_or1k : forallb (text_entry_ok regs_or1k) stab_or1k = true.
Proof. vm_compute. reflexivity. Qed.

Lemma text_facts_xtensa : forallb (text_entry_ok regs_xtensa) stab_xtensa = true.
Proof. vm_compute. reflexivity. Qed.

Lemma text_facts_microblaze : forallb (text_entry_ok regs_microblaze) stab_microblaze = true.
Proof. vm_compute. reflexivity. Qed.

Lemma reloc_facts_riscv : reloc_table_ok stab_riscv relocs_riscv = true.
Proof. vm_compute. reflexivity. Qed.

Lemma reloc_facts_riscv_rvc : reloc_table_ok stab_riscv_rvc relocs_riscv_rvc = true.
Proof. vm_compute. reflexivity. Qed.

Lemma reloc_facts_arm : reloc_table_ok stab_arm relocs_arm = true.
Proof. vm_compute. reflexivity. Qed.

Lemma reloc_facts_thumb : reloc_table_ok stab_thumb relocs_thumb = true.
Proof. vm_compute. reflexivity. Qed.

Lemma reloc_facts_x86_64 : reloc_table_ok stab_x86_64 relocs_x86_64 = true.
Proof. vm_compute. reflexivity. Qed.

Lemma reloc_facts_msp430 : reloc_table_ok stab_msp430 relocs_msp430 = true.
Proof. vm_compute. reflexivity. Qed.

Lemma reloc_facts_avr : reloc_table_ok stab_avr relocs_avr = true.
Proof. vm_compute. reflexivity. Qed.

Lemma reloc_facts_m68k : reloc_table_ok stab_m68k relocs_m68k = true.
Proof. vm_compute. reflexivity. Qed.

Lemma reloc_facts_mips : reloc_table_ok stab_mips relocs_mips = true.
Proof. vm_compute. reflexivity. Qed.

Lemma reloc_facts_or1k : reloc_table_ok stab_or1k relocs_or1k = true.
Proof. vm_compute. reflexivity. Qed.

Lemma reloc_facts_xtensa : reloc_table_ok stab_xtensa relocs_xtensa = true.
Proof. vm_compute. reflexivity. Qed.

Lemma reloc_facts_microblaze : reloc_table_ok stab_microblaze relocs_microblaze = true.
Proof. vm_compute. reflexivity. Qed.

Lemma text_roundtrip_riscv : forall i ops,
  (i < List.length stab_riscv)%nat -> in_pairs i ambiguous_riscv = false ->
  ops_ok kws_riscv regs_riscv (s_rule (entry_at stab_riscv i)) ops = true ->
  exists txt, render_text regs_riscv (s_syn (entry_at stab_riscv i)) ops = Some txt /\
              parse_model kwlabel_lower_riscv kws_riscv regs_riscv (stab_riscv ++ extra_riscv) txt = Some [(i, ops)].
Proof. exact (text_roundtrip _ _ _ _ _ _ _ facts_riscv text_facts_riscv). Qed.

Lemma text_roundtrip_riscv_rvc : forall i ops,
  (i < List.length stab_riscv_rvc)%nat -> in_pairs i ambiguous_riscv_rvc = false ->
  ops_ok kws_riscv_rvc regs_riscv_rvc (s_rule (entry_at stab_riscv_rvc i)) ops = true ->
  exists txt, render_text regs_riscv_rvc (s_syn (entry_at stab_riscv_rvc i)) ops = Some txt /\
              parse_model kwlabel_lower_riscv_rvc kws_riscv_rvc regs_riscv_rvc (stab_riscv_rvc ++ extra_riscv_rvc) txt = Some [(i, ops)].
Proof. exact (text_roundtrip _ _ _ _ _ _ _ facts_riscv_rvc text_facts_riscv_rvc). Qed.

Lemma text_roundtrip_arm : forall i ops,
  (i < List.length stab_arm)%nat -> in_pairs i ambiguous_arm = false ->
  ops_ok kws_arm regs_arm (s_rule (entry_at stab_arm i)) ops = true ->
  exists txt, render_text regs_arm (s_syn (entry_at stab_arm i)) ops = Some txt /\
              parse_model kwlabel_lower_arm kws_arm regs_arm (stab_arm ++ extra_arm) txt = Some [(i, ops)].
Proof. exact (text_roundtrip _ _ _ _ _ _ _ facts_arm text_facts_arm). Qed.

Lemma text_roundtrip_thumb : forall i ops,
  (i < List.length stab_thumb)%nat -> in_pairs i ambiguous_thumb = false ->
  ops_ok kws_thumb regs_thumb (s_rule (entry_at stab_thumb i)) ops = true ->
  exists txt, render_text regs_thumb (s_syn (entry_at stab_thumb i)) ops = Some txt /\
              parse_model kwlabel_lower_thumb kws_thumb regs_thumb (stab_thumb ++ extra_thumb) txt = Some [(i, ops)].
Proof. exact (text_roundtrip _ _ _ _ _ _ _ facts_thumb text_facts_thumb). Qed.

Lemma text_roundtrip_x86_64 : forall i ops,
  (i < List.length stab_x86_64)%nat -> in_pairs i ambiguous_x86_64 = false ->
  ops_ok kws_x86_64 regs_x86_64 (s_rule (entry_at stab_x86_64 i)) ops = true ->
  exists txt, render_text regs_x86_64 (s_syn (entry_at stab_x86_64 i)) ops = Some txt /\
              parse_model kwlabel_lower_x86_64 kws_x86_64 regs_x86_64 (stab_x86_64 ++ extra_x86_64) txt = Some [(i, ops)].
Proof. exact (text_roundtrip _ _ _ _ _ _ _ facts_x86_64 text_facts_x86_64). Qed.

Lemma text_roundtrip_msp430 : forall i ops,
  (i < List.length stab_msp430)%nat -> in_pairs i ambiguous_msp430 = false ->
  ops_ok kws_msp430 regs_msp430 (s_rule (entry_at stab_msp430 i)) ops = true ->
  exists txt, render_text regs_msp430 (s_syn (entry_at stab_msp430 i)) ops = Some txt /\
              parse_model kwlabel_lower_msp430 kws_msp430 regs_msp430 (stab_msp430 ++ extra_msp430) txt = Some [(i, ops)].
Proof. exact (text_roundtrip _ _ _ _ _ _ _ facts_msp430 text_facts_msp430). Qed.

Lemma text_roundtrip_avr : forall i ops,
  (i < List.length stab_avr)%nat -> in_pairs i ambiguous_avr = false ->
  ops_ok kws_avr regs_avr (s_rule (entry_at stab_avr i)) ops = true ->
  exists txt, render_text regs_avr (s_syn (entry_at stab_avr i)) ops = Some txt /\
              parse_model kwlabel_lower_avr kws_avr regs_avr (stab_avr ++ extra_avr) txt = Some [(i, ops)].
Proof. exact (text_roundtrip _ _ _ _ _ _ _ facts_avr text_facts_avr). Qed.

Lemma text_roundtrip_m68k : forall i ops,
  (i < List.length stab_m68k)%nat -> in_pairs i ambiguous_m68k = false ->
  ops_ok kws_m68k regs_m68k (s_rule (entry_at stab_m68k i)) ops = true ->
  exists txt, render_text regs_m68k (s_syn (entry_at stab_m68k i)) ops = Some txt /\
              parse_model kwlabel_lower_m68k kws_m68k regs_m68k (stab_m68k ++ extra_m68k) txt = Some [(i, ops)].
Proof. exact (text_roundtrip _ _ _ _ _ _ _ facts_m68k text_facts_m68k). Qed.

Lemma text_roundtrip_mips : forall i ops,
  (i < List.length stab_mips)%nat -> in_pairs i ambiguous_mips = false ->
  ops_ok kws_mips regs_mips (s_rule (entry_at stab_mips i)) ops = true ->
  exists txt, render_text regs_mips (s_syn (entry_at stab_mips i)) ops = Some txt /\
              parse_model kwlabel_lower_mips kws_mips regs_mips (stab_mips ++ extra_mips) txt = Some [(i, ops)].
Proof. exact (text_roundtrip _ _ _ _ _ _ _ facts_mips text_facts_mips). Qed.

Lemma text_roundtrip_or1k : forall i ops,
  (i < List.length stab_or1k)%nat -> in_pairs i ambiguous_or1k = false ->
  ops_ok kws_or1k regs_or1k (s_rule (entry_at stab_or1k i)) ops = true ->
  exists txt, render_text regs_or1k (s_syn (entry_at stab_or1k i)) ops = Some txt /\
              parse_model kwlabel_lower_or1k kws_or1k regs_or1k (stab_or1k ++ extra_or1k) txt = Some [(i, ops)].
Proof. exact (text_roundtrip _ _ _ _ _ _ _ facts_or1k text_facts_or1k). Qed.

Lemma text_roundtrip_xtensa : forall i ops,
  (i < List.length stab_xtensa)%nat -> in_pairs i ambiguous_xtensa = false ->
  ops_ok kws_xtensa regs_xtensa (s_rule (entry_at stab_xtensa i)) ops = true ->
  exists txt, render_text regs_xtensa (s_syn (entry_at stab_xtensa i)) ops = Some txt /\
              parse_model kwlabel_lower_xtensa kws_xtensa regs_xtensa (stab_xtensa ++ extra_xtensa) txt = Some [(i, ops)].
Proof. exact (text_roundtrip _ _ _ _ _ _ _ facts_xtensa text_facts_xtensa). Qed.

Lemma text_roundtrip_microblaze : forall i ops,
  (i < List.length stab_microblaze)%nat -> in_pairs i ambiguous_microblaze = false ->
  ops_ok kws_microblaze regs_microblaze (s_rule (entry_at stab_microblaze i)) ops = true ->
  exists txt, render_text regs_microblaze (s_syn (entry_at stab_microblaze i)) ops = Some txt /\
              parse_model kwlabel_lower_microblaze kws_microblaze regs_microblaze (stab_microblaze ++ extra_microblaze) txt = Some [(i, ops)].
Proof. exact (text_roundtrip _ _ _ _ _ _ _ facts_microblaze text_facts_microblaze). Qed.
