(* Proofs/C17_recover.v — what "read back faithfully" means for a whole file, as a decidable relation
   between an object and the result of the gABI reader, plus the whole-file results:
     recovered p o typ bs   the reader's view [p] of the bytes [bs] shows the object's sections, symbols,
                            relocations, segments and entry point
     recovered_ok o typ     write (model) then read (Spec) then compare — evaluated by vm_compute
   The unbounded layer lemmas about symbol order and image bytes are here as well. *)
From PV Require Import Lib.Py Lib.Tac Gen.Tab_elf Model.ElfWriter Spec.ElfSpec Proofs.C17_codec.
From Coq Require Import String Ascii.
Open Scope Z_scope.
Local Notation length := List.length (only parsing).
Local Notation concat := List.concat (only parsing).

Fixpoint zl_eqb (a b : list Z) : bool :=
  match a, b with
  | [], [] => true
  | x :: a', y :: b' => (x =? y) && zl_eqb a' b'
  | _, _ => false
  end.
Definition ozl_eqb (a b : option (list Z)) : bool :=
  match a, b with Some x, Some y => zl_eqb x y | None, None => true | _, _ => false end.

(* ---- sections: name, type PROGBITS, contents, address, alignment, size ---- *)
Definition sec_matches (ps : section) (sec : msection) : bool :=
  zl_eqb (s_name ps) (str_bytes (ms_name sec)) && (sh_type (s_hdr ps) =? 1)
  && zl_eqb (s_data ps) (ms_data sec) && (sh_addr (s_hdr ps) =? ms_addr sec)
  && (sh_addralign (s_hdr ps) =? ms_align sec) && (sh_size (s_hdr ps) =? len (ms_data sec)).
Definition is_exec (typ : string) : bool := String.eqb typ "executable".
Definition written_sections (o : mobj) (typ : string) : list msection :=
  (if is_exec typ then concat (map mi_secs (mo_images o)) else []) ++ mo_sections o.
Definition sections_ok (p : parsed) (o : mobj) (typ : string) : bool :=
  forallb (fun sec => existsb (fun ps => sec_matches ps sec) (f_sections p)) (written_sections o typ).

(* ---- symbols: (name, binding, type, name of the section it is defined in, value, size) ---- *)
Definition sym_view := (list Z * Z * Z * option (list Z) * Z * Z)%type.
Definition view_eqb (a b : sym_view) : bool :=
  let '(n1, b1, t1, s1, v1, z1) := a in let '(n2, b2, t2, s2, v2, z2) := b in
  zl_eqb n1 n2 && (b1 =? b2) && (t1 =? t2) && ozl_eqb s1 s2 && (v1 =? v2) && (z1 =? z2).
Definition view_of (p : parsed) (sn : sym * list Z) : sym_view :=
  let s := fst sn in
  (snd sn, st_bind s, st_type s,
   (if st_shndx s =? 0 then None else option_map s_name (nthz (f_sections p) (st_shndx s))),
   st_value s, st_size s).
(* gABI: STB_LOCAL 0, STB_GLOBAL 1; STT_NOTYPE 0, STT_OBJECT 1, STT_FUNC 2 *)
Definition expected_view (o : mobj) (y : msymbol) : sym_view :=
  (str_bytes (my_name y), (if my_global y then 1 else 0),
   (if String.eqb (my_typ y) "func" then 2 else if String.eqb (my_typ y) "object" then 1 else 0),
   (match my_value y with Some _ => option_map str_bytes (my_section y) | None => None end),
   (match my_value y, my_section y with
    | Some v, Some sn => match obj_get_section o sn with Ok sec => v + ms_addr sec | _ => v end
    | Some v, None => v          (* absolute symbol: st_shndx = SHN_ABS, value unrelocated *)
    | _, _ => 0 end),
   my_size y).
Definition ordered_symbols (o : mobj) : list msymbol :=
  filter (fun y => negb (my_global y)) (mo_symbols o) ++ filter my_global (mo_symbols o).
Fixpoint all2 {A B} (f : A -> B -> bool) (a : list A) (b : list B) : bool :=
  match a, b with
  | [], [] => true
  | x :: a', y :: b' => f x y && all2 f a' b'
  | _, _ => false
  end.
Definition symbols_ok (p : parsed) (o : mobj) : bool :=
  match f_symtabs p with
  | [t] =>
      (t_first_global t =? 1 + len (filter (fun y => negb (my_global y)) (mo_symbols o)))
      && all2 (fun sn y => view_eqb (view_of p sn) (expected_view o y)) (tl (t_syms t)) (ordered_symbols o)
  | _ => false
  end.

(* ---- relocations (relocatable files): per section, in order: offset, symbol, type, addend ---- *)
Definition rela_matches (p : parsed) (o : mobj) (t : symtab) (e : rela) (rel : mreloc) : bool :=
  (r_offset e =? mr_offset rel) && (r_addend e =? mr_addend rel)
  && (match get_reloc_type o rel with Ok ty => r_type e =? ty | _ => false end)
  && (match nthz (t_syms t) (r_sym e), symbols_by_id o (mr_symid rel) with
      | Some sn, Ok y => view_eqb (view_of p sn) (expected_view o y)
      | _, _ => false end).
Definition relocs_ok (p : parsed) (o : mobj) (typ : string) : bool :=
  if negb (String.eqb typ "relocatable") then match f_relatabs p with [] => true | _ => false end else
  match f_symtabs p with
  | [t] =>
      let names := sorted_names (map mr_section (mo_relocs o)) in
      (len (f_relatabs p) =? len names)
      && forallb (fun name =>
           existsb (fun rt =>
             ozl_eqb (option_map s_name (nthz (f_sections p) (rt_target rt))) (Some (str_bytes name))
             && (rt_symtab rt =? t_index t)
             && all2 (rela_matches p o t) (rt_entries rt)
                     (filter (fun rel => String.eqb (mr_section rel) name) (mo_relocs o)))
             (f_relatabs p)) names
  | _ => false
  end.

(* ---- segments (executables): one PT_LOAD per image, holding the image bytes ---- *)
Definition segment_matches (bs : list Z) (ph : phdr) (im : mimage) : bool :=
  match image_data im with
  | Ok d => (p_type ph =? 1) && (p_vaddr ph =? mi_addr im) && (p_paddr ph =? mi_addr im)
            && (p_filesz ph =? len d) && (p_memsz ph =? len d)
            && ozl_eqb (slice bs (p_offset ph) (p_filesz ph)) (Some d)
            (* gABI congruence of p_offset and p_vaddr: guaranteed for page-aligned images, and for all images
               once write_images pads (fixes/C17-segment-congruence.diff, probed into Tab_elf.segments_congruent) *)
            && (segment_congruent ph || negb (segments_congruent || (mi_addr im mod page_size =? 0)))
  | _ => false
  end.
Definition segments_ok (bs : list Z) (p : parsed) (o : mobj) (typ : string) : bool :=
  if is_exec typ then all2 (segment_matches bs) (f_phdrs p) (mo_images o)
  else match f_phdrs p with [] => true | _ => false end.

(* ---- header: class / data / machine numbers of the gABI and psABIs, type, entry ---- *)
Definition gabi_machine (arch : string) : option (bool * bool * Z) :=   (* ELFCLASS64?, ELFDATA2MSB?, e_machine *)
  if String.eqb arch "x86_64" then Some (true, false, 62)
  else if String.eqb arch "arm" then Some (false, false, 40)
  else if String.eqb arch "riscv" then Some (false, false, 243)
  else if String.eqb arch "xtensa" then Some (false, false, 94)
  else if String.eqb arch "microblaze" then Some (false, true, 189)
  else None.
Definition header_ok (p : parsed) (o : mobj) (typ : string) : bool :=
  let e := f_ehdr p in
  match gabi_machine (mo_arch o) with
  | Some (c64, big, m) =>
      Bool.eqb (e_class64 e) c64 && Bool.eqb (e_big e) big && (e_machine e =? m)
      && (e_type e =? (if is_exec typ then 2 else 1))
      && (if is_exec typ then
            match mo_entry o with
            | None => e_entry e =? 0
            | Some id => match get_symbol_id_value o id with Ok v => e_entry e =? v | _ => false end
            end
          else e_entry e =? 0)
  | None => false
  end.

Definition recovered (p : parsed) (o : mobj) (typ : string) (bs : list Z) : bool :=
  header_ok p o typ && sections_ok p o typ && symbols_ok p o && relocs_ok p o typ && segments_ok bs p o typ.

Definition recovered_ok (o : mobj) (typ : string) : bool :=
  match write_elf o typ with
  | Ok bs => match read bs with Some p => recovered p o typ bs | None => false end
  | _ => false
  end.
(* for the per-run validation of generated objects: 0 = writer failed, 1 = reader rejects,
   2 = something not recovered, 3 = fine *)
Definition recovered_code (o : mobj) (typ : string) : Z :=
  match write_elf o typ with
  | Ok bs => match read bs with Some p => if recovered p o typ bs then 3 else 2 | None => 1 end
  | _ => 0
  end.

(* ------------------------------------------------------------------ symbol order (unbounded) *)
(* st_info as the model builds it *)
Definition model_info (y : msymbol) : Z :=
  Z.lor (Z.shiftl (if my_global y then stb_global else stb_local) 4) (st_type_of (my_typ y)).

Lemma model_info_bind y : model_info y / 16 = if my_global y then 1 else 0.
Proof.
  unfold model_info, st_type_of.
  destruct (my_global y), (String.eqb (my_typ y) "func"), (String.eqb (my_typ y) "object"); reflexivity.
Qed.

Lemma forallb_filter {A} (f : A -> bool) l : forallb f (filter f l) = true.
Proof. induction l as [|a l IH]; [reflexivity|]. cbn. destruct (f a) eqn:E; cbn; [now rewrite E|exact IH]. Qed.

(* any symbol entries whose st_info are the model's, in the model's order, behind the null entry, with
   sh_info = number of locals + 1, satisfy the gABI ordering rule checked by the reader *)
Lemma locals_first_model (syms : list msymbol) (entries : list sym) (null : sym) :
  st_info null = 0 ->
  let locals := filter (fun y => negb (my_global y)) syms in
  let globals := filter my_global syms in
  map st_info entries = map model_info (locals ++ globals) ->
  locals_first (len locals + 1) (null :: entries) = true.
Proof.
  intros Hn locals globals Hm. unfold locals_first.
  assert (Hlen : length entries = (length locals + length globals)%nat).
  { rewrite <- (map_length st_info), Hm, map_length, app_length. reflexivity. }
  assert (Hsplit : exists el eg, entries = el ++ eg /\ map st_info el = map model_info locals
                                 /\ map st_info eg = map model_info globals).
  { exists (firstn (length locals) entries), (skipn (length locals) entries).
    split; [now rewrite firstn_skipn|]. rewrite <- firstn_map, <- skipn_map, Hm, map_app.
    rewrite <- (map_length model_info locals).
    rewrite firstn_app, Nat.sub_diag, firstn_all, skipn_app, Nat.sub_diag, skipn_all. cbn.
    now rewrite app_nil_r. }
  destruct Hsplit as (el & eg & -> & Hl & Hg).
  assert (Ll : length el = length locals) by (rewrite <- (map_length st_info), Hl; apply map_length).
  unfold len, zlen. cbn [length]. rewrite app_length.
  replace (Z.to_nat (Z.of_nat (length locals) + 1)) with (S (length el)) by lia.
  cbn [firstn skipn forallb]. rewrite firstn_app, Nat.sub_diag, firstn_all, skipn_app, Nat.sub_diag, skipn_all.
  cbn [firstn skipn app]. rewrite app_nil_r.
  assert (A1 : forallb (fun s => st_bind s =? STB_LOCAL) el = true).
  { apply forallb_forall. intros s Hs. unfold st_bind.
    assert (In (st_info s) (map model_info locals)) by (rewrite <- Hl; now apply in_map).
    apply in_map_iff in H as (y & Ey & Hy). apply filter_In in Hy as [_ Hy].
    rewrite <- Ey, model_info_bind. destruct (my_global y); [discriminate|reflexivity]. }
  assert (A2 : forallb (fun s => negb (st_bind s =? STB_LOCAL)) eg = true).
  { apply forallb_forall. intros s Hs. unfold st_bind.
    assert (In (st_info s) (map model_info globals)) by (rewrite <- Hg; now apply in_map).
    apply in_map_iff in H as (y & Ey & Hy). apply filter_In in Hy as [_ Hy].
    rewrite <- Ey, model_info_bind, Hy. reflexivity. }
  rewrite A1, A2. unfold st_bind. rewrite Hn.
  repeat (apply andb_true_intro; split); try reflexivity; lia.
Qed.

(* ------------------------------------------------------------------ image bytes (unbounded) *)
(* Image.data places every section's bytes at (section address - image address) *)
Lemma zeros_length n : 0 <= n -> length (zeros n) = Z.to_nat n.
Proof. intros _. unfold zeros. apply repeat_length. Qed.

Lemma image_data_from_at cur secs d :
  image_data_from cur secs = Ok d ->
  forall sec, In sec secs -> at_ d (ms_addr sec - cur) (ms_data sec).
Proof.
  revert cur d; induction secs as [|s r IH]; intros cur d H sec Hin; [contradiction|].
  cbn [image_data_from] in H. destruct (Z.ltb_spec (ms_addr s) cur) as [|Hge]; [discriminate|].
  destruct (image_data_from (ms_addr s + len (ms_data s)) r) as [rest| | |] eqn:E; try discriminate.
  cbn [bind] in H. injection H as <-. destruct Hin as [->|Hin].
  - exists (zeros (ms_addr sec - cur)), rest. split; [reflexivity|].
    unfold zlen. rewrite zeros_length by lia. lia.
  - destruct (IH _ _ E sec Hin) as (pre & post & Er & El).
    exists (zeros (ms_addr s - cur) ++ ms_data s ++ pre), post. split.
    + rewrite Er, <- !app_assoc. reflexivity.
    + unfold zlen, len in *. rewrite !app_length, zeros_length by lia. lia.
Qed.

(* if the file holds the image at the segment's offset, then at every virtual address inside a section of
   the image the loader sees that section's byte *)
Lemma segment_byte_of_image bs (ph : phdr) (im : mimage) d sec i b :
  image_data im = Ok d -> at_ bs (p_offset ph) d -> p_vaddr ph = mi_addr im ->
  In sec (mi_secs im) -> nth_error (ms_data sec) i = Some b ->
  segment_byte bs ph (ms_addr sec + Z.of_nat i) = Some b.
Proof.
  intros Hd Hat Hv Hin Hn. unfold segment_byte. rewrite Hv.
  destruct (image_data_from_at _ _ _ Hd sec Hin) as (pre & post & Ed & El).
  destruct Hat as (fpre & fpost & -> & Eo). subst d.
  replace (p_offset ph + (ms_addr sec + Z.of_nat i - mi_addr im))
    with (zlen (fpre ++ pre) + Z.of_nat i) by (unfold zlen in *; rewrite app_length; lia).
  apply at_byte with (x := ms_data sec); [|exact Hn].
  exists (fpre ++ pre), (post ++ fpost). split; [now rewrite <- !app_assoc|reflexivity].
Qed.

Lemma string_table_layer s txt i s' :
  get_string s txt = Ok (i, s') -> names_inv s ->
  names_inv s' /\ strtab_at (w_strtab s') i txt /\
  (forall ext, nul_free txt = true -> strtab_get (w_strtab s' ++ ext) i = Some (str_bytes txt)).
Proof.
  intros H I. destruct (get_string_spec s txt i s' H I) as (A & B & _).
  split; [exact A|]. split; [exact B|]. intros ext N. apply strtab_get_at; [|exact N].
  now apply strtab_at_app.
Qed.
