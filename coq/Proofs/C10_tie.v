(* Proofs/C10_tie.v — the regenerated definitions Gen.token_fields (flatten + py2coq from ppci/arch/token.py) are
   equal to the model Model.TokenField on which the C10 theorems are stated. *)
From PV Require Import Lib.Py Lib.Tac Model.TokenField.
From PV Require Gen.token_fields.
Open Scope Z_scope.
Module G := PV.Gen.token_fields.

Lemma tie_getitem bv start stop : G.tok_getitem bv start stop = tok_getitem bv start stop.
Proof.
  unfold G.tok_getitem, tok_getitem.
  destruct (stop - start >? 0) eqn:E1; unfold guard at 1; [|reflexivity].
  replace (0 <=? stop - start) with true by lia. unfold guard at 1.
  symmetry. unfold guard at 1. symmetry. unfold guard at 1.
  destruct (0 <=? start); [|reflexivity]. reflexivity.
Qed.

Lemma tie_setitem size bv start stop v : 0 <= size ->
  G.tok_setitem size bv start stop v = tok_setitem size bv start stop v.
Proof.
  intros Hs. unfold G.tok_setitem, tok_setitem.
  destruct (stop - start >? 0) eqn:E1; unfold guard at 1; [|reflexivity].
  replace (0 <=? stop - start) with true by lia. unfold guard at 1.
  symmetry. unfold guard at 1. symmetry.
  destruct (v >=? Z.shiftl 1 (stop - start)); [reflexivity|].
  set (v' := if v <? 0 then Z.shiftl 1 (stop - start) + v else v).
  replace (if v <? 0 then let value := Z.shiftl 1 (stop - start) + v in value else v) with v' by reflexivity.
  destruct ((v' >=? 0) && (v' <? Z.shiftl 1 (stop - start))); unfold guard at 1; symmetry; unfold guard at 1; [|reflexivity].
  replace (0 <=? size) with true by lia. 
  destruct (0 <=? start); unfold guard; reflexivity.
Qed.

Lemma tie_range_get bv b e : G.range_get bv b e = tok_getitem bv b e.
Proof. unfold G.range_get. rewrite tie_getitem. destruct (tok_getitem bv b e); reflexivity. Qed.

Lemma tie_range_set size bv b e v : 0 <= size -> G.range_set size bv b e v = tok_setitem size bv b e v.
Proof. intros H. unfold G.range_set. rewrite tie_setitem by assumption. destruct (tok_setitem size bv b e v); reflexivity. Qed.

(* ---- lists of parts as the parallel lists bs, es used by the flattened closures *)
Definition pb (p : part) : Z := let 'Part b _ _ := p in b.
Definition pe (p : part) : Z := let 'Part _ e _ := p in e.
Definition pwf (p : part) : Prop := 0 <= pb p /\ pb p < pe p.
Definition dpart : part := Part 0 0 false.

Lemma psize_eq p : psize p = pe p - pb p.
Proof. destruct p; reflexivity. Qed.

Lemma nth_pb ps i : nth i (map pb ps) 0 = pb (nth i ps dpart).
Proof. change 0 with (pb dpart). apply map_nth. Qed.
Lemma nth_pe ps i : nth i (map pe ps) 0 = pe (nth i ps dpart).
Proof. change 0 with (pe dpart). apply map_nth. Qed.

Lemma len_map {A B} (f : A -> B) l : len (map f l) = len l.
Proof. unfold len. now rewrite map_length. Qed.

(* sequential form of the bit_concat setter on a list of parts (in processing order) *)
Fixpoint seq_set (size bv : Z) (l : list part) (v : Z) : result (Z * Z) :=
  match l with
  | [] => Ok (bv, v)
  | p :: r => bv' <- part_set size bv p (Z.land v (pmask p)) ;; seq_set size bv' r (Z.shiftr v (psize p))
  end.

Lemma part_set_eq size bv p x : part_set size bv p x = tok_setitem size bv (pb p) (pe p) x.
Proof. destruct p; reflexivity. Qed.
Lemma part_get_eq bv p : part_get bv p = tok_getitem bv (pb p) (pe p).
Proof. destruct p; reflexivity. Qed.

Lemma set_loop_eq size ps : 0 <= size -> forall l bv v,
  (forall i, In i l -> 0 <= i < len ps /\ pwf (nth (Z.to_nat i) ps dpart)) ->
  G.concat_set_loop1 size (map pb ps) (map pe ps) l bv v =
  seq_set size bv (map (fun i => nth (Z.to_nat i) ps dpart) l) v.
Proof.
  intros Hs. induction l as [|i l IH]; intros bv v Hl; [reflexivity|].
  cbn [G.concat_set_loop1 map seq_set].
  destruct (Hl i (or_introl eq_refl)) as [Hi [W1 W2]].
  rewrite !len_map, nth_pb, nth_pe. set (p := nth (Z.to_nat i) ps dpart) in *.
  rewrite tie_range_set by assumption. rewrite part_set_eq. unfold pmask. rewrite psize_eq.
  destruct (tok_setitem size bv (pb p) (pe p) _) as [bv'| | |]; cbn [bind]; try reflexivity.
  guards_ok. apply IH. intros j Hj. apply Hl. now right.
Qed.

Lemma seq_set_v size l : Forall pwf l -> forall bv v bv' v',
  seq_set size bv l v = Ok (bv', v') -> v' = Z.shiftr v (widths l).
Proof.
  induction 1 as [|p r Hp Hr IH]; intros bv v bv' v' E; cbn [seq_set widths] in *.
  - injection E as <- <-. now rewrite Z.shiftr_0_r.
  - destruct (part_set size bv p _) as [b1| | |]; cbn [bind] in E; try discriminate.
    apply IH in E. subst v'. destruct Hp. rewrite Z.shiftr_shiftr; [reflexivity|].
    clear - Hr. induction Hr as [|q r [Q1 Q2] _ IH]; cbn [widths]; [lia|]. rewrite psize_eq. lia.
Qed.

Lemma widths_nonneg l : Forall pwf l -> 0 <= widths l.
Proof. induction 1 as [|q r [Q1 Q2] _ IH]; cbn [widths]; [lia|]. rewrite psize_eq. lia. Qed.

Lemma widths_app a b : widths (a ++ b) = widths a + widths b.
Proof. induction a as [|p a IH]; cbn [app widths]; lia. Qed.
Lemma widths_rev a : widths (rev a) = widths a.
Proof. induction a as [|p a IH]; cbn [rev widths]; [reflexivity|]. rewrite widths_app, IH. cbn [widths]. lia. Qed.

Lemma seq_set_app size l1 l2 bv v :
  seq_set size bv (l1 ++ l2) v = '(bv1, v1) <- seq_set size bv l1 v ;; seq_set size bv1 l2 v1.
Proof.
  revert bv v. induction l1 as [|p l1 IH]; intros bv v; cbn [app seq_set bind]; [reflexivity|].
  destruct (part_set size bv p _); cbn [bind]; try reflexivity. apply IH.
Qed.

Lemma concat_set_seq size ps : Forall pwf ps -> forall bv v,
  concat_set size bv ps v = '(bv', _) <- seq_set size bv (rev ps) v ;; Ok bv'.
Proof.
  induction 1 as [|p r Hp Hr IH]; intros bv v; cbn [concat_set rev]; [reflexivity|].
  rewrite seq_set_app, IH.
  destruct (seq_set size bv (rev r) v) as [[bv1 v1]| | |] eqn:E; cbn [bind]; try reflexivity.
  apply seq_set_v in E; [|now apply Forall_rev]. rewrite widths_rev in E. subst v1.
  cbn [seq_set]. destruct (part_set size bv1 p _); reflexivity.
Qed.

Lemma map_nth_range {A} (d : A) (l : list A) :
  map (fun i => nth (Z.to_nat i) l d) (rangeZ 0 (len l)) = l.
Proof.
  unfold rangeZ, len. rewrite Z.sub_0_r, Nat2Z.id.
  assert (H : forall (pre : list A), map (fun i => nth (Z.to_nat i) (pre ++ l) d)
              (seqZ_from (Z.of_nat (length pre)) (length l)) = l).
  { induction l as [|x l IH]; intros pre; [reflexivity|]. cbn [length seqZ_from map]. f_equal.
    - rewrite Nat2Z.id. rewrite app_nth2 by lia. now rewrite Nat.sub_diag.
    - specialize (IH (pre ++ [x])). rewrite <- app_assoc in IH. cbn [app] in IH.
      rewrite app_length in IH. cbn [length] in IH.
      replace (Z.of_nat (length pre) + 1) with (Z.of_nat (length pre + 1)) by lia. exact IH. }
  exact (H []).
Qed.

Lemma tie_concat_set size bv ps v : 0 <= size -> Forall pwf ps ->
  G.concat_set size bv (map pb ps) (map pe ps) v = concat_set size bv ps v.
Proof.
  intros Hs W. unfold G.concat_set. rewrite len_map.
  rewrite set_loop_eq; [|assumption|].
  - rewrite map_rev, map_nth_range. rewrite concat_set_seq by assumption.
    destruct (seq_set size bv (rev ps) v) as [[a b]| | |]; reflexivity.
  - intros i Hi. apply in_rev in Hi. apply rangeZ_In in Hi. split; [lia|].
    rewrite Forall_forall in W. apply W. apply nth_In. unfold len in Hi. lia.
Qed.

Lemma get_loop_eq ps : forall l bv v,
  (forall i, In i l -> 0 <= i < len ps /\ pwf (nth (Z.to_nat i) ps dpart)) ->
  G.concat_get_loop1 (map pe ps) (map pb ps) bv l v =
  concat_get bv (map (fun i => nth (Z.to_nat i) ps dpart) l) v.
Proof.
  induction l as [|i l IH]; intros bv v Hl; [reflexivity|].
  cbn [G.concat_get_loop1 map concat_get].
  destruct (Hl i (or_introl eq_refl)) as [Hi [W1 W2]].
  rewrite !len_map, !nth_pb, !nth_pe. set (p := nth (Z.to_nat i) ps dpart) in *.
  guards_ok. rewrite tie_range_get, part_get_eq.
  destruct (tok_getitem bv (pb p) (pe p)) as [x| | |]; cbn [bind]; try reflexivity.
  guards_ok. unfold pmask. rewrite psize_eq. apply IH. intros j Hj. apply Hl. now right.
Qed.

Lemma tie_concat_get bv ps : Forall pwf ps ->
  G.concat_get bv (map pb ps) (map pe ps) = concat_get bv ps 0.
Proof.
  intros W. unfold G.concat_get. rewrite len_map. rewrite get_loop_eq.
  - rewrite map_nth_range. destruct (concat_get bv ps 0); reflexivity.
  - intros i Hi. apply rangeZ_In in Hi. split; [lia|].
    rewrite Forall_forall in W. apply W. apply nth_In. unfold len in Hi. lia.
Qed.
