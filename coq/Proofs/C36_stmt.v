(* Proofs/C36_stmt.v -- the code the Python statement model emits simulates the big-step semantics. *)
From PV Require Import Lib.Py Lib.Tac Lib.Val Spec.IRSyntax Spec.IRSem Spec.PyExprSpec Spec.PyStmtSpec
  Model.Py2Ir Model.StmtCode Model.Py2IrStmt Proofs.C36_py2ir Proofs.StmtCode_lemmas.
Open Scope Z_scope.
Arguments phi_reg : simpl never.
Arguments bound_reg : simpl never.

Lemma set_nth_pset x v env : set_nth x v env = pset x v env.
Proof. revert env. induction x; destruct env; cbn; auto; try (now rewrite IHx). Qed.

Section WithFt.
Variable ft : nat -> option (nat * pcode).

Lemma graftc_runs ls env rg t ky kn v b :
  eval_ctree env t = ODone b -> pruns ft ls env rg (if b then ky else kn) v ->
  pruns ft ls env rg (graftc t ky kn) v.
Proof.
  revert b. induction t as [| | c a b0 y IHy n IHn]; intros b He Hr; cbn [graftc].
  - cbn in He. inversion He; subst. exact Hr.
  - cbn in He. inversion He; subst. exact Hr.
  - cbn [eval_ctree] in He.
    destruct (eval_tree env a) as [xa| | | |] eqn:Ea; try discriminate.
    destruct (eval_tree env b0) as [xb| | | |] eqn:Eb; try discriminate. cbn [obind] in He.
    eapply R_cj; eauto. destruct (eval_cond c xa xb); eauto.
Qed.

Lemma graftc_top_ok d t (ky kn : pcode) : top_ok d ky -> top_ok d kn -> top_ok d (graftc t ky kn).
Proof. intros. induction t; cbn [graftc top_ok]; auto. Qed.

Lemma tup_gets_top_ok d base xs (kn : pcode) : top_ok d kn -> top_ok d (tup_gets base xs kn).
Proof. revert base. induction xs; intros base H; cbn [tup_gets top_ok]; auto. Qed.
Lemma tup_sets_top_ok d base ts (kn : pcode) : top_ok d kn -> top_ok d (tup_sets base ts kn).
Proof. revert base. induction ts; intros base H; cbn [tup_sets top_ok]; auto. Qed.

Lemma pcompile_top_ok k : forall s d kn kb kc c, pcompile k d s kn kb kc = Some c ->
  top_ok d kn -> top_ok d kb -> top_ok d kc -> top_ok d c.
Proof.
  induction s; intros d kn kb kc c0 Hc Hn Hb Hk; cbn [pcompile] in Hc.
  - inversion Hc; subst; auto.
  - destruct (lower k e); inversion Hc; subst. exact Hn.
  - destruct (lower k (PBin o (PVar x) e)); inversion Hc; subst. exact Hn.
  - destruct (pcompile k d s2 kn kb kc) as [cb|] eqn:H2; [|discriminate]. eauto.
  - destruct (lower_cond k c CYes CNo) as [t|]; [|discriminate].
    destruct (pcompile k d s1 kn kb kc) as [ca|] eqn:H1; [|discriminate].
    destruct (pcompile k d s2 kn kb kc) as [cb|] eqn:H2; [|discriminate]. inversion Hc; subst.
    apply graftc_top_ok; eauto.
  - destruct (lower_cond k c CYes CNo) as [t|]; [|discriminate].
    destruct (pcompile k (S d) s (KBack d) kn (KBack d)); inversion Hc; subst. cbn [top_ok]. lia.
  - destruct (lower k a); [|discriminate]. destruct (lower k b); [|discriminate].
    destruct (pcompile k (S d) s _ kn _); inversion Hc; subst. cbn [top_ok]. lia.
  - inversion Hc; subst; auto.
  - inversion Hc; subst; auto.
  - destruct (lower k e); inversion Hc; subst. exact I.
  - destruct (lower_list k es) as [ts|]; [|discriminate].
    destruct (Nat.eqb (length xs) (length ts)); inversion Hc; subst.
    now apply tup_sets_top_ok, tup_gets_top_ok.
  - destruct (lower_list k args); inversion Hc; subst. exact Hn.
Qed.

Definition agree_below (n : nat) (rg' rg : nat -> Z) : Prop := forall r, (r < n)%nat -> rg' r = rg r.

(* ---- tuple assignment: registers base, base+1, ... hold the right-hand values *)
Fixpoint setregs (base : nat) (vs : list Z) (rg : nat -> Z) : nat -> Z :=
  match vs with [] => rg | v :: r => setregs (S base) r (updr rg base v) end.

Lemma setregs_below base vs rg q : (q < base)%nat -> setregs base vs rg q = rg q.
Proof.
  revert base rg. induction vs as [|v r IH]; intros base rg H; cbn [setregs]; [reflexivity|].
  rewrite IH by lia. unfold updr. now rewrite (proj2 (Nat.eqb_neq q base)) by lia.
Qed.

Lemma setregs_at base vs rg i v : nth_error vs i = Some v -> setregs base vs rg (base + i)%nat = v.
Proof.
  revert base rg i. induction vs as [|v0 r IH]; intros base rg i H; [destruct i; discriminate|].
  cbn [setregs]. destruct i as [|i]; cbn in H.
  - inversion H; subst. rewrite Nat.add_0_r. rewrite setregs_below by lia. unfold updr. now rewrite Nat.eqb_refl.
  - replace (base + S i)%nat with (S base + i)%nat by lia. now apply IH.
Qed.

Lemma tup_sets_runs ls env base ts vs (kn : pcode) v : forall rg,
  Forall2 (fun t x => eval_tree env t = ODone x) ts vs ->
  pruns ft ls env (setregs base vs rg) kn v -> pruns ft ls env rg (tup_sets base ts kn) v.
Proof.
  intros rg HF. revert base rg. induction HF as [|t x tr vr Ht _ IH]; intros base rg H; cbn [tup_sets setregs] in *.
  - exact H.
  - eapply R_set; [exact Ht|]. apply IH. exact H.
Qed.

Lemma tup_gets_runs ls base (kn : pcode) v rg : forall xs vs env env',
  pset_list xs vs env = Some env' ->
  (forall i x, nth_error vs i = Some x -> rg (base + i)%nat = x) ->
  pruns ft ls env' rg kn v -> pruns ft ls env rg (tup_gets base xs kn) v.
Proof.
  intros xs. revert base. induction xs as [|x xr IH]; intros base vs env env' Hs Hr H; destruct vs as [|v0 vr];
    cbn [pset_list tup_gets] in *; try discriminate.
  - inversion Hs; subst. exact H.
  - destruct (pset x v0 env) as [e1|] eqn:E1; [|discriminate].
    eapply R_get.
    + rewrite set_nth_pset. replace (rg base) with v0; [exact E1|].
      symmetry. rewrite <- (Nat.add_0_r base). now apply Hr.
    + eapply (IH (S base)); eauto. intros i y Hi. replace (S base + i)%nat with (base + S i)%nat by lia.
      now apply Hr.
Qed.

Variable fenv : nat -> option (nat * pstmt).
Variable k : lowcfg.
Hypothesis HS : sound_tabs k.
Hypothesis HF : fd_exact k.
(* the function table holds the compiled bodies of the module's functions *)
Hypothesis Hft : forall f nloc body, fenv f = Some (nloc, body) ->
  exists c, pcompile k 0 body KStuck KStuck KStuck = Some c /\ ft f = Some (nloc, c).

Lemma expr_ok env e v t : eval64 env e = Some v -> lower k e = Some t -> eval_tree env t = ODone v.
Proof. apply (lower_exact k env HS). apply fd_ok_all, HF. Qed.
Lemma cond_ok' env c bv t : evalc64 env c = Some bv -> lower_cond k c CYes CNo = Some t ->
  eval_ctree env t = ODone bv.
Proof.
  intros He Hl. rewrite (lower_cond_exact k env HS HF c CYes CNo t bv He Hl). destruct bv; reflexivity.
Qed.

Lemma exprs_ok env : forall es vs ts, eval64_list env es = Some vs -> lower_list k es = Some ts ->
  Forall2 (fun t x => eval_tree env t = ODone x) ts vs.
Proof.
  induction es as [|e r IH]; intros vs ts He Hl; cbn in He, Hl.
  - inversion He; inversion Hl; constructor.
  - destruct (eval64 env e) as [v0|] eqn:E0; [|discriminate].
    destruct (eval64_list env r) as [vr|]; [|discriminate].
    destruct (lower k e) as [t0|] eqn:L0; [|discriminate].
    destruct (lower_list k r) as [tr|]; [|discriminate]. inversion He; inversion Hl; subst.
    constructor; [eapply expr_ok; eauto | eauto].
Qed.

(* what the continuations must do after outcome [out] of a statement at depth d *)
Definition after (d : nat) (ls : list pcode) (rg : nat -> Z) (v : Z) (kn kb kc : pcode) (out : pout) : Prop :=
  match out with
  | PNormal e' => forall rg', agree_below (2 * d) rg' rg -> pruns ft ls e' rg' kn v
  | PBrk e' => forall rg', agree_below (2 * d) rg' rg -> pruns ft ls e' rg' kb v
  | PCnt e' => forall rg', agree_below (2 * d) rg' rg -> pruns ft ls e' rg' kc v
  | PRet x => v = x
  end.

Definition P (s : pstmt) (env : list Z) (out : pout) : Prop :=
  forall d kn kb kc c ls rg v, pcompile k d s kn kb kc = Some c -> length ls = d ->
    top_ok d kn -> top_ok d kb -> top_ok d kc ->
    after d ls rg v kn kb kc out -> pruns ft ls env rg c v.

Definition after0 (d : nat) (ls : list pcode) (rg : nat -> Z) (v : Z) (kn : pcode) (out : pout) : Prop :=
  match out with
  | PNormal e' => forall rg', agree_below (2 * d) rg' rg -> pruns ft ls e' rg' kn v
  | PRet x => v = x
  | _ => True          (* a for loop never ends with break / continue *)
  end.

(* at the head L of a for-loop whose phi holds i and whose bound register holds vb *)
Definition P0 (x : nat) (body : pstmt) (l : list Z) (env : list Z) (out : pout) : Prop :=
  forall d kn cb ls rg v i vb,
    pcompile k (S d) body (KInc (phi_reg d) (KBack d)) kn (KInc (phi_reg d) (KBack d)) = Some cb ->
    length ls = d -> top_ok d kn ->
    l = zrange_from i (Z.to_nat (vb - i)) -> in64 i = true -> in64 vb = true ->
    rg (phi_reg d) = i -> rg (bound_reg d) = vb ->
    after0 d ls rg v kn out ->
    let L := KRCJ Clt (RReg (phi_reg d)) (RReg (bound_reg d)) (KGet x (phi_reg d) cb) kn in
    pruns ft (ls ++ [L]) env rg L v.

Lemma after_trans d ls rg rg1 v kn kb kc out :
  agree_below (2 * d) rg1 rg -> after d ls rg v kn kb kc out -> after d ls rg1 v kn kb kc out.
Proof.
  intros Ha H. destruct out; cbn [after] in *; auto; intros rg' Hr; apply H; intros r Hlt;
    rewrite Hr by exact Hlt; now apply Ha.
Qed.

Theorem stmt_sim_all : (forall s env out, pexec fenv s env out -> P s env out).
Proof.
  apply (pexec_mut fenv P P0); unfold P, P0.
  - (* pass *) intros env d kn kb kc c ls rg v Hc Hl Hn Hb Hk Ha. cbn in Hc. inversion Hc; subst.
    apply Ha. intros r _. reflexivity.
  - (* assign *) intros env x e v0 env' He Hs d kn kb kc c ls rg v Hc Hl Hn Hb Hk Ha. cbn [pcompile] in Hc.
    destruct (lower k e) as [t|] eqn:Lt; inversion Hc; subst.
    eapply R_store; [eapply expr_ok; eauto | rewrite set_nth_pset; eassumption |].
    apply Ha. intros r _. reflexivity.
  - (* aug *) intros env x o e v0 env' He Hs d kn kb kc c ls rg v Hc Hl Hn Hb Hk Ha. cbn [pcompile] in Hc.
    destruct (lower k (PBin o (PVar x) e)) as [t|] eqn:Lt; inversion Hc; subst.
    eapply R_store; [eapply expr_ok; eauto | rewrite set_nth_pset; eassumption |].
    apply Ha. intros r _. reflexivity.
  - (* seq normal *) intros env a b e1 o _ IHa _ IHb d kn kb kc c ls rg v Hc Hl Hn Hb Hk Ha.
    cbn [pcompile] in Hc. destruct (pcompile k d b kn kb kc) as [cb|] eqn:H2; [|discriminate].
    eapply IHa; eauto using pcompile_top_ok. cbn [after]. intros rg' Hr.
    eapply IHb; eauto. eapply after_trans; eauto.
  - (* seq abrupt *) intros env a b o _ IHa Hno d kn kb kc c ls rg v Hc Hl Hn Hb Hk Ha.
    cbn [pcompile] in Hc. destruct (pcompile k d b kn kb kc) as [cb|] eqn:H2; [|discriminate].
    eapply IHa; eauto using pcompile_top_ok. destruct o; try discriminate; exact Ha.
  - (* if *) intros env c0 a b bv o Hcv _ IH d kn kb kc c ls rg v Hc Hl Hn Hb Hk Ha. cbn [pcompile] in Hc.
    destruct (lower_cond k c0 CYes CNo) as [t|] eqn:Lt; [|discriminate].
    destruct (pcompile k d a kn kb kc) as [ca|] eqn:H1; [|discriminate].
    destruct (pcompile k d b kn kb kc) as [cb|] eqn:H2; [|discriminate]. inversion Hc; subst.
    eapply graftc_runs; [eapply cond_ok'; eauto|]. destruct bv; eapply IH; eauto.
  - (* while false *) intros env c0 b Hcv d kn kb kc c ls rg v Hc Hl Hn Hb Hk Ha. cbn [pcompile] in Hc.
    destruct (lower_cond k c0 CYes CNo) as [t|] eqn:Lt; [|discriminate].
    destruct (pcompile k (S d) b (KBack d) kn (KBack d)) as [cb|] eqn:H1; [|discriminate].
    inversion Hc; subst. apply R_loop. rewrite firstn_all.
    eapply graftc_runs; [eapply cond_ok'; eauto|]. cbn. apply weaken; [|exact Hn].
    apply Ha. intros r _. reflexivity.
  - (* while step *) intros env c0 b o1 e1 o Hcv _ IHb Hcont _ IHw d kn kb kc c ls rg v Hc Hl Hn Hb Hk Ha.
    cbn [pcompile] in Hc.
    destruct (lower_cond k c0 CYes CNo) as [t|] eqn:Lt; [|discriminate].
    destruct (pcompile k (S d) b (KBack d) kn (KBack d)) as [cb|] eqn:H1; [|discriminate].
    inversion Hc; subst. set (L := graftc t cb kn).
    apply R_loop. rewrite firstn_all. eapply graftc_runs; [eapply cond_ok'; eauto|]. cbn.
    assert (BK : forall rg', agree_below (2 * S (length ls)) rg' rg ->
                 pruns ft (ls ++ [L]) e1 rg' (KBack (length ls)) v).
    { intros rg' Hr. eapply R_back.
      - rewrite nth_error_app2 by lia. rewrite Nat.sub_diag. reflexivity.
      - rewrite firstn_all2 by (rewrite app_length; cbn; lia).
        assert (RL : pruns ft ls e1 rg' (KLoop (length ls) L) v).
        { eapply (IHw (length ls) kn kb kc _ ls rg' v); auto.
          - cbn [pcompile]. rewrite Lt, H1. reflexivity.
          - eapply after_trans; eauto. intros r Hlt. apply Hr. lia. }
        apply runs_loop_inv in RL. rewrite firstn_all in RL. exact RL. }
    eapply IHb; eauto.
    + rewrite app_length. cbn. lia.
    + cbn [top_ok]. lia.
    + refine (top_ok_mono _ ft _ _ _ _ Hn); lia.
    + cbn [top_ok]. lia.
    + destruct o1; cbn in Hcont; inversion Hcont; subst; cbn [after]; exact BK.
  - (* while break *) intros env c0 b e1 Hcv _ IHb d kn kb kc c ls rg v Hc Hl Hn Hb Hk Ha.
    cbn [pcompile] in Hc.
    destruct (lower_cond k c0 CYes CNo) as [t|] eqn:Lt; [|discriminate].
    destruct (pcompile k (S d) b (KBack d) kn (KBack d)) as [cb|] eqn:H1; [|discriminate].
    inversion Hc; subst. apply R_loop. rewrite firstn_all.
    eapply graftc_runs; [eapply cond_ok'; eauto|]. cbn.
    eapply IHb; eauto.
    + rewrite app_length. cbn. lia.
    + cbn [top_ok]. lia.
    + refine (top_ok_mono _ ft _ _ _ _ Hn); lia.
    + cbn [top_ok]. lia.
    + cbn [after] in *. intros rg' Hr. apply weaken; [|exact Hn]. apply Ha. intros r Hlt. apply Hr. lia.
  - (* while return *) intros env c0 b v1 Hcv _ IHb d kn kb kc c ls rg v Hc Hl Hn Hb Hk Ha.
    cbn [pcompile] in Hc.
    destruct (lower_cond k c0 CYes CNo) as [t|] eqn:Lt; [|discriminate].
    destruct (pcompile k (S d) b (KBack d) kn (KBack d)) as [cb|] eqn:H1; [|discriminate].
    inversion Hc; subst. apply R_loop. rewrite firstn_all.
    eapply graftc_runs; [eapply cond_ok'; eauto|]. cbn.
    eapply IHb; eauto.
    + rewrite app_length. cbn. lia.
    + cbn [top_ok]. lia.
    + refine (top_ok_mono _ ft _ _ _ _ Hn); lia.
    + cbn [top_ok]. lia.
  - (* for *) intros env x a b body va vb o Ea Eb _ IH0 d kn kb kc c ls rg v Hc Hl Hn Hb Hk Ha.
    cbn [pcompile] in Hc.
    destruct (lower k a) as [ta|] eqn:La; [|discriminate].
    destruct (lower k b) as [tb|] eqn:Lb; [|discriminate].
    destruct (pcompile k (S d) body _ kn _) as [cb|] eqn:H1; [|discriminate]. inversion Hc; subst.
    eapply R_set; [exact (expr_ok env a va ta Ea La)|]. eapply R_set; [exact (expr_ok env b vb tb Eb Lb)|].
    apply R_loop. rewrite firstn_all.
    eapply (IH0 (length ls) kn cb ls _ v va vb); eauto using eval64_in64.
    + unfold updr. rewrite (proj2 (Nat.eqb_neq _ _)); [now rewrite Nat.eqb_refl|]. unfold phi_reg, bound_reg. lia.
    + unfold updr. now rewrite Nat.eqb_refl.
    + destruct o; cbn [after after0] in *; auto. intros rg' Hr. apply Ha. intros r Hlt.
      rewrite Hr by exact Hlt. unfold updr, phi_reg, bound_reg.
      rewrite (proj2 (Nat.eqb_neq r (S (2 * length ls)))) by lia.
      now rewrite (proj2 (Nat.eqb_neq r (2 * length ls))) by lia.
  - (* break *) intros env d kn kb kc c ls rg v Hc Hl Hn Hb Hk Ha. cbn in Hc. inversion Hc; subst.
    apply Ha. intros r _. reflexivity.
  - (* continue *) intros env d kn kb kc c ls rg v Hc Hl Hn Hb Hk Ha. cbn in Hc. inversion Hc; subst.
    apply Ha. intros r _. reflexivity.
  - (* return *) intros env e v0 He d kn kb kc c ls rg v Hc Hl Hn Hb Hk Ha. cbn [pcompile] in Hc.
    destruct (lower k e) as [t|] eqn:Lt; inversion Hc; subst. cbn [after] in Ha. subst.
    apply R_ret. eapply expr_ok; eauto.
  - (* tuple assignment *)
    intros env xs es vs env' He Hs d kn kb kc c ls rg v Hc Hl Hn Hb Hk Ha. cbn [pcompile] in Hc.
    destruct (lower_list k es) as [ts|] eqn:Lt; [|discriminate].
    destruct (Nat.eqb (length xs) (length ts)); inversion Hc; subst.
    eapply tup_sets_runs; [eapply exprs_ok; eauto|].
    eapply tup_gets_runs; [exact Hs | intros i x Hi; now apply setregs_at |].
    apply Ha. intros r Hlt. apply setregs_below. unfold phi_reg. exact Hlt.
  - (* call *)
    intros env x f args vs nloc body rv env' He Hf _ IHc Hs d kn kb kc c ls rg v Hc Hl Hn Hb Hk Ha.
    cbn [pcompile] in Hc. destruct (lower_list k args) as [ts|] eqn:Lt; inversion Hc; subst.
    destruct (Hft f nloc body Hf) as (cf & Hcf & Hfc).
    eapply R_call; [eapply exprs_ok; eauto | exact Hfc | | rewrite set_nth_pset; eassumption |].
    + eapply (IHc 0%nat KStuck KStuck KStuck cf [] (fun _ => 0) rv); cbn; auto.
    + apply Ha. intros r _. reflexivity.
  - (* for: range exhausted *)
    intros x body env d kn cb ls rg v i vb Hcb Hl Hn Hr Hi Hvb Hp Hbd Ha.
    set (L := KRCJ Clt (RReg (phi_reg d)) (RReg (bound_reg d)) (KGet x (phi_reg d) cb) kn).
    apply R_rcj. cbn [ropv eval_cond]. rewrite Hp, Hbd.
    destruct (Z.to_nat (vb - i)) eqn:En; [|discriminate].
    destruct (i <? vb) eqn:E; [lia|]. apply weaken; [|rewrite Hl; exact Hn]. apply Ha. intros r _. reflexivity.
  - (* for: one iteration, then the rest *)
    intros x body i r env e0 o1 e1 o Hset _ IHb Hcont _ IH0 d kn cb ls rg v i0 vb Hcb Hl Hn Hr Hi Hvb Hp Hbd Ha.
    set (L := KRCJ Clt (RReg (phi_reg d)) (RReg (bound_reg d)) (KGet x (phi_reg d) cb) kn).
    destruct (Z.to_nat (vb - i0)) as [|n'] eqn:En; [discriminate|]. cbn [zrange_from] in Hr.
    inversion Hr; subst i r. clear Hr.
    assert (Hlt : i0 < vb) by lia.
    assert (Hi1 : in64 (i0 + 1) = true) by (apply in64_spec; apply in64_spec in Hi, Hvb; lia).
    apply R_rcj. cbn [ropv eval_cond]. rewrite Hp, Hbd.
    destruct (i0 <? vb) eqn:E; [|lia].
    eapply R_get; [rewrite Hp, set_nth_pset; eassumption|].
    assert (INC : forall rg', agree_below (2 * S d) rg' rg ->
                  pruns ft (ls ++ [L]) e1 rg' (KInc (phi_reg d) (KBack d)) v).
    { intros rg' Hag. apply R_inc. eapply R_back.
      - rewrite nth_error_app2 by lia. rewrite Hl, Nat.sub_diag. reflexivity.
      - rewrite firstn_all2 by (rewrite app_length; cbn; lia).
        assert (Ephi : rg' (phi_reg d) = i0) by (rewrite Hag; [exact Hp | unfold phi_reg; lia]).
        assert (Ebd : rg' (bound_reg d) = vb) by (rewrite Hag; [exact Hbd | unfold bound_reg; lia]).
        rewrite Ephi. unfold wrap64. rewrite (wrap64_id _ Hi1).
        eapply (IH0 d kn cb ls _ v (i0 + 1) vb); eauto.
        + replace (Z.to_nat (vb - (i0 + 1))) with n' by lia. reflexivity.
        + unfold updr. now rewrite Nat.eqb_refl.
        + unfold updr. rewrite (proj2 (Nat.eqb_neq _ _)); [exact Ebd|]. unfold phi_reg, bound_reg. lia.
        + destruct o; cbn [after0] in *; auto. intros rg3 H3. apply Ha. intros q Hq. rewrite H3 by exact Hq.
          unfold updr. rewrite (proj2 (Nat.eqb_neq q (phi_reg d))) by (unfold phi_reg; lia).
          apply Hag. lia. }
    eapply (IHb (S d) (KInc (phi_reg d) (KBack d)) kn (KInc (phi_reg d) (KBack d)) cb (ls ++ [L]) rg v); eauto.
    + rewrite app_length. cbn. lia.
    + cbn [top_ok]. lia.
    + refine (top_ok_mono _ ft _ _ _ _ Hn); lia.
    + cbn [top_ok]. lia.
    + destruct o1; cbn in Hcont; inversion Hcont; subst; cbn [after]; exact INC.
  - (* for: break *)
    intros x body i r env e0 e1 Hset _ IHb d kn cb ls rg v i0 vb Hcb Hl Hn Hr Hi Hvb Hp Hbd Ha.
    set (L := KRCJ Clt (RReg (phi_reg d)) (RReg (bound_reg d)) (KGet x (phi_reg d) cb) kn).
    destruct (Z.to_nat (vb - i0)) as [|n'] eqn:En; [discriminate|]. cbn [zrange_from] in Hr.
    inversion Hr; subst i r. clear Hr.
    apply R_rcj. cbn [ropv eval_cond]. rewrite Hp, Hbd.
    destruct (i0 <? vb) eqn:E; [|lia].
    eapply R_get; [rewrite Hp, set_nth_pset; eassumption|].
    eapply (IHb (S d) (KInc (phi_reg d) (KBack d)) kn (KInc (phi_reg d) (KBack d)) cb (ls ++ [L]) rg v); eauto.
    + rewrite app_length. cbn. lia.
    + cbn [top_ok]. lia.
    + refine (top_ok_mono _ ft _ _ _ _ Hn); lia.
    + cbn [top_ok]. lia.
    + cbn [after after0] in *. intros rg' Hag. apply weaken; [|rewrite Hl; exact Hn]. apply Ha.
      intros q Hq. apply Hag. lia.
  - (* for: return *)
    intros x body i r env e0 v1 Hset _ IHb d kn cb ls rg v i0 vb Hcb Hl Hn Hr Hi Hvb Hp Hbd Ha.
    set (L := KRCJ Clt (RReg (phi_reg d)) (RReg (bound_reg d)) (KGet x (phi_reg d) cb) kn).
    destruct (Z.to_nat (vb - i0)) as [|n'] eqn:En; [discriminate|]. cbn [zrange_from] in Hr.
    inversion Hr; subst i r. clear Hr.
    apply R_rcj. cbn [ropv eval_cond]. rewrite Hp, Hbd.
    destruct (i0 <? vb) eqn:E; [|lia].
    eapply R_get; [rewrite Hp, set_nth_pset; eassumption|].
    eapply (IHb (S d) (KInc (phi_reg d) (KBack d)) kn (KInc (phi_reg d) (KBack d)) cb (ls ++ [L]) rg v); eauto.
    + rewrite app_length. cbn. lia.
    + cbn [top_ok]. lia.
    + refine (top_ok_mono _ ft _ _ _ _ Hn); lia.
    + cbn [top_ok]. lia.
Qed.
End WithFt.

(* whole function body: no enclosing loop, nothing after it *)
Theorem body_exact ft fenv k body env v c rg : sound_tabs k -> fd_exact k ->
  (forall f nloc b, fenv f = Some (nloc, b) ->
     exists cf, pcompile k 0 b KStuck KStuck KStuck = Some cf /\ ft f = Some (nloc, cf)) ->
  pexec fenv body env (PRet v) -> pcompile k 0 body KStuck KStuck KStuck = Some c ->
  pruns ft [] env rg c v.
Proof.
  intros HS HF Hft He Hc.
  eapply (stmt_sim_all ft fenv k HS HF Hft body env (PRet v) He 0%nat KStuck KStuck KStuck c [] rg v); cbn; auto.
Qed.

(* a module of functions calling each other (also recursively) *)
Lemma compile_funs_table k : forall funs cs, compile_funs k funs = Some cs ->
  forall f nloc b, nth_error funs f = Some (nloc, b) ->
  exists cf, pcompile k 0 b KStuck KStuck KStuck = Some cf /\ nth_error cs f = Some (nloc, cf).
Proof.
  induction funs as [|[n0 b0] r IH]; intros cs Hc f nloc b Hf; [destruct f; discriminate|].
  cbn [compile_funs] in Hc.
  destruct (pcompile k 0 b0 KStuck KStuck KStuck) as [c0|] eqn:H0; [|discriminate].
  destruct (compile_funs k r) as [cr|] eqn:Hr; [|discriminate]. inversion Hc; subst.
  destruct f as [|f]; cbn in Hf |- *.
  - inversion Hf; subst. eauto.
  - eapply IH; eauto.
Qed.

Theorem module_exact k funs cs main nloc body args v rg : sound_tabs k -> fd_exact k ->
  compile_funs k funs = Some cs -> nth_error funs main = Some (nloc, body) ->
  pexec (nth_error funs) body (args ++ repeat 0 nloc) (PRet v) ->
  exists c, nth_error cs main = Some (nloc, c) /\
            pruns (nth_error cs) [] (args ++ repeat 0 nloc) rg c v.
Proof.
  intros HS HF Hc Hm He.
  destruct (compile_funs_table k funs cs Hc main nloc body Hm) as (c & Hpc & Hn).
  exists c. split; [exact Hn|].
  eapply (body_exact (nth_error cs) (nth_error funs) k); eauto using compile_funs_table.
Qed.

(* ---- an inhabitant of the hypotheses (Props/C36.v c36_stmt_nonvacuous) *)
(* def f(a, s, i): s = 0; for i in range(0, a): { if i == 1: continue ; s = s + i } ; return s // 2 *)
Definition ex36_body : pstmt :=
  PSSeq (PSAssign 1 (PConst 0))
  (PSSeq (PSFor 2 (PConst 0) (PVar 0)
            (PSSeq (PSIf (PCmp PEq (PVar 2) (PConst 1)) PSContinue PSPass)
                   (PSAssign 1 (PBin PAdd (PVar 1) (PVar 2)))))
         (PSRet (PBin PFloorDiv (PVar 1) (PConst 2)))).
Local Ltac ev := first [ reflexivity | vm_compute; reflexivity ].
Lemma ex36_run : pexec (fun _ => None) ex36_body [3; 7; 9] (PRet 1).
Proof.
  unfold ex36_body.
  eapply E_seq_n. { eapply E_assign; ev. }
  eapply E_seq_n.
  { eapply E_for; try ev. vm_compute py_range.
    eapply F_step; [ev | eapply E_seq_n; [eapply E_if; [ev|]; cbn; apply E_pass | eapply E_assign; ev] | ev |].
    eapply F_step; [ev | eapply E_seq_x; [eapply E_if; [ev|]; cbn; apply E_continue | reflexivity] | ev |].
    eapply F_step; [ev | eapply E_seq_n; [eapply E_if; [ev|]; cbn; apply E_pass | eapply E_assign; ev] | ev |].
    apply F_done. }
  eapply E_ret. ev.
Qed.

Definition ex36_f0 : nat * pstmt := (0%nat, PSRet (PBin PMult (PVar 0) (PConst 2))).
Definition ex36_main : nat * pstmt :=
  (1%nat, PSSeq (PSCall 1 0 [PBin PAdd (PVar 0) (PConst 1)]) (PSRet (PVar 1))).
Definition ex36_funs := [ex36_f0; ex36_main].
Lemma ex36_module_run : pexec (nth_error ex36_funs) (snd ex36_main) ([4] ++ repeat 0 1%nat) (PRet 10).
Proof.
  cbn. eapply E_seq_n.
  - eapply E_call; [ev | reflexivity | cbn; eapply E_ret; ev | ev].
  - eapply E_ret. ev.
Qed.
