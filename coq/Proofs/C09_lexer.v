(* Proofs/C09_lexer.v — the model lexer splits the printed TEXT of a well-formed syntax into exactly the tokens of the
   token-level render (maximal munch per token class), and integer printing/reading round-trips. *)
From PV Require Import Lib.Py Model.AsmSyntax Proofs.C09_syntax.
From PV Require Import Model.AsmLexer.
From Coq Require Import String Ascii Lia DecimalString DecimalZ DecimalPos DecimalN.
Open Scope Z_scope.

(* ---------------------------------------------------------------- character classes (256-case enumeration) *)
Ltac all_ascii c := destruct c as [[] [] [] [] [] [] [] []].

Lemma alpha_facts : forall c, is_alpha_ c = true -> is_idchar c = true.
Proof. intros c H. unfold is_idchar. rewrite H. reflexivity. Qed.

Lemma digit_facts : forall c, is_digit c = true -> is_alpha_ c = false /\ is_idchar c = true.
Proof. intros c; all_ascii c; vm_compute; intros H; try discriminate H; split; reflexivity. Qed.

Lemma nonid_facts : forall c, is_idchar c = false ->
  is_alpha_ c = false /\ is_digit c = false /\ Ascii.eqb c "b" = false /\ Ascii.eqb c "x" = false /\ is_bin c = false.
Proof. intros c; all_ascii c; vm_compute; intros H; try discriminate H; repeat split; reflexivity. Qed.

Lemma glyph_facts : forall c, char_in c glyph_chars = true ->
  is_idchar c = false /\ is_space c = false /\ Ascii.eqb c "$" = false.
Proof. intros c; all_ascii c; vm_compute; intros H; try discriminate H; repeat split; reflexivity. Qed.

Lemma space_facts : is_idchar " " = false /\ is_space " " = true /\ Ascii.eqb " " "%" = false /\ Ascii.eqb " " "$" = false.
Proof. vm_compute. repeat split; reflexivity. Qed.

(* ---------------------------------------------------------------- take_while *)
Fixpoint string_forall (p : ascii -> bool) (s : string) : bool :=
  match s with EmptyString => true | String c r => (p c && string_forall p r)%bool end.

Lemma take_while_app : forall p t r, string_forall p t = true -> starts_with p r = false ->
  take_while p (t ++ r) = (t, r).
Proof.
  induction t as [|c t IH]; intros r Ht Hr.
  - cbn. destruct r as [|d r]; [reflexivity|]. cbn in Hr. cbn. rewrite Hr. reflexivity.
  - cbn in Ht. apply andb_true_iff in Ht. destruct Ht as [Hc Ht]. cbn. rewrite Hc. rewrite (IH r Ht Hr). reflexivity.
Qed.

Lemma all_idchar_forall : forall s, all_idchar s = true -> string_forall is_idchar s = true.
Proof. induction s as [|c s IH]; cbn; intros H; [reflexivity|]. apply andb_true_iff in H. destruct H as [A B].
  unfold is_idchar. rewrite A. cbn. apply IH. exact B. Qed.

(* what follows a word or a number must not continue it *)
Definition nw (s : string) : bool := negb (starts_with is_idchar s).
Definition nodot (s : string) : bool := negb (starts_with (fun c => Ascii.eqb c ".") s).

Lemma nw_not_digit : forall s, nw s = true -> starts_with is_digit s = false.
Proof. intros [|c s]; cbn; [reflexivity|]. unfold nw. cbn. intros H. apply negb_true_iff in H.
  destruct (nonid_facts c H) as (_ & D & _). exact D. Qed.

Lemma lex_step_ident : forall w tr, is_ident w = true -> nw tr = true ->
  lex_step (w ++ tr) = Some (Some (TWord w), tr).
Proof.
  intros [|c w] tr Hi Hn; [discriminate|]. cbn in Hi. apply andb_true_iff in Hi. destruct Hi as [Ha Hw].
  assert (T : take_while is_idchar (String c w ++ tr) = (String c w, tr)).
  { apply take_while_app.
    - cbn. rewrite (alpha_facts c Ha). apply all_idchar_forall. exact Hw.
    - unfold nw in Hn. apply negb_true_iff in Hn. exact Hn. }
  change ((String c w ++ tr)%string) with (String c (w ++ tr)) in *.
  unfold lex_step. rewrite Ha. rewrite T. reflexivity.
Qed.

(* ---------------------------------------------------------------- decimal numbers *)
Lemma uint_digits : forall u, string_forall is_digit (NilEmpty.string_of_uint u) = true.
Proof. induction u; cbn; try reflexivity; exact IHu. Qed.

Lemma uint_nonempty : forall u, u <> Decimal.Nil ->
  exists c t, NilZero.string_of_uint u = String c t /\ is_digit c = true /\ string_forall is_digit t = true.
Proof.
  intros u Hu. destruct u; try congruence; cbn; eexists; eexists; (split; [reflexivity|split; [reflexivity|apply uint_digits]]).
Qed.

Lemma lex_step_number : forall u tr, u <> Decimal.Nil -> nw tr = true -> nodot tr = true ->
  lex_step (NilZero.string_of_uint u ++ tr) = Some (Some (TNum (Z.of_uint u)), tr).
Proof.
  intros u tr Hu Hn Hd.
  destruct (uint_nonempty u Hu) as (c & t & E & Hc & Ht).
  assert (T : take_while is_digit (NilZero.string_of_uint u ++ tr) = (NilZero.string_of_uint u, tr)).
  { apply take_while_app; [rewrite E; cbn; rewrite Hc; exact Ht | apply nw_not_digit; exact Hn]. }
  assert (V : dec_val (NilZero.string_of_uint u) = Z.of_uint u).
  { unfold dec_val. rewrite (NilZero.usu u Hu). reflexivity. }
  rewrite E in *. change ((String c t ++ tr)%string) with (String c (t ++ tr)) in *.
  unfold lex_step. destruct (digit_facts c Hc) as [Na _]. rewrite Na, Hc. rewrite T.
  destruct tr as [|d tr'].
  - rewrite !andb_false_r. rewrite V. reflexivity.
  - unfold nw in Hn. cbn in Hn. apply negb_true_iff in Hn. destruct (nonid_facts d Hn) as (_ & _ & Nb & Nx & _).
    unfold nodot in Hd. cbn in Hd. apply negb_true_iff in Hd. rewrite Hd, Nb, Nx. cbn [andb].
    rewrite !andb_false_r. rewrite V. reflexivity.
Qed.

(* print_number: "-" and the digits of |z| *)
Lemma print_number_nonneg : forall z, 0 <= z ->
  exists u, u <> Decimal.Nil /\ print_number z = NilZero.string_of_uint u /\ Z.of_uint u = z.
Proof.
  intros z Hz. unfold print_number. destruct z as [|p|p]; [| |lia].
  - exists (Decimal.D0 Decimal.Nil). repeat split; congruence.
  - exists (Pos.to_uint p). split; [apply Unsigned.to_uint_nonnil|]. split; [reflexivity|].
    pose proof (DecimalZ.of_to (Z.pos p)) as H. cbn in H. exact H.
Qed.

Lemma print_number_neg : forall z, z < 0 ->
  exists u, u <> Decimal.Nil /\ print_number z = String "-" (NilZero.string_of_uint u) /\ Z.of_uint u = - z.
Proof.
  intros z Hz. unfold print_number. destruct z as [|p|p]; [lia|lia|].
  exists (Pos.to_uint p). split; [apply Unsigned.to_uint_nonnil|]. split; [reflexivity|].
  pose proof (DecimalZ.of_to (Z.neg p)) as H. cbn in H. cbn. lia.
Qed.

Lemma alpha_not_bin : forall c, is_alpha_ c = true -> is_bin c = false.
Proof. intros c; all_ascii c; vm_compute; intros H; try discriminate H; reflexivity. Qed.

Lemma length_app : forall a b, String.length (a ++ b) = (String.length a + String.length b)%nat.
Proof. induction a; intros b; cbn; [reflexivity|]. rewrite IHa. reflexivity. Qed.

Lemma ident_head : forall w, is_ident w = true -> exists c t, w = String c t /\ is_alpha_ c = true.
Proof. intros [|c t] H; [discriminate|]. cbn in H. apply andb_true_iff in H. destruct H as [A _]. eauto. Qed.

Section Lex.
Variable regs : list regclass.

Lemma reg_name_ident : forall c k nm x, text_atom_ok regs (AReg c) = true ->
  nth_error (rc_regs (rc_at regs c)) k = Some (nm, x) -> is_ident nm = true.
Proof.
  cbn. intros c k nm x H Hn. rewrite forallb_forall in H. apply (H (nm, x)). eapply nth_error_In; eauto.
Qed.

Lemma print_number_head : forall z, exists c t, print_number z = String c t /\ (is_digit c = true \/ c = "-"%char).
Proof.
  intros z. destruct (Z.ltb_spec z 0) as [H|H].
  - destruct (print_number_neg z H) as (u & _ & E & _). rewrite E. eauto.
  - destruct (print_number_nonneg z H) as (u & Hu & E & _). rewrite E.
    destruct (uint_nonempty u Hu) as (c & t & E2 & Hc & _). rewrite E2. eauto.
Qed.

(* first character of the printed text, by the first syntax element *)
Lemma text_head : forall r ops tr,
  forallb (text_atom_ok regs) r = true -> ops_text_ok ops = true -> render_text regs r ops = Some tr ->
  match r with
  | [] => tr = EmptyString
  | ASp :: _ => exists t, tr = String " " t
  | AGl g :: _ => exists c t, g = String c EmptyString /\ char_in c glyph_chars = true /\ tr = String c t
  | AImm :: _ => exists c t, tr = String c t /\ (is_digit c = true \/ c = "-"%char)
  | AOther :: _ => False
  | _ :: _ => exists c t, tr = String c t /\ is_alpha_ c = true
  end.
Proof.
  intros r ops tr Hw Ho Hr. destruct r as [|a r].
  - cbn in Hr. destruct ops; inversion Hr. reflexivity.
  - cbn [forallb] in Hw. apply andb_true_iff in Hw. destruct Hw as [Ha _].
    cbn [render_text] in Hr. destruct (atom_text regs a ops) as [[t ops']|] eqn:E; [|discriminate].
    destruct (render_text regs r ops') as [t'|]; [|discriminate]. inversion Hr; subst tr. clear Hr.
    destruct a; cbn [atom_text] in E.
    + inversion E. eexists. reflexivity.
    + inversion E; subst. cbn in Ha. destruct (ident_head _ Ha) as (c & t0 & E1 & A). subst. cbn. eauto.
    + inversion E; subst. cbn in Ha. unfold glyph_ok in Ha. destruct t as [|c [|d t]]; try discriminate. cbn. eauto 6.
    + destruct ops as [|[k|z|s] ops0]; try discriminate.
      destruct (nth_error (rc_regs (rc_at regs c)) k) as [[nm x]|] eqn:Hn; [|discriminate]. inversion E; subst.
      destruct (ident_head _ (reg_name_ident c k t x Ha Hn)) as (c0 & t0 & E1 & A). subst. cbn. eauto.
    + destruct ops as [|[k|z|s] ops0]; try discriminate. inversion E; subst.
      destruct (print_number_head z) as (c & t0 & E1 & A). rewrite E1. cbn. eauto.
    + destruct ops as [|[k|z|s] ops0]; try discriminate. inversion E; subst.
      cbn in Ho. apply andb_true_iff in Ho. destruct Ho as [Hs _].
      destruct (ident_head _ Hs) as (c & t0 & E1 & A). subst. cbn. eauto.
    + discriminate.
Qed.

(* what the glue conditions give about the text that follows an element *)
Lemma follow_facts : forall a r ops tr,
  glue_ok (a :: r) = true -> forallb (text_atom_ok regs) r = true -> ops_text_ok ops = true ->
  render_text regs r ops = Some tr ->
  (wordish a = true -> nw tr = true) /\ (a = AImm -> nodot tr = true) /\
  (forall g, a = AGl g -> String.eqb g "%" = true -> starts_with is_bin tr = false).
Proof.
  intros a r ops tr Hg Hw Ho Hr. pose proof (text_head r ops tr Hw Ho Hr) as H.
  destruct r as [|b r'].
  - subst tr. repeat split; intros; reflexivity.
  - cbn [glue_ok] in Hg. apply andb_true_iff in Hg. destruct Hg as [Hg _]. apply negb_true_iff in Hg.
    destruct b.
    + destruct H as (t & E). subst tr. repeat split; intros; reflexivity.
    + destruct H as (c & t & E & A). subst tr. split; [|split].
      * intros Wa. destruct a; cbn in Wa; try discriminate; cbn in Hg; discriminate.
      * intros E; subst a. cbn in Hg. discriminate.
      * intros g E _. cbn. apply alpha_not_bin. exact A.
    + destruct H as (c & t & E & G & E2). subst tr g. destruct (glyph_facts c G) as (NI & _ & _).
      destruct (nonid_facts c NI) as (_ & _ & _ & _ & NB). split; [|split].
      * intros _. unfold nw. cbn. rewrite NI. reflexivity.
      * intros E; subst a. cbn in Hg. unfold nodot. cbn.
        destruct (Ascii.eqb c ".") eqn:Ec; [|reflexivity]. apply Ascii.eqb_eq in Ec. subst c. discriminate Hg.
      * intros g E _. cbn. exact NB.
    + destruct H as (c0 & t & E & A). subst tr. split; [|split].
      * intros Wa. destruct a; cbn in Wa; try discriminate; cbn in Hg; discriminate.
      * intros E; subst a. cbn in Hg. discriminate.
      * intros g E _. cbn. apply alpha_not_bin. exact A.
    + destruct H as (c & t & E & A). subst tr. split; [|split].
      * intros Wa. destruct a; cbn in Wa; try discriminate; cbn in Hg; discriminate.
      * intros E; subst a. cbn in Hg. discriminate.
      * intros g E Eg. subst a. cbn in Hg. rewrite Eg in Hg. discriminate.
    + destruct H as (c & t & E & A). subst tr. split; [|split].
      * intros Wa. destruct a; cbn in Wa; try discriminate; cbn in Hg; discriminate.
      * intros E; subst a. cbn in Hg. discriminate.
      * intros g E _. cbn. apply alpha_not_bin. exact A.
    + contradiction.
Qed.

Lemma lex_step_glyph : forall c tr, char_in c glyph_chars = true ->
  (Ascii.eqb c "%" = true -> starts_with is_bin tr = false) ->
  lex_step (String c tr) = Some (Some (TGlyph (String c EmptyString)), tr).
Proof.
  intros c tr G Hb. destruct (glyph_facts c G) as (NI & NS & ND). destruct (nonid_facts c NI) as (NA & NDg & _).
  unfold lex_step. rewrite NA, NDg, ND, NS, G.
  destruct (Ascii.eqb c "%") eqn:E; [rewrite (Hb eq_refl)|]; reflexivity.
Qed.

Lemma lex_fuel_step : forall n c s ot r ts, lex_step (String c s) = Some (ot, r) -> lex_fuel n r = Some ts ->
  lex_fuel (S n) (String c s) = Some (match ot with Some t => t :: ts | None => ts end).
Proof. intros n c s ot r ts H1 H2. cbn [lex_fuel]. rewrite H1, H2. reflexivity. Qed.

Theorem lex_render_fuel : forall syn ops txt toks n,
  forallb (text_atom_ok regs) syn = true -> glue_ok syn = true -> ops_text_ok ops = true ->
  render_text regs syn ops = Some txt -> render regs syn ops = Some toks ->
  (String.length txt < n)%nat -> lex_fuel n txt = Some toks.
Proof.
  induction syn as [|a r IH]; intros ops txt toks n Hw Hg Ho Ht Hr Hn.
  - cbn in Ht, Hr. destruct ops; [|discriminate]. inversion Ht; inversion Hr; subst.
    destruct n; [cbn in Hn; lia|]. reflexivity.
  - assert (Hg' : glue_ok r = true).
    { destruct r as [|b r']; [reflexivity|]. cbn [glue_ok] in Hg. apply andb_true_iff in Hg. apply Hg. }
    pose proof Hw as Hw0. cbn [forallb] in Hw. apply andb_true_iff in Hw. destruct Hw as [Ha Hw].
    cbn [render_text] in Ht. destruct (atom_text regs a ops) as [[ta ops1]|] eqn:Ea; [|discriminate].
    destruct (render_text regs r ops1) as [tr|] eqn:Etr; [|discriminate]. inversion Ht; subst txt. clear Ht.
    cbn [render] in Hr. destruct (render_atom regs a ops) as [[ts ops2]|] eqn:Er; [|discriminate].
    destruct (render regs r ops2) as [toks'|] eqn:Etk; [|discriminate]. inversion Hr; subst toks. clear Hr.
    rewrite length_app in Hn.
    destruct a; cbn [atom_text] in Ea; cbn [render_atom] in Er.
    + (* whitespace *)
      inversion Ea; inversion Er; subst. destruct n; [lia|]. cbn in Hn.
      change ((" " ++ tr)%string) with (String " " tr).
      apply (lex_fuel_step n " "%char tr None tr toks'); [reflexivity|].
      apply (IH ops2 tr toks' n); auto. lia.
    + (* literal word *)
      inversion Ea; inversion Er; subst. destruct (follow_facts _ _ _ _ Hg Hw Ho Etr) as (F1 & _ & _).
      cbn in Ha. destruct (ident_head _ Ha) as (c & t0 & E1 & A). subst ta. destruct n; [lia|]. cbn in Hn.
      change ((String c t0 ++ tr)%string) with (String c (t0 ++ tr)).
      apply (lex_fuel_step n c (t0 ++ tr) (Some (TWord (String c t0))) tr toks').
      * apply (lex_step_ident (String c t0) tr Ha (F1 eq_refl)).
      * apply (IH ops2 tr toks' n); auto. lia.
    + (* glyph *)
      inversion Ea; inversion Er; subst. destruct (follow_facts _ _ _ _ Hg Hw Ho Etr) as (_ & _ & F3).
      cbn in Ha. unfold glyph_ok in Ha. destruct ta as [|c [|d t]]; try discriminate.
      destruct n; [lia|]. cbn in Hn. change ((String c "" ++ tr)%string) with (String c tr).
      apply (lex_fuel_step n c tr (Some (TGlyph (String c ""))) tr toks').
      * apply lex_step_glyph; [exact Ha|]. intros E. apply (F3 _ eq_refl). cbn. rewrite E. reflexivity.
      * apply (IH ops2 tr toks' n); auto. lia.
    + (* register *)
      destruct ops as [|[k|z|s] ops0]; try discriminate.
      destruct (nth_error (rc_regs (rc_at regs c)) k) as [[nm x]|] eqn:Hnth; [|discriminate].
      inversion Ea; inversion Er; subst.
      assert (Ho2 : ops_text_ok ops2 = true) by (cbn in Ho; exact Ho).
      destruct (follow_facts _ _ _ _ Hg Hw Ho2 Etr) as (F1 & _ & _).
      pose proof (reg_name_ident c k ta x Ha Hnth) as Hid.
      destruct (ident_head _ Hid) as (c0 & t0 & E1 & A). subst ta. destruct n; [lia|]. cbn in Hn.
      change ((String c0 t0 ++ tr)%string) with (String c0 (t0 ++ tr)).
      apply (lex_fuel_step n c0 (t0 ++ tr) (Some (TWord (String c0 t0))) tr toks').
      * apply (lex_step_ident (String c0 t0) tr Hid (F1 eq_refl)).
      * apply (IH ops2 tr toks' n); auto. lia.
    + (* integer *)
      destruct ops as [|[k|z|s] ops0]; try discriminate. inversion Ea; inversion Er; subst.
      assert (Ho2 : ops_text_ok ops2 = true) by (cbn in Ho; exact Ho).
      destruct (follow_facts _ _ _ _ Hg Hw Ho2 Etr) as (F1 & F2 & _).
      pose proof (F1 eq_refl) as Nw. pose proof (F2 eq_refl) as Nd.
      destruct (Z.ltb_spec z 0) as [Hz|Hz].
      * destruct (print_number_neg z Hz) as (u & Hu & E & V). rewrite E in *.
        destruct (uint_nonempty u Hu) as (c & t0 & E2 & Hc & _).
        destruct n; [lia|]. cbn in Hn.
        change ((String "-" (NilZero.string_of_uint u) ++ tr)%string) with (String "-" (NilZero.string_of_uint u ++ tr)).
        apply (lex_fuel_step n "-"%char _ (Some (TGlyph "-")) (NilZero.string_of_uint u ++ tr) (TNum (- z) :: toks')).
        -- apply lex_step_glyph; [reflexivity|]. intros Ex. discriminate Ex.
        -- pose proof (lex_step_number u tr Hu Nw Nd) as LS. rewrite E2 in *.
           destruct n; [cbn in Hn; lia|]. cbn in Hn.
           change ((String c t0 ++ tr)%string) with (String c (t0 ++ tr)) in *.
           rewrite <- V.
           apply (lex_fuel_step n c (t0 ++ tr) (Some (TNum (Z.of_uint u))) tr toks' LS).
           apply (IH ops2 tr toks' n); auto. lia.
      * destruct (print_number_nonneg z Hz) as (u & Hu & E & V). rewrite E in *.
        destruct (uint_nonempty u Hu) as (c & t0 & E2 & Hc & _).
        pose proof (lex_step_number u tr Hu Nw Nd) as LS. rewrite E2 in *.
        destruct n; [lia|]. cbn in Hn.
        change ((String c t0 ++ tr)%string) with (String c (t0 ++ tr)) in *.
        rewrite <- V.
        apply (lex_fuel_step n c (t0 ++ tr) (Some (TNum (Z.of_uint u))) tr toks' LS).
        apply (IH ops2 tr toks' n); auto. lia.
    + (* label *)
      destruct ops as [|[k|z|s] ops0]; try discriminate. inversion Ea; inversion Er; subst.
      cbn in Ho. apply andb_true_iff in Ho. destruct Ho as [Hid Ho].
      destruct (follow_facts _ _ _ _ Hg Hw Ho Etr) as (F1 & _ & _).
      destruct (ident_head _ Hid) as (c0 & t0 & E1 & A). subst ta. destruct n; [lia|]. cbn in Hn.
      change ((String c0 t0 ++ tr)%string) with (String c0 (t0 ++ tr)).
      apply (lex_fuel_step n c0 (t0 ++ tr) (Some (TWord (String c0 t0))) tr toks').
      * apply (lex_step_ident (String c0 t0) tr Hid (F1 eq_refl)).
      * apply (IH ops2 tr toks' n); auto. lia.
    + discriminate.
Qed.

End Lex.

Lemma append_nil_r : forall s : string, (s ++ "")%string = s.
Proof. induction s; cbn; [reflexivity|]. rewrite IHs. reflexivity. Qed.

Theorem lex_render : forall regs syn ops txt toks,
  forallb (text_atom_ok regs) syn = true -> glue_ok syn = true -> ops_text_ok ops = true ->
  render_text regs syn ops = Some txt -> render regs syn ops = Some toks -> lex txt = Some toks.
Proof. intros. unfold lex. eapply lex_render_fuel; eauto. Qed.

(* integer printing / reading *)
Theorem int_text_roundtrip : forall z, parse_number (print_number z) = Some z.
Proof.
  intros z. unfold parse_number.
  assert (L : lex (print_number z) = Some (if z <? 0 then [TGlyph "-"; TNum (- z)] else [TNum z])).
  { apply (lex_render [] [AImm] [VImm z]); try reflexivity.
    - cbn. rewrite append_nil_r. reflexivity.
    - cbn. rewrite app_nil_r. reflexivity. }
  rewrite L. destruct (z <? 0).
  - cbn. rewrite Z.opp_involutive. reflexivity.
  - reflexivity.
Qed.

(* ---------------------------------------------------------------- from text to (class, operands) *)
Lemma ops_ok_text : forall kws regs rule ops, ops_ok kws regs rule ops = true -> ops_text_ok ops = true.
Proof.
  induction rule as [|a r IH]; intros ops H.
  - destruct ops; [reflexivity|discriminate].
  - destruct a; cbn [ops_ok] in H; try (apply IH; exact H); try discriminate.
    + destruct ops as [|[k|z|s] o]; try discriminate. apply andb_true_iff in H. destruct H as [_ H]. cbn. apply IH. exact H.
    + destruct ops as [|[k|z|s] o]; try discriminate. cbn. apply IH. exact H.
    + destruct ops as [|[k|z|s] o]; try discriminate. apply andb_true_iff in H. destruct H as [L H].
      unfold label_ok in L. apply andb_true_iff in L. destruct L as [L _]. cbn. rewrite L. apply IH. exact H.
Qed.

(* the model assembler front end: lex the line, try every production *)
Definition parse_model (kwl : bool) (kws : list string) (regs : list regclass) (l : list sentry) (txt : string)
  : option (list (nat * list opv)) :=
  match lex txt with
  | Some toks => Some (matching_from kwl kws regs 0 l toks)
  | None => None
  end.

Lemma matching_from_unique : forall kwl kws regs toks ops l k i,
  (i < List.length l)%nat ->
  matches kwl kws regs (s_rule (nth i l dflt)) toks = Some ops ->
  (forall j, (j < List.length l)%nat -> j <> i -> matches kwl kws regs (s_rule (nth j l dflt)) toks = None) ->
  matching_from kwl kws regs k l toks = [((k + i)%nat, ops)].
Proof.
  induction l as [|e l IH]; intros k i Hi Hm Ho; [cbn in Hi; lia|].
  cbn [matching_from]. destruct i as [|i].
  - cbn [nth] in Hm. rewrite Hm. replace (k + 0)%nat with k by lia. f_equal.
    assert (N : forall m, matching_from kwl kws regs m l toks = [] ).
    { assert (Hall : forall j, (j < List.length l)%nat -> matches kwl kws regs (s_rule (nth j l dflt)) toks = None).
      { intros j Hj. apply (Ho (S j)); [cbn; lia|lia]. }
      clear - Hall. induction l as [|x l IHl]; intros m; [reflexivity|]. cbn [matching_from].
      assert (H0 : matches kwl kws regs (s_rule (nth 0 (x :: l) dflt)) toks = None) by (apply Hall; cbn; lia).
      cbn [nth] in H0. rewrite H0. apply IHl. intros j Hj. apply (Hall (S j)). cbn. lia. }
    apply N.
  - assert (H0 : matches kwl kws regs (s_rule (nth 0 (e :: l) dflt)) toks = None) by (apply Ho; [cbn; lia|lia]).
    cbn [nth] in H0. rewrite H0. cbn [nth] in Hm. cbn [List.length] in Hi.
    replace (k + S i)%nat with (S k + i)%nat by lia. apply IH; [lia|exact Hm|].
    intros j Hj Hne. apply (Ho (S j)); [cbn; lia|lia].
Qed.

Section TextTable.
Variable kwl : bool.
Variables (kws : list string) (regs : list regclass) (stab extra nonwf : list sentry) (amb : list (nat * nat)).
Hypothesis TF : table_facts kws regs stab extra nonwf amb.
Hypothesis TX : forallb (text_entry_ok regs) stab = true.

(* str(ins) of a non-ambiguous class variant is lexed and recognised as exactly (that variant, its operands) *)
Theorem text_roundtrip : forall i ops,
  (i < List.length stab)%nat -> in_pairs i amb = false ->
  ops_ok kws regs (s_rule (entry_at stab i)) ops = true ->
  exists txt, render_text regs (s_syn (entry_at stab i)) ops = Some txt /\
              parse_model kwl kws regs (stab ++ extra) txt = Some [(i, ops)].
Proof.
  intros i ops Hi Hamb Ho.
  destruct (table_render_matches kwl kws regs stab extra nonwf amb TF i ops Hi Ho) as (toks & R & M).
  pose proof (stab_wf kws regs stab extra nonwf amb TF i Hi) as Hwf. unfold wf_entry in Hwf.
  apply andb_true_iff in Hwf. destruct Hwf as [Hwf _]. apply andb_true_iff in Hwf. destruct Hwf as [_ Hglue].
  assert (Htx : forallb (text_atom_ok regs) (s_syn (entry_at stab i)) = true).
  { rewrite forallb_forall in TX. apply (TX (entry_at stab i)). apply nth_In. exact Hi. }
  pose proof (ops_ok_text _ _ _ _ Ho) as Hot.
  (* the text exists because the token-level render does *)
  assert (Ex : exists txt, render_text regs (s_syn (entry_at stab i)) ops = Some txt).
  { clear - R. revert ops toks R. induction (s_syn (entry_at stab i)) as [|a r IH]; intros ops toks R.
    - cbn in *. destruct ops; [eauto|discriminate].
    - cbn [render] in R. cbn [render_text].
      destruct (render_atom regs a ops) as [[ts o']|] eqn:E; [|discriminate].
      destruct (render regs r o') as [t'|] eqn:E2; [|discriminate].
      assert (exists ta, atom_text regs a ops = Some (ta, o')) as [ta Ea].
      { destruct a; cbn in E |- *; try (inversion E; eauto; fail).
        - destruct ops as [|[k|z|s] o]; try discriminate.
          destruct (nth_error (rc_regs (rc_at regs c)) k) as [[nm x]|]; inversion E; eauto.
        - destruct ops as [|[k|z|s] o]; try discriminate. inversion E; eauto.
        - destruct ops as [|[k|z|s] o]; try discriminate. inversion E; eauto. }
      rewrite Ea. destruct (IH o' t' E2) as [t2 Et2]. rewrite Et2. eauto. }
  destruct Ex as [txt Etxt]. exists txt. split; [exact Etxt|].
  unfold parse_model. rewrite (lex_render regs _ ops txt toks Htx Hglue Hot Etxt R).
  f_equal. assert (Ei : entry_at (stab ++ extra) i = entry_at stab i) by (unfold entry_at; apply app_nth1; exact Hi).
  apply (matching_from_unique kwl kws regs toks ops (stab ++ extra) 0 i).
  - rewrite app_length. lia.
  - change (nth i (stab ++ extra) dflt) with (entry_at (stab ++ extra) i). rewrite Ei. exact M.
  - intros j Hj Hne. change (nth j (stab ++ extra) dflt) with (entry_at (stab ++ extra) j).
    apply (table_unambiguous kwl kws regs stab extra nonwf amb TF i j ops toks); auto.
Qed.

End TextTable.
