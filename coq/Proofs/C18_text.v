(* Proofs/C18_text.v — shape of the text lines written by HexFile.save: ':' followed only by lower-case
   hex digits, at most 71 characters (the format allows 1 + 2 * 260 = 521). *)
From PV Require Import Lib.Py Lib.Tac Spec.IhexSpec Model.Hexfile Proofs.C18_hexfile Proofs.C18_loadsave.
From Coq Require Import String Ascii.
Open Scope Z_scope.

Definition is_hexlower (c : ascii) : bool :=
  let n := Z.of_nat (nat_of_ascii c) in ((48 <=? n) && (n <=? 57)) || ((97 <=? n) && (n <=? 102)).
Fixpoint hexchars (s : string) : bool :=
  match s with EmptyString => true | String c r => is_hexlower c && hexchars r end.
Definition ihex_chars (s : string) : bool :=
  match s with String c r => (Z.of_nat (nat_of_ascii c) =? 58) && hexchars r | EmptyString => false end.
Definition line_ok (s : string) : Prop := ihex_chars s = true /\ (String.length s <= 71)%nat.

Lemma hexdigit_lower_ok n : 0 <= n < 16 -> is_hexlower (hexdigit_lower n) = true.
Proof.
  intros H.
  assert (A : forallb (fun n => is_hexlower (hexdigit_lower n)) (rangeZ 0 16) = true) by (vm_compute; reflexivity).
  rewrite forallb_forall in A. apply A. now apply rangeZ_In.
Qed.

Lemma hexlify_chars bs : all_byte bs = true ->
  hexchars (hexlify bs) = true /\ String.length (hexlify bs) = (2 * List.length bs)%nat.
Proof.
  induction bs as [|b r IH]; intros H; [split; reflexivity|].
  cbn [all_byte forallb] in H. apply andb_true_iff in H. destruct H as [Hb Hr]. unfold is_byte in Hb.
  fold (all_byte r) in Hr. destruct (IH Hr) as [I1 I2].
  cbn [hexlify hexchars String.length List.length]. rewrite !hexdigit_lower_ok by lia. rewrite I1, I2.
  split; [reflexivity | lia].
Qed.

Lemma ok_inj {A} (a b : A) : Ok a = Ok b -> a = b.
Proof. congruence. Qed.

Lemma to_line_shape hl s : valid_line hl -> to_line hl = Ok s -> len (data hl) <= 30 -> line_ok s.
Proof.
  intros Hv Hs Hn. rewrite (to_line_ok hl Hv) in Hs. apply ok_inj in Hs. subst s.
  destruct (hexlify_chars _ (line_bytes_all_byte hl Hv)) as [H1 H2]. split.
  - cbn [ihex_chars]. change (Z.of_nat (nat_of_ascii ":") =? 58) with true. now rewrite H1.
  - cbn [String.length]. rewrite H2. unfold line_bytes. cbn [List.length]. rewrite app_length. cbn [List.length].
    unfold len in Hn. lia.
Qed.

Definition small (hl : HexLine) : Prop := len (data hl) <= 30.

Lemma emits_shape hls ls : emits hls ls -> Forall small hls -> Forall line_ok ls.
Proof.
  induction 1 as [|hl s hls ls (Hv & Hs) _ IH]; intros Hf; [constructor|].
  inversion Hf as [|? ? Hsm Hf']; subst. constructor; [eapply to_line_shape; eauto | now apply IH].
Qed.

Lemma hl_chunks_small n : forall l ext addr, Forall small (hl_chunks (chunk_list n l) ext addr).
Proof.
  induction n as [|n IH]; intros l ext addr; [constructor|].
  cbn [chunk_list hl_chunks]. pose proof (len_firstn30 l) as Hf.
  destruct (addr >=? 65536); repeat constructor; try apply IH; unfold small; cbn [data hl4]; try lia.
  change (len [?a; ?b]) with 2. lia.
Qed.

Lemma hl_regions_small rs : Forall small (hl_regions rs).
Proof.
  induction rs as [|r t IH]; [constructor|]. cbn [hl_regions]. apply Forall_app. split; [|exact IH].
  unfold hl_region. constructor; [unfold small; cbn [data hl4]; change (len [?a; ?b]) with 2; lia | apply hl_chunks_small].
Qed.

Lemma save_lines_shape hf lines : hexfile_ok hf -> save hf = Ok lines -> Forall line_ok lines.
Proof.
  intros (Hr & Hs) H. unfold save in H.
  destruct (save_regions_emits _ Hr) as (body & Hb & Heb). rewrite Hb in H. cbn [bind] in H.
  pose proof (emits_shape _ _ Heb (hl_regions_small _)) as Hbody.
  destruct (start_address hf =? 0) eqn:E0; cbn [negb bind] in H.
  - destruct (to_line (mkHexLine 0 1 [])) as [le| | |] eqn:Ele; cbn [bind] in H; try discriminate.
    apply ok_inj in H. subst lines. apply Forall_app. split; [exact Hbody|]. cbn [app].
    constructor; [|constructor]. eapply to_line_shape; [|exact Ele|cbn; lia].
    repeat split; cbn; try lia; reflexivity.
  - unfold pack_I in H. replace ((0 <=? start_address hf) && (start_address hf <? 4294967296)) with true in H by lia.
    cbn [bind] in H. set (v := start_address hf) in *.
    destruct (to_line (mkHexLine 0 5 [v / 16777216; (v / 65536) mod 256; (v / 256) mod 256; v mod 256])) as [l5| | |] eqn:El5;
      cbn [bind] in H; try discriminate.
    destruct (to_line (mkHexLine 0 1 [])) as [le| | |] eqn:Ele; cbn [bind] in H; try discriminate.
    apply ok_inj in H. subst lines. apply Forall_app. split; [exact Hbody|]. cbn [app].
    constructor; [|constructor; [|constructor]].
    + eapply to_line_shape; [|exact El5|cbn; lia].
      repeat split; cbn [address typ data]; try lia; try reflexivity. cbn [all_byte forallb]. unfold is_byte. lia.
    + eapply to_line_shape; [|exact Ele|cbn; lia]. repeat split; cbn; try lia; reflexivity.
Qed.
