(* Proofs/C11_tie.v — tie T for the relocation class bodies: the definitions regenerated from the calc/apply
   methods of the current source (Gen/reloc_bodies.v: c11_flatten + py2coq) are equal, for all arguments, to the
   hand model Model.Reloc.apply the C11/C13 theorems are stated on.  An edit of a calc/apply body changes the
   regenerated definition and breaks this file. *)
From PV Require Import Lib.Py Lib.Tac Gen.bitfun Model.Reloc Model.RelocFix Gen.reloc_bodies Gen.reloc_switch.
Open Scope Z_scope.

(* the regenerated bodies, dispatched per class; calc-classes write their field through the default
   Relocation.apply (hand model tok_apply with the field parts of the class's token) *)
Definition gen_apply (k : rkind) (A S : Z) (data : list Z) (P : Z) : result (list Z) :=
  match k with
  | RvBImm12 => v <- calc_RvBImm12 A S P ;; tok_apply 4 data [(31, 32); (7, 8); (25, 31); (8, 12)] v
  | RvBImm20 => apply_RvBImm20 A S data P
  | RvAbs32Imm20 => apply_RvAbs32Imm20 A S data P
  | RvRelImm20 => apply_RvRelImm20 A S data P
  | RvAbs32Imm12 => v <- calc_RvAbs32Imm12 A S P ;; tok_apply 4 data [(20, 32)] v
  | RvRelImm12 => v <- calc_RvRelImm12 A S P ;; tok_apply 4 data [(20, 32)] v
  | RvAbsAddr32 => apply_RvAbsAddr32 A S data P
  | RvcCBImm11 => apply_RvcCBImm11 A S data P
  | RvcCBlImm11 => apply_RvcCBlImm11 A S data P
  | RvcBcImm11 => apply_RvcBcImm11 A S data P
  | RvcBcImm8 => apply_RvcBcImm8 A S data P
  | ArmImm24 => v <- calc_ArmImm24 A S P ;; tok_apply 4 data [(0, 24)] v
  | ArmRel8 => v <- calc_ArmRel8 FUEL A S P ;; tok_apply 4 data [(0, 8)] v
  | ArmLdrImm12 => apply ArmLdrImm12 A S data P      (* in-place |= on bytes: stays tie H *)
  | ArmAdrImm12 => apply ArmAdrImm12 A S data P      (* in-place |= on bytes: stays tie H *)
  | ThLit8 => apply_ThLit8 FUEL A S data P
  | ThWrapNew11 => apply_ThWrapNew11 FUEL A S data P
  | ThRel8 => apply_ThRel8 FUEL A S data P
  | ThBlImm11 => apply_ThBlImm11 FUEL A S data P
  | ThBImm11Imm6 => apply ThBImm11Imm6 A S data P      (* in-place |= on bytes: stays tie H *)
  | X86Rel32 => tok_apply 4 data [(0, 32)] (calc_X86Rel32 A S P)
  | X86Abs32 => tok_apply 4 data [(0, 32)] (calc_X86Abs32 A S P)
  | X86Jmp8 => tok_apply 1 data [(0, 8)] (calc_X86Jmp8 A S P)
  | X86Abs64 => v <- calc_X86Abs64 A S P ;; tok_apply 8 data [(0, 64)] v
  | DataAbs16 => v <- calc_DataAbs16 A S P ;; tok_apply 2 data [(0, 16)] v
  | DataAbs32 => v <- calc_DataAbs32 A S P ;; tok_apply 4 data [(0, 32)] v
  | DataAbs64 => v <- calc_DataAbs64 A S P ;; tok_apply 8 data [(0, 64)] v
  end.

(* the hand model the current source is tied to: the repaired variant of a class when the per-run probe
   (Gen/reloc_switch.v, written by tools/props/c11.py from a witness run on the implementation) says so *)
Definition model_apply (k : rkind) (A S : Z) (data : list Z) (P : Z) : result (list Z) :=
  match k with
  | ThBlImm11 => if bl_fixed then apply_bl_fixed S data P else apply k A S data P
  | _ => apply k A S data P
  end.

Ltac norm := repeat match goal with |- context [?x - Zneg ?p] => change (x - Zneg p) with (x + Zpos p) end; rewrite ?Z.sub_0_r.
Ltac step :=
  norm;
  match goal with
  | |- context [if ?c then _ else _] =>
      lazymatch c with
      | true => fail
      | false => fail
      | _ => destruct c eqn:?
      end
  | |- context [bind ?r _] =>
      lazymatch r with
      | Ok _ => fail
      | Diag _ => fail
      | Internal _ => fail
      | OutOfFuel => fail
      | context [bind _ _] => fail
      | context [if _ then _ else _] => fail
      | _ => destruct r eqn:?
      end
  end; cbn beta iota delta [bind]; try congruence.
Ltac tie_with t := intros; unfold gen_apply, apply, apply_jtype, apply_hi20, asrt; t; unfold guard;
  cbv zeta; norm;
  cbn beta iota delta [bind]; repeat step; try reflexivity.

Lemma set_nth_oob (d : list Z) : forall n f, (len d <= Z.of_nat n) -> set_nth d n f = Internal IndexError.
Proof.
  induction d as [|x d IH]; intros n f H; [destruct n; reflexivity|].
  destruct n; unfold len in *; cbn [length] in H; [lia|]. cbn [set_nth]. rewrite IH by (unfold len; lia). reflexivity.
Qed.
Lemma set_nth_read (d : list Z) : forall n f, (Z.of_nat n < len d) -> set_nth d n f = set_nth d n (fun _ => f (nth n d 0)).
Proof.
  induction d as [|x d IH]; intros n f H; [destruct n; reflexivity|].
  destruct n; [reflexivity|]. cbn [set_nth nth]. rewrite IH by (unfold len in *; cbn [length] in H; lia). reflexivity.
Qed.
(* data[n] |= e as the flattened source has it (read, or, write, index check) = the hand model's in-place or *)
Lemma set_or (d : list Z) (n : nat) (e : Z) (K : list Z -> result (list Z)) :
  (r <- set_nth d n (fun _ => Z.lor (nth n d 0) e) ;; if (Z.of_nat n <? len d) then K r else Internal IndexError)
  = (r <- set_nth d n (fun x => Z.lor x e) ;; K r).
Proof.
  destruct (Z.ltb_spec (Z.of_nat n) (len d)).
  - rewrite (set_nth_read d n (fun x => Z.lor x e)) by lia. destruct (set_nth d n _); reflexivity.
  - rewrite !set_nth_oob by lia. reflexivity.
Qed.
Ltac ors :=
  repeat match goal with |- context [Pos.to_nat ?p] =>
    let v := eval compute in (Pos.to_nat p) in change (Pos.to_nat p) with v end;
  cbn [Z.leb Z.compare Pos.compare Pos.compare_cont andb Z.to_nat];
  repeat match goal with
  | |- context [bind (set_nth ?d ?n (fun _ => Z.lor (nth ?n ?d 0) ?e)) ?K] =>
      let H := fresh in
      pose proof (set_or d n e) as H; cbn [Z.of_nat Pos.of_succ_nat Pos.succ] in H; rewrite H; clear H
  end.
Ltac step2 := ors; step.
Ltac tie_or t := intros; unfold gen_apply, apply, asrt; t; unfold guard, set_byte;
  cbv zeta; norm; cbn beta iota delta [bind]; repeat step2; try reflexivity.

Lemma tie_RvBImm12 A S d P : apply RvBImm12 A S d P = gen_apply RvBImm12 A S d P.
Proof. tie_with ltac:(unfold calc_RvBImm12). Qed.
Lemma tie_RvBImm20 A S d P : apply RvBImm20 A S d P = gen_apply RvBImm20 A S d P.
Proof. tie_with ltac:(unfold apply_RvBImm20). Qed.
Lemma tie_RvAbs32Imm20 A S d P : apply RvAbs32Imm20 A S d P = gen_apply RvAbs32Imm20 A S d P.
Proof. tie_with ltac:(unfold apply_RvAbs32Imm20). Qed.
Lemma tie_RvRelImm20 A S d P : apply RvRelImm20 A S d P = gen_apply RvRelImm20 A S d P.
Proof. tie_with ltac:(unfold apply_RvRelImm20). Qed.
Lemma tie_RvAbs32Imm12 A S d P : apply RvAbs32Imm12 A S d P = gen_apply RvAbs32Imm12 A S d P.
Proof. tie_with ltac:(unfold calc_RvAbs32Imm12). Qed.
Lemma tie_RvRelImm12 A S d P : apply RvRelImm12 A S d P = gen_apply RvRelImm12 A S d P.
Proof. tie_with ltac:(unfold calc_RvRelImm12). Qed.
Lemma tie_RvAbsAddr32 A S d P : apply RvAbsAddr32 A S d P = gen_apply RvAbsAddr32 A S d P.
Proof. tie_with ltac:(unfold apply_RvAbsAddr32). Qed.
Lemma tie_RvcCBImm11 A S d P : apply RvcCBImm11 A S d P = gen_apply RvcCBImm11 A S d P.
Proof. tie_with ltac:(unfold apply_RvcCBImm11). Qed.
Lemma tie_RvcCBlImm11 A S d P : apply RvcCBlImm11 A S d P = gen_apply RvcCBlImm11 A S d P.
Proof. tie_with ltac:(unfold apply_RvcCBlImm11). Qed.
Lemma tie_RvcBcImm11 A S d P : apply RvcBcImm11 A S d P = gen_apply RvcBcImm11 A S d P.
Proof. tie_with ltac:(unfold apply_RvcBcImm11). Qed.
Lemma tie_RvcBcImm8 A S d P : apply RvcBcImm8 A S d P = gen_apply RvcBcImm8 A S d P.
Proof. tie_with ltac:(unfold apply_RvcBcImm8). Qed.
Lemma tie_ArmImm24 A S d P : apply ArmImm24 A S d P = gen_apply ArmImm24 A S d P.
Proof. tie_with ltac:(unfold calc_ArmImm24). Qed.
Lemma tie_ArmRel8 A S d P : apply ArmRel8 A S d P = gen_apply ArmRel8 A S d P.
Proof. tie_with ltac:(unfold calc_ArmRel8). Qed.
Lemma tie_ArmLdrImm12 A S d P : apply ArmLdrImm12 A S d P = gen_apply ArmLdrImm12 A S d P.
Proof. reflexivity. Qed.
Lemma tie_ArmAdrImm12 A S d P : apply ArmAdrImm12 A S d P = gen_apply ArmAdrImm12 A S d P.
Proof. reflexivity. Qed.
Lemma tie_ThLit8 A S d P : apply ThLit8 A S d P = gen_apply ThLit8 A S d P.
Proof. tie_or ltac:(unfold apply_ThLit8). Qed.
Lemma tie_ThWrapNew11 A S d P : apply ThWrapNew11 A S d P = gen_apply ThWrapNew11 A S d P.
Proof. tie_with ltac:(unfold apply_ThWrapNew11). Qed.
Lemma tie_ThRel8 A S d P : apply ThRel8 A S d P = gen_apply ThRel8 A S d P.
Proof. tie_or ltac:(unfold apply_ThRel8). Qed.
Lemma tie_ThBlImm11 A S d P : model_apply ThBlImm11 A S d P = gen_apply ThBlImm11 A S d P.
Proof. unfold model_apply, bl_fixed. tie_with ltac:(unfold apply_ThBlImm11, apply_bl_fixed). Qed.
Lemma tie_ThBImm11Imm6 A S d P : apply ThBImm11Imm6 A S d P = gen_apply ThBImm11Imm6 A S d P.
Proof. reflexivity. Qed.
Lemma tie_X86Rel32 A S d P : apply X86Rel32 A S d P = gen_apply X86Rel32 A S d P.
Proof. tie_with ltac:(unfold calc_X86Rel32). Qed.
Lemma tie_X86Abs32 A S d P : apply X86Abs32 A S d P = gen_apply X86Abs32 A S d P.
Proof. tie_with ltac:(unfold calc_X86Abs32). Qed.
Lemma tie_X86Jmp8 A S d P : apply X86Jmp8 A S d P = gen_apply X86Jmp8 A S d P.
Proof. tie_with ltac:(unfold calc_X86Jmp8). Qed.
Lemma tie_X86Abs64 A S d P : apply X86Abs64 A S d P = gen_apply X86Abs64 A S d P.
Proof. tie_with ltac:(unfold calc_X86Abs64). Qed.
Lemma tie_DataAbs16 A S d P : apply DataAbs16 A S d P = gen_apply DataAbs16 A S d P.
Proof. tie_with ltac:(unfold calc_DataAbs16). Qed.
Lemma tie_DataAbs32 A S d P : apply DataAbs32 A S d P = gen_apply DataAbs32 A S d P.
Proof. tie_with ltac:(unfold calc_DataAbs32). Qed.
Lemma tie_DataAbs64 A S d P : apply DataAbs64 A S d P = gen_apply DataAbs64 A S d P.
Proof. tie_with ltac:(unfold calc_DataAbs64). Qed.

Theorem tie_bodies k A S d P : model_apply k A S d P = gen_apply k A S d P.
Proof. destruct k; cbn [model_apply].
  - apply tie_RvBImm12.
  - apply tie_RvBImm20.
  - apply tie_RvAbs32Imm20.
  - apply tie_RvRelImm20.
  - apply tie_RvAbs32Imm12.
  - apply tie_RvRelImm12.
  - apply tie_RvAbsAddr32.
  - apply tie_RvcCBImm11.
  - apply tie_RvcCBlImm11.
  - apply tie_RvcBcImm11.
  - apply tie_RvcBcImm8.
  - apply tie_ArmImm24.
  - apply tie_ArmRel8.
  - apply tie_ArmLdrImm12.
  - apply tie_ArmAdrImm12.
  - apply tie_ThLit8.
  - apply tie_ThWrapNew11.
  - apply tie_ThRel8.
  - exact (tie_ThBlImm11 A S d P).
  - apply tie_ThBImm11Imm6.
  - apply tie_X86Rel32.
  - apply tie_X86Abs32.
  - apply tie_X86Jmp8.
  - apply tie_X86Abs64.
  - apply tie_DataAbs16.
  - apply tie_DataAbs32.
  - apply tie_DataAbs64.
Qed.
