(* Lib/Val.v — universal value type used only by correspondence case files:
   the harness renders implementation results as [val] terms, the model's results are
   converted with [toval], and [val_eqb] decides agreement inside vm_compute. *)
From PV Require Import Lib.Py.
From Coq Require Import String Ascii.
Open Scope Z_scope.

Inductive val :=
  | VZ (z : Z) | VB (b : bool) | VS (s : string)
  | VL (l : list val)      (* list / bytes *)
  | VT (l : list val)      (* tuple / record *)
  | VNone
  | VOk (v : val) | VDiag | VInternal | VFuel.

Fixpoint val_eqb (a b : val) {struct a} : bool :=
  let fix leqb (x y : list val) {struct x} : bool :=
    match x, y with
    | [], [] => true
    | p :: x', q :: y' => val_eqb p q && leqb x' y'
    | _, _ => false
    end in
  match a, b with
  | VZ x, VZ y => x =? y
  | VB x, VB y => Bool.eqb x y
  | VS x, VS y => String.eqb x y
  | VL x, VL y => leqb x y
  | VT x, VT y => leqb x y
  | VNone, VNone => true
  | VOk x, VOk y => val_eqb x y
  | VDiag, VDiag => true
  | VInternal, VInternal => true
  | VFuel, VFuel => true
  | _, _ => false
  end.

Class ToVal (A : Type) := toval : A -> val.
#[global] Instance ToVal_Z : ToVal Z := VZ.
#[global] Instance ToVal_bool : ToVal bool := VB.
#[global] Instance ToVal_string : ToVal string := VS.
#[global] Instance ToVal_nat : ToVal nat := fun n => VZ (Z.of_nat n).
#[global] Instance ToVal_unit : ToVal unit := fun _ => VNone.
#[global] Instance ToVal_val : ToVal val := fun v => v.
#[global] Instance ToVal_list {A} `{ToVal A} : ToVal (list A) := fun l => VL (map toval l).
#[global] Instance ToVal_option {A} `{ToVal A} : ToVal (option A) :=
  fun o => match o with Some a => toval a | None => VNone end.
(* tuples are flattened left-nested products: (a, b, c) = ((a, b), c) *)
Class ToTuple (A : Type) := totuple : A -> list val.
#[global] Instance ToTuple_pair_base {A B} `{ToVal A} `{ToVal B} : ToTuple (A * B) | 10 :=
  fun p => [toval (fst p); toval (snd p)].
#[global] Instance ToTuple_pair_rec {A B C} `{ToTuple (A * B)} `{ToVal C} : ToTuple (A * B * C) | 5 :=
  fun p => totuple (fst p) ++ [toval (snd p)].
#[global] Instance ToVal_tuple {A B} `{ToTuple (A * B)} : ToVal (A * B) := fun p => VT (totuple p).
#[global] Instance ToVal_result {A} `{ToVal A} : ToVal (result A) :=
  fun r => match r with
           | Ok a => VOk (toval a) | Diag _ => VDiag | Internal _ => VInternal | OutOfFuel => VFuel
           end.

(* a case = (id, model value, implementation value); [bad_cases] lists disagreeing ids *)
Definition bad_cases (cs : list (nat * val * val)) : list nat :=
  map (fun c => fst (fst c))
      (filter (fun c => negb (val_eqb (snd (fst c)) (snd c))) cs).
(* same with binary indices (unary nat literals get slow above a few thousand cases) *)
Definition bad_casesZ (cs : list (Z * val * val)) : list Z :=
  map (fun c => fst (fst c))
      (filter (fun c => negb (val_eqb (snd (fst c)) (snd c))) cs).
Definition FUEL : nat := 4000%nat.
