(* Lib/Json.v — the JSON value type that Python's json.dump / json.load exchange with ppci's
   dict-based serializers.  A Python dict is an association list in insertion order (lookup
   returns the first binding; the serializers never create duplicate keys).
   Definitions only; the text layer (json.dump / json.load) is NOT modelled: it is trusted to be
   the identity on this value type (see tools/props/c14.py TRUSTED). *)
From PV Require Import Lib.Py Lib.Val.
From Coq Require Import String Ascii.
Open Scope Z_scope.

Inductive json :=
  | JNull
  | JBool (b : bool)
  | JNum (z : Z)                       (* Python int; floats do not occur in object files *)
  | JStr (s : string)
  | JList (l : list json)
  | JObj (l : list (string * json)).

Fixpoint jlookup (k : string) (l : list (string * json)) : option json :=
  match l with
  | [] => None
  | (k', v) :: r => if String.eqb k k' then Some v else jlookup k r
  end.

(* d[k] : KeyError when the key is missing, TypeError when d is not a dict *)
Definition jget (k : string) (j : json) : result json :=
  match j with
  | JObj l => match jlookup k l with Some v => Ok v | None => Internal KeyError end
  | _ => Internal TypeError
  end.

(* k in d *)
Definition jhas (k : string) (j : json) : bool :=
  match j with
  | JObj l => match jlookup k l with Some _ => true | None => false end
  | _ => false
  end.

(* typed views of a JSON value (the Python code does not check types; the models that use these
   views return Internal TypeError where Python would carry an ill-typed value along) *)
Definition as_str (j : json) : result string :=
  match j with JStr s => Ok s | _ => Internal TypeError end.
Definition as_int (j : json) : result Z :=
  match j with JNum z => Ok z | _ => Internal TypeError end.
Definition as_opt_str (j : json) : result (option string) :=
  match j with JNull => Ok None | JStr s => Ok (Some s) | _ => Internal TypeError end.
Definition as_opt_int (j : json) : result (option Z) :=
  match j with JNull => Ok None | JNum z => Ok (Some z) | _ => Internal TypeError end.
Definition as_list (j : json) : result (list json) :=
  match j with JList l => Ok l | _ => Internal TypeError end.

Definition jopt_str (o : option string) : json :=
  match o with Some s => JStr s | None => JNull end.
Definition jopt_num (o : option Z) : json :=
  match o with Some z => JNum z | None => JNull end.

(* monadic map over a list, left to right, stopping at the first exception *)
Fixpoint mapM {A B} (f : A -> result B) (l : list A) : result (list B) :=
  match l with
  | [] => Ok []
  | x :: r => y <- f x ;; ys <- mapM f r ;; Ok (y :: ys)
  end.

(* rendering for correspondence case files: dict = VT of (key, value) pairs in insertion order *)
Fixpoint json_to_val (j : json) : val :=
  let fix lst (l : list json) : list val :=
    match l with [] => [] | x :: r => json_to_val x :: lst r end in
  let fix obj (l : list (string * json)) : list val :=
    match l with [] => [] | (k, v) :: r => VT [VS k; json_to_val v] :: obj r end in
  match j with
  | JNull => VNone
  | JBool b => VB b
  | JNum z => VZ z
  | JStr s => VS s
  | JList l => VL (lst l)
  | JObj l => VT (obj l)
  end.
#[global] Instance ToVal_json : ToVal json := json_to_val.

(* ---- generic lemmas ---- *)
Lemma mapM_map_ok {A B C} (g : A -> B) (f : B -> result C) (h : A -> C) (l : list A) :
  (forall x, In x l -> f (g x) = Ok (h x)) -> mapM f (map g l) = Ok (map h l).
Proof.
  induction l as [|x r IH]; intros H; cbn [map mapM].
  - reflexivity.
  - rewrite (H x) by (now left). cbn [bind].
    rewrite IH by (intros y Hy; apply H; now right). reflexivity.
Qed.

Lemma mapM_map_id {A C} (g : C -> A) (f : A -> result C) (l : list C) :
  (forall x, In x l -> f (g x) = Ok x) -> mapM f (map g l) = Ok l.
Proof.
  intros H. rewrite (mapM_map_ok g f (fun x => x)) by assumption. now rewrite map_id.
Qed.
