(* Lib/Py.v — prelude shared by every generated (tools/py2coq.py) and hand model.
   Python int = Z, bytes/list[int] = list Z, exceptions = [result].
   No proofs about ppci here; only definitions and generic lemmas. *)
From Coq Require Export ZArith List Bool Lia ZifyBool.
Export ListNotations.
Open Scope Z_scope.

(* Exceptions that are not the documented diagnostic of an API ("internal errors"). *)
Inductive ierr :=
  | KeyError | AssertionError | StructError | StopIteration | TypeError
  | ValueErrorI | NotImplemented | OverflowErr | ZeroDiv | IndexError | OtherI (tag : Z).

Inductive result (A : Type) : Type :=
  | Ok (a : A)          (* normal return *)
  | Diag (code : Z)     (* the documented error of the API (CompilerError, range ValueError, ...) *)
  | Internal (e : ierr) (* any other Python exception *)
  | OutOfFuel.          (* model artefact; every theorem excludes it by a fuel hypothesis *)
Arguments Ok {A} a.
Arguments Diag {A} code.
Arguments Internal {A} e.
Arguments OutOfFuel {A}.

Definition bind {A B} (r : result A) (f : A -> result B) : result B :=
  match r with
  | Ok a => f a
  | Diag c => Diag c
  | Internal e => Internal e
  | OutOfFuel => OutOfFuel
  end.

Notation "x <- e ;; k" := (bind e (fun x => k))
  (at level 61, e at next level, right associativity).
Notation "' p <- e ;; k" := (bind e (fun x => let 'p := x in k))
  (at level 61, p pattern, e at next level, right associativity).

(* guard c e k : if c holds continue with k else raise e *)
Definition guard {A} (c : bool) (e : result A) (k : result A) : result A :=
  if c then k else e.

(* loop control for loops whose body may [return] *)
Inductive ctl (R V : Type) : Type := Next (v : V) | Ret (r : R).
Arguments Next {R V} v.
Arguments Ret {R V} r.

(* ---- Python integer helpers ---- *)
Definition truthy (z : Z) : bool := negb (z =? 0).
Definition b2z (b : bool) : Z := if b then 1 else 0.
Definition bit_length (z : Z) : Z := if z =? 0 then 0 else Z.log2 (Z.abs z) + 1.
Definition is_byte (z : Z) : bool := (0 <=? z) && (z <? 256).
Definition all_byte (l : list Z) : bool := forallb is_byte l.
Definition len {A} (l : list A) : Z := Z.of_nat (length l).

(* range(a, b) as a list, structurally recursive on a nat count *)
Fixpoint seqZ_from (a : Z) (n : nat) : list Z :=
  match n with O => [] | S n' => a :: seqZ_from (a + 1) n' end.
Definition rangeZ (a b : Z) : list Z := seqZ_from a (Z.to_nat (b - a)).
(* range(a, b, step) for step > 0 *)
Fixpoint seqZ_step (a step : Z) (n : nat) : list Z :=
  match n with O => [] | S n' => a :: seqZ_step (a + step) step n' end.
Definition rangeZ_step (a b step : Z) : list Z :=
  seqZ_step a step (Z.to_nat ((b - a + step - 1) / step)).

Definition nthZ {A} (l : list A) (i : Z) : option A :=
  if i <? 0 then nth_error l (Z.to_nat (len l + i)) else nth_error l (Z.to_nat i).
(* l[a:b] with 0 <= a, 0 <= b (negative indices are not emitted by the translator) *)
Definition sliceZ {A} (l : list A) (a b : Z) : list A :=
  firstn (Z.to_nat (b - a)) (skipn (Z.to_nat a) l).

Fixpoint sumZ (l : list Z) : Z := match l with [] => 0 | x :: r => x + sumZ r end.

(* ---- decidable equality on results, used by correspondence case files ---- *)
Definition ierr_tag (e : ierr) : Z :=
  match e with
  | KeyError => 1 | AssertionError => 2 | StructError => 3 | StopIteration => 4
  | TypeError => 5 | ValueErrorI => 6 | NotImplemented => 7 | OverflowErr => 8
  | ZeroDiv => 9 | IndexError => 10 | OtherI t => 100 + t
  end.

(* ---- generic lemmas ---- *)
Lemma bind_ok {A B} (a : A) (f : A -> result B) : bind (Ok a) f = f a.
Proof. reflexivity. Qed.

Lemma seqZ_from_length a n : length (seqZ_from a n) = n.
Proof. revert a; induction n as [|n IH]; intros a; cbn; [reflexivity|now rewrite IH]. Qed.

Lemma seqZ_from_In a n x : In x (seqZ_from a n) <-> a <= x < a + Z.of_nat n.
Proof.
  revert a; induction n as [|n IH]; intros a; cbn [seqZ_from In].
  - lia.
  - rewrite IH. lia.
Qed.

Lemma rangeZ_In a b x : In x (rangeZ a b) <-> a <= x < b.
Proof. unfold rangeZ. rewrite seqZ_from_In. lia. Qed.

Lemma seqZ_from_app a n m :
  seqZ_from a (n + m) = seqZ_from a n ++ seqZ_from (a + Z.of_nat n) m.
Proof.
  revert a; induction n as [|n IH]; intros a.
  - cbn. now replace (a + 0) with a by lia.
  - cbn [Nat.add seqZ_from app]. rewrite IH. f_equal. f_equal. f_equal. lia.
Qed.

Lemma rangeZ_snoc a b : a <= b -> rangeZ a (b + 1) = rangeZ a b ++ [b].
Proof.
  intros H. unfold rangeZ.
  replace (Z.to_nat (b + 1 - a)) with (Z.to_nat (b - a) + 1)%nat by lia.
  rewrite seqZ_from_app. cbn. do 2 f_equal. lia.
Qed.

Lemma rangeZ_cons a b : a < b -> rangeZ a b = a :: rangeZ (a + 1) b.
Proof.
  intros H. unfold rangeZ.
  replace (Z.to_nat (b - a)) with (S (Z.to_nat (b - (a + 1)))) by lia.
  reflexivity.
Qed.

Lemma rangeZ_nil a b : b <= a -> rangeZ a b = [].
Proof. intros H. unfold rangeZ. now replace (Z.to_nat (b - a)) with O by lia. Qed.
