(* Lib/Tac.v — shape-robust tactics for goals about py2coq-generated terms, plus the bit
   lemmas every codec proof needs. *)
From PV Require Import Lib.Py.
Open Scope Z_scope.

Ltac Zify.zify_post_hook ::= Z.to_euclidean_division_equations.

(* discharge the outermost [guard c e k] whose condition is provable by lia *)
Ltac guard_ok :=
  match goal with
  | |- context [guard ?c ?e ?k] =>
      let H := fresh "Hg" in
      assert (H : c = true) by lia; rewrite H; clear H; unfold guard at 1
  end.
Ltac guards_ok := repeat guard_ok.

(* same inside a hypothesis *)
Ltac guard_ok_in H0 :=
  match type of H0 with
  | context [guard ?c ?e ?k] =>
      let H := fresh "Hg" in
      assert (H : c = true) by lia; rewrite H in H0; clear H; unfold guard at 1 in H0
  end.

Lemma guard_true {A} (e k : result A) : guard true e k = k.
Proof. reflexivity. Qed.
Lemma guard_false {A} (e k : result A) : guard false e k = e.
Proof. reflexivity. Qed.

(* ---- bit lemmas ---- *)
Lemma land_ones_mod v n : 0 <= n -> Z.land v (2 ^ n - 1) = v mod 2 ^ n.
Proof. intros H. replace (2 ^ n - 1) with (Z.ones n) by (rewrite Z.ones_equiv; lia).
  now rewrite Z.land_ones by lia. Qed.

Lemma shiftl1_pow n : 0 <= n -> Z.shiftl 1 n = 2 ^ n.
Proof. intros H. rewrite Z.shiftl_mul_pow2 by lia. lia. Qed.

Lemma shiftr_div v n : 0 <= n -> Z.shiftr v n = v / 2 ^ n.
Proof. intros H. now rewrite Z.shiftr_div_pow2 by lia. Qed.

Lemma shiftl_mul v n : 0 <= n -> Z.shiftl v n = v * 2 ^ n.
Proof. intros H. now rewrite Z.shiftl_mul_pow2 by lia. Qed.

Lemma testbit_ones_full n i : 0 <= n -> Z.testbit (2 ^ n - 1) i = (0 <=? i) && (i <? n).
Proof.
  intros H. replace (2 ^ n - 1) with (Z.ones n) by (rewrite Z.ones_equiv; lia).
  destruct (Z.leb_spec 0 i); cbn [andb].
  - now rewrite Z.testbit_ones_nonneg by lia.
  - rewrite Z.testbit_neg_r by lia. reflexivity.
Qed.

Lemma testbit_small v n i : 0 <= v < 2 ^ n -> n <= i -> Z.testbit v i = false.
Proof.
  intros [H0 H1] Hi. destruct (Z.eq_dec v 0) as [->|Hz]; [apply Z.bits_0|].
  apply Z.bits_above_log2; [lia|].
  assert (0 <= n) by (destruct (Z.le_gt_cases 0 n); [assumption|]; rewrite Z.pow_neg_r in H1; lia).
  assert (Z.log2 v < n) by (apply Z.log2_lt_pow2; lia). lia.
Qed.

Lemma bits_lt_pow2 v n : 0 <= n -> 0 <= v -> (forall i, n <= i -> Z.testbit v i = false) -> v < 2 ^ n.
Proof.
  intros Hn Hv H. destruct (Z.eq_dec v 0) as [->|Hz]; [apply Z.pow_pos_nonneg; lia|].
  destruct (Z.lt_ge_cases v (2^n)) as [|Hge]; [assumption|exfalso].
  assert (Hl : n <= Z.log2 v) by (apply Z.log2_le_pow2; lia).
  specialize (H (Z.log2 v) Hl). rewrite Z.bit_log2 in H by lia. discriminate.
Qed.

Lemma lor_disjoint_add a b s :
  0 <= s -> 0 <= a < 2 ^ s -> Z.lor a (Z.shiftl b s) = a + b * 2 ^ s.
Proof.
  intros Hs Ha. rewrite Z.shiftl_mul_pow2 by lia.
  rewrite <- Z.lxor_lor, <- Z.add_nocarry_lxor; auto;
  apply Z.bits_inj'; intros n Hn; rewrite Z.land_spec, Z.bits_0;
  destruct (Z.ltb_spec n s);
  try (rewrite Z.mul_pow2_bits_low by lia; apply andb_false_r);
  rewrite (testbit_small a s n) by lia; reflexivity.
Qed.
