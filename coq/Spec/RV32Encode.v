(* Spec/RV32Encode.v — C08 reference, part 2: an independent ENCODER for the RV32I/M base instructions written
   from the format diagrams of the RISC-V manual (chapter 2), no ppci structure.  Together with
   Spec/RV32Decode.v it lets Proofs/C08_rvspec.v state that decoding inverts the field packing for ALL
   register numbers and ALL immediates (rv_roundtrip). *)
From Coq Require Import ZArith List String.
From PV Require Import Spec.RV32Decode.
Import ListNotations.
Open Scope string_scope.
Open Scope Z_scope.
Inductive fsrc := FC (c : Z) | FA (j : nat) (sh : Z).
Definition field := (Z * Z * fsrc)%type.        (* lo, width, source *)
Definition fval (args : list Z) (f : field) : Z :=
  let '(lo, w, s) := f in
  (match s with FC c => c | FA j sh => nth j args 0 / 2 ^ sh end) mod 2 ^ w * 2 ^ lo.
Definition enc_fields (fs : list field) (args : list Z) : Z :=
  fold_right (fun f acc => fval args f + acc) 0 fs.

(* arguments in assembly order, as returned by decode_word *)
Definition layout_R opc f3 f7 : list field :=     (* mn rd, rs1, rs2   and   shifts mn rd, rs1, shamt *)
  [(0,7,FC opc); (7,5,FA 0 0); (12,3,FC f3); (15,5,FA 1 0); (20,5,FA 2 0); (25,7,FC f7)].
Definition layout_I opc f3 : list field :=        (* mn rd, rs1, imm12 *)
  [(0,7,FC opc); (7,5,FA 0 0); (12,3,FC f3); (15,5,FA 1 0); (20,12,FA 2 0)].
Definition layout_L f3 : list field :=            (* mn rd, imm12(rs1) *)
  [(0,7,FC 3); (7,5,FA 0 0); (12,3,FC f3); (15,5,FA 2 0); (20,12,FA 1 0)].
Definition layout_S f3 : list field :=            (* mn rs2, imm12(rs1): imm[4:0] -> 11:7, imm[11:5] -> 31:25 *)
  [(0,7,FC 35); (7,5,FA 1 0); (12,3,FC f3); (15,5,FA 2 0); (20,5,FA 0 0); (25,7,FA 1 5)].
Definition layout_B f3 : list field :=            (* mn rs1, rs2, off: imm[11] -> 7, [4:1] -> 11:8, [10:5] -> 30:25, [12] -> 31 *)
  [(0,7,FC 99); (7,1,FA 2 11); (8,4,FA 2 1); (12,3,FC f3); (15,5,FA 0 0); (20,5,FA 1 0); (25,6,FA 2 5); (31,1,FA 2 12)].
Definition layout_U opc : list field :=           (* mn rd, imm20 *)
  [(0,7,FC opc); (7,5,FA 0 0); (12,20,FA 1 0)].
Definition layout_J : list field :=               (* jal rd, off: imm[19:12] -> 19:12, [11] -> 20, [10:1] -> 30:21, [20] -> 31 *)
  [(0,7,FC 111); (7,5,FA 0 0); (12,8,FA 1 12); (20,1,FA 1 11); (21,10,FA 1 1); (31,1,FA 1 20)].

Inductive akind := AReg | ASImm (n : Z) | AUImm (n : Z) | ASEven (n : Z).
Definition arg_ok (k : akind) (v : Z) : Prop :=
  match k with
  | AReg => 0 <= v < 32
  | ASImm n => - 2 ^ (n - 1) <= v < 2 ^ (n - 1)
  | AUImm n => 0 <= v < 2 ^ n
  | ASEven n => - 2 ^ (n - 1) <= v < 2 ^ (n - 1) /\ v mod 2 = 0
  end.

Fixpoint assoc {A} (k : string) (l : list (string * A)) : option A :=
  match l with [] => None | (k', v) :: r => if String.eqb k k' then Some v else assoc k r end.

Definition r_ops : list (string * (Z * Z)) :=      (* OP: funct3, funct7 *)
  [("add",(0,0)); ("sub",(0,32)); ("sll",(1,0)); ("slt",(2,0)); ("sltu",(3,0)); ("xor",(4,0)); ("srl",(5,0));
   ("sra",(5,32)); ("or",(6,0)); ("and",(7,0)); ("mul",(0,1)); ("mulh",(1,1)); ("mulhsu",(2,1)); ("mulhu",(3,1));
   ("div",(4,1)); ("divu",(5,1)); ("rem",(6,1)); ("remu",(7,1))].
Definition sh_ops : list (string * (Z * Z)) := [("slli",(1,0)); ("srli",(5,0)); ("srai",(5,32))].
Definition i_ops : list (string * Z) := [("addi",0); ("slti",2); ("sltiu",3); ("xori",4); ("ori",6); ("andi",7)].
Definition l_ops : list (string * Z) := [("lb",0); ("lh",1); ("lw",2); ("lbu",4); ("lhu",5)].
Definition s_ops : list (string * Z) := [("sb",0); ("sh",1); ("sw",2)].
Definition b_ops : list (string * Z) := [("beq",0); ("bne",1); ("blt",4); ("bge",5); ("bltu",6); ("bgeu",7)].
Definition u_ops : list (string * Z) := [("lui",55); ("auipc",23)].

Definition rv_layout (mn : string) : option (list field * list akind) :=
  match assoc mn r_ops with Some (f3, f7) => Some (layout_R 51 f3 f7, [AReg; AReg; AReg]) | None =>
  match assoc mn sh_ops with Some (f3, f7) => Some (layout_R 19 f3 f7, [AReg; AReg; AUImm 5]) | None =>
  match assoc mn i_ops with Some f3 => Some (layout_I 19 f3, [AReg; AReg; ASImm 12]) | None =>
  match assoc mn l_ops with Some f3 => Some (layout_L f3, [AReg; ASImm 12; AReg]) | None =>
  match assoc mn s_ops with Some f3 => Some (layout_S f3, [AReg; ASImm 12; AReg]) | None =>
  match assoc mn b_ops with Some f3 => Some (layout_B f3, [AReg; AReg; ASEven 13]) | None =>
  match assoc mn u_ops with Some opc => Some (layout_U opc, [AReg; AUImm 20]) | None =>
  if String.eqb mn "jal" then Some (layout_J, [AReg; ASEven 21])
  else if String.eqb mn "jalr" then Some (layout_I 103 0, [AReg; AReg; ASImm 12])
  else if String.eqb mn "ecall" then Some ([(0,32,FC 115)], [])
  else if String.eqb mn "ebreak" then Some ([(0,32,FC 1048691)], [])
  else None
  end end end end end end end.

Definition rv_encode (mn : string) (args : list Z) : option Z :=
  match rv_layout mn with Some (fs, _) => Some (enc_fields fs args) | None => None end.
