(* Spec/SysVSpec.v — the parts of the System V AMD64 psABI (v1.0, section 3.2) that property C40
   is stated against, written from the ABI document and the Intel SDM register encoding,
   independent of ppci.

   Part 1: registers (hardware encoding numbers), callee-saved set (psABI fig. 3.4).
   Part 2: classification and passing of scalar arguments (psABI 3.2.3), return registers.
   Part 3: a tiny abstract stack machine: rsp arithmetic, 8-byte stack slots, general
           purpose registers holding symbolic values. No instruction encodings, no flags,
           no data movement other than push/pop/move of whole registers. *)
From PV Require Import Lib.Py.
Open Scope Z_scope.

(* ------------------------------------------------------------------ Part 1: registers *)
(* general purpose registers, in hardware encoding order (Intel SDM vol.2, table 2-2 / REX.B) *)
Inductive gpr := RAX | RCX | RDX | RBX | RSP | RBP | RSI | RDI
               | R8 | R9 | R10 | R11 | R12 | R13 | R14 | R15.

Definition gpr_num (g : gpr) : Z :=
  match g with
  | RAX => 0 | RCX => 1 | RDX => 2 | RBX => 3 | RSP => 4 | RBP => 5 | RSI => 6 | RDI => 7
  | R8 => 8 | R9 => 9 | R10 => 10 | R11 => 11 | R12 => 12 | R13 => 13 | R14 => 14 | R15 => 15
  end.

Definition all_gprs : list gpr :=
  [RAX; RCX; RDX; RBX; RSP; RBP; RSI; RDI; R8; R9; R10; R11; R12; R13; R14; R15].

(* a physical register of the machine: general purpose register number 0..15, or vector
   register xmm0..xmm15 *)
Inductive preg := PG (n : Z) | PX (n : Z).

Definition preg_eqb (a b : preg) : bool :=
  match a, b with
  | PG x, PG y => x =? y
  | PX x, PX y => x =? y
  | _, _ => false
  end.

(* which physical register an operand of a given width and encoding number lives in.
   16/32/64-bit operands: the register with that number. 8-bit operands without REX prefix:
   0..3 are the low bytes al,cl,dl,bl and 4..7 are the HIGH bytes ah,ch,dh,bh of
   registers 0..3 (SDM vol.2 3.1.1.1) *)
Definition phys_of_wide (num : Z) : preg := PG num.
Definition phys_of_byte (num : Z) : preg := if (4 <=? num) && (num <? 8) then PG (num - 4) else PG num.

(* psABI figure 3.4: "preserved across function calls": rbx, rsp, rbp, r12-r15.
   rsp is treated separately (it is the stack pointer of the machine below). *)
Definition callee_saved_gprs : list gpr := [RBX; RBP; R12; R13; R14; R15].
Definition abi_callee_saved (p : preg) : bool :=
  match p with
  | PG n => existsb (fun g => gpr_num g =? n) callee_saved_gprs
  | PX _ => false          (* no vector register is preserved in the SysV ABI *)
  end.

(* ------------------------------------------------------------------ Part 2: parameter passing *)
(* scalar C types of the property: integers of 1,2,4,8 bytes (signed or not), pointers, float, double *)
Inductive sty := SInt (signed : bool) (bytes : Z) | SPtr | SFloat | SDouble.
Inductive acls := INTEGER | SSE.

(* 3.2.3 Classification: "Arguments of types (signed and unsigned) _Bool, char, short, int, long,
   long long, and pointers are in the INTEGER class. Arguments of types float, double ... are in
   class SSE." *)
Definition classify (t : sty) : acls :=
  match t with SInt _ _ | SPtr => INTEGER | SFloat | SDouble => SSE end.

(* 3.2.3 Passing: "If the class is INTEGER, the next available register of the sequence %rdi, %rsi,
   %rdx, %rcx, %r8 and %r9 is used. If the class is SSE, the next available vector register is used,
   the registers are taken in the order from %xmm0 to %xmm7." *)
Definition int_arg_sequence : list gpr := [RDI; RSI; RDX; RCX; R8; R9].
Definition sse_arg_count : Z := 8.

(* where an argument lives at the call instruction. [AStack off]: the eightbyte at off(%rsp)
   immediately before the call instruction executes (= (off+8)(%rsp) at callee entry
   = (off+16)(%rbp) after the callee's  push %rbp; mov %rsp,%rbp). *)
Inductive aplace := AReg (p : preg) | AStack (off : Z).

(* "Once registers are assigned, the arguments passed in memory are pushed on the stack in reversed
   (right-to-left) order": the first memory argument ends up at the lowest address; every scalar
   occupies one eightbyte ("the size of each argument gets rounded up to eightbytes"). *)
Fixpoint sysv_assign (ni nf : nat) (stk : Z) (ts : list sty) : list aplace :=
  match ts with
  | [] => []
  | t :: rest =>
      match classify t with
      | INTEGER =>
          match nth_error int_arg_sequence ni with
          | Some g => AReg (PG (gpr_num g)) :: sysv_assign (S ni) nf stk rest
          | None => AStack stk :: sysv_assign ni nf (stk + 8) rest
          end
      | SSE =>
          if Z.of_nat nf <? sse_arg_count
          then AReg (PX (Z.of_nat nf)) :: sysv_assign ni (S nf) stk rest
          else AStack stk :: sysv_assign ni nf (stk + 8) rest
      end
  end.
Definition sysv_arg_places (ts : list sty) : list aplace := sysv_assign 0 0 0 ts.

(* 3.2.3 Returning of values: class INTEGER -> %rax, class SSE -> %xmm0 *)
Definition sysv_return_place (t : sty) : preg :=
  match classify t with INTEGER => PG (gpr_num RAX) | SSE => PX 0 end.

(* 3.2.2 The stack frame: "the value (%rsp + 8) is always a multiple of 16 when control is
   transferred to the function entry point", i.e. %rsp is 16-byte aligned immediately before
   the call instruction *)
Definition aligned16 (a : Z) : Prop := a mod 16 = 0.
Definition entry_aligned (rsp_at_entry : Z) : Prop := (rsp_at_entry + 8) mod 16 = 0.

(* ------------------------------------------------------------------ Part 3: abstract stack machine *)
(* symbolic contents of registers and stack slots *)
Inductive sval :=
  | VInit (p : preg)      (* the value register p had when the function was entered *)
  | VAddr (a : Z)         (* a stack address *)
  | VArg (i : nat)        (* the value of outgoing argument number i *)
  | VRetAddr              (* return address pushed by call *)
  | VJunk.

Record mstate := mkst {
  st_rsp : Z;
  st_reg : preg -> sval;
  st_mem : Z -> option sval     (* content of the stack slot that starts at an address *)
}.

Definition upd_reg (f : preg -> sval) (p : preg) (v : sval) : preg -> sval :=
  fun q => if preg_eqb q p then v else f q.
Definition upd_mem (m : Z -> option sval) (a : Z) (v : sval) : Z -> option sval :=
  fun b => if b =? a then Some v else m b.

Inductive sop :=
  | SPush (p : preg)             (* push of a whole 64-bit register: rsp -= 8; [rsp] := p *)
  | SPushVal (v : sval)          (* push of a value held in some scratch/virtual register *)
  | SPushX (bytes : Z) (p : preg)   (* sub rsp, bytes; store vector register at [rsp] *)
  | SPop (p : preg)              (* p := [rsp]; rsp += 8 *)
  | SPopX (bytes : Z) (p : preg)    (* load vector register from [rsp]; add rsp, bytes *)
  | SSub (n : Z)                 (* sub rsp, n *)
  | SAdd (n : Z)                 (* add rsp, n *)
  | SMovFpSp                     (* mov rbp, rsp *)
  | SSetReg (p : preg) (v : sval)   (* register p := a value (argument moves) *)
  | SBody (locals : Z) (clob : list preg)
      (* a function body: may overwrite the registers in clob, every slot that overlaps the
         local variable area [rbp - locals, rbp) and everything below rsp (its own pushes,
         calls, red zone); leaves rsp where it was *)
  | SRet.                        (* requires [rsp] = return address; rsp += 8 *)

Definition fp : preg := PG 5.   (* rbp *)

Definition step (s : mstate) (o : sop) : option mstate :=
  match o with
  | SPush p => let a := st_rsp s - 8 in
               Some (mkst a (st_reg s) (upd_mem (st_mem s) a (st_reg s p)))
  | SPushVal v => let a := st_rsp s - 8 in Some (mkst a (st_reg s) (upd_mem (st_mem s) a v))
  | SPushX n p => let a := st_rsp s - n in
                  Some (mkst a (st_reg s) (upd_mem (st_mem s) a (st_reg s p)))
  | SPop p => match st_mem s (st_rsp s) with
              | Some v => Some (mkst (st_rsp s + 8) (upd_reg (st_reg s) p v) (st_mem s))
              | None => None
              end
  | SPopX n p => match st_mem s (st_rsp s) with
                 | Some v => Some (mkst (st_rsp s + n) (upd_reg (st_reg s) p v) (st_mem s))
                 | None => None
                 end
  | SSub n => Some (mkst (st_rsp s - n) (st_reg s) (st_mem s))
  | SAdd n => Some (mkst (st_rsp s + n) (st_reg s) (st_mem s))
  | SMovFpSp => Some (mkst (st_rsp s) (upd_reg (st_reg s) fp (VAddr (st_rsp s))) (st_mem s))
  | SSetReg p v => Some (mkst (st_rsp s) (upd_reg (st_reg s) p v) (st_mem s))
  | SBody locals clob =>
      match st_reg s fp with
      | VAddr b =>
          Some (mkst (st_rsp s)
                     (fun q => if existsb (preg_eqb q) clob then VJunk else st_reg s q)
                     (fun a => if ((b - locals - 8 <? a) && (a <? b)) || (a <? st_rsp s)
                               then Some VJunk else st_mem s a))
      | _ => None
      end
  | SRet => match st_mem s (st_rsp s) with
            | Some VRetAddr => Some (mkst (st_rsp s + 8) (st_reg s) (st_mem s))
            | _ => None
            end
  end.

Fixpoint run (s : mstate) (ops : list sop) : option mstate :=
  match ops with
  | [] => Some s
  | o :: r => match step s o with Some s' => run s' r | None => None end
  end.

(* state at function entry: return address on top of the stack, every register holds its
   entry value *)
Definition entry_state (rsp0 : Z) (m : Z -> option sval) : mstate :=
  mkst rsp0 VInit (upd_mem m rsp0 VRetAddr).

(* ------------------------------------------------------------------ Part 4: aggregates passed by value *)
(* An aggregate after the classification of psABI 3.2.3: its size and the classes of its eightbytes.
   [cls = []] stands for class MEMORY ("if the size of an object is larger than two eightbytes [for
   aggregates without vector members] or it contains unaligned fields, it has class MEMORY").
   Alignments above 8 (long double, __m128 members) are outside this spec. *)
Inductive xsty := XScalar (t : sty) | XAggr (size : Z) (cls : list acls).

Inductive xplace :=
  | XAt (p : aplace)               (* a scalar: register or one eightbyte in memory *)
  | XInRegs (ps : list preg)       (* an aggregate spread over registers, one per eightbyte *)
  | XInMem (off size : Z).         (* an aggregate in memory at off(%rsp) before the call, occupying size bytes *)

Definition roundup8 (n : Z) : Z := (n + 7) / 8 * 8.

(* "If there are no registers available for any eightbyte of an argument, the whole argument is passed
   on the stack. If registers have already been assigned for some eightbytes of such an argument, the
   assignments get reverted." *)
Fixpoint take_regs (cs : list acls) (ni nf : nat) : option (list preg * (nat * nat)) :=
  match cs with
  | [] => Some ([], (ni, nf))
  | INTEGER :: r =>
      match nth_error int_arg_sequence ni with
      | Some g => match take_regs r (S ni) nf with
                  | Some (ps, c) => Some (PG (gpr_num g) :: ps, c) | None => None end
      | None => None
      end
  | SSE :: r =>
      if Z.of_nat nf <? sse_arg_count
      then match take_regs r ni (S nf) with
           | Some (ps, c) => Some (PX (Z.of_nat nf) :: ps, c) | None => None end
      else None
  end.

Fixpoint sysv_assign_x (ni nf : nat) (stk : Z) (ts : list xsty) : list xplace :=
  match ts with
  | [] => []
  | XScalar t :: rest =>
      match classify t with
      | INTEGER =>
          match nth_error int_arg_sequence ni with
          | Some g => XAt (AReg (PG (gpr_num g))) :: sysv_assign_x (S ni) nf stk rest
          | None => XAt (AStack stk) :: sysv_assign_x ni nf (stk + 8) rest
          end
      | SSE =>
          if Z.of_nat nf <? sse_arg_count
          then XAt (AReg (PX (Z.of_nat nf))) :: sysv_assign_x ni (S nf) stk rest
          else XAt (AStack stk) :: sysv_assign_x ni nf (stk + 8) rest
      end
  | XAggr size cls :: rest =>
      match cls, take_regs cls ni nf with
      | _ :: _, Some (ps, (ni', nf')) => XInRegs ps :: sysv_assign_x ni' nf' stk rest
      | _, _ => XInMem stk (roundup8 size) :: sysv_assign_x ni nf (stk + roundup8 size) rest
      end
  end.
Definition sysv_arg_places_x (ts : list xsty) : list xplace := sysv_assign_x 0 0 0 ts.
