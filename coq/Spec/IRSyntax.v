(* Spec/IRSyntax.v — Coq syntax of ppci IR (ppci/ir.py), the hub imported by C02, C03, C15,
   C16, C23, C24, C36.  Terms of type [modul] are produced from live ppci.ir.Module objects by
   tools/irimport.py (module_to_coq); the same data as Python nested tuples by module_to_py.

   PUBLIC INTERFACE (stable; add, do not alter)
   ------------------------------------------------------------------------------------------
   ty      := I8|I16|I32|I64|U8|U16|U32|U64|F32|F64|Ptr|Blob size align
   binop   := Add|Sub|Mul|Div|Rem|Or|And|Xor|Shl|Shr|Rol|Ror      (ir.Binop.ops, same order)
   unop    := Neg|Inv                                               (ir.Unop.ops  "-" "~")
   cond    := Ceq|Clt|Cgt|Cge|Cle|Cne                               (ir.CJump.conditions order)
   vid, bid := positive   ids, assigned in print order PER FUNCTION: the k-th value-defining
              instruction of a function (blocks in list order, instructions in order) has
              vid k (1-based); the k-th block has bid k.  Parameters are NOT numbered as vids.
   vref    := Loc v | Param n | Glob name | Unres name
              Loc   = result of the instruction with that vid in the same function
              Param = n-th parameter (0-based) of the enclosing function
              Glob  = module-level value by name (external, global variable, function/procedure)
              Unres = a name that is bound to nothing (ppci: a dangling ir.Undefined placeholder
                      left by a reader).  Never occurs in well-formed modules ([wf_modul]);
                      readers (JSON, text) use it transiently for forward references.
   cst     := CInt z | CFloat bits64   (float constants = IEEE-754 binary64 bit pattern as Z,
              i.e. int.from_bytes(struct.pack('<d', x), 'little'); never decimal text)
   instr   := IConst v n t c | IBinop v n t o a b | IUnop v n t o a | ICast v n t a
            | ILoad v n t addr volatile | IStore x addr volatile | IAlloc v n size align
            | IAddrOf v n a | ILit v n data | ICopyBlob dst src amount | IPhi v n t ins
            | IUndef v n t | ICallF v n t callee args | ICallP callee args
            | IJump b | ICJump a c b yes no | IReturn a | IExit
              (v = vid, n = the ppci value name (string), t = result type.
               IAlloc has ppci type Blob size align, ILit has Blob (len data) 1, IAddrOf has Ptr.
               IPhi inputs are in ppci dict (insertion) order.  ir.JumpTable cannot be
               constructed in ppci (its __init__ raises) and ir.InlineAsm is not representable:
               the importer refuses modules containing them.)
   block   := { b_id; b_name; b_ins }
   binding := BGlobal | BLocal                                      (ir.Binding)
   func    := { f_name; f_binding; f_ret : option ty (None = ir.Procedure);
                f_params : list (string * ty); f_blocks (entry first) }
   ext     := EVar name | EFunc name argtys ret | EProc name argtys
   init    := InitBytes bytes | InitRef t name      (items of the ir.Variable.value tuple:
              a bytes object, or the tuple (ir.ptr, "label") = address of a global)
   gvar    := { g_name; g_binding; g_amount; g_align; g_value : option (list init) }
   modul   := { m_name; m_externals; m_vars; m_funcs }

   Derived: ty_bits, ty_is_int, ty_signed, ty_is_float, instr_def, instr_uses, instr_targets,
   is_terminator, is_phi, func_instrs, func_defs, find_block, find_func, find_def, find_var,
   find_ext, global_names, successors, seq_pos.
   Equality: X_eq_dec (transparent) and X_eqb for every syntactic class, [modul_eqb] with
   [modul_eqb_spec : modul_eqb a b = true <-> a = b].
   Well-formedness (representation invariants only, NOT the ppci verifier): [wf_modul : modul ->
   bool] — ids in print order, every reference/target resolves, no Unres, phi inputs have
   distinct blocks, names of (parameters ++ values) unique per function and disjoint from the
   module-level names, block names unique per function and distinct from the value names of
   that function (ppci: SubRoutine.defined_names is shared), module-level names unique, blocks
   non-empty and ending in their only terminator.
   Constructor invariants of ppci.ir: [vref_ty f r], [ctor_ok_instr f i], [ctor_ok_modul m : bool].
   Printing: ToVal instances; [toval m] equals vlib.to_val(irimport.module_to_py(m)).
   No proofs about ppci here. *)
From PV Require Import Lib.Py Lib.Val.
From Coq Require Import String Ascii.
Open Scope Z_scope.

Inductive ty := I8 | I16 | I32 | I64 | U8 | U16 | U32 | U64 | F32 | F64 | Ptr
              | Blob (size align : Z).
Inductive binop := Add | Sub | Mul | Div | Rem | Or | And | Xor | Shl | Shr | Rol | Ror.
Inductive unop := Neg | Inv.
Inductive cond := Ceq | Clt | Cgt | Cge | Cle | Cne.
Definition vid := positive.
Definition bid := positive.
Bind Scope positive_scope with vid bid.
Inductive vref := Loc (v : vid) | Param (n : nat) | Glob (name : string) | Unres (name : string).
Inductive cst := CInt (z : Z) | CFloat (bits64 : Z).

Inductive instr :=
  | IConst (v : vid) (n : string) (t : ty) (c : cst)
  | IBinop (v : vid) (n : string) (t : ty) (o : binop) (a b : vref)
  | IUnop (v : vid) (n : string) (t : ty) (o : unop) (a : vref)
  | ICast (v : vid) (n : string) (t : ty) (a : vref)
  | ILoad (v : vid) (n : string) (t : ty) (addr : vref) (volatile : bool)
  | IStore (x addr : vref) (volatile : bool)
  | IAlloc (v : vid) (n : string) (size align : Z)
  | IAddrOf (v : vid) (n : string) (a : vref)
  | ILit (v : vid) (n : string) (data : list Z)
  | ICopyBlob (dst src : vref) (amount : Z)
  | IPhi (v : vid) (n : string) (t : ty) (ins : list (bid * vref))
  | IUndef (v : vid) (n : string) (t : ty)
  | ICallF (v : vid) (n : string) (t : ty) (callee : vref) (args : list vref)
  | ICallP (callee : vref) (args : list vref)
  | IJump (b : bid)
  | ICJump (a : vref) (c : cond) (b : vref) (yes no : bid)
  | IReturn (a : vref)
  | IExit.

Record block := mk_block { b_id : bid; b_name : string; b_ins : list instr }.
Inductive binding := BGlobal | BLocal.
Record func := mk_func { f_name : string; f_binding : binding; f_ret : option ty;
                         f_params : list (string * ty); f_blocks : list block }.
Inductive ext :=
  | EVar (name : string)
  | EFunc (name : string) (args : list ty) (ret : ty)
  | EProc (name : string) (args : list ty).
Inductive init := InitBytes (data : list Z) | InitRef (t : ty) (name : string).
Record gvar := mk_gvar { g_name : string; g_binding : binding; g_amount : Z; g_align : Z;
                         g_value : option (list init) }.
Record modul := mk_modul { m_name : string; m_externals : list ext; m_vars : list gvar;
                           m_funcs : list func }.

(* ------------------------------------------------------------------ types *)
Definition ty_bits (t : ty) : option Z :=
  match t with
  | I8 | U8 => Some 8 | I16 | U16 => Some 16 | I32 | U32 | F32 => Some 32
  | I64 | U64 | F64 => Some 64 | Ptr | Blob _ _ => None
  end.
Definition ty_is_int (t : ty) : bool :=
  match t with I8 | I16 | I32 | I64 | U8 | U16 | U32 | U64 => true | _ => false end.
Definition ty_signed (t : ty) : bool :=
  match t with I8 | I16 | I32 | I64 => true | _ => false end.
Definition ty_is_float (t : ty) : bool := match t with F32 | F64 => true | _ => false end.
Definition ty_is_blob (t : ty) : bool := match t with Blob _ _ => true | _ => false end.
(* ir.Typ.name *)
Definition ty_name (t : ty) : string :=
  match t with
  | I8 => "i8" | I16 => "i16" | I32 => "i32" | I64 => "i64"
  | U8 => "u8" | U16 => "u16" | U32 => "u32" | U64 => "u64"
  | F32 => "f32" | F64 => "f64" | Ptr => "ptr" | Blob _ _ => "blob"
  end%string.
Definition binop_name (o : binop) : string :=
  match o with
  | Add => "+" | Sub => "-" | Mul => "*" | Div => "/" | Rem => "%" | Or => "|" | And => "&"
  | Xor => "^" | Shl => "<<" | Shr => ">>" | Rol => "rol" | Ror => "ror"
  end%string.
Definition unop_name (o : unop) : string := match o with Neg => "-" | Inv => "~" end%string.
Definition cond_name (c : cond) : string :=
  match c with Ceq => "==" | Clt => "<" | Cgt => ">" | Cge => ">=" | Cle => "<=" | Cne => "!="
  end%string.
Definition binding_name (b : binding) : string :=
  match b with BGlobal => "global" | BLocal => "local" end%string.
Definition all_binops := [Add; Sub; Mul; Div; Rem; Or; And; Xor; Shl; Shr; Rol; Ror].
Definition all_unops := [Neg; Inv].
Definition all_conds := [Ceq; Clt; Cgt; Cge; Cle; Cne].
Definition basic_types := [F64; F32; I64; I32; I16; I8; U64; U32; U16; U8; Ptr]. (* ir.all_types *)

(* ------------------------------------------------------------------ instructions *)
Definition instr_def (i : instr) : option (vid * string * ty) :=
  match i with
  | IConst v n t _ | IBinop v n t _ _ _ | IUnop v n t _ _ | ICast v n t _ | ILoad v n t _ _
  | IPhi v n t _ | IUndef v n t | ICallF v n t _ _ => Some (v, n, t)
  | IAlloc v n s a => Some (v, n, Blob s a)
  | IAddrOf v n _ => Some (v, n, Ptr)
  | ILit v n d => Some (v, n, Blob (len d) 1)
  | IStore _ _ _ | ICopyBlob _ _ _ | ICallP _ _ | IJump _ | ICJump _ _ _ _ _ | IReturn _
  | IExit => None
  end.
Definition instr_uses (i : instr) : list vref :=
  match i with
  | IConst _ _ _ _ | IAlloc _ _ _ _ | ILit _ _ _ | IUndef _ _ _ | IJump _ | IExit => []
  | IBinop _ _ _ _ a b => [a; b]
  | IUnop _ _ _ _ a | ICast _ _ _ a | IAddrOf _ _ a | IReturn a => [a]
  | ILoad _ _ _ a _ => [a]
  | IStore x a _ => [x; a]
  | ICopyBlob d s _ => [d; s]
  | IPhi _ _ _ ins => map snd ins
  | ICallF _ _ _ c args => c :: args
  | ICallP c args => c :: args
  | ICJump a _ b _ _ => [a; b]
  end.
Definition instr_targets (i : instr) : list bid :=
  match i with IJump b => [b] | ICJump _ _ _ y n => [y; n] | _ => [] end.
Definition is_terminator (i : instr) : bool :=
  match i with IJump _ | ICJump _ _ _ _ _ | IReturn _ | IExit => true | _ => false end.
Definition is_phi (i : instr) : bool := match i with IPhi _ _ _ _ => true | _ => false end.

Definition func_instrs (f : func) : list instr := flat_map b_ins (f_blocks f).
Definition instrs_defs (l : list instr) : list (vid * string * ty) :=
  flat_map (fun i => match instr_def i with Some d => [d] | None => [] end) l.
Definition func_defs (f : func) : list (vid * string * ty) := instrs_defs (func_instrs f).

Definition find_block (f : func) (b : bid) : option block :=
  find (fun k => Pos.eqb (b_id k) b) (f_blocks f).
Definition find_func (m : modul) (name : string) : option func :=
  find (fun f => String.eqb (f_name f) name) (m_funcs m).
Definition find_var (m : modul) (name : string) : option gvar :=
  find (fun g => String.eqb (g_name g) name) (m_vars m).
Definition ext_name (e : ext) : string :=
  match e with EVar n | EFunc n _ _ | EProc n _ => n end.
Definition find_ext (m : modul) (name : string) : option ext :=
  find (fun e => String.eqb (ext_name e) name) (m_externals m).
Definition find_def (f : func) (v : vid) : option (vid * string * ty) :=
  find (fun d => Pos.eqb (fst (fst d)) v) (func_defs f).
(* module-level names in ppci registration order: externals, variables, subroutines *)
Definition global_names (m : modul) : list string :=
  map ext_name (m_externals m) ++ map g_name (m_vars m) ++ map f_name (m_funcs m).
Definition successors (k : block) : list bid := flat_map instr_targets (b_ins k).

(* [p; p+1; ...] of length n *)
Fixpoint seq_pos (p : positive) (n : nat) : list positive :=
  match n with O => [] | S n' => p :: seq_pos (Pos.succ p) n' end.

(* ------------------------------------------------------------------ decidable equality *)
Definition ty_eq_dec (a b : ty) : {a = b} + {a <> b}.
Proof. decide equality; apply Z.eq_dec. Defined.
Definition binop_eq_dec (a b : binop) : {a = b} + {a <> b}. Proof. decide equality. Defined.
Definition unop_eq_dec (a b : unop) : {a = b} + {a <> b}. Proof. decide equality. Defined.
Definition cond_eq_dec (a b : cond) : {a = b} + {a <> b}. Proof. decide equality. Defined.
Definition binding_eq_dec (a b : binding) : {a = b} + {a <> b}. Proof. decide equality. Defined.
Definition vref_eq_dec (a b : vref) : {a = b} + {a <> b}.
Proof. decide equality; try apply Pos.eq_dec; try apply Nat.eq_dec; apply string_dec. Defined.
Definition cst_eq_dec (a b : cst) : {a = b} + {a <> b}.
Proof. decide equality; apply Z.eq_dec. Defined.
Definition phi_in_eq_dec (a b : bid * vref) : {a = b} + {a <> b}.
Proof. decide equality; [apply vref_eq_dec | apply Pos.eq_dec]. Defined.
Definition instr_eq_dec (a b : instr) : {a = b} + {a <> b}.
Proof.
  decide equality;
    try apply Pos.eq_dec; try apply string_dec; try apply ty_eq_dec; try apply cst_eq_dec;
    try apply binop_eq_dec; try apply unop_eq_dec; try apply cond_eq_dec; try apply vref_eq_dec;
    try apply Bool.bool_dec; try apply Z.eq_dec;
    try (apply list_eq_dec; apply Z.eq_dec);
    try (apply list_eq_dec; apply vref_eq_dec);
    try (apply list_eq_dec; apply phi_in_eq_dec).
Defined.
Definition block_eq_dec (a b : block) : {a = b} + {a <> b}.
Proof.
  decide equality; [apply list_eq_dec; apply instr_eq_dec | apply string_dec | apply Pos.eq_dec].
Defined.
Definition param_eq_dec (a b : string * ty) : {a = b} + {a <> b}.
Proof. decide equality; [apply ty_eq_dec | apply string_dec]. Defined.
Definition func_eq_dec (a b : func) : {a = b} + {a <> b}.
Proof.
  decide equality.
  - apply list_eq_dec; apply block_eq_dec.
  - apply list_eq_dec; apply param_eq_dec.
  - decide equality; apply ty_eq_dec.
  - apply binding_eq_dec.
  - apply string_dec.
Defined.
Definition ext_eq_dec (a b : ext) : {a = b} + {a <> b}.
Proof.
  decide equality; try apply string_dec; try apply ty_eq_dec; apply list_eq_dec; apply ty_eq_dec.
Defined.
Definition init_eq_dec (a b : init) : {a = b} + {a <> b}.
Proof.
  decide equality; try apply string_dec; try apply ty_eq_dec; apply list_eq_dec; apply Z.eq_dec.
Defined.
Definition gvar_eq_dec (a b : gvar) : {a = b} + {a <> b}.
Proof.
  decide equality; try apply Z.eq_dec; try apply binding_eq_dec; try apply string_dec.
  decide equality. apply list_eq_dec; apply init_eq_dec.
Defined.
Definition modul_eq_dec (a b : modul) : {a = b} + {a <> b}.
Proof.
  decide equality.
  - apply list_eq_dec; apply func_eq_dec.
  - apply list_eq_dec; apply gvar_eq_dec.
  - apply list_eq_dec; apply ext_eq_dec.
  - apply string_dec.
Defined.

Definition dec2b {A} (d : forall a b : A, {a = b} + {a <> b}) (a b : A) : bool :=
  if d a b then true else false.
Lemma dec2b_spec {A} (d : forall a b : A, {a = b} + {a <> b}) a b : dec2b d a b = true <-> a = b.
Proof. unfold dec2b. destruct (d a b); split; congruence. Qed.

Definition ty_eqb := dec2b ty_eq_dec.
Definition vref_eqb := dec2b vref_eq_dec.
Definition cst_eqb := dec2b cst_eq_dec.
Definition instr_eqb := dec2b instr_eq_dec.
Definition block_eqb := dec2b block_eq_dec.
Definition func_eqb := dec2b func_eq_dec.
Definition ext_eqb := dec2b ext_eq_dec.
Definition gvar_eqb := dec2b gvar_eq_dec.
Definition modul_eqb := dec2b modul_eq_dec.
Lemma ty_eqb_spec a b : ty_eqb a b = true <-> a = b. Proof. apply dec2b_spec. Qed.
Lemma vref_eqb_spec a b : vref_eqb a b = true <-> a = b. Proof. apply dec2b_spec. Qed.
Lemma instr_eqb_spec a b : instr_eqb a b = true <-> a = b. Proof. apply dec2b_spec. Qed.
Lemma func_eqb_spec a b : func_eqb a b = true <-> a = b. Proof. apply dec2b_spec. Qed.
Lemma modul_eqb_spec a b : modul_eqb a b = true <-> a = b. Proof. apply dec2b_spec. Qed.

(* ------------------------------------------------------------------ well-formedness *)
Fixpoint mem_str (s : string) (l : list string) : bool :=
  match l with [] => false | x :: r => String.eqb s x || mem_str s r end.
Fixpoint nodup_str (l : list string) : bool :=
  match l with [] => true | x :: r => negb (mem_str x r) && nodup_str r end.
Fixpoint mem_pos (p : positive) (l : list positive) : bool :=
  match l with [] => false | x :: r => Pos.eqb p x || mem_pos p r end.
Fixpoint nodup_pos (l : list positive) : bool :=
  match l with [] => true | x :: r => negb (mem_pos x r) && nodup_pos r end.
Definition list_pos_eqb (a b : list positive) : bool :=
  dec2b (list_eq_dec Pos.eq_dec) a b.

Definition def_id (d : vid * string * ty) : vid := fst (fst d).
Definition def_name (d : vid * string * ty) : string := snd (fst d).
Definition def_ty (d : vid * string * ty) : ty := snd d.

(* names bound in the scope of a function: parameters first, then values in print order *)
Definition func_local_names (f : func) : list string :=
  map fst (f_params f) ++ map def_name (func_defs f).

Definition wf_ref (gnames : list string) (f : func) (r : vref) : bool :=
  match r with
  | Loc v => mem_pos v (map def_id (func_defs f))
  | Param n => Nat.ltb n (List.length (f_params f))
  | Glob s => mem_str s gnames
  | Unres _ => false
  end.
Definition wf_instr (gnames : list string) (f : func) (i : instr) : bool :=
  forallb (wf_ref gnames f) (instr_uses i)
  && forallb (fun b => mem_pos b (map b_id (f_blocks f))) (instr_targets i)
  && match i with
     | IPhi _ _ _ ins => nodup_pos (map fst ins)
                         && forallb (fun p => mem_pos (fst p) (map b_id (f_blocks f))) ins
     | _ => true
     end.
Fixpoint wf_block_shape (l : list instr) : bool :=
  match l with
  | [] => false
  | [i] => is_terminator i
  | i :: r => negb (is_terminator i) && wf_block_shape r
  end.
Definition wf_func (gnames : list string) (f : func) : bool :=
  list_pos_eqb (map b_id (f_blocks f)) (seq_pos 1 (List.length (f_blocks f)))
  && list_pos_eqb (map def_id (func_defs f)) (seq_pos 1 (List.length (func_defs f)))
  && negb (Nat.eqb (List.length (f_blocks f)) 0)
  && forallb (fun k => wf_block_shape (b_ins k)) (f_blocks f)
  && forallb (wf_instr gnames f) (func_instrs f)
  && nodup_str (func_local_names f)
  && forallb (fun s => negb (mem_str s gnames)) (func_local_names f)
  && nodup_str (map b_name (f_blocks f))
  && forallb (fun s => negb (mem_str s (map b_name (f_blocks f)))) (map def_name (func_defs f)).
Definition wf_init (gnames : list string) (i : init) : bool :=
  match i with InitBytes d => all_byte d | InitRef _ s => true end.
Definition wf_gvar (gnames : list string) (g : gvar) : bool :=
  match g_value g with None => true | Some l => forallb (wf_init gnames) l end.
Definition wf_modul (m : modul) : bool :=
  let gn := global_names m in
  nodup_str gn && forallb (wf_gvar gn) (m_vars m) && forallb (wf_func gn) (m_funcs m).

(* ------------------------------------------------------------------ constructor invariants
   What the constructors of ppci.ir enforce (so every live ppci module satisfies it unless it
   was mutated afterwards): operand types of Binop/Unop/Phi, ptr-typed addresses and callees,
   AddressOf of a blob, Load of a non-blob type, Alloc of at least one byte, LiteralData = bytes.
   [vref_ty f r] = the ir type of the value r refers to inside f (module-level values are ptr). *)
Definition vref_ty (f : func) (r : vref) : ty :=
  match r with
  | Loc v => match find_def f v with Some d => def_ty d | None => Ptr end
  | Param n => match nth_error (f_params f) n with Some p => snd p | None => Ptr end
  | Glob _ | Unres _ => Ptr
  end.
Definition ctor_ok_instr (f : func) (i : instr) : bool :=
  match i with
  | ILoad _ _ t a _ => ty_eqb (vref_ty f a) Ptr && negb (ty_is_blob t)
  | IStore _ a _ => ty_eqb (vref_ty f a) Ptr
  | IAlloc _ _ s _ => negb (s =? 0)
  | IAddrOf _ _ a => ty_is_blob (vref_ty f a)
  | IBinop _ _ t _ a b => ty_eqb (vref_ty f a) t && ty_eqb (vref_ty f b) t
  | IUnop _ _ t _ a => ty_eqb (vref_ty f a) t
  | IPhi _ _ t ins => forallb (fun p => ty_eqb (vref_ty f (snd p)) t) ins
  | ICallF _ _ _ c _ | ICallP c _ => ty_eqb (vref_ty f c) Ptr
  | ILit _ _ d => all_byte d
  | _ => true
  end.
Definition ctor_ok_func (f : func) : bool := forallb (ctor_ok_instr f) (func_instrs f).
Definition ctor_ok_modul (m : modul) : bool := forallb ctor_ok_func (m_funcs m).

(* ------------------------------------------------------------------ printing (ToVal) *)
Definition ty_val (t : ty) : val :=
  match t with
  | Blob s a => VT [VS "blob"; VZ s; VZ a]
  | _ => VS (ty_name t)
  end.
#[global] Instance ToVal_ty : ToVal ty := ty_val.
Definition vref_val (r : vref) : val :=
  match r with
  | Loc v => VT [VS "loc"; VZ (Zpos v)]
  | Param n => VT [VS "param"; VZ (Z.of_nat n)]
  | Glob s => VT [VS "glob"; VS s]
  | Unres s => VT [VS "unres"; VS s]
  end.
#[global] Instance ToVal_vref : ToVal vref := vref_val.
Definition cst_val (c : cst) : val :=
  match c with CInt z => VT [VS "int"; VZ z] | CFloat b => VT [VS "float"; VZ b] end.
#[global] Instance ToVal_cst : ToVal cst := cst_val.
Definition pv (p : positive) : val := VZ (Zpos p).
Definition bytes_val (l : list Z) : val := VL (map VZ l).
Definition instr_val (i : instr) : val :=
  match i with
  | IConst v n t c => VT [VS "const"; pv v; VS n; ty_val t; cst_val c]
  | IBinop v n t o a b => VT [VS "binop"; pv v; VS n; ty_val t; VS (binop_name o); vref_val a; vref_val b]
  | IUnop v n t o a => VT [VS "unop"; pv v; VS n; ty_val t; VS (unop_name o); vref_val a]
  | ICast v n t a => VT [VS "cast"; pv v; VS n; ty_val t; vref_val a]
  | ILoad v n t a vol => VT [VS "load"; pv v; VS n; ty_val t; vref_val a; VB vol]
  | IStore x a vol => VT [VS "store"; vref_val x; vref_val a; VB vol]
  | IAlloc v n s a => VT [VS "alloc"; pv v; VS n; VZ s; VZ a]
  | IAddrOf v n a => VT [VS "addressof"; pv v; VS n; vref_val a]
  | ILit v n d => VT [VS "literal"; pv v; VS n; bytes_val d]
  | ICopyBlob d s n => VT [VS "copyblob"; vref_val d; vref_val s; VZ n]
  | IPhi v n t ins => VT [VS "phi"; pv v; VS n; ty_val t;
                          VL (map (fun p => VT [pv (fst p); vref_val (snd p)]) ins)]
  | IUndef v n t => VT [VS "undefined"; pv v; VS n; ty_val t]
  | ICallF v n t c args => VT [VS "callf"; pv v; VS n; ty_val t; vref_val c; VL (map vref_val args)]
  | ICallP c args => VT [VS "callp"; vref_val c; VL (map vref_val args)]
  | IJump b => VT [VS "jump"; pv b]
  | ICJump a c b y n => VT [VS "cjump"; vref_val a; VS (cond_name c); vref_val b; pv y; pv n]
  | IReturn a => VT [VS "return"; vref_val a]
  | IExit => VT [VS "exit"]
  end.
#[global] Instance ToVal_instr : ToVal instr := instr_val.
Definition block_val (k : block) : val :=
  VT [pv (b_id k); VS (b_name k); VL (map instr_val (b_ins k))].
#[global] Instance ToVal_block : ToVal block := block_val.
Definition opt_ty_val (o : option ty) : val := match o with Some t => ty_val t | None => VNone end.
Definition func_val (f : func) : val :=
  VT [VS (f_name f); VS (binding_name (f_binding f)); opt_ty_val (f_ret f);
      VL (map (fun p => VT [VS (fst p); ty_val (snd p)]) (f_params f));
      VL (map block_val (f_blocks f))].
#[global] Instance ToVal_func : ToVal func := func_val.
Definition ext_val (e : ext) : val :=
  match e with
  | EVar n => VT [VS "evar"; VS n]
  | EFunc n args r => VT [VS "efunc"; VS n; VL (map ty_val args); ty_val r]
  | EProc n args => VT [VS "eproc"; VS n; VL (map ty_val args)]
  end.
#[global] Instance ToVal_ext : ToVal ext := ext_val.
Definition init_val (i : init) : val :=
  match i with
  | InitBytes d => VT [VS "bytes"; bytes_val d]
  | InitRef t s => VT [VS "ref"; ty_val t; VS s]
  end.
Definition gvar_val (g : gvar) : val :=
  VT [VS (g_name g); VS (binding_name (g_binding g)); VZ (g_amount g); VZ (g_align g);
      match g_value g with None => VNone | Some l => VL (map init_val l) end].
#[global] Instance ToVal_gvar : ToVal gvar := gvar_val.
Definition modul_val (m : modul) : val :=
  VT [VS (m_name m); VL (map ext_val (m_externals m)); VL (map gvar_val (m_vars m));
      VL (map func_val (m_funcs m))].
#[global] Instance ToVal_modul : ToVal modul := modul_val.

(* ------------------------------------------------------------------ sanity *)
Local Open Scope string_scope.
Example seq_pos_3 : seq_pos 1 3 = [1; 2; 3]%positive. Proof. reflexivity. Qed.
Example ex_modul : modul :=
  mk_modul "m" [EProc "ext" [I32]] [mk_gvar "g" BGlobal 4 4 (Some [InitBytes [1; 2; 3; 4]])]
    [mk_func "f" BGlobal (Some I32) [("x", I32)]
       [mk_block 1 "entry" [IConst 1 "c" I32 (CInt 5); IBinop 2 "s" I32 Add (Param 0) (Loc 1);
                            ICallP (Glob "ext") [Loc 2]; IJump 2];
        mk_block 2 "b" [IReturn (Loc 2)]]].
Example ex_modul_wf : wf_modul ex_modul = true. Proof. vm_compute. reflexivity. Qed.
Example ex_modul_eqb : modul_eqb ex_modul ex_modul = true. Proof. vm_compute. reflexivity. Qed.
