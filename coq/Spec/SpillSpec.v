(* Spec/SpillSpec.v — C06: abstract machine with stack slots, for spill code.
   Besides ordinary abstract instructions (arbitrary semantics, see RegAllocSpec) a program may
   contain abstract slot loads and stores.  That the target's generated load/store instructions
   behave like these (and which slot they address) is NOT part of this model. *)
From Coq Require Import ZArith List Bool Arith.
From PV Require Import Spec.RegAllocSpec.
Import ListNotations.
Open Scope Z_scope.

Inductive xinstr :=
| XI (i : instr)
| XLoad (d : reg) (slot : Z)       (* d := slot *)
| XStore (slot : Z) (s : reg).     (* slot := s *)

Definition slotmem := Z -> value.
Definition xstate := (nat * regfile * slotmem)%type.

Definition xstep (al : reg -> reg -> bool) (junk : nat -> junk_t) (S : semantics)
  (prog : list xinstr) (st : xstate) : xstate :=
  let '(pc, rf, mem) := st in
  match nth_error prog pc with
  | None => st
  | Some (XI i) =>
      let vals := map rf (i_uses i) in
      let outs := if i_move i then vals else sem_out S pc vals in
      (next_pc S pc i vals, writes al (junk pc) (i_defs i ++ i_clob i) outs rf, mem)
  | Some (XLoad d s) => (Datatypes.S pc, write al (junk pc) d (mem s) rf, mem)
  | Some (XStore s r) => (Datatypes.S pc, rf, fun k => if k =? s then rf r else mem k)
  end.

Fixpoint xrun (al : reg -> reg -> bool) (junk : nat -> junk_t) (S : semantics)
  (prog : list xinstr) (n : nat) (st : xstate) : xstate :=
  match n with
  | O => st
  | Datatypes.S n' => xrun al junk S prog n' (xstep al junk S prog st)
  end.

(* inserted instructions are marked [true]; the original program point that corresponds to a point
   of the rewritten program is the number of unmarked entries before it *)
Fixpoint cntb (marks : list bool) (k : nat) : nat :=
  match k with
  | O => O
  | S k' => match marks with
            | [] => k
            | true :: t => cntb t k'
            | false :: t => S (cntb t k')
            end
  end.

(* position (in the rewritten program) of the k-th unmarked entry *)
Fixpoint origb (marks : list bool) (k : nat) : nat :=
  match marks with
  | [] => k
  | true :: t => S (origb t k)
  | false :: t => match k with O => O | S k' => S (origb t k') end
  end.

(* the semantics of the rewritten program's points, seen from the original program's numbering *)
Definition reindex_semb (S : semantics) (marks : list bool) : semantics :=
  mkSem (fun k => sem_out S (origb marks k)) (fun k => sem_br S (origb marks k)).
Definition reindex_junkb (junk : nat -> junk_t) (marks : list bool) : nat -> junk_t :=
  fun k => junk (origb marks k).

(* simulation relation: a fact (l, r) says that location l of the rewritten program's state holds the
   value register r has in the original program's state *)
Inductive loc := LReg (q : reg) | LSlot (s : Z).
Definition fact := (loc * reg)%type.
Definition holds (rf' : regfile) (mem : slotmem) (rf : regfile) (f : fact) : Prop :=
  match fst f with LReg q => rf' q | LSlot s => mem s end = rf (snd f).
(* [keepf] = registers that are neither spilled nor fresh in this rewriting: they must be equal *)
Definition spill_sim (keepf : reg -> bool) (F : list fact) (rf' : regfile) (mem : slotmem)
  (rf : regfile) : Prop :=
  (forall r, keepf r = true -> rf' r = rf r) /\ (forall f, In f F -> holds rf' mem rf f).
