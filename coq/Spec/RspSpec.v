(* Spec/RspSpec.v — GDB remote serial protocol, framing and acknowledgement, as mathematics.
   Independent of ppci's code structure.  Bytes are integers (0..127 for the ASCII wire).

     packet    = '$' escaped-payload '#' h1 h2
     checksum  = (sum of the escaped-payload bytes) mod 256, written as two hex digits
     escaping  = '#', '$', '}' and '*' are sent as '}' followed by (byte XOR 0x20)
     receiver  = answers '+' to a packet whose checksum matches, '-' otherwise
     sender    = retransmits on '-', stops on '+', gives up after a bounded number of
                 retransmissions. *)
From PV Require Import Lib.Py.
Open Scope Z_scope.

Definition ch_dollar : Z := 36.
Definition ch_hash : Z := 35.
Definition ch_esc : Z := 125.   (* '}' *)
Definition ch_star : Z := 42.
Definition ch_plus : Z := 43.
Definition ch_minus : Z := 45.

Definition is_ascii (c : Z) : bool := (0 <=? c) && (c <? 128).

Definition special (c : Z) : bool :=
  (c =? 35) || (c =? 36) || (c =? 125) || (c =? 42).

Definition esc1 (c : Z) : list Z := if special c then [125; Z.lxor c 32] else [c].
Definition escape (p : list Z) : list Z := flat_map esc1 p.

(* the inverse direction as a partial function: a lone trailing '}' is malformed *)
Fixpoint unescape (l : list Z) : option (list Z) :=
  match l with
  | [] => Some []
  | c :: r =>
      if c =? 125 then
        match r with
        | [] => None
        | d :: r' => option_map (cons (Z.lxor d 32)) (unescape r')
        end
      else option_map (cons c) (unescape r)
  end.

Definition checksum (l : list Z) : Z := sumZ l mod 256.

Definition hexdig (d : Z) : Z := if d <? 10 then 48 + d else 55 + d.   (* upper case *)
Definition hex2 (v : Z) : list Z := [hexdig (v / 16); hexdig (v mod 16)].

Definition hexval (c : Z) : option Z :=
  if (48 <=? c) && (c <=? 57) then Some (c - 48)
  else if (65 <=? c) && (c <=? 70) then Some (c - 55)
  else if (97 <=? c) && (c <=? 102) then Some (c - 87)
  else None.

(* the packet a conforming sender puts on the wire for [payload] *)
Definition frame (payload : list Z) : list Z :=
  36 :: escape payload ++ 35 :: hex2 (checksum (escape payload)).

(* [w] is a well-formed packet carrying [payload] *)
Definition is_frame_of (w payload : list Z) : Prop :=
  exists body h1 h2 a b,
    w = 36 :: body ++ [35; h1; h2] /\ ~ In 35 body /\
    hexval h1 = Some a /\ hexval h2 = Some b /\ 16 * a + b = checksum body /\
    unescape body = Some payload.

(* [w] has the outer shape of a packet but its two check digits are hex digits whose value is
   not the checksum of the body *)
Definition is_bad_checksum_frame (w : list Z) : Prop :=
  exists body h1 h2 a b,
    w = 36 :: body ++ [35; h1; h2] /\ ~ In 35 body /\
    hexval h1 = Some a /\ hexval h2 = Some b /\ 16 * a + b <> checksum body.

(* sender: what must happen for a given sequence of acknowledgement bytes ('+' = 43, anything
   else counts as a negative acknowledgement) with [budget] permitted retransmissions.
   Result: (acknowledged?, number of transmissions including the first). *)
Fixpoint sender_spec (budget : nat) (acks : list Z) {struct acks} : option bool * nat :=
  match acks with
  | [] => (None, 1%nat)                       (* still waiting *)
  | a :: rest =>
      if a =? 43 then (Some true, 1%nat)
      else match budget with
           | O => (Some false, 1%nat)         (* budget exhausted: give up *)
           | S k => let '(r, n) := sender_spec k rest in (r, S n)
           end
  end.
