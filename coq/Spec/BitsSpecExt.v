(* Spec/BitsSpecExt.v — further mathematical definitions for C39 (wave 5), independent of ppci.
   Kept apart from BitsSpec.v so that files of other properties importing BitsSpec are not rebuilt. *)
From PV Require Import Lib.Py.
Open Scope Z_scope.

(* r is v rounded up to a multiple of m (m > 0): the least multiple of m that is >= v *)
Definition is_align_up (m v r : Z) : Prop := v <= r < v + m /\ r mod m = 0.

(* ... and that pins r down: any multiple of m that is >= v is >= r *)
Lemma is_align_up_least m v r : 0 < m -> is_align_up m v r ->
  forall r', v <= r' -> r' mod m = 0 -> r <= r'.
Proof.
  intros Hm [Hr Hz] r' Hv Hz'.
  apply Z.mod_divide in Hz; [|lia]. apply Z.mod_divide in Hz'; [|lia].
  destruct Hz as [a ->]. destruct Hz' as [b ->].
  assert (a <= b); [|nia]. destruct (Z_le_gt_dec a b); [assumption|]. nia.
Qed.

(* the range of values ppci's wrap_negative accepts for an n-bit field: signed or unsigned reading *)
Definition fits_field (n v : Z) : Prop := - 2 ^ (n - 1) <= v < 2 ^ n.
(* the n-bit two's-complement signed range *)
Definition fits_signed (n v : Z) : Prop := - 2 ^ (n - 1) <= v < 2 ^ (n - 1).
