(* Spec/WasmMemSpec.v — linear memory of the WebAssembly core spec, independent of ppci:
   memory.grow (4.4.7, 4.5.3.9 "growing memories"), integer loads and stores (4.4.7 t.load / t.loadN_sx /
   t.store / t.storeN: little-endian bytes, sign/zero extension, wrap to N bits, bounds check on the
   effective address ea = i + offset without wrap-around), active data segments (4.5.4).
   A memory is its byte list (length = pages * 65536); iN values are 0 <= v < 2^N as in WasmNumSpec. *)
From Coq Require Import ZArith List Bool.
Import ListNotations.
Open Scope Z_scope.

(* ---- memory.grow.  Sizes in pages; [max = None] = no declared maximum (hard limit 65536 pages).
   Result: (value pushed, new size).  Failure pushes -1 and leaves the size unchanged. *)
Definition mem_grow (size : Z) (max : option Z) (n : Z) : Z * Z :=
  let n := n mod 2 ^ 32 in                                  (* the operand is an unsigned i32 *)
  let limit := match max with Some m => m | None => 65536 end in
  if size + n <=? limit then (size, size + n) else (-1, size).

Example grow_to_exactly_max : mem_grow 1 (Some 3) 2 = (1, 3). Proof. reflexivity. Qed.
Example grow_zero_at_max : mem_grow 2 (Some 2) 0 = (2, 2). Proof. reflexivity. Qed.
Example grow_beyond_max : mem_grow 3 (Some 3) 1 = (-1, 3). Proof. reflexivity. Qed.
Example grow_no_max : mem_grow 1 None 1 = (1, 2). Proof. reflexivity. Qed.
Example grow_minus_one : mem_grow 1 None (-1) = (-1, 1). Proof. reflexivity. Qed.

(* ---- little-endian byte strings *)
Fixpoint le_value (l : list Z) : Z := match l with [] => 0 | b :: r => b + 256 * le_value r end.
Fixpoint le_bytes (n : nat) (v : Z) : list Z :=
  match n with O => [] | S k => v mod 256 :: le_bytes k (v / 256) end.

Definition mlen (mem : list Z) : Z := Z.of_nat (length mem).

(* ---- loads: [width] bytes at ea = a + off; sx = sign-extend from 8*width to N bits (else zero-extend).
   a is the i32 address operand (0 <= a < 2^32), off the static offset.  None = trap. *)
Definition mem_load (mem : list Z) (width : nat) (sx : bool) (N : Z) (a off : Z) : option Z :=
  let ea := a + off in
  if ea + Z.of_nat width <=? mlen mem then
    let v := le_value (firstn width (skipn (Z.to_nat ea) mem)) in
    let m := 8 * Z.of_nat width in
    Some (if sx then (if v <? 2 ^ (m - 1) then v else v - 2 ^ m) mod 2 ^ N else v)
  else None.

(* ---- stores: the low [width] bytes of v, little-endian.  None = trap (memory unchanged). *)
Definition mem_store (mem : list Z) (width : nat) (a off v : Z) : option (list Z) :=
  let ea := a + off in
  if ea + Z.of_nat width <=? mlen mem then
    Some (firstn (Z.to_nat ea) mem ++ le_bytes width (v mod 2 ^ (8 * Z.of_nat width))
          ++ skipn (Z.to_nat ea + width) mem)
  else None.

(* ---- an active data segment copies its bytes to [off]; it must fit (otherwise instantiation fails) *)
Definition mem_init (mem : list Z) (off : Z) (data : list Z) : option (list Z) :=
  if (0 <=? off) && (off + mlen data <=? mlen mem) then
    Some (firstn (Z.to_nat off) mem ++ data ++ skipn (Z.to_nat off + length data) mem)
  else None.

Example load8_s_ff : mem_load [1; 255; 3; 4] 1 true 32 1 0 = Some 4294967295. Proof. reflexivity. Qed.
Example load16_u : mem_load [1; 255; 3; 4] 2 false 32 0 1 = Some 1023. Proof. reflexivity. Qed.
Example load_last : mem_load [1; 2; 3; 4] 4 false 32 0 0 = Some 67305985. Proof. reflexivity. Qed.
Example load_past : mem_load [1; 2; 3; 4] 4 false 32 1 0 = None. Proof. reflexivity. Qed.
Example store16_trunc : mem_store [0; 0; 0; 0] 2 1 0 74565 = Some [0; 69; 35; 0]. Proof. reflexivity. Qed.
