(* Spec/WasmMemSpec.v — the memory.grow rule of the WebAssembly core spec (4.4.7 memory.grow, 4.5.3.9
   "growing memories"), stated as a function.  Sizes are in pages; [max = None] = no declared maximum
   (hard limit 65536 pages).  Result: (value pushed, new size).  Failure pushes -1 and leaves the size
   unchanged.  NO theorem about ppci uses this yet: the memory/globals behaviour of C22 is validated by
   the differential search stage tools/props/c22_mem.py only. *)
From Coq Require Import ZArith.
Open Scope Z_scope.

Definition mem_grow (size : Z) (max : option Z) (n : Z) : Z * Z :=
  let n := n mod 2 ^ 32 in                                  (* the operand is an unsigned i32 *)
  let limit := match max with Some m => m | None => 65536 end in
  if size + n <=? limit then (size, size + n) else (-1, size).

Example grow_to_exactly_max : mem_grow 1 (Some 3) 2 = (1, 3). Proof. reflexivity. Qed.
Example grow_zero_at_max : mem_grow 2 (Some 2) 0 = (2, 2). Proof. reflexivity. Qed.
Example grow_beyond_max : mem_grow 3 (Some 3) 1 = (-1, 3). Proof. reflexivity. Qed.
Example grow_no_max : mem_grow 1 None 1 = (1, 2). Proof. reflexivity. Qed.
Example grow_minus_one : mem_grow 1 None (-1) = (-1, 1). Proof. reflexivity. Qed.
