(* Spec/PyStmtSpec.v -- big-step semantics of the Python statement subset of property C36, as
   CPython executes it on int variables, restricted to executions whose every integer value
   fits a signed 64-bit word (expressions and conditions: Spec/PyExprSpec.v, [eval64]/[evalc64]).
   Variables are numbered slots of an environment [list Z] (all bound: the property's subset
   binds every local before use).  Relational: [pexec s env out] holds when executing s from env
   terminates with outcome out; an exception, a 64-bit overflow or non-termination have no
   derivation.  Outcomes: normal completion, break, continue, return v.
   `for x in range(a, b)`: a then b are evaluated once; x is bound to a, a+1, ..., b-1 in turn
   (the iteration sequence does not depend on assignments to x in the body); `continue` goes
   to the next value, `break` leaves the loop; x keeps its last binding.  `elif` is an `if` in
   the else branch.  Independent of ppci: no IR, no blocks, no phi. *)
From Coq Require Import ZArith List Bool.
From PV Require Import Spec.PyExprSpec.
Import ListNotations.
Open Scope Z_scope.

Inductive pstmt :=
  | PSPass
  | PSAssign (x : nat) (e : pexpr)
  | PSAug (x : nat) (o : pbin) (e : pexpr)            (* x o= e *)
  | PSSeq (a b : pstmt)
  | PSIf (c : pcond) (a b : pstmt)
  | PSWhile (c : pcond) (b : pstmt)
  | PSFor (x : nat) (a b : pexpr) (body : pstmt)      (* for x in range(a, b); range(n) = range(0, n) *)
  | PSBreak
  | PSContinue
  | PSRet (e : pexpr)
  | PSTuple (xs : list nat) (es : list pexpr)
  | PSCall (x : nat) (f : nat) (args : list pexpr).   (* x = f(e1, ..., en), f a function of the module *)        (* x1, ..., xn = e1, ..., en *)

Inductive pout := PNormal (env : list Z) | PBrk (env : list Z) | PCnt (env : list Z) | PRet (v : Z).
Definition is_normal (o : pout) : bool := match o with PNormal _ => true | _ => false end.
(* outcomes of a loop body after which the loop goes on *)
Definition continues (o : pout) : option (list Z) :=
  match o with PNormal e | PCnt e => Some e | _ => None end.

Fixpoint pset (x : nat) (v : Z) (env : list Z) : option (list Z) :=
  match x, env with
  | O, _ :: r => Some (v :: r)
  | S x', y :: r => match pset x' v r with Some r' => Some (y :: r') | None => None end
  | _, [] => None
  end.

(* tuple assignment: all right-hand values in the OLD store, left to right; then the targets are
   bound left to right (a repeated target keeps the last value) *)
Fixpoint eval64_list (env : list Z) (es : list pexpr) : option (list Z) :=
  match es with
  | [] => Some []
  | e :: r => match eval64 env e, eval64_list env r with
              | Some v, Some vs => Some (v :: vs) | _, _ => None end
  end.
Fixpoint pset_list (xs : list nat) (vs : list Z) (env : list Z) : option (list Z) :=
  match xs, vs with
  | [], [] => Some env
  | x :: xr, v :: vr => match pset x v env with Some e1 => pset_list xr vr e1 | None => None end
  | _, _ => None
  end.

(* [fenv]: the functions (`def`s) of the module by number: (number of locals besides the parameters,
   body).  A call evaluates the arguments left to right, runs the body on fresh variables
   (parameters = argument values, the other locals unbound -- modelled as 0, never read before
   being assigned in the subset) until it returns, and binds the result.  Recursion is
   unrestricted: a derivation exists exactly for terminating executions. *)
Inductive pexec (fenv : nat -> option (nat * pstmt)) : pstmt -> list Z -> pout -> Prop :=
  | E_pass env : pexec fenv PSPass env (PNormal env)
  | E_assign env x e v env' :
      eval64 env e = Some v -> pset x v env = Some env' -> pexec fenv (PSAssign x e) env (PNormal env')
  | E_aug env x o e v env' :
      eval64 env (PBin o (PVar x) e) = Some v -> pset x v env = Some env' ->
      pexec fenv (PSAug x o e) env (PNormal env')
  | E_seq_n env a b e1 o :
      pexec fenv a env (PNormal e1) -> pexec fenv b e1 o -> pexec fenv (PSSeq a b) env o
  | E_seq_x env a b o :
      pexec fenv a env o -> is_normal o = false -> pexec fenv (PSSeq a b) env o
  | E_if env c a b bv o :
      evalc64 env c = Some bv -> pexec fenv (if bv then a else b) env o -> pexec fenv (PSIf c a b) env o
  | E_while_f env c b :
      evalc64 env c = Some false -> pexec fenv (PSWhile c b) env (PNormal env)
  | E_while_step env c b o1 e1 o :
      evalc64 env c = Some true -> pexec fenv b env o1 -> continues o1 = Some e1 ->
      pexec fenv (PSWhile c b) e1 o -> pexec fenv (PSWhile c b) env o
  | E_while_brk env c b e1 :
      evalc64 env c = Some true -> pexec fenv b env (PBrk e1) -> pexec fenv (PSWhile c b) env (PNormal e1)
  | E_while_ret env c b v :
      evalc64 env c = Some true -> pexec fenv b env (PRet v) -> pexec fenv (PSWhile c b) env (PRet v)
  | E_for env x a b body va vb o :
      eval64 env a = Some va -> eval64 env b = Some vb ->
      pfor fenv x body (py_range va vb) env o -> pexec fenv (PSFor x a b body) env o
  | E_break env : pexec fenv PSBreak env (PBrk env)
  | E_continue env : pexec fenv PSContinue env (PCnt env)
  | E_ret env e v : eval64 env e = Some v -> pexec fenv (PSRet e) env (PRet v)
  | E_tuple env xs es vs env' :
      eval64_list env es = Some vs -> pset_list xs vs env = Some env' ->
      pexec fenv (PSTuple xs es) env (PNormal env')
  | E_call env x f args vs nloc body rv env' :
      eval64_list env args = Some vs -> fenv f = Some (nloc, body) ->
      pexec fenv body (vs ++ repeat 0 nloc) (PRet rv) -> pset x rv env = Some env' ->
      pexec fenv (PSCall x f args) env (PNormal env')
(* the remaining values of the range *)
with pfor (fenv : nat -> option (nat * pstmt)) : nat -> pstmt -> list Z -> list Z -> pout -> Prop :=
  | F_done x body env : pfor fenv x body [] env (PNormal env)
  | F_step x body i r env e0 o1 e1 o :
      pset x i env = Some e0 -> pexec fenv body e0 o1 -> continues o1 = Some e1 ->
      pfor fenv x body r e1 o -> pfor fenv x body (i :: r) env o
  | F_brk x body i r env e0 e1 :
      pset x i env = Some e0 -> pexec fenv body e0 (PBrk e1) -> pfor fenv x body (i :: r) env (PNormal e1)
  | F_ret x body i r env e0 v :
      pset x i env = Some e0 -> pexec fenv body e0 (PRet v) -> pfor fenv x body (i :: r) env (PRet v).

Scheme pexec_mut := Minimality for pexec Sort Prop
  with pfor_mut := Minimality for pfor Sort Prop.
